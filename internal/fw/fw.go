// Package fw is the shared machinery of the runtime monitors: deterministic
// case lists, child-process workers with journals (crash containment),
// three-valued verdict bookkeeping, evidence files, replay files and the
// known-findings matcher.
package fw

import (
	"crypto/sha256"
	"encoding/hex"
	"encoding/json"
	"fmt"
	"hash/fnv"
	"math/rand"
	"os"
	"path/filepath"
	"runtime"
	"runtime/debug"
	"sort"
	"strings"
	"sync"
	"time"
)

// Root of the verification tree (where evidence/, replay/ and
// KNOWN_FINDINGS.txt live).
var Root = "/verif"

// Repo is the llir/llvm tree the monitor was built against: /repo for every
// registered command. tools/seeds_regress_par.sh runs copies of this tree
// against scratch worktrees with a seeded change applied, and points Root and
// Repo at its copies through VERIF_ROOT / VERIF_REPO.
var Repo = "/repo"

func init() {
	if v := os.Getenv("VERIF_ROOT"); v != "" {
		Root = v
	}
	if v := os.Getenv("VERIF_REPO"); v != "" {
		Repo = v
	}
}

// Check describes the monitor of one property.
type Check struct {
	ID    string // property id, e.g. "C09"
	Level string // MANIFEST level category
	// Rule states in words how cases are generated and what makes one
	// non-trivial/distinct.
	Rule string
	// Gen returns the deterministic case list for ctx.Tier and ctx.Seed.
	Gen func(ctx *Ctx) []Case
	// Post (optional) runs in the parent after all workers have finished, on
	// the merged record (cross-process judgements).
	Post func(ctx *Ctx, merged *Rec)
	// Race: the worker binary is built with -race and race-detector reports are
	// collected from the GORACE log.
	Race bool
	// FreshProcess runs every case in a process of its own.
	FreshProcess bool
	// Workers overrides the number of worker processes (0 = default).
	Workers int
	// MinNontrivial: a run that observed fewer distinct non-trivial cases is
	// "observed nothing" (exit 2).
	MinNontrivial int
	// Assumptions written to the evidence file.
	Assumptions []string
	// Exhaustive reports whether the run enumerated a finite space completely
	// (tier dependent).
	Exhaustive func(tier string) bool
}

// Case is one unit of work of a worker; it is executed in a child process and
// journalled before it starts.
type Case struct {
	ID  string
	Run func(r *Rec)
}

// Ctx carries the run parameters.
type Ctx struct {
	Prop    string
	Tier    string
	Seed    int64
	Scratch string // private scratch directory of this run (removed at exit)
}

// Thorough reports whether the tier is "thorough".
func (c *Ctx) Thorough() bool { return c.Tier == "thorough" }

// Pick returns q in the quick tier and t in the thorough tier.
func (c *Ctx) Pick(q, t int) int {
	if c.Thorough() {
		return t
	}
	return q
}

// Rand returns a PRNG determined by the seed, the property and the stream
// name; the tier does not take part so that quick cases are a prefix-like
// subset of thorough ones where generators use counts only.
func (c *Ctx) Rand(stream string) *rand.Rand {
	h := fnv.New64a()
	fmt.Fprintf(h, "%s/%d/%s", c.Prop, c.Seed, stream)
	return rand.New(rand.NewSource(int64(h.Sum64())))
}

// Violation is a refuting observation.
type Violation struct {
	Prop     string      `json:"property"`
	Key      string      `json:"key"`  // specific input class + misbehaviour; matched against KNOWN_FINDINGS
	What     string      `json:"what"` // one line
	CaseID   string      `json:"case_id"`
	Tier     string      `json:"tier"`
	Seed     int64       `json:"seed"`
	Input    string      `json:"input,omitempty"`
	Expected string      `json:"expected,omitempty"`
	Observed string      `json:"observed,omitempty"`
	Detail   interface{} `json:"detail,omitempty"`
}

// Rec accumulates what a case (or a worker, or the whole run) observed.
type Rec struct {
	mu sync.Mutex

	Evals      int64                       `json:"evals"`
	Distinct   map[string]int64            `json:"distinct,omitempty"` // digest or by-construction key -> count of distinct cases it stands for
	Tallies    map[string]map[string]int64 `json:"tallies,omitempty"`
	Samples    []interface{}               `json:"samples,omitempty"`
	Inconcl    map[string]int64            `json:"inconclusive,omitempty"`
	Facts      map[string]string           `json:"facts,omitempty"` // must agree across workers
	Violations []Violation                 `json:"violations,omitempty"`
	Notes      []string                    `json:"notes,omitempty"`

	caseID string
	ctx    *Ctx
}

// NewRec returns an empty record.
func NewRec(ctx *Ctx, caseID string) *Rec {
	return &Rec{ctx: ctx, caseID: caseID}
}

// Ctx returns the run context.
func (r *Rec) Ctx() *Ctx { return r.ctx }

// CaseID returns the id of the case being run.
func (r *Rec) CaseID() string { return r.caseID }

// Eval counts n executed evaluations.
func (r *Rec) Eval(n int) {
	r.mu.Lock()
	r.Evals += int64(n)
	r.mu.Unlock()
}

// Nontrivial records one distinct non-trivial case identified by digest (any
// string; it is hashed).
func (r *Rec) Nontrivial(digest string) {
	h := sha256.Sum256([]byte(digest))
	k := hex.EncodeToString(h[:8])
	r.mu.Lock()
	if r.Distinct == nil {
		r.Distinct = map[string]int64{}
	}
	r.Distinct[k] = 1
	r.mu.Unlock()
}

// NontrivialN records n cases that are distinct and non-trivial by
// construction (an enumerated block); key names the block and must be unique
// to it.
func (r *Rec) NontrivialN(key string, n int) {
	r.mu.Lock()
	if r.Distinct == nil {
		r.Distinct = map[string]int64{}
	}
	r.Distinct["#"+key] = int64(n)
	r.mu.Unlock()
}

// Tally counts an observed construct.
func (r *Rec) Tally(cat, key string) { r.TallyN(cat, key, 1) }

// TallyN counts an observed construct n times.
func (r *Rec) TallyN(cat, key string, n int) {
	r.mu.Lock()
	if r.Tallies == nil {
		r.Tallies = map[string]map[string]int64{}
	}
	m := r.Tallies[cat]
	if m == nil {
		m = map[string]int64{}
		r.Tallies[cat] = m
	}
	m[key] += int64(n)
	r.mu.Unlock()
}

// Sample keeps v as a literal sample (a few per case are kept; the parent
// keeps a bounded number overall).
func (r *Rec) Sample(v interface{}) {
	r.mu.Lock()
	if len(r.Samples) < 3 {
		r.Samples = append(r.Samples, v)
	}
	r.mu.Unlock()
}

// Inconclusive counts a case that could not be judged, by reason.
func (r *Rec) Inconclusive(reason string) {
	r.mu.Lock()
	if r.Inconcl == nil {
		r.Inconcl = map[string]int64{}
	}
	r.Inconcl[reason]++
	r.mu.Unlock()
}

// Fact records a value that every process observing the same key must agree
// on (used for cross-process determinism).
func (r *Rec) Fact(key, val string) {
	r.mu.Lock()
	if r.Facts == nil {
		r.Facts = map[string]string{}
	}
	if old, ok := r.Facts[key]; ok && old != val {
		r.mu.Unlock()
		r.Violate(Violation{Key: "fact-disagreement/" + key, What: "two observations of the same fact differ within one process", Expected: old, Observed: val})
		return
	}
	r.Facts[key] = val
	r.mu.Unlock()
}

// Note adds a free-text remark to the evidence.
func (r *Rec) Note(s string) {
	r.mu.Lock()
	if len(r.Notes) < 20 {
		r.Notes = append(r.Notes, s)
	}
	r.mu.Unlock()
}

// Violate records a violation.
func (r *Rec) Violate(v Violation) {
	r.mu.Lock()
	defer r.mu.Unlock()
	v.Prop = r.ctx.Prop
	v.CaseID = r.caseID
	v.Tier = r.ctx.Tier
	v.Seed = r.ctx.Seed
	if len(v.Input) > 20000 {
		v.Input = v.Input[:20000] + "\n...[truncated]"
	}
	if len(v.Observed) > 20000 {
		v.Observed = v.Observed[:20000] + "\n...[truncated]"
	}
	if len(v.Expected) > 20000 {
		v.Expected = v.Expected[:20000] + "\n...[truncated]"
	}
	// keep at most 50 violations per case, but never drop distinct keys silently
	for _, old := range r.Violations {
		if old.Key == v.Key {
			return
		}
	}
	if len(r.Violations) < 200 {
		r.Violations = append(r.Violations, v)
	}
}

// Violatef is a convenience wrapper.
func (r *Rec) Violatef(key, input, format string, a ...interface{}) {
	r.Violate(Violation{Key: key, Input: input, What: fmt.Sprintf(format, a...)})
}

// Merge adds o into r.
func (r *Rec) Merge(o *Rec) {
	r.mu.Lock()
	defer r.mu.Unlock()
	r.Evals += o.Evals
	if len(o.Distinct) > 0 && r.Distinct == nil {
		r.Distinct = map[string]int64{}
	}
	for k, v := range o.Distinct {
		if v > r.Distinct[k] {
			r.Distinct[k] = v
		}
	}
	for cat, m := range o.Tallies {
		if r.Tallies == nil {
			r.Tallies = map[string]map[string]int64{}
		}
		if r.Tallies[cat] == nil {
			r.Tallies[cat] = map[string]int64{}
		}
		for k, v := range m {
			r.Tallies[cat][k] += v
		}
	}
	for _, s := range o.Samples {
		if len(r.Samples) < 400 {
			r.Samples = append(r.Samples, s)
		}
	}
	for k, v := range o.Inconcl {
		if r.Inconcl == nil {
			r.Inconcl = map[string]int64{}
		}
		r.Inconcl[k] += v
	}
	for k, v := range o.Facts {
		if r.Facts == nil {
			r.Facts = map[string]string{}
		}
		if old, ok := r.Facts[k]; ok && old != v {
			r.Violations = append(r.Violations, Violation{Prop: r.ctx.Prop, Tier: r.ctx.Tier, Seed: r.ctx.Seed, CaseID: o.caseID,
				Key: "fact-disagreement/" + k, What: "two processes/cases observed different values for the same fact", Expected: old, Observed: v})
			continue
		}
		r.Facts[k] = v
	}
	r.Violations = append(r.Violations, o.Violations...)
	for _, n := range o.Notes {
		if len(r.Notes) < 40 {
			r.Notes = append(r.Notes, n)
		}
	}
}

// DistinctCount returns the number of distinct non-trivial cases.
func (r *Rec) DistinctCount() int64 {
	var n int64
	for _, v := range r.Distinct {
		n += v
	}
	return n
}

// Guard runs f, turning a Go panic into (true, message, stack).
func Guard(f func()) (panicked bool, msg string, stack string) {
	defer func() {
		if e := recover(); e != nil {
			panicked = true
			msg = fmt.Sprint(e)
			stack = string(debug.Stack())
		}
	}()
	f()
	return
}

// LiveTrigger is how long GuardLive waits before it looks at the state of the
// process. It is a trigger, not a verdict: what decides is the state found.
var LiveTrigger = 10 * time.Second

// blockedState reports whether the header of a goroutine in a stack dump
// (`goroutine 7 [chan send, 2 minutes]:`) shows a goroutine that waits for
// another goroutine: for a lock, a channel, a condition or a wait group.
// Running, runnable, sleeping goroutines and those in a system call or waiting
// for I/O can still make progress by themselves.
func blockedState(head string) bool {
	i, j := strings.Index(head, "["), strings.Index(head, "]")
	if i < 0 || j < i {
		return false
	}
	st := head[i+1 : j]
	for _, p := range []string{"sync.", "semacquire", "chan send", "chan receive", "select"} {
		if strings.HasPrefix(st, p) {
			return true
		}
	}
	return false
}

// blockedInLib reports whether the goroutine g of a stack dump waits for
// another goroutine in a wait started by code of llir/llvm itself: the first
// frame that is not of the runtime or of package sync belongs to the library (a
// destination or hook of the harness that blocks underneath the library's
// frames is the harness's business and is not judged).
func blockedInLib(g string) bool {
	lines := strings.Split(g, "\n")
	if len(lines) == 0 || !blockedState(lines[0]) {
		return false
	}
	for _, l := range lines[1:] {
		if l == "" || l[0] == '\t' || strings.HasPrefix(l, "created by") {
			continue
		}
		if strings.HasPrefix(l, "runtime.") || strings.HasPrefix(l, "sync.") || strings.HasPrefix(l, "sync/") || strings.HasPrefix(l, "internal/") {
			continue
		}
		return strings.HasPrefix(l, "github.com/llir/llvm/")
	}
	return false
}

// GuardLive runs f like Guard, in a goroutine of its own, and recognises a call
// that can never return: the goroutine running f is inside llir/llvm waiting
// for another goroutine (a lock, a channel, a wait group), its stack is the
// same in two looks two seconds apart, and every other goroutine that is inside
// llir/llvm waits in the same way, so nobody is left who could let it go on
// (the library's locks and channels are used by library code only; a goroutine
// that sleeps, runs, or is in a system call or waiting for I/O counts as able
// to make progress). hung is then true and witness holds the
// stack; the goroutine is abandoned. Any other state (a slow machine, a
// blocked destination) is waited for: the driver's case watchdog, whose firing
// is inconclusive, bounds that.
func GuardLive(f func()) (panicked bool, msg string, stack string, hung bool, witness string) {
	done := make(chan struct{})
	go func() {
		defer close(done)
		panicked, msg, stack = Guard(f)
	}()
	look := func() (string, bool) {
		buf := make([]byte, 4<<20)
		buf = buf[:runtime.Stack(buf, true)]
		mine, othersFree := "", false
		for _, g := range strings.Split(string(buf), "\n\n") {
			if strings.Contains(g, "runtime.Stack") {
				continue
			}
			head := g
			if i := strings.Index(g, "\n"); i >= 0 {
				head = g[:i]
			}
			inLib := strings.Contains(g, "github.com/llir/llvm/")
			switch {
			case strings.Contains(g, "fw.GuardLive.func1"):
				if blockedInLib(g) {
					// drop the header (it carries the waiting time) so that two looks compare
					mine = g[len(head):]
				}
			case inLib && !blockedInLib(g):
				othersFree = true
			}
		}
		return mine, mine != "" && !othersFree
	}
	t := time.NewTimer(LiveTrigger)
	defer t.Stop()
	for {
		select {
		case <-done:
			return
		case <-t.C:
			a, okA := look()
			if okA {
				select {
				case <-done:
					return
				case <-time.After(2 * time.Second):
				}
				b, okB := look()
				if okB && a == b {
					return false, "", "", true, Trunc(a, 3000)
				}
			}
			t.Reset(LiveTrigger)
		}
	}
}

// ShortHash returns a short hex digest of s.
func ShortHash(s string) string {
	h := sha256.Sum256([]byte(s))
	return hex.EncodeToString(h[:6])
}

// Trunc shortens s for samples.
func Trunc(s string, n int) string {
	if len(s) <= n {
		return s
	}
	return s[:n] + fmt.Sprintf("...[+%d bytes]", len(s)-n)
}

// ---------------------------------------------------------------------------
// Known findings

// Finding is one line of KNOWN_FINDINGS.txt.
type Finding struct {
	Status string // "open" or "fixed"
	Prop   string
	Key    string // for open findings
	Text   string
}

// LoadFindings reads KNOWN_FINDINGS.txt (missing file = none).
func LoadFindings() []Finding {
	b, err := os.ReadFile(filepath.Join(Root, "KNOWN_FINDINGS.txt"))
	if err != nil {
		return nil
	}
	var out []Finding
	for _, line := range strings.Split(string(b), "\n") {
		line = strings.TrimSpace(line)
		if line == "" || strings.HasPrefix(line, "#") {
			continue
		}
		var f Finding
		switch {
		case strings.HasPrefix(line, "open:"):
			f.Status = "open"
			line = strings.TrimSpace(line[5:])
		case strings.HasPrefix(line, "fixed:"):
			f.Status = "fixed"
			line = strings.TrimSpace(line[6:])
		default:
			continue
		}
		fields := strings.Fields(line)
		rest := line
		for _, fld := range fields {
			if strings.HasPrefix(fld, "property=") {
				f.Prop = fld[len("property="):]
				rest = strings.TrimSpace(strings.Replace(rest, fld, "", 1))
			} else if strings.HasPrefix(fld, "key=") && f.Status == "open" {
				f.Key = fld[len("key="):]
				rest = strings.TrimSpace(strings.Replace(rest, fld, "", 1))
			}
		}
		f.Text = rest
		out = append(out, f)
	}
	return out
}

// MatchOpen returns the open finding that lists v (same property, exact key).
func MatchOpen(fs []Finding, v Violation) *Finding {
	for i := range fs {
		f := &fs[i]
		if f.Status == "open" && f.Prop == v.Prop && f.Key != "" && f.Key == v.Key {
			return f
		}
	}
	return nil
}

// ---------------------------------------------------------------------------
// Evidence

// Evidence mirrors EVIDENCE.schema.json.
type Evidence struct {
	PropertyID  string                 `json:"property_id"`
	Tier        string                 `json:"tier"`
	Seed        int64                  `json:"seed"`
	Level       string                 `json:"level"`
	Coverage    map[string]interface{} `json:"coverage"`
	Assumptions []string               `json:"assumptions,omitempty"`
	WallS       float64                `json:"wall_s"`
	Violations  int                    `json:"violations"`
}

// WriteEvidence writes evidence/<id>.json atomically.
func WriteEvidence(e *Evidence) error {
	dir := filepath.Join(Root, "evidence")
	if err := os.MkdirAll(dir, 0o755); err != nil {
		return err
	}
	b, err := json.MarshalIndent(e, "", " ")
	if err != nil {
		return err
	}
	tmp := filepath.Join(dir, "."+e.PropertyID+".json.tmp")
	if err := os.WriteFile(tmp, append(b, '\n'), 0o644); err != nil {
		return err
	}
	return os.Rename(tmp, filepath.Join(dir, e.PropertyID+".json"))
}

// SortedKeys returns the keys of m in sorted order.
func SortedKeys[V any](m map[string]V) []string {
	ks := make([]string, 0, len(m))
	for k := range m {
		ks = append(ks, k)
	}
	sort.Strings(ks)
	return ks
}
