package fw

import (
	"bufio"
	"encoding/json"
	"fmt"
	"os"
	"os/exec"
	"path/filepath"
	"regexp"
	"runtime"
	"sort"
	"strconv"
	"strings"
	"sync"
	"syscall"
	"time"
)

// Registry of checks, filled by the props package.
var Registry = map[string]*Check{}

// Register adds a check.
func Register(c *Check) { Registry[c.ID] = c }

// caseTimeout is the watchdog for one case; its firing is "inconclusive".
var caseTimeout = 600 * time.Second

// Main is the entry point of cmd/vcheck.
func Main() {
	args := os.Args[1:]
	if len(args) >= 1 && args[0] == "--worker" {
		workerMain(args[1:])
		return
	}
	if len(args) < 1 {
		fmt.Fprintln(os.Stderr, "usage: vcheck <Cxx> [quick|thorough] [--replay file] | vcheck --list")
		os.Exit(2)
	}
	if args[0] == "--list" {
		ids := SortedKeys(Registry)
		for _, id := range ids {
			fmt.Println(id)
		}
		return
	}
	prop := args[0]
	chk := Registry[prop]
	if chk == nil {
		fmt.Fprintf(os.Stderr, "unknown property %q\n", prop)
		os.Exit(2)
	}
	tier := os.Getenv("VERIF_TIER")
	replay := ""
	for i := 1; i < len(args); i++ {
		switch args[i] {
		case "quick", "thorough":
			tier = args[i]
		case "--replay":
			if i+1 < len(args) {
				replay = args[i+1]
				i++
			}
		}
	}
	if tier != "quick" && tier != "thorough" {
		tier = "quick"
	}
	seed := int64(1)
	if s := os.Getenv("VERIF_SEED"); s != "" {
		if v, err := strconv.ParseInt(s, 10, 64); err == nil {
			seed = v
		}
	}
	os.Exit(parentMain(chk, tier, seed, replay))
}

type workerReq struct {
	Idx int `json:"idx"`
}

type workerResp struct {
	Idx int  `json:"idx"`
	Rec *Rec `json:"rec"`
	// Retire asks the driver to end this worker process after the case: a call of
	// the case never returns, its goroutine was abandoned
	Retire bool `json:"retire,omitempty"`
}

// workerMain: args = prop tier seed. Reads case indices from stdin, writes one
// JSON response per case to stdout.
func workerMain(args []string) {
	prop, tier := args[0], args[1]
	seed, _ := strconv.ParseInt(args[2], 10, 64)
	chk := Registry[prop]
	ctx := &Ctx{Prop: prop, Tier: tier, Seed: seed, Scratch: os.Getenv("VERIF_SCRATCH")}
	cases := chk.Gen(ctx)
	in := bufio.NewScanner(os.Stdin)
	in.Buffer(make([]byte, 1<<20), 1<<20)
	out := bufio.NewWriter(os.Stdout)
	for in.Scan() {
		var req workerReq
		if err := json.Unmarshal(in.Bytes(), &req); err != nil {
			fmt.Fprintln(os.Stderr, "worker: bad request:", err)
			os.Exit(3)
		}
		if req.Idx < 0 || req.Idx >= len(cases) {
			fmt.Fprintln(os.Stderr, "worker: case index out of range (generator not deterministic?)", req.Idx, len(cases))
			os.Exit(3)
		}
		c := cases[req.Idx]
		rec := NewRec(ctx, c.ID)
		fmt.Fprintf(os.Stderr, "@@case-start %d %s\n", req.Idx, c.ID)
		hung := runCaseLive(c, rec)
		fmt.Fprintf(os.Stderr, "@@case-done %d\n", req.Idx)
		b, err := json.Marshal(workerResp{Idx: req.Idx, Rec: rec, Retire: hung})
		if err != nil {
			fmt.Fprintln(os.Stderr, "worker: cannot marshal record:", err)
			os.Exit(3)
		}
		out.Write(b)
		out.WriteByte('\n')
		out.Flush()
	}
}

// runCaseLive runs the case in a goroutine of its own and looks at the state of
// the process every 2*LiveTrigger: when the goroutine of the case is inside
// llir/llvm waiting for another goroutine (a lock, a channel, a wait group),
// unchanged between two looks two seconds apart, and no other goroutine inside
// the library is able to run, the call the case made will never return. That is
// reported as a violation with the stack as witness, the goroutine is abandoned
// and the worker asks to be retired. Every other state is waited for (the
// driver's case watchdog, whose firing is inconclusive, bounds that). Cases that
// start goroutines of their own and wait for them outside the library (C13,
// fw.GuardLive in C19) are not decided here: their own monitors are.
func runCaseLive(c Case, rec *Rec) (hung bool) {
	done := make(chan struct{})
	gidc := make(chan string, 1)
	go func() {
		defer close(done)
		buf := make([]byte, 64)
		buf = buf[:runtime.Stack(buf, false)]
		gidc <- strings.Fields(string(buf))[1]
		c.Run(rec)
	}()
	gid := <-gidc
	look := func() (string, bool) {
		buf := make([]byte, 8<<20)
		buf = buf[:runtime.Stack(buf, true)]
		mine, othersFree := "", false
		for _, g := range strings.Split(string(buf), "\n\n") {
			head := g
			if i := strings.Index(g, "\n"); i >= 0 {
				head = g[:i]
			}
			inLib := strings.Contains(g, "github.com/llir/llvm/")
			switch {
			case strings.HasPrefix(head, "goroutine "+gid+" ["):
				if blockedInLib(g) {
					mine = g[len(head):]
				}
			case inLib && !blockedInLib(g):
				othersFree = true
			}
		}
		return mine, mine != "" && !othersFree
	}
	for {
		select {
		case <-done:
			return false
		case <-time.After(2 * LiveTrigger):
			a, okA := look()
			if !okA {
				continue
			}
			select {
			case <-done:
				return false
			case <-time.After(2 * time.Second):
			}
			if b, okB := look(); okB && a == b {
				rec.Violate(Violation{Key: "call-never-returns/" + c.ID,
					What:     "a call into llir/llvm made by this case never returns: its goroutine waits inside the library for another goroutine (a lock, a channel or a wait group) and no goroutine inside the library is able to run",
					Observed: Trunc(a, 4000)})
				return true
			}
		}
	}
}

type worker struct {
	id      int
	cmd     *exec.Cmd
	stdin   *bufio.Writer
	stdinC  interface{ Close() error }
	stdout  *bufio.Reader
	errPath string
	racePfx string
	raceOff map[string]int64
}

func startWorker(chk *Check, ctx *Ctx, id, gen int) (*worker, error) {
	self, err := os.Executable()
	if err != nil {
		return nil, err
	}
	w := &worker{id: id, raceOff: map[string]int64{}}
	w.errPath = filepath.Join(ctx.Scratch, fmt.Sprintf("w%d.%d.stderr", id, gen))
	errf, err := os.Create(w.errPath)
	if err != nil {
		return nil, err
	}
	cmd := exec.Command(self, "--worker", ctx.Prop, ctx.Tier, strconv.FormatInt(ctx.Seed, 10))
	cmd.Stderr = errf
	env := append(os.Environ(), "VERIF_SCRATCH="+ctx.Scratch)
	if chk.Race {
		w.racePfx = filepath.Join(ctx.Scratch, fmt.Sprintf("race.w%d.%d", id, gen))
		env = append(env, "GORACE=halt_on_error=0 history_size=3 log_path="+w.racePfx)
	}
	cmd.Env = env
	si, err := cmd.StdinPipe()
	if err != nil {
		return nil, err
	}
	so, err := cmd.StdoutPipe()
	if err != nil {
		return nil, err
	}
	if err := cmd.Start(); err != nil {
		return nil, err
	}
	errf.Close()
	w.cmd = cmd
	w.stdin = bufio.NewWriter(si)
	w.stdinC = si
	w.stdout = bufio.NewReaderSize(so, 1<<20)
	return w, nil
}

func (w *worker) stop() {
	if w == nil || w.cmd == nil {
		return
	}
	w.stdinC.Close()
	done := make(chan struct{})
	go func() { w.cmd.Wait(); close(done) }()
	select {
	case <-done:
	case <-time.After(20 * time.Second):
		w.cmd.Process.Kill()
		<-done
	}
}

func tailFile(path string, n int) string {
	b, err := os.ReadFile(path)
	if err != nil {
		return ""
	}
	if len(b) > n {
		b = b[len(b)-n:]
	}
	return string(b)
}

// raceReports returns the new race-report blocks written by the worker since
// the last call.
func (w *worker) raceReports() []string {
	if w.racePfx == "" {
		return nil
	}
	files, _ := filepath.Glob(w.racePfx + ".*")
	var out []string
	for _, f := range files {
		b, err := os.ReadFile(f)
		if err != nil {
			continue
		}
		off := w.raceOff[f]
		if int64(len(b)) <= off {
			continue
		}
		chunk := string(b[off:])
		w.raceOff[f] = int64(len(b))
		for _, blk := range strings.Split(chunk, "==================") {
			if strings.Contains(blk, "WARNING: DATA RACE") {
				out = append(out, strings.TrimSpace(blk))
			}
		}
	}
	return out
}

var frameRe = regexp.MustCompile(`(?m)^  (\S+)\(\)$`)

// raceKey de-duplicates a report by the pair of outermost llir/llvm frames of
// the two accesses (the entry points the workload called) plus the innermost
// llir/llvm frame of the writing access (the mutation at fault); line numbers
// are not part of frame names.
func raceKey(report string) (key string, inRepo bool) {
	parts := strings.Split(report, "\n\n")
	var outers []string
	writer := ""
	for _, p := range parts {
		tp := strings.TrimSpace(p)
		if strings.HasPrefix(tp, "Goroutine ") || !(strings.Contains(p, " by goroutine") || strings.Contains(p, "by main goroutine")) {
			continue
		}
		isWrite := strings.HasPrefix(tp, "Write at") || strings.HasPrefix(tp, "Previous write at") || strings.HasPrefix(tp, "WARNING: DATA RACE\nWrite at")
		inner, outer := "", ""
		for _, m := range frameRe.FindAllStringSubmatch(p, -1) {
			if strings.Contains(m[1], "github.com/llir/llvm/") {
				f := strings.TrimPrefix(m[1], "github.com/llir/llvm/")
				if inner == "" {
					inner = f
				}
				if f == "ir.(*Module).String" {
					f = "ir.(*Module).WriteTo" // String is WriteTo into a buffer: one entry point
				}
				outer = f
			}
		}
		if isWrite && writer == "" {
			writer = inner
		}
		outers = append(outers, outer)
		if len(outers) == 2 {
			break
		}
	}
	for _, t := range outers {
		if t != "" {
			inRepo = true
		}
	}
	sort.Strings(outers)
	return strings.Join(outers, "<->") + "@write:" + writer, inRepo
}

func parentMain(chk *Check, tier string, seed int64, replay string) int {
	start := time.Now()
	scratch, err := os.MkdirTemp("", "verif-"+chk.ID+"-")
	if err != nil {
		fmt.Fprintln(os.Stderr, "cannot create scratch dir:", err)
		return 2
	}
	defer os.RemoveAll(scratch)
	ctx := &Ctx{Prop: chk.ID, Tier: tier, Seed: seed, Scratch: scratch}
	var onlyCase string
	if replay != "" {
		b, err := os.ReadFile(replay)
		if err != nil {
			fmt.Fprintln(os.Stderr, "cannot read replay file:", err)
			return 2
		}
		var v Violation
		if err := json.Unmarshal(b, &v); err != nil {
			fmt.Fprintln(os.Stderr, "bad replay file:", err)
			return 2
		}
		ctx.Tier, ctx.Seed, onlyCase = v.Tier, v.Seed, v.CaseID
		tier, seed = v.Tier, v.Seed
	}
	cases := chk.Gen(ctx)
	var todo []int
	for i, c := range cases {
		if onlyCase == "" || c.ID == onlyCase {
			todo = append(todo, i)
		}
	}
	if len(todo) == 0 {
		fmt.Fprintf(os.Stderr, "%s: no cases to run (replay case %q not found)\n", chk.ID, onlyCase)
		return 2
	}
	nw := chk.Workers
	if nw == 0 {
		nw = runtime.NumCPU()
		if nw > 16 {
			nw = 16
		}
	}
	if nw > len(todo) {
		nw = len(todo)
	}
	merged := NewRec(ctx, "")
	caseTimes := map[string]float64{}
	var mu sync.Mutex
	next := 0
	take := func() (int, bool) {
		mu.Lock()
		defer mu.Unlock()
		if next >= len(todo) {
			return 0, false
		}
		i := todo[next]
		next++
		return i, true
	}
	var wg sync.WaitGroup
	machineryFailed := false
	for wi := 0; wi < nw; wi++ {
		wg.Add(1)
		go func(wi int) {
			defer wg.Done()
			gen := 0
			var w *worker
			defer func() { w.stop() }()
			for {
				idx, ok := take()
				if !ok {
					return
				}
				if w == nil {
					var err error
					w, err = startWorker(chk, ctx, wi, gen)
					gen++
					if err != nil {
						fmt.Fprintln(os.Stderr, "cannot start worker:", err)
						mu.Lock()
						machineryFailed = true
						mu.Unlock()
						return
					}
				}
				t0 := time.Now()
				b, _ := json.Marshal(workerReq{Idx: idx})
				w.stdin.Write(b)
				w.stdin.WriteByte('\n')
				w.stdin.Flush()
				type res struct {
					line []byte
					err  error
				}
				ch := make(chan res, 1)
				go func(w *worker) {
					line, err := w.stdout.ReadBytes('\n')
					ch <- res{line, err}
				}(w)
				var r res
				timedOut := false
				select {
				case r = <-ch:
				case <-time.After(caseTimeout):
					timedOut = true
					w.cmd.Process.Signal(syscall.SIGQUIT)
					select {
					case r = <-ch:
					case <-time.After(10 * time.Second):
						w.cmd.Process.Kill()
						r = <-ch
					}
				}
				cid := cases[idx].ID
				if timedOut {
					mu.Lock()
					merged.Inconclusive("watchdog: case " + cid + " exceeded " + caseTimeout.String())
					mu.Unlock()
					w.cmd.Wait()
					w = nil
					continue
				}
				if r.err != nil {
					// worker died while running the case
					w.cmd.Wait()
					tail := tailFile(w.errPath, 6000)
					races := w.raceReports()
					mu.Lock()
					if strings.Contains(tail, "worker:") && !strings.Contains(tail, "goroutine ") {
						machineryFailed = true
						fmt.Fprintln(os.Stderr, "worker failure:", tail)
					} else {
						first := firstFatalLine(tail)
						merged.Violations = append(merged.Violations, Violation{Prop: chk.ID, Tier: tier, Seed: seed, CaseID: cid,
							Key: "process-died/" + cid, What: "the process running this case died (unrecoverable fatal error): " + first, Observed: tail})
					}
					addRaces(merged, chk, tier, seed, cid, races)
					mu.Unlock()
					w = nil
					continue
				}
				var resp workerResp
				if err := json.Unmarshal(r.line, &resp); err != nil || resp.Rec == nil {
					mu.Lock()
					machineryFailed = true
					mu.Unlock()
					fmt.Fprintln(os.Stderr, "bad worker response:", err)
					return
				}
				resp.Rec.caseID = cid
				if chk.FreshProcess || resp.Retire {
					// the race detector reports each stack pair once per process: a fresh
					// process per case keeps one case from masking another (and a worker that
					// abandoned a goroutine in a call that never returns is not used again)
					w.stop()
				}
				races := w.raceReports()
				mu.Lock()
				caseTimes[cid] = time.Since(t0).Seconds()
				merged.Merge(resp.Rec)
				addRaces(merged, chk, tier, seed, cid, races)
				mu.Unlock()
				if chk.FreshProcess || resp.Retire {
					w = nil
				}
			}
		}(wi)
	}
	wg.Wait()
	if os.Getenv("VERIF_TIMES") != "" {
		ids := SortedKeys(caseTimes)
		sort.Slice(ids, func(i, j int) bool { return caseTimes[ids[i]] > caseTimes[ids[j]] })
		for i := 0; i < len(ids) && i < 15; i++ {
			fmt.Fprintf(os.Stderr, "slow case %-40s %.2fs\n", ids[i], caseTimes[ids[i]])
		}
	}
	if chk.Post != nil && onlyCase == "" {
		chk.Post(ctx, merged)
	}
	return finish(chk, ctx, merged, start, machineryFailed, replay != "")
}

func firstFatalLine(tail string) string {
	for _, l := range strings.Split(tail, "\n") {
		if strings.HasPrefix(l, "fatal error:") || strings.HasPrefix(l, "panic:") || strings.HasPrefix(l, "runtime:") || strings.HasPrefix(l, "SIG") {
			return l
		}
	}
	ls := strings.Split(strings.TrimSpace(tail), "\n")
	if len(ls) > 0 {
		return ls[0]
	}
	return ""
}

func addRaces(merged *Rec, chk *Check, tier string, seed int64, cid string, races []string) {
	scenario := cid
	if i := strings.Index(cid, "/"); i > 0 {
		scenario = cid[:i]
	}
	for _, rep := range races {
		key, inRepo := raceKey(rep)
		key = scenario + "/" + key
		merged.TallyLocked("race_reports", key)
		if !inRepo {
			// a race entirely inside the harness is a machinery bug, reported loudly but separately
			key = "harness-race/" + key
		}
		dup := false
		for _, v := range merged.Violations {
			if v.Key == "race/"+key {
				dup = true
				break
			}
		}
		if !dup {
			merged.Violations = append(merged.Violations, Violation{Prop: chk.ID, Tier: tier, Seed: seed, CaseID: cid,
				Key: "race/" + key, What: "data race reported by the Go race detector", Observed: rep})
		}
	}
}

// TallyLocked is Tally for callers that already serialise access.
func (r *Rec) TallyLocked(cat, key string) {
	if r.Tallies == nil {
		r.Tallies = map[string]map[string]int64{}
	}
	if r.Tallies[cat] == nil {
		r.Tallies[cat] = map[string]int64{}
	}
	r.Tallies[cat][key]++
}

func finish(chk *Check, ctx *Ctx, merged *Rec, start time.Time, machineryFailed, isReplay bool) int {
	findings := LoadFindings()
	// de-duplicate violations by key
	seen := map[string]bool{}
	var unlisted []Violation
	known := map[string]int{}
	var knownLines []string
	sort.SliceStable(merged.Violations, func(i, j int) bool { return merged.Violations[i].Key < merged.Violations[j].Key })
	for _, v := range merged.Violations {
		if seen[v.Key] {
			continue
		}
		seen[v.Key] = true
		if f := MatchOpen(findings, v); f != nil {
			known[v.Key]++
			knownLines = append(knownLines, fmt.Sprintf("KNOWN-FINDING: property=%s key=%s %s", v.Prop, f.Key, f.Text))
			continue
		}
		unlisted = append(unlisted, v)
	}
	for _, l := range knownLines {
		fmt.Println(l)
	}
	// listed open findings that did not show up in this run
	var notSeen []string
	for _, f := range findings {
		if f.Status == "open" && f.Prop == chk.ID && known[f.Key] == 0 {
			notSeen = append(notSeen, f.Key)
		}
	}
	replayDir := filepath.Join(Root, "replay", chk.ID)
	printed := 0
	for _, v := range unlisted {
		os.MkdirAll(replayDir, 0o755)
		p := filepath.Join(replayDir, ShortHash(v.Key)+".json")
		b, _ := json.MarshalIndent(v, "", " ")
		os.WriteFile(p, append(b, '\n'), 0o644)
		if printed < 25 {
			fmt.Printf("VIOLATION property=%s replay=%s\n", chk.ID, p)
			fmt.Printf("  key: %s\n  what: %s\n", v.Key, Trunc(v.What, 400))
			printed++
		}
	}
	if len(unlisted) > printed {
		fmt.Printf("  ... and %d more distinct violation keys (see %s)\n", len(unlisted)-printed, replayDir)
	}
	wall := time.Since(start).Seconds()
	distinct := merged.DistinctCount()
	cov := map[string]interface{}{
		"evaluations":                            merged.Evals,
		"distinct_nontrivial":                    distinct,
		"rule":                                   chk.Rule,
		"samples":                                pickSamples(merged.Samples, 8),
		"inconclusive":                           orEmpty(merged.Inconcl),
		"tallies":                                merged.Tallies,
		"known_findings_hit":                     SortedKeys(known),
		"known_findings_listed_but_not_observed": notSeen,
		"exhaustive":                             chk.Exhaustive != nil && chk.Exhaustive(ctx.Tier),
	}
	if len(merged.Notes) > 0 {
		cov["notes"] = merged.Notes
	}
	if chk.Level == "translation_validation" {
		cov["programs"] = distinct
		cov["disagreements_checked"] = len(merged.Violations)
	}
	if len(unlisted) > 0 {
		var keys []string
		for _, v := range unlisted {
			keys = append(keys, v.Key)
		}
		cov["violation_keys"] = keys
	}
	ev := &Evidence{PropertyID: chk.ID, Tier: ctx.Tier, Seed: ctx.Seed, Level: chk.Level, Coverage: cov,
		Assumptions: chk.Assumptions, WallS: wall, Violations: len(unlisted)}
	if !isReplay {
		if err := WriteEvidence(ev); err != nil {
			fmt.Fprintln(os.Stderr, "cannot write evidence:", err)
			return 2
		}
	}
	var inc int64
	for _, v := range merged.Inconcl {
		inc += v
	}
	fmt.Printf("%s %s seed=%d: evaluations=%d distinct_nontrivial=%d inconclusive=%d known_findings=%d violations=%d wall=%.1fs\n",
		chk.ID, ctx.Tier, ctx.Seed, merged.Evals, distinct, inc, len(known), len(unlisted), wall)
	if len(unlisted) > 0 {
		return 1
	}
	if machineryFailed {
		fmt.Println("MACHINERY-FAILURE: a worker could not be run; nothing is concluded")
		return 2
	}
	min := int64(chk.MinNontrivial)
	if min < 2 {
		min = 2
	}
	if !isReplay && distinct < min {
		fmt.Printf("OBSERVED-NOTHING: only %d distinct non-trivial cases (need %d); nothing is concluded\n", distinct, min)
		return 2
	}
	return 0
}

func orEmpty(m map[string]int64) map[string]int64 {
	if m == nil {
		return map[string]int64{}
	}
	return m
}

func pickSamples(s []interface{}, n int) []interface{} {
	if len(s) <= n {
		if s == nil {
			return []interface{}{}
		}
		return s
	}
	out := make([]interface{}, 0, n)
	step := len(s) / n
	for i := 0; i < n; i++ {
		out = append(out, s[i*step])
	}
	return out
}
