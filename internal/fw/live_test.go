//go:build verif

package fw

import (
	"io"
	"strings"
	"testing"
	"time"

	"github.com/llir/llvm/asm"
)

type blockingWriter struct{ ch chan struct{} }

func (w blockingWriter) Write(p []byte) (int, error) { <-w.ch; return len(p), nil }

// A destination that blocks underneath the library's frames is not a call that
// never returns in the library's sense: no verdict while it blocks, a normal
// return when it lets go.
func TestGuardLiveBlockedDestinationIsNotJudged(t *testing.T) {
	LiveTrigger = 300 * time.Millisecond
	m, err := asm.ParseString("x", "@g = global i32 0\n")
	if err != nil {
		t.Fatal(err)
	}
	w := blockingWriter{ch: make(chan struct{})}
	go func() { time.Sleep(3500 * time.Millisecond); close(w.ch) }()
	_, _, _, hung, wit := GuardLive(func() { m.WriteTo(w) })
	if hung {
		t.Fatalf("a blocked destination was reported as a call that never returns:\n%s", wit)
	}
}

func TestBlockedInLib(t *testing.T) {
	lib := "goroutine 7 [sync.Mutex.Lock, 2 minutes]:\nsync.runtime_SemacquireMutex(0x1, 0x2, 0x3)\n\t/go/src/runtime/sema.go:77 +0x25\nsync.(*Mutex).lockSlow(0xc000)\n\t/go/src/sync/mutex.go:171 +0x15d\nsync.(*Mutex).Lock(...)\n\t/go/src/sync/mutex.go:90\ngithub.com/llir/llvm/ir.(*Func).AssignIDs(0xc0)\n\t/repo/ir/func.go:150 +0x5e\nverif/props.x()\n"
	harness := "goroutine 8 [chan receive]:\nverif/internal/fw.blockingWriter.Write(...)\n\t/verif/x.go:1\nfmt.Fprint(...)\n\t/go/fmt.go:1\ngithub.com/llir/llvm/ir.(*Module).WriteTo(0xc0)\n\t/repo/ir/module.go:1\n"
	running := strings.Replace(lib, "sync.Mutex.Lock, 2 minutes", "runnable", 1)
	if !blockedInLib(lib) || blockedInLib(harness) || blockedInLib(running) {
		t.Fatalf("blockedInLib: lib=%v harness=%v running=%v", blockedInLib(lib), blockedInLib(harness), blockedInLib(running))
	}
	_ = io.Discard
}
