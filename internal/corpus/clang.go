package corpus

import (
	"errors"
	"fmt"
	"os"
	"path/filepath"
	"sort"
	"strings"

	"verif/internal/fw"
	"verif/internal/llvmref"
)

type clangConfig struct {
	name string
	args []string
	cxx  bool
	only string // only sources with this substring ("" = all C or C++ accordingly)
}

func clangConfigs(thorough bool) []clangConfig {
	base := []clangConfig{
		{name: "x86_64-O0-g", args: []string{"-O0", "-g"}},
		{name: "x86_64-O2", args: []string{"-O2"}},
		{name: "cxx-x86_64-O1-g", args: []string{"-O1", "-g"}, cxx: true},
		{name: "cxx-msvc-O0", args: []string{"-O0", "-target", "x86_64-pc-windows-msvc"}, cxx: true},
		{name: "sve-O1", args: []string{"-O1", "-target", "aarch64-linux-gnu", "-march=armv8-a+sve"}, only: "sve"},
	}
	if thorough {
		base = append(base,
			clangConfig{name: "x86_64-O1-g", args: []string{"-O1", "-g"}},
			clangConfig{name: "x86_64-O2-g", args: []string{"-O2", "-g"}},
			clangConfig{name: "x86_64-O0", args: []string{"-O0"}},
			clangConfig{name: "i686-O1", args: []string{"-O1", "-target", "i686-pc-linux-gnu"}},
			clangConfig{name: "i686-msvc-O1", args: []string{"-O1", "-target", "i686-pc-windows-msvc"}},
			clangConfig{name: "cxx-x86_64-O0", args: []string{"-O0"}, cxx: true},
			clangConfig{name: "cxx-x86_64-O2-g", args: []string{"-O2", "-g"}, cxx: true},
			clangConfig{name: "cxx-msvc-O2-g", args: []string{"-O2", "-g", "-target", "x86_64-pc-windows-msvc"}, cxx: true},
			clangConfig{name: "cxx-i686-msvc-O1", args: []string{"-O1", "-target", "i686-pc-windows-msvc"}, cxx: true},
			clangConfig{name: "sve-O0-g", args: []string{"-O0", "-g", "-target", "aarch64-linux-gnu", "-march=armv8-a+sve"}, only: "sve"},
			clangConfig{name: "sve-O2", args: []string{"-O2", "-target", "aarch64-linux-gnu", "-march=armv8-a+sve"}, only: "sve"},
		)
	}
	return base
}

// directives returns the configurations a source file asks for itself in lines
// of the form `// VERIF-CLANG[quick]: name :: args` (quick and thorough tier) or
// `// VERIF-CLANG: name :: args` (thorough tier only). A file with directives is
// compiled with those only; the shared configuration table is for files without.
func directives(file string, thorough bool) (cfgs []clangConfig, has bool) {
	b, err := os.ReadFile(file)
	if err != nil {
		return nil, false
	}
	for _, line := range strings.Split(string(b), "\n") {
		i := strings.Index(line, "VERIF-CLANG")
		if i < 0 {
			continue
		}
		has = true
		rest := line[i+len("VERIF-CLANG"):]
		quick := strings.HasPrefix(rest, "[quick]")
		rest = strings.TrimPrefix(rest, "[quick]")
		rest = strings.TrimPrefix(rest, ":")
		parts := strings.SplitN(rest, "::", 2)
		if len(parts) != 2 {
			continue
		}
		if !quick && !thorough {
			continue
		}
		cfgs = append(cfgs, clangConfig{name: strings.TrimSpace(parts[0]), args: strings.Fields(parts[1])})
	}
	return cfgs, has
}

func init() {
	ClangSources = func(thorough bool) []Source {
		files, _ := filepath.Glob(filepath.Join(fw.Root, "corpus", "c", "*.*"))
		sort.Strings(files)
		var out []Source
		add := func(f string, cfg clangConfig) {
			out = append(out, Source{ID: fmt.Sprintf("clang/%s/%s", filepath.Base(f), cfg.name), Text: func() (string, error) {
				return compileC(f, cfg)
			}})
		}
		var shared []string
		for _, f := range files {
			cfgs, has := directives(f, thorough)
			if !has {
				shared = append(shared, f)
				continue
			}
			for _, cfg := range cfgs {
				cfg.cxx = strings.HasSuffix(f, ".cpp")
				add(f, cfg)
			}
		}
		for _, cfg := range clangConfigs(thorough) {
			for _, f := range shared {
				isCxx := strings.HasSuffix(f, ".cpp")
				isSVE := strings.Contains(filepath.Base(f), "sve")
				if cfg.cxx != isCxx {
					continue
				}
				if (cfg.only == "sve") != isSVE {
					continue
				}
				add(f, cfg)
			}
		}
		return out
	}
}

func compileC(file string, cfg clangConfig) (string, error) {
	tool := llvmref.Clang
	if cfg.cxx {
		tool = llvmref.ClangXX
	}
	src, err := os.ReadFile(file)
	if err != nil {
		return "", err
	}
	args := append([]string{"-S", "-emit-llvm", "-ffreestanding", "-fno-discard-value-names", "-w", "-o", "-"}, cfg.args...)
	switch {
	case cfg.cxx:
		args = append(args, "-x", "c++", "-")
	case strings.HasSuffix(file, ".m"):
		args = append(args, "-x", "objective-c", "-")
	case strings.HasSuffix(file, ".cl"):
		args = append(args, "-x", "cl", "-")
	default:
		args = append(args, "-x", "c", "-")
	}
	so, se, e := llvmref.Run(src, tool, args...)
	if e != nil {
		return "", errors.New("clang: " + strings.TrimSpace(string(se)))
	}
	return string(so), nil
}
