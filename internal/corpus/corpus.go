// Package corpus supplies module texts to the monitors: the atom catalogue
// (W1), the .ll files shipped in /repo's testdata, llvm-stress programs (W3),
// the clang corpus (W4) and opt variants (W5). Texts are produced lazily inside
// cases so that the case list itself is cheap and deterministic.
package corpus

import (
	"fmt"
	"os"
	"path/filepath"
	"sort"
	"strings"

	"verif/internal/fw"
	"verif/internal/llvmref"
)

// Atom is a minimal module exercising one feature.
type Atom struct {
	Name string
	Text string
	File string
}

// Atoms reads every corpus/atoms/*.ll catalogue file.
func Atoms() []Atom {
	files, _ := filepath.Glob(filepath.Join(fw.Root, "corpus", "atoms", "*.ll"))
	sort.Strings(files)
	var out []Atom
	for _, f := range files {
		b, err := os.ReadFile(f)
		if err != nil {
			continue
		}
		out = append(out, SplitAtoms(filepath.Base(f), string(b))...)
	}
	return out
}

// SplitAtoms splits a catalogue file on ";;; ATOM name" lines.
func SplitAtoms(file, text string) []Atom {
	var out []Atom
	var cur *Atom
	var sb strings.Builder
	flush := func() {
		if cur != nil {
			cur.Text = sb.String()
			out = append(out, *cur)
		}
		sb.Reset()
	}
	for _, line := range strings.Split(text, "\n") {
		if strings.HasPrefix(line, ";;; ATOM ") {
			flush()
			cur = &Atom{Name: strings.TrimSpace(line[len(";;; ATOM "):]), File: file}
			continue
		}
		if cur != nil {
			sb.WriteString(line)
			sb.WriteByte('\n')
		}
	}
	flush()
	return out
}

// Source is a lazily produced module text.
type Source struct {
	ID   string
	Text func() (string, error)
}

func lit(id, text string) Source {
	return Source{ID: id, Text: func() (string, error) { return text, nil }}
}

// AtomSources returns the catalogue as sources.
func AtomSources() []Source {
	var out []Source
	for _, a := range Atoms() {
		out = append(out, lit("atom/"+a.Name, a.Text))
	}
	return out
}

// RepoTestdata returns the .ll inputs that ship with /repo (read from the
// current tree).
func RepoTestdata() []Source {
	var out []Source
	for _, pat := range []string{"/repo/asm/testdata/*.ll", "/repo/ir/testdata/*.ll"} {
		files, _ := filepath.Glob(pat)
		sort.Strings(files)
		for _, f := range files {
			f := f
			out = append(out, Source{ID: "repo/" + strings.TrimPrefix(f, "/repo/"), Text: func() (string, error) {
				b, err := os.ReadFile(f)
				return string(b), err
			}})
		}
	}
	return out
}

// String describes a source list.
func Describe(ss []Source) string {
	return fmt.Sprintf("%d sources", len(ss))
}

// StressSources returns n llvm-stress programs whose (seed,size) are drawn
// from rng; sizes in [minSize,maxSize].
func StressSources(rng interface{ Intn(int) int }, n, minSize, maxSize int) []Source {
	var out []Source
	for i := 0; i < n; i++ {
		seed := rng.Intn(1 << 30)
		size := minSize + rng.Intn(maxSize-minSize+1)
		out = append(out, Source{ID: fmt.Sprintf("stress/%d/%d", seed, size), Text: func() (string, error) {
			return llvmref.Stress(seed, size)
		}})
	}
	return out
}

// ClangSources returns the clang corpus (W4); filled in by clang.go.
var ClangSources = func(thorough bool) []Source { return nil }
