// Package llvmref wraps the LLVM 14 command line tools that the oracles use as
// reference model (validity, canonical reading, execution).
package llvmref

import (
	"bytes"
	"context"
	"errors"
	"os"
	"os/exec"
	"path/filepath"
	"strings"
	"sync"
	"time"
)

// Tool names (Debian packaging of LLVM 14).
const (
	LLVMAs     = "llvm-as-14"
	LLVMDis    = "llvm-dis-14"
	LLI        = "lli-14"
	Opt        = "opt-14"
	LLVMStress = "llvm-stress-14"
	Clang      = "clang-14"
	ClangXX    = "clang++-14"
)

// ErrCrash marks an LLVM tool that crashed (signal or internal error report);
// the case is inconclusive.
var ErrCrash = errors.New("llvm tool crashed")

// ErrTimeout marks a tool invocation stopped by the watchdog (inconclusive).
var ErrTimeout = errors.New("llvm tool watchdog fired")

// ToolTimeout is the generous watchdog for one tool invocation.
var ToolTimeout = 120 * time.Second

// Run executes tool with args and stdin.
func Run(stdin []byte, tool string, args ...string) (stdout, stderr []byte, err error) {
	ctx, cancel := context.WithTimeout(context.Background(), ToolTimeout)
	defer cancel()
	cmd := exec.CommandContext(ctx, tool, args...)
	cmd.Stdin = bytes.NewReader(stdin)
	// all callers talk to the tools through stdin/stdout; files that passes write
	// on the side (insert-gcov-profiling: <module>.gcno) must not land in /verif
	cmd.Dir = scratchDir()
	var so, se bytes.Buffer
	cmd.Stdout = &so
	cmd.Stderr = &se
	err = cmd.Run()
	if ctx.Err() != nil {
		return so.Bytes(), se.Bytes(), ErrTimeout
	}
	return so.Bytes(), se.Bytes(), err
}

var (
	scratchOnce sync.Once
	scratch     string
)

// scratchDir is the working directory of every tool invocation (
// one fixed directory, a few hundred bytes at most; nothing is read from it).
func scratchDir() string {
	scratchOnce.Do(func() {
		d := filepath.Join(os.TempDir(), "verif-llvmtools")
		if os.MkdirAll(d, 0o755) == nil {
			scratch = d
		}
	})
	return scratch
}

// Available reports whether the tools answer --version.
func Available() error {
	for _, t := range []string{LLVMAs, LLVMDis, LLI, Opt, LLVMStress, Clang} {
		if _, _, err := Run(nil, t, "--version"); err != nil {
			return errors.New(t + ": " + err.Error())
		}
	}
	return nil
}

// As assembles text (running LLVM's verifier). ok=false means LLVM rejected
// the text; msg is its diagnostic.
func As(text string) (bc []byte, msg string, ok bool, err error) {
	so, se, e := Run([]byte(text), LLVMAs, "-o", "-", "-")
	if e == ErrTimeout {
		return nil, "", false, e
	}
	if e != nil {
		if crashed(e, se) {
			return nil, strings.TrimSpace(string(se)), false, ErrCrash
		}
		return nil, strings.TrimSpace(string(se)), false, nil
	}
	return so, "", true, nil
}

func crashed(e error, stderr []byte) bool {
	if bytes.Contains(stderr, []byte("Broken module found")) || bytes.Contains(stderr, []byte("does not verify as correct")) {
		return false // the verifier rejected the module and aborted: a verdict, not a crash
	}
	if bytes.Contains(stderr, []byte("PLEASE submit a bug report")) || bytes.Contains(stderr, []byte("Stack dump:")) {
		return true
	}
	var ee *exec.ExitError
	if errors.As(e, &ee) {
		return ee.ExitCode() == -1 || ee.ExitCode() > 128
	}
	return false
}

// Dis disassembles bitcode.
func Dis(bc []byte) (string, error) {
	so, se, e := Run(bc, LLVMDis, "-o", "-", "-")
	if e != nil {
		if e == ErrTimeout {
			return "", e
		}
		return "", errors.New("llvm-dis: " + strings.TrimSpace(string(se)))
	}
	return string(so), nil
}

// Reading returns LLVM's own printing of text (llvm-as | llvm-dis), or
// ok=false with LLVM's diagnostic if it rejects the text.
func Reading(text string) (out string, msg string, ok bool, err error) {
	bc, msg, ok, err := As(text)
	if err != nil || !ok {
		return "", msg, ok, err
	}
	out, err = Dis(bc)
	if err != nil {
		return "", "", false, err
	}
	return out, "", true, nil
}

// Accepts reports whether llvm-as accepts text.
func Accepts(text string) (ok bool, msg string, err error) {
	_, msg, ok, err = As(text)
	return ok, msg, err
}

// OptS runs opt -S with the given pass arguments.
func OptS(text string, args ...string) (string, error) {
	a := append([]string{"-S", "-o", "-", "-"}, args...)
	so, se, e := Run([]byte(text), Opt, a...)
	if e != nil {
		if e == ErrTimeout {
			return "", e
		}
		return "", errors.New("opt: " + strings.TrimSpace(string(se)))
	}
	return string(so), nil
}

// Stress returns the llvm-stress program for (seed,size).
func Stress(seed, size int) (string, error) {
	so, se, e := Run(nil, LLVMStress, "-seed", itoa(seed), "-size", itoa(size), "-o", "-")
	if e != nil {
		if e == ErrTimeout {
			return "", e
		}
		return "", errors.New("llvm-stress: " + strings.TrimSpace(string(se)))
	}
	return string(so), nil
}

func itoa(i int) string {
	if i == 0 {
		return "0"
	}
	neg := i < 0
	if neg {
		i = -i
	}
	var b []byte
	for i > 0 {
		b = append([]byte{byte('0' + i%10)}, b...)
		i /= 10
	}
	if neg {
		b = append([]byte{'-'}, b...)
	}
	return string(b)
}
