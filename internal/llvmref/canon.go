package llvmref

import (
	"fmt"
	"sort"
	"strconv"
	"strings"
)

// Canon returns the canonical form of LLVM's own reading of text:
// N(llvm-dis(llvm-as(text))). ok=false means LLVM rejects text (msg is its
// diagnostic). Two texts denote the same module, up to renumbering of unnamed
// values and metadata and the ordering of definitions, iff their canonical
// forms are equal. stripped reports that LLVM dropped the debug info because
// the module has no valid "Debug Info Version" flag.
func Canon(text string) (canon string, msg string, ok bool, stripped bool, err error) {
	bc, se, e := Run([]byte(text), LLVMAs, "-o", "-", "-")
	if e == ErrTimeout {
		return "", "", false, false, e
	}
	if e != nil {
		if crashed(e, se) {
			return "", strings.TrimSpace(string(se)), false, false, ErrCrash
		}
		return "", strings.TrimSpace(string(se)), false, false, nil
	}
	stripped = strings.Contains(string(se), "ignoring debug info with an invalid version")
	out, derr := Dis(bc)
	if derr != nil {
		return "", "", false, stripped, derr
	}
	return Normalize(out), "", true, stripped, nil
}

// Normalize is the symmetric text normaliser N applied to llvm-dis output:
// the ModuleID comment is dropped, type definitions, comdats and named
// metadata are sorted by name, metadata nodes are renumbered by first visit in
// a depth-first walk from canonically ordered roots (named metadata by name,
// then the references in the module body in order) and printed by new number.
func Normalize(dis string) string {
	lines := strings.Split(dis, "\n")
	var header, types, comdats, body, named, mddefs, attrs []string
	for _, l := range lines {
		switch {
		case strings.HasPrefix(l, "; ModuleID"):
		case strings.HasPrefix(l, "source_filename") || strings.HasPrefix(l, "target "):
			header = append(header, l)
		case isTypeDef(l):
			types = append(types, l)
		case strings.HasPrefix(l, "$") && strings.Contains(l, "= comdat"):
			comdats = append(comdats, l)
		case strings.HasPrefix(l, "attributes #"):
			attrs = append(attrs, l)
		case isMDDef(l):
			mddefs = append(mddefs, l)
		case strings.HasPrefix(l, "!") && strings.Contains(l, " = !{"):
			named = append(named, l)
		default:
			body = append(body, l)
		}
	}
	sort.Strings(types)
	sort.Strings(comdats)
	sort.Strings(named)
	// metadata renumbering
	defs := map[int]string{} // old id -> rest of line after "!N = "
	var order []int
	for _, l := range mddefs {
		id, rest := splitMDDef(l)
		defs[id] = rest
		order = append(order, id)
	}
	newID := map[int]int{}
	var visit func(id int)
	visit = func(id int) {
		if _, seen := newID[id]; seen {
			return
		}
		rest, ok := defs[id]
		if !ok {
			return
		}
		newID[id] = len(newID)
		for _, ref := range mdRefs(rest) {
			visit(ref)
		}
	}
	for _, l := range named {
		for _, ref := range mdRefs(l[strings.Index(l, "=")+1:]) {
			visit(ref)
		}
	}
	for _, l := range body {
		if strings.Contains(l, "!") {
			for _, ref := range mdRefs(l) {
				visit(ref)
			}
		}
	}
	for _, id := range order {
		visit(id)
	}
	ren := func(l string) string { return renumberMD(l, newID) }
	var out []string
	out = append(out, header...)
	out = append(out, types...)
	out = append(out, comdats...)
	for _, l := range body {
		if strings.Contains(l, "!") {
			l = ren(l)
		}
		out = append(out, l)
	}
	out = append(out, attrs...)
	for _, l := range named {
		out = append(out, ren(l))
	}
	type nd struct {
		id   int
		line string
	}
	var nds []nd
	for _, id := range order {
		nds = append(nds, nd{newID[id], fmt.Sprintf("!%d = %s", newID[id], ren(defs[id]))})
	}
	sort.Slice(nds, func(i, j int) bool { return nds[i].id < nds[j].id })
	for _, n := range nds {
		out = append(out, n.line)
	}
	// squeeze blank lines
	var res []string
	for _, l := range out {
		if strings.TrimSpace(l) == "" {
			continue
		}
		res = append(res, l)
	}
	return strings.Join(res, "\n") + "\n"
}

func isTypeDef(l string) bool {
	// instructions are indented in llvm-dis output: a line starting with % in
	// column 0 is a type definition
	return strings.HasPrefix(l, "%") && strings.Contains(l, " = type ")
}

func isMDDef(l string) bool {
	if !strings.HasPrefix(l, "!") || len(l) < 2 || l[1] < '0' || l[1] > '9' {
		return false
	}
	i := 1
	for i < len(l) && l[i] >= '0' && l[i] <= '9' {
		i++
	}
	return strings.HasPrefix(l[i:], " = ")
}

func splitMDDef(l string) (int, string) {
	i := 1
	for i < len(l) && l[i] >= '0' && l[i] <= '9' {
		i++
	}
	id, _ := strconv.Atoi(l[1:i])
	return id, l[i+3:]
}

// mdRefs returns the numeric metadata references (!N) in s, in order, skipping
// string literals.
func mdRefs(s string) []int {
	var out []int
	inq := false
	for i := 0; i < len(s); i++ {
		c := s[i]
		if inq {
			if c == '"' {
				inq = false
			}
			continue
		}
		if c == '"' {
			inq = true
			continue
		}
		if c == '!' && i+1 < len(s) && s[i+1] >= '0' && s[i+1] <= '9' {
			j := i + 1
			for j < len(s) && s[j] >= '0' && s[j] <= '9' {
				j++
			}
			n, _ := strconv.Atoi(s[i+1 : j])
			out = append(out, n)
			i = j - 1
		}
	}
	return out
}

func renumberMD(s string, newID map[int]int) string {
	var sb strings.Builder
	inq := false
	for i := 0; i < len(s); i++ {
		c := s[i]
		if inq {
			sb.WriteByte(c)
			if c == '"' {
				inq = false
			}
			continue
		}
		if c == '"' {
			inq = true
			sb.WriteByte(c)
			continue
		}
		if c == '!' && i+1 < len(s) && s[i+1] >= '0' && s[i+1] <= '9' {
			j := i + 1
			for j < len(s) && s[j] >= '0' && s[j] <= '9' {
				j++
			}
			n, _ := strconv.Atoi(s[i+1 : j])
			if nn, ok := newID[n]; ok {
				fmt.Fprintf(&sb, "!%d", nn)
			} else {
				sb.WriteString(s[i:j])
			}
			i = j - 1
			continue
		}
		sb.WriteByte(c)
	}
	return sb.String()
}

// DiffLines describes the first differing line of two canonical forms.
func DiffLines(a, b string) string {
	la, lb := strings.Split(a, "\n"), strings.Split(b, "\n")
	for i := 0; i < len(la) || i < len(lb); i++ {
		var x, y string
		if i < len(la) {
			x = la[i]
		}
		if i < len(lb) {
			y = lb[i]
		}
		if x != y {
			return fmt.Sprintf("line %d:\n  input : %s\n  output: %s", i+1, x, y)
		}
	}
	return "no difference"
}
