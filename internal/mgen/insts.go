package mgen

import (
	"fmt"
	"strings"
)

func (g *gen) resName(prefix string) string {
	if g.feat.Unnamed && g.rng.Intn(3) == 0 {
		return ""
	}
	return g.fresh(prefix)
}

func (g *gen) mk(resT *Type, text string, uses ...*Val) *inst {
	in := &inst{text: text, uses: uses}
	if resT != nil {
		in.res = &Val{T: resT, name: g.resName("v")}
	}
	return in
}

func bitsOf(t *Type) int {
	switch t.K {
	case KInt:
		return t.Bits
	case KFloat:
		return floatBits[t.FK]
	case KPtr:
		return 64
	case KVec:
		return t.N * bitsOf(t.Elem)
	}
	return -1
}

// anyInt returns an int (or int vector) value from the pool, or a fresh type.
func (g *gen) intOperandType(p *pool) *Type {
	if v := p.pick(g.rng, func(t *Type) bool { return t.isInt() && t.scalar().Bits > 1 }); v != nil && g.rng.Intn(4) != 0 {
		return v.T
	}
	if g.rng.Intn(5) == 0 {
		v := g.tg.vecT(1)
		v.Elem = g.tg.intT()
		if !g.feat.Scalable {
			v.Scalable = false
		}
		return v
	}
	return g.tg.intT()
}

func (g *gen) fpOperandType(p *pool) *Type {
	if v := p.pick(g.rng, func(t *Type) bool { return t.isFP() }); v != nil && g.rng.Intn(4) != 0 {
		return v.T
	}
	if g.rng.Intn(5) == 0 {
		v := g.tg.vecT(1)
		v.Elem = Float([]string{"float", "double", "half"}[g.rng.Intn(3)])
		if !g.feat.Scalable {
			v.Scalable = false
		}
		return v
	}
	return g.tg.floatT()
}

func (g *gen) fmf() string {
	return []string{"", "", "", "fast ", "nnan ", "ninf nsz ", "arcp contract ", "afn reassoc ", "nnan ninf nsz arcp contract afn reassoc "}[g.rng.Intn(9)]
}

var icmpPreds = []string{"eq", "ne", "ugt", "uge", "ult", "ule", "sgt", "sge", "slt", "sle"}
var fcmpPreds = []string{"false", "oeq", "ogt", "oge", "olt", "ole", "one", "ord", "ueq", "ugt", "uge", "ult", "ule", "une", "uno", "true"}
var orderings = []string{"monotonic", "acquire", "release", "acq_rel", "seq_cst"}

// randInst builds one random, well-typed instruction from the pool.
func (g *gen) randInst(f *Func, p *pool) *inst {
	rng := g.rng
	for tries := 0; tries < 6; tries++ {
		switch rng.Intn(26) {
		case 0, 1: // integer binary
			t := g.intOperandType(p)
			a, b := g.operand(p, t), g.operand(p, t)
			op := []string{"add", "sub", "mul", "udiv", "sdiv", "urem", "srem", "shl", "lshr", "ashr", "and", "or", "xor"}[rng.Intn(13)]
			flags := ""
			switch op {
			case "add", "sub", "mul", "shl":
				flags = []string{"", "", "nuw ", "nsw ", "nuw nsw "}[rng.Intn(5)]
			case "udiv", "sdiv", "lshr", "ashr":
				flags = []string{"", "", "exact "}[rng.Intn(3)]
			}
			g.counts["inst:"+op]++
			return g.mk(t, fmt.Sprintf("%s %s%s %s, %s", op, flags, t, a.Ref(), b.Ref()), a, b)
		case 2: // fp binary
			t := g.fpOperandType(p)
			a, b := g.operand(p, t), g.operand(p, t)
			op := []string{"fadd", "fsub", "fmul", "fdiv", "frem"}[rng.Intn(5)]
			g.counts["inst:"+op]++
			return g.mk(t, fmt.Sprintf("%s %s%s %s, %s", op, g.fmf(), t, a.Ref(), b.Ref()), a, b)
		case 3:
			t := g.fpOperandType(p)
			a := g.operand(p, t)
			g.counts["inst:fneg"]++
			return g.mk(t, fmt.Sprintf("fneg %s%s", g.fmf(), a.TV()), a)
		case 4: // icmp
			var t *Type
			if v := p.pick(rng, func(t *Type) bool { return t.isInt() || t.isPtr() }); v != nil && rng.Intn(3) != 0 {
				t = v.T
			} else {
				t = g.intOperandType(p)
			}
			a, b := g.operand(p, t), g.operand(p, t)
			g.counts["inst:icmp"]++
			return g.mk(t.withScalar(I1), fmt.Sprintf("icmp %s %s %s, %s", icmpPreds[rng.Intn(len(icmpPreds))], t, a.Ref(), b.Ref()), a, b)
		case 5: // fcmp
			t := g.fpOperandType(p)
			a, b := g.operand(p, t), g.operand(p, t)
			g.counts["inst:fcmp"]++
			return g.mk(t.withScalar(I1), fmt.Sprintf("fcmp %s%s %s %s, %s", g.fmf(), fcmpPreds[rng.Intn(len(fcmpPreds))], t, a.Ref(), b.Ref()), a, b)
		case 6: // select
			var t *Type
			if v := p.pick(rng, func(*Type) bool { return true }); v != nil {
				t = v.T
			} else {
				t = g.tg.firstClassT(1)
			}
			condT := I1
			if t.isVec() && rng.Intn(2) == 0 {
				condT = t.withScalar(I1)
			}
			c, a, b := g.operand(p, condT), g.operand(p, t), g.operand(p, t)
			g.counts["inst:select"]++
			return g.mk(t, fmt.Sprintf("select %s, %s, %s", c.TV(), a.TV(), b.TV()), c, a, b)
		case 7, 8: // casts
			if in := g.castInst(p); in != nil {
				return in
			}
		case 9: // alloca
			t := g.tg.sizedT(2)
			if t.hasScalable() {
				continue
			}
			extra := ""
			if rng.Intn(3) == 0 {
				n := g.operand(p, I32)
				extra = ", " + n.TV()
			}
			if rng.Intn(3) == 0 {
				extra += fmt.Sprintf(", align %d", 1<<uint(rng.Intn(5)))
			}
			g.counts["inst:alloca"]++
			as := 0
			if g.feat.AllocaAS && rng.Intn(4) == 0 {
				as = 1 + rng.Intn(5)
				extra += fmt.Sprintf(", addrspace(%d)", as)
				g.counts["inst:alloca-addrspace"]++
			}
			return g.mk(Ptr(t, as), fmt.Sprintf("alloca %s%s", t, extra))
		case 10, 11: // load
			ptr := p.pick(rng, func(t *Type) bool { return t.K == KPtr && t.Elem.sized() && t.Elem.K != KFunc })
			if ptr == nil {
				continue
			}
			vol := []string{"", "", "volatile "}[rng.Intn(3)]
			al := ""
			if rng.Intn(2) == 0 {
				al = fmt.Sprintf(", align %d", 1<<uint(rng.Intn(5)))
			}
			g.counts["inst:load"]++
			return g.mk(ptr.T.Elem, fmt.Sprintf("load %s%s, %s%s", vol, ptr.T.Elem, ptr.TV(), al), ptr)
		case 12: // store
			ptr := p.pick(rng, func(t *Type) bool { return t.K == KPtr && t.Elem.sized() && t.Elem.K != KFunc })
			if ptr == nil {
				continue
			}
			v := g.operand(p, ptr.T.Elem)
			g.counts["inst:store"]++
			return g.mk(nil, fmt.Sprintf("store %s%s, %s", []string{"", "volatile "}[rng.Intn(2)], v.TV(), ptr.TV()), v, ptr)
		case 13, 14: // getelementptr
			if in := g.gepInst(p); in != nil {
				return in
			}
		case 15: // vector element ops
			vec := p.pick(rng, func(t *Type) bool { return t.isVec() })
			if vec == nil {
				continue
			}
			idxT := []*Type{I32, I64, I8}[rng.Intn(3)]
			idx := g.operand(p, idxT)
			switch rng.Intn(3) {
			case 0:
				g.counts["inst:extractelement"]++
				return g.mk(vec.T.Elem, fmt.Sprintf("extractelement %s, %s", vec.TV(), idx.TV()), vec, idx)
			case 1:
				e := g.operand(p, vec.T.Elem)
				g.counts["inst:insertelement"]++
				return g.mk(vec.T, fmt.Sprintf("insertelement %s, %s, %s", vec.TV(), e.TV(), idx.TV()), vec, e, idx)
			default:
				other := g.operand(p, vec.T)
				n := []int{1, 2, 4, vec.T.N}[rng.Intn(4)]
				maskT := Vec(n, vec.T.Scalable, I32)
				mask := "zeroinitializer"
				if !vec.T.Scalable && rng.Intn(3) != 0 {
					var es []string
					for i := 0; i < n; i++ {
						if rng.Intn(6) == 0 {
							es = append(es, "i32 undef")
						} else {
							es = append(es, fmt.Sprintf("i32 %d", rng.Intn(2*vec.T.N)))
						}
					}
					mask = "<" + strings.Join(es, ", ") + ">"
				} else if rng.Intn(2) == 0 {
					mask = "undef"
				}
				g.counts["inst:shufflevector"]++
				return g.mk(Vec(n, vec.T.Scalable, vec.T.Elem), fmt.Sprintf("shufflevector %s, %s, %s %s", vec.TV(), other.TV(), maskT, mask), vec, other)
			}
		case 16: // aggregate ops
			agg := p.pick(rng, func(t *Type) bool { return t.isAgg() && !t.isOpaque() })
			var aggT *Type
			var aggV *Val
			if agg != nil {
				aggT, aggV = agg.T, agg
			} else {
				aggT = g.tg.aggT(2)
				if aggT.hasScalable() {
					continue
				}
				aggV = &Val{T: aggT, lit: g.constOf(aggT, 2, false)}
			}
			// walk a random index path
			var path []string
			cur := aggT
			for depth := 0; depth < 3; depth++ {
				r := cur.Resolve()
				if r.K == KStruct && len(r.Fields) > 0 {
					k := rng.Intn(len(r.Fields))
					path = append(path, fmt.Sprint(k))
					cur = r.Fields[k]
				} else if r.K == KArr && r.N > 0 {
					k := rng.Intn(r.N)
					path = append(path, fmt.Sprint(k))
					cur = r.Elem
				} else {
					break
				}
				if !cur.isAgg() || rng.Intn(2) == 0 {
					break
				}
			}
			if len(path) == 0 {
				continue
			}
			if rng.Intn(2) == 0 {
				g.counts["inst:extractvalue"]++
				return g.mk(cur, fmt.Sprintf("extractvalue %s, %s", aggV.TV(), strings.Join(path, ", ")), aggV)
			}
			e := g.operand(p, cur)
			g.counts["inst:insertvalue"]++
			return g.mk(aggT, fmt.Sprintf("insertvalue %s, %s, %s", aggV.TV(), e.TV(), strings.Join(path, ", ")), aggV, e)
		case 17, 18: // call
			if in := g.callInst(f, p); in != nil {
				return in
			}
		case 19: // freeze
			v := p.pick(rng, func(t *Type) bool { return true })
			if v == nil {
				continue
			}
			g.counts["inst:freeze"]++
			return g.mk(v.T, "freeze "+v.TV(), v)
		case 20: // atomics
			if !g.feat.Atomics {
				continue
			}
			ptr := p.pick(rng, func(t *Type) bool {
				return t.K == KPtr && t.Elem.K == KInt && (t.Elem.Bits == 8 || t.Elem.Bits == 16 || t.Elem.Bits == 32 || t.Elem.Bits == 64)
			})
			if ptr == nil {
				g.counts["inst:fence"]++
				return g.mk(nil, fmt.Sprintf("fence %s%s", []string{"", "syncscope(\"singlethread\") "}[rng.Intn(2)], orderings[1+rng.Intn(4)]))
			}
			et := ptr.T.Elem
			if rng.Intn(2) == 0 {
				v := g.operand(p, et)
				op := []string{"xchg", "add", "sub", "and", "nand", "or", "xor", "max", "min", "umax", "umin"}[rng.Intn(11)]
				g.counts["inst:atomicrmw"]++
				return g.mk(et, fmt.Sprintf("atomicrmw %s%s %s, %s %s", []string{"", "volatile "}[rng.Intn(2)], op, ptr.TV(), v.TV(), orderings[rng.Intn(5)]), ptr, v)
			}
			c, n := g.operand(p, et), g.operand(p, et)
			succ := rng.Intn(5)
			fail := []string{"monotonic", "acquire", "seq_cst"}[rng.Intn(3)]
			if fail == "seq_cst" && succ != 4 {
				fail = "monotonic"
			}
			if fail == "acquire" && (succ == 0 || succ == 2) {
				fail = "monotonic"
			}
			g.counts["inst:cmpxchg"]++
			return g.mk(Struct(false, et, I1), fmt.Sprintf("cmpxchg %s%s%s, %s, %s %s %s", []string{"", "weak "}[rng.Intn(2)], []string{"", "volatile "}[rng.Intn(2)], ptr.TV(), c.TV(), n.TV(), orderings[succ], fail), ptr, c, n)
		case 21: // atomic load/store
			if !g.feat.Atomics {
				continue
			}
			ptr := p.pick(rng, func(t *Type) bool {
				return t.K == KPtr && t.Elem.K == KInt && (t.Elem.Bits == 8 || t.Elem.Bits == 32 || t.Elem.Bits == 64)
			})
			if ptr == nil {
				continue
			}
			al := ptr.T.Elem.Bits / 8
			if rng.Intn(2) == 0 {
				g.counts["inst:load-atomic"]++
				return g.mk(ptr.T.Elem, fmt.Sprintf("load atomic %s, %s %s, align %d", ptr.T.Elem, ptr.TV(), []string{"unordered", "monotonic", "acquire", "seq_cst"}[rng.Intn(4)], al), ptr)
			}
			v := g.operand(p, ptr.T.Elem)
			g.counts["inst:store-atomic"]++
			return g.mk(nil, fmt.Sprintf("store atomic %s, %s %s, align %d", v.TV(), ptr.TV(), []string{"unordered", "monotonic", "release", "seq_cst"}[rng.Intn(4)], al), v, ptr)
		default: // plain int arithmetic keeps pools rich
			t := g.intOperandType(p)
			a, b := g.operand(p, t), g.operand(p, t)
			g.counts["inst:add"]++
			return g.mk(t, fmt.Sprintf("add %s %s, %s", t, a.Ref(), b.Ref()), a, b)
		}
	}
	return nil
}

func (g *gen) castInst(p *pool) *inst {
	rng := g.rng
	v := p.pick(rng, func(t *Type) bool { return t.isInt() || t.isFP() || t.isPtr() })
	if v == nil {
		v = &Val{T: g.tg.intT(), lit: "7"}
		if v.T.Bits == 1 {
			v.lit = "true"
		}
	}
	t := v.T
	s := t.scalar()
	emit := func(op string, to *Type) *inst {
		g.counts["inst:"+op]++
		return g.mk(to, fmt.Sprintf("%s %s to %s", op, v.TV(), to), v)
	}
	switch {
	case s.K == KInt:
		switch rng.Intn(6) {
		case 0:
			if s.Bits > 1 {
				return emit("trunc", t.withScalar(Int(1+rng.Intn(s.Bits-1))))
			}
		case 1:
			return emit("zext", t.withScalar(Int(s.Bits+1+rng.Intn(64))))
		case 2:
			return emit("sext", t.withScalar(Int(s.Bits+1+rng.Intn(64))))
		case 3:
			return emit([]string{"uitofp", "sitofp"}[rng.Intn(2)], t.withScalar(Float([]string{"float", "double", "half"}[rng.Intn(3)])))
		case 4:
			return emit("inttoptr", t.withScalar(Ptr(g.tg.intT(), g.tg.as())))
		default:
			// bitcast to an fp type of the same width
			for fk, b := range floatBits {
				if b == s.Bits && fk != "ppc_fp128" && fk != "x86_fp80" && !t.isVec() {
					return emit("bitcast", Float(fk))
				}
			}
		}
	case s.K == KFloat:
		switch rng.Intn(4) {
		case 0:
			for _, fk := range floatKinds {
				if floatBits[fk] < floatBits[s.FK] && fk != "ppc_fp128" && s.FK != "ppc_fp128" {
					return emit("fptrunc", t.withScalar(Float(fk)))
				}
			}
		case 1:
			for _, fk := range []string{"fp128", "double", "float"} {
				if floatBits[fk] > floatBits[s.FK] && s.FK != "x86_fp80" {
					return emit("fpext", t.withScalar(Float(fk)))
				}
			}
		case 2:
			return emit([]string{"fptoui", "fptosi"}[rng.Intn(2)], t.withScalar(g.tg.intT()))
		default:
			if !t.isVec() && s.FK != "ppc_fp128" && s.FK != "x86_fp80" {
				return emit("bitcast", Int(floatBits[s.FK]))
			}
		}
	case s.K == KPtr:
		switch rng.Intn(3) {
		case 0:
			return emit("ptrtoint", t.withScalar([]*Type{I64, I32, I8}[rng.Intn(3)]))
		case 1:
			return emit("bitcast", t.withScalar(Ptr(g.tg.sizedT(1), s.AS)))
		default:
			if s.Elem.K != KFunc {
				return emit("addrspacecast", t.withScalar(Ptr(s.Elem, s.AS+1)))
			}
		}
	}
	return nil
}

// gepInst builds a getelementptr with a random mix of index forms.
func (g *gen) gepInst(p *pool) *inst {
	rng := g.rng
	base := p.pick(rng, func(t *Type) bool {
		return (t.K == KPtr && t.Elem.K != KFunc && !t.Elem.isOpaque()) || (t.K == KVec && t.Elem.K == KPtr && t.Elem.Elem.K != KFunc && !t.Elem.Elem.isOpaque() && t.Elem.Elem.sized())
	})
	if base == nil {
		return nil
	}
	ptrT := base.T.scalar()
	src := ptrT.Elem
	if !src.sized() {
		return nil
	}
	vecN, vecSc := 0, false
	if base.T.isVec() {
		vecN, vecSc = base.T.N, base.T.Scalable
	}
	var idx []string
	var uses []*Val
	uses = append(uses, base)
	// index forms
	index := func(structField int) {
		if structField >= 0 {
			// struct index: i32 constant (a splat vector of it when the gep is a vector gep)
			if vecN > 0 && !vecSc && rng.Intn(3) == 0 {
				var es []string
				for i := 0; i < vecN; i++ {
					es = append(es, fmt.Sprintf("i32 %d", structField))
				}
				idx = append(idx, fmt.Sprintf("<%d x i32> <%s>", vecN, strings.Join(es, ", ")))
				return
			}
			idx = append(idx, fmt.Sprintf("i32 %d", structField))
			return
		}
		it := []*Type{I32, I64, I64, I8, Int(16)}[rng.Intn(5)]
		switch rng.Intn(7) {
		case 0: // non-constant scalar index
			v := g.operand(p, it)
			idx = append(idx, v.TV())
			uses = append(uses, v)
		case 1: // vector index (makes the gep a vector gep)
			n, sc := vecN, vecSc
			if n == 0 {
				n = []int{2, 4}[rng.Intn(2)]
			}
			vt := Vec(n, sc, it)
			lit := []string{"zeroinitializer", "undef", "poison"}[rng.Intn(3)]
			if !sc && rng.Intn(2) == 0 {
				var es []string
				for i := 0; i < n; i++ {
					es = append(es, fmt.Sprintf("%s %d", it, rng.Intn(3)))
				}
				lit = "<" + strings.Join(es, ", ") + ">"
			}
			if v := p.pick(rng, func(t *Type) bool { return t.String() == vt.String() }); v != nil && rng.Intn(2) == 0 {
				lit = v.Ref()
				uses = append(uses, v)
			}
			idx = append(idx, vt.String()+" "+lit)
			vecN, vecSc = n, sc
		case 2:
			idx = append(idx, it.String()+" 0")
		default:
			idx = append(idx, fmt.Sprintf("%s %d", it, rng.Intn(3)))
		}
	}
	cur := src
	nidx := rng.Intn(4)
	if nidx > 0 {
		index(-1)
	}
	for k := 1; k < nidx; k++ {
		r := cur.Resolve()
		switch r.K {
		case KStruct:
			if len(r.Fields) == 0 {
				k = nidx
				continue
			}
			f := rng.Intn(len(r.Fields))
			index(f)
			cur = r.Fields[f]
		case KArr:
			index(-1)
			cur = r.Elem
		default:
			k = nidx
		}
	}
	res := Ptr(cur, ptrT.AS)
	if vecN > 0 {
		res = Vec(vecN, vecSc, res)
	}
	inb := []string{"", "inbounds "}[rng.Intn(2)]
	text := fmt.Sprintf("getelementptr %s%s, %s", inb, src, base.TV())
	if len(idx) > 0 {
		text += ", " + strings.Join(idx, ", ")
	}
	g.counts["inst:getelementptr"]++
	if vecN > 0 {
		g.counts["inst:getelementptr-vector"]++
	}
	return g.mk(res, text, uses...)
}

func (g *gen) callInst(f *Func, p *pool) *inst {
	rng := g.rng
	callee := g.funcs[rng.Intn(len(g.funcs))]
	var args []string
	var uses []*Val
	for _, pt := range callee.Sig.Fields {
		a := g.operand(p, pt)
		args = append(args, a.TV())
		uses = append(uses, a)
	}
	if callee.Sig.Variadic {
		for k := rng.Intn(3); k > 0; k-- {
			a := g.operand(p, []*Type{I32, I64, Float("double")}[rng.Intn(3)])
			args = append(args, a.TV())
			uses = append(uses, a)
		}
	}
	tail := []string{"", "", "tail ", "notail "}[rng.Intn(4)]
	ty := callee.Sig.Elem.String()
	if callee.Sig.Variadic || rng.Intn(4) == 0 {
		ty = callee.Sig.String()
	}
	calleeRef := callee.V.Ref()
	// indirect call through a function pointer of the same type in the pool
	if fp := p.pick(rng, func(t *Type) bool { return t.String() == callee.V.T.String() }); fp != nil && rng.Intn(2) == 0 {
		calleeRef = fp.Ref()
		uses = append(uses, fp)
		g.counts["inst:call-indirect"]++
	}
	bundle := ""
	if rng.Intn(8) == 0 && len(uses) > 0 {
		bundle = fmt.Sprintf(" [ \"deopt\"(%s) ]", uses[0].TV())
		g.counts["inst:call-bundle"]++
	}
	g.counts["inst:call"]++
	var resT *Type
	if callee.Sig.Elem.K != KVoid {
		resT = callee.Sig.Elem
	}
	return g.mk(resT, fmt.Sprintf("%scall %s%s %s(%s)%s", tail, callee.cc, ty, calleeRef, strings.Join(args, ", "), bundle), uses...)
}
