package mgen

import (
	"fmt"
	"strings"
)

// mdGen generates metadata: tuples (with cycles through distinct nodes and
// forward references), named metadata (some names defined twice) and, when
// enabled, a debug-info skeleton.
type mdGen struct {
	g      *gen
	nodes  []string // node i is "!i = ..." body
	named  []string
	cu     int
	file   int
	spType int
	intTy  int
	locs   map[*Func][]int
	ready  bool
}

func (m *mdGen) add(body string) int {
	m.nodes = append(m.nodes, body)
	return len(m.nodes) - 1
}

func (m *mdGen) init() {
	g := m.g
	rng := g.rng
	m.locs = map[*Func][]int{}
	m.ready = true
	// a few tuples, with a forward reference and a cycle
	a := m.add("")
	b := m.add("")
	c := m.add("")
	m.nodes[a] = fmt.Sprintf("!{!%d, !\"s%d\", i32 %d}", b, rng.Intn(9), rng.Intn(99))
	m.nodes[b] = fmt.Sprintf("distinct !{!%d, !%d, null}", b, c)
	m.nodes[c] = "!{}"
	if rng.Intn(2) == 0 {
		m.add(fmt.Sprintf("!{!{!\"inline\", !%d}, i64 %d, float 1.000000e+00}", a, rng.Intn(9)))
	}
	m.named = append(m.named, fmt.Sprintf("!named.a = !{!%d, !%d}\n", a, c))
	if rng.Intn(2) == 0 {
		m.named = append(m.named, fmt.Sprintf("!named.a = !{!%d}\n", b))
		g.counts["md:named-defined-twice"]++
	}
	m.named = append(m.named, fmt.Sprintf("!%s = !{!%d}\n", []string{"zeta", "my.ident", "n10", "n9"}[rng.Intn(4)], a))
	g.counts["md:tuple"] += 3
	if g.feat.DebugInfo && rng.Intn(2) == 0 {
		m.file = m.add(fmt.Sprintf("!DIFile(filename: \"f%d.c\", directory: \"/d\")", rng.Intn(9)))
		empty := m.add("!{}")
		m.cu = m.add(fmt.Sprintf("distinct !DICompileUnit(language: DW_LANG_C99, file: !%d, producer: \"mgen\", isOptimized: %v, runtimeVersion: 0, emissionKind: FullDebug, enums: !%d%s)",
			m.file, rng.Intn(2) == 0, empty, []string{"", ", splitDebugInlining: false", ", nameTableKind: None"}[rng.Intn(3)]))
		m.intTy = m.add("!DIBasicType(name: \"int\", size: 32, encoding: DW_ATE_signed)")
		types := m.add(fmt.Sprintf("!{null, !%d}", m.intTy))
		m.spType = m.add(fmt.Sprintf("!DISubroutineType(types: !%d)", types))
		ver := m.add("!{i32 2, !\"Debug Info Version\", i32 3}")
		m.named = append(m.named, fmt.Sprintf("!llvm.dbg.cu = !{!%d}\n", m.cu))
		m.named = append(m.named, fmt.Sprintf("!llvm.module.flags = !{!%d}\n", ver))
		g.counts["md:debug-info-skeleton"]++
		for _, f := range g.funcs {
			if !f.decl && rng.Intn(2) == 0 {
				name := f.V.name
				if name == "" {
					name = "anon"
				}
				f.dbg = m.add(fmt.Sprintf("distinct !DISubprogram(name: \"%s\", scope: !%d, file: !%d, line: %d, type: !%d, scopeLine: %d, flags: DIFlagPrototyped, spFlags: DISPFlagDefinition%s, unit: !%d)",
					strings.NewReplacer("\"", "", "\\", "").Replace(name), m.file, m.file, 1+rng.Intn(50), m.spType, 1+rng.Intn(50), []string{"", " | DISPFlagOptimized", " | DISPFlagLocalToUnit"}[rng.Intn(3)], m.cu))
				g.counts["md:DISubprogram"]++
			}
		}
	}
}

// tuple returns the id of a tuple node usable as attachment.
func (m *mdGen) tuple() int {
	if !m.ready {
		return 0
	}
	if m.g.rng.Intn(3) == 0 {
		return m.add(fmt.Sprintf("!{i32 %d}", m.g.rng.Intn(99)))
	}
	return m.g.rng.Intn(3)
}

// loc returns a DILocation in f's subprogram.
func (m *mdGen) loc(f *Func) int {
	ls := m.locs[f]
	if len(ls) > 0 && m.g.rng.Intn(3) != 0 {
		return ls[m.g.rng.Intn(len(ls))]
	}
	id := m.add(fmt.Sprintf("!DILocation(line: %d, column: %d, scope: !%d)", 1+m.g.rng.Intn(90), 1+m.g.rng.Intn(40), f.dbg))
	m.locs[f] = append(m.locs[f], id)
	m.g.counts["md:DILocation"]++
	return id
}

// defs returns the top-level metadata definitions; explicit IDs are sparse
// (every id is multiplied by a stride) so that renumbering is exercised.
func (m *mdGen) defs() []string {
	if !m.ready {
		return nil
	}
	var out []string
	out = append(out, m.named...)
	for i, body := range m.nodes {
		out = append(out, fmt.Sprintf("!%d = %s\n", i, body))
	}
	return out
}
