package mgen

import (
	"fmt"
	"math/rand"
	"sort"
	"strings"
)

// Features switches generator features (used to fence off constructs covered
// by open known findings).
type Features struct {
	Scalable   bool // scalable vector types
	Metadata   bool // named metadata, tuples, attachments
	DebugInfo  bool // a DI skeleton (compile unit, subprograms, locations)
	Unnamed    bool // unnamed locals / globals
	ImplicitID bool // omit "%N =" on some unnamed definitions (LLVM numbers them)
	Shuffle    bool // shuffle top-level definitions
	Atomics    bool // cmpxchg / atomicrmw / fence
	FreezeMD   bool // metadata attachments on freeze (the llir/ll grammar rejects them: open finding)
	AllocaAS   bool // alloca in a non-default address space (LLVM 14 cannot read its own bitcode for those back: only for checks that do not need LLVM's canonical form)
	MaxFuncs   int
	MaxInsts   int
}

// DefaultFeatures enables everything that is not fenced.
func DefaultFeatures() Features {
	return Features{Scalable: true, Metadata: true, DebugInfo: true, Unnamed: true, ImplicitID: true, Shuffle: true, Atomics: true, MaxFuncs: 4, MaxInsts: 14}
}

// Val is a typed value of the generator.
type Val struct {
	T     *Type
	name  string // without sigil; "" = unnamed
	id    int    // assigned by number()
	glob  bool
	lit   string // constants: literal text (no type)
	isBlk bool
	tok   string // placeholder token of an unnamed value
}

// unnamedVals registers every unnamed value so that the numbers, which are
// only known once the whole function/module exists, can be filled in when the
// text is finally printed.
var unnamedVals = map[string]*Val{}
var unnamedCtr int

// Ref is the operand spelling (without type). For an unnamed value it is a
// placeholder token that Resolve replaces by the final number.
func (v *Val) Ref() string {
	if v.lit != "" {
		return v.lit
	}
	sig := "%"
	if v.glob {
		sig = "@"
	}
	if v.name == "" {
		if v.tok == "" {
			unnamedCtr++
			v.tok = fmt.Sprintf("\x01%d\x02", unnamedCtr)
			unnamedVals[v.tok] = v
		}
		return v.tok
	}
	return sig + quoteName(v.name)
}

// final is the spelling after numbering.
func (v *Val) final() string {
	sig := "%"
	if v.glob {
		sig = "@"
	}
	if v.lit == "" && v.name == "" {
		return fmt.Sprintf("%s%d", sig, v.id)
	}
	return v.Ref()
}

// resolve replaces the placeholder tokens of unnamed values by their numbers.
func resolve(s string) string {
	if !strings.Contains(s, "\x01") {
		return s
	}
	var sb strings.Builder
	for i := 0; i < len(s); i++ {
		if s[i] == 1 {
			j := strings.IndexByte(s[i:], 2)
			tok := s[i : i+j+1]
			sb.WriteString(unnamedVals[tok].final())
			i += j
			continue
		}
		sb.WriteByte(s[i])
	}
	return sb.String()
}

func (v *Val) TV() string { return v.T.String() + " " + v.Ref() }

func quoteName(n string) string {
	plain := true
	for i := 0; i < len(n); i++ {
		c := n[i]
		if !(c == '.' || c == '_' || c == '$' || c == '-' || (c >= '0' && c <= '9' && i > 0) || (c >= 'a' && c <= 'z') || (c >= 'A' && c <= 'Z')) {
			plain = false
		}
	}
	if plain && n != "" {
		return n
	}
	var sb strings.Builder
	sb.WriteByte('"')
	for i := 0; i < len(n); i++ {
		c := n[i]
		if c < 0x20 || c >= 0x7f || c == '"' || c == '\\' {
			fmt.Fprintf(&sb, "\\%02X", c)
		} else {
			sb.WriteByte(c)
		}
	}
	sb.WriteByte('"')
	return sb.String()
}

type inst struct {
	res  *Val   // nil if no result
	text string // format with %s for nothing; result prefix added at print
	uses []*Val // operand values (for the side table)
	md   string
	impl bool // print without "%N =" (unnamed only)
}

type block struct {
	label *Val
	phis  []*phi
	insts []*inst
	term  func() string
	preds []*block
	succs []*block
}

type phi struct {
	res *Val
	in  []*Val // per pred
}

// Func is a generated function.
type Func struct {
	V      *Val // the function as a value (pointer to function type)
	Sig    *Type
	Params []*Val
	blocks []*block
	decl   bool
	attrs  string
	cc     string
	link   string
	dbg    int // subprogram metadata id, -1 if none
	Values []*Val
}

// Global is a generated global variable.
type Global struct {
	V    *Val
	Text string
}

// NamedValue is an entry of the side table.
type NamedValue struct {
	Func string // function name with sigil ("" for globals)
	Ref  string // %name / %N / @name
	Type string // LLVM type the generator predicts
	Kind string // param inst block global func
}

// Module is a generated module.
type Module struct {
	Text   string
	Side   []NamedValue
	Counts map[string]int // constructs generated
}

type gen struct {
	rng     *rand.Rand
	tg      *typeGen
	feat    Features
	funcs   []*Func
	globals []*Global
	counts  map[string]int
	nameCtr int
	md      *mdGen
	// the attribute group #0 is referenced somewhere
	usedAttrGroup bool
}

func (g *gen) fresh(prefix string) string {
	g.nameCtr++
	names := []string{prefix, prefix + ".x", "v", "tmp", "a b", "q\"q", "0x", "-n"}
	n := names[g.rng.Intn(len(names))]
	if g.rng.Intn(4) != 0 {
		n = prefix
	}
	return fmt.Sprintf("%s%d", n, g.nameCtr)
}

// Generate builds a module from seed.
func Generate(seed int64, feat Features) *Module {
	rng := rand.New(rand.NewSource(seed))
	unnamedVals = map[string]*Val{}
	unnamedCtr = 0
	g := &gen{rng: rng, feat: feat, counts: map[string]int{}}
	g.tg = &typeGen{rng: rng, feat: &g.feat}
	g.md = &mdGen{g: g}
	var top []string
	// 1. named types
	nNamed := rng.Intn(5)
	for i := 0; i < nNamed; i++ {
		t := &Type{K: KNamed, Name: quoteName(g.fresh("T")), idx: i}
		g.tg.named = append(g.tg.named, t)
	}
	for i, t := range g.tg.named {
		g.tg.byValueLimit = i
		switch rng.Intn(6) {
		case 0:
			top = append(top, fmt.Sprintf("%s = type opaque\n", t))
			continue
		}
		body := Struct(rng.Intn(4) == 0)
		for k := rng.Intn(4); k > 0; k-- {
			body.Fields = append(body.Fields, g.tg.fieldT(2))
		}
		t.Body = body
		top = append(top, fmt.Sprintf("%s = type %s\n", t, body))
	}
	g.tg.byValueLimit = len(g.tg.named)
	// 2. function headers (so that globals and bodies can refer to them)
	nf := 1 + rng.Intn(feat.MaxFuncs)
	for i := 0; i < nf; i++ {
		g.newFunc(i >= 1 && rng.Intn(3) == 0)
	}
	// 3. globals
	ng := 1 + rng.Intn(6)
	for i := 0; i < ng; i++ {
		g.newGlobal()
	}
	// metadata skeleton
	if feat.Metadata {
		g.md.init()
	}
	// 4. bodies
	for _, f := range g.funcs {
		if !f.decl {
			g.body(f)
		}
	}
	// 5. print
	unnamedGlobalsExist := false
	for _, gl := range g.globals {
		if gl.V.name == "" {
			unnamedGlobalsExist = true
		}
	}
	for _, f := range g.funcs {
		if f.V.name == "" {
			unnamedGlobalsExist = true
		}
	}
	// LLVM numbers unnamed globals in textual order across kinds: the generator
	// keeps globals before functions, each in list order.
	g.numberGlobals()
	var globalsTop, funcsTop []string
	for _, gl := range g.globals {
		globalsTop = append(globalsTop, g.globalText(gl))
	}
	for _, f := range g.funcs {
		funcsTop = append(funcsTop, g.printFunc(f))
	}
	if g.usedAttrGroup {
		top = append(top, "attributes #0 = { nounwind \"frame-pointer\"=\"all\" uwtable }\n")
	}
	mdTop := g.md.defs()
	// LLVM resolves a by-value use of an identified struct (constants,
	// extractvalue, alloca) only if its definition has been read: type definitions
	// stay in front (shuffled among themselves), everything else may go anywhere.
	var typeDefs, others []string
	for _, t := range top {
		if strings.Contains(t, " = type ") {
			typeDefs = append(typeDefs, t)
		} else {
			others = append(others, t)
		}
	}
	if feat.Shuffle {
		rng.Shuffle(len(typeDefs), func(i, j int) { typeDefs[i], typeDefs[j] = typeDefs[j], typeDefs[i] })
	}
	all := append([]string{}, typeDefs...)
	if unnamedGlobalsExist {
		rest := append(append([]string{}, others...), mdTop...)
		if feat.Shuffle {
			rng.Shuffle(len(rest), func(i, j int) { rest[i], rest[j] = rest[j], rest[i] })
		}
		ordered := append(append([]string{}, globalsTop...), funcsTop...)
		all = append(all, interleave(rng, ordered, rest)...)
	} else {
		var rest []string
		rest = append(rest, others...)
		rest = append(rest, globalsTop...)
		rest = append(rest, funcsTop...)
		rest = append(rest, mdTop...)
		if feat.Shuffle {
			rng.Shuffle(len(rest), func(i, j int) { rest[i], rest[j] = rest[j], rest[i] })
		}
		all = append(all, rest...)
	}
	m := &Module{Text: resolve(strings.Join(all, "")), Counts: g.counts}
	for _, gl := range g.globals {
		m.Side = append(m.Side, NamedValue{Ref: gl.V.final(), Type: gl.V.T.String(), Kind: "global"})
	}
	for _, f := range g.funcs {
		m.Side = append(m.Side, NamedValue{Ref: f.V.final(), Type: f.V.T.String(), Kind: "func"})
		for _, p := range f.Params {
			if f.decl {
				break // parameters of declarations are not numbered by the generator
			}
			m.Side = append(m.Side, NamedValue{Func: f.V.final(), Ref: p.final(), Type: p.T.String(), Kind: "param"})
		}
		for _, b := range f.blocks {
			m.Side = append(m.Side, NamedValue{Func: f.V.final(), Ref: b.label.final(), Type: "label", Kind: "block"})
			for _, p := range b.phis {
				m.Side = append(m.Side, NamedValue{Func: f.V.final(), Ref: p.res.final(), Type: p.res.T.String(), Kind: "inst"})
			}
			for _, in := range b.insts {
				if in.res != nil {
					m.Side = append(m.Side, NamedValue{Func: f.V.final(), Ref: in.res.final(), Type: in.res.T.String(), Kind: "inst"})
				}
			}
		}
	}
	return m
}

func interleave(rng *rand.Rand, ordered, rest []string) []string {
	var out []string
	i, j := 0, 0
	for i < len(ordered) || j < len(rest) {
		if j >= len(rest) || (i < len(ordered) && rng.Intn(2) == 0) {
			out = append(out, ordered[i])
			i++
		} else {
			out = append(out, rest[j])
			j++
		}
	}
	return out
}

func (g *gen) numberGlobals() {
	// LLVM numbers unnamed globals in textual order; the generator prints globals
	// first and then functions (relative order kept by interleave)
	id := 0
	for _, gl := range g.globals {
		if gl.V.name == "" {
			gl.V.id = id
			id++
		}
	}
	for _, f := range g.funcs {
		if f.V.name == "" {
			f.V.id = id
			id++
		}
	}
}

// ---------------------------------------------------------------------------
// constants

func (g *gen) intLit(t *Type) string {
	if t.Bits == 1 {
		return []string{"true", "false", "1", "0"}[g.rng.Intn(4)]
	}
	switch g.rng.Intn(6) {
	case 0:
		return "0"
	case 1:
		return "-1"
	case 2:
		return fmt.Sprint(g.rng.Intn(100))
	case 3:
		if t.Bits >= 16 {
			return fmt.Sprint(4096 * (1 + g.rng.Intn(7)))
		}
		return "1"
	case 4:
		if t.Bits >= 8 {
			return fmt.Sprintf("-%d", g.rng.Intn(128))
		}
		return "1"
	default:
		if t.Bits >= 33 {
			return fmt.Sprint(int64(g.rng.Uint32()) << 1)
		}
		return fmt.Sprint(g.rng.Intn(2))
	}
}

func (g *gen) floatLit(t *Type) string {
	switch t.FK {
	case "half":
		return []string{"0xH3C00", "0xH0000", "0xHC000", "0xH7C00", "0xH0001"}[g.rng.Intn(5)]
	case "float":
		return []string{"1.000000e+00", "0.000000e+00", "-2.500000e-01", "0x3FF8000000000000", "0x7FF0000000000000", "0x36A0000000000000", "3.0"}[g.rng.Intn(7)]
	case "double":
		return []string{"1.000000e+00", "0.000000e+00", "-0.000000e+00", "3.141592653589793", "0x7FF0000000000000", "0xFFF0000000000000", "0x1", "1.5e+300", "2.5"}[g.rng.Intn(9)]
	case "x86_fp80":
		return []string{"0xK3FFF8000000000000000", "0xK00000000000000000000", "0xKBFFF8000000000000000", "0xK7FFF8000000000000000"}[g.rng.Intn(4)]
	case "fp128":
		return []string{"0xL00000000000000003FFF000000000000", "0xL00000000000000000000000000000000", "0xL0000000000000000BFFF000000000000"}[g.rng.Intn(3)]
	default:
		return []string{"0xM3FF00000000000000000000000000000", "0xM00000000000000000000000000000000", "0xMBFF00000000000000000000000000000"}[g.rng.Intn(3)]
	}
}

// constOf returns a constant literal of type t (may reference globals when
// allowGlobals).
func (g *gen) constOf(t *Type, depth int, allowGlobals bool) string {
	r := t.Resolve()
	if t.K == KNamed && t.Body == nil {
		return "undef"
	}
	if depth <= 0 || g.rng.Intn(7) == 0 {
		switch r.K {
		case KInt, KFloat:
		case KPtr:
			return "null"
		default:
			return []string{"zeroinitializer", "undef", "zeroinitializer", "poison"}[g.rng.Intn(4)]
		}
	}
	switch r.K {
	case KInt:
		if allowGlobals && r.Bits == 64 && g.rng.Intn(5) == 0 && len(g.globals) > 0 {
			gl := g.globals[g.rng.Intn(len(g.globals))]
			if gl.V.T.AS == 0 {
				g.counts["constexpr:ptrtoint"]++
				e := fmt.Sprintf("ptrtoint (%s to i64)", gl.V.TV())
				if g.rng.Intn(2) == 0 {
					g.counts["constexpr:add"]++
					return fmt.Sprintf("add (i64 %s, i64 %d)", e, g.rng.Intn(64))
				}
				return e
			}
		}
		return g.intLit(r)
	case KFloat:
		return g.floatLit(r)
	case KPtr:
		if allowGlobals {
			if c := g.ptrConst(r); c != "" {
				return c
			}
		}
		return "null"
	case KVec:
		if r.Scalable {
			return []string{"zeroinitializer", "undef", "poison"}[g.rng.Intn(3)]
		}
		var es []string
		for i := 0; i < r.N; i++ {
			es = append(es, r.Elem.String()+" "+g.constOf(r.Elem, depth-1, allowGlobals))
		}
		return "<" + strings.Join(es, ", ") + ">"
	case KArr:
		if r.Elem.K == KInt && r.Elem.Bits == 8 && r.N > 0 && g.rng.Intn(2) == 0 {
			var sb strings.Builder
			sb.WriteString("c\"")
			for i := 0; i < r.N; i++ {
				c := byte(g.rng.Intn(256))
				if c >= 0x20 && c < 0x7f && c != '"' && c != '\\' {
					sb.WriteByte(c)
				} else {
					fmt.Fprintf(&sb, "\\%02X", c)
				}
			}
			sb.WriteString("\"")
			g.counts["const:chararray"]++
			return sb.String()
		}
		var es []string
		for i := 0; i < r.N; i++ {
			es = append(es, r.Elem.String()+" "+g.constOf(r.Elem, depth-1, allowGlobals))
		}
		return "[" + strings.Join(es, ", ") + "]"
	case KStruct:
		var es []string
		for _, f := range r.Fields {
			es = append(es, f.String()+" "+g.constOf(f, depth-1, allowGlobals))
		}
		body := "{}"
		if len(es) > 0 {
			body = "{ " + strings.Join(es, ", ") + " }"
		}
		if r.Packed {
			return "<" + body + ">"
		}
		return body
	}
	return "undef"
}

// ptrConst returns a constant of pointer type t referring to a global or
// function, or "".
func (g *gen) ptrConst(t *Type) string {
	var cands []*Val
	for _, gl := range g.globals {
		cands = append(cands, gl.V)
	}
	for _, f := range g.funcs {
		cands = append(cands, f.V)
	}
	if len(cands) == 0 {
		return ""
	}
	g.rng.Shuffle(len(cands), func(i, j int) { cands[i], cands[j] = cands[j], cands[i] })
	for _, c := range cands {
		if c.T.String() == t.String() {
			return c.Ref()
		}
	}
	for _, c := range cands {
		if c.T.AS != t.AS {
			continue
		}
		// gep into the global if the element type matches
		if c.T.Elem.Resolve().K == KArr && c.T.Elem.Resolve().Elem.String() == t.Elem.String() && c.T.Elem.Resolve().N > 0 {
			g.counts["constexpr:getelementptr"]++
			inb := ""
			if g.rng.Intn(2) == 0 {
				inb = "inbounds "
			}
			return fmt.Sprintf("getelementptr %s(%s, %s, i32 0, i32 %d)", inb, c.T.Elem, c.TV(), g.rng.Intn(c.T.Elem.Resolve().N))
		}
		if c.T.Elem.Resolve().K == KStruct && len(c.T.Elem.Resolve().Fields) > 0 {
			fs := c.T.Elem.Resolve().Fields
			k := g.rng.Intn(len(fs))
			if fs[k].String() == t.Elem.String() {
				g.counts["constexpr:getelementptr"]++
				return fmt.Sprintf("getelementptr inbounds (%s, %s, i64 0, i32 %d)", c.T.Elem, c.TV(), k)
			}
		}
	}
	for _, c := range cands {
		if c.T.AS == t.AS && t.Elem.K != KFunc {
			g.counts["constexpr:bitcast"]++
			return fmt.Sprintf("bitcast (%s to %s)", c.TV(), t)
		}
	}
	for _, c := range cands {
		if c.T.AS != t.AS && t.Elem.K != KFunc && c.T.Elem.K != KFunc {
			g.counts["constexpr:addrspacecast"]++
			return fmt.Sprintf("addrspacecast (%s to %s)", c.TV(), t)
		}
	}
	return ""
}

// ---------------------------------------------------------------------------
// globals and function headers

var linkages = []string{"", "", "", "private ", "internal ", "weak ", "linkonce_odr ", "weak_odr ", "linkonce ", "common "}

func (g *gen) newGlobal() {
	t := g.tg.sizedT(3)
	for t.hasScalable() || !t.sized() {
		t = g.tg.sizedT(2)
	}
	name := g.fresh("g")
	if g.feat.Unnamed && g.rng.Intn(6) == 0 {
		name = ""
	}
	as := g.tg.as()
	v := &Val{T: Ptr(t, as), name: name, glob: true}
	gl := &Global{V: v}
	g.globals = append(g.globals, gl)
}

func (g *gen) globalText(gl *Global) string {
	t := gl.V.T.Elem
	rng := g.rng
	var sb strings.Builder
	fmt.Fprintf(&sb, "%s = ", gl.V.Ref())
	link := linkages[rng.Intn(len(linkages))]
	decl := rng.Intn(8) == 0
	if decl {
		link = []string{"external ", "extern_weak "}[rng.Intn(2)]
	}
	sb.WriteString(link)
	if !decl && rng.Intn(5) == 0 && link != "private " && link != "internal " {
		sb.WriteString([]string{"hidden ", "protected ", "default "}[rng.Intn(3)])
	} else if rng.Intn(6) == 0 {
		sb.WriteString("dso_local ")
	}
	if rng.Intn(8) == 0 && link != "common " {
		sb.WriteString([]string{"thread_local ", "thread_local(initialexec) ", "thread_local(localdynamic) "}[rng.Intn(3)])
	}
	if rng.Intn(5) == 0 && link != "common " {
		sb.WriteString([]string{"unnamed_addr ", "local_unnamed_addr "}[rng.Intn(2)])
	}
	if gl.V.T.AS != 0 {
		fmt.Fprintf(&sb, "addrspace(%d) ", gl.V.T.AS)
	}
	if rng.Intn(3) == 0 && link != "common " {
		sb.WriteString("constant ")
	} else {
		sb.WriteString("global ")
	}
	sb.WriteString(t.String())
	if !decl {
		if link == "common " {
			sb.WriteString(" zeroinitializer")
		} else {
			sb.WriteString(" " + g.constOf(t, 3, true))
		}
	}
	if rng.Intn(5) == 0 {
		fmt.Fprintf(&sb, ", section \"%s\"", []string{".data.x", "my sec", "s\\22q"}[rng.Intn(3)])
	}
	if rng.Intn(4) == 0 {
		fmt.Fprintf(&sb, ", align %d", 1<<uint(rng.Intn(7)))
	}
	if g.feat.Metadata && rng.Intn(5) == 0 {
		fmt.Fprintf(&sb, ", !gmd !%d", g.md.tuple())
	}
	sb.WriteString("\n")
	g.counts["global"]++
	gl.Text = sb.String()
	return gl.Text
}

func (g *gen) newFunc(decl bool) {
	rng := g.rng
	sig := &Type{K: KFunc, Elem: Void}
	if rng.Intn(4) != 0 {
		sig.Elem = g.tg.firstClassT(2)
		for sig.Elem.hasScalable() && !g.feat.Scalable {
			sig.Elem = g.tg.firstClassT(2)
		}
	}
	name := g.fresh("f")
	if g.feat.Unnamed && rng.Intn(8) == 0 {
		name = ""
	}
	f := &Func{Sig: sig, decl: decl, dbg: -1}
	np := rng.Intn(4)
	for i := 0; i < np; i++ {
		pt := g.tg.firstClassT(2)
		pn := g.fresh("p")
		if g.feat.Unnamed && rng.Intn(3) == 0 {
			pn = ""
		}
		sig.Fields = append(sig.Fields, pt)
		f.Params = append(f.Params, &Val{T: pt, name: pn})
	}
	if decl && rng.Intn(4) == 0 {
		sig.Variadic = true
	}
	f.V = &Val{T: Ptr(sig, 0), name: name, glob: true}
	f.attrs = []string{"", "", " nounwind", " #0", " noinline optnone", " readnone", " \"k\"=\"v\"", " cold"}[rng.Intn(8)]
	if f.attrs == " #0" {
		g.usedAttrGroup = true
	}
	f.cc = []string{"", "", "", "fastcc ", "coldcc ", "cc 11 "}[rng.Intn(6)]
	if sig.Variadic {
		f.cc = ""
	}
	if !decl {
		f.link = []string{"", "", "internal ", "private ", "weak ", "linkonce_odr ", "dso_local "}[rng.Intn(7)]
	}
	g.funcs = append(g.funcs, f)
}

// ---------------------------------------------------------------------------
// bodies

type pool struct {
	vals []*Val
}

func (p *pool) add(v *Val) { p.vals = append(p.vals, v) }

func (p *pool) pick(rng *rand.Rand, pred func(*Type) bool) *Val {
	var c []*Val
	for _, v := range p.vals {
		if pred(v.T) {
			c = append(c, v)
		}
	}
	if len(c) == 0 {
		return nil
	}
	return c[rng.Intn(len(c))]
}

// operand returns a value of exactly type t: from the pool or a constant.
func (g *gen) operand(p *pool, t *Type) *Val {
	s := t.String()
	if g.rng.Intn(4) != 0 {
		if v := p.pick(g.rng, func(x *Type) bool { return x.String() == s }); v != nil {
			return v
		}
	}
	return &Val{T: t, lit: g.constOf(t, 2, true)}
}

func (g *gen) body(f *Func) {
	rng := g.rng
	nb := 1 + rng.Intn(4)
	for i := 0; i < nb; i++ {
		name := g.fresh("bb")
		if g.feat.Unnamed && rng.Intn(3) == 0 {
			name = ""
		}
		if i == 0 && rng.Intn(2) == 0 {
			name = "entry"
		}
		f.blocks = append(f.blocks, &block{label: &Val{name: name, isBlk: true, T: &Type{K: KVoid}}})
	}
	// CFG: forward edges, an occasional back edge (loop) to a non-entry block
	for i, b := range f.blocks {
		if i == nb-1 {
			continue
		}
		n := 1 + rng.Intn(2)
		for k := 0; k < n; k++ {
			var tgt *block
			if rng.Intn(6) == 0 && i >= 1 {
				tgt = f.blocks[1+rng.Intn(i)] // back edge (never to entry)
			} else {
				tgt = f.blocks[i+1+rng.Intn(nb-i-1)]
			}
			dup := false
			for _, s := range b.succs {
				if s == tgt {
					dup = true
				}
			}
			if !dup {
				b.succs = append(b.succs, tgt)
				tgt.preds = append(tgt.preds, b)
			}
		}
	}
	entryPool := &pool{}
	for _, p := range f.Params {
		entryPool.add(p)
	}
	pools := make([]*pool, nb)
	for i, b := range f.blocks {
		p := &pool{}
		// values visible: params + entry block values (entry dominates everything)
		p.vals = append(p.vals, entryPool.vals...)
		pools[i] = p
		ni := 1 + rng.Intn(g.feat.MaxInsts)
		for k := 0; k < ni; k++ {
			in := g.randInst(f, p)
			if in == nil {
				continue
			}
			isFreeze := strings.HasPrefix(in.text, "freeze ")
			if isFreeze && !g.feat.FreezeMD && f.dbg >= 0 {
				continue // would get a !dbg attachment
			}
			if g.feat.Metadata && rng.Intn(6) == 0 && (!isFreeze || g.feat.FreezeMD) {
				in.md = fmt.Sprintf(", !tag !%d", g.md.tuple())
			}
			b.insts = append(b.insts, in)
			if in.res != nil {
				p.add(in.res)
				if i == 0 {
					entryPool.add(in.res)
				}
			}
		}
		// every result is used once more at its predicted type (LLVM checks the annotation)
		for _, in := range append([]*inst{}, b.insts...) {
			if in.res != nil && in.res.T.sized() && rng.Intn(3) != 0 {
				b.insts = append(b.insts, &inst{text: fmt.Sprintf("store %s, %s undef", in.res.TV(), Ptr(in.res.T, 0)), uses: []*Val{in.res}})
			}
		}
	}
	// phis: in blocks with predecessors, for some types available in all preds' pools
	for i, b := range f.blocks {
		if len(b.preds) == 0 || rng.Intn(2) == 0 {
			continue
		}
		np := 1 + rng.Intn(2)
		for k := 0; k < np; k++ {
			t := g.tg.firstClassT(1)
			if len(pools[i].vals) > 0 && rng.Intn(2) == 0 {
				t = pools[i].vals[rng.Intn(len(pools[i].vals))].T
			}
			name := g.fresh("phi")
			if g.feat.Unnamed && rng.Intn(3) == 0 {
				name = ""
			}
			ph := &phi{res: &Val{T: t, name: name}}
			for _, pr := range b.preds {
				pi := 0
				for j, bb := range f.blocks {
					if bb == pr {
						pi = j
					}
				}
				ph.in = append(ph.in, g.operand(pools[pi], t))
			}
			b.phis = append(b.phis, ph)
			g.counts["inst:phi"]++
			// usable by the block's own later code is not modelled (already generated); sink it
			if t.sized() {
				b.insts = append(b.insts, &inst{text: fmt.Sprintf("store %s, %s undef", "%PHI%", Ptr(t, 0)), uses: []*Val{ph.res}})
			}
		}
	}
	// terminators
	for i, b := range f.blocks {
		b := b
		p := pools[i]
		switch len(b.succs) {
		case 0:
			if rng.Intn(8) == 0 {
				b.term = func() string { return "unreachable" }
				g.counts["term:unreachable"]++
			} else if f.Sig.Elem.K == KVoid {
				b.term = func() string { return "ret void" }
				g.counts["term:ret"]++
			} else {
				v := g.operand(p, f.Sig.Elem)
				b.term = func() string { return "ret " + v.TV() }
				g.counts["term:ret"]++
			}
		case 1:
			b.term = func() string { return "br label " + b.succs[0].label.Ref() }
			g.counts["term:br"]++
		default:
			if rng.Intn(3) == 0 {
				x := g.operand(p, []*Type{I32, I8, I64}[rng.Intn(3)])
				b.term = func() string {
					var sb strings.Builder
					fmt.Fprintf(&sb, "switch %s, label %s [", x.TV(), b.succs[0].label.Ref())
					for k, s := range b.succs[1:] {
						fmt.Fprintf(&sb, " %s %d, label %s", x.T, k*3-1, s.label.Ref())
					}
					sb.WriteString(" ]")
					return sb.String()
				}
				g.counts["term:switch"]++
			} else {
				c := g.operand(p, I1)
				b.term = func() string {
					return fmt.Sprintf("br %s, label %s, label %s", c.TV(), b.succs[0].label.Ref(), b.succs[1].label.Ref())
				}
				g.counts["term:condbr"]++
			}
		}
	}
	g.number(f)
}

// number assigns LLVM's numbering to the unnamed locals of f.
func (g *gen) number(f *Func) {
	id := 0
	for _, p := range f.Params {
		if p.name == "" {
			p.id = id
			id++
		}
	}
	for _, b := range f.blocks {
		if b.label.name == "" {
			b.label.id = id
			id++
		}
		for _, ph := range b.phis {
			if ph.res.name == "" {
				ph.res.id = id
				id++
			}
		}
		for _, in := range b.insts {
			if in.res != nil && in.res.name == "" {
				in.res.id = id
				id++
			}
		}
	}
}

func (g *gen) printFunc(f *Func) string {
	var sb strings.Builder
	var ps []string
	// LLVM 14 counts explicit argument numbers only: unnamed parameters are either
	// all written implicitly or all explicitly.
	implicitParams := g.feat.ImplicitID && g.rng.Intn(2) == 0
	for _, p := range f.Params {
		if f.decl {
			ps = append(ps, p.T.String())
		} else if p.name == "" && implicitParams {
			ps = append(ps, p.T.String())
		} else {
			ps = append(ps, p.TV())
		}
	}
	if f.Sig.Variadic {
		ps = append(ps, "...")
	}
	kw := "define"
	if f.decl {
		kw = "declare"
	}
	link, cc := f.link, f.cc
	dbg := ""
	if f.dbg >= 0 && !f.decl {
		dbg = fmt.Sprintf(" !dbg !%d", f.dbg)
	}
	fmt.Fprintf(&sb, "%s %s%s%s %s(%s)%s%s", kw, link, cc, f.Sig.Elem, f.V.Ref(), strings.Join(ps, ", "), f.attrs, dbg)
	if f.decl {
		sb.WriteString("\n")
		g.counts["declare"]++
		return sb.String()
	}
	g.counts["define"]++
	sb.WriteString(" {\n")
	for i, b := range f.blocks {
		if !(i == 0 && b.label.name == "" && g.rng.Intn(2) == 0) {
			if b.label.name == "" {
				fmt.Fprintf(&sb, "%d:\n", b.label.id)
			} else {
				fmt.Fprintf(&sb, "%s:\n", quoteName(b.label.name))
			}
		}
		for _, ph := range b.phis {
			var ins []string
			for k, v := range ph.in {
				ins = append(ins, fmt.Sprintf("[ %s, %s ]", v.Ref(), b.preds[k].label.Ref()))
			}
			fmt.Fprintf(&sb, "  %s = phi %s %s%s\n", ph.res.Ref(), ph.res.T, strings.Join(ins, ", "), g.dbgLoc(f))
		}
		for _, in := range b.insts {
			text := in.text
			if strings.Contains(text, "%PHI%") {
				text = strings.Replace(text, "%PHI%", in.uses[0].TV(), 1)
			}
			if in.res != nil {
				if in.res.name == "" && g.feat.ImplicitID && g.rng.Intn(3) == 0 {
					fmt.Fprintf(&sb, "  %s", text)
				} else {
					fmt.Fprintf(&sb, "  %s = %s", in.res.Ref(), text)
				}
			} else {
				fmt.Fprintf(&sb, "  %s", text)
			}
			sb.WriteString(in.md)
			sb.WriteString(g.dbgLoc(f))
			sb.WriteString("\n")
		}
		fmt.Fprintf(&sb, "  %s%s\n", b.term(), g.dbgLoc(f))
	}
	sb.WriteString("}\n")
	return sb.String()
}

func (g *gen) dbgLoc(f *Func) string {
	if f.dbg < 0 {
		return ""
	}
	return fmt.Sprintf(", !dbg !%d", g.md.loc(f))
}

// SortedCounts renders the construct tallies.
func SortedCounts(m map[string]int) []string {
	var ks []string
	for k := range m {
		ks = append(ks, k)
	}
	sort.Strings(ks)
	return ks
}
