// Package mgen is a typed random generator of LLVM 14 assembly modules
// (workload W2). It emits text and, next to it, a side table of what it meant
// (the LLVM type of every named value, the definition every use refers to).
// It does not import llir/llvm: its knowledge of LLVM's typing rules is its
// own, and is validated by LLVM on every generated module (llvm-as checks every
// annotated use against the definition).
package mgen

import (
	"fmt"
	"math/rand"
	"strings"
)

// Kind of a generated type.
type Kind int

const (
	KInt Kind = iota
	KFloat
	KPtr
	KVec
	KArr
	KStruct
	KNamed
	KFunc
	KVoid
)

// Type is the generator's own representation of an LLVM type.
type Type struct {
	K        Kind
	Bits     int    // KInt
	FK       string // KFloat: half float double x86_fp80 fp128 ppc_fp128
	Elem     *Type  // KPtr KVec KArr; KFunc: return type
	AS       int    // KPtr address space
	N        int    // KVec KArr length
	Scalable bool   // KVec
	Fields   []*Type
	Packed   bool
	Name     string // KNamed
	Variadic bool   // KFunc
	Body     *Type  // KNamed: resolved struct body (nil = opaque)
	idx      int    // KNamed: position among the module's identified structs
}

func (t *Type) String() string {
	switch t.K {
	case KInt:
		return fmt.Sprintf("i%d", t.Bits)
	case KFloat:
		return t.FK
	case KVoid:
		return "void"
	case KPtr:
		if t.AS != 0 {
			return fmt.Sprintf("%s addrspace(%d)*", t.Elem, t.AS)
		}
		return t.Elem.String() + "*"
	case KVec:
		if t.Scalable {
			return fmt.Sprintf("<vscale x %d x %s>", t.N, t.Elem)
		}
		return fmt.Sprintf("<%d x %s>", t.N, t.Elem)
	case KArr:
		return fmt.Sprintf("[%d x %s]", t.N, t.Elem)
	case KStruct:
		var fs []string
		for _, f := range t.Fields {
			fs = append(fs, f.String())
		}
		body := "{}"
		if len(fs) > 0 {
			body = "{ " + strings.Join(fs, ", ") + " }"
		}
		if t.Packed {
			return "<" + body + ">"
		}
		return body
	case KNamed:
		return "%" + t.Name
	case KFunc:
		var ps []string
		for _, f := range t.Fields {
			ps = append(ps, f.String())
		}
		if t.Variadic {
			ps = append(ps, "...")
		}
		return fmt.Sprintf("%s (%s)", t.Elem, strings.Join(ps, ", "))
	}
	return "?"
}

// Resolve follows a named type to its struct body (itself otherwise).
func (t *Type) Resolve() *Type {
	if t.K == KNamed && t.Body != nil {
		return t.Body
	}
	return t
}

func Int(bits int) *Type        { return &Type{K: KInt, Bits: bits} }
func Float(k string) *Type      { return &Type{K: KFloat, FK: k} }
func Ptr(e *Type, as int) *Type { return &Type{K: KPtr, Elem: e, AS: as} }
func Vec(n int, sc bool, e *Type) *Type {
	return &Type{K: KVec, N: n, Scalable: sc, Elem: e}
}
func Arr(n int, e *Type) *Type { return &Type{K: KArr, N: n, Elem: e} }
func Struct(packed bool, fs ...*Type) *Type {
	return &Type{K: KStruct, Packed: packed, Fields: fs}
}

var (
	I1   = Int(1)
	I8   = Int(8)
	I32  = Int(32)
	I64  = Int(64)
	Void = &Type{K: KVoid}
)

var floatKinds = []string{"half", "float", "double", "x86_fp80", "fp128", "ppc_fp128"}
var floatBits = map[string]int{"half": 16, "float": 32, "double": 64, "x86_fp80": 80, "fp128": 128, "ppc_fp128": 128}

// IsIntOrIntVec etc. are the predicates the op table uses.
func (t *Type) scalar() *Type {
	if t.K == KVec {
		return t.Elem
	}
	return t
}
func (t *Type) isInt() bool    { return t.scalar().K == KInt }
func (t *Type) isFP() bool     { return t.scalar().K == KFloat }
func (t *Type) isPtr() bool    { return t.scalar().K == KPtr }
func (t *Type) isVec() bool    { return t.K == KVec }
func (t *Type) isAgg() bool    { r := t.Resolve(); return r.K == KStruct || r.K == KArr }
func (t *Type) isOpaque() bool { return t.K == KNamed && t.Body == nil }

// withScalar returns t with its scalar (element) type replaced by s, keeping
// vector shape.
func (t *Type) withScalar(s *Type) *Type {
	if t.K == KVec {
		return Vec(t.N, t.Scalable, s)
	}
	return s
}

// sized reports whether values of t can be stored/loaded/allocated.
func (t *Type) sized() bool {
	switch t.K {
	case KInt, KFloat, KPtr:
		return true
	case KVec:
		return true
	case KArr:
		return t.Elem.sized() && !t.Elem.hasScalable()
	case KStruct:
		for _, f := range t.Fields {
			if !f.sized() || f.hasScalable() {
				return false
			}
		}
		return true
	case KNamed:
		return t.Body != nil && t.Body.sized()
	}
	return false
}

func (t *Type) hasScalable() bool {
	switch t.K {
	case KVec:
		return t.Scalable
	case KArr:
		return t.Elem.hasScalable()
	case KStruct:
		for _, f := range t.Fields {
			if f.hasScalable() {
				return true
			}
		}
	case KNamed:
		return t.Body != nil && t.Body.hasScalable()
	}
	return false
}

// typeGen draws random types.
type typeGen struct {
	rng   *rand.Rand
	named []*Type // identified structs of the module
	feat  *Features
	// identified structs with idx < byValueLimit may be used by value (their
	// bodies are complete), the others only behind pointers
	byValueLimit int
}

func (g *typeGen) intT() *Type {
	return Int([]int{1, 8, 16, 32, 64, 32, 64, 8, 7, 13, 128, 24}[g.rng.Intn(12)])
}

func (g *typeGen) floatT() *Type {
	return Float([]string{"float", "double", "float", "double", "half", "x86_fp80", "fp128", "ppc_fp128"}[g.rng.Intn(8)])
}

func (g *typeGen) as() int {
	return []int{0, 0, 0, 0, 1, 3}[g.rng.Intn(6)]
}

// scalarT: int, float or pointer
func (g *typeGen) scalarT(depth int) *Type {
	switch g.rng.Intn(5) {
	case 0, 1:
		return g.intT()
	case 2:
		return g.floatT()
	default:
		if depth <= 0 {
			return Ptr(g.intT(), g.as())
		}
		return Ptr(g.pointee(depth-1), g.as())
	}
}

func (g *typeGen) pointee(depth int) *Type {
	switch g.rng.Intn(8) {
	case 0:
		if len(g.named) > 0 {
			return g.named[g.rng.Intn(len(g.named))]
		}
	case 1:
		return g.funcT(depth)
	}
	return g.sizedT(depth)
}

func (g *typeGen) funcT(depth int) *Type {
	ft := &Type{K: KFunc, Elem: Void, Variadic: g.rng.Intn(5) == 0}
	if g.rng.Intn(3) != 0 {
		ft.Elem = g.firstClassT(depth)
	}
	for i := g.rng.Intn(3); i > 0; i-- {
		ft.Fields = append(ft.Fields, g.firstClassT(depth))
	}
	return ft
}

func (g *typeGen) vecT(depth int) *Type {
	var e *Type
	switch g.rng.Intn(4) {
	case 0:
		e = g.floatT()
		if e.FK == "ppc_fp128" || e.FK == "x86_fp80" {
			e = Float("float")
		}
	case 1:
		e = Ptr(g.intT(), g.as())
	default:
		e = g.intT()
	}
	sc := g.feat.Scalable && g.rng.Intn(6) == 0
	return Vec([]int{1, 2, 3, 4, 8, 16}[g.rng.Intn(6)], sc, e)
}

// firstClassT: a type a value can have and that can be passed/returned/stored
// (no scalable vectors inside aggregates).
func (g *typeGen) firstClassT(depth int) *Type {
	if depth <= 0 {
		return g.scalarT(0)
	}
	switch g.rng.Intn(10) {
	case 0:
		return g.vecT(depth)
	case 1:
		return g.aggT(depth)
	}
	return g.scalarT(depth)
}

// sizedT: any sized type (valid alloca/global/element type)
func (g *typeGen) sizedT(depth int) *Type {
	if depth <= 0 {
		return g.scalarT(0)
	}
	switch g.rng.Intn(8) {
	case 0:
		v := g.vecT(depth)
		v.Scalable = false
		return v
	case 1, 2:
		return g.aggT(depth)
	}
	return g.scalarT(depth)
}

func (g *typeGen) aggT(depth int) *Type {
	switch g.rng.Intn(4) {
	case 0:
		return Arr(g.rng.Intn(5), g.fieldT(depth-1))
	case 1:
		if len(g.named) > 0 {
			n := g.named[g.rng.Intn(len(g.named))]
			if n.Body != nil && n.idx < g.byValueLimit && n.Body.sized() {
				return n
			}
		}
	}
	s := Struct(g.rng.Intn(4) == 0)
	for i := g.rng.Intn(4); i > 0; i-- {
		s.Fields = append(s.Fields, g.fieldT(depth-1))
	}
	return s
}

func (g *typeGen) fieldT(depth int) *Type {
	t := g.sizedT(depth)
	if t.hasScalable() {
		return I32
	}
	return t
}

// IsSized reports whether values of t can be stored, loaded or allocated.
func (t *Type) IsSized() bool { return t.sized() }
