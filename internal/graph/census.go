package graph

import (
	"fmt"
	"reflect"

	"github.com/llir/llvm/ir"
	"github.com/llir/llvm/ir/constant"
	"github.com/llir/llvm/ir/metadata"
	"github.com/llir/llvm/ir/types"
)

// Census is the result of the identity census (oracle O2).
type Census struct {
	Problems []string       // each a refuting observation
	Refs     map[string]int // reference slots checked, by kind
}

type censusWalker struct {
	m   *ir.Module
	c   *Census
	ctx *ir.Func // enclosing function, nil at module level

	globals map[interface{}]bool
	typeDef map[string]types.Type
	comdats map[*ir.ComdatDef]bool
	attrs   map[*ir.AttrGroupDef]bool
	mds     map[interface{}]bool
	locals  map[*ir.Func]map[interface{}]int // definition -> position in its function
	onStack map[uintptr]bool
	visited map[uintptr]bool // non-definition objects already walked in this context
	pos     int              // position of the definition being walked (locals)
}

func (w *censusWalker) problem(format string, a ...interface{}) {
	if len(w.c.Problems) < 50 {
		w.c.Problems = append(w.c.Problems, fmt.Sprintf(format, a...))
	}
}

// CheckIdentity verifies that every reference reachable from m is the very
// object listed as its definition (module lists, enclosing function), that no
// placeholder survives and that parent links agree with containment.
func CheckIdentity(m *ir.Module) *Census {
	w := &censusWalker{m: m, c: &Census{Refs: map[string]int{}},
		globals: map[interface{}]bool{}, typeDef: map[string]types.Type{}, comdats: map[*ir.ComdatDef]bool{},
		attrs: map[*ir.AttrGroupDef]bool{}, mds: map[interface{}]bool{}, locals: map[*ir.Func]map[interface{}]int{},
		onStack: map[uintptr]bool{}, visited: map[uintptr]bool{}}
	for _, g := range m.Globals {
		w.globals[g] = true
	}
	for _, g := range m.Aliases {
		w.globals[g] = true
	}
	for _, g := range m.IFuncs {
		w.globals[g] = true
	}
	for _, f := range m.Funcs {
		w.globals[f] = true
		if f.Parent != m {
			w.problem("function %s: Parent link is not the module that lists it", f.Ident())
		}
		loc := map[interface{}]int{}
		n := 0
		for _, p := range f.Params {
			loc[p] = n
			n++
		}
		for _, b := range f.Blocks {
			if _, dup := loc[b]; dup {
				w.problem("function %s lists block %s twice", f.Ident(), b.Ident())
			}
			loc[b] = n
			n++
			if b.Parent != f {
				w.problem("block %s of function %s: Parent link is not the function that lists it", b.Ident(), f.Ident())
			}
			for _, inst := range b.Insts {
				loc[inst] = n
				n++
			}
			if b.Term != nil {
				loc[b.Term] = n
				n++
			}
		}
		w.locals[f] = loc
	}
	for _, t := range m.TypeDefs {
		if prev, dup := w.typeDef[t.Name()]; dup && prev != t {
			w.problem("type name %q defined by two objects", t.Name())
		}
		w.typeDef[t.Name()] = t
	}
	for _, c := range m.ComdatDefs {
		w.comdats[c] = true
	}
	for _, a := range m.AttrGroupDefs {
		w.attrs[a] = true
	}
	for _, md := range m.MetadataDefs {
		w.mds[md] = true
	}
	// definitions
	for _, t := range m.TypeDefs {
		w.definition(reflect.ValueOf(t))
	}
	for _, g := range m.Globals {
		w.definition(reflect.ValueOf(g))
	}
	for _, g := range m.Aliases {
		w.definition(reflect.ValueOf(g))
	}
	for _, g := range m.IFuncs {
		w.definition(reflect.ValueOf(g))
	}
	for _, a := range m.AttrGroupDefs {
		w.definition(reflect.ValueOf(a))
	}
	for _, md := range m.MetadataDefs {
		w.definition(reflect.ValueOf(md))
	}
	for _, nd := range m.NamedMetadataDefs {
		w.definition(reflect.ValueOf(nd))
	}
	for _, u := range m.UseListOrders {
		w.walk(reflect.ValueOf(u), "uselistorder")
	}
	for _, u := range m.UseListOrderBBs {
		w.c.Refs["uselistorder_bb.func"]++
		if u.Func == nil || !w.globals[u.Func] {
			w.problem("uselistorder_bb: function is not an object of the module's function list")
			continue
		}
		w.c.Refs["uselistorder_bb.block"]++
		if _, in := w.locals[u.Func][u.Block]; !in {
			w.problem("uselistorder_bb %s: block object is not one of the blocks listed by that function", u.Func.Ident())
		}
	}
	for _, f := range m.Funcs {
		w.ctx = f
		w.visited = map[uintptr]bool{}
		w.funcDef(f)
		w.ctx = nil
	}
	return w.c
}

func (w *censusWalker) funcDef(f *ir.Func) {
	v := reflect.ValueOf(f).Elem()
	t := v.Type()
	for i := 0; i < t.NumField(); i++ {
		fld := t.Field(i)
		if fld.Name == "mu" || fld.Name == "Parent" {
			continue
		}
		switch fld.Name {
		case "Params":
			for _, p := range f.Params {
				w.pos = w.locals[f][p]
				w.definition(reflect.ValueOf(p))
			}
		case "Blocks":
			for _, b := range f.Blocks {
				w.pos = w.locals[f][b]
				w.walk(reflect.ValueOf(b.LocalIdent), "block")
				for _, inst := range b.Insts {
					w.pos = w.locals[f][inst]
					w.definition(reflect.ValueOf(inst))
				}
				if b.Term == nil {
					w.problem("block %s of %s has no terminator", b.Ident(), f.Ident())
				} else {
					w.pos = w.locals[f][b.Term]
					w.definition(reflect.ValueOf(b.Term))
				}
			}
		default:
			w.pos = -1
			w.walk(v.Field(i), "func."+fld.Name)
		}
	}
}

// definition walks the content of an identity-bearing object at its definition
// site.
func (w *censusWalker) definition(v reflect.Value) {
	if v.Kind() == reflect.Interface {
		v = v.Elem()
	}
	if v.Kind() != reflect.Ptr || v.IsNil() {
		return
	}
	p := v.Pointer()
	w.onStack[p] = true
	e := v.Elem()
	if e.Kind() == reflect.Struct {
		t := e.Type()
		for i := 0; i < t.NumField(); i++ {
			f := t.Field(i)
			if skipField(t, f) || f.Name == "Parent" || !e.Field(i).CanInterface() {
				continue
			}
			w.walk(e.Field(i), t.Name()+"."+f.Name)
		}
	}
	delete(w.onStack, p)
}

// walk follows v; an identity-bearing object reached here is a reference.
func (w *censusWalker) walk(v reflect.Value, where string) {
	if !v.IsValid() {
		return
	}
	switch v.Kind() {
	case reflect.Interface:
		if !v.IsNil() {
			w.walk(v.Elem(), where)
		}
	case reflect.Ptr:
		if v.IsNil() {
			return
		}
		if v.Type().Elem() == bigIntT || v.Type().Elem() == bigFloatT {
			return
		}
		if w.reference(v, where) {
			return
		}
		// by-value object: descend (once per context)
		p := v.Pointer()
		if w.visited[p] {
			return
		}
		w.visited[p] = true
		if ba, ok := v.Interface().(*constant.BlockAddress); ok {
			w.blockAddress(ba, where)
			return
		}
		w.walk(v.Elem(), where)
	case reflect.Struct:
		t := v.Type()
		if t == bigIntT || t == bigFloatT {
			return
		}
		for i := 0; i < t.NumField(); i++ {
			f := t.Field(i)
			if skipField(t, f) || !v.Field(i).CanInterface() {
				continue
			}
			w.walk(v.Field(i), where)
		}
	case reflect.Slice, reflect.Array:
		if v.Type().Elem().Kind() == reflect.Uint8 {
			return
		}
		for i := 0; i < v.Len(); i++ {
			w.walk(v.Index(i), where)
		}
	case reflect.Map:
		for _, k := range v.MapKeys() {
			w.walk(v.MapIndex(k), where)
		}
	}
}

func (w *censusWalker) blockAddress(ba *constant.BlockAddress, where string) {
	f, ok := ba.Func.(*ir.Func)
	if !ok {
		w.problem("blockaddress (%s): function operand is a %T, not the *ir.Func of the module", where, ba.Func)
		return
	}
	w.c.Refs["blockaddress.func"]++
	if !w.globals[f] {
		w.problem("blockaddress (%s): function %s is not an object of the module's function list", where, f.Ident())
		return
	}
	b, ok := ba.Block.(*ir.Block)
	if !ok {
		w.problem("blockaddress (%s): block operand is a %T", where, ba.Block)
		return
	}
	w.c.Refs["blockaddress.block"]++
	if _, in := w.locals[f][b]; !in {
		w.problem("blockaddress(%s, %s) (%s): the block object is not one of the blocks listed by that function (placeholder survived)", f.Ident(), b.Ident(), where)
	}
	if b.Parent != f {
		w.problem("blockaddress(%s, %s) (%s): block's Parent link is not that function", f.Ident(), b.Ident(), where)
	}
}

// reference checks v if it is identity-bearing and reports whether it was.
func (w *censusWalker) reference(v reflect.Value, where string) bool {
	switch x := v.Interface().(type) {
	case *ir.Module:
		return true
	case *ir.Global, *ir.Alias, *ir.IFunc, *ir.Func:
		kind := fmt.Sprintf("%T", x)
		w.c.Refs["ref."+kind]++
		if !w.globals[x] {
			w.problem("%s: reference to %s %s which is not an object of the module's lists", where, kind, x.(interface{ Ident() string }).Ident())
		}
		if w.onStack[v.Pointer()] {
			w.c.Refs["cyclic."+kind]++
		}
		return true
	case *ir.Param:
		w.local(x, "param", where, x.Ident())
		return true
	case *ir.Block:
		w.local(x, "block", where, x.Ident())
		if x.Parent == nil {
			w.problem("%s: block %s has no Parent", where, x.Ident())
		}
		return true
	case *ir.ComdatDef:
		w.c.Refs["ref.comdat"]++
		if !w.comdats[x] {
			w.problem("%s: comdat %s is not an object of the module's comdat list", where, x.Name)
		}
		return true
	case *ir.AttrGroupDef:
		w.c.Refs["ref.attrgroup"]++
		if !w.attrs[x] {
			w.problem("%s: attribute group #%d is not an object of the module's list", where, x.ID)
		}
		return true
	case *metadata.NamedDef:
		return true
	case ir.Instruction:
		w.local(x, "inst", where, fmt.Sprintf("%T", x))
		return true
	case ir.Terminator:
		w.local(x, "term", where, fmt.Sprintf("%T", x))
		return true
	case types.Type:
		if x.Name() == "" {
			return false
		}
		w.c.Refs["ref.type"]++
		def, ok := w.typeDef[x.Name()]
		if !ok {
			w.problem("%s: named type %%%s is not in the module's type definitions", where, x.Name())
		} else if def != x {
			w.problem("%s: use of named type %%%s is a different object than its definition", where, x.Name())
		}
		if w.onStack[v.Pointer()] {
			w.c.Refs["cyclic.type"]++
		}
		return true
	case metadata.Definition:
		if x.ID() == -1 {
			return false // inline node: by value
		}
		w.c.Refs["ref.metadata"]++
		if !w.mds[x] {
			w.problem("%s: reference to metadata !%d is not the object in the module's metadata definitions", where, x.ID())
		}
		if w.onStack[v.Pointer()] {
			w.c.Refs["cyclic.metadata"]++
		}
		return true
	}
	return false
}

func (w *censusWalker) local(x interface{}, kind, where, name string) {
	w.c.Refs["ref."+kind]++
	if w.ctx == nil {
		w.problem("%s: local %s %s referenced outside of any function", where, kind, name)
		return
	}
	pos, in := w.locals[w.ctx][x]
	if !in {
		w.problem("%s in %s: %s %s is not an object defined by the enclosing function", where, w.ctx.Ident(), kind, name)
		return
	}
	if w.pos >= 0 && pos > w.pos {
		w.c.Refs["forward."+kind]++
	}
	if w.pos >= 0 && pos == w.pos {
		w.c.Refs["self."+kind]++
	}
}
