// Package graph holds the reflection walkers over the object graph of an
// *ir.Module: a canonical structural serialisation (lock-step structural
// equality, oracle O3) and an identity census (oracle O2).
package graph

import (
	"fmt"
	"math/big"
	"reflect"
	"sort"
	"strings"

	"github.com/llir/llvm/ir"
	"github.com/llir/llvm/ir/constant"
	"github.com/llir/llvm/ir/metadata"
	"github.com/llir/llvm/ir/types"
)

var (
	bigIntT   = reflect.TypeOf(big.Int{})
	bigFloatT = reflect.TypeOf(big.Float{})
	typeIface = reflect.TypeOf((*types.Type)(nil)).Elem()
	mdDefT    = reflect.TypeOf((*metadata.Definition)(nil)).Elem()
)

// IsIdentity reports whether the object v points to is identity-bearing: two
// graphs are structurally identical only if such objects are in bijection
// (everything else is compared by value).
func IsIdentity(v reflect.Value) bool {
	if v.Kind() != reflect.Ptr || v.IsNil() {
		return false
	}
	switch x := v.Interface().(type) {
	case *ir.Module, *ir.Global, *ir.Func, *ir.Alias, *ir.IFunc, *ir.Param, *ir.Block, *ir.ComdatDef, *ir.AttrGroupDef, *metadata.NamedDef:
		return true
	case ir.Instruction:
		return true
	case ir.Terminator:
		return true
	case types.Type:
		return x.Name() != ""
	case metadata.Definition:
		return x.ID() != -1 || isDistinct(v)
	}
	return false
}

func isDistinct(v reflect.Value) bool {
	e := v.Elem()
	if e.Kind() != reflect.Struct {
		return false
	}
	f := e.FieldByName("Distinct")
	return f.IsValid() && f.Kind() == reflect.Bool && f.Bool()
}

func skipField(t reflect.Type, f reflect.StructField) bool {
	if f.Name == "mu" {
		return true
	}
	// pure caches of the successor views
	if f.Name == "Successors" && strings.HasPrefix(t.Name(), "Term") {
		return true
	}
	return false
}

// Options of Serialize.
type Options struct {
	// IgnoreIDs leaves out the numeric IDs of unnamed locals/globals and
	// metadata (for comparisons "up to renumbering").
	IgnoreIDs bool
}

type serializer struct {
	sb    strings.Builder
	seen  map[uintptr]int
	opts  Options
	depth int
}

// Serialize returns the canonical structural serialisation of the graph
// reachable from m. Identity-bearing objects are numbered in first-visit order
// and referenced by number afterwards; everything else is written out by
// value. nil and empty slices are alike; mutexes and successor caches are
// skipped; big.Float is written by exact value, not precision.
func Serialize(m *ir.Module, opts Options) string {
	s := &serializer{seen: map[uintptr]int{}, opts: opts}
	s.value(reflect.ValueOf(m))
	return s.sb.String()
}

func (s *serializer) w(format string, a ...interface{}) { fmt.Fprintf(&s.sb, format, a...) }

func (s *serializer) value(v reflect.Value) {
	if !v.IsValid() {
		s.w("nil")
		return
	}
	switch v.Kind() {
	case reflect.Interface:
		if v.IsNil() {
			s.w("nil")
			return
		}
		s.value(v.Elem())
	case reflect.Ptr:
		if v.IsNil() {
			s.w("nil")
			return
		}
		if v.Type().Elem() == bigIntT {
			s.w("big(%s)", v.Interface().(*big.Int).String())
			return
		}
		if v.Type().Elem() == bigFloatT {
			f := v.Interface().(*big.Float)
			s.w("bigf(%s)", f.Text('p', 0))
			return
		}
		switch c := v.Interface().(type) {
		case *constant.Index:
			// the parser wraps every constant gep index in an Index node; without
			// inrange the wrapper carries nothing
			if !c.InRange {
				s.value(reflect.ValueOf(c.Constant))
				return
			}
		case *constant.Int:
			// an integer constant denotes its value modulo 2^width (i1 -1 is true)
			if c.Typ != nil && c.X != nil && c.Typ.BitSize > 0 && c.Typ.BitSize <= 1<<20 {
				mod := new(big.Int).Lsh(big.NewInt(1), uint(c.Typ.BitSize))
				s.w("&constant.Int{Typ:i%d X:%s}", c.Typ.BitSize, new(big.Int).Mod(c.X, mod).String())
				return
			}
		}
		if IsIdentity(v) {
			p := v.Pointer()
			if n, ok := s.seen[p]; ok {
				s.w("#%d", n)
				return
			}
			n := len(s.seen)
			s.seen[p] = n
			s.w("\n#%d=%s", n, v.Type().Elem().String())
			s.structBody(v.Elem())
			return
		}
		s.depth++
		if s.depth > 2000 {
			s.w("<too deep>")
			s.depth--
			return
		}
		s.w("&%s", v.Type().Elem().String())
		s.value(v.Elem())
		s.depth--
	case reflect.Struct:
		if v.Type() == bigIntT || v.Type() == bigFloatT {
			s.w("<bigvalue>")
			return
		}
		s.structBody(v)
	case reflect.Slice, reflect.Array:
		if v.Kind() == reflect.Slice && v.Type().Elem().Kind() == reflect.Uint8 {
			s.w("%q", v.Bytes())
			return
		}
		s.w("[")
		for i := 0; i < v.Len(); i++ {
			if i > 0 {
				s.w(",")
			}
			s.value(v.Index(i))
		}
		s.w("]")
	case reflect.Map:
		keys := v.MapKeys()
		sort.Slice(keys, func(i, j int) bool { return fmt.Sprint(keys[i].Interface()) < fmt.Sprint(keys[j].Interface()) })
		s.w("map[")
		for _, k := range keys {
			s.w("%v:", k.Interface())
			s.value(v.MapIndex(k))
			s.w(";")
		}
		s.w("]")
	case reflect.String:
		s.w("%q", v.String())
	case reflect.Bool:
		s.w("%v", v.Bool())
	case reflect.Int, reflect.Int8, reflect.Int16, reflect.Int32, reflect.Int64:
		s.w("%d", v.Int())
	case reflect.Uint, reflect.Uint8, reflect.Uint16, reflect.Uint32, reflect.Uint64, reflect.Uintptr:
		s.w("%du", v.Uint())
	case reflect.Float32, reflect.Float64:
		s.w("%v", v.Float())
	case reflect.Func, reflect.Chan, reflect.UnsafePointer:
		s.w("<%s>", v.Kind())
	default:
		s.w("<?%s>", v.Kind())
	}
}

func (s *serializer) structBody(v reflect.Value) {
	t := v.Type()
	s.w("{")
	for i := 0; i < t.NumField(); i++ {
		f := t.Field(i)
		if skipField(t, f) {
			continue
		}
		if s.opts.IgnoreIDs && (f.Name == "LocalID" || f.Name == "GlobalID" || (f.Name == "MetadataID" && f.Type.Kind() == reflect.Int64)) {
			continue
		}
		fv := v.Field(i)
		if !fv.CanInterface() {
			// unexported field: read it without Interface()
			s.w("%s:", f.Name)
			s.unexported(fv)
			s.w(" ")
			continue
		}
		s.w("%s:", f.Name)
		if f.Name == "Typ" && v.CanAddr() && v.FieldByName("AddrSpace").IsValid() {
			// Typ of a global, function or alloca is a cache of the pointer type the
			// value has; what counts is the type it reports (the address space may have
			// been set after the cache was filled)
			if tv, ok := v.Addr().Interface().(interface{ Type() types.Type }); ok {
				s.value(reflect.ValueOf(tv.Type()))
				s.w(" ")
				continue
			}
		}
		s.value(fv)
		s.w(" ")
	}
	s.w("}")
}

func (s *serializer) unexported(v reflect.Value) {
	switch v.Kind() {
	case reflect.String:
		s.w("%q", v.String())
	case reflect.Bool:
		s.w("%v", v.Bool())
	case reflect.Int, reflect.Int8, reflect.Int16, reflect.Int32, reflect.Int64:
		s.w("%d", v.Int())
	case reflect.Uint, reflect.Uint8, reflect.Uint16, reflect.Uint32, reflect.Uint64:
		s.w("%du", v.Uint())
	default:
		s.w("<unexported %s>", v.Kind())
	}
}

// FirstDiff describes the first difference of two serialisations.
func FirstDiff(a, b string) string {
	la, lb := strings.Split(a, "\n"), strings.Split(b, "\n")
	for i := 0; i < len(la) || i < len(lb); i++ {
		var x, y string
		if i < len(la) {
			x = la[i]
		}
		if i < len(lb) {
			y = lb[i]
		}
		if x != y {
			// narrow to the differing column
			j := 0
			for j < len(x) && j < len(y) && x[j] == y[j] {
				j++
			}
			lo := j - 120
			if lo < 0 {
				lo = 0
			}
			cut := func(s string) string {
				hi := j + 160
				if hi > len(s) {
					hi = len(s)
				}
				if lo > len(s) {
					return ""
				}
				return s[lo:hi]
			}
			return fmt.Sprintf("object line %d, column %d:\n  A: ...%s\n  B: ...%s", i, j, cut(x), cut(y))
		}
	}
	return "no difference"
}
