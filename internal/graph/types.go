package graph

import (
	"reflect"

	"github.com/llir/llvm/ir"
	"github.com/llir/llvm/ir/types"
)

// CollectTypes returns every distinct types.Type object reachable from the
// module (type definitions, types of values, element / field / parameter types),
// in the order of first visit.
func CollectTypes(m *ir.Module) []types.Type {
	typIface := reflect.TypeOf((*types.Type)(nil)).Elem()
	seenObj := map[uintptr]bool{}
	seenType := map[uintptr]bool{}
	var out []types.Type
	var walk func(v reflect.Value, depth int)
	walk = func(v reflect.Value, depth int) {
		if depth > 200 {
			return
		}
		switch v.Kind() {
		case reflect.Interface:
			if v.IsNil() {
				return
			}
			if v.Type().Implements(typIface) || v.Elem().Type().Implements(typIface) {
				if t, ok := v.Interface().(types.Type); ok && v.Elem().Kind() == reflect.Ptr {
					p := v.Elem().Pointer()
					if !seenType[p] {
						seenType[p] = true
						out = append(out, t)
					}
				}
			}
			walk(v.Elem(), depth+1)
		case reflect.Ptr:
			if v.IsNil() {
				return
			}
			p := v.Pointer()
			if seenObj[p] {
				return
			}
			seenObj[p] = true
			if v.CanInterface() {
				if t, ok := v.Interface().(types.Type); ok && !seenType[p] {
					seenType[p] = true
					out = append(out, t)
				}
			}
			walk(v.Elem(), depth+1)
		case reflect.Struct:
			for i := 0; i < v.NumField(); i++ {
				if v.Type().Field(i).PkgPath != "" {
					continue // unexported
				}
				walk(v.Field(i), depth+1)
			}
		case reflect.Slice, reflect.Array:
			for i := 0; i < v.Len(); i++ {
				walk(v.Index(i), depth+1)
			}
		case reflect.Map:
			it := v.MapRange()
			for it.Next() {
				walk(it.Value(), depth+1)
			}
		}
	}
	walk(reflect.ValueOf(m), 0)
	return out
}
