package graph

import (
	"reflect"
	"strconv"
	"strings"

	"github.com/llir/llvm/ir"
	"github.com/llir/llvm/ir/metadata"
)

// TextMDRefs counts, per metadata ID N, the references `!N` in LLVM assembly
// text (every `!N` token outside strings and comments that is not the head of
// the definition `!N = ...`), and lists the IDs defined.
func TextMDRefs(text string) (refs map[int64]int, defs map[int64]int) {
	refs, defs = map[int64]int{}, map[int64]int{}
	lineStart := true
	for i := 0; i < len(text); {
		c := text[i]
		switch {
		case c == '\n':
			lineStart = true
			i++
		case c == ';':
			for i < len(text) && text[i] != '\n' {
				i++
			}
		case c == '"':
			i++
			for i < len(text) && text[i] != '"' {
				i++
			}
			i++
			lineStart = false
		case c == '!' && i+1 < len(text) && text[i+1] >= '0' && text[i+1] <= '9':
			j := i + 1
			for j < len(text) && text[j] >= '0' && text[j] <= '9' {
				j++
			}
			id, err := strconv.ParseInt(text[i+1:j], 10, 64)
			isIdent := j < len(text) && (text[j] == '.' || text[j] == '_' || text[j] == '-' || text[j] == '$' || text[j] == '\\' || text[j] >= 'a' && text[j] <= 'z' || text[j] >= 'A' && text[j] <= 'Z')
			if err == nil && !isIdent {
				k := j
				for k < len(text) && (text[k] == ' ' || text[k] == '\t') {
					k++
				}
				if lineStart && k < len(text) && text[k] == '=' {
					defs[id]++
				} else {
					refs[id]++
				}
			}
			i = j
			lineStart = false
		case c == ' ' || c == '\t' || c == '\r':
			i++
		default:
			i++
			lineStart = false
		}
	}
	return refs, defs
}

// GraphMDRefs counts, per metadata ID, the edges of the object graph of m that
// point at the numbered metadata definition with that ID (the entries of the
// module's own definition list are not references). Every object is visited
// once, so every edge is counted once. unlisted receives the IDs of numbered
// definitions that are referenced but are not the object listed under that ID
// in m.MetadataDefs.
func GraphMDRefs(m *ir.Module) (refs map[int64]int, unlisted []int64) {
	refs = map[int64]int{}
	listed := map[int64]metadata.Definition{}
	for _, d := range m.MetadataDefs {
		listed[d.ID()] = d
	}
	seen := map[uintptr]bool{}
	var walk func(v reflect.Value, depth int)
	edge := func(v reflect.Value) {
		if v.Kind() != reflect.Ptr || v.IsNil() || !v.Type().Implements(mdDefT) {
			return
		}
		d := v.Interface().(metadata.Definition)
		if id := d.ID(); id >= 0 {
			refs[id]++
			if l, ok := listed[id]; !ok || l != d {
				unlisted = append(unlisted, id)
			}
		}
	}
	walk = func(v reflect.Value, depth int) {
		if !v.IsValid() || depth > 4000 {
			return
		}
		switch v.Kind() {
		case reflect.Interface:
			if !v.IsNil() {
				walk(v.Elem(), depth+1)
			}
		case reflect.Ptr:
			if v.IsNil() {
				return
			}
			edge(v)
			p := v.Pointer()
			if seen[p] {
				return
			}
			seen[p] = true
			if v.Type().Elem() == bigIntT || v.Type().Elem() == bigFloatT {
				return
			}
			walk(v.Elem(), depth+1)
		case reflect.Struct:
			t := v.Type()
			if t == bigIntT || t == bigFloatT {
				return
			}
			for i := 0; i < t.NumField(); i++ {
				if !v.Field(i).CanInterface() {
					continue
				}
				if t == reflect.TypeOf(ir.Module{}) && t.Field(i).Name == "MetadataDefs" {
					// the definitions themselves: visit, but do not count as references
					defs := v.Field(i)
					for k := 0; k < defs.Len(); k++ {
						e := defs.Index(k)
						if e.Kind() == reflect.Interface && !e.IsNil() {
							e = e.Elem()
						}
						if e.Kind() == reflect.Ptr && !e.IsNil() {
							if !seen[e.Pointer()] {
								seen[e.Pointer()] = true
								walk(e.Elem(), depth+1)
							}
						}
					}
					continue
				}
				walk(v.Field(i), depth+1)
			}
		case reflect.Slice, reflect.Array:
			for i := 0; i < v.Len(); i++ {
				walk(v.Index(i), depth+1)
			}
		case reflect.Map:
			for _, k := range v.MapKeys() {
				walk(v.MapIndex(k), depth+1)
			}
		}
	}
	walk(reflect.ValueOf(m), 0)
	return refs, unlisted
}

// MetadataObjects returns the addresses of all objects of package metadata
// (tuples, specialised nodes, strings, named definitions, attachments, ...)
// reachable from m, with the Go type of each.
func MetadataObjects(m *ir.Module) map[uintptr]string {
	out := map[uintptr]string{}
	seen := map[uintptr]bool{}
	var walk func(v reflect.Value, depth int)
	walk = func(v reflect.Value, depth int) {
		if !v.IsValid() || depth > 4000 {
			return
		}
		switch v.Kind() {
		case reflect.Interface:
			if !v.IsNil() {
				walk(v.Elem(), depth+1)
			}
		case reflect.Ptr:
			if v.IsNil() {
				return
			}
			p := v.Pointer()
			if seen[p] {
				return
			}
			seen[p] = true
			et := v.Type().Elem()
			if et == bigIntT || et == bigFloatT {
				return
			}
			if et.Kind() == reflect.Struct && strings.HasSuffix(et.PkgPath(), "/ir/metadata") && et.Size() > 0 {
				out[p] = et.String()
			}
			walk(v.Elem(), depth+1)
		case reflect.Struct:
			t := v.Type()
			if t == bigIntT || t == bigFloatT {
				return
			}
			for i := 0; i < t.NumField(); i++ {
				if v.Field(i).CanInterface() {
					walk(v.Field(i), depth+1)
				}
			}
		case reflect.Slice, reflect.Array:
			for i := 0; i < v.Len(); i++ {
				walk(v.Index(i), depth+1)
			}
		case reflect.Map:
			for _, k := range v.MapKeys() {
				walk(v.MapIndex(k), depth+1)
			}
		}
	}
	walk(reflect.ValueOf(m), 0)
	return out
}

// HeapObjects returns the addresses of the objects reachable from m that a
// module owns: everything behind a pointer except types (package ir/types,
// shared by design: types.I32 and friends) and the values in skip (the exported
// package-level singletons such as constant.True). The value is the Go type.
// Backing arrays of non-empty slices are recorded too (keyed by the address of
// their first element, type "[]T").
func HeapObjects(m *ir.Module, skip map[uintptr]bool) map[uintptr]string {
	out := map[uintptr]string{}
	seen := map[uintptr]bool{}
	var walk func(v reflect.Value, depth int)
	walk = func(v reflect.Value, depth int) {
		if !v.IsValid() || depth > 6000 {
			return
		}
		switch v.Kind() {
		case reflect.Interface:
			if !v.IsNil() {
				walk(v.Elem(), depth+1)
			}
		case reflect.Ptr:
			if v.IsNil() {
				return
			}
			p := v.Pointer()
			if seen[p] {
				return
			}
			seen[p] = true
			et := v.Type().Elem()
			if strings.HasSuffix(et.PkgPath(), "/ir/types") || skip[p] {
				return
			}
			if et.Kind() == reflect.Struct && et.Size() > 0 {
				out[p] = et.String()
			}
			if et == bigIntT || et == bigFloatT {
				return
			}
			walk(v.Elem(), depth+1)
		case reflect.Struct:
			t := v.Type()
			if t == bigIntT || t == bigFloatT {
				return
			}
			for i := 0; i < t.NumField(); i++ {
				if v.Field(i).CanInterface() {
					walk(v.Field(i), depth+1)
				}
			}
		case reflect.Slice:
			if v.Len() > 0 {
				p := v.Pointer()
				if !seen[p] {
					// (a one-element slice of a struct shares its address with the struct: keep both apart by type)
					out[p] = v.Type().String()
				}
			}
			for i := 0; i < v.Len(); i++ {
				walk(v.Index(i), depth+1)
			}
		case reflect.Array:
			for i := 0; i < v.Len(); i++ {
				walk(v.Index(i), depth+1)
			}
		case reflect.Map:
			for _, k := range v.MapKeys() {
				walk(v.MapIndex(k), depth+1)
			}
		}
	}
	walk(reflect.ValueOf(m), 0)
	return out
}
