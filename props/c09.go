package props

import (
	"fmt"
	"math/big"
	"math/rand"
	"strings"
	"sync"
	"sync/atomic"

	"github.com/llir/llvm/ir"
	"github.com/llir/llvm/ir/constant"
	"github.com/llir/llvm/ir/types"

	"verif/internal/fw"
	"verif/internal/llvmref"
)

func init() {
	fw.Register(&fw.Check{
		ID:    "C09",
		Level: "exploration",
		Rule: "printer round trip: for width w and value v (every v in [-2^(w-1), 2^w-1] for w<=12 quick / w<=16 thorough; boundary, low-entropy and PRNG values for 20 larger widths up to 4099) the constant is printed with Ident, re-read with NewIntFromString and through asm.ParseString, and the literal is also given to llvm-as|llvm-dis; all readings must equal v modulo 2^w. " +
			"parser: every spelling (signed/unsigned decimal with and without leading zeros, u0x upper/lower case with leading zeros, full-width s0x, true/false, over-wide u0x and decimals) of every value for w<=8, and of the structured values for larger widths, must denote the big-integer value (exactly when in range, modulo 2^w otherwise), again cross-checked with LLVM. " +
			"positions: literals inside arrays, vectors, structs, nested aggregates and constant expressions, in the input's and the printer's spelling. storage: no two constants of a parse share a *big.Int; an in-place edit of one changes one printed line and no later parse. " +
			"a case is (width, value, spelling); non-trivial = every case (each is a distinct literal); distinct by construction",
		Gen:           genC09,
		MinNontrivial: 10000,
		Assumptions: []string{"s0x literals are judged as the property words them (two's complement at the type width); LLVM 14 takes the top active bit of the written digits as sign bit (i8 s0x01 = -1, i16 s0x80 = -128), so LLVM is consulted for s0x only where both rules coincide (bit w-1 set, or zero)",
			"LLVM 14 (llvm-as|llvm-dis) is the second reference for what a literal denotes"},
		Exhaustive: func(tier string) bool { return false },
	})
}

var c09Widths = []uint64{17, 24, 31, 32, 33, 48, 63, 64, 65, 96, 127, 128, 129, 255, 256, 257, 512, 1024, 1025, 4099}

func genC09(ctx *fw.Ctx) []fw.Case {
	var cases []fw.Case
	maxExh := uint64(ctx.Pick(13, 18))
	for w := uint64(1); w <= maxExh; w++ {
		w := w
		nblk := 1
		if w >= 13 {
			nblk = 1 << (w - 12)
		}
		for b := 0; b < nblk; b++ {
			b := b
			cases = append(cases, fw.Case{ID: fmt.Sprintf("exh/i%d/%d", w, b), Run: func(r *fw.Rec) { c09Exhaustive(r, w, b, nblk) }})
		}
	}
	for _, w := range c09Widths {
		w := w
		cases = append(cases, fw.Case{ID: fmt.Sprintf("struct/i%d", w), Run: func(r *fw.Rec) { c09Structured(r, w) }})
	}
	for _, rev := range []bool{false, true} {
		rev := rev
		cases = append(cases, fw.Case{ID: fmt.Sprintf("mixed-widths/reverse=%v", rev), Run: func(r *fw.Rec) { c09MixedWidths(r, rev) }})
	}
	for _, w := range []uint64{1, 7, 32, 63, 64, 65, 100, 128, 129, 257} {
		w := w
		cases = append(cases, fw.Case{ID: fmt.Sprintf("positions/i%d", w), Run: func(r *fw.Rec) { c09Positions(r, w) }})
	}
	cases = append(cases, fw.Case{ID: "storage/constants-own-their-value", Run: c09OwnStorage})
	cases = append(cases, fw.Case{ID: "concurrent/independent-constants-printed-and-parsed-side-by-side", Run: c09Concurrent})
	return cases
}

// c09Positions puts integer literals where they are not the whole initializer
// of a global: elements of arrays and vectors, struct fields, nested
// aggregates, operands of constant expressions and of instructions, switch
// cases. Input spellings and the printer's own spelling (parse, print, parse
// again) must denote the same values in every position.
func c09Positions(r *fw.Rec, w uint64) {
	rng := r.Ctx().Rand(fmt.Sprintf("positions/%d", w))
	vs := structuredValues(w, rng, r.Ctx().Pick(40, 400))
	if n := r.Ctx().Pick(160, 1600); len(vs) > n {
		rng.Shuffle(len(vs), func(i, j int) { vs[i], vs[j] = vs[j], vs[i] })
		vs = vs[:n]
	}
	type slot struct {
		lit  intLit
		read func(m *ir.Module) *big.Int
	}
	var sb strings.Builder
	var slots []slot
	asInt := func(c interface{}) *big.Int {
		if ci, ok := c.(*constant.Int); ok {
			return ci.X
		}
		return nil
	}
	gidx := 0
	global := func(m *ir.Module, i int) constant.Constant { return m.Globals[i].Init }
	for _, v := range vs {
		sp := spellings(w, v, rng, false)
		l := sp[rng.Intn(len(sp))]
		if l.kind == "s0x-fullwidth-positive" {
			continue
		}
		t := fmt.Sprintf("i%d", w)
		k := gidx
		switch rng.Intn(5) {
		case 0:
			fmt.Fprintf(&sb, "@g%d = global [2 x %s] [%s %s, %s %s]\n", k, t, t, l.spell, t, l.spell)
			slots = append(slots, slot{l, func(m *ir.Module) *big.Int { return asInt(global(m, k).(*constant.Array).Elems[1]) }})
		case 1:
			if w == 1 || w > 128 {
				// (vectors of very wide integers are legal but slow in LLVM; keep them small)
			}
			fmt.Fprintf(&sb, "@g%d = global <2 x %s> <%s %s, %s %s>\n", k, t, t, l.spell, t, l.spell)
			slots = append(slots, slot{l, func(m *ir.Module) *big.Int { return asInt(global(m, k).(*constant.Vector).Elems[0]) }})
		case 2:
			fmt.Fprintf(&sb, "@g%d = global { i8, %s } { i8 1, %s %s }\n", k, t, t, l.spell)
			slots = append(slots, slot{l, func(m *ir.Module) *big.Int { return asInt(global(m, k).(*constant.Struct).Fields[1]) }})
		case 3:
			fmt.Fprintf(&sb, "@g%d = global [1 x { [1 x %s] }] [{ [1 x %s] } { [1 x %s] [%s %s] }]\n", k, t, t, t, t, l.spell)
			slots = append(slots, slot{l, func(m *ir.Module) *big.Int {
				return asInt(global(m, k).(*constant.Array).Elems[0].(*constant.Struct).Fields[0].(*constant.Array).Elems[0])
			}})
		case 4:
			fmt.Fprintf(&sb, "@g%d = global %s xor (%s ptrtoint (i8* @anchor to %s), %s %s)\n", k, t, t, t, t, l.spell)
			slots = append(slots, slot{l, func(m *ir.Module) *big.Int { return asInt(global(m, k).(*constant.ExprXor).Y) }})
		}
		gidx++
	}
	sb.WriteString("@anchor = global i8 0\n")
	x := sb.String()
	if ok, msg, err := llvmref.Accepts(x); err != nil || !ok {
		r.Inconclusive("LLVM rejects the positions module (generator issue): " + firstLine(lastDiag(msg)))
		return
	}
	check := func(stage string, m *ir.Module) bool {
		for _, sl := range slots {
			r.Eval(1)
			var got *big.Int
			if p, _, _ := fw.Guard(func() { got = sl.read(m) }); p || got == nil {
				r.Violate(fw.Violation{Key: fmt.Sprintf("positions/shape/%s/i%d", stage, w), Input: x, What: "the module does not have the expected shape at a literal position"})
				return false
			}
			if modw(got, w).Cmp(modw(sl.lit.want, w)) != 0 {
				r.Violate(fw.Violation{Key: fmt.Sprintf("positions/wrong-value/%s/%s/i%d", stage, sl.lit.kind, w), Input: fmt.Sprintf("i%d %s", w, sl.lit.spell),
					What:     fmt.Sprintf("literal `i%d %s` inside an aggregate or expression is read as %s (%s)", w, sl.lit.spell, got, stage),
					Expected: sl.lit.want.String(), Observed: got.String()})
				return false
			}
		}
		return true
	}
	m, perr, pmsg := parseGuard("c09-positions", x)
	if pmsg != "" || perr != nil {
		what := pmsg
		if perr != nil {
			what = perr.Error()
		}
		r.Violate(fw.Violation{Key: fmt.Sprintf("positions/rejected/i%d", w), Input: x, What: "the parser rejects integer literals inside aggregates: " + firstLine(what)})
		return
	}
	if !check("input", m) {
		return
	}
	y, pp := printGuard(m)
	if pp != "" {
		r.Violate(fw.Violation{Key: fmt.Sprintf("positions/print-panic/i%d", w), Input: x, What: firstLine(pp)})
		return
	}
	m2, perr2, pmsg2 := parseGuard("c09-positions-printed", y)
	if pmsg2 != "" || perr2 != nil {
		r.Violate(fw.Violation{Key: fmt.Sprintf("positions/printed-rejected/i%d", w), Input: y, What: "the printed module is rejected by the parser"})
		return
	}
	if !check("printed", m2) {
		return
	}
	// LLVM's reading of input and printed output
	cx, _, okx, _, errx := llvmref.Canon(x)
	cy, _, oky, _, erry := llvmref.Canon(y)
	if errx == nil && erry == nil && okx && (!oky || cx != cy) {
		r.Violate(fw.Violation{Key: fmt.Sprintf("positions/llvm-reads-printed-differently/i%d", w), Input: x, What: "LLVM reads the printed module differently from the input: " + firstDiffLines(cx, cy), Observed: y})
		return
	}
	r.NontrivialN(fmt.Sprintf("positions/i%d", w), len(slots))
	r.TallyN("positions", "literals-inside-aggregates-and-expressions", len(slots))
}

type intLit struct {
	w     uint64
	spell string
	want  *big.Int // value it must denote (mod 2^w)
	exact bool     // X must equal want exactly
	kind  string
}

func pow2(n uint64) *big.Int { return new(big.Int).Lsh(big.NewInt(1), uint(n)) }

func modw(x *big.Int, w uint64) *big.Int {
	m := new(big.Int).Mod(x, pow2(w))
	return m
}

// signedw returns x mod 2^w in the signed range.
func signedw(x *big.Int, w uint64) *big.Int {
	m := modw(x, w)
	if m.Bit(int(w)-1) == 1 {
		m.Sub(m, pow2(w))
	}
	return m
}

func hexDigits(w uint64) int { return int((w + 3) / 4) }

// spellings returns the accepted literal forms of the value v (given in
// [-2^(w-1), 2^w-1]) for width w.
func spellings(w uint64, v *big.Int, rng *rand.Rand, all bool) []intLit {
	var out []intLit
	u := modw(v, w)
	s := signedw(v, w)
	add := func(kind, spell string, want *big.Int, exact bool) {
		out = append(out, intLit{w: w, spell: spell, want: want, exact: exact, kind: kind})
	}
	add("dec-unsigned", u.String(), u, true)
	if s.Sign() < 0 {
		add("dec-signed", s.String(), s, true)
	}
	add("u0x-upper", "u0x"+strings.ToUpper(u.Text(16)), u, true)
	if all || rng.Intn(4) == 0 {
		add("u0x-lower", "u0x"+u.Text(16), u, true)
		add("u0x-leading-zeros", "u0x00"+strings.ToUpper(u.Text(16)), u, true)
		add("dec-leading-zeros", "00"+u.String(), u, true)
	}
	// full-width s0x: exactly as many hex digits as the width needs, value = unsigned pattern
	hx := strings.ToUpper(u.Text(16))
	for len(hx) < hexDigits(w) {
		hx = "0" + hx
	}
	// s0x is judged as the property words it: two's complement at the type
	// width. LLVM itself takes the top *active* bit of the digits as sign bit
	// (i8 s0x01 = -1), so LLVM is consulted only where both rules coincide: bit
	// w-1 set, or zero.
	if u.Bit(int(w)-1) == 1 || u.Sign() == 0 {
		add("s0x-fullwidth", "s0x"+hx, s, true)
	} else {
		add("s0x-fullwidth-positive", "s0x"+hx, s, true)
		if all || rng.Intn(4) == 0 {
			add("s0x-fullwidth-positive", "s0x"+strings.ToUpper(u.Text(16)), s, true)
		}
	}
	// over-wide forms denote the value modulo 2^w
	if all || rng.Intn(4) == 0 {
		over := new(big.Int).Add(u, pow2(w))
		add("dec-overwide", over.String(), u, false)
		add("u0x-overwide", "u0x"+strings.ToUpper(over.Text(16)), u, false)
		under := new(big.Int).Sub(s, pow2(w))
		add("dec-underwide", under.String(), u, false)
	}
	if w == 1 {
		if u.Sign() == 0 {
			add("bool", "false", u, true)
		} else {
			add("bool", "true", u, true)
		}
	}
	return out
}

type c09Batch struct {
	r     *fw.Rec
	tag   string
	lits  []intLit
	prtOf []int // index into lits for printer-produced literals (tally only)
}

// judgeLits checks the literals with NewIntFromString, with asm.ParseString on
// one batched module, and with LLVM on the same module.
func judgeLits(r *fw.Rec, tag string, lits []intLit) {
	if len(lits) == 0 {
		return
	}
	// 1. direct
	for _, l := range lits {
		typ := types.NewInt(l.w)
		var c *constant.Int
		var err error
		if p, msg, _ := fw.Guard(func() { c, err = constant.NewIntFromString(typ, l.spell) }); p {
			r.Violate(fw.Violation{Key: fmt.Sprintf("parse-panic/%s/i%d/%s", l.kind, l.w, l.spell), What: "NewIntFromString panics: " + msg, Input: fmt.Sprintf("i%d %s", l.w, l.spell)})
			continue
		}
		if err != nil {
			r.Violate(fw.Violation{Key: fmt.Sprintf("parse-error/%s/i%d/%s", l.kind, l.w, l.spell), What: "NewIntFromString rejects an accepted literal form: " + err.Error(), Input: fmt.Sprintf("i%d %s", l.w, l.spell)})
			continue
		}
		judgeValue(r, "NewIntFromString", l, c.X)
	}
	r.Eval(len(lits))
	// 2. batched through the assembler and LLVM
	var sb strings.Builder
	for i, l := range lits {
		fmt.Fprintf(&sb, "@g%d = global i%d %s\n", i, l.w, l.spell)
	}
	text := sb.String()
	m, perr, pmsg := parseGuard(tag, text)
	if pmsg != "" || perr != nil {
		// find the culprit one by one
		bad := 0
		for i, l := range lits {
			t := fmt.Sprintf("@g%d = global i%d %s\n", i, l.w, l.spell)
			m1, e1, p1 := parseGuard(tag, t)
			if p1 != "" || e1 != nil || m1 == nil {
				what := p1
				if e1 != nil {
					what = e1.Error()
				}
				r.Violate(fw.Violation{Key: fmt.Sprintf("asm-reject/%s/i%d/%s", l.kind, l.w, l.spell), Input: t, What: "asm.ParseString fails on an accepted integer literal form: " + firstLine(what)})
				bad++
				if bad > 5 {
					break
				}
			}
		}
		if bad == 0 {
			r.Violate(fw.Violation{Key: "asm-reject-batch/" + tag, Input: text, What: "asm.ParseString fails on the batch but on no single literal"})
		}
	} else {
		byName := map[string]*ir.Global{}
		for _, g := range m.Globals {
			byName[g.GlobalName] = g
		}
		for i, l := range lits {
			g := byName[fmt.Sprintf("g%d", i)]
			ci, ok := g.Init.(*constant.Int)
			if !ok {
				r.Violate(fw.Violation{Key: fmt.Sprintf("asm-not-int/i%d/%s", l.w, l.spell), What: fmt.Sprintf("initializer parsed as %T", g.Init)})
				continue
			}
			judgeValue(r, "asm.ParseString", l, ci.X)
		}
		r.Eval(len(lits))
	}
	// 3. LLVM's reading
	out, msg, ok, err := llvmref.Reading(text)
	if err != nil {
		r.Inconclusive("llvm tool failure: " + err.Error())
		return
	}
	if !ok {
		r.Inconclusive("LLVM rejects the literal batch (generator bug?): " + firstLine(msg))
		r.Note("LLVM rejected batch " + tag + ": " + firstLine(msg))
		return
	}
	vals := map[string]string{}
	for _, line := range strings.Split(out, "\n") {
		if strings.HasPrefix(line, "@g") {
			f := strings.Fields(line)
			if len(f) >= 5 {
				vals[f[0][1:]] = f[4]
			}
		}
	}
	for i, l := range lits {
		if l.kind == "s0x-fullwidth-positive" {
			continue // LLVM's top-active-bit rule differs from the type-width rule here
		}
		got, okv := vals[fmt.Sprintf("g%d", i)]
		if !okv {
			r.Inconclusive("LLVM output line missing")
			continue
		}
		var gv *big.Int
		switch got {
		case "true":
			gv = big.NewInt(1)
		case "false":
			gv = big.NewInt(0)
		default:
			gv, _ = new(big.Int).SetString(got, 10)
		}
		if gv == nil {
			r.Inconclusive("cannot read LLVM's printed value " + got)
			continue
		}
		if modw(gv, l.w).Cmp(modw(l.want, l.w)) != 0 {
			// the monitor's own expectation disagrees with LLVM: the model is at fault, not llir
			r.Inconclusive(fmt.Sprintf("reference model and LLVM disagree on %s literals", l.kind))
			r.Note(fmt.Sprintf("model/LLVM disagreement: i%d %s model=%s llvm=%s", l.w, l.spell, l.want, gv))
		}
	}
	r.TallyN("llvm_cross_checked", "literals", len(lits))
}

func judgeValue(r *fw.Rec, via string, l intLit, x *big.Int) {
	if x == nil {
		r.Violate(fw.Violation{Key: fmt.Sprintf("nil-value/%s/i%d/%s", l.kind, l.w, l.spell), What: via + " returned a constant without value"})
		return
	}
	if modw(x, l.w).Cmp(modw(l.want, l.w)) != 0 || (l.exact && x.Cmp(l.want) != 0) {
		r.Violate(fw.Violation{Key: fmt.Sprintf("wrong-value/%s/i%d/%s", l.kind, l.w, l.spell), Input: fmt.Sprintf("i%d %s", l.w, l.spell),
			What:     fmt.Sprintf("%s reads literal `i%d %s` (%s) as %s", via, l.w, l.spell, l.kind, x),
			Expected: l.want.String(), Observed: x.String()})
	}
	r.Tally("spelling", l.kind)
}

// printerLits returns the literals the printer chooses for the values vs, as
// cases that must read back as the value.
func printerLits(r *fw.Rec, w uint64, vs []*big.Int) []intLit {
	typ := types.NewInt(w)
	var out []intLit
	for _, v := range vs {
		c := &constant.Int{Typ: typ, X: new(big.Int).Set(v)}
		var id string
		if p, msg, _ := fw.Guard(func() { id = c.Ident() }); p {
			key := fmt.Sprintf("ident-panic/i%d/%s", w, v)
			r.Violate(fw.Violation{Key: key, Input: fmt.Sprintf("constant.Int{Typ: i%d, X: %s}.Ident()", w, v), What: "Ident panics on a value representable in the width: " + msg})
			continue
		}
		kind := "printed-decimal"
		if strings.HasPrefix(id, "u0x") {
			kind = "printed-u0x"
		} else if id == "true" || id == "false" {
			kind = "printed-bool"
		}
		out = append(out, intLit{w: w, spell: id, want: v, exact: w != 1, kind: kind})
	}
	return out
}

func c09Exhaustive(r *fw.Rec, w uint64, blk, nblk int) {
	lo := new(big.Int).Neg(pow2(w - 1))
	hi := new(big.Int).Sub(pow2(w), big.NewInt(1))
	total := new(big.Int).Sub(hi, lo).Int64() + 1
	per := (total + int64(nblk) - 1) / int64(nblk)
	start := int64(blk) * per
	end := start + per
	if end > total {
		end = total
	}
	var vs []*big.Int
	for i := start; i < end; i++ {
		vs = append(vs, new(big.Int).Add(lo, big.NewInt(i)))
	}
	rng := r.Ctx().Rand(fmt.Sprintf("exh/%d/%d", w, blk))
	lits := printerLits(r, w, vs)
	nprt := len(lits)
	if w <= 8 {
		for _, v := range vs {
			lits = append(lits, spellings(w, v, rng, true)...)
		}
	} else {
		for _, v := range vs {
			if rng.Intn(16) == 0 {
				lits = append(lits, spellings(w, v, rng, false)...)
			}
		}
	}
	for i := 0; i < len(lits); i += 20000 {
		j := i + 20000
		if j > len(lits) {
			j = len(lits)
		}
		judgeLits(r, fmt.Sprintf("exh-i%d-%d-%d", w, blk, i), lits[i:j])
	}
	r.NontrivialN(fmt.Sprintf("exh/i%d/%d", w, blk), len(lits))
	r.TallyN("width_all_values_printer_roundtrip", fmt.Sprintf("i%d", w), nprt)
	if blk == 0 && len(lits) > 3 {
		r.Sample(map[string]interface{}{"width": w, "literal": lits[len(lits)/2].spell, "kind": lits[len(lits)/2].kind, "denotes": lits[len(lits)/2].want.String()})
	}
}

func structuredValues(w uint64, rng *rand.Rand, nrand int) []*big.Int {
	seen := map[string]bool{}
	var out []*big.Int
	lo := new(big.Int).Neg(pow2(w - 1))
	hi := new(big.Int).Sub(pow2(w), big.NewInt(1))
	add := func(v *big.Int) {
		if v.Cmp(lo) < 0 || v.Cmp(hi) > 0 {
			return
		}
		k := v.String()
		if !seen[k] {
			seen[k] = true
			out = append(out, new(big.Int).Set(v))
		}
	}
	for _, s := range []int64{0, 1, -1, 2, -2, 9, 10, 15, 16, 4095, 4096, 4097, 65535, 65536, 1000000, 16777216, 4294967295, 4294967296} {
		add(big.NewInt(s))
	}
	add(lo)
	add(hi)
	add(new(big.Int).Add(lo, big.NewInt(1)))
	add(new(big.Int).Sub(hi, big.NewInt(1)))
	for k := uint64(0); k <= w; k++ {
		p := pow2(k)
		for _, d := range []int64{-1, 0, 1} {
			v := new(big.Int).Add(p, big.NewInt(d))
			add(v)
			add(new(big.Int).Neg(v))
		}
	}
	// low-entropy hex patterns: repeated nibbles, masks, alternating
	nd := hexDigits(w)
	for _, pat := range []string{"F", "0F", "F0", "A5", "80", "7F", "1", "FFFF0000", "DEADBEEF", "12345678", "00FF", "C0", "8", "E", "10"} {
		for n := 4; n <= nd; n += 1 + n/6 {
			var sb strings.Builder
			for sb.Len() < n {
				sb.WriteString(pat)
			}
			v, _ := new(big.Int).SetString(sb.String()[:n], 16)
			add(v)
			// first digit + zeros / + Fs
			z, _ := new(big.Int).SetString(pat[:1]+strings.Repeat("0", n-1), 16)
			add(z)
			f, _ := new(big.Int).SetString(pat[:1]+strings.Repeat("F", n-1), 16)
			add(f)
		}
	}
	// decimal round numbers (decimal entropy low, hex entropy high)
	for n := 4; n < 40 && uint64(n)*3 < w; n += 1 + n/5 {
		v, _ := new(big.Int).SetString("1"+strings.Repeat("0", n), 10)
		add(v)
		v9, _ := new(big.Int).SetString(strings.Repeat("9", n), 10)
		add(v9)
	}
	for i := 0; i < nrand; i++ {
		bits := 1 + rng.Intn(int(w))
		v := new(big.Int).Rand(rng, pow2(uint64(bits)))
		switch rng.Intn(4) {
		case 0:
			v.Neg(v)
		case 1:
			// sparse: keep few bits
			v.And(v, new(big.Int).Rand(rng, pow2(uint64(bits))))
			v.And(v, new(big.Int).Rand(rng, pow2(uint64(bits))))
		}
		add(v)
	}
	return out
}

func c09Structured(r *fw.Rec, w uint64) {
	rng := r.Ctx().Rand(fmt.Sprintf("struct/%d", w))
	nrand := r.Ctx().Pick(1500, 160000)
	if w > 600 {
		nrand /= 4
	}
	if w > 2000 {
		nrand /= 8
	}
	vs := structuredValues(w, rng, nrand)
	if w > 2000 {
		// the assembler and llvm-as are super-linear in the literal length: keep a PRNG subset
		rng.Shuffle(len(vs), func(i, j int) { vs[i], vs[j] = vs[j], vs[i] })
		if n := r.Ctx().Pick(300, 3000); len(vs) > n {
			vs = vs[:n]
		}
	}
	lits := printerLits(r, w, vs)
	nprt := len(lits)
	hexed := 0
	for _, l := range lits {
		if l.kind == "printed-u0x" {
			hexed++
		}
	}
	for _, v := range vs {
		lits = append(lits, spellings(w, v, rng, false)...)
	}
	for i := 0; i < len(lits); i += 20000 {
		j := i + 20000
		if j > len(lits) {
			j = len(lits)
		}
		judgeLits(r, fmt.Sprintf("struct-i%d-%d", w, i), lits[i:j])
	}
	r.NontrivialN(fmt.Sprintf("struct/i%d", w), len(lits))
	r.TallyN("printer_choice", "u0x", hexed)
	r.TallyN("printer_choice", "decimal", nprt-hexed)
	if len(lits) > 3 {
		l := lits[nprt/3]
		r.Sample(map[string]interface{}{"width": w, "literal": l.spell, "kind": l.kind, "denotes": l.want.String()})
	}
}

// c09MixedWidths puts the same literal text at several widths into one module
// (in ascending or descending order of width): what a literal denotes depends
// on the width of its type, not on where the same digits were seen before.
func c09MixedWidths(r *fw.Rec, reverse bool) {
	widths := []uint64{4, 7, 8, 9, 12, 16, 17, 32, 33, 64, 65, 128}
	if reverse {
		for i, j := 0, len(widths)-1; i < j; i, j = i+1, j-1 {
			widths[i], widths[j] = widths[j], widths[i]
		}
	}
	var lits []intLit
	for _, hx := range []string{"F", "8", "7", "40", "7F", "80", "FF", "100", "FFF", "8000", "FFFF", "10000", "80000000", "FFFFFFFF", "8000000000000000", "FFFFFFFFFFFFFFFF"} {
		u, _ := new(big.Int).SetString(hx, 16)
		for _, w := range widths {
			if len(hx) > hexDigits(w) || u.Cmp(pow2(w)) >= 0 {
				continue
			}
			kind := "s0x-fullwidth-positive" // LLVM is not consulted (see spellings)
			if u.Bit(int(w)-1) == 1 {
				kind = "s0x-fullwidth"
			}
			lits = append(lits, intLit{w: w, spell: "s0x" + hx, want: signedw(u, w), exact: true, kind: kind})
			lits = append(lits, intLit{w: w, spell: "u0x" + hx, want: u, exact: true, kind: "u0x-upper"})
			lits = append(lits, intLit{w: w, spell: u.String(), want: u, exact: true, kind: "dec-unsigned"})
		}
	}
	for _, dec := range []string{"-1", "-8", "-128", "-32768", "-2147483648", "-9223372036854775808"} {
		v, _ := new(big.Int).SetString(dec, 10)
		for _, w := range widths {
			if v.Cmp(new(big.Int).Neg(pow2(w-1))) < 0 {
				continue
			}
			lits = append(lits, intLit{w: w, spell: dec, want: v, exact: true, kind: "dec-signed"})
		}
	}
	judgeLits(r, fmt.Sprintf("mixed-widths-reverse=%v", reverse), lits)
	r.NontrivialN("mixed-widths", len(lits))
}

// c09OwnStorage: every integer constant a parse returns owns its value. The
// same literal written many times (one-digit decimals, 0 and -1, the same wide
// hexadecimal literal, at several widths) gives constants whose X are distinct
// objects; adding one to the X of one constant leaves every other constant, and
// the reading of the same literal in a later parse, as it was.
func c09OwnStorage(r *fw.Rec) {
	lits := []string{"0", "1", "7", "9", "-1", "10", "255", "u0xFF", "s0xFFFFFFFFFFFFFFFF", "s0xFFFFFFFFFFFFFFFE", "18446744073709551616", "u0x10000000000000000", "true"}
	widths := []int{8, 32, 64, 65, 128}
	var sb strings.Builder
	type ent struct {
		lit string
		w   int
	}
	var ents []ent
	for rep := 0; rep < 2; rep++ {
		for _, w := range widths {
			for _, l := range lits {
				if l == "true" {
					if w != 8 {
						continue
					}
					fmt.Fprintf(&sb, "@g%d = global i1 true\n", len(ents))
					ents = append(ents, ent{l, 1})
					continue
				}
				if (strings.HasPrefix(l, "s0xFFFFFFFFFFFFFFF") && w < 64) || (strings.Contains(l, "10000000000000000") || l == "18446744073709551616") && w <= 64 {
					continue
				}
				fmt.Fprintf(&sb, "@g%d = global [2 x i%d] [i%d %s, i%d %s]\n", len(ents), w, w, l, w, l)
				ents = append(ents, ent{l, w})
			}
		}
	}
	x := sb.String()
	collect := func(m *ir.Module) []*constant.Int {
		var out []*constant.Int
		for _, g := range m.Globals {
			switch c := g.Init.(type) {
			case *constant.Int:
				out = append(out, c)
			case *constant.Array:
				for _, e := range c.Elems {
					if ci, ok := e.(*constant.Int); ok {
						out = append(out, ci)
					}
				}
			}
		}
		return out
	}
	m, perr, pmsg := parseGuard("c09-storage", x)
	if pmsg != "" || perr != nil {
		r.Inconclusive("cannot parse the storage module")
		return
	}
	before, _ := printGuard(m)
	cs := collect(m)
	seen := map[*big.Int]int{}
	for i, c := range cs {
		r.Eval(1)
		if c.Typ.BitSize == 1 {
			continue // true/false are the documented shared constants
		}
		if j, ok := seen[c.X]; ok {
			r.Violate(fw.Violation{Key: "storage/shared-value-object", Input: x, What: fmt.Sprintf("two integer constants of one parse (%s and %s) hold the same *big.Int: editing one edits the other", cs[j], c)})
			return
		}
		seen[c.X] = i
	}
	// edit every constant in turn, on a fresh parse each time
	for k := range cs {
		if cs[k].Typ.BitSize == 1 {
			continue
		}
		r.Eval(1)
		mk, _, _ := parseGuard("c09-storage", x)
		if mk == nil {
			return
		}
		ck := collect(mk)
		ck[k].X.Add(ck[k].X, big.NewInt(1))
		after, _ := printGuard(mk)
		bl, al := strings.Split(before, "\n"), strings.Split(after, "\n")
		changed := 0
		for i := range bl {
			if i < len(al) && bl[i] != al[i] {
				changed++
			}
		}
		if changed != 1 || len(al) != len(bl) {
			r.Violate(fw.Violation{Key: "storage/edit-leaks", Input: x, What: fmt.Sprintf("after adding 1 to the value of one constant (%s, constant %d) %d lines of the module changed, expected exactly one", ck[k], k, changed), Expected: before, Observed: after})
			return
		}
		m3, _, _ := parseGuard("c09-storage", x)
		if t3, _ := printGuard(m3); t3 != before {
			r.Violate(fw.Violation{Key: "storage/edit-leaks-into-later-parse", Input: x, What: "after editing one constant of one module in place, the same text parsed again reads its literals differently: " + firstDiffLines(before, t3)})
			return
		}
	}
	r.NontrivialN("storage", len(cs))
	r.TallyN("storage", "constants-own-their-value", len(cs))
}

// c09Concurrent prints and parses independent constants from several goroutines
// at once: every goroutine owns its constants, so each Ident() and each
// NewIntFromString must give what it gives alone (computed before the goroutines
// start). Shared scratch storage inside the printer or the parser shows as a
// literal that denotes another value.
func c09Concurrent(r *fw.Rec) {
	const G = 8
	rng := r.Ctx().Rand("c09/concurrent")
	type item struct {
		c    *constant.Int
		want string
		w    uint64
		v    *big.Int
	}
	sets := make([][]item, G)
	for g := range sets {
		for _, w := range []uint64{1, 8, 32, 64, 65, 128, 256, 1024} {
			for _, v := range structuredValues(w, rng, 6) {
				typ := types.NewInt(w)
				c := constant.NewInt(typ, 0)
				c.X = new(big.Int).Set(signedw(v, w))
				var want string
				if p, _, _ := fw.Guard(func() { want = c.Ident() }); p {
					continue
				}
				sets[g] = append(sets[g], item{c, want, w, new(big.Int).Set(c.X)})
			}
		}
	}
	type bad struct{ what, input string }
	var mu sync.Mutex
	var bads []bad
	var evals int64
	start := make(chan struct{})
	var wg sync.WaitGroup
	for g := 0; g < G; g++ {
		wg.Add(1)
		go func(items []item) {
			defer wg.Done()
			<-start
			n := int64(0)
			for rep := 0; rep < 40; rep++ {
				for _, it := range items {
					var got string
					var back *constant.Int
					var err error
					p, msg, _ := fw.Guard(func() {
						got = it.c.Ident()
						back, err = constant.NewIntFromString(types.NewInt(it.w), got)
					})
					n++
					switch {
					case p:
						mu.Lock()
						bads = append(bads, bad{"panic: " + firstLine(msg), it.want})
						mu.Unlock()
					case got != it.want:
						mu.Lock()
						bads = append(bads, bad{fmt.Sprintf("i%d constant printed as %s while other goroutines print their own constants, alone as %s", it.w, fw.Trunc(got, 80), fw.Trunc(it.want, 80)), it.want})
						mu.Unlock()
					case err != nil || modw(back.X, it.w).Cmp(modw(it.v, it.w)) != 0:
						mu.Lock()
						bads = append(bads, bad{fmt.Sprintf("i%d literal %s read back as another value while other goroutines parse their own literals", it.w, fw.Trunc(got, 80)), it.want})
						mu.Unlock()
					}
				}
			}
			atomic.AddInt64(&evals, n)
		}(sets[g])
	}
	close(start)
	wg.Wait()
	r.Eval(int(evals))
	distinct := 0
	for _, items := range sets {
		distinct += len(items)
	}
	r.NontrivialN("concurrent-ident-and-parse", distinct)
	r.Tally("concurrent", fmt.Sprintf("goroutines=%d", G))
	for i, b := range bads {
		if i >= 3 {
			break
		}
		r.Violate(fw.Violation{Key: fmt.Sprintf("concurrent/%d", i), Input: b.input, What: b.what})
	}
}
