package props

import (
	"fmt"
	"math"
	"math/big"
	"math/rand"
	"regexp"
	"strconv"
	"strings"
)

// W6 respelling mutators: text -> text rewrites that keep the meaning under
// LLVM's reading (and are re-validated by the LLVM gate wherever the verdict
// depends on it). A rewrite that the parser then rejects simply yields an input
// that is not accepted; it never produces an alarm by itself.

var (
	reIntLit   = regexp.MustCompile(`\b(i([0-9]+)) (-?[0-9]+)\b`)
	reFloatLit = regexp.MustCompile(`\b(double|float) (-?[0-9]+\.[0-9]+(?:e[+-][0-9]+)?)\b`)
	reGlobalID = regexp.MustCompile(`@([a-zA-Z_.$][a-zA-Z_.$0-9]*)`)
	reLocalID  = regexp.MustCompile(`%([a-zA-Z_.$][a-zA-Z_.$0-9]*)\b`)
)

// respellInts rewrites a PRNG-chosen subset of decimal integer literals into
// u0x / s0x hexadecimal form.
func respellInts(text string, rng *rand.Rand) string {
	return reIntLit.ReplaceAllStringFunc(text, func(s string) string {
		if rng.Intn(3) != 0 {
			return s
		}
		m := reIntLit.FindStringSubmatch(s)
		w, err := strconv.Atoi(m[2])
		if err != nil || w < 2 || w > 4096 {
			return s
		}
		v, ok := new(big.Int).SetString(m[3], 10)
		if !ok {
			return s
		}
		mod := new(big.Int).Lsh(big.NewInt(1), uint(w))
		u := new(big.Int).Mod(v, mod)
		if v.Sign() < 0 && rng.Intn(2) == 0 {
			// negative: the unsigned decimal spelling of the same bits
			return fmt.Sprintf("%s %s", m[1], u.String())
		}
		if v.Sign() < 0 {
			// negative: full-width s0x (bit w-1 set, so LLVM and the type-width rule agree)
			hx := strings.ToUpper(u.Text(16))
			return fmt.Sprintf("%s s0x%s", m[1], hx)
		}
		if v.Cmp(mod) >= 0 {
			return s
		}
		return fmt.Sprintf("%s u0x%s", m[1], strings.ToUpper(u.Text(16)))
	})
}

// respellFloats rewrites decimal double/float literals into the 16-digit
// hexadecimal form (only when the decimal literal is exactly that double).
func respellFloats(text string, rng *rand.Rand) string {
	return reFloatLit.ReplaceAllStringFunc(text, func(s string) string {
		if rng.Intn(2) != 0 {
			return s
		}
		m := reFloatLit.FindStringSubmatch(s)
		f, err := strconv.ParseFloat(m[2], 64)
		if err != nil {
			return s
		}
		if m[1] == "float" && float64(float32(f)) != f {
			return s
		}
		return fmt.Sprintf("%s 0x%016X", m[1], math.Float64bits(f))
	})
}

// respellQuote puts redundant quotes around a PRNG-chosen subset of global and
// local names (consistently for every occurrence of the chosen name).
func respellQuote(text string, rng *rand.Rand) string {
	choose := map[string]bool{}
	pick := func(name string) bool {
		v, ok := choose[name]
		if !ok {
			v = rng.Intn(3) == 0
			choose[name] = v
		}
		return v
	}
	lines := strings.Split(text, "\n")
	for i, line := range lines {
		if strings.Contains(line, "\"") || strings.HasPrefix(line, "target") || strings.HasPrefix(line, "module asm") || strings.Contains(line, "asm ") {
			continue // keep away from string literals
		}
		line = reGlobalID.ReplaceAllStringFunc(line, func(s string) string {
			if pick("@" + s[1:]) {
				return `@"` + s[1:] + `"`
			}
			return s
		})
		lines[i] = line
	}
	return strings.Join(lines, "\n")
}

// respellComments adds comments and blank lines between lines.
func respellComments(text string, rng *rand.Rand) string {
	lines := strings.Split(text, "\n")
	var out []string
	for _, l := range lines {
		if rng.Intn(4) == 0 {
			out = append(out, "; comment "+strconv.Itoa(rng.Intn(1000))+" \"quoted\" @x %y !0")
		}
		if rng.Intn(6) == 0 {
			out = append(out, "")
		}
		if rng.Intn(5) == 0 && !strings.Contains(l, "\"") && strings.TrimSpace(l) != "" {
			l = l + " ; trailing"
		}
		out = append(out, l)
	}
	return strings.Join(out, "\n")
}

// respellShuffle permutes the top-level definitions (header lines stay in
// front); nil if the module is order sensitive.
func respellShuffle(text string, rng *rand.Rand) (string, bool) {
	all := splitTopLevel(text)
	var prefix string
	var chunks []string
	for _, c := range all {
		if strings.HasPrefix(c, "source_filename") || strings.HasPrefix(c, "target ") || strings.HasPrefix(c, "module asm") {
			prefix += c
		} else {
			chunks = append(chunks, c)
		}
	}
	if len(chunks) < 2 || orderSensitive(text, chunks) != "" {
		return "", false
	}
	rng.Shuffle(len(chunks), func(i, j int) { chunks[i], chunks[j] = chunks[j], chunks[i] })
	return prefix + strings.Join(chunks, ""), true
}

// respellings returns named variants of text.
func respellings(text string, rng *rand.Rand) map[string]string {
	out := map[string]string{}
	if t := respellInts(text, rng); t != text {
		out["hex-ints"] = t
	}
	if t := respellFloats(text, rng); t != text {
		out["hex-floats"] = t
	}
	if t := respellQuote(text, rng); t != text {
		out["quoted-names"] = t
	}
	out["comments"] = respellComments(text, rng)
	if t, ok := respellShuffle(text, rng); ok {
		out["shuffled"] = t
	}
	return out
}
