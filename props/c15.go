package props

import (
	"fmt"
	"reflect"
	"strings"

	"github.com/llir/llvm/ir"
	"github.com/llir/llvm/ir/constant"
	"github.com/llir/llvm/ir/types"
	"github.com/llir/llvm/ir/value"

	"verif/internal/corpus"
	"verif/internal/fw"
)

func init() {
	fw.Register(&fw.Check{
		ID:    "C15",
		Level: "exploration",
		Rule: "every instruction and terminator of every function of every accepted corpus module (atoms with all 66 kinds, /repo testdata, llvm-stress, generated modules) is examined: (1) completeness: the addresses of all non-nil value-typed fields found by reflection (directly, in argument lists, Incoming, Case, Clause, OperandBundle) must be exactly the pointers returned by Operands(); (2) liveness: a fresh same-typed sentinel written through each slot must change exactly that operand in LLString() and restoring must restore the text; (3) replace-all-uses: substituting a value through the slots of all users must leave no occurrence of its identifier in the printed function besides its definition; (4) Succs() must equal the block-valued target fields in order, be blocks of the same function, and follow a target rewritten through a slot; (5) after the operand-holding lists (Incs, Args, Cases, Clauses, Indices, bundles) are replaced by equal copies, Operands() must describe the new slots; (6) no operand slot is shared by two users of a module; (7) a copy of an instruction made by assignment after Operands() was called answers with its own fields; (8) an operand list handed out is not rewritten by later Operands() calls. " +
			"(7) every terminator built by its constructor: no typed nil in Operands(), no nil in Succs(); a target replaced by a twin block carrying the old label must show in Succs(), also on never-printed functions; replace-all-uses also substitutes the results of invoke, callbr and catchswitch. " +
			"non-trivial = an instruction/terminator with at least one operand slot; distinct by (instruction kind, printed text)",
		Gen:           genC15,
		MinNontrivial: 300,
		Assumptions:   []string{"a value-typed field is a field of static type value.Value (all operand fields of the ir package are declared so); metadata attachments are not operands", "catchswitch: the unwind target may be listed before or after the handlers (LLVM lists it first); the handlers' relative order is checked"},
		Exhaustive:    func(string) bool { return false },
	})
}

func genC15(ctx *fw.Ctx) []fw.Case {
	var cases []fw.Case
	for _, s := range inputSources(ctx, 60, 4000) {
		s := s
		cases = append(cases, fw.Case{ID: s.ID, Run: func(r *fw.Rec) { c15Source(r, s) }})
	}
	cases = append(cases, fw.Case{ID: "api/constructed-terminators", Run: c15Constructed})
	return cases
}

// c15Constructed builds every terminator through its constructor (including
// the forms with an absent unwind target: `unwind to caller`), with unnamed
// blocks that have never been numbered, and runs the operand and successor
// checks on the constructed values themselves (no print or parse in between).
func c15Constructed(r *fw.Rec) {
	m := ir.NewModule()
	g := m.NewFunc("g", types.Void)
	pers := m.NewFunc("pers", types.I32)
	pers.Sig.Variadic = true
	f := m.NewFunc("f", types.Void, ir.NewParam("x", types.I32), ir.NewParam("p", types.I8Ptr), ir.NewParam("c", types.I1))
	f.Personality = pers
	entry, ok1, cs, h, cl, sw, a, b, ib, cb, done := f.NewBlock(""), f.NewBlock(""), f.NewBlock(""), f.NewBlock(""), f.NewBlock(""), f.NewBlock(""), f.NewBlock(""), f.NewBlock(""), f.NewBlock(""), f.NewBlock(""), f.NewBlock("")
	entry.NewInvoke(g, nil, ok1, cs)
	csw := cs.NewCatchSwitch(constant.None, []*ir.Block{h}, nil)
	cp := h.NewCatchPad(csw)
	h.NewCatchRet(cp, ok1)
	ok1.NewInvoke(g, nil, sw, cl)
	clp := cl.NewCleanupPad(constant.None)
	cl.NewCleanupRet(clp, nil)
	sw.NewSwitch(f.Params[0], a, ir.NewCase(constant.NewInt(types.I32, 1), b), ir.NewCase(constant.NewInt(types.I32, 2), a))
	a.NewCondBr(f.Params[2], b, ib)
	b.NewBr(ib)
	ib.NewIndirectBr(f.Params[1], cb, done)
	asm := ir.NewInlineAsm(types.NewPointer(types.NewFunc(types.Void)), "", "")
	asm.SideEffect = true
	cb.NewCallBr(asm, nil, done, a)
	done.NewRet(nil)
	// a second cleanup funclet whose cleanupret unwinds to a block
	cl2, cl3 := f.NewBlock(""), f.NewBlock("")
	clp2 := cl2.NewCleanupPad(constant.None)
	cl2.NewCleanupRet(clp2, cl3)
	clp3 := cl3.NewCleanupPad(constant.None)
	cl3.NewCleanupRet(clp3, nil)
	for _, blk := range f.Blocks {
		term := blk.Term
		kind := kindOf(term)
		r.Eval(1)
		var ops []*value.Value
		var succs []*ir.Block
		if p, msg, _ := fw.Guard(func() { ops = term.Operands(); succs = term.Succs() }); p {
			r.Violate(fw.Violation{Key: "constructed/panic/" + kind, What: "Operands()/Succs() of a terminator built by its constructor panics: " + firstLine(msg)})
			return
		}
		for _, p := range ops {
			if *p != nil && reflect.ValueOf(*p).Kind() == reflect.Ptr && reflect.ValueOf(*p).IsNil() {
				r.Violate(fw.Violation{Key: "constructed/typed-nil-operand/" + kind, What: fmt.Sprintf("Operands() of a %s built by its constructor holds a typed nil (%T): an absent unwind target must be an absent operand", kind, *p)})
				return
			}
		}
		for _, sb := range succs {
			if sb == nil {
				r.Violate(fw.Violation{Key: "constructed/nil-successor/" + kind, What: fmt.Sprintf("Succs() of a %s built by its constructor contains nil", kind)})
				return
			}
		}
	}
	text, pp := printGuard(m)
	if pp != "" {
		// (print once the unnumbered-state checks below are done would hide nothing: do them on a fresh build)
		r.Violate(fw.Violation{Key: "constructed/print-panic", What: "printing a module whose terminators were built by their constructors panics: " + firstLine(pp)})
		return
	}
	_ = text
	// operand and successor checks on a fresh, never printed build (unnamed blocks carry no numbers yet)
	m2 := ir.NewModule()
	f2 := m2.NewFunc("f", types.Void, ir.NewParam("x", types.I32), ir.NewParam("p", types.I8Ptr), ir.NewParam("c", types.I1))
	e2, a2, b2, c2, d2 := f2.NewBlock(""), f2.NewBlock(""), f2.NewBlock(""), f2.NewBlock(""), f2.NewBlock("")
	e2.NewSwitch(f2.Params[0], a2, ir.NewCase(constant.NewInt(types.I32, 1), b2))
	a2.NewCondBr(f2.Params[2], b2, c2)
	b2.NewBr(c2)
	c2.NewIndirectBr(f2.Params[1], d2, a2)
	d2.NewRet(nil)
	for _, blk := range f2.Blocks {
		if blk.Term != nil {
			c15Succs(r, "api/constructed", "(constructed, never printed)", f2, blk.Term)
		}
	}
	for _, blk := range f.Blocks {
		if blk.Term != nil {
			c15User(r, "api/constructed", text, f, blk.Term)
			c15Succs(r, "api/constructed", text, f, blk.Term)
		}
		for _, inst := range blk.Insts {
			c15User(r, "api/constructed", text, f, inst)
		}
	}
	r.Tally("inputs", "constructed")
}

var valueIface = reflect.TypeOf((*value.Value)(nil)).Elem()

// valueSlots returns the addresses of all fields of static type value.Value
// reachable inside the user struct (not following values themselves).
func valueSlots(user interface{}) []*value.Value {
	var out []*value.Value
	var walk func(v reflect.Value, depth int)
	walk = func(v reflect.Value, depth int) {
		switch v.Kind() {
		case reflect.Struct:
			t := v.Type()
			for i := 0; i < t.NumField(); i++ {
				f := t.Field(i)
				if f.Name == "Metadata" || f.Name == "Successors" || f.Name == "Parent" || !v.Field(i).CanAddr() || f.PkgPath != "" {
					continue
				}
				fv := v.Field(i)
				if f.Type == valueIface {
					out = append(out, fv.Addr().Interface().(*value.Value))
					continue
				}
				if f.Anonymous && (f.Name == "LocalIdent" || f.Name == "Metadata") {
					continue
				}
				walk(fv, depth+1)
			}
		case reflect.Slice:
			if v.Type().Elem() == valueIface {
				for i := 0; i < v.Len(); i++ {
					out = append(out, v.Index(i).Addr().Interface().(*value.Value))
				}
				return
			}
			ek := v.Type().Elem().Kind()
			if ek == reflect.Ptr || ek == reflect.Struct {
				for i := 0; i < v.Len(); i++ {
					walk(v.Index(i), depth+1)
				}
			}
		case reflect.Ptr:
			if v.IsNil() || depth == 0 {
				if !v.IsNil() && depth == 0 {
					walk(v.Elem(), 1)
				}
				return
			}
			// helper structs owned by the instruction (Incoming, Case, Clause, OperandBundle, Arg)
			et := v.Type().Elem()
			if et.Kind() == reflect.Struct && et.PkgPath() == "github.com/llir/llvm/ir" {
				switch et.Name() {
				case "Incoming", "Case", "Clause", "OperandBundle":
					walk(v.Elem(), depth+1)
				}
			}
		}
	}
	walk(reflect.ValueOf(user), 0)
	return out
}

type llstringer interface{ LLString() string }

func c15Source(r *fw.Rec, s corpus.Source) {
	text, err := s.Text()
	if err != nil {
		r.Inconclusive("source unavailable")
		return
	}
	m, perr, pmsg := parseGuard(s.ID, text)
	if pmsg != "" || perr != nil || m == nil {
		r.Tally("inputs", "not-accepted")
		return
	}
	if _, pp := printGuard(m); pp != "" {
		r.Tally("inputs", "print-panics")
		return
	}
	r.Tally("inputs", "accepted")
	// every operand slot belongs to one user: a slot returned by the Operands()
	// of two instructions (two users built on a shared list) makes a write through
	// one of them change the other
	owner := map[*value.Value]string{}
	// the operand lists themselves are kept until all have been asked for: a list
	// handed out is the caller's, a later Operands() call (of this or another user)
	// must not rewrite it
	type heldList struct {
		me       string
		ops, was []*value.Value
	}
	var held []heldList
	defer func() {
		for _, h := range held {
			same := len(h.ops) == len(h.was)
			for i := 0; same && i < len(h.ops); i++ {
				same = h.ops[i] == h.was[i]
			}
			if !same {
				r.Violate(fw.Violation{Key: "list-rewritten-by-later-call/" + strings.SplitN(h.me, " ", 2)[0], Input: text,
					What: fmt.Sprintf("the operand list returned for `%s` no longer holds the slots it was returned with after Operands() was called on other users of the module", h.me)})
				return
			}
		}
		r.TallyN("slots", "lists-held-while-others-were-asked-for", len(held))
	}()
	for _, f := range m.Funcs {
		for _, b := range f.Blocks {
			users := make([]interface{}, 0, len(b.Insts)+1)
			for _, inst := range b.Insts {
				users = append(users, inst)
			}
			if b.Term != nil {
				users = append(users, b.Term)
			}
			for _, u := range users {
				op, ok := u.(operander)
				if !ok {
					continue
				}
				var ops []*value.Value
				if p, _, _ := fw.Guard(func() { ops = op.Operands() }); p {
					continue
				}
				me := fmt.Sprintf("%s in %s: %s", kindOf(u), f.Ident(), fw.Trunc(u.(llstringer).LLString(), 120))
				held = append(held, heldList{me, ops, append([]*value.Value(nil), ops...)})
				for _, p := range ops {
					if prev, dup := owner[p]; dup && prev != me {
						r.Violate(fw.Violation{Key: "shared-slot/" + kindOf(u), Input: text,
							What: fmt.Sprintf("one operand slot is returned by the Operands() of two users: `%s` and `%s`", prev, me)})
						return
					}
					owner[p] = me
				}
			}
		}
	}
	// growing one user's operand list (`call.Args = append(call.Args, v)`) must not
	// write into a slot of another user: the spare capacity of every operand-holding
	// slice is checked against the slots handed out above
	for _, f := range m.Funcs {
		for _, b := range f.Blocks {
			users := make([]interface{}, 0, len(b.Insts)+1)
			for _, inst := range b.Insts {
				users = append(users, inst)
			}
			if b.Term != nil {
				users = append(users, b.Term)
			}
			for _, u := range users {
				rv := reflect.ValueOf(u)
				if rv.Kind() != reflect.Ptr || rv.Elem().Kind() != reflect.Struct {
					continue
				}
				st := rv.Elem()
				for i := 0; i < st.NumField(); i++ {
					fv := st.Field(i)
					if fv.Kind() != reflect.Slice || fv.Type().Elem() != valueIface || fv.Cap() == fv.Len() || st.Type().Field(i).PkgPath != "" {
						continue
					}
					full := fv.Slice3(0, fv.Cap(), fv.Cap())
					for k := fv.Len(); k < fv.Cap(); k++ {
						if who, taken := owner[full.Index(k).Addr().Interface().(*value.Value)]; taken {
							r.Violate(fw.Violation{Key: "append-reaches-other-user/" + kindOf(u), Input: text,
								What: fmt.Sprintf("the operand list %s of a %s has spare capacity that is an operand slot of `%s`: appending to the list overwrites that operand", st.Type().Field(i).Name, kindOf(u), who)})
							return
						}
					}
				}
			}
		}
	}
	r.TallyN("slots", "distinct-slots-across-users", len(owner))
	for _, f := range m.Funcs {
		if len(f.Blocks) == 0 {
			continue
		}
		for _, b := range f.Blocks {
			for _, inst := range b.Insts {
				c15User(r, s.ID, text, f, inst)
			}
			if b.Term != nil {
				c15User(r, s.ID, text, f, b.Term)
				c15Succs(r, s.ID, text, f, b.Term)
			}
		}
		c15ReplaceAll(r, s.ID, text, f)
	}
}

type operander interface {
	Operands() []*value.Value
}

func kindOf(u interface{}) string {
	return strings.TrimPrefix(fmt.Sprintf("%T", u), "*ir.")
}

func c15User(r *fw.Rec, id, text string, f *ir.Func, u interface{}) {
	op, ok := u.(operander)
	if !ok {
		r.Violate(fw.Violation{Key: "no-operands-method/" + kindOf(u), What: fmt.Sprintf("%T has no Operands method", u)})
		return
	}
	kind := kindOf(u)
	r.Eval(1)
	before := u.(llstringer).LLString()
	slots := valueSlots(u)
	var ops []*value.Value
	if p, msg, _ := fw.Guard(func() { ops = op.Operands() }); p {
		r.Violate(fw.Violation{Key: "operands-panic/" + kind, Input: text, What: fmt.Sprintf("Operands() of `%s` panics: %s", before, msg)})
		return
	}
	inOps := map[*value.Value]int{}
	for _, p := range ops {
		inOps[p]++
	}
	inSlots := map[*value.Value]bool{}
	for _, p := range slots {
		inSlots[p] = true
	}
	// completeness
	for i, p := range slots {
		if *p == nil {
			continue
		}
		if inOps[p] == 0 {
			where := slotName(u, p)
			r.Violate(fw.Violation{Key: "incomplete/" + kind + "/" + where, Input: text,
				What: fmt.Sprintf("Operands() of %s `%s` does not expose the slot %s (slot #%d, holding %s)", kind, fw.Trunc(before, 200), where, i, identOf(*p))})
		}
	}
	for p, n := range inOps {
		if !inSlots[p] {
			r.Violate(fw.Violation{Key: "not-a-field/" + kind, Input: text,
				What: fmt.Sprintf("Operands() of %s `%s` returns a pointer that is not the address of an operand field (a copy?)", kind, fw.Trunc(before, 200))})
		}
		if n > 1 {
			r.Violate(fw.Violation{Key: "duplicate-slot/" + kind, Input: text, What: fmt.Sprintf("Operands() of %s returns the same slot %d times", kind, n)})
		}
	}
	if len(slots) > 0 {
		r.Nontrivial(kind + "|" + before)
	}
	r.Tally("kinds", kind)
	r.TallyN("slots", kind, len(ops))
	if len(ops) >= 3 {
		r.Sample(map[string]interface{}{"module": id, "instruction": fw.Trunc(before, 160), "kind": kind, "operand_slots": len(ops)})
	}
	// liveness
	for i, p := range ops {
		old := *p
		if old == nil {
			continue
		}
		var sent value.Value
		if arg, isArg := old.(*ir.Arg); isArg {
			// an argument with parameter attributes: the operand is the wrapped value, the
			// attributes belong to the call site and stay
			var t types.Type
			if pp, _, _ := fw.Guard(func() { t = arg.Value.Type() }); pp || t == nil {
				continue
			}
			sent = &ir.Arg{Value: ir.NewParam("verif.sentinel", t), Attrs: arg.Attrs}
		} else if _, isBlock := old.(*ir.Block); isBlock {
			sb := ir.NewBlock("verif.sentinel")
			sb.Parent = f
			sent = sb
		} else {
			var t types.Type
			if pp, _, _ := fw.Guard(func() { t = old.Type() }); pp || t == nil {
				continue
			}
			sent = ir.NewParam("verif.sentinel", t)
		}
		var after string
		*p = sent
		pan, msg, _ := fw.Guard(func() { after = u.(llstringer).LLString() })
		*p = old
		// drop successor caches the print may have filled while the sentinel was in place
		resetSuccCache(u)
		if pan {
			// printing with a foreign-but-well-typed operand is allowed to be rejected by
			// printers that require a concrete operand class (e.g. callee must be a function
			// pointer): not judged
			r.Tally("liveness", "print-with-sentinel-panics(not judged):"+kind)
			_ = msg
			continue
		}
		restored := u.(llstringer).LLString()
		r.Eval(1)
		if restored != before {
			r.Violate(fw.Violation{Key: "restore/" + kind, Input: text, What: fmt.Sprintf("after writing and restoring slot %d of %s the text differs: `%s` vs `%s`", i, kind, before, restored)})
			continue
		}
		cnt := strings.Count(after, "%verif.sentinel")
		back := strings.Replace(after, "%verif.sentinel", identOf(old), 1)
		if cnt != 1 || back != before {
			r.Violate(fw.Violation{Key: "dead-slot/" + kind + "/" + slotName(u, p), Input: text,
				What:     fmt.Sprintf("writing a new value through slot %s of %s does not change exactly that operand in the printed instruction", slotName(u, p), kind),
				Expected: strings.Replace(before, identOf(old), "%verif.sentinel", 1) + "   (one occurrence replaced)", Observed: after})
			continue
		}
		r.Tally("liveness", "slot-live")
	}
	c15AfterSliceEdit(r, text, u, false)
	c15AfterSliceEdit(r, text, u, true)
	c15AfterStructCopy(r, text, u)
}

// c15AfterStructCopy: Operands() has been called on u (above). A copy of the
// instruction made by assignment (`*dup = *orig`, how a cloning pass starts)
// must answer for itself: the slots dup.Operands() returns are the direct
// value-typed fields of dup, none of them a field of the original.
func c15AfterStructCopy(r *fw.Rec, text string, u interface{}) {
	rv := reflect.ValueOf(u)
	if rv.Kind() != reflect.Ptr || rv.Elem().Kind() != reflect.Struct {
		return
	}
	kind := kindOf(u)
	if p, _, _ := fw.Guard(func() { _ = u.(operander).Operands() }); p {
		return
	}
	dupv := reflect.New(rv.Elem().Type())
	dupv.Elem().Set(rv.Elem())
	dup, ok := dupv.Interface().(operander)
	if !ok {
		return
	}
	var ops []*value.Value
	if p, msg, _ := fw.Guard(func() { ops = dup.Operands() }); p {
		r.Violate(fw.Violation{Key: "operands-panic-after-copy/" + kind, Input: text, What: "Operands() panics on a copy of the instruction made by assignment: " + msg})
		return
	}
	r.Eval(1)
	// direct fields only: slices and pointed-to entries are shared by a shallow copy
	direct := func(x reflect.Value) map[*value.Value]bool {
		out := map[*value.Value]bool{}
		st := x.Elem()
		for i := 0; i < st.NumField(); i++ {
			if st.Type().Field(i).PkgPath == "" && st.Type().Field(i).Type == valueIface && st.Field(i).CanAddr() {
				out[st.Field(i).Addr().Interface().(*value.Value)] = true
			}
		}
		return out
	}
	mine, theirs := direct(dupv), direct(rv)
	inOps := map[*value.Value]bool{}
	for _, p := range ops {
		inOps[p] = true
		if theirs[p] {
			r.Violate(fw.Violation{Key: "copy-shares-slots/" + kind + "/" + slotName(u, p), Input: text,
				What: fmt.Sprintf("after Operands() was called on a %s, a copy of it made by assignment returns from its own Operands() the slot %s of the original: a write through it changes the original", kind, slotName(u, p))})
			return
		}
	}
	for p := range mine {
		if *p != nil && !inOps[p] {
			r.Violate(fw.Violation{Key: "copy-incomplete/" + kind, Input: text,
				What: fmt.Sprintf("after Operands() was called on a %s, Operands() of a copy made by assignment does not expose one of the copy's own operand fields", kind)})
			return
		}
	}
	r.Tally("liveness", "copy-answers-for-itself")
}

// c15AfterSliceEdit re-checks completeness after the user's operand-holding
// slices were replaced by fresh copies (new backing arrays, and fresh element
// objects where the elements are pointers, e.g. phi.Incs[i] =
// ir.NewIncoming(...)): Operands() must describe the slots as they are now, not
// as they were when it was first called.
// With lastOnly, only the last entry of every list of two or more entries is
// replaced, in place (`x.Incs[1] = ir.NewIncoming(...)`): the list itself and its
// first entry stay what they were.
func c15AfterSliceEdit(r *fw.Rec, text string, u interface{}, lastOnly bool) {
	op := u.(operander)
	kind := kindOf(u)
	rv := reflect.ValueOf(u)
	if rv.Kind() != reflect.Ptr || rv.Elem().Kind() != reflect.Struct {
		return
	}
	st := rv.Elem()
	type saved struct {
		f   reflect.Value
		old reflect.Value
	}
	var undo []saved
	edited := 0
	for i := 0; i < st.NumField(); i++ {
		f := st.Field(i)
		if f.Kind() != reflect.Slice || !f.CanSet() || f.Len() == 0 {
			continue
		}
		et := f.Type().Elem()
		isVal := et.Kind() == reflect.Interface
		isPtrStruct := et.Kind() == reflect.Ptr && et.Elem().Kind() == reflect.Struct
		if !isVal && !isPtrStruct {
			continue
		}
		if name := st.Type().Field(i).Name; name == "Metadata" || name == "Successors" {
			continue
		}
		if lastOnly {
			if !isPtrStruct || f.Len() < 2 || f.Index(f.Len()-1).IsNil() {
				continue
			}
			last := f.Index(f.Len() - 1)
			ne := reflect.New(et.Elem())
			ne.Elem().Set(last.Elem())
			undo = append(undo, saved{last, reflect.ValueOf(last.Interface())})
			last.Set(ne)
			edited++
			continue
		}
		cp := reflect.MakeSlice(f.Type(), f.Len(), f.Len())
		for k := 0; k < f.Len(); k++ {
			e := f.Index(k)
			if isPtrStruct && !e.IsNil() {
				ne := reflect.New(et.Elem())
				ne.Elem().Set(e.Elem())
				cp.Index(k).Set(ne)
			} else {
				cp.Index(k).Set(e)
			}
		}
		undo = append(undo, saved{f, reflect.ValueOf(f.Interface())})
		f.Set(cp)
		edited++
	}
	if edited == 0 {
		return
	}
	defer func() {
		for _, s := range undo {
			s.f.Set(s.old)
		}
		resetSuccCache(u)
	}()
	slots := valueSlots(u)
	var ops []*value.Value
	if p, msg, _ := fw.Guard(func() { ops = op.Operands() }); p {
		r.Violate(fw.Violation{Key: "operands-panic-after-edit/" + kind, Input: text, What: "Operands() panics after the operand slices were replaced by copies: " + msg})
		return
	}
	r.Eval(1)
	inOps := map[*value.Value]bool{}
	for _, p := range ops {
		inOps[p] = true
	}
	inSlots := map[*value.Value]bool{}
	for _, p := range slots {
		inSlots[p] = true
		if *p != nil && !inOps[p] {
			r.Violate(fw.Violation{Key: "stale-after-edit/" + kind + "/" + slotName(u, p), Input: text,
				What: fmt.Sprintf("after Operands() was called and the %s's operand lists were replaced by equal copies (as `x.Incs[i] = ir.NewIncoming(...)` does), Operands() does not expose the live slot %s", kind, slotName(u, p))})
			return
		}
	}
	for _, p := range ops {
		if !inSlots[p] {
			r.Violate(fw.Violation{Key: "stale-after-edit/" + kind + "/detached-slot", Input: text,
				What: fmt.Sprintf("after the %s's operand lists were replaced by equal copies, Operands() still returns pointers into the old lists", kind)})
			return
		}
	}
	r.Tally("liveness", "operands-follow-replaced-lists")
}

func resetSuccCache(u interface{}) {
	v := reflect.ValueOf(u)
	if v.Kind() == reflect.Ptr && v.Elem().Kind() == reflect.Struct {
		f := v.Elem().FieldByName("Successors")
		if f.IsValid() && f.CanSet() {
			f.Set(reflect.Zero(f.Type()))
		}
	}
}

func identOf(v value.Value) string {
	var s string
	if p, _, _ := fw.Guard(func() { s = v.Ident() }); p {
		return "<ident panics>"
	}
	return s
}

// slotName names the field that p is the address of.
func slotName(u interface{}, p *value.Value) string {
	name := "?"
	var walk func(v reflect.Value, path string)
	walk = func(v reflect.Value, path string) {
		switch v.Kind() {
		case reflect.Ptr:
			if !v.IsNil() {
				walk(v.Elem(), path)
			}
		case reflect.Struct:
			t := v.Type()
			for i := 0; i < t.NumField(); i++ {
				f := t.Field(i)
				if f.PkgPath != "" || f.Name == "Parent" || f.Name == "Successors" {
					continue
				}
				fv := v.Field(i)
				if f.Type == valueIface && fv.CanAddr() {
					if fv.Addr().Interface().(*value.Value) == p {
						name = path + f.Name
					}
					continue
				}
				if fv.Kind() == reflect.Slice {
					for j := 0; j < fv.Len(); j++ {
						e := fv.Index(j)
						if e.Type() == valueIface {
							if e.Addr().Interface().(*value.Value) == p {
								name = path + f.Name + "[i]"
							}
						} else if e.Kind() == reflect.Ptr && !e.IsNil() && e.Elem().Kind() == reflect.Struct && e.Type().Elem().PkgPath() == "github.com/llir/llvm/ir" {
							switch e.Type().Elem().Name() {
							case "Incoming", "Case", "Clause", "OperandBundle":
								walk(e, path+f.Name+"[i].")
							}
						}
					}
				}
			}
		}
	}
	walk(reflect.ValueOf(u), "")
	return name
}

func c15Succs(r *fw.Rec, id, text string, f *ir.Func, term ir.Terminator) {
	kind := kindOf(term)
	resetSuccCache(term)
	var want []*ir.Block
	for _, p := range valueSlots(term) {
		if b, ok := (*p).(*ir.Block); ok {
			// a block passed as an argument (`invoke void @g(label %bb) ...`) or in an
			// operand bundle is an operand, not a successor
			if n := slotName(term, p); strings.HasPrefix(n, "Args") || strings.HasPrefix(n, "OperandBundles") {
				continue
			}
			want = append(want, b)
		}
	}
	var got []*ir.Block
	if p, msg, _ := fw.Guard(func() { got = term.Succs() }); p {
		r.Violate(fw.Violation{Key: "succs-panic/" + kind, Input: text, What: "Succs() panics: " + msg})
		return
	}
	r.Eval(1)
	if !sameBlocks(kind, want, got) {
		r.Violate(fw.Violation{Key: "succs-wrong/" + kind, Input: text,
			What: fmt.Sprintf("Succs() of `%s` is %s, the branch target fields are %s", fw.Trunc(term.LLString(), 200), blockNames(got), blockNames(want))})
		return
	}
	for _, b := range got {
		if b.Parent != f {
			r.Violate(fw.Violation{Key: "succs-foreign-block/" + kind, Input: text, What: fmt.Sprintf("successor %s of a terminator in %s is not a block of that function", b.Ident(), f.Ident())})
		}
	}
	r.Tally("succs", kind)
	// retarget through a slot: the successor view must follow
	ops := term.Operands()
	for _, p := range ops {
		old, ok := (*p).(*ir.Block)
		if !ok {
			continue
		}
		if nm := slotName(term, p); strings.HasPrefix(nm, "Args") || strings.HasPrefix(nm, "OperandBundles") {
			continue // a block passed as an argument is not a successor
		}
		nb := ir.NewBlock("verif.retarget")
		nb.Parent = f
		// also: a block that carries the same label as the old target (a rebuilt copy
		// of the block; or both unnamed and not numbered yet)
		twin := ir.NewBlock("")
		twin.LocalIdent = old.LocalIdent
		twin.Parent = f
		fw.Guard(func() { term.Succs() })
		*p = twin
		var gotTwin []*ir.Block
		panTwin, _, _ := fw.Guard(func() { gotTwin = term.Succs() })
		foundTwin := false
		for _, b := range gotTwin {
			if b == twin {
				foundTwin = true
			}
		}
		if !panTwin && !foundTwin {
			*p = old
			resetSuccCache(term)
			r.Violate(fw.Violation{Key: "succs-stale-same-label/" + kind, Input: text,
				What: fmt.Sprintf("after Succs() was called once, a branch target of %s was replaced through its operand slot by another block that carries the same label (%s): Succs() still returns the old block", kind, old.Ident())})
			break
		}
		*p = nb
		var got2 []*ir.Block
		pan, msg, _ := fw.Guard(func() { got2 = term.Succs() })
		*p = old
		resetSuccCache(term)
		if pan {
			r.Violate(fw.Violation{Key: "succs-panic-after-retarget/" + kind, Input: text, What: "Succs() panics after a target was rewritten through its slot: " + msg})
			break
		}
		found := false
		for _, b := range got2 {
			if b == nb {
				found = true
			}
		}
		r.Eval(1)
		if !found {
			r.Violate(fw.Violation{Key: "succs-stale/" + kind, Input: text,
				What: fmt.Sprintf("after Succs() was called once, rewriting a branch target of %s through its operand slot is not reflected by Succs() (stale cache): got %s", kind, blockNames(got2))})
		} else {
			r.Tally("succs", "follows-retarget:"+kind)
		}
		break
	}
}

func sameBlocks(kind string, want, got []*ir.Block) bool {
	if len(want) != len(got) {
		return false
	}
	eq := true
	for i := range want {
		if want[i] != got[i] {
			eq = false
		}
	}
	if eq {
		return true
	}
	if kind == "TermCatchSwitch" && len(want) > 0 {
		// unwind target first instead of last
		rot := append([]*ir.Block{want[len(want)-1]}, want[:len(want)-1]...)
		ok := true
		for i := range rot {
			if rot[i] != got[i] {
				ok = false
			}
		}
		return ok
	}
	return false
}

func blockNames(bs []*ir.Block) string {
	var ss []string
	for _, b := range bs {
		ss = append(ss, b.Ident())
	}
	return "[" + strings.Join(ss, " ") + "]"
}

// c15ReplaceAll substitutes each of a few values through the slots of all its
// users and checks that the old identifier no longer occurs as an operand.
func c15ReplaceAll(r *fw.Rec, id, text string, f *ir.Func) {
	type use struct{ p *value.Value }
	users := map[value.Value][]use{}
	for _, b := range f.Blocks {
		var us []interface{}
		for _, inst := range b.Insts {
			us = append(us, inst)
		}
		if b.Term != nil {
			us = append(us, b.Term)
		}
		for _, u := range us {
			op, ok := u.(operander)
			if !ok {
				continue
			}
			var ops []*value.Value
			if p, _, _ := fw.Guard(func() { ops = op.Operands() }); p {
				continue
			}
			for _, p := range ops {
				if *p != nil {
					key := *p
					if arg, ok := key.(*ir.Arg); ok {
						key = arg.Value // argument with attributes: the use is the wrapped value
					}
					users[key] = append(users[key], use{p})
				}
			}
		}
	}
	// candidate values: params and instruction results (locals with a printable identifier)
	var cands []value.Value
	for _, p := range f.Params {
		cands = append(cands, p)
	}
	for _, b := range f.Blocks {
		for _, inst := range b.Insts {
			if v, ok := inst.(value.Value); ok && !types.Equal(v.Type(), types.Void) {
				cands = append(cands, v)
			}
		}
	}
	// results of terminators (invoke, callbr, catchswitch) are values with users too
	var termCands []value.Value
	for _, b := range f.Blocks {
		if v, ok := b.Term.(value.Value); ok {
			isVoid := true
			fw.Guard(func() { isVoid = types.Equal(v.Type(), types.Void) })
			if !isVoid {
				termCands = append(termCands, v)
			}
		}
	}
	if len(termCands) > 6 {
		termCands = termCands[:6]
	}
	if len(cands) > 12 {
		step := len(cands) / 12
		var sub []value.Value
		for i := 0; i < len(cands); i += step {
			sub = append(sub, cands[i])
		}
		cands = sub
	}
	cands = append(cands, termCands...)
	full := f.LLString()
	base := stripUseListOrders(full)
	// a type and a value may be spelled alike (`%0 = type opaque` next to the
	// local %0): the token count cannot tell them apart, such values are left out
	typeSpelling := map[string]bool{}
	if f.Parent != nil {
		for _, t := range f.Parent.TypeDefs {
			fw.Guard(func() { typeSpelling[t.String()] = true })
		}
	}
	for _, v := range cands {
		oldIdent := identOf(v)
		if typeSpelling[oldIdent] {
			r.Tally("rauw", "identifier-also-spells-a-type(not judged)")
			continue
		}
		// all textual uses of the identifier before substitution (definition included)
		usesBefore := countToken(base, oldIdent)
		if usesBefore <= 1 {
			continue // never used: nothing to observe
		}
		sent := ir.NewParam("verif.rauw", v.Type())
		saved := make([]value.Value, len(users[v]))
		for i, u := range users[v] {
			saved[i] = *u.p
			if arg, ok := (*u.p).(*ir.Arg); ok {
				*u.p = &ir.Arg{Value: sent, Attrs: arg.Attrs}
			} else {
				*u.p = sent
			}
		}
		var out string
		pan, _, _ := fw.Guard(func() { out = f.LLString() })
		for i, u := range users[v] {
			*u.p = saved[i]
		}
		out = stripUseListOrders(out)
		for _, b := range f.Blocks {
			if b.Term != nil {
				resetSuccCache(b.Term)
			}
		}
		if pan {
			r.Tally("rauw", "print-panics(not judged)")
			continue
		}
		r.Eval(1)
		left := countToken(out, oldIdent)
		if left != 1 {
			// locate the first leftover line
			line := ""
			seenDef := false
			for _, l := range strings.Split(out, "\n") {
				if countToken(l, oldIdent) > 0 {
					if !seenDef && (strings.Contains(l, oldIdent+" =") || strings.HasPrefix(l, "define")) {
						seenDef = true
						if countToken(l, oldIdent) == 1 {
							continue
						}
					}
					line = strings.TrimSpace(l)
					break
				}
			}
			r.Violate(fw.Violation{Key: "rauw-leftover/" + leftoverKind(line), Input: text,
				What: fmt.Sprintf("after substituting %s through the operand slots of all its users in %s, the identifier still occurs %d time(s) besides its definition, e.g. in `%s`", oldIdent, f.Ident(), left-1, fw.Trunc(line, 200))})
			continue
		}
		r.Tally("rauw", "no-use-left")
	}
	if f.LLString() != full {
		r.Violate(fw.Violation{Key: "rauw-restore", Input: text, What: "function text changed after restoring all substituted operands"})
	}
}

func leftoverKind(line string) string {
	for _, k := range []string{"invoke", "callbr", "call"} {
		if strings.Contains(line, k+" ") {
			if strings.Contains(line, "[ \"") || strings.Contains(line, "[\"") {
				return k + "-operand-bundle"
			}
			return k
		}
	}
	f := strings.Fields(line)
	for _, w := range f {
		if w != "=" && !strings.HasPrefix(w, "%") {
			return w
		}
	}
	return "other"
}

// countToken counts occurrences of ident as a whole token.
func countToken(s, ident string) int {
	n := 0
	for i := 0; ; {
		j := strings.Index(s[i:], ident)
		if j < 0 {
			return n
		}
		end := i + j + len(ident)
		ok := true
		if end < len(s) {
			c := s[end]
			if c == '.' || c == '_' || c == '-' || c == '$' || (c >= '0' && c <= '9') || (c >= 'a' && c <= 'z') || (c >= 'A' && c <= 'Z') {
				ok = false
			}
		}
		if strings.HasSuffix(ident, "\"") {
			ok = true
		}
		if ok {
			n++
		}
		i = end
	}
}

// stripUseListOrders removes use-list order directives: they name values but
// are not instructions, so they have no operand slots.
func stripUseListOrders(s string) string {
	var out []string
	for _, l := range strings.Split(s, "\n") {
		if strings.HasPrefix(strings.TrimSpace(l), "uselistorder") {
			continue
		}
		out = append(out, stripMetadataArgs(l))
	}
	return strings.Join(out, "\n")
}

// stripMetadataArgs blanks `metadata ...` call arguments: a value named inside
// a metadata argument (metadata i32 %x, !DIArgList(...)) is held by the
// metadata wrapper, which is the operand that Operands() exposes.
func stripMetadataArgs(l string) string {
	for {
		i := strings.Index(l, "metadata ")
		if i < 0 {
			return l
		}
		j := i + len("metadata ")
		depth := 0
		for j < len(l) {
			c := l[j]
			if c == '(' || c == '{' || c == '[' {
				depth++
			} else if c == ')' || c == '}' || c == ']' {
				if depth == 0 {
					break
				}
				depth--
			} else if c == ',' && depth == 0 {
				break
			}
			j++
		}
		l = l[:i] + "METADATA-ARG" + l[j:]
	}
}
