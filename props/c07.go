package props

import (
	"fmt"
	"math/big"
	"math/rand"
	"os"
	"strings"

	"github.com/llir/llvm/ir"
	"github.com/llir/llvm/ir/constant"
	"github.com/llir/llvm/ir/types"
	"github.com/llir/llvm/ir/value"
	"github.com/llir/llvm/verifhook/export"

	"verif/internal/fw"
	"verif/internal/llvmref"
	"verif/internal/mgen"
)

func init() {
	fw.Register(&fw.Check{
		ID:    "C07",
		Level: "exploration",
		Rule: "getelementptr grid: 10 source element types (scalars, arrays, literal/packed/identified structs nested to depth 4, a vector) x 6 bases (pointer in address space 0/1/5, fixed vector of pointers, scalable vector of pointers, global) x index lists of length 0-5 drawn so that every index form occurs (i1/i8/i32/i64/i128 constants, non-constant scalar, zeroinitializer/splat/non-splat/undef/poison vector constants, vector constants with one undef/poison/constant-expression element, vectors of i1, vector types spelled through type aliases, non-constant fixed and scalable vectors, inrange, constant expressions). The result type predicted by the monitor's model is embedded in a use (store / initializer / alias type) and the module must be accepted by llvm-as. Compared with the prediction: the parser's type for the instruction, for the constant expression and on the alias pre-resolution path; ir.NewGetElementPtr and constant.NewGetElementPtr rebuilt from the parsed operands; the type recomputed after clearing the cache; gep.ResultType called directly through the export hook. " +
			"Further cases: zeroinitializer elements inside vector indices; vector lengths 1, 2 and 4; source types that are or end in fixed vectors, stepped into several times per process; a sequence of API-built geps over predeclared element types in several address spaces whose earlier results are re-read after later ones were built. " +
			"non-trivial = a gep with at least two indices or a vector base/index; distinct by the gep text",
		Gen:           genC07,
		MinNontrivial: 300,
		Assumptions:   []string{"the prediction counts only when llvm-as accepted the module in which the result is used at the predicted type"},
		Exhaustive:    func(string) bool { return false },
	})
}

type c07Gep struct {
	text     string // full instruction / expression text
	expected string // predicted result type
	isConst  bool
	name     string
	forms    []string
}

type c07Gen struct {
	rng   *rand.Rand
	named *mgen.Type
}

func (g *c07Gen) srcTypes() []*mgen.Type {
	i8, i16, i32, i64 := mgen.Int(8), mgen.Int(16), mgen.Int(32), mgen.Int(64)
	inner := mgen.Struct(false, i8, i16)
	return []*mgen.Type{
		i32,
		mgen.Arr(4, i32),
		mgen.Struct(false, i32, mgen.Arr(2, i8), mgen.Struct(true, i8, i64)),
		g.named,
		mgen.Arr(2, mgen.Arr(3, mgen.Struct(false, i16, i32))),
		mgen.Struct(true, i8, mgen.Arr(2, mgen.Struct(false, mgen.Arr(3, i64), i8))),
		mgen.Float("double"),
		mgen.Arr(0, mgen.Struct(false, i32, mgen.Ptr(i8, 1))),
		mgen.Struct(false, mgen.Arr(2, inner), mgen.Arr(2, mgen.Arr(2, inner))),
		mgen.Ptr(i32, 0),
		mgen.Vec(4, false, i32),
		mgen.Struct(false, i8, mgen.Vec(2, false, mgen.Float("float")), mgen.Arr(2, mgen.Vec(8, false, i16))),
		// the empty struct, sized (size 0) for LLVM, alone and inside aggregates
		mgen.Struct(false),
		mgen.Arr(3, mgen.Struct(false)),
		mgen.Struct(false, i8, mgen.Struct(false), mgen.Arr(2, mgen.Struct(true)), i32),
	}
}

// walk draws an index list for src and returns the index texts, the element
// type reached, the vector shape forced by the indices and the forms used.
func (g *c07Gen) walk(src *mgen.Type, vecN int, vecSc bool, constOnly bool, maxLen int) (idx []string, elem *mgen.Type, n int, sc bool, forms []string) {
	rng := g.rng
	n, sc = vecN, vecSc
	cur := src
	nidx := rng.Intn(maxLen + 1)
	for k := 0; k < nidx; k++ {
		r := cur.Resolve()
		structIdx := -1
		if k > 0 {
			switch r.K {
			case mgen.KStruct:
				if len(r.Fields) == 0 {
					// the empty struct is a sized type without anything to step into
					return idx, cur, n, sc, forms
				}
				structIdx = rng.Intn(len(r.Fields))
			case mgen.KArr:
			case mgen.KVec:
				// stepping into the elements of a (fixed) vector is legal, like an array
				if r.Scalable {
					elem = cur
					return idx, cur, n, sc, forms
				}
			default:
				elem = cur
				return idx, cur, n, sc, forms
			}
		}
		if structIdx >= 0 {
			onlyVector := n == 0 && rng.Intn(8) == 0
			if onlyVector {
				// the field number as a splat vector while the base pointer and every
				// index so far are scalars: this index alone makes the result a vector
				n = []int{2, 4}[rng.Intn(2)]
			}
			if n > 0 && !sc && (onlyVector || rng.Intn(3) == 0) {
				var es []string
				form := "struct-splat-vector"
				if onlyVector {
					forms = append(forms, "struct-splat-vector-first-vector-operand")
				}
				if rng.Intn(5) == 0 {
					// every element the same literal beyond 32 bits (LLVM reads each modulo 2^32)
					lit := new(big.Int).Add(big.NewInt(int64(structIdx)), new(big.Int).Lsh(big.NewInt(int64(1+rng.Intn(3))), uint([]int{32, 33, 63, 64}[rng.Intn(4)])))
					for i := 0; i < n; i++ {
						es = append(es, "i32 "+lit.String())
					}
					idx = append(idx, fmt.Sprintf("<%d x i32> <%s>", n, strings.Join(es, ", ")))
					forms = append(forms, "struct-splat-vector-equal-literals-beyond-32-bits")
					cur = r.Fields[structIdx]
					continue
				}
				for i := 0; i < n; i++ {
					if structIdx == 0 && rng.Intn(2) == 0 {
						// the element 0 spelled `i32 zeroinitializer`
						es = append(es, "i32 zeroinitializer")
						form = "struct-splat-vector+zeroinitializer-element"
					} else {
						es = append(es, fmt.Sprintf("i32 %d", structIdx))
					}
				}
				idx = append(idx, fmt.Sprintf("<%d x i32> <%s>", n, strings.Join(es, ", ")))
				forms = append(forms, form)
			} else if rng.Intn(6) == 0 {
				// the field number spelled with a literal beyond i32: LLVM reads an i32 literal modulo 2^32
				v := new(big.Int).SetInt64(int64(structIdx))
				k := []*big.Int{new(big.Int).Lsh(big.NewInt(1), 32), new(big.Int).Lsh(big.NewInt(1), 63), new(big.Int).Lsh(big.NewInt(1), 64), new(big.Int).Lsh(big.NewInt(3), 64)}[rng.Intn(4)]
				form := "struct-i32-literal-beyond-32-bits"
				if rng.Intn(3) == 0 {
					v.Sub(v, k)
					form += "-negative"
				} else {
					v.Add(v, k)
				}
				if k.BitLen() > 33 {
					form += "-and-beyond-int64"
				}
				idx = append(idx, "i32 "+v.String())
				forms = append(forms, form)
			} else {
				idx = append(idx, fmt.Sprintf("i32 %d", structIdx))
				forms = append(forms, "struct-i32")
			}
			cur = r.Fields[structIdx]
			continue
		}
		// array step or first index
		form := rng.Intn(14)
		switch {
		case form == 0:
			idx = append(idx, []string{"i1 true", "i1 false"}[rng.Intn(2)])
			forms = append(forms, "i1")
		case form == 1:
			idx = append(idx, fmt.Sprintf("i8 %d", rng.Intn(3)))
			forms = append(forms, "i8")
		case form == 2:
			idx = append(idx, fmt.Sprintf("i32 %d", rng.Intn(3)))
			forms = append(forms, "i32")
		case form == 3 && rng.Intn(3) == 0:
			// unusual but legal spellings of an index: signed hexadecimal, and decimals beyond int64
			switch rng.Intn(3) {
			case 0:
				idx = append(idx, "i64 s0x0")
				forms = append(forms, "i64-signed-hex")
			case 1:
				idx = append(idx, fmt.Sprintf("i128 %s", []string{"18446744073709551616", "340282366920938463463374607431768211455", "-9223372036854775809"}[rng.Intn(3)]))
				forms = append(forms, "i128-beyond-int64")
			default:
				idx = append(idx, fmt.Sprintf("i64 u0x%X", rng.Intn(3)))
				forms = append(forms, "i64-unsigned-hex")
			}
		case form == 3:
			idx = append(idx, fmt.Sprintf("i128 %d", rng.Intn(3)))
			forms = append(forms, "i128")
		case form == 4 && !constOnly:
			idx = append(idx, "i64 %i")
			forms = append(forms, "nonconst-scalar")
		case form == 5:
			idx = append(idx, "i64 add (i64 ptrtoint (i32* @anchor to i64), i64 1)")
			forms = append(forms, "constexpr")
		case form == 6 && constOnly && k > 0 && !strings.Contains(strings.Join(idx, ","), "inrange"):
			// (LLVM takes the marker on one index of an expression only)
			idx = append(idx, fmt.Sprintf("inrange i64 %d", rng.Intn(2)))
			forms = append(forms, "inrange")
		case form >= 7 && form <= 11:
			vn, vs := n, sc
			if vn == 0 {
				vn = []int{2, 4, 1}[rng.Intn(3)]
				if !constOnly && rng.Intn(4) == 0 {
					vs = true
				}
			}
			it := []string{"i64", "i32", "i8", "i1"}[rng.Intn(4)]
			vt := fmt.Sprintf("<%d x %s>", vn, it)
			if vs {
				vt = fmt.Sprintf("<vscale x %d x %s>", vn, it)
			}
			plainVt := vt
			aliased := ""
			if rng.Intn(4) == 0 {
				// the index type written through a type alias (defined in the module prelude)
				vt = c07AliasName(vn, it, vs)
				aliased = "+type-alias"
			}
			defer func(k int) {
				if aliased != "" && k < len(forms) {
					forms[k] += aliased
				}
			}(len(forms))
			switch {
			case form == 7 && it != "i1" && rng.Intn(3) == 0:
				// a constant expression of vector type (its shape is in its type only)
				idx = append(idx, fmt.Sprintf("%s add (%s zeroinitializer, %s zeroinitializer)", vt, plainVt, plainVt))
				forms = append(forms, "vector-constant-expression")
			case form == 7:
				idx = append(idx, vt+" zeroinitializer")
				forms = append(forms, "vector-zeroinitializer")
			case form == 8:
				idx = append(idx, vt+" undef")
				forms = append(forms, "vector-undef")
			case form == 9:
				idx = append(idx, vt+" poison")
				forms = append(forms, "vector-poison")
			case form == 10 && !vs:
				var es []string
				splat := rng.Intn(2) == 0
				c := rng.Intn(3)
				for i := 0; i < vn; i++ {
					if !splat {
						c = rng.Intn(3)
					}
					if it == "i1" {
						es = append(es, "i1 "+[]string{"false", "true"}[c%2])
					} else if c == 0 && rng.Intn(4) == 0 {
						es = append(es, it+" zeroinitializer")
					} else {
						es = append(es, fmt.Sprintf("%s %d", it, c))
					}
				}
				odd := ""
				if rng.Intn(3) == 0 {
					// one element without a concrete value
					k := rng.Intn(vn)
					switch e := rng.Intn(3); {
					case e == 0:
						es[k], odd = it+" undef", "+undef-element"
					case e == 1:
						es[k], odd = it+" poison", "+poison-element"
					case it == "i64":
						es[k], odd = "i64 ptrtoint (i32* @anchor to i64)", "+constexpr-element"
					}
				}
				idx = append(idx, vt+" <"+strings.Join(es, ", ")+">")
				if splat {
					forms = append(forms, "vector-splat"+odd)
				} else {
					forms = append(forms, "vector-nonsplat"+odd)
				}
			case !constOnly:
				// non-constant vector index of this shape
				nm := fmt.Sprintf("%%vi%d%s", vn, it)
				if vs {
					nm = fmt.Sprintf("%%si%d%s", vn, it)
				}
				idx = append(idx, vt+" "+nm)
				forms = append(forms, "nonconst-vector")
			default:
				idx = append(idx, vt+" zeroinitializer")
				forms = append(forms, "vector-zeroinitializer")
			}
			n, sc = vn, vs
		default:
			idx = append(idx, fmt.Sprintf("i64 %d", rng.Intn(3)))
			forms = append(forms, "i64")
		}
		if k > 0 {
			cur = r.Elem
		}
	}
	return idx, cur, n, sc, forms
}

func c07AliasName(n int, it string, scalable bool) string {
	if scalable {
		return fmt.Sprintf("%%SV%d%s", n, it)
	}
	return fmt.Sprintf("%%FV%d%s", n, it)
}

func c07Expected(elem *mgen.Type, as, n int, sc bool) string {
	p := mgen.Ptr(elem, as)
	if n > 0 {
		return mgen.Vec(n, sc, p).String()
	}
	return p.String()
}

const c07Params = "i64 %i, <2 x i64> %vi2i64, <4 x i64> %vi4i64, <2 x i32> %vi2i32, <4 x i32> %vi4i32, <2 x i8> %vi2i8, <4 x i8> %vi4i8, <vscale x 2 x i64> %si2i64, <vscale x 4 x i64> %si4i64, <vscale x 2 x i32> %si2i32, <vscale x 4 x i32> %si4i32, <vscale x 2 x i8> %si2i8, <vscale x 4 x i8> %si4i8, <2 x i1> %vi2i1, <4 x i1> %vi4i1, <vscale x 2 x i1> %si2i1, <vscale x 4 x i1> %si4i1, <1 x i64> %vi1i64, <1 x i32> %vi1i32, <1 x i8> %vi1i8, <1 x i1> %vi1i1, <vscale x 1 x i64> %si1i64, <vscale x 1 x i32> %si1i32, <vscale x 1 x i8> %si1i8, <vscale x 1 x i1> %si1i1"

func genC07(ctx *fw.Ctx) []fw.Case {
	var cases []fw.Case
	n := ctx.Pick(300, 60000)
	for i := 0; i < n; i++ {
		i := i
		cases = append(cases, fw.Case{ID: fmt.Sprintf("grid/%d", i), Run: func(r *fw.Rec) { c07Batch(r, i) }})
	}
	cases = append(cases, fw.Case{ID: "direct", Run: c07Direct})
	return cases
}

func c07Batch(r *fw.Rec, idx int) {
	rng := r.Ctx().Rand(fmt.Sprintf("c07/%d", idx))
	named := &mgen.Type{K: mgen.KNamed, Name: "S"}
	// the body behind the name differs from batch to batch of one process: what a
	// gep through %S yields depends on the module the name is defined in
	switch idx % 3 {
	case 0:
		named.Body = mgen.Struct(false, mgen.Int(32), mgen.Ptr(named, 0), mgen.Arr(3, mgen.Struct(false, mgen.Int(8), mgen.Int(16))))
	case 1:
		named.Body = mgen.Struct(false, mgen.Int(64), mgen.Arr(2, mgen.Int(8)), mgen.Arr(3, mgen.Struct(false, mgen.Int(16), mgen.Ptr(named, 0))))
	default:
		named.Body = mgen.Struct(true, mgen.Arr(2, mgen.Int(16)), mgen.Float("double"), mgen.Arr(3, mgen.Struct(true, mgen.Int(64), mgen.Int(8))))
	}
	g := &c07Gen{rng: rng, named: named}
	srcs := g.srcTypes()
	var sb strings.Builder
	fmt.Fprintf(&sb, "%%S = type %s\n@anchor = global i32 0\n", named.Body)
	for _, vn := range []int{1, 2, 4} {
		for _, it := range []string{"i64", "i32", "i8", "i1"} {
			fmt.Fprintf(&sb, "%s = type <%d x %s>\n%s = type <vscale x %d x %s>\n", c07AliasName(vn, it, false), vn, it, c07AliasName(vn, it, true), vn, it)
		}
	}
	var geps []c07Gep
	perBatch := 40
	for k := 0; k < perBatch; k++ {
		src := srcs[(idx+k)%len(srcs)]
		mode := rng.Intn(10)
		switch {
		case mode < 6: // instruction
			as := []int{0, 0, 1, 5}[rng.Intn(4)]
			vecN, vecSc := 0, false
			baseT := mgen.Ptr(src, as)
			switch rng.Intn(5) {
			case 0:
				vecN = []int{2, 4, 1}[rng.Intn(3)]
				baseT = mgen.Vec(vecN, false, baseT)
			case 1:
				vecN, vecSc = []int{2, 4, 1}[rng.Intn(3)], true
				baseT = mgen.Vec(vecN, true, baseT)
			}
			ix, elem, n, sc, forms := g.walk(src, vecN, vecSc, false, 5)
			exp := c07Expected(elem, as, n, sc)
			name := fmt.Sprintf("f%d", k)
			inb := []string{"", "inbounds "}[rng.Intn(2)]
			text := fmt.Sprintf("getelementptr %s%s, %s %%base", inb, src, baseT)
			if len(ix) > 0 {
				text += ", " + strings.Join(ix, ", ")
			}
			fmt.Fprintf(&sb, "define void @%s(%s %%base, %s) {\n  %%r = %s\n  store %s %%r, %s* undef\n  ret void\n}\n", name, baseT, c07Params, text, exp, exp)
			geps = append(geps, c07Gep{text: text, expected: exp, name: name, forms: forms})
		case mode < 9: // constant expression in a global initializer
			as := []int{0, 1, 5}[rng.Intn(3)]
			gname := fmt.Sprintf("b%d", k)
			asText := ""
			if as != 0 {
				asText = fmt.Sprintf("addrspace(%d) ", as)
			}
			if !src.Resolve().IsSized() {
				continue
			}
			fmt.Fprintf(&sb, "@%s = external %sglobal %s\n", gname, asText, src)
			baseT := mgen.Ptr(src, as)
			base := fmt.Sprintf("%s @%s", baseT, gname)
			vecN := 0
			if rng.Intn(4) == 0 && !strings.HasPrefix(src.String(), "{") {
				// (LLVM reads "<{" at the start of a vector constant as a packed struct)
				vecN = 2
				base = fmt.Sprintf("<2 x %s> <%s @%s, %s @%s>", baseT, baseT, gname, baseT, gname)
			}
			ix, elem, n, sc, forms := g.walk(src, vecN, false, true, 4)
			exp := c07Expected(elem, as, n, sc)
			inb := []string{"", "inbounds "}[rng.Intn(2)]
			text := fmt.Sprintf("getelementptr %s(%s, %s", inb, src, base)
			if len(ix) > 0 {
				text += ", " + strings.Join(ix, ", ")
			}
			text += ")"
			name := fmt.Sprintf("c%d", k)
			fmt.Fprintf(&sb, "@%s = global %s %s\n", name, exp, text)
			geps = append(geps, c07Gep{text: text, expected: exp, name: name, isConst: true, forms: forms})
		default: // alias path (address space taken from the gep expression before globals are resolved)
			as := []int{1, 5, 2}[rng.Intn(3)]
			if !src.Resolve().IsSized() {
				continue
			}
			gname := fmt.Sprintf("b%d", k)
			fmt.Fprintf(&sb, "@%s = addrspace(%d) global %s zeroinitializer\n", gname, as, src)
			baseT := mgen.Ptr(src, as)
			ix, elem, n, _, forms := g.walkScalarConst(src, 4)
			if n > 0 {
				continue
			}
			exp := c07Expected(elem, as, 0, false)
			text := fmt.Sprintf("getelementptr (%s, %s @%s", src, baseT, gname)
			if len(ix) > 0 {
				text += ", " + strings.Join(ix, ", ")
			}
			text += ")"
			name := fmt.Sprintf("a%d", k)
			fmt.Fprintf(&sb, "@%s = alias %s, %s\n", name, elem, text)
			geps = append(geps, c07Gep{text: text, expected: exp, name: name, isConst: true, forms: append(forms, "alias-path")})
		}
	}
	text := sb.String()
	ok, msg, err := llvmref.Accepts(text)
	if err != nil {
		r.Inconclusive("llvm tool failure")
		return
	}
	if !ok {
		r.Inconclusive("gep batch rejected by LLVM (model or generator at fault): " + classify(firstLine(lastDiag(msg))))
		ln := 0
		d := lastDiag(msg)
		fmt.Sscanf(d[strings.Index(d, "<stdin>:")+8:], "%d", &ln)
		lines := strings.Split(text, "\n")
		if ln > 0 && ln <= len(lines) {
			d += " :: " + lines[ln-1]
		}
		r.Note("gep batch " + fmt.Sprint(idx) + " rejected: " + firstLine(d))
		if os.Getenv("VERIF_DEBUG_DIR") != "" {
			os.WriteFile(fmt.Sprintf("%s/c07-%d.ll", os.Getenv("VERIF_DEBUG_DIR"), idx), []byte(text), 0o644)
		}
		return
	}
	m, perr, pmsg := parseGuard("c07", text)
	if pmsg != "" || perr != nil {
		what := pmsg
		if perr != nil {
			what = perr.Error()
		}
		// locate the culprit
		r.Violate(fw.Violation{Key: "gep-rejected/" + classify(firstLine(what)), Input: text, What: "a module of getelementptr forms LLVM accepts is rejected by the parser: " + firstLine(what)})
		return
	}
	funcs := map[string]*ir.Func{}
	for _, f := range m.Funcs {
		funcs[f.GlobalName] = f
	}
	globals := map[string]*ir.Global{}
	for _, gl := range m.Globals {
		globals[gl.GlobalName] = gl
	}
	aliases := map[string]*ir.Alias{}
	for _, a := range m.Aliases {
		aliases[a.GlobalName] = a
	}
	for _, ge := range geps {
		r.Eval(1)
		for _, f := range ge.forms {
			r.Tally("index_forms", f)
		}
		report := func(path, got string) {
			r.Violate(fw.Violation{Key: "gep-type/" + path + "/" + strings.Join(uniq(ge.forms), "+"), Input: text,
				What:     fmt.Sprintf("`%s`: %s gives %s, LLVM's rule (validated by llvm-as on this module) gives %s", ge.text, path, got, ge.expected),
				Expected: ge.expected, Observed: got})
		}
		if !ge.isConst {
			f := funcs[ge.name]
			inst, ok := f.Blocks[0].Insts[0].(*ir.InstGetElementPtr)
			if !ok {
				continue
			}
			if got := inst.Type().String(); got != ge.expected {
				report("parser(instruction)", got)
				continue
			}
			if re, had, pm := recomputeType(inst); had {
				if pm != "" {
					report("ir.InstGetElementPtr.Type() recomputed", "panic: "+firstLine(pm))
					continue
				}
				if re.String() != ge.expected {
					report("ir.InstGetElementPtr.Type() recomputed", re.String())
					continue
				}
			}
			var built *ir.InstGetElementPtr
			if p, msgp, _ := fw.Guard(func() { built = ir.NewGetElementPtr(inst.ElemType, inst.Src, inst.Indices...) }); p {
				report("ir.NewGetElementPtr", "panic: "+firstLine(msgp))
				continue
			}
			if got := built.Type().String(); got != ge.expected {
				report("ir.NewGetElementPtr", got)
				continue
			}
			r.Tally("paths", "instruction:parser+recompute+constructor")
		} else {
			var c constant.Constant
			if gl := globals[ge.name]; gl != nil {
				c = gl.Init
			} else if a := aliases[ge.name]; a != nil {
				c = a.Aliasee
				// alias pre-resolution path: the alias' own type carries the address space
				wantAS := ""
				if i := strings.Index(ge.expected, "addrspace("); i >= 0 {
					wantAS = ge.expected[i:]
				}
				if got := a.Typ.String(); !strings.HasSuffix(got, wantAS) {
					report("alias type (pre-resolution path)", got)
					continue
				}
				r.Tally("paths", "alias-pre-resolution")
			}
			e, ok := c.(*constant.ExprGetElementPtr)
			if !ok {
				r.Inconclusive("constant is not a gep expression")
				continue
			}
			if got := e.Type().String(); got != ge.expected {
				report("parser(constant expression)", got)
				continue
			}
			if re, had, pm := recomputeType(e); had {
				if pm != "" {
					report("constant.ExprGetElementPtr.Type() recomputed", "panic: "+firstLine(pm))
					continue
				}
				if re.String() != ge.expected {
					report("constant.ExprGetElementPtr.Type() recomputed", re.String())
					continue
				}
			}
			var built *constant.ExprGetElementPtr
			if p, msgp, _ := fw.Guard(func() { built = constant.NewGetElementPtr(e.ElemType, e.Src, e.Indices...) }); p {
				report("constant.NewGetElementPtr", "panic: "+firstLine(msgp))
				continue
			}
			if got := built.Type().String(); got != ge.expected {
				report("constant.NewGetElementPtr", got)
				continue
			}
			// the instruction constructor fed with the same constant operands must agree too
			var vals []value.Value
			for _, ix := range e.Indices {
				vals = append(vals, ix)
			}
			var bi *ir.InstGetElementPtr
			if p, msgp, _ := fw.Guard(func() { bi = ir.NewGetElementPtr(e.ElemType, e.Src, vals...) }); p {
				report("ir.NewGetElementPtr(constant operands)", "panic: "+firstLine(msgp))
				continue
			}
			if got := bi.Type().String(); got != ge.expected {
				report("ir.NewGetElementPtr(constant operands)", got)
				continue
			}
			r.Tally("paths", "constant-expression:parser+recompute+both-constructors")
		}
		if len(ge.forms) >= 2 || strings.Contains(ge.expected, "<") {
			r.Nontrivial(ge.text)
		}
	}
	if len(geps) > 0 {
		r.Sample(map[string]interface{}{"gep": geps[len(geps)/2].text, "predicted_type": geps[len(geps)/2].expected, "index_forms": geps[len(geps)/2].forms})
	}
}

func uniq(ss []string) []string {
	seen := map[string]bool{}
	var out []string
	for _, s := range ss {
		if !seen[s] {
			seen[s] = true
			out = append(out, s)
		}
	}
	return out
}

// walkScalarConst draws a scalar, constant index list.
func (g *c07Gen) walkScalarConst(src *mgen.Type, maxLen int) (idx []string, elem *mgen.Type, n int, sc bool, forms []string) {
	rng := g.rng
	cur := src
	nidx := rng.Intn(maxLen + 1)
	for k := 0; k < nidx; k++ {
		r := cur.Resolve()
		if k > 0 {
			switch r.K {
			case mgen.KStruct:
				if len(r.Fields) == 0 {
					return idx, cur, 0, false, forms
				}
				f := rng.Intn(len(r.Fields))
				idx = append(idx, fmt.Sprintf("i32 %d", f))
				forms = append(forms, "struct-i32")
				cur = r.Fields[f]
				continue
			case mgen.KArr:
			default:
				return idx, cur, 0, false, forms
			}
		}
		it := []string{"i64", "i32", "i8", "i128"}[rng.Intn(4)]
		idx = append(idx, fmt.Sprintf("%s %d", it, rng.Intn(2)))
		forms = append(forms, it)
		if k > 0 {
			cur = r.Elem
		}
	}
	return idx, cur, 0, false, forms
}

// c07Direct drives gep.ResultType through the export hook with hand-built
// index descriptors.
func c07Direct(r *fw.Rec) {
	i32 := types.I32
	st := types.NewStruct(types.I8, types.NewArray(3, types.I64), types.NewStruct(types.I16))
	p := func(t types.Type, as types.AddrSpace) *types.PointerType {
		x := types.NewPointer(t)
		x.AddrSpace = as
		return x
	}
	vec := func(n uint64, sc bool, e types.Type) *types.VectorType {
		v := types.NewVector(n, e)
		v.Scalable = sc
		return v
	}
	type tc struct {
		name    string
		elem    types.Type
		src     types.Type
		indices []export.GepIndex
		want    string
	}
	idx := func(v int64) export.GepIndex { return export.GepNewIndex(v) }
	cases := []tc{
		{"no-index", i32, p(i32, 0), nil, "i32*"},
		{"one-index-as", i32, p(i32, 3), []export.GepIndex{idx(5)}, "i32 addrspace(3)*"},
		{"struct-array", st, p(st, 0), []export.GepIndex{idx(0), idx(1), idx(2)}, "i64*"},
		{"struct-struct", st, p(st, 1), []export.GepIndex{idx(0), idx(2), idx(0)}, "i16 addrspace(1)*"},
		{"vector-base", i32, vec(4, false, p(i32, 0)), []export.GepIndex{idx(1)}, "<4 x i32*>"},
		{"scalable-base", i32, vec(2, true, p(i32, 1)), []export.GepIndex{idx(1)}, "<vscale x 2 x i32 addrspace(1)*>"},
		{"vector-index", i32, p(i32, 0), []export.GepIndex{{VectorLen: 4}}, "<4 x i32*>"},
		{"scalable-index", i32, p(i32, 0), []export.GepIndex{{VectorLen: 2, Scalable: true}}, "<vscale x 2 x i32*>"},
		{"splat-struct-index", st, p(st, 0), []export.GepIndex{{VectorLen: 2}, {HasVal: true, Val: 1, VectorLen: 2}, {VectorLen: 2}}, "<2 x i64*>"},
		{"nonconst-array-index", st, p(st, 0), []export.GepIndex{idx(0), idx(1), {HasVal: false}}, "i64*"},
	}
	for _, c := range cases {
		r.Eval(1)
		var got types.Type
		if pn, msg, _ := fw.Guard(func() { got = export.GepResultType(c.elem, c.src, c.indices) }); pn {
			r.Violate(fw.Violation{Key: "gep-direct-panic/" + c.name, What: "gep.ResultType panics on a valid description: " + firstLine(msg)})
			continue
		}
		if got.String() != c.want {
			r.Violate(fw.Violation{Key: "gep-direct/" + c.name, What: fmt.Sprintf("gep.ResultType(%s, %s, %v) = %s, want %s", c.elem, c.src, c.indices, got, c.want), Expected: c.want, Observed: got.String()})
			continue
		}
		r.Nontrivial("direct/" + c.name)
	}
	r.Sample(map[string]interface{}{"direct_gep.ResultType_cases": len(cases)})
	// API-built geps over the predeclared types (types.I8, types.I32, ...) in
	// several address spaces, built one after another: each keeps the type it
	// had when built, and the predeclared pointer types stay what they are
	pre := map[string]*types.PointerType{"i1": types.I1Ptr, "i8": types.I8Ptr, "i16": types.I16Ptr, "i32": types.I32Ptr, "i64": types.I64Ptr, "i128": types.I128Ptr}
	ints := map[string]*types.IntType{"i1": types.I1, "i8": types.I8, "i16": types.I16, "i32": types.I32, "i64": types.I64, "i128": types.I128}
	type built struct {
		what string
		v    interface{ Type() types.Type }
		want string
	}
	var all []built
	for _, as := range []types.AddrSpace{0, 3, 0, 5, 1, 0} {
		for _, name := range []string{"i8", "i32", "i64", "i1", "i16", "i128"} {
			it := ints[name]
			want := name + "*"
			if as != 0 {
				want = fmt.Sprintf("%s addrspace(%d)*", name, as)
			}
			base := ir.NewParam("p", p(it, as))
			g1 := ir.NewGetElementPtr(it, base, constant.NewInt(types.I64, 1))
			arr := types.NewArray(4, it)
			g2 := ir.NewGetElementPtr(arr, ir.NewParam("q", p(arr, as)), constant.NewInt(types.I64, 0), constant.NewInt(types.I64, 2))
			gl := ir.NewGlobal("g", it)
			gl.AddrSpace = as
			g3 := constant.NewGetElementPtr(it, gl, constant.NewInt(types.I64, 1))
			all = append(all, built{fmt.Sprintf("NewGetElementPtr(%s, %s)", name, base.Type()), g1, want}, built{fmt.Sprintf("NewGetElementPtr([4 x %s], as %d)", name, as), g2, want}, built{fmt.Sprintf("constant.NewGetElementPtr(%s, @g as %d)", name, as), g3, want})
		}
	}
	for _, b := range all {
		r.Eval(1)
		if got := b.v.Type().String(); got != b.want {
			r.Violate(fw.Violation{Key: "gep-api-sequence/result-changed-later", What: fmt.Sprintf("%s has type %s after geps in other address spaces were built, want %s", b.what, got, b.want)})
			return
		}
	}
	for name, pt := range pre {
		if pt.AddrSpace != 0 || pt.String() != name+"*" {
			r.Violate(fw.Violation{Key: "gep-api-sequence/predeclared-pointer-changed", What: fmt.Sprintf("the predeclared pointer type types.%sPtr reads %s after geps were built", strings.ToUpper(name), pt)})
			return
		}
	}
	r.NontrivialN("direct/api-sequence", len(all))
	r.TallyN("direct", "api-geps-over-predeclared-types", len(all))
}
