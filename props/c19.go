package props

import (
	"errors"
	"fmt"
	"io"
	"os"
	"reflect"
	"strings"
	"syscall"

	"github.com/llir/llvm/ir"
	"github.com/llir/llvm/ir/constant"
	"github.com/llir/llvm/ir/metadata"
	"github.com/llir/llvm/ir/types"

	"verif/internal/corpus"
	"verif/internal/fw"
)

var errSentinel = errors.New("verif: injected writer failure")

// faultWriter accepts exactly limit bytes in total and then fails.
type faultWriter struct {
	limit      int
	short      bool  // fail with io.ErrShortWrite instead of the sentinel
	full       bool  // the failing Write accepts its whole chunk and returns (len(p), err)
	err        error // when set: the error of the failing Write
	got        []byte
	failed     bool
	afterCalls int // Write calls (with data) after the first failure
	firstErr   error
	chunks     int
}

func (w *faultWriter) Write(p []byte) (int, error) {
	w.chunks++
	if w.failed {
		if len(p) > 0 {
			w.afterCalls++
		}
		return 0, w.firstErr
	}
	room := w.limit - len(w.got)
	if len(p) <= room {
		w.got = append(w.got, p...)
		return len(p), nil
	}
	if w.full {
		room = len(p)
	}
	w.got = append(w.got, p[:room]...)
	w.failed = true
	if w.err != nil {
		w.firstErr = w.err
	} else if w.short {
		w.firstErr = io.ErrShortWrite
	} else {
		w.firstErr = errSentinel
	}
	return room, w.firstErr
}

// quietShortWriter takes everything up to its limit, takes only the part of
// the overflowing chunk that fits, returns (n < len(p), nil) for it, and takes
// everything after that (recorded apart).
type quietShortWriter struct {
	limit int
	got   []byte
	after []byte
	short bool
}

func (w *quietShortWriter) Write(p []byte) (int, error) {
	if w.short {
		w.after = append(w.after, p...)
		return len(p), nil
	}
	room := w.limit - len(w.got)
	if len(p) <= room {
		w.got = append(w.got, p...)
		return len(p), nil
	}
	w.got = append(w.got, p[:room]...)
	w.short = true
	return room, nil
}

// richWriter is a faultWriter that also offers the optional methods real
// destinations have (*os.File, *bufio.Writer, *bytes.Buffer: WriteString;
// bufio/bytes: WriteByte; *os.File: ReadFrom), each with the same byte budget.
type richWriter struct{ *faultWriter }

func (w richWriter) WriteString(s string) (int, error) { return w.Write([]byte(s)) }

func (w richWriter) WriteByte(c byte) error {
	_, err := w.Write([]byte{c})
	return err
}

func (w richWriter) ReadFrom(rd io.Reader) (int64, error) {
	var total int64
	buf := make([]byte, 512)
	for {
		n, rerr := rd.Read(buf)
		if n > 0 {
			m, werr := w.Write(buf[:n])
			total += int64(m)
			if werr != nil {
				return total, werr
			}
		}
		if rerr == io.EOF {
			return total, nil
		}
		if rerr != nil {
			return total, rerr
		}
	}
}

// chunkWriter never fails; it forwards at most c bytes per underlying call and
// records everything.
type chunkWriter struct {
	got   []byte
	calls int
}

func (w *chunkWriter) Write(p []byte) (int, error) {
	w.calls++
	w.got = append(w.got, p...)
	return len(p), nil
}

func init() {
	fw.Register(&fw.Check{
		ID:    "C19",
		Level: "fault_enumeration",
		Rule: "every module of the corpus (atoms, repo testdata, llvm-stress programs in thorough) is written with WriteTo to a writer that fails after exactly k accepted bytes, " +
			"for every k in [0,len] (all offsets when len<=6000, else 400 PRNG offsets plus boundaries), once with a sentinel error, once with io.ErrShortWrite, and once with a writer whose failing call accepts its whole chunk and returns (len(p), err); the corpus includes a synthetic module with a function body of more than 64 KiB; " +
			"Real destinations: /dev/full, a pipe whose reader goes away after 0, 1 or half of the bytes, a closed file and a regular file, through an *os.File wrapper that records what the descriptor accepted and its first error: count, error identity and no write after the failure. Kind stringwriter: the failing writer also has WriteString, WriteByte and ReadFrom (as *os.File, *bufio.Writer, *bytes.Buffer have), all on the same byte budget, at every offset. A writer that takes part of a chunk and reports no error (contract-breaking short write) must either get the rest again or stop WriteTo with io.ErrShortWrite, at every offset. Failure kinds also include the errors of real destinations at 25 offsets per module (io.ErrClosedPipe, EPIPE bare and in *os.PathError, io.EOF, os.ErrClosed, ENOSPC, errors with Temporary()/Timeout() methods, EAGAIN, EINTR, errors of an uncomparable dynamic type: a slice of messages, a struct holding a slice). First output: a second, never-printed parse of every input, and API-built modules whose numbers are still to be assigned (block addresses used from outside the function, metadata definitions with ID -1 attached to a global, a function and an instruction; never printed, or printed and then edited) are written once to a non-failing writer and to writers failing at every offset: what WriteTo wrote is what String() returns afterwards. " +
			"a case is (module, k, failure kind); it is non-trivial when 0<k<len, i.e. the failure hits in the middle of the output; distinct = distinct (module digest, k, kind)",
		Gen:           genC19,
		MinNontrivial: 1000,
		Assumptions: []string{"the writer obeys the io.Writer contract (n<len(p) implies err!=nil)",
			"modules are those the parser accepts; the corpus decides which printer paths are reached"},
		Exhaustive: func(string) bool { return false },
	})
}

func genC19(ctx *fw.Ctx) []fw.Case {
	srcs := baseSources()
	srcs = append(srcs, corpus.ClangSources(ctx.Thorough())...)
	srcs = append(srcs, corpus.StressSources(ctx.Rand("stress"), ctx.Pick(20, 300), 20, 200)...)
	srcs = append(srcs, mgenSources(ctx, ctx.Pick(60, 1500))...)
	srcs = append(srcs, corpus.Source{ID: "synthetic/big-function", Text: func() (string, error) {
		var sb strings.Builder
		sb.WriteString("@g = global i32 0\ndefine i32 @small(i32 %x) {\n  ret i32 %x\n}\ndefine i32 @big(i32 %x) {\nentry:\n  %v0 = add i32 %x, 1\n")
		for i := 1; i < 2600; i++ {
			fmt.Fprintf(&sb, "  %%v%d = add nuw nsw i32 %%v%d, %d\n", i, i-1, i)
		}
		sb.WriteString("  ret i32 %v2599\n}\ndefine void @after() {\n  ret void\n}\n!named = !{!0}\n!0 = !{!\"tail\"}\n")
		return sb.String(), nil
	}})
	var cases []fw.Case
	for _, s := range srcs {
		s := s
		cases = append(cases, fw.Case{ID: s.ID, Run: func(r *fw.Rec) { runC19(r, s) }})
	}
	cases = append(cases, fw.Case{ID: "api/first-writeto", Run: c19APIFirstWriteTo})
	cases = append(cases, fw.Case{ID: "real-destinations", Run: c19RealDestinations})
	return cases
}

// c19APIFirstWriteTo: modules built or edited through the API whose numbering
// is not yet what printing will make it (never printed; printed, then edited so
// that numbers shift) and in which a number is used from outside its function
// (the address of an unnamed block taken by an earlier function or a global).
// The first WriteTo must write exactly the text String() returns afterwards,
// for a non-failing writer and for writers failing at every offset.
func c19APIFirstWriteTo(r *fw.Rec) {
	build := func(withGlobal, edited, withMD bool) *ir.Module {
		m := ir.NewModule()
		user := m.NewFunc("user", types.I8Ptr)
		later := m.NewFunc("later", types.I32, ir.NewParam("", types.I32))
		entry := later.NewBlock("")
		v := entry.NewAdd(later.Params[0], constant.NewInt(types.I32, 1))
		target := later.NewBlock("")
		entry.NewBr(target)
		target.NewRet(v)
		user.NewBlock("").NewRet(constant.NewBlockAddress(later, target))
		var slot *ir.Global
		if withGlobal {
			slot = m.NewGlobalDef("slot", constant.NewBlockAddress(later, target))
		}
		if withMD {
			// metadata definitions the printer is left to number (ID -1), referred to
			// from what is printed before the metadata section
			md := &metadata.Tuple{MetadataID: -1, Fields: []metadata.Field{&metadata.String{Value: "unnumbered"}}}
			md2 := &metadata.Tuple{MetadataID: -1, Fields: []metadata.Field{md}}
			m.MetadataDefs = append(m.MetadataDefs, md, md2)
			v.Metadata = append(v.Metadata, &metadata.Attachment{Name: "note", Node: md2})
			later.Metadata = append(later.Metadata, &metadata.Attachment{Name: "note", Node: md})
			if slot != nil {
				slot.Metadata = append(slot.Metadata, &metadata.Attachment{Name: "note", Node: md})
			}
		}
		if edited {
			_ = m.String()
			entry.Insts = append([]ir.Instruction{ir.NewMul(later.Params[0], later.Params[0])}, entry.Insts...)
		}
		return m
	}
	for _, withGlobal := range []bool{false, true} {
		for _, em := range []int{0, 1, 2, 3} {
			edited, withMD := em&1 != 0, em&2 != 0
			id := fmt.Sprintf("api/first-writeto/global=%v/printed-then-edited=%v/unnumbered-metadata=%v", withGlobal, edited, withMD)
			ref := build(withGlobal, edited, withMD)
			cw := &chunkWriter{}
			var n int64
			var werr error
			if p, msg, _ := fw.Guard(func() { n, werr = ref.WriteTo(cw) }); p {
				r.Violatef("writeto-panic/"+id, "", "WriteTo panicked: %s", msg)
				continue
			}
			T, _ := printGuard(ref)
			r.Eval(1)
			if werr != nil || n != int64(len(cw.got)) || string(cw.got) != T {
				r.Violate(fw.Violation{Key: "first-writeto-differs-from-string/" + id, What: "the first WriteTo wrote something else than String() returns afterwards: " + firstDiffLines(T, string(cw.got)), Expected: T, Observed: string(cw.got)})
				continue
			}
			bad := false
			for k := 0; k <= len(T) && !bad; k++ {
				m := build(withGlobal, edited, withMD)
				w := &faultWriter{limit: k}
				var n int64
				var werr error
				var dst io.Writer = w
				if k%2 == 1 {
					dst = richWriter{w} // every other offset: a writer that also has WriteString, WriteByte, ReadFrom
				}
				if p, msg, _ := fw.Guard(func() { n, werr = m.WriteTo(dst) }); p {
					r.Violatef("writeto-panic/"+id, "", "WriteTo panicked with a writer failing after %d bytes: %s", k, msg)
					bad = true
					break
				}
				r.Eval(1)
				if n != int64(len(w.got)) || len(w.got) != min(k, len(T)) || string(w.got) != T[:len(w.got)] || (k < len(T) && werr != w.firstErr) {
					r.Violate(fw.Violation{Key: "faulty-writer/first-print/" + id, What: fmt.Sprintf("first WriteTo into a writer failing after %d bytes: n=%d err=%v, %d bytes delivered, prefix of String(): %v", k, n, werr, len(w.got), string(w.got) == T[:min(len(w.got), len(T))]), Expected: T, Observed: string(w.got)})
					bad = true
				}
			}
			if !bad {
				r.Nontrivial(id)
				r.Tally("first_writeto", "api:"+id)
			}
		}
	}
}

func runC19(r *fw.Rec, s corpus.Source) {
	text, err := s.Text()
	if err != nil {
		r.Inconclusive("source unavailable: " + firstLine(err.Error()))
		return
	}
	m, perr, pmsg := parseGuard(s.ID, text)
	if pmsg != "" || perr != nil || m == nil {
		r.Inconclusive("input not accepted by the parser (not this property's concern)")
		return
	}
	T, ppanic := printGuard(m)
	if ppanic != "" {
		r.Inconclusive("String() panics (reported under C01/C08)")
		return
	}
	L := len(T)
	dig := fw.ShortHash(T)
	// non-failing writer
	cw := &chunkWriter{}
	var n int64
	var werr error
	if p, msg, _ := fw.Guard(func() { n, werr = m.WriteTo(cw) }); p {
		r.Violatef("writeto-panic/"+s.ID, text, "WriteTo panicked with a writer that never fails: %s", msg)
		return
	}
	r.Eval(1)
	if werr != nil || n != int64(L) || string(cw.got) != T {
		r.Violate(fw.Violation{Key: "nofail-mismatch/" + s.ID, Input: text,
			What:     fmt.Sprintf("non-failing writer: n=%d err=%v len(String())=%d bytes-equal=%v", n, werr, L, string(cw.got) == T),
			Expected: T, Observed: string(cw.got)})
		return
	}
	r.TallyN("writer_calls_nonfailing", "total", cw.calls)
	// the first WriteTo of a never-printed module (a second parse of the same
	// text): what it writes is what String() returns afterwards
	if m2, perr2, pmsg2 := parseGuard(s.ID, text); pmsg2 == "" && perr2 == nil && m2 != nil {
		cw2 := &chunkWriter{}
		var n2 int64
		var werr2 error
		if p, msg, _ := fw.Guard(func() { n2, werr2 = m2.WriteTo(cw2) }); p {
			r.Violatef("writeto-panic/first-print/"+s.ID, text, "the first WriteTo of a never-printed module panicked: %s", msg)
			return
		}
		T2, _ := printGuard(m2)
		r.Eval(1)
		if werr2 != nil || n2 != int64(len(cw2.got)) || string(cw2.got) != T2 {
			r.Violate(fw.Violation{Key: "first-writeto-differs-from-string/" + s.ID, Input: text,
				What:     fmt.Sprintf("the first WriteTo of a never-printed module wrote %d bytes (n=%d, err=%v) that are not the String() of the module: %s", len(cw2.got), n2, werr2, firstDiffLines(T2, string(cw2.got))),
				Expected: T2, Observed: string(cw2.got)})
			return
		}
		r.Tally("first_writeto", "equals-string")
	}
	// offsets
	var offs []int
	if L <= 6000 {
		for k := 0; k <= L; k++ {
			offs = append(offs, k)
		}
	} else {
		rng := r.Ctx().Rand("offs/" + s.ID)
		seen := map[int]bool{}
		for _, k := range []int{0, 1, 2, L - 2, L - 1, L} {
			if !seen[k] {
				seen[k] = true
				offs = append(offs, k)
			}
		}
		// line starts are where a new Fprint begins: include some just before/after
		idx := 0
		for cnt := 0; cnt < 100; cnt++ {
			j := strings.IndexByte(T[idx:], '\n')
			if j < 0 {
				break
			}
			idx += j + 1
			for _, k := range []int{idx - 1, idx, idx + 1} {
				if k >= 0 && k <= L && !seen[k] {
					seen[k] = true
					offs = append(offs, k)
				}
			}
			idx += rng.Intn(L/100 + 1)
			if idx >= L {
				break
			}
		}
		for len(offs) < 400 {
			k := rng.Intn(L + 1)
			if !seen[k] {
				seen[k] = true
				offs = append(offs, k)
			}
		}
	}
	nontriv := 0
	// errors a real destination gives (the reader of a pipe went away, a closed
	// file, end of medium): reported like any other error, at a sample of offsets
	osErrs := map[string]error{
		"closedpipe":    io.ErrClosedPipe,
		"epipe":         &os.PathError{Op: "write", Path: "|1", Err: syscall.EPIPE},
		"syscall-epipe": syscall.EPIPE,
		"eof":           io.EOF,
		"closed":        &os.PathError{Op: "write", Path: "out.ll", Err: os.ErrClosed},
		"enospc":        &os.PathError{Op: "write", Path: "out.ll", Err: syscall.ENOSPC},
		// errors that call themselves temporary or a timeout (a deadline on a network
		// connection, EAGAIN on a non-blocking descriptor): errors all the same
		"timeout":   tempErr{"i/o timeout", true, true},
		"temporary": tempErr{"resource temporarily unavailable", true, false},
		"eagain":    syscall.EAGAIN,
		"eintr":     &os.PathError{Op: "write", Path: "out.ll", Err: syscall.EINTR},
		// errors whose dynamic type cannot be compared with == (a list of errors as
		// go/scanner.ErrorList or a multi-error, a struct carrying a slice): a printer
		// that compares the error it is handed panics instead of reporting it
		"errlist":      listErr{"write failed", "disk detached"},
		"uncomparable": detailErr{msg: "write failed", detail: []string{"sector 7"}},
	}
	kinds := []string{"sentinel", "shortwrite", "fullcount", "stringwriter", "closedpipe", "epipe", "syscall-epipe", "eof", "closed", "enospc", "timeout", "temporary", "eagain", "eintr", "errlist", "uncomparable"}
	for _, kind := range kinds {
		short := kind == "shortwrite"
		koffs := offs
		if osErrs[kind] != nil && len(koffs) > 24 {
			// every 1/24th offset plus both ends
			var sub []int
			for i := 0; i < 24; i++ {
				sub = append(sub, offs[i*len(offs)/24])
			}
			koffs = append(sub, offs[len(offs)-1])
		}
		for _, k := range koffs {
			w := &faultWriter{limit: k, short: short, full: kind == "fullcount", err: osErrs[kind]}
			var n int64
			var werr error
			var dst io.Writer = w
			if kind == "stringwriter" {
				dst = richWriter{w}
			}
			p, msg, _, hung, witness := fw.GuardLive(func() { n, werr = m.WriteTo(dst) })
			if hung {
				// a call that waits for a lock nobody can release never reports (n, err)
				r.Violate(fw.Violation{Key: fmt.Sprintf("writeto-never-returns/%s/%s", kind, s.ID), Input: text,
					What:     fmt.Sprintf("WriteTo to a writer failing (%s) after k=%d bytes never returns: the call waits inside llir/llvm for another goroutine (a lock, a channel or a wait group) and no goroutine inside the library is able to run (the module was written to failing writers before)", kind, k),
					Observed: witness})
				return
			}
			if p {
				r.Violatef(fmt.Sprintf("writeto-panic/%s/k=%d", s.ID, k), text, "WriteTo panicked with a writer failing after %d bytes: %s", k, msg)
				return
			}
			r.Eval(1)
			if k > 0 && k < L {
				nontriv++
			}
			bad := ""
			switch {
			case n != int64(len(w.got)):
				bad = fmt.Sprintf("returned n=%d but the writer accepted %d bytes", n, len(w.got))
			case len(w.got) > L || string(w.got) != T[:len(w.got)] || (kind != "fullcount" && len(w.got) != min(k, L)) || len(w.got) < min(k, L):
				bad = "bytes delivered are not the prefix of String() the writer accepted"
			case k < L && !sameErr(werr, w.firstErr):
				bad = fmt.Sprintf("returned err=%v, want the writer's first error %v", werr, w.firstErr)
			case k < L && !w.failed:
				bad = "writer with limit k<len never saw the overflowing write"
			case k >= L && (werr != nil || w.failed):
				bad = fmt.Sprintf("writer with room for everything: err=%v", werr)
			case w.afterCalls > 0:
				bad = fmt.Sprintf("%d Write calls carrying data after the first failure", w.afterCalls)
			}
			if bad != "" {
				r.Violate(fw.Violation{Key: fmt.Sprintf("faulty-writer/%s/%s", kind, s.ID), Input: text,
					What:     fmt.Sprintf("writer failing (%s) after k=%d of %d bytes: %s", kind, k, L, bad),
					Expected: fmt.Sprintf("n=%d err=%v bytes=T[:%d], no write after failure", min(k, L), w.firstErr, min(k, L)),
					Observed: fmt.Sprintf("n=%d err=%v delivered=%d afterCalls=%d", n, werr, len(w.got), w.afterCalls)})
				return
			}
		}
	}
	// a writer that takes fewer bytes than it was given and reports no error (it
	// breaks the io.Writer contract; io.Copy, bufio and bytes.Buffer.WriteTo answer
	// it with io.ErrShortWrite): either the rest is written again, so that
	// everything arrives, or the write stops there with io.ErrShortWrite; bytes may
	// not go missing in the middle of what the writer received
	for _, k := range offs {
		if k >= L {
			continue
		}
		w := &quietShortWriter{limit: k}
		var n int64
		var werr error
		if p, msg, _ := fw.Guard(func() { n, werr = m.WriteTo(w) }); p {
			r.Violatef(fmt.Sprintf("writeto-panic/%s/short-without-error/k=%d", s.ID, k), text, "WriteTo panicked with a writer that takes only %d bytes of one chunk without an error: %s", k, msg)
			return
		}
		r.Eval(1)
		all := string(w.got) + string(w.after)
		switch {
		case werr == nil && all == T && n == int64(L):
			// the library wrote the rest again
		case errors.Is(werr, io.ErrShortWrite) && len(w.after) == 0 && string(w.got) == T[:len(w.got)] && n == int64(len(w.got)):
			// stopped at the short write
		default:
			r.Violate(fw.Violation{Key: "faulty-writer/short-without-error/" + s.ID, Input: text,
				What:     fmt.Sprintf("a writer that takes only part of one chunk (up to byte %d of %d) without returning an error: WriteTo returned n=%d err=%v, the writer received %d bytes before and %d bytes after the short write, and what it received is a prefix of String(): %v", k, L, n, werr, len(w.got), len(w.after), strings.HasPrefix(T, all)),
				Expected: "either all of String() (the rest written again) or a stop at the short write with io.ErrShortWrite",
				Observed: fw.Trunc(all, 400)})
			return
		}
	}
	r.TallyN("offsets", "short-write-without-error", len(offs))
	r.NontrivialN("c19/"+dig, nontriv*1)
	r.Tally("modules", "checked")
	r.TallyN("offsets", "checked", 4*len(offs)+12*min(len(offs), 25))
	if L <= 6000 {
		r.Tally("modules", "all_offsets_enumerated")
	}
	r.Sample(map[string]interface{}{"module": s.ID, "len": L, "offsets_tried": len(offs), "kinds": kinds, "head": fw.Trunc(T, 120)})
}

// recFile is an *os.File that records what the operating system accepted and
// the first error it returned (it keeps the optional methods of *os.File that
// a printer may look for: WriteString).
type recFile struct {
	f        *os.File
	accepted int64
	firstErr error
	after    int
}

func (w *recFile) note(n int, err error) {
	if w.firstErr != nil && n > 0 {
		w.after++
	}
	w.accepted += int64(n)
	if err != nil && w.firstErr == nil {
		w.firstErr = err
	}
}

func (w *recFile) Write(p []byte) (int, error) {
	n, err := w.f.Write(p)
	w.note(n, err)
	return n, err
}

func (w *recFile) WriteString(s string) (int, error) {
	n, err := w.f.WriteString(s)
	w.note(n, err)
	return n, err
}

// c19RealDestinations writes modules to destinations of the operating system
// that fail by themselves: /dev/full (no space), a pipe whose reader goes away
// after k bytes, a file that was closed, a read-only descriptor. WriteTo must
// report the bytes the descriptor accepted and the error it gave first
// (identity), and write nothing after it. Which byte the failure falls on is
// the kernel's business (pipe buffers) and takes no part in the verdict.
func c19RealDestinations(r *fw.Rec) {
	srcs := baseSources()
	n := 0
	for _, s := range srcs {
		if n >= r.Ctx().Pick(12, 120) {
			break
		}
		text, err := s.Text()
		if err != nil {
			continue
		}
		m, perr, pmsg := parseGuard(s.ID, text)
		if perr != nil || pmsg != "" || m == nil {
			continue
		}
		T, pp := printGuard(m)
		if pp != "" || len(T) < 64 {
			continue
		}
		n++
		judge := func(kind string, w *recFile, got int64, werr error, mustFail bool) {
			r.Eval(1)
			bad := ""
			switch {
			case got != w.accepted:
				bad = fmt.Sprintf("returned n=%d but the descriptor accepted %d bytes", got, w.accepted)
			case werr != w.firstErr:
				bad = fmt.Sprintf("returned err=%v, the descriptor's first error was %v", werr, w.firstErr)
			case mustFail && werr == nil:
				bad = "no error reported although the destination cannot take the module"
			case w.after > 0:
				bad = fmt.Sprintf("%d writes delivered bytes after the first failure", w.after)
			}
			if bad != "" {
				r.Violate(fw.Violation{Key: "real-destination/" + kind + "/" + s.ID, Input: text, What: kind + ": " + bad})
				return
			}
			r.Tally("real-destinations", kind+":ok")
			r.Nontrivial("real/" + kind + "/" + s.ID)
		}
		// /dev/full
		if f, err := os.OpenFile("/dev/full", os.O_WRONLY, 0); err == nil {
			w := &recFile{f: f}
			var got int64
			var werr error
			fw.Guard(func() { got, werr = m.WriteTo(w) })
			f.Close()
			judge("dev-full", w, got, werr, true)
		}
		// a pipe whose reader reads k bytes and goes away
		for _, k := range []int{0, 1, len(T) / 2} {
			pr, pw, err := os.Pipe()
			if err != nil {
				break
			}
			done := make(chan struct{})
			go func() {
				buf := make([]byte, 1)
				for i := 0; i < k; i++ {
					if _, err := pr.Read(buf); err != nil {
						break
					}
				}
				pr.Close()
				close(done)
			}()
			if k == 0 {
				<-done // reader gone before the first byte
			}
			w := &recFile{f: pw}
			var got int64
			var werr error
			// the module is written often enough to overrun any pipe buffer
			fw.Guard(func() {
				for rep := 0; rep < 1+(1<<20)/len(T) && werr == nil; rep++ {
					var g int64
					g, werr = m.WriteTo(w)
					got += g
				}
			})
			<-done
			pw.Close()
			judge(fmt.Sprintf("pipe-reader-gone-after-%s", map[int]string{0: "0", 1: "1", len(T) / 2: "half"}[k]), w, got, werr, true)
		}
		// a closed file
		if f, err := os.CreateTemp(r.Ctx().Scratch, "c19closed"); err == nil {
			f.Close()
			w := &recFile{f: f}
			var got int64
			var werr error
			fw.Guard(func() { got, werr = m.WriteTo(w) })
			os.Remove(f.Name())
			judge("closed-file", w, got, werr, true)
		}
		// a file that takes everything
		if f, err := os.CreateTemp(r.Ctx().Scratch, "c19ok"); err == nil {
			w := &recFile{f: f}
			var got int64
			var werr error
			fw.Guard(func() { got, werr = m.WriteTo(w) })
			f.Close()
			b, _ := os.ReadFile(f.Name())
			os.Remove(f.Name())
			judge("regular-file", w, got, werr, false)
			if string(b) != T {
				r.Violate(fw.Violation{Key: "real-destination/regular-file-content/" + s.ID, Input: text, What: "the file written by WriteTo differs from String(): " + firstDiffLines(T, string(b))})
			}
		}
	}
}

// listErr is an error whose dynamic type is a slice (as go/scanner.ErrorList).
type listErr []string

func (e listErr) Error() string { return strings.Join(e, "; ") }

// detailErr is a struct error that is not comparable.
type detailErr struct {
	msg    string
	detail []string
}

func (e detailErr) Error() string { return e.msg }

// sameErr is error identity that does not panic on uncomparable dynamic types.
func sameErr(a, b error) bool {
	if a == nil || b == nil {
		return a == nil && b == nil
	}
	ta := reflect.TypeOf(a)
	if ta != reflect.TypeOf(b) {
		return false
	}
	if ta.Comparable() {
		return a == b
	}
	va, vb := reflect.ValueOf(a), reflect.ValueOf(b)
	if va.Kind() == reflect.Slice {
		return va.Len() == vb.Len() && va.Pointer() == vb.Pointer()
	}
	return reflect.DeepEqual(a, b)
}

// tempErr is an error with the Temporary and Timeout methods of net.Error.
type tempErr struct {
	msg       string
	temporary bool
	timeout   bool
}

func (e tempErr) Error() string   { return e.msg }
func (e tempErr) Temporary() bool { return e.temporary }
func (e tempErr) Timeout() bool   { return e.timeout }
