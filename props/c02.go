package props

import (
	"fmt"
	"verif/internal/llvmref"

	"verif/internal/corpus"
	"verif/internal/fw"
	"verif/internal/graph"
)

func init() {
	fw.Register(&fw.Check{
		ID:    "C02",
		Level: "exploration",
		Rule: "inputs = atom catalogue, /repo testdata, llvm-stress programs, generated modules and, for each of them, W6 respellings (hex integers, unsigned-decimal spellings of negative integers, hex floats, redundantly quoted names, comments/blank lines, shuffled definitions); for every input x the parser accepts: y=print(parse x) must be accepted, print(parse y) must equal y byte for byte, and the object graphs of parse(x) and parse(y) must serialise identically (identity-bearing objects in bijection, the rest by value). " +
			"llir-only: 40 hand-written inputs LLVM 14 rejects and the parser may accept (attribute-group spelling of the alignment in a function header, out-of-range and inexact decimal floats, hexadecimal doubles that are not values of half/float, operand or callee type text disagreeing with the definition, a named void call, out-of-range integer literals, repeated switch cases ...) go through the same three comparisons: the property quantifies over every input the parser accepts. " +
			"non-trivial = an accepted input whose printed form differs from the input text (a normalisation happened); distinct by digest of x",
		Gen:           genC02,
		MinNontrivial: 100,
		Assumptions:   []string{"structural identity is judged by internal/graph.Serialize: mutexes and successor caches skipped, nil and empty slices alike, big.Float by value"},
		Exhaustive:    func(string) bool { return false },
	})
}

// inputSources is the shared pool of parser inputs for the pure-Go monitors.
func inputSources(ctx *fw.Ctx, nStressQuick, nStressThorough int) []corpus.Source {
	srcs := baseSources()
	srcs = append(srcs, corpus.StressSources(ctx.Rand("stress"), ctx.Pick(nStressQuick, nStressThorough), 10, 300)...)
	srcs = append(srcs, mgenSources(ctx, ctx.Pick(500, 30000))...)
	srcs = append(srcs, corpus.ClangSources(ctx.Thorough())...)
	return srcs
}

func genC02(ctx *fw.Ctx) []fw.Case {
	var cases []fw.Case
	srcs := inputSources(ctx, 100, 1500)
	srcs = append(srcs, tortureSources(ctx, ctx.Pick(100, 2000))...)
	for _, s := range srcs {
		s := s
		cases = append(cases, fw.Case{ID: s.ID, Run: func(r *fw.Rec) { c02Source(r, s) }})
	}
	cases = append(cases, fw.Case{ID: "llir-only", Run: c02LlirOnly})
	cases = append(cases, fw.Case{ID: "handwritten", Run: c02Handwritten})
	return cases
}

// c02LlirOnly feeds inputs that LLVM 14 rejects and the library's parser
// accepts: the property quantifies over every input the parser accepts, valid
// for LLVM or not. (The corpus and its respellings are LLVM-valid.)
func c02LlirOnly(r *fw.Rec) {
	inputs := map[string]string{
		// attribute-group spelling of the alignment in a function header
		"header-align-pair":      "define void @f() align=8 section \"s\" {\n  ret void\n}\n",
		"global-align-pair":      "@g = global i32 0 align=8\n",
		"call-site-align-pair":   "declare void @g()\ndefine void @f() {\n  call void @g() align=8\n  ret void\n}\n",
		"header-alignstack-pair": "define void @f() alignstack=8 {\n  ret void\n}\n",
		// decimal literals outside the range / precision of the type
		"half-decimal-overflow":  "@i = global half 70000.0\n",
		"half-decimal-inexact":   "@j = global half 0.1\n",
		"float-decimal-inexact":  "@k = global float 0.1\n",
		"float-decimal-overflow": "@l = global float 1.0e39\n",
		// 16-digit hexadecimal doubles that are not values of the kind, decimals in the subnormal range of the kind
		"half-hex-double-below-range":  "@m = global half 0x3E60000000000000\n",
		"half-hex-double-inexact":      "@m = global half 0x3FF0040000000000\n",
		"float-hex-double-above-range": "@n = global float 0x47F0000000000000\n",
		"float-hex-double-inexact":     "@n = global float 0x3FF0000010000000\n",
		"float-decimal-subnormal":      "@o = global float 1.0e-40\n",
		"half-decimal-subnormal":       "@p = global half 0.00000001\n",
		// the type written in front of an operand disagrees with its definition
		"operand-type-text-disagrees":                "define i32 @f(i32* %p) {\n  %r = atomicrmw add i64* %p, i64 1 seq_cst\n  %s = add i64 %r, 1\n  ret i64 %s\n}\n",
		"callee-type-text-disagrees":                 "declare i32 @g()\ndefine i64 @f() {\n  %r = call i64 @g()\n  ret i64 %r\n}\n",
		"variadic-callee-type-text-disagrees":        "declare i32 @printf(i8*, ...)\ndefine i64 @f(i8* %s) {\n  %r = call i64 (i8*, ...) @printf(i8* %s)\n  ret i64 %r\n}\n",
		"variadic-invoke-callee-type-text-disagrees": "declare i32 @pf(i8*, ...)\ndefine i64 @f(i8* %s) personality i8* null {\n  %r = invoke i64 (i8*, ...) @pf(i8* %s) to label %ok unwind label %bad\nok:\n  ret i64 %r\nbad:\n  %l = landingpad { i8*, i32 } cleanup\n  ret i64 0\n}\n",
		"variadic-callee-param-text-disagrees":       "declare i32 @printf(i8*, ...)\ndefine i32 @f(i16* %s) {\n  %r = call i32 (i16*, ...) @printf(i16* %s)\n  ret i32 %r\n}\n",
		// a full function type written in a call that disagrees with the arguments
		"call-signature-disagrees-with-argument-type":  "declare void @g(i64)\ndefine void @f() {\n  call void (i64) @g(i32 1)\n  ret void\n}\n",
		"call-signature-disagrees-with-argument-count": "declare void @g(i64)\ndefine void @f() {\n  call void (i64) @g()\n  ret void\n}\n",
		"call-signature-disagrees-local-callee":        "define void @f(void (i64)* %fp) {\n  call void (i64) %fp(i32 1)\n  ret void\n}\n",
		"invoke-signature-disagrees-with-argument":     "declare i32 @g(i64)\ndefine i32 @f() personality i8* null {\n  %r = invoke i32 (i64) @g(i32 1) to label %ok unwind label %bad\nok:\n  ret i32 %r\nbad:\n  %l = landingpad { i8*, i32 } cleanup\n  ret i32 0\n}\n",
		"call-signature-disagrees-inline-asm":          "define void @f() {\n  call void (i64) asm \"nop\", \"r\"(i32 1)\n  ret void\n}\n",
		// the type written in front of a global variable disagrees with its definition
		"global-operand-type-text-disagrees":         "@g = addrspace(1) global [2 x i32] zeroinitializer\ndefine i32* @f() {\n  %p = getelementptr [2 x i32], [2 x i32]* @g, i32 0, i32 1\n  ret i32* %p\n}\n",
		"global-operand-type-text-disagrees-in-load": "@g = global i64 0\ndefine i32 @f() {\n  %v = load i32, i32* @g\n  ret i32 %v\n}\n",
		"global-operand-type-text-disagrees-in-init": "@g = global i64 0\n@p = global i32* @g\n",
		// specialised metadata nodes without a field LLVM requires
		"md-required-field-missing":   "!nm = !{!0, !1, !2, !3, !4, !5, !6, !7, !8, !9, !10, !11}\n!0 = !DILocation(line: 1)\n!1 = !DICommonBlock(name: \"a\")\n!2 = !DILexicalBlock(line: 1)\n!3 = !DILexicalBlockFile(discriminator: 1)\n!4 = !DINamespace(name: \"n\")\n!5 = !DIModule(name: \"m\")\n!6 = !DILocalVariable(name: \"x\")\n!7 = !DILabel(name: \"l\", line: 1)\n!8 = !DIImportedEntity(tag: DW_TAG_imported_module)\n!9 = !DIDerivedType(tag: DW_TAG_pointer_type, size: 64)\n!10 = !DITemplateTypeParameter(name: \"T\")\n!11 = !DITemplateValueParameter(name: \"v\")\n",
		"md-required-field-missing-2": "!nm = !{!0, !1, !2, !3}\n!0 = !DIGlobalVariableExpression(expr: !DIExpression())\n!1 = !DISubroutineType()\n!2 = !DIMacroFile(line: 1)\n!3 = distinct !DICompileUnit(language: DW_LANG_C99, emissionKind: FullDebug)\n",
		// an alias whose typed aliasee disagrees with the content type of the alias
		"alias-typed-cast-aliasee-disagrees":   "@g = global i16 0\n@a = alias i8, i32* bitcast (i16* @g to i32*)\n",
		"alias-typed-gep-aliasee-disagrees":    "@g = global [2 x i16] zeroinitializer\n@a = alias i8, i16* getelementptr ([2 x i16], [2 x i16]* @g, i32 0, i32 1)\n",
		"alias-typed-global-aliasee-disagrees": "@g = global i16 0\n@a = alias i8, i16* @g\n",
		"ifunc-typed-resolver-disagrees":       "define i8* @r() {\n  ret i8* null\n}\n@i = ifunc void (), i8* ()* @r\n",
		// a named void call
		"named-void-call": "declare void @g()\ndefine void @f() {\n  %x = call void @g()\n  ret void\n}\n",
		// parameter attributes LLVM wants on pointers only
		"byval-on-integer": "declare void @g(i32 byval(i32))\n",
		// linkage that needs a definition
		"external-definition-spelled": "@g = external global i32 0\n",
		// duplicate attributes in one group
		"attrgroup-duplicate-attribute": "define void @f() #0 {\n  ret void\n}\nattributes #0 = { nounwind nounwind }\n",
		// attribute arguments beyond 32 bits
		"allocsize-beyond-63-bits":    "define void @f() allocsize(18446744073709551611) {\n  ret void\n}\n",
		"vscale-range-beyond-63-bits": "define void @f() vscale_range(18446744073709551611, 18446744073709551612) {\n  ret void\n}\n",
		"allocsize-beyond-32-bits":    "declare void @f() allocsize(4294967296, 4294967297)\n",
		// integer literal wider than its type
		"int-literal-out-of-range":  "@g = global i8 300\n",
		"bool-literal-out-of-range": "@g = global i1 2\n",
		// a switch with a repeated case value
		"switch-duplicate-case": "define void @f(i32 %x) {\n  switch i32 %x, label %d [ i32 1, label %d\n i32 1, label %d ]\nd:\n  ret void\n}\n",
	}
	for _, name := range fw.SortedKeys(inputs) {
		x := inputs[name]
		if ok, _, err := llvmref.Accepts(x); err != nil {
			r.Inconclusive("llvm tool failure")
			continue
		} else if ok {
			r.Note("llir-only input " + name + " is accepted by LLVM 14 (covered by the corpus checks instead)")
		}
		c02One(r, "llir-only/"+name, "original", x)
	}
}

func c02Source(r *fw.Rec, s corpus.Source) {
	text, err := s.Text()
	if err != nil {
		r.Inconclusive("source unavailable: " + firstLine(err.Error()))
		return
	}
	c02One(r, s.ID, "original", text)
	rng := r.Ctx().Rand("respell/" + s.ID)
	for name, t := range respellings(text, rng) {
		c02One(r, s.ID, name, t)
	}
}

func c02One(r *fw.Rec, id, variant, x string) {
	r.Eval(1)
	m1, perr, pmsg := parseGuard(id, x)
	if pmsg != "" {
		r.Tally("inputs", "parser-panic(C01/C05 business)")
		return
	}
	if perr != nil {
		r.Tally("inputs", "rejected")
		return
	}
	r.Tally("inputs", "accepted")
	r.Tally("variant", variant)
	y, pp := printGuard(m1)
	if pp != "" {
		r.Tally("inputs", "print-panic(C01/C08 business)")
		return
	}
	key := id + "/" + variant
	m2, perr2, pmsg2 := parseGuard(id, y)
	if pmsg2 != "" {
		r.Violate(fw.Violation{Key: "reparse-panic/" + key, Input: x, What: "parsing the printed output panics: " + firstLine(pmsg2), Observed: y})
		return
	}
	if perr2 != nil {
		r.Violate(fw.Violation{Key: "reparse-error/" + key, Input: x, What: "the printed output is not accepted by the parser: " + firstLine(perr2.Error()), Observed: y})
		return
	}
	y2, pp2 := printGuard(m2)
	if pp2 != "" {
		r.Violate(fw.Violation{Key: "reprint-panic/" + key, Input: x, What: "printing the re-parsed module panics: " + firstLine(pp2), Observed: y})
		return
	}
	if y2 != y {
		r.Violate(fw.Violation{Key: "not-fixpoint/" + key, Input: x, What: "print(parse(print(parse x))) differs from print(parse x): " + firstDiffLines(y, y2), Expected: y, Observed: y2})
		return
	}
	// structural identity of parse(x) and parse(y), both in their printed state:
	// the IDs of unnamed values are assigned lazily (declarations' parameters only
	// when printing), so both graphs are compared after that assignment has run.
	{
		sa := graph.Serialize(m1, graph.Options{})
		sb := graph.Serialize(m2, graph.Options{})
		if sa != sb {
			r.Violate(fw.Violation{Key: "structure/" + key, Input: x, What: "parse(x) and parse(print(parse x)) are not structurally identical: " + graph.FirstDiff(sa, sb), Observed: y})
			return
		}
	}
	if y != x {
		r.Nontrivial(x)
		r.Tally("normalisation", "output-differs-from-input")
	} else {
		r.Tally("normalisation", "input-already-canonical")
	}
	if variant == "original" {
		r.Sample(map[string]interface{}{"input": id, "variant": variant, "bytes_in": len(x), "bytes_out": len(y), "changed": y != x})
	}
}

func firstDiffLines(a, b string) string {
	la, lb := splitLines(a), splitLines(b)
	for i := 0; i < len(la) || i < len(lb); i++ {
		var x, y string
		if i < len(la) {
			x = la[i]
		}
		if i < len(lb) {
			y = lb[i]
		}
		if x != y {
			return fmt.Sprintf("line %d: %q vs %q", i+1, fw.Trunc(x, 200), fw.Trunc(y, 200))
		}
	}
	return "no difference"
}

func splitLines(s string) []string {
	var out []string
	start := 0
	for i := 0; i < len(s); i++ {
		if s[i] == '\n' {
			out = append(out, s[start:i])
			start = i + 1
		}
	}
	if start < len(s) {
		out = append(out, s[start:])
	}
	return out
}

// c02Handwritten holds LLVM-valid inputs that are kept out of the atom
// catalogue because every respelling of them would raise the same finding
// under another key; they go through the comparison once, as written.
func c02Handwritten(r *fw.Rec) {
	inputs := map[string]string{
		// a named non-struct type is an alias of its body: uses spelled with the name and with the body are mixed
		"named-int-alias-mixed-spellings": "%a = type i32\n\ndefine %a @foo(%a %x) {\n  %y = add i32 %x, 1\n  %z = add %a %y, 2\n  ret i32 %z\n}\n",
		// the same names, spelled consistently (a fixpoint)
		"named-int-alias-consistent-spellings": "%a = type i32\n\ndefine %a @foo(%a %x) {\n  %y = add %a %x, 1\n  %z = add %a %y, 2\n  ret %a %z\n}\n",
	}
	for _, name := range fw.SortedKeys(inputs) {
		x := inputs[name]
		if ok, _, err := llvmref.Accepts(x); err != nil || !ok {
			r.Inconclusive("handwritten input not valid for LLVM: " + name)
			continue
		}
		c02One(r, "handwritten/"+name, "original", x)
	}
}
