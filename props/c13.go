package props

import (
	"fmt"
	"math/rand"
	"reflect"
	"runtime"
	"strings"
	"sync"
	"sync/atomic"
	"time"

	"github.com/llir/llvm/ir"
	"github.com/llir/llvm/ir/constant"
	"github.com/llir/llvm/ir/enum"
	"github.com/llir/llvm/ir/metadata"
	"github.com/llir/llvm/ir/types"
	"github.com/llir/llvm/ir/value"
	"github.com/llir/llvm/verifhook"

	"verif/internal/corpus"
	"verif/internal/fw"
)

func init() {
	fw.Register(&fw.Check{
		ID:           "C13",
		Level:        "exploration",
		Race:         true,
		FreshProcess: true,
		Rule: "built with -race. Each round takes one module (parsed from the corpus or constructed through the API, with unnamed globals, locals and unassigned metadata IDs), in never-printed or already-printed state, and lets N in {2,4,16} goroutines (GOMAXPROCS 2 or 16) start on a barrier and call String/WriteTo/Func.LLString/Block.LLString/Global.LLString/Type/Ident/String on it, while the Yield hooks inside AssignIDs/AssignGlobalIDs/AssignMetadataIDs/WriteTo/Func.LLString inject PRNG Gosched/sleeps; every returned text is compared with a separately built twin printed sequentially (in the fresh scenario only after the first concurrent round, which starts 16 whole-module printers at once: each case runs in its own process, so the first printing activity of the process is concurrent and process-level state initialised by a first print is not warmed up beforehand), and every race-detector report is a violation (de-duplicated by the pair of top llir/llvm frames). " +
			"Staged rounds (a delay injected at the hook inside AssignMetadataIDs): one goroutine holds the module lock in the metadata numbering pass of a never-printed module until all whole-module printers have started. In the scenarios whole and literalmod a goroutine may also run the numbering passes on their own (AssignMetadataIDs, AssignGlobalIDs, Func.AssignIDs: what WriteTo starts with, public, under the same locks) next to the printers. Every list of every module (definitions, functions, blocks, instructions, attachments) has three unused slots behind its end, as lists grown by append have, so a printer that appends to a list of the module writes into storage shared with the other printers; the constructed module uses a comdat that its ComdatDefs does not list. Scenario literalmod: the module itself is a struct literal (&ir.Module{}) holding unnamed globals, an unnamed function and ID-less metadata made by the constructors; never printed, whole-module printers only. " +
			"Scenario literal: a never-printed module whose function, globals, alias and constant expression are built as struct literals (empty Typ caches), whole-module printers only. " +
			"The constructed module also holds extended-precision constants (x86_fp80, fp128, ppc_fp128, half), a metadata list out of ID order, declarations without linkage and named struct-literal instructions used as typed operands. " +
			"non-trivial = a round in which at least two printers were inside a print call at the same time (witnessed by the harness' activity counter); distinct by (module, state, N, round)",
		Gen:           genC13,
		MinNontrivial: 50,
		Workers:       6,
		Assumptions: []string{"the concurrent operations are the printers and the Type/Ident/String queries printing performs; Succs() (which rewrites its cache field) is not among them",
			"the Go race detector only reports races on executions that actually interleave the two accesses; PRNG yields at the hook sites widen the set of interleavings but do not enumerate it"},
		Exhaustive: func(string) bool { return false },
	})
}

func genC13(ctx *fw.Ctx) []fw.Case {
	var srcs []corpus.Source
	for _, s := range baseSources() {
		id := s.ID
		if strings.Contains(id, "unnamed") || strings.Contains(id, "atom/md/") || strings.Contains(id, "inst/call") || strings.Contains(id, "term/") ||
			strings.Contains(id, "type/recursive") || strings.Contains(id, "global/alias") || strings.Contains(id, "const/float") || strings.Contains(id, "const/ppc") || strings.Contains(id, "repo/asm/testdata/inst_") {
			srcs = append(srcs, s)
		}
	}
	srcs = append(srcs, corpus.StressSources(ctx.Rand("stress"), ctx.Pick(4, 40), 20, 120)...)
	var cases []fw.Case
	rounds := ctx.Pick(9, 90)
	// Scenarios (first path element of the case id; race keys carry it):
	//  whole: every goroutine prints the whole module (String/WriteTo), from never-printed and already-printed states
	//  printed: the module has been printed once; all operations mixed
	//  fresh: never-printed module; whole-module printers mixed with per-function/per-global printers and queries
	for _, sc := range []string{"whole", "printed", "fresh"} {
		sc := sc
		for _, s := range srcs {
			s := s
			cases = append(cases, fw.Case{ID: sc + "/parsed/" + s.ID, Run: func(r *fw.Rec) { c13Parsed(r, sc, s, rounds) }})
		}
		for i := 0; i < ctx.Pick(6, 60); i++ {
			i := i
			cases = append(cases, fw.Case{ID: fmt.Sprintf("%s/constructed/%d", sc, i), Run: func(r *fw.Rec) { c13Constructed(r, sc, i, rounds) }})
		}
	}
	// literal: a never-printed module whose functions, globals, aliases and constant
	// expressions are built as struct literals (the documented alternative to the
	// New* constructors: Typ is nil until the first Type() call); whole-module printers only
	for i := 0; i < ctx.Pick(2, 8); i++ {
		i := i
		cases = append(cases, fw.Case{ID: fmt.Sprintf("literal/constructed/%d", i), Run: func(r *fw.Rec) {
			c13Rounds(r, "literal", fmt.Sprintf("literal/%d", i), "c13BuildLiteral()", c13BuildLiteral, rounds)
		}})
	}
	// literalmod: the module itself is a struct literal (&ir.Module{}, no NewModule), its
	// contents come from the constructors; never printed, whole-module printers only
	for i := 0; i < ctx.Pick(2, 8); i++ {
		i := i
		cases = append(cases, fw.Case{ID: fmt.Sprintf("literalmod/constructed/%d", i), Run: func(r *fw.Rec) {
			c13Rounds(r, "literalmod", fmt.Sprintf("literalmod/%d", i), "c13BuildLiteralModule()", c13BuildLiteralModule, rounds)
		}})
	}
	return cases
}

// c13BuildLiteralModule builds a module as a struct literal holding unnamed
// globals, an unnamed function and metadata definitions without IDs (all made by
// the constructors): everything the first print has to number.
func c13BuildLiteralModule() *ir.Module {
	m := &ir.Module{}
	g0 := ir.NewGlobalDef("", constant.NewInt(types.I32, 1))
	g1 := ir.NewGlobalDef("", g0)
	m.Globals = append(m.Globals, g0, g1)
	f := ir.NewFunc("", types.I32, ir.NewParam("", types.I32))
	b := f.NewBlock("")
	v := b.NewAdd(f.Params[0], constant.NewInt(types.I32, 2))
	b.NewRet(v)
	m.Funcs = append(m.Funcs, f)
	for i := 0; i < 3; i++ {
		t := &metadata.Tuple{MetadataID: -1, Fields: []metadata.Field{&metadata.String{Value: fmt.Sprintf("s%d", i)}}}
		if i > 0 {
			t.Fields = append(t.Fields, m.MetadataDefs[i-1])
		}
		m.MetadataDefs = append(m.MetadataDefs, t)
	}
	g0.Metadata = append(g0.Metadata, &metadata.Attachment{Name: "note", Node: m.MetadataDefs[2]})
	return m
}

// c13BuildLiteral builds a module from struct literals: the Typ caches of the
// function, the globals, the alias and the constant expression are empty.
func c13BuildLiteral() *ir.Module {
	m := ir.NewModule()
	f := &ir.Func{Sig: types.NewFunc(types.Void)}
	f.SetName("f")
	m.Funcs = append(m.Funcs, f)
	st := types.NewStruct(types.NewPointer(f.Sig), types.I32)
	sum := &constant.ExprAdd{X: constant.NewInt(types.I32, 1), Y: constant.NewInt(types.I32, 2)}
	g := &ir.Global{ContentType: st, Init: &constant.Struct{Typ: st, Fields: []constant.Constant{f, sum}}}
	g.SetName("g")
	h := &ir.Global{ContentType: types.NewPointer(st), Init: g}
	h.SetName("h")
	m.Globals = append(m.Globals, g, h)
	a := &ir.Alias{Aliasee: g}
	a.SetName("a")
	m.Aliases = append(m.Aliases, a)
	// named and unnamed instructions built as struct literals, used as typed
	// operands (the numbering pass fills their type caches under the function's lock)
	body := m.NewFunc("body", types.I32, ir.NewParam("x", types.I32))
	entry := body.NewBlock("entry")
	named := &ir.InstAdd{X: body.Params[0], Y: constant.NewInt(types.I32, 1)}
	named.SetName("s")
	unnamed := &ir.InstMul{X: named, Y: named}
	sel := &ir.InstSelect{Cond: constant.True, ValueTrue: unnamed, ValueFalse: named}
	sel.SetName("t")
	entry.Insts = append(entry.Insts, named, unnamed, sel)
	entry.NewRet(sel)
	return m
}

// c13Build constructs a module through the API with unnamed everything.
func c13Build(seed int64) *ir.Module {
	rng := rand.New(rand.NewSource(seed))
	m := ir.NewModule()
	i32 := types.I32
	g0 := m.NewGlobalDef("", constant.NewInt(i32, 1))
	m.NewGlobalDef("named", constant.NewInt(i32, 2))
	m.NewGlobalDef("", constant.NewInt(i32, 3))
	md0 := &metadata.Tuple{MetadataID: -1, Fields: []metadata.Field{&metadata.String{Value: "a"}}}
	md1 := &metadata.Tuple{MetadataID: -1, Fields: []metadata.Field{md0, constant.NewInt(i32, 7)}}
	md2 := &metadata.Tuple{MetadataID: 5, Fields: []metadata.Field{md1}}
	// (the list is not in the order of the IDs the definitions have or will get:
	// whatever orders definitions for printing must not touch the module's list)
	md3 := &metadata.Tuple{MetadataID: 9, Fields: []metadata.Field{md0}}
	md4 := &metadata.Tuple{MetadataID: 7, Fields: []metadata.Field{&metadata.String{Value: "b"}}}
	m.MetadataDefs = append(m.MetadataDefs, md3, md2, md0, md4, md1)
	// constants of the extended-precision kinds (their printing converts the value)
	// an array constant built up after its construction (the type is given in full,
	// the elements are appended one by one), nested in a struct constant
	grow := constant.NewArray(types.NewArray(3, i32), constant.NewInt(i32, 1), constant.NewInt(i32, 2))
	grow.Elems = append(grow.Elems, constant.NewInt(i32, 3))
	m.NewGlobalDef("grown", constant.NewStruct(types.NewStruct(types.NewArray(3, i32), i32), grow, constant.NewInt(i32, 4)))
	m.NewGlobalDef("x87", constant.NewFloat(types.X86_FP80, 1.5))
	m.NewGlobalDef("quad", constant.NewFloat(types.FP128, -2.25))
	m.NewGlobalDef("", constant.NewFloat(types.PPC_FP128, 3.0))
	m.NewGlobalDef("hlf", constant.NewFloat(types.Half, 0.333251953125))
	// declarations created without linkage (printed as external)
	m.NewGlobal("decl", i32)
	m.NewGlobal("", types.I8Ptr)
	m.NamedMetadataDefs["nm"] = &metadata.NamedDef{Name: "nm", Nodes: []metadata.Node{md2, md0}}
	// comdats: one listed in the module, one only used by a global (an unfinished
	// module: a print must not complete the module's list for its user)
	listed := &ir.ComdatDef{Name: "listed", Kind: enum.SelectionKindAny}
	unlisted := &ir.ComdatDef{Name: "unlisted", Kind: enum.SelectionKindLargest}
	m.ComdatDefs = append(m.ComdatDefs, listed)
	m.NewGlobalDef("in.listed", constant.NewInt(i32, 5)).Comdat = listed
	m.NewGlobalDef("in.unlisted", constant.NewInt(i32, 6)).Comdat = unlisted
	defer spareCapacity(m)
	nf := 2 + rng.Intn(3)
	for k := 0; k < nf; k++ {
		name := ""
		if rng.Intn(2) == 0 {
			name = fmt.Sprintf("fn%d", k)
		}
		f := m.NewFunc(name, i32, ir.NewParam("", i32), ir.NewParam("p", i32), ir.NewParam("", i32))
		entry := f.NewBlock("")
		var last value.Value = f.Params[0]
		for j := 0; j < 3+rng.Intn(6); j++ {
			a := entry.NewAdd(last, f.Params[rng.Intn(3)])
			if rng.Intn(3) == 0 {
				a.SetName(fmt.Sprintf("v%d", j))
			}
			a.Metadata = append(a.Metadata, &metadata.Attachment{Name: "tag", Node: md1})
			last = a
		}
		// integer widths that differ by multiples of 64 (and odd ones): whatever is
		// keyed by a width must keep them apart under concurrency
		z64 := entry.NewZExt(last, types.I64)
		z128 := entry.NewZExt(z64, types.I128)
		z256 := entry.NewSExt(z128, types.NewInt(256))
		t72 := entry.NewTrunc(z256, types.NewInt(72))
		t8 := entry.NewTrunc(t72, types.I8)
		z65 := entry.NewZExt(t8, types.NewInt(65))
		t1 := entry.NewTrunc(z65, types.I1)
		last = entry.NewSelect(t1, last, f.Params[1])
		ld := entry.NewLoad(i32, g0)
		// an alloca whose address space is set after construction (the only way
		// the API offers): its cached pointer type is recomputed on first use
		al := entry.NewAlloca(i32)
		al.AddrSpace = 5
		cast := entry.NewAddrSpaceCast(al, types.NewPointer(i32)) // (a constructor that does not ask for the operand's type)
		entry.NewStore(ld, cast)
		ld2 := entry.NewLoad(i32, cast)
		sum := entry.NewAdd(last, ld2)
		next := f.NewBlock("")
		entry.NewBr(next)
		ph := next.NewPhi(ir.NewIncoming(sum, entry))
		next.NewRet(ph)
	}
	return m
}

// spareCapacity gives every list of the module, of its functions and of their
// blocks three unused slots behind its end (as lists grown by append have): a
// printer that appends to a list of the module writes into storage it shares
// with every other printer, which the race detector then sees.
func spareCapacity(m *ir.Module) {
	grow := func(v reflect.Value) {
		v = v.Elem()
		for i := 0; i < v.NumField(); i++ {
			f := v.Field(i)
			if f.Kind() != reflect.Slice || !f.CanSet() || f.IsNil() {
				continue
			}
			n := reflect.MakeSlice(f.Type(), f.Len(), f.Len()+3)
			reflect.Copy(n, f)
			f.Set(n)
		}
	}
	grow(reflect.ValueOf(m))
	for _, f := range m.Funcs {
		grow(reflect.ValueOf(f))
		for _, b := range f.Blocks {
			grow(reflect.ValueOf(b))
		}
	}
	for _, g := range m.Globals {
		grow(reflect.ValueOf(g))
	}
}

type c13Stats struct {
	active    int32
	maxActive int32
	yields    int64
}

func c13Parsed(r *fw.Rec, sc string, s corpus.Source, rounds int) {
	text, err := s.Text()
	if err != nil {
		r.Inconclusive("source unavailable")
		return
	}
	mk := func() *ir.Module {
		m, perr, pmsg := parseGuard(s.ID, text)
		if pmsg != "" || perr != nil {
			return nil
		}
		spareCapacity(m)
		return m
	}
	if mk() == nil {
		r.Tally("inputs", "not-accepted")
		return
	}
	c13Rounds(r, sc, "parsed/"+s.ID, text, mk, rounds)
}

func c13Constructed(r *fw.Rec, sc string, idx, rounds int) {
	seed := r.Ctx().Seed*1000 + int64(idx)
	c13Rounds(r, sc, fmt.Sprintf("constructed/%d", idx), fmt.Sprintf("c13Build(%d)", seed), func() *ir.Module { return c13Build(seed) }, rounds)
}

func c13Rounds(r *fw.Rec, sc, id, input string, mk func() *ir.Module, rounds int) {
	// Expected texts come from a separately built twin printed sequentially. In
	// the fresh scenario the twin is printed only after the first concurrent
	// round: every case runs in its own process, so the first printing activity
	// of the process is then the concurrent one (process-level state that the
	// first print initialises - memo tables, pools - is not warmed up by the
	// harness beforehand).
	//
	// Per-function / per-global expected texts. A per-object printer on a
	// never-printed module may be ordered before or after the first whole-module
	// print (which assigns global and metadata IDs), so two sequential texts are
	// legitimate: the lone call on a never-printed twin (A) and the lone call
	// after a module print (B). Anything else (e.g. a mix of both numberings) is
	// not the text of any sequential order.
	var expect string
	var expFuncs, expGlobals [][2]string
	haveExp := false
	computeExp := func() bool {
		twin := mk()
		var pp string
		expect, pp = printGuard(twin)
		if pp != "" {
			return false
		}
		for _, f := range twin.Funcs {
			expFuncs = append(expFuncs, [2]string{f.LLString(), ""})
		}
		for _, g := range twin.Globals {
			expGlobals = append(expGlobals, [2]string{g.LLString(), ""})
		}
		for i := range expFuncs {
			tw := mk()
			p, _, _ := fw.Guard(func() { expFuncs[i][1] = tw.Funcs[i].LLString() })
			if p {
				expFuncs[i][1] = expFuncs[i][0]
			}
		}
		for i := range expGlobals {
			tw := mk()
			expGlobals[i][1] = tw.Globals[i].LLString()
		}
		haveExp = true
		return true
	}
	if sc != "fresh" {
		if !computeExp() {
			r.Inconclusive("sequential print of the twin panics (C01/C08 business)")
			return
		}
	}
	rng := r.Ctx().Rand("c13/" + id)
	defer verifhook.SetYield(nil)
	for round := 0; round < rounds; round++ {
		n := []int{2, 4, 16}[round%3]
		procs := []int{16, 2}[(round/3)%2]
		preprinted := (round/2)%2 == 1
		switch sc {
		case "printed":
			preprinted = true
		case "fresh", "literal", "literalmod":
			preprinted = false
		}
		cold := !haveExp // first printing activity of this process: as many simultaneous whole-module printers as possible
		if cold {
			n, procs = 16, 16
		}
		old := runtime.GOMAXPROCS(procs)
		m := mk()
		if preprinted {
			_ = m.String()
		}
		st := &c13Stats{}
		var hookCtr uint64
		hseed := rng.Uint64()
		// staged rounds (injected delay at a hook): goroutine 0 runs only the metadata
		// numbering pass and is held inside it, under the module's lock, until every
		// other goroutine has started its whole-module print; nobody has numbered
		// the globals yet, so every printer has to wait for the lock and do it
		staged := (sc == "whole" || sc == "literalmod") && !preprinted && !cold && n > 2 && round%2 == 0
		inside := make(chan struct{})
		var insideOnce sync.Once
		var arrived int32
		verifhook.SetYield(func(site string) {
			if staged && site == "Module.AssignMetadataIDs" {
				first := false
				insideOnce.Do(func() { first = true; close(inside) })
				if first {
					// hold the lock until the printers have been released and had time to reach it
					for i := 0; i < 200 && atomic.LoadInt32(&arrived) < int32(n-1); i++ {
						time.Sleep(50 * time.Microsecond)
					}
					time.Sleep(300 * time.Microsecond)
				}
			}
			c := atomic.AddUint64(&hookCtr, 1)
			atomic.AddInt64(&st.yields, 1)
			x := (c*0x9E3779B97F4A7C15 + hseed) >> 33
			switch x % 8 {
			case 0, 1, 2:
				runtime.Gosched()
			case 3:
				time.Sleep(time.Duration(x%50) * time.Microsecond)
			case 4:
				runtime.Gosched()
				runtime.Gosched()
			}
		})
		var wg sync.WaitGroup
		start := make(chan struct{})
		type res struct {
			what  string
			kind  string // module | func | global | none
			idx   int
			got   string
			want  string
			want2 string
			pmsg  string
		}
		results := make([][]res, n)
		for gi := 0; gi < n; gi++ {
			wg.Add(1)
			grng := rand.New(rand.NewSource(int64(rng.Uint64())))
			go func(gi int, grng *rand.Rand) {
				defer wg.Done()
				<-start
				if staged && gi > 0 {
					<-inside
					atomic.AddInt32(&arrived, 1)
				}
				ops := 2 + grng.Intn(3)
				for k := 0; k < ops; k++ {
					var rs res
					if staged && gi == 0 && k == 0 {
						p, msg, _ := fw.Guard(func() {
							if err := m.AssignMetadataIDs(); err != nil {
								panic(err)
							}
						})
						insideOnce.Do(func() { close(inside) }) // a module without the hook site: release the others anyway
						rs = res{what: "staged: AssignMetadataIDs held under the lock while the printers start", kind: "none"}
						if p {
							rs.pmsg = "panic: " + msg
						}
						results[gi] = append(results[gi], rs)
						continue
					}
					a := atomic.AddInt32(&st.active, 1)
					for {
						mx := atomic.LoadInt32(&st.maxActive)
						if a <= mx || atomic.CompareAndSwapInt32(&st.maxActive, mx, a) {
							break
						}
					}
					p, msg, _ := fw.Guard(func() {
						choice := grng.Intn(10)
						if sc == "whole" || sc == "literal" || sc == "literalmod" {
							choice = choice % 5
						}
						// the numbering passes WriteTo starts with are public and take the same
						// locks: called on their own next to whole-module printers
						numbering := (sc == "whole" || sc == "literalmod") && (k > 0 || gi >= 2) && !cold && grng.Intn(3) == 0
						switch {
						case numbering:
							rs = res{what: "numbering passes (AssignMetadataIDs, AssignGlobalIDs, Func.AssignIDs)", kind: "none"}
							if err := m.AssignMetadataIDs(); err != nil {
								rs.pmsg = "AssignMetadataIDs: " + err.Error()
							}
							if err := m.AssignGlobalIDs(); err != nil {
								rs.pmsg = "AssignGlobalIDs: " + err.Error()
							}
							for _, f := range m.Funcs {
								if err := f.AssignIDs(); err != nil {
									rs.pmsg = "Func.AssignIDs: " + err.Error()
								}
							}
						case choice < 4 || (k == 0 && (gi < 2 || cold)):
							rs = res{what: "Module.String", kind: "module", got: m.String()}
						case choice < 5:
							var sb strings.Builder
							nn, err := m.WriteTo(&sb)
							rs = res{what: "Module.WriteTo", kind: "module", got: sb.String()}
							if err != nil || nn != int64(sb.Len()) {
								rs.pmsg = fmt.Sprintf("WriteTo returned n=%d err=%v for %d bytes", nn, err, sb.Len())
							}
						case choice < 7 && len(m.Funcs) > 0:
							fi := grng.Intn(len(m.Funcs))
							rs = res{what: "Func.LLString", kind: "func", idx: fi, got: m.Funcs[fi].LLString()}
						case choice < 8 && len(m.Globals) > 0:
							gi2 := grng.Intn(len(m.Globals))
							rs = res{what: "Global.LLString", kind: "global", idx: gi2, got: m.Globals[gi2].LLString()}
						case len(m.Funcs) > 0:
							fi := grng.Intn(len(m.Funcs))
							f := m.Funcs[fi]
							var sb strings.Builder
							sb.WriteString(f.Type().String())
							for _, prm := range f.Params {
								sb.WriteString(prm.Type().String())
							}
							for _, b := range f.Blocks {
								sb.WriteString(b.Type().String())
								for _, inst := range b.Insts {
									if v, ok := inst.(value.Value); ok {
										sb.WriteString(v.Type().String())
									}
								}
							}
							rs = res{what: "Type queries", kind: "none"}
						default:
							rs = res{what: "Module.String", kind: "module", got: m.String()}
						}
					})
					atomic.AddInt32(&st.active, -1)
					if p {
						rs.pmsg = "panic: " + msg
					}
					results[gi] = append(results[gi], rs)
				}
			}(gi, grng)
		}
		close(start)
		// the printers are waited for with a watchdog: when it fires, the state of the
		// process decides. If every printer still running is waiting for a lock (and
		// none is runnable or asleep in the hook), nobody is left to release one: the
		// calls will never return, which is reported with the stacks as witness.
		// Anything else (a slow machine) is inconclusive.
		done := make(chan struct{})
		go func() { wg.Wait(); close(done) }()
		select {
		case <-done:
		case <-time.After(20 * time.Second):
			buf := make([]byte, 1<<20)
			buf = buf[:runtime.Stack(buf, true)]
			blocked, other := 0, 0
			var witness []string
			for _, g := range strings.Split(string(buf), "\n\n") {
				if !strings.Contains(g, "c13Rounds.func") || strings.Contains(g, "runtime.Stack") || strings.Contains(g, "(*WaitGroup).Wait") {
					continue
				}
				head := g
				if i := strings.Index(g, "\n"); i >= 0 {
					head = g[:i]
				}
				if strings.Contains(head, "sync.Mutex.Lock") || strings.Contains(head, "sync.RWMutex") || strings.Contains(head, "semacquire") {
					blocked++
					if len(witness) < 4 {
						witness = append(witness, fw.Trunc(g, 1500))
					}
				} else {
					other++
				}
			}
			verifhook.SetYield(nil)
			runtime.GOMAXPROCS(old)
			if blocked > 0 && other == 0 {
				r.Violate(fw.Violation{Key: "concurrent-print-never-returns/" + sc, Input: input,
					What:     fmt.Sprintf("%d goroutines printing one module (%s) are all waiting for a lock 20 s after they started and no printer is runnable: the calls never return", blocked, sc),
					Observed: strings.Join(witness, "\n\n")})
			} else {
				r.Inconclusive("printers still running after 20 s and not all of them blocked on locks")
			}
			return
		}
		verifhook.SetYield(nil)
		runtime.GOMAXPROCS(old)
		r.Eval(1)
		state := "never-printed"
		if preprinted {
			state = "already-printed"
		}
		if !haveExp {
			if !computeExp() {
				r.Inconclusive("sequential print of the twin panics (C01/C08 business)")
				return
			}
			r.Tally("rounds", "cold-process-first-print-concurrent")
		}
		for gi := range results {
			for _, rs := range results[gi] {
				switch rs.kind {
				case "module":
					rs.want = expect
				case "func":
					rs.want, rs.want2 = expFuncs[rs.idx][0], expFuncs[rs.idx][1]
				case "global":
					rs.want, rs.want2 = expGlobals[rs.idx][0], expGlobals[rs.idx][1]
				}
				r.Tally("operations", rs.what)
				if rs.pmsg != "" {
					r.Violate(fw.Violation{Key: "concurrent-print-fails/" + sc + "/" + rs.what + "/" + classify(firstLine(rs.pmsg)), Input: input,
						What: fmt.Sprintf("%s on a shared module (%s, %d goroutines) failed: %s", rs.what, state, n, firstLine(rs.pmsg))})
					continue
				}
				if rs.got != rs.want && !(rs.want2 != "" && !preprinted && rs.got == rs.want2) {
					r.Violate(fw.Violation{Key: "concurrent-text-differs/" + sc + "/" + rs.what + "/" + state, Input: input,
						What:     fmt.Sprintf("%s called concurrently (%s module, %d goroutines, GOMAXPROCS=%d) returned a text different from the sequential text: %s", rs.what, state, n, procs, firstDiffLines(rs.want, rs.got)),
						Expected: rs.want, Observed: rs.got})
				}
			}
		}
		if st.maxActive >= 2 {
			r.Nontrivial(fmt.Sprintf("%s/%s/%s/%d/%d", sc, id, state, n, round))
			r.Tally("rounds", fmt.Sprintf("overlapped:%s:%s:N=%d:procs=%d", sc, state, n, procs))
		} else {
			r.Tally("rounds", "no-overlap-witnessed")
		}
		r.TallyN("hook", "yield-events", int(st.yields))
		if round == 0 {
			r.Sample(map[string]interface{}{"scenario": sc, "module": id, "goroutines": n, "GOMAXPROCS": procs, "state": state, "max_concurrently_active_printers": st.maxActive, "yield_hook_events": st.yields})
		}
	}
}
