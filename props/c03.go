package props

import (
	"fmt"
	"math"
	"math/big"
	"strconv"
	"strings"

	"github.com/llir/llvm/ir"
	"github.com/llir/llvm/ir/constant"
	"github.com/llir/llvm/ir/enum"
	"github.com/llir/llvm/ir/metadata"
	"github.com/llir/llvm/ir/types"
	"github.com/llir/llvm/ir/value"

	"verif/internal/fw"
	"verif/internal/graph"
	"verif/internal/llvmref"
)

func init() {
	fw.Register(&fw.Check{
		ID:    "C03",
		Level: "exploration",
		Rule: "(a) constructor matrix: every instruction, terminator, constant and constant-expression constructor of the public API is applied to well-typed operands over the operand shapes {i1,i8,i13,i32,i64,i128; half,float,double,x86_fp80,fp128; pointers in address space 0/1; fixed and scalable vectors; arrays; literal and identified structs; function pointers with and without varargs; integer constants of 64-256 bits built by NewIntFromString in decimal, negative, u0x and s0x spellings}, with named and unnamed results; each recipe is its own function/global. No constructor may panic, String() must not panic, llvm-as must accept the text, the library's parser must accept it, and parse(text) must be structurally identical to the constructed module. " +
			"(b) construction programs: PRNG data-flow programs over integer (including 65/100/128/256-bit constants combined, shifted and truncated back to 64 bits), floating-point, memory, vector, aggregate and control-flow constructors are built through the API and executed with lli; the values they print and the exit code must equal those of the monitor's reference evaluator (big-integer / IEEE semantics), which evaluates the same construction calls. " +
			"named aliases: twelve constructions mix values of named non-struct types (%T = type i32*, %I = type i32, %V = type <2 x i32>) with values of their bodies (store, insertvalue, insertelement, icmp, select, add, gep, load): no constructor may reject the mix, and the module goes through the same print/LLVM/re-parse comparison. " +
			"Further cases: typed uses (select) of every comparison result; a fixed and a scalable vector of one length compared in one function; all eight inline asm flag combinations; float constants made from doubles (NewFloat) checked against the nearest single; metadata attachments on a declaration, a definition and globals. " +
			"non-trivial = a recipe or program that LLVM accepted; distinct by printed text",
		Gen:           genC03,
		MinNontrivial: 150,
		Assumptions: []string{"programs avoid undefined behaviour by construction (no zero divisors, in-range shifts, no poison-generating flags on values that wrap)",
			"constructs lli cannot execute here (scalable vectors, exception pads, callbr, va_arg) are checked for validity and faithful re-parse only"},
		Exhaustive: func(string) bool { return false },
	})
}

// c03Env is the operand environment of a recipe.
type c03Env struct {
	m  *ir.Module
	f  *ir.Func
	b  *ir.Block
	p  map[string]value.Value
	T  types.Type // identified struct %T = { i32, %T*, [2 x i8] }
	n  int
	un bool // unnamed results
}

func (e *c03Env) name() string {
	if e.un {
		return ""
	}
	e.n++
	return fmt.Sprintf("r%d", e.n)
}

type c03Recipe struct {
	name string
	fn   func(e *c03Env)
}

func c03Params(T types.Type) []*ir.Param {
	ptr := func(t types.Type, as types.AddrSpace) types.Type {
		p := types.NewPointer(t)
		p.AddrSpace = as
		return p
	}
	sv := types.NewVector(2, types.I32)
	sv.Scalable = true
	vfn := types.NewFunc(types.I32, types.I32)
	vfn.Variadic = true
	inner := types.NewStruct(types.I8, types.Double)
	return []*ir.Param{
		ir.NewParam("b", types.I1), ir.NewParam("c", types.I8), ir.NewParam("o", types.NewInt(13)), ir.NewParam("i", types.I32), ir.NewParam("j", types.I32),
		ir.NewParam("l", types.I64), ir.NewParam("w", types.I128), ir.NewParam("h", types.Half), ir.NewParam("f", types.Float), ir.NewParam("g", types.Float),
		ir.NewParam("d", types.Double), ir.NewParam("e", types.X86_FP80), ir.NewParam("q", types.FP128),
		ir.NewParam("p", ptr(types.I32, 0)), ir.NewParam("p1", ptr(types.I32, 1)), ir.NewParam("bp", ptr(types.I8, 0)),
		ir.NewParam("v", types.NewVector(4, types.I32)), ir.NewParam("v2", types.NewVector(4, types.I32)), ir.NewParam("vf", types.NewVector(2, types.Float)),
		ir.NewParam("sv", sv), ir.NewParam("vp", types.NewVector(2, ptr(types.I8, 0))),
		ir.NewParam("arr", types.NewArray(2, types.I32)), ir.NewParam("st", types.NewStruct(types.I32, types.Float)), ir.NewParam("ns", T),
		ir.NewParam("fp", ptr(types.NewFunc(types.I32, types.I32), 0)), ir.NewParam("vfp", ptr(vfn, 0)),
		ir.NewParam("sp", ptr(types.NewStruct(types.I32, types.NewArray(2, inner)), 0)), ir.NewParam("pf", ptr(types.Float, 0)), ir.NewParam("pp", ptr(ptr(types.I8, 0), 0)),
	}
}

func ci(t *types.IntType, v int64) *constant.Int { return constant.NewInt(t, v) }

func c03Recipes() []c03Recipe {
	var rs []c03Recipe
	add := func(name string, fn func(e *c03Env)) { rs = append(rs, c03Recipe{name, fn}) }
	set := func(e *c03Env, v value.Value) value.Value {
		if n, ok := v.(value.Named); ok {
			n.SetName(e.name())
		}
		return v
	}
	// integer binary over several widths and vectors
	for _, op := range []string{"i", "c", "o", "l", "w", "v", "sv", "b"} {
		op := op
		add("int-binary/"+op, func(e *c03Env) {
			x := e.p[op]
			y := x
			set(e, e.b.NewAdd(x, y))
			a := e.b.NewSub(x, y)
			a.OverflowFlags = []enum.OverflowFlag{enum.OverflowFlagNSW}
			set(e, a)
			m := e.b.NewMul(x, y)
			m.OverflowFlags = []enum.OverflowFlag{enum.OverflowFlagNUW, enum.OverflowFlagNSW}
			set(e, m)
			set(e, e.b.NewUDiv(x, y))
			sd := e.b.NewSDiv(x, y)
			sd.Exact = true
			set(e, sd)
			set(e, e.b.NewURem(x, y))
			set(e, e.b.NewSRem(x, y))
			set(e, e.b.NewShl(x, y))
			ls := e.b.NewLShr(x, y)
			ls.Exact = true
			set(e, ls)
			set(e, e.b.NewAShr(x, y))
			set(e, e.b.NewAnd(x, y))
			set(e, e.b.NewOr(x, y))
			set(e, e.b.NewXor(x, y))
		})
	}
	for _, op := range []string{"h", "f", "d", "e", "q", "vf"} {
		op := op
		add("fp-binary/"+op, func(e *c03Env) {
			x := e.p[op]
			fa := e.b.NewFAdd(x, x)
			fa.FastMathFlags = []enum.FastMathFlag{enum.FastMathFlagFast}
			set(e, fa)
			set(e, e.b.NewFSub(x, x))
			fm := e.b.NewFMul(x, x)
			fm.FastMathFlags = []enum.FastMathFlag{enum.FastMathFlagNNaN, enum.FastMathFlagNInf}
			set(e, fm)
			set(e, e.b.NewFDiv(x, x))
			set(e, e.b.NewFRem(x, x))
			set(e, e.b.NewFNeg(x))
			fc := set(e, e.b.NewFCmp(enum.FPredOLT, x, x))
			set(e, e.b.NewSelect(fc, x, x))
			set(e, e.b.NewFCmp(enum.FPredUNE, x, x))
		})
	}
	for _, op := range []string{"i", "l", "p", "p1", "v", "sv", "vp", "b"} {
		op := op
		add("icmp/"+op, func(e *c03Env) {
			x := e.p[op]
			for _, pr := range []enum.IPred{enum.IPredEQ, enum.IPredNE, enum.IPredSGT, enum.IPredULE} {
				c := set(e, e.b.NewICmp(pr, x, x))
				// a typed use of the result: its type (i1, <N x i1>, <vscale x N x i1>) is spelled in the text
				set(e, e.b.NewSelect(c, x, x))
			}
		})
	}
	// comparisons of a fixed and a scalable vector of the same length in one
	// function (whatever is shared between comparisons must keep them apart)
	add("cmp-fixed-and-scalable-same-length", func(e *c03Env) {
		for _, op := range []string{"sv", "vp", "sv", "vf"} {
			x := e.p[op]
			var c value.Value
			if op == "vf" {
				c = set(e, e.b.NewFCmp(enum.FPredOGT, x, x))
			} else {
				c = set(e, e.b.NewICmp(enum.IPredNE, x, x))
			}
			set(e, e.b.NewSelect(c, x, x))
		}
		svf := types.NewVector(2, types.Float)
		svf.Scalable = true
		z := set(e, e.b.NewSIToFP(e.p["sv"], svf))
		fc := set(e, e.b.NewFCmp(enum.FPredOLT, z, z))
		set(e, e.b.NewSelect(fc, z, z))
	})
	add("select", func(e *c03Env) {
		set(e, e.b.NewSelect(e.p["b"], e.p["i"], e.p["j"]))
		set(e, e.b.NewSelect(e.p["b"], e.p["v"], e.p["v2"]))
		c := set(e, e.b.NewICmp(enum.IPredSLT, e.p["v"], e.p["v2"]))
		set(e, e.b.NewSelect(c, e.p["v"], e.p["v2"]))
		set(e, e.b.NewSelect(e.p["b"], e.p["st"], e.p["st"]))
		set(e, e.b.NewSelect(e.p["b"], e.p["p"], e.p["p"]))
	})
	add("conversions-int", func(e *c03Env) {
		set(e, e.b.NewTrunc(e.p["l"], types.I32))
		set(e, e.b.NewTrunc(e.p["i"], types.I1))
		set(e, e.b.NewTrunc(e.p["v"], types.NewVector(4, types.I8)))
		set(e, e.b.NewZExt(e.p["c"], types.I64))
		set(e, e.b.NewZExt(e.p["b"], types.I32))
		set(e, e.b.NewSExt(e.p["o"], types.NewInt(40)))
		set(e, e.b.NewSExt(e.p["v"], types.NewVector(4, types.I64)))
		sv := types.NewVector(2, types.I64)
		sv.Scalable = true
		set(e, e.b.NewZExt(e.p["sv"], sv))
		set(e, e.b.NewPtrToInt(e.p["p"], types.I64))
		set(e, e.b.NewPtrToInt(e.p["vp"], types.NewVector(2, types.I32)))
		set(e, e.b.NewIntToPtr(e.p["l"], types.I8Ptr))
		set(e, e.b.NewBitCast(e.p["p"], types.I8Ptr))
		set(e, e.b.NewBitCast(e.p["i"], types.Float))
		set(e, e.b.NewBitCast(e.p["l"], types.NewVector(2, types.I32)))
		set(e, e.b.NewBitCast(e.p["v"], types.I128))
		p1 := types.NewPointer(types.I32)
		p1.AddrSpace = 3
		set(e, e.b.NewAddrSpaceCast(e.p["p"], p1))
	})
	add("conversions-fp", func(e *c03Env) {
		set(e, e.b.NewFPTrunc(e.p["d"], types.Float))
		set(e, e.b.NewFPTrunc(e.p["q"], types.X86_FP80))
		set(e, e.b.NewFPExt(e.p["h"], types.Double))
		set(e, e.b.NewFPExt(e.p["vf"], types.NewVector(2, types.Double)))
		set(e, e.b.NewFPToUI(e.p["f"], types.I32))
		set(e, e.b.NewFPToSI(e.p["d"], types.I8))
		set(e, e.b.NewFPToSI(e.p["vf"], types.NewVector(2, types.I64)))
		set(e, e.b.NewUIToFP(e.p["i"], types.Double))
		set(e, e.b.NewSIToFP(e.p["l"], types.Half))
		set(e, e.b.NewSIToFP(e.p["v"], types.NewVector(4, types.Float)))
	})
	add("memory", func(e *c03Env) {
		a := set(e, e.b.NewAlloca(types.I32))
		al := e.b.NewAlloca(e.T)
		al.Align = 16
		set(e, al)
		an := e.b.NewAlloca(types.I8)
		an.NElems = e.p["i"]
		set(e, an)
		ld := e.b.NewLoad(types.I32, a)
		set(e, ld)
		lv := e.b.NewLoad(types.I32, e.p["p"])
		lv.Volatile = true
		lv.Align = 4
		set(e, lv)
		la := e.b.NewLoad(types.I32, e.p["p"])
		la.Atomic = true
		la.Ordering = enum.AtomicOrderingAcquire
		la.Align = 4
		set(e, la)
		e.b.NewStore(e.p["i"], a)
		sa := e.b.NewStore(e.p["i"], e.p["p"])
		sa.Atomic = true
		sa.Ordering = enum.AtomicOrderingRelease
		sa.Align = 4
		sv := e.b.NewStore(e.p["i"], e.p["p1"])
		sv.Volatile = true
		e.b.NewStore(e.p["v"], constant.NewUndef(types.NewPointer(types.NewVector(4, types.I32))))
		e.b.NewFence(enum.AtomicOrderingSequentiallyConsistent)
		fs := e.b.NewFence(enum.AtomicOrderingAcquire)
		fs.SyncScope = "singlethread"
		cx := e.b.NewCmpXchg(e.p["p"], e.p["i"], e.p["j"], enum.AtomicOrderingSequentiallyConsistent, enum.AtomicOrderingMonotonic)
		set(e, cx)
		cw := e.b.NewCmpXchg(e.p["p"], e.p["i"], e.p["j"], enum.AtomicOrderingAcquireRelease, enum.AtomicOrderingAcquire)
		cw.Weak = true
		cw.Volatile = true
		set(e, cw)
		set(e, e.b.NewExtractValue(cx, 1))
		set(e, e.b.NewAtomicRMW(enum.AtomicOpAdd, e.p["p"], e.p["i"], enum.AtomicOrderingMonotonic))
		set(e, e.b.NewAtomicRMW(enum.AtomicOpXChg, e.p["p"], e.p["i"], enum.AtomicOrderingSequentiallyConsistent))
		set(e, e.b.NewAtomicRMW(enum.AtomicOpUMax, e.p["p"], e.p["i"], enum.AtomicOrderingAcquire))
		set(e, e.b.NewAtomicRMW(enum.AtomicOpFAdd, e.p["pf"], e.p["f"], enum.AtomicOrderingMonotonic))
	})
	add("gep", func(e *c03Env) {
		st := types.NewStruct(types.I32, types.NewArray(2, types.NewStruct(types.I8, types.Double)))
		set(e, e.b.NewGetElementPtr(types.I32, e.p["p"], e.p["l"]))
		set(e, e.b.NewGetElementPtr(types.I32, e.p["p1"], ci(types.I64, 1)))
		g := e.b.NewGetElementPtr(st, e.p["sp"], ci(types.I32, 0), ci(types.I32, 1), e.p["l"], ci(types.I32, 1))
		g.InBounds = true
		set(e, g)
		set(e, e.b.NewGetElementPtr(st, e.p["sp"]))
		set(e, e.b.NewGetElementPtr(types.I8, e.p["vp"], ci(types.I64, 1)))
		set(e, e.b.NewGetElementPtr(types.I8, e.p["bp"], constant.NewZeroInitializer(types.NewVector(2, types.I64))))
		set(e, e.b.NewGetElementPtr(e.T, constant.NewNull(types.NewPointer(e.T)), ci(types.I32, 0), ci(types.I32, 2), ci(types.I64, 1)))
	})
	add("vector", func(e *c03Env) {
		set(e, e.b.NewExtractElement(e.p["v"], e.p["i"]))
		set(e, e.b.NewExtractElement(e.p["sv"], ci(types.I64, 0)))
		set(e, e.b.NewInsertElement(e.p["v"], e.p["i"], ci(types.I8, 1)))
		set(e, e.b.NewInsertElement(e.p["vf"], e.p["f"], e.p["i"]))
		mask := constant.NewVector(types.NewVector(4, types.I32), ci(types.I32, 0), ci(types.I32, 5), ci(types.I32, 2), ci(types.I32, 7))
		set(e, e.b.NewShuffleVector(e.p["v"], e.p["v2"], mask))
		set(e, e.b.NewShuffleVector(e.p["v"], constant.NewUndef(types.NewVector(4, types.I32)), constant.NewZeroInitializer(types.NewVector(2, types.I32))))
		svm := types.NewVector(4, types.I32)
		svm.Scalable = true
		set(e, e.b.NewShuffleVector(e.p["sv"], e.p["sv"], constant.NewZeroInitializer(svm)))
	})
	add("aggregate", func(e *c03Env) {
		set(e, e.b.NewExtractValue(e.p["st"], 1))
		set(e, e.b.NewExtractValue(e.p["arr"], 0))
		set(e, e.b.NewExtractValue(e.p["ns"], 2, 1))
		set(e, e.b.NewInsertValue(e.p["st"], e.p["f"], 1))
		set(e, e.b.NewInsertValue(e.p["ns"], ci(types.I8, 3), 2, 0))
		set(e, e.b.NewInsertValue(constant.NewUndef(types.NewArray(2, types.I32)), e.p["i"], 1))
	})
	add("call", func(e *c03Env) {
		callee := e.m.NewFunc("callee."+e.f.Name(), types.I32, ir.NewParam("", types.I32))
		vcallee := e.m.NewFunc("vcallee."+e.f.Name(), types.Void)
		vcallee.Sig.Variadic = true
		set(e, e.b.NewCall(callee, e.p["i"]))
		e.b.NewCall(vcallee)
		e.b.NewCall(vcallee, e.p["i"], e.p["d"], e.p["p"])
		set(e, e.b.NewCall(e.p["fp"], e.p["i"]))
		set(e, e.b.NewCall(e.p["vfp"], e.p["i"], e.p["l"]))
		c := e.b.NewCall(callee, ir.NewArg(e.p["i"], enum.ParamAttrNoUndef))
		c.Tail = enum.TailTail
		c.CallingConv = enum.CallingConvFast
		c.FuncAttrs = []ir.FuncAttribute{enum.FuncAttrNoUnwind}
		c.OperandBundles = []*ir.OperandBundle{ir.NewOperandBundle("deopt", e.p["i"], e.p["p"])}
		set(e, c)
		asm := ir.NewInlineAsm(types.NewPointer(types.NewFunc(types.I32, types.I32)), "bswap $0", "=r,0")
		set(e, e.b.NewCall(asm, e.p["i"]))
		asm2 := ir.NewInlineAsm(types.NewPointer(types.NewFunc(types.Void)), "", "~{memory}")
		asm2.SideEffect = true
		e.b.NewCall(asm2)
		// every combination of the inline asm flags
		for fl := 0; fl < 8; fl++ {
			a := ir.NewInlineAsm(types.NewPointer(types.NewFunc(types.Void)), "nop", "")
			a.SideEffect, a.AlignStack, a.IntelDialect = fl&1 != 0, fl&2 != 0, fl&4 != 0
			e.b.NewCall(a)
		}
		set(e, e.b.NewVAArg(e.p["pp"], types.I32))
	})
	add("freeze-phi", func(e *c03Env) {
		fz := ir.NewInstFreeze(e.p["i"])
		e.b.Insts = append(e.b.Insts, fz)
		set(e, fz)
		fz2 := ir.NewInstFreeze(e.p["vp"])
		e.b.Insts = append(e.b.Insts, fz2)
		set(e, fz2)
		next := e.f.NewBlock("next")
		loop := e.f.NewBlock("")
		e.b.NewCondBr(e.p["b"], next, loop)
		loop.NewBr(next)
		ph := next.NewPhi(ir.NewIncoming(e.p["i"], e.b), ir.NewIncoming(e.p["j"], loop))
		set(e, ph)
		pf := next.NewPhi(ir.NewIncoming(e.p["f"], e.b), ir.NewIncoming(constant.NewFloat(types.Float, 1.5), loop))
		set(e, pf)
		e.b = next
	})
	add("phi-multi-edge", func(e *c03Env) {
		// a predecessor with several edges into one block (two switch cases and the
		// default, both arms of a conditional branch): LLVM wants one phi entry per
		// edge, so the same predecessor appears several times in the list
		j := e.f.NewBlock("join")
		k := e.f.NewBlock("")
		e.b.NewSwitch(e.p["i"], j, ir.NewCase(ci(types.I32, 3), j), ir.NewCase(ci(types.I32, 9), j), ir.NewCase(ci(types.I32, 4), k))
		k.NewCondBr(e.p["b"], j, j)
		ph := j.NewPhi(ir.NewIncoming(e.p["i"], e.b), ir.NewIncoming(e.p["i"], e.b), ir.NewIncoming(e.p["i"], e.b),
			ir.NewIncoming(e.p["j"], k), ir.NewIncoming(e.p["j"], k))
		set(e, ph)
		e.b = j
	})
	add("terminators", func(e *c03Env) {
		a := e.f.NewBlock("bb.a")
		b := e.f.NewBlock("")
		c := e.f.NewBlock("bb.c")
		d := e.f.NewBlock("bb.d")
		e.b.NewSwitch(e.p["i"], a, ir.NewCase(ci(types.I32, 0), b), ir.NewCase(ci(types.I32, -1), c), ir.NewCase(ci(types.I32, 7), c))
		a.NewBr(d)
		b.NewCondBr(e.p["b"], c, d)
		c.NewUnreachable()
		ib := e.f.NewBlock("ib")
		t1 := e.f.NewBlock("t1")
		d.NewBr(ib)
		ib.NewIndirectBr(constant.NewBlockAddress(e.f, t1), t1)
		e.b = t1
	})
	add("invoke-landingpad", func(e *c03Env) {
		pers := e.m.NewFunc("pers."+e.f.Name(), types.I32)
		pers.Sig.Variadic = true
		e.f.Personality = pers
		thrower := e.m.NewFunc("thrower."+e.f.Name(), types.I32, ir.NewParam("", types.I32))
		cont := e.f.NewBlock("cont")
		lpad := e.f.NewBlock("lpad")
		inv := e.b.NewInvoke(thrower, []value.Value{e.p["i"]}, cont, lpad)
		set(e, inv)
		lp := lpad.NewLandingPad(types.NewStruct(types.I8Ptr, types.I32), ir.NewClause(enum.ClauseTypeCatch, constant.NewNull(types.I8Ptr)))
		lp.Cleanup = true
		set(e, lp)
		lpad.NewResume(lp)
		e.b = cont
	})
	add("funclets", func(e *c03Env) {
		pers := e.m.NewFunc("pers."+e.f.Name(), types.I32)
		pers.Sig.Variadic = true
		e.f.Personality = pers
		thrower := e.m.NewFunc("thrower."+e.f.Name(), types.Void)
		cont := e.f.NewBlock("cont")
		dispatch := e.f.NewBlock("dispatch")
		handler := e.f.NewBlock("handler")
		cleanup := e.f.NewBlock("cleanup")
		e.b.NewInvoke(thrower, nil, cont, dispatch)
		cs := dispatch.NewCatchSwitch(constant.None, []*ir.Block{handler}, cleanup)
		set(e, cs)
		cp := handler.NewCatchPad(cs, constant.NewNull(types.I8Ptr), ci(types.I32, 64), constant.NewNull(types.I8Ptr))
		set(e, cp)
		handler.NewCatchRet(cp, cont)
		cl := cleanup.NewCleanupPad(constant.None)
		set(e, cl)
		cleanup.NewCleanupRet(cl, nil)
		e.b = cont
	})
	add("callbr", func(e *c03Env) {
		a := e.f.NewBlock("bb.a")
		b := e.f.NewBlock("bb.b")
		asm := ir.NewInlineAsm(types.NewPointer(types.NewFunc(types.Void, types.I8Ptr)), "jmp ${0:l}", "X")
		asm.SideEffect = true
		e.b.NewCallBr(asm, []value.Value{constant.NewBlockAddress(e.f, b)}, a, b)
		a.NewBr(b)
		e.b = b
	})
	return rs
}

func genC03(ctx *fw.Ctx) []fw.Case {
	var cases []fw.Case
	for _, rc := range c03Recipes() {
		for _, un := range []bool{false, true} {
			rc, un := rc, un
			cases = append(cases, fw.Case{ID: fmt.Sprintf("recipe/%s/unnamed=%v", rc.name, un), Run: func(r *fw.Rec) { c03Recipe1(r, rc, un) }})
		}
	}
	cases = append(cases, fw.Case{ID: "constants", Run: c03Constants})
	cases = append(cases, fw.Case{ID: "module-level", Run: c03ModuleLevel})
	n := ctx.Pick(600, 40000)
	rng := ctx.Rand("c03exec")
	for i := 0; i < n; i++ {
		seed := rng.Int63()
		cases = append(cases, fw.Case{ID: fmt.Sprintf("exec/%d", seed), Run: func(r *fw.Rec) { c03Exec(r, seed) }})
	}
	return cases
}

func c03Recipe1(r *fw.Rec, rc c03Recipe, unnamed bool) {
	m := ir.NewModule()
	T := m.NewTypeDef("T", types.NewStruct(types.I32, types.I8Ptr, types.NewArray(2, types.I8)))
	params := c03Params(T)
	f := m.NewFunc("f", types.Void, params...)
	env := &c03Env{m: m, f: f, b: f.NewBlock("entry"), p: map[string]value.Value{}, T: T, un: unnamed}
	for _, p := range params {
		env.p[p.LocalName] = p
	}
	if p, msg, stack := fw.Guard(func() { rc.fn(env) }); p {
		r.Violate(fw.Violation{Key: "constructor-panics/" + rc.name, What: fmt.Sprintf("a well-typed construction (%s) is rejected by a constructor: %s", rc.name, firstLine(msg)), Observed: trimStack(stack)})
		return
	}
	if env.b.Term == nil {
		env.b.NewRet(nil)
	}
	c03CheckModule(r, "recipe/"+rc.name+fmt.Sprintf("/unnamed=%v", unnamed), m)
}

// c03CheckModule prints m, validates the text with LLVM and the parser and
// compares the re-parsed module with the constructed one.
func c03CheckModule(r *fw.Rec, key string, m *ir.Module) (text string, ok bool) {
	r.Eval(1)
	text, pp := printGuard(m)
	if pp != "" {
		r.Violate(fw.Violation{Key: "print-panics/" + key, What: "String() of a constructed module panics: " + firstLine(pp), Observed: pp})
		return "", false
	}
	okl, msg, err := llvmref.Accepts(text)
	if err != nil {
		r.Inconclusive("llvm tool failure")
		return text, false
	}
	if !okl {
		r.Violate(fw.Violation{Key: "llvm-rejects/" + key, Input: text, What: "LLVM rejects the text printed for a well-typed construction: " + firstLine(lastDiag(msg))})
		return text, false
	}
	m2, perr, pmsg := parseGuard(key, text)
	if pmsg != "" || perr != nil {
		what := pmsg
		if perr != nil {
			what = perr.Error()
		}
		r.Violate(fw.Violation{Key: "parser-rejects/" + key, Input: text, What: "the library's parser rejects the text printed for a constructed module: " + firstLine(what)})
		return text, false
	}
	t2, pp2 := printGuard(m2)
	if pp2 != "" || t2 != text {
		r.Violate(fw.Violation{Key: "reprint-differs/" + key, Input: text, What: "re-parsed module prints differently: " + firstDiffLines(text, t2), Expected: text, Observed: t2})
		return text, false
	}
	forceTypes(m)
	forceTypes(m2)
	for _, g := range m.Globals {
		if g.Init == nil && g.Linkage == enum.LinkageNone {
			// a declaration without explicit linkage is printed (and read back) as external
			g.Linkage = enum.LinkageExternal
		}
	}
	sa, sb := graph.Serialize(m, graph.Options{}), graph.Serialize(m2, graph.Options{})
	if sa != sb {
		r.Violate(fw.Violation{Key: "structure/" + key, Input: text, What: "parse(print(m)) is not structurally identical to the constructed module: " + graph.FirstDiff(sa, sb)})
		return text, false
	}
	r.Nontrivial(text)
	for _, f := range m.Funcs {
		for _, b := range f.Blocks {
			for _, inst := range b.Insts {
				r.Tally("constructors", instKindOf(inst))
			}
			if b.Term != nil {
				r.Tally("constructors", instKindOf(b.Term))
			}
		}
	}
	return text, true
}

// forceTypes makes every lazily cached type present (Type() on all values), so
// that a cache filled on one side only is not mistaken for a difference.
func forceTypes(m *ir.Module) {
	for _, g := range m.Globals {
		g.Type()
	}
	for _, f := range m.Funcs {
		f.Type()
		for _, b := range f.Blocks {
			for _, inst := range b.Insts {
				if v, ok := inst.(value.Value); ok {
					fw.Guard(func() { v.Type() })
				}
			}
			if v, ok := b.Term.(value.Value); ok {
				fw.Guard(func() { v.Type() })
			}
		}
	}
}

func c03Constants(r *fw.Rec) {
	m := ir.NewModule()
	// type definitions in the order of their names (the parser keeps them sorted, the constructed module as created)
	PE := m.NewTypeDef("PE", &types.StructType{Packed: true}).(*types.StructType)
	PT := m.NewTypeDef("PT", func() types.Type { t := types.NewStruct(types.I8, types.I32); t.Packed = true; return t }()).(*types.StructType)
	T := m.NewTypeDef("T", types.NewStruct(types.I32, types.I8Ptr))
	g := m.NewGlobalDef("g", ci(types.I32, 0))
	h := m.NewGlobalDef("h", ci(types.I64, 1))
	n := 0
	def := func(c constant.Constant) {
		n++
		m.NewGlobalDef(fmt.Sprintf("c%d", n), c)
	}
	guard := func(name string, fn func()) {
		if p, msg, _ := fw.Guard(fn); p {
			r.Violate(fw.Violation{Key: "constructor-panics/constant/" + name, What: "constant constructor rejects well-typed operands: " + firstLine(msg)})
		}
	}
	gi := func() constant.Constant { return constant.NewPtrToInt(g, types.I64) }
	v2 := func() constant.Constant { return constant.NewVector(types.NewVector(2, types.I64), gi(), gi()) }
	guard("simple", func() {
		def(ci(types.I1, 1))
		def(constant.NewBool(false))
		def(ci(types.NewInt(7), -3))
		def(ci(types.I128, 1<<62))
		// integers beyond 64 bits, in every spelling the constructor accepts
		for _, wc := range []struct {
			w uint64
			s string
		}{
			{128, "1267650600228229401496703205376"}, // 2^100
			{128, "340282366920938463463374607431768211455"},
			{128, "-1"}, {128, "-170141183460469231731687303715884105728"},
			{128, "u0xFFFFFFFF00000000FFFFFFFF00000000"}, {128, "18446744073709551616"}, {128, "18446744069414584320"},
			{65, "36893488147419103231"}, {65, "u0x10000000000000000"}, {65, "-18446744073709551616"},
			{64, "18446744073709551615"}, {64, "9223372036854775808"}, {64, "u0x8000000000000000"}, {64, "-9223372036854775808"},
			{256, "115792089237316195423570985008687907853269984665640564039457584007913129639935"},
			{256, "u0x8000000000000000000000000000000000000000000000000000000000000001"},
			{100, "633825300114114700748351602688"}, {100, "s0x8000000000000000000000000"},
		} {
			c, err := constant.NewIntFromString(types.NewInt(wc.w), wc.s)
			if err != nil {
				r.Violate(fw.Violation{Key: "constructor-error/NewIntFromString", What: fmt.Sprintf("NewIntFromString(i%d, %q): %v", wc.w, wc.s, err)})
				continue
			}
			def(c)
		}
		def(constant.NewFloat(types.Half, 1.5))
		def(constant.NewFloat(types.Float, -0.25))
		def(constant.NewFloat(types.Double, 3.141592653589793))
		def(constant.NewFloat(types.Double, 0.1))
		def(constant.NewFloat(types.X86_FP80, 2.0))
		def(constant.NewFloat(types.FP128, -1.5))
		def(constant.NewFloat(types.PPC_FP128, 1.0))
		// signed zeros, values that print in scientific notation with a one-digit mantissa
		for _, k := range []*types.FloatType{types.Half, types.Float, types.Double} {
			def(constant.NewFloat(k, math.Copysign(0, -1)))
			def(constant.NewFloat(k, 0))
		}
		for _, v := range []float64{-1e6, 1e6, -2e9, -1e22, 5e-7, -5e-7, -3e10} {
			def(constant.NewFloat(types.Double, v))
		}
		def(constant.NewFloat(types.Float, -1e6))
		def(constant.NewNull(types.I8Ptr))
		def(constant.NewUndef(T))
		def(constant.NewPoison(types.I32))
		def(constant.NewZeroInitializer(types.NewArray(3, T)))
		def(constant.NewArray(types.NewArray(2, types.I32), ci(types.I32, 1), ci(types.I32, 2)))
		def(constant.NewCharArrayFromString("hi\x00\xff\"\\"))
		def(constant.NewCharArrayFromString("héllo, wörld 世界 \u00a0\U0001F600")) // multi-byte UTF-8: the length is in bytes
		def(constant.NewCharArrayFromString(""))
		def(constant.NewCharArray([]byte{0xC3, 0x28, 0xE2, 0x82})) // invalid UTF-8
		def(constant.NewStruct(types.NewStruct(types.I32, types.Float), ci(types.I32, 1), constant.NewFloat(types.Float, 2)))
		def(constant.NewStruct(T.(*types.StructType), ci(types.I32, 1), constant.NewNull(types.I8Ptr)))
		// packed structs: literal, identified, empty, and nested in other aggregates
		pk := types.NewStruct(types.I8, types.I32)
		pk.Packed = true
		def(constant.NewStruct(pk, ci(types.I8, 1), ci(types.I32, 2)))
		def(constant.NewStruct(PT, ci(types.I8, 1), ci(types.I32, 2)))
		def(constant.NewStruct(PE))
		def(constant.NewStruct(&types.StructType{Packed: true}))
		def(constant.NewArray(types.NewArray(2, PT), constant.NewStruct(PT, ci(types.I8, 3), ci(types.I32, 4)), constant.NewStruct(PT, ci(types.I8, 5), ci(types.I32, 6))))
		def(constant.NewStruct(types.NewStruct(PT, pk, PE), constant.NewStruct(PT, ci(types.I8, 7), ci(types.I32, 8)), constant.NewStruct(pk, ci(types.I8, 9), ci(types.I32, 10)), constant.NewStruct(PE)))
		def(constant.NewVector(types.NewVector(2, types.I32), ci(types.I32, 1), ci(types.I32, 2)))
	})
	guard("expr-binary", func() {
		def(constant.NewAdd(gi(), ci(types.I64, 1)))
		def(constant.NewSub(gi(), gi()))
		def(constant.NewMul(gi(), ci(types.I64, 3)))
		def(constant.NewShl(gi(), ci(types.I64, 1)))
		def(constant.NewLShr(gi(), ci(types.I64, 1)))
		def(constant.NewAShr(gi(), ci(types.I64, 1)))
		def(constant.NewAnd(gi(), ci(types.I64, 255)))
		def(constant.NewOr(gi(), ci(types.I64, 1)))
		def(constant.NewXor(v2(), v2()))
	})
	guard("expr-conversion", func() {
		def(constant.NewTrunc(gi(), types.I8))
		def(constant.NewZExt(gi(), types.I128))
		def(constant.NewSExt(gi(), types.I128))
		d := constant.NewBitCast(gi(), types.Double)
		def(d)
		def(constant.NewFPTrunc(d, types.Float))
		def(constant.NewFPExt(d, types.FP128))
		def(constant.NewFPToUI(d, types.I32))
		def(constant.NewFPToSI(d, types.I32))
		def(constant.NewUIToFP(gi(), types.Double))
		def(constant.NewSIToFP(gi(), types.Float))
		def(constant.NewIntToPtr(gi(), types.I8Ptr))
		def(constant.NewBitCast(g, types.I8Ptr))
		as1 := types.NewPointer(types.I32)
		as1.AddrSpace = 1
		def(constant.NewAddrSpaceCast(g, as1))
		def(constant.NewPtrToInt(constant.NewVector(types.NewVector(2, types.I32Ptr), g, g), types.NewVector(2, types.I64)))
	})
	guard("expr-other", func() {
		def(constant.NewICmp(enum.IPredEQ, g, g))
		def(constant.NewICmp(enum.IPredULT, v2(), v2()))
		def(constant.NewFCmp(enum.FPredOEQ, constant.NewBitCast(gi(), types.Double), constant.NewFloat(types.Double, 1)))
		def(constant.NewSelect(constant.NewICmp(enum.IPredEQ, g, g), g, g))
		def(constant.NewFNeg(constant.NewBitCast(gi(), types.Double)))
		def(constant.NewExtractElement(v2(), ci(types.I32, 0)))
		def(constant.NewInsertElement(v2(), gi(), ci(types.I32, 1)))
		def(constant.NewShuffleVector(v2(), v2(), constant.NewVector(types.NewVector(4, types.I32), ci(types.I32, 0), ci(types.I32, 1), ci(types.I32, 2), ci(types.I32, 3))))
		arr := m.NewGlobalDef("arr", constant.NewZeroInitializer(types.NewArray(4, types.NewStruct(types.I8, types.I64))))
		def(constant.NewGetElementPtr(arr.ContentType, arr, ci(types.I32, 0), ci(types.I32, 2), ci(types.I32, 1)))
		ge := constant.NewGetElementPtr(types.I64, h, ci(types.I64, 1))
		ge.InBounds = true
		def(ge)
		def(constant.NewGetElementPtr(types.I32, g, constant.NewZeroInitializer(types.NewVector(2, types.I64))))
	})
	c03CheckModule(r, "constants", m)
	r.Sample(map[string]interface{}{"constant_constructors_checked": n})
}

func c03ModuleLevel(r *fw.Rec) {
	m := ir.NewModule()
	m.SourceFilename = "a b.c"
	m.TargetTriple = "x86_64-pc-linux-gnu"
	m.DataLayout = "e-m:e-i64:64-n8:16:32:64-S128"
	T := m.NewTypeDef("node", types.NewStruct(types.I32))
	T.(*types.StructType).Fields = append(T.(*types.StructType).Fields, types.NewPointer(T))
	opq := m.NewTypeDef("opq", &types.StructType{Opaque: true})
	decl := m.NewGlobal("decl", types.I32)
	_ = decl
	m.NewGlobal("declp", types.NewPointer(opq))
	g := m.NewGlobalDef("g", ci(types.I32, 7))
	g.Immutable = true
	g.Align = 8
	g.Section = "sec"
	m.NewGlobalDef("", ci(types.I8, 1))
	m.NewGlobalDef("n", constant.NewZeroInitializer(T))
	a := m.NewAlias("al", g)
	a.Linkage = enum.LinkageInternal
	res := m.NewFunc("resolver", types.NewPointer(types.NewFunc(types.Void)))
	res.NewBlock("").NewRet(constant.NewNull(types.NewPointer(types.NewFunc(types.Void))))
	m.NewIFunc("ifn", res)
	d := m.NewFunc("declared", types.I32, ir.NewParam("", types.I32), ir.NewParam("x", types.I8Ptr))
	d.Sig.Variadic = true
	f := m.NewFunc("", types.I32)
	f.Linkage = enum.LinkageInternal
	f.CallingConv = enum.CallingConvFast
	f.FuncAttrs = []ir.FuncAttribute{enum.FuncAttrNoUnwind, ir.AttrPair{Key: "k", Value: "v"}}
	b := f.NewBlock("")
	b.NewRet(ci(types.I32, 0))
	// unnamed entities of every kind: LLVM numbers them in the order they are printed
	m.NewAlias("", g)
	m.NewIFunc("", res)
	m.NewAlias("", g)
	f2 := m.NewFunc("", types.Void)
	f2.NewBlock("").NewRet(nil)
	// metadata attachments on a declaration, a definition and global variables
	note := &metadata.Tuple{MetadataID: -1, Fields: []metadata.Field{&metadata.String{Value: "note"}}}
	m.MetadataDefs = append(m.MetadataDefs, note)
	d.Metadata = append(d.Metadata, &metadata.Attachment{Name: "note", Node: note}, &metadata.Attachment{Name: "other", Node: note})
	f2.Metadata = append(f2.Metadata, &metadata.Attachment{Name: "note", Node: note})
	g.Metadata = append(g.Metadata, &metadata.Attachment{Name: "note", Node: note})
	decl.Metadata = append(decl.Metadata, &metadata.Attachment{Name: "note", Node: note})
	c03CheckModule(r, "module-level", m)
	c03BlockAddresses(r)
	c03AddrSpaces(r)
	c03NamedAliases(r)
	c03FloatFromDouble(r)
	c03HalfFromDouble(r)
	c03Alignments(r)
	c03SharedTypesUntouched(r)
}

// c03FloatFromDouble builds float constants from Go float64 values that are
// not exactly a single (constant.NewFloat(types.Float, 0.1), the everyday way to
// write 0.1f): the printed literal must be valid for LLVM and denote the single
// nearest to the value (what LLVM's ConstantFP::get and clang produce), infinity
// beyond the range.
func c03FloatFromDouble(r *fw.Rec) {
	vals := []float64{0.1, -0.1, 1.0 / 3, 2.0 / 3, 0.7, 1e-3, 3.14159265358979, 16777217, 1e10, 1e38, 3.5e38, 1e300, -1e300, 1e-40, 1e-46, 1.0000000596046448}
	m := ir.NewModule()
	for i, v := range vals {
		m.NewGlobalDef(fmt.Sprintf("f%d", i), constant.NewFloat(types.Float, v))
	}
	text, pp := printGuard(m)
	if pp != "" {
		r.Violate(fw.Violation{Key: "print-panics/float-from-double", What: firstLine(pp)})
		return
	}
	out, msg, ok, err := llvmref.Reading(text)
	if err != nil {
		r.Inconclusive("llvm tool failure")
		return
	}
	if !ok {
		r.Violate(fw.Violation{Key: "llvm-rejects/float-from-double", Input: text, What: "LLVM rejects a float constant built with constant.NewFloat(types.Float, x): " + firstLine(lastDiag(msg))})
		return
	}
	got := map[string]string{}
	for _, l := range strings.Split(out, "\n") {
		f := strings.Fields(l)
		if len(f) == 5 && strings.HasPrefix(f[0], "@f") {
			got[f[0][1:]] = f[4]
		}
	}
	for i, v := range vals {
		r.Eval(1)
		want := float64(float32(v))
		lit := got[fmt.Sprintf("f%d", i)]
		var have float64
		if strings.HasPrefix(lit, "0x") {
			bits, _ := strconv.ParseUint(lit[2:], 16, 64)
			have = math.Float64frombits(bits)
		} else {
			have, _ = strconv.ParseFloat(lit, 64)
		}
		if have != want {
			r.Violate(fw.Violation{Key: "float-from-double/not-nearest", Input: text, What: fmt.Sprintf("constant.NewFloat(types.Float, %v) prints a literal LLVM reads as %v; the nearest single is %v", v, have, want)})
			return
		}
	}
	r.Nontrivial(text)
	r.TallyN("constructors", "float-from-double", len(vals))
}

// c03HalfFromDouble is the same for half: constant.NewFloat(types.Half, x) must
// print the half nearest to x (ties to even), infinity from 65520 on, zero or a
// subnormal below 2^-14. The expected bits are computed here from math/big.
func c03HalfFromDouble(r *fw.Rec) {
	halfBits := func(x float64) uint16 {
		sign := uint16(0)
		if math.Signbit(x) {
			sign = 0x8000
		}
		a := math.Abs(x)
		switch {
		case a >= 65520:
			return sign | 0x7C00
		case a < 0x1p-14:
			return sign | uint16(math.RoundToEven(a*0x1p24))
		}
		f, _ := new(big.Float).SetPrec(11).SetFloat64(a).Float64()
		fr, e := math.Frexp(f) // f = fr * 2^e, fr in [0.5, 1)
		mant := uint16(fr*2048) & 0x3FF
		return sign | uint16(e-1+15)<<10 | mant
	}
	vals := []float64{0.1, -0.1, 1.0 / 3, 1.5, 65504, 65519.99, 65520, 1e5, 131008, 1e10, 1e38, 1e300, -1e300, 6e-8, 2.9e-8, 2.98023223876953125e-8, 3e-8, 1e-8, 6.1e-5, 6.097555160522461e-05, 2049, 2051, -0.0}
	m := ir.NewModule()
	for i, v := range vals {
		m.NewGlobalDef(fmt.Sprintf("h%d", i), constant.NewFloat(types.Half, v))
	}
	text, pp := printGuard(m)
	if pp != "" {
		r.Violate(fw.Violation{Key: "print-panics/half-from-double", What: firstLine(pp)})
		return
	}
	out, msg, ok, err := llvmref.Reading(text)
	if err != nil {
		r.Inconclusive("llvm tool failure")
		return
	}
	if !ok {
		r.Violate(fw.Violation{Key: "llvm-rejects/half-from-double", Input: text, What: "LLVM rejects a half constant built with constant.NewFloat(types.Half, x): " + firstLine(lastDiag(msg))})
		return
	}
	// bit patterns as LLVM reads them: bitcast to i16 is folded by llvm-as
	var probe strings.Builder
	for _, l := range strings.Split(out, "\n") {
		f := strings.Fields(l)
		if len(f) == 5 && strings.HasPrefix(f[0], "@h") {
			fmt.Fprintf(&probe, "%s = global i16 bitcast (half %s to i16)\n", f[0], f[4])
		}
	}
	out2, _, ok2, err2 := llvmref.Reading(probe.String())
	if err2 != nil || !ok2 {
		r.Inconclusive("llvm tool failure")
		return
	}
	got := map[string]uint16{}
	for _, l := range strings.Split(out2, "\n") {
		f := strings.Fields(l)
		if len(f) == 5 && strings.HasPrefix(f[0], "@h") {
			n, _ := strconv.ParseInt(f[4], 10, 32)
			got[f[0][1:]] = uint16(n)
		}
	}
	for i, v := range vals {
		r.Eval(1)
		have, seen := got[fmt.Sprintf("h%d", i)]
		if want := halfBits(v); !seen || have != want {
			r.Violate(fw.Violation{Key: "half-from-double/not-nearest", Input: text, What: fmt.Sprintf("constant.NewFloat(types.Half, %v) prints a literal LLVM reads as the bit pattern 0x%04X; the nearest half is 0x%04X", v, have, want)})
			return
		}
	}
	r.Nontrivial(text)
	r.TallyN("constructors", "half-from-double", len(vals))
}

// c03NamedAliases builds with named non-struct types (`%T = type i32*`,
// `%I = type i32`, `%V = type <2 x i32>`): the name is an alias of its body, so
// a value of type %T is a well-typed operand wherever i32* is, and the other way
// round; no constructor may reject the mix.
func c03NamedAliases(r *fw.Rec) {
	m := ir.NewModule()
	// (defined in the order of their names, the order the parser keeps them in)
	I := m.NewTypeDef("I", types.NewInt(32))
	S := m.NewTypeDef("S", types.NewStruct(types.NewPointer(types.I32), types.I32))
	T := m.NewTypeDef("T", types.NewPointer(types.I32))
	V := m.NewTypeDef("V", types.NewVector(2, types.I32))
	pp := types.NewPointer(types.NewPointer(types.I32))
	f := m.NewFunc("f", types.I32, ir.NewParam("p", T), ir.NewParam("q", pp), ir.NewParam("r", types.NewPointer(I)), ir.NewParam("i", I), ir.NewParam("v", V), ir.NewParam("s", S))
	b := f.NewBlock("entry")
	steps := []struct {
		name string
		fn   func()
	}{
		{"store-named-pointer-into-pointer-slot", func() { b.NewStore(f.Params[0], f.Params[1]) }},
		{"store-pointer-to-named-int-into-pointer-slot", func() { b.NewStore(f.Params[2], f.Params[1]) }},
		{"store-named-int-through-named-pointer", func() { b.NewStore(f.Params[3], f.Params[0]) }},
		{"store-int-through-pointer-to-named-int", func() { b.NewStore(ci(types.I32, 5), f.Params[2]) }},
		{"insertvalue-named-pointer-into-struct", func() { b.NewInsertValue(f.Params[5], f.Params[0], 0) }},
		{"insertvalue-named-int-into-struct", func() { b.NewInsertValue(f.Params[5], f.Params[3], 1) }},
		{"insertelement-named-int-into-named-vector", func() { b.NewInsertElement(f.Params[4], f.Params[3], ci(types.I32, 0)) }},
		{"icmp-named-pointer-with-pointer", func() { b.NewICmp(enum.IPredEQ, f.Params[0], f.Params[2]) }},
		{"select-named-and-plain", func() { b.NewSelect(constant.True, f.Params[0], f.Params[2]) }},
		{"add-named-int-and-int", func() { b.NewAdd(f.Params[3], ci(types.I32, 1)) }},
		{"phi-free-gep-on-named-pointer", func() { b.NewGetElementPtr(types.I32, f.Params[0], ci(types.I64, 1)) }},
		{"load-through-named-pointer", func() { b.NewLoad(types.I32, f.Params[0]) }},
	}
	for _, st := range steps {
		r.Eval(1)
		if p, msg, stack := fw.Guard(st.fn); p {
			r.Violate(fw.Violation{Key: "constructor-panics/named-alias/" + st.name, What: fmt.Sprintf("a well-typed construction with a named non-struct type (%s) is rejected by a constructor: %s", st.name, firstLine(msg)), Observed: trimStack(stack)})
			continue
		}
		r.Tally("constructors", "named-alias:"+st.name)
	}
	b.NewRet(f.Params[3])
	if p, msg, _ := fw.Guard(func() { c03CheckModule(r, "named-alias-types", m) }); p {
		r.Violate(fw.Violation{Key: "constructor-panics/named-alias-types", What: firstLine(msg)})
	}
}

// c03AddrSpaces sets the address space of a global, a function and an alloca
// after construction (the only way the API offers) and uses them: the uses
// must be printed with the pointer type in that address space.
func c03AddrSpaces(r *fw.Rec) {
	m := ir.NewModule()
	g := m.NewGlobalDef("g", ci(types.I32, 7))
	g.AddrSpace = 3
	callee := m.NewFunc("callee", types.I32, ir.NewParam("x", types.I32))
	callee.AddrSpace = 1
	callee.NewBlock("").NewRet(callee.Params[0])
	f := m.NewFunc("main", types.I32)
	b := f.NewBlock("entry")
	a := b.NewAlloca(types.I32)
	a.AddrSpace = 5
	v := b.NewLoad(types.I32, g)
	b.NewStore(v, a)
	w := b.NewLoad(types.I32, a)
	c := b.NewCall(callee, w)
	c.AddrSpace = 1 // LLVM wants the address space of the callee spelled on the call
	b.NewRet(c)
	if p, msg, _ := fw.Guard(func() { c03CheckModule(r, "address-spaces-set-after-construction", m) }); p {
		r.Violate(fw.Violation{Key: "constructor-panics/address-spaces-set-after-construction", What: firstLine(msg)})
	}
}

// c03BlockAddresses builds the uses of unnamed blocks from outside their
// function: a global initialised with the address of a numbered block (globals
// are printed before the function is numbered) and a function taking the
// address of a numbered block of a later function. The module is printed once
// (first print of a never printed module) and must be valid; a second print must
// agree.
func c03BlockAddresses(r *fw.Rec) {
	m := ir.NewModule()
	mk := func(name string) (*ir.Func, *ir.Block) {
		f := m.NewFunc(name, types.I32, ir.NewParam("", types.I32))
		entry := f.NewBlock("")
		v := entry.NewAdd(f.Params[0], ci(types.I32, 1))
		target := f.NewBlock("")
		entry.NewBr(target)
		target.NewRet(v)
		return f, target
	}
	g := m.NewGlobal("slot", types.I8Ptr) // placeholder, initialised below
	fa, ta := mk("a")
	user := m.NewFunc("user", types.I8Ptr)
	fb, tb := mk("b")
	g.Init = constant.NewBlockAddress(fa, ta)
	m.NewGlobalDef("table", constant.NewArray(types.NewArray(2, types.I8Ptr), constant.NewBlockAddress(fb, tb), constant.NewBlockAddress(fa, ta)))
	user.NewBlock("").NewRet(constant.NewBlockAddress(fb, tb))
	first, pp := printGuard(m)
	if pp != "" {
		r.Violate(fw.Violation{Key: "print-panic/blockaddress-of-numbered-block", What: firstLine(pp)})
		return
	}
	r.Eval(1)
	if ok, msg, err := llvmref.Accepts(first); err == nil && !ok {
		r.Violate(fw.Violation{Key: "llvm-rejects/blockaddress-of-numbered-block", Input: "c03BlockAddresses", What: "LLVM rejects the first print of a constructed module whose global initializers take the address of numbered blocks: " + firstLine(lastDiag(msg)), Observed: first})
		return
	}
	second, _ := printGuard(m)
	if second != first {
		r.Violate(fw.Violation{Key: "second-print-differs/blockaddress-of-numbered-block", Input: "c03BlockAddresses", What: "printing the constructed module twice gives two texts: " + firstDiffLines(first, second), Expected: first, Observed: second})
		return
	}
	c03CheckModule(r, "blockaddress-of-numbered-block", m)
	// the same between functions of a module without any global variable
	m2 := ir.NewModule()
	mk2 := func(name string) (*ir.Func, *ir.Block) {
		f := m2.NewFunc(name, types.I32, ir.NewParam("", types.I32))
		entry := f.NewBlock("")
		v := entry.NewAdd(f.Params[0], ci(types.I32, 1))
		target := f.NewBlock("")
		entry.NewBr(target)
		target.NewRet(v)
		return f, target
	}
	user2 := m2.NewFunc("user", types.I8Ptr)
	fb2, tb2 := mk2("later")
	user2.NewBlock("").NewRet(constant.NewBlockAddress(fb2, tb2))
	first2, pp2 := printGuard(m2)
	if pp2 != "" {
		r.Violate(fw.Violation{Key: "print-panic/blockaddress-of-numbered-block-no-globals", What: firstLine(pp2)})
		return
	}
	r.Eval(1)
	if ok, msg, err := llvmref.Accepts(first2); err == nil && !ok {
		r.Violate(fw.Violation{Key: "llvm-rejects/blockaddress-of-numbered-block-no-globals", Input: "c03BlockAddresses", What: "LLVM rejects the first print of a constructed module in which a function takes the address of a numbered block of a later function: " + firstLine(lastDiag(msg)), Observed: first2})
		return
	}
	if second2, _ := printGuard(m2); second2 != first2 {
		r.Violate(fw.Violation{Key: "second-print-differs/blockaddress-of-numbered-block-no-globals", Input: "c03BlockAddresses", What: "printing the constructed module twice gives two texts: " + firstDiffLines(first2, second2), Expected: first2, Observed: second2})
		return
	}
	c03CheckModule(r, "blockaddress-of-numbered-block-no-globals", m2)
}

var _ = strings.Contains

// c03Alignments: every alignment is printed, the smallest (1: packed fields,
// byte-wise access) and the largest LLVM knows (2^32) included, on loads,
// stores, allocas, globals and functions; the re-parsed module must carry the
// same alignments (structural comparison in c03CheckModule).
func c03Alignments(r *fw.Rec) {
	m := ir.NewModule()
	aligns := []uint64{1, 2, 4, 8, 16, 4096, 1 << 29, 1 << 32}
	for i, a := range aligns {
		g := m.NewGlobalDef(fmt.Sprintf("g%d", i), ci(types.I8, int64(i)))
		g.Align = ir.Align(a)
	}
	f := m.NewFunc("f", types.I8, ir.NewParam("p", types.I8Ptr), ir.NewParam("q", types.NewPointer(types.I32)))
	f.Align = 1
	b := f.NewBlock("entry")
	var last value.Value = ci(types.I8, 0)
	for _, a := range aligns {
		al := b.NewAlloca(types.I8)
		al.Align = ir.Align(a)
		ld := b.NewLoad(types.I8, f.Params[0])
		ld.Align = ir.Align(a)
		st := b.NewStore(ld, al)
		st.Align = ir.Align(a)
		last = ld
	}
	// atomic accesses need an alignment that is at least the size
	ald := b.NewLoad(types.I32, f.Params[1])
	ald.Atomic, ald.Ordering, ald.Align = true, enum.AtomicOrderingAcquire, 4
	ast := b.NewStore(ald, f.Params[1])
	ast.Atomic, ast.Ordering, ast.Align = true, enum.AtomicOrderingRelease, 4
	b.NewRet(last)
	g := m.NewFunc("one", types.Void)
	g.Align = 1 << 32
	g.NewBlock("").NewRet(nil)
	c03CheckModule(r, "alignments", m)
}

// c03SharedTypesUntouched: building and printing one module must not change what
// another module built afterwards means. A block address of a function in
// address space 1 is typed and printed; a second module that uses the
// predeclared types (types.I8Ptr ...) must then print like it does in a process
// that never saw the first, and be valid for LLVM.
func c03SharedTypesUntouched(r *fw.Rec) {
	second := func() (*ir.Module, string) {
		m := ir.NewModule()
		puts := m.NewFunc("puts", types.I32, ir.NewParam("s", types.I8Ptr))
		msg := m.NewGlobalDef("msg", constant.NewCharArrayFromString("hi\x00"))
		f := m.NewFunc("main", types.I32)
		b := f.NewBlock("")
		p := b.NewGetElementPtr(msg.ContentType, msg, ci(types.I64, 0), ci(types.I64, 0))
		b.NewCall(puts, p)
		slot := b.NewAlloca(types.I8Ptr)
		b.NewStore(p, slot)
		b.NewRet(ci(types.I32, 0))
		t, _ := printGuard(m)
		return m, t
	}
	_, ref := second()
	canary := c12Canary()
	r.Eval(1)
	pan, msg, _ := fw.Guard(func() {
		m := ir.NewModule()
		f := m.NewFunc("far", types.Void)
		f.AddrSpace = 1
		entry, target := f.NewBlock("entry"), f.NewBlock("target")
		entry.NewBr(target)
		target.NewRet(nil)
		ba := constant.NewBlockAddress(f, target)
		_ = ba.Type()
		m.NewGlobalDef("taken", ba)
		_ = m.String()
	})
	if pan {
		r.Violate(fw.Violation{Key: "constructor-panics/blockaddress-in-address-space", What: "a block address of a function in address space 1 cannot be built and printed: " + firstLine(msg)})
		return
	}
	if c := c12Canary(); c != canary {
		r.Violate(fw.Violation{Key: "shared-type-written/blockaddress-in-address-space", What: "building and printing a block address of a function in address space 1 changed a predeclared type or shared constant of the library", Expected: canary, Observed: c})
		return
	}
	var m2 *ir.Module
	var got string
	if pan, msg, _ := fw.Guard(func() { m2, got = second() }); pan {
		r.Violate(fw.Violation{Key: "shared-type-written/second-module-cannot-be-built", What: "after a module with a block address in address space 1 was printed, an unrelated module cannot be built: " + firstLine(msg)})
		return
	}
	if got != ref {
		r.Violate(fw.Violation{Key: "shared-type-written/second-module-prints-differently", What: "after a module with a block address in address space 1 was printed, an unrelated module prints differently: " + firstDiffLines(ref, got), Expected: ref, Observed: got})
		return
	}
	c03CheckModule(r, "second-module-after-blockaddress-in-address-space", m2)
}
