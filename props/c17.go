package props

import (
	"fmt"
	"math/rand"
	"reflect"
	"regexp"
	"sort"
	"strconv"
	"strings"

	"github.com/llir/llvm/ir"
	"github.com/llir/llvm/ir/constant"
	"github.com/llir/llvm/ir/metadata"
	"github.com/llir/llvm/ir/types"

	"verif/internal/corpus"
	"verif/internal/fw"
	"verif/internal/graph"
	"verif/internal/llvmref"
)

func init() {
	fw.Register(&fw.Check{
		ID:    "C17",
		Level: "exploration",
		Rule: "metadata graphs of 4-40 nodes are generated with a side table (payload string per node, reference lists, distinct flags, sparse explicit IDs, inline nodes, self/forward/cyclic references, attachments on globals, functions and instructions, named metadata defined 1-3 times). Text side: after asm.ParseString every reference slot must be the very object listed under that ID in MetadataDefs and carry the payload of the intended node, distinct and inline/numbered placement must be as written, repeated named metadata must be merged in textual order, and LLVM must read input and printed output alike (canonical form). API side: the same graph built through the Go API with a mix of explicit and unassigned (-1) IDs is printed: definitions must have unique IDs, explicit IDs must be kept, unassigned nodes must get the smallest unused IDs in list order, and the re-parsed module must be structurally identical. The clang -g corpus and the metadata atoms add realistic debug-info graphs: identity census on every reference, and reference conservation - for every ID N the number of `!N` reference tokens in the text must equal the number of edges of the parsed object graph that point at the object listed as !N (no reference dropped, copied into a fresh node, or bound to another object), and the same count for the printed text against the printed graph (no reference spelled out inline). " +
			"Corpus: `distinct` is written as often in the printed module as in the input and no reference is printed as `!-1`; every specialised node a metadata atom defines under a number is also tried inline in one more tuple (if LLVM accepts that); two parses of one text share no metadata object; the distinct flag of every numbered definition is conserved between input and output. " +
			"non-trivial = a graph with at least one forward or cyclic reference; distinct by graph text",
		Gen:           genC17,
		MinNontrivial: 100,
		Assumptions:   []string{"payload strings make the intended target of every reference observable without trusting IDs"},
		Exhaustive:    func(string) bool { return false },
	})
}

type mdNode struct {
	id       int   // explicit ID in the text
	refs     []int // indices of referenced nodes (-1 = null)
	distinct bool
	inline   []int // an inline tuple !{!"in<k>", refs...} appended as last field when non-nil
	payload  string
}

type mdGraph struct {
	nodes  []mdNode
	named  [][2]interface{} // (name, []int node indices) in textual order, names may repeat
	attG   []int            // attachment on global k -> node index
	attF   int              // attachment on the function (-1 none)
	attI   []int            // attachments on instructions
	hasFwd bool
	zeros  bool // IDs are spelled with leading zeros here and there (!007 is !7)
	nref   int
}

// idSpelling spells a metadata ID, with leading zeros at some sites of graphs
// that have the zeros flag.
func (g *mdGraph) idSpelling(id int) string {
	g.nref++
	if g.zeros && (g.nref*7+id)%3 == 0 {
		return fmt.Sprintf("!%0*d", 2+(g.nref+id)%3, id)
	}
	return fmt.Sprintf("!%d", id)
}

func genMDGraph(rng *rand.Rand) *mdGraph {
	n := 4 + rng.Intn(37)
	g := &mdGraph{attF: -1, zeros: rng.Intn(4) == 0}
	ids := rng.Perm(3 * n)[:n]
	for i := 0; i < n; i++ {
		nd := mdNode{id: ids[i], payload: fmt.Sprintf("node-%d", i), distinct: rng.Intn(4) == 0}
		for k := rng.Intn(4); k > 0; k-- {
			switch rng.Intn(8) {
			case 0:
				nd.refs = append(nd.refs, -1)
			case 1:
				nd.refs = append(nd.refs, i) // self reference
				nd.distinct = true
			default:
				nd.refs = append(nd.refs, rng.Intn(n))
			}
		}
		if rng.Intn(5) == 0 {
			nd.inline = []int{rng.Intn(n)}
		}
		g.nodes = append(g.nodes, nd)
	}
	// cycles need a distinct node somewhere on them: make every node on a cycle distinct (simple over-approximation: any
	// node that can reach itself)
	reach := func(from int) bool {
		seen := map[int]bool{}
		var st []int
		push := func(i int) {
			for _, r := range g.nodes[i].refs {
				if r >= 0 && !seen[r] {
					seen[r] = true
					st = append(st, r)
				}
			}
			for _, r := range g.nodes[i].inline {
				if !seen[r] {
					seen[r] = true
					st = append(st, r)
				}
			}
		}
		push(from)
		for len(st) > 0 {
			x := st[len(st)-1]
			st = st[:len(st)-1]
			if x == from {
				return true
			}
			push(x)
		}
		return false
	}
	for i := range g.nodes {
		if reach(i) {
			g.nodes[i].distinct = true
		}
	}
	for i, nd := range g.nodes {
		for _, r := range nd.refs {
			if r >= i {
				g.hasFwd = true
			}
		}
	}
	names := []string{"alpha", "beta", "llvm.stuff", "n10", "n9", "5", "0", "7x", "a b", "12", "x\\y"}
	nn := 1 + rng.Intn(4)
	for k := 0; k < nn; k++ {
		name := names[rng.Intn(len(names))]
		var list []int
		for j := rng.Intn(4); j >= 0; j-- {
			list = append(list, rng.Intn(n))
		}
		g.named = append(g.named, [2]interface{}{name, list})
	}
	for k := rng.Intn(3); k > 0; k-- {
		g.attG = append(g.attG, rng.Intn(n))
	}
	if rng.Intn(2) == 0 {
		g.attF = rng.Intn(n)
	}
	for k := rng.Intn(4); k > 0; k-- {
		g.attI = append(g.attI, rng.Intn(n))
	}
	return g
}

func (g *mdGraph) ref(i int) string {
	if i < 0 {
		return "null"
	}
	return g.idSpelling(g.nodes[i].id)
}

func (g *mdGraph) text(rng *rand.Rand) string {
	var top []string
	for _, nd := range g.nodes {
		fields := []string{fmt.Sprintf("!\"%s\"", nd.payload)}
		for _, r := range nd.refs {
			fields = append(fields, g.ref(r))
		}
		if nd.inline != nil {
			fields = append(fields, fmt.Sprintf("!{!\"inline\", %s}", g.ref(nd.inline[0])))
		}
		d := ""
		if nd.distinct {
			d = "distinct "
		}
		top = append(top, fmt.Sprintf("%s = %s!{%s}\n", g.idSpelling(nd.id), d, strings.Join(fields, ", ")))
	}
	rng.Shuffle(len(top), func(i, j int) { top[i], top[j] = top[j], top[i] })
	var sb strings.Builder
	// named metadata keep their textual order (merging is order sensitive) but are spread among the definitions
	pos := 0
	for _, nm := range g.named {
		step := 0
		if len(top)-pos > 0 {
			step = rng.Intn(len(top) - pos + 1)
		}
		for k := 0; k < step; k++ {
			sb.WriteString(top[pos])
			pos++
		}
		var rs []string
		for _, i := range nm[1].([]int) {
			rs = append(rs, g.ref(i))
		}
		fmt.Fprintf(&sb, "!%s = !{%s}\n", mdNameSpelling(nm[0].(string)), strings.Join(rs, ", "))
	}
	for ; pos < len(top); pos++ {
		sb.WriteString(top[pos])
	}
	for k, a := range g.attG {
		fmt.Fprintf(&sb, "@g%d = global i32 %d, !att %s\n", k, k, g.ref(a))
	}
	fatt := ""
	if g.attF >= 0 {
		fatt = fmt.Sprintf(" !fatt %s", g.ref(g.attF))
	}
	fmt.Fprintf(&sb, "define i32 @f(i32 %%x)%s {\n", fatt)
	prev := "%x"
	for k, a := range g.attI {
		fmt.Fprintf(&sb, "  %%v%d = add i32 %s, %d, !iatt %s\n", k, prev, k, g.ref(a))
		prev = fmt.Sprintf("%%v%d", k)
	}
	fmt.Fprintf(&sb, "  ret i32 %s\n}\n", prev)
	return sb.String()
}

func genC17(ctx *fw.Ctx) []fw.Case {
	var cases []fw.Case
	rng := ctx.Rand("c17")
	n := ctx.Pick(1500, 30000)
	for i := 0; i < n; i++ {
		seed := rng.Int63()
		cases = append(cases, fw.Case{ID: fmt.Sprintf("graph/%d", seed), Run: func(r *fw.Rec) { c17Graph(r, seed) }})
	}
	for _, s := range corpus.ClangSources(ctx.Thorough()) {
		s := s
		if strings.Contains(s.ID, "-g") {
			cases = append(cases, fw.Case{ID: s.ID, Run: func(r *fw.Rec) { c17Corpus(r, s) }})
		}
	}
	// every specialised node that an atom defines under a number is also tried inline
	// (as an element of one more tuple): the same fields, no ID
	for _, s := range corpus.AtomSources() {
		if strings.HasPrefix(s.ID, "atom/md/") {
			s := s
			cases = append(cases, fw.Case{ID: s.ID + "/inline-variant", Run: func(r *fw.Rec) { c17InlineVariant(r, s) }})
		}
	}
	for _, s := range corpus.AtomSources() {
		s := s
		if strings.HasPrefix(s.ID, "atom/md/") {
			cases = append(cases, fw.Case{ID: s.ID, Run: func(r *fw.Rec) { c17Corpus(r, s) }})
		}
	}
	return cases
}

func payloadOf(d metadata.Definition) string {
	t, ok := d.(*metadata.Tuple)
	if !ok || len(t.Fields) == 0 {
		return ""
	}
	if s, ok := t.Fields[0].(*metadata.String); ok {
		return s.Value
	}
	return ""
}

func c17Graph(r *fw.Rec, seed int64) {
	rng := rand.New(rand.NewSource(seed))
	g := genMDGraph(rng)
	text := g.text(rng)
	key := func(k string) string { return "text/" + k }
	r.Eval(1)
	canonX, msg, ok, _, err := llvmref.Canon(text)
	if err != nil {
		r.Inconclusive("llvm tool failure")
		return
	}
	if !ok {
		r.Inconclusive("generated metadata graph rejected by LLVM (generator at fault): " + classify(firstLine(lastDiag(msg))))
		r.Note("graph rejected: " + firstLine(lastDiag(msg)))
		return
	}
	m, perr, pmsg := parseGuard("c17", text)
	if pmsg != "" || perr != nil {
		what := pmsg
		if perr != nil {
			what = perr.Error()
		}
		r.Violate(fw.Violation{Key: key("rejected/" + classify(firstLine(what))), Input: text, What: "a metadata graph LLVM accepts is rejected: " + firstLine(what)})
		return
	}
	byID := map[int64]metadata.Definition{}
	for _, d := range m.MetadataDefs {
		if _, dup := byID[int64(d.ID())]; dup {
			r.Violate(fw.Violation{Key: key("duplicate-id-in-list"), Input: text, What: fmt.Sprintf("MetadataDefs lists ID !%d twice", d.ID())})
			return
		}
		byID[int64(d.ID())] = d
	}
	bad := false
	fail := func(k, what string) {
		if !bad {
			r.Violate(fw.Violation{Key: key(k), Input: text, What: what})
		}
		bad = true
	}
	checkRef := func(where string, got interface{}, want int) {
		if want < 0 {
			if _, isNull := got.(*metadata.NullLit); !isNull {
				fail("null-lost", fmt.Sprintf("%s: null field became %T", where, got))
			}
			return
		}
		wantObj := byID[int64(g.nodes[want].id)]
		gd, isDef := got.(metadata.Definition)
		if !isDef {
			fail("ref-not-node", fmt.Sprintf("%s: reference to !%d is a %T", where, g.nodes[want].id, got))
			return
		}
		if gd != wantObj {
			fail("ref-identity", fmt.Sprintf("%s: reference to !%d is not the object listed under that ID in MetadataDefs (it is a node with ID %d, payload %q)", where, g.nodes[want].id, gd.ID(), payloadOf(gd)))
			return
		}
		if payloadOf(gd) != g.nodes[want].payload {
			fail("ref-wrong-target", fmt.Sprintf("%s: reference to !%d carries payload %q, the intended node has %q", where, g.nodes[want].id, payloadOf(gd), g.nodes[want].payload))
		}
		r.Tally("references", "identity+payload-checked")
	}
	for i, nd := range g.nodes {
		d := byID[int64(nd.id)]
		if d == nil {
			fail("definition-missing", fmt.Sprintf("definition !%d is not in MetadataDefs", nd.id))
			continue
		}
		t, ok := d.(*metadata.Tuple)
		if !ok {
			fail("not-tuple", fmt.Sprintf("!%d is a %T", nd.id, d))
			continue
		}
		if payloadOf(d) != nd.payload {
			fail("payload", fmt.Sprintf("!%d has payload %q, want %q", nd.id, payloadOf(d), nd.payload))
			continue
		}
		if t.Distinct != nd.distinct {
			fail("distinct", fmt.Sprintf("!%d: distinct=%v in the module, %v in the text", nd.id, t.Distinct, nd.distinct))
		}
		want := 1 + len(nd.refs)
		if nd.inline != nil {
			want++
		}
		if len(t.Fields) != want {
			fail("field-count", fmt.Sprintf("!%d has %d fields, the text has %d", nd.id, len(t.Fields), want))
			continue
		}
		for k, rf := range nd.refs {
			checkRef(fmt.Sprintf("!%d field %d", nd.id, k+1), t.Fields[1+k], rf)
		}
		if nd.inline != nil {
			in, ok := t.Fields[len(t.Fields)-1].(*metadata.Tuple)
			if !ok || in.ID() != -1 {
				fail("inline-became-numbered", fmt.Sprintf("!%d: the inline tuple is %T with ID %v", nd.id, t.Fields[len(t.Fields)-1], in))
			} else if len(in.Fields) == 2 {
				checkRef(fmt.Sprintf("!%d inline tuple", nd.id), in.Fields[1], nd.inline[0])
				for _, d2 := range m.MetadataDefs {
					if d2 == metadata.Definition(in) {
						fail("inline-listed", fmt.Sprintf("!%d: the inline tuple is listed in MetadataDefs", nd.id))
					}
				}
			}
		}
		_ = i
	}
	// named metadata merged in textual order
	wantNamed := map[string][]int{}
	var order []string
	for _, nm := range g.named {
		name := nm[0].(string)
		if _, ok := wantNamed[name]; !ok {
			order = append(order, name)
		}
		wantNamed[name] = append(wantNamed[name], nm[1].([]int)...)
	}
	if len(m.NamedMetadataDefs) != len(wantNamed) {
		fail("named-count", fmt.Sprintf("%d named metadata definitions, want %d", len(m.NamedMetadataDefs), len(wantNamed)))
	}
	for name, want := range wantNamed {
		nd := m.NamedMetadataDefs[name]
		if nd == nil {
			fail("named-missing", "named metadata !"+name+" is missing")
			continue
		}
		if len(nd.Nodes) != len(want) {
			fail("named-merge", fmt.Sprintf("named metadata !%s has %d nodes after merging, want %d", name, len(nd.Nodes), len(want)))
			continue
		}
		for k, w := range want {
			checkRef(fmt.Sprintf("named metadata !%s node %d", name, k), nd.Nodes[k], w)
		}
		if len(want) > 0 {
			r.Tally("named_metadata", "merged-and-checked")
		}
	}
	// attachments
	for k, a := range g.attG {
		for _, gl := range m.Globals {
			if gl.GlobalName == fmt.Sprintf("g%d", k) && len(gl.Metadata) == 1 {
				checkRef("attachment on @"+gl.GlobalName, gl.Metadata[0].Node, a)
			}
		}
	}
	f := m.Funcs[0]
	if g.attF >= 0 {
		if len(f.Metadata) != 1 {
			fail("func-attachment", "function attachment missing")
		} else {
			checkRef("attachment on @f", f.Metadata[0].Node, g.attF)
		}
	}
	for k, a := range g.attI {
		if add, ok := f.Blocks[0].Insts[k].(*ir.InstAdd); ok && len(add.Metadata) == 1 {
			checkRef(fmt.Sprintf("attachment on instruction %d", k), add.Metadata[0].Node, a)
		} else {
			fail("inst-attachment", "instruction attachment missing")
		}
	}
	if bad {
		return
	}
	// print: unique IDs, explicit IDs kept; LLVM reads both alike
	y, pp := printGuard(m)
	if pp != "" {
		r.Violate(fw.Violation{Key: key("print-panic"), Input: text, What: "printing panics: " + firstLine(pp)})
		return
	}
	if what := c17PrintedIDs(y, func(id int) (string, bool) {
		d := byID[int64(id)]
		if d == nil {
			return "", false
		}
		return payloadOf(d), true
	}); what != "" {
		r.Violate(fw.Violation{Key: key("printed-ids"), Input: text, What: what, Observed: y})
		return
	}
	canonY, msgY, okY, _, err := llvmref.Canon(y)
	if err == nil {
		if !okY {
			r.Violate(fw.Violation{Key: key("printed-invalid"), Input: text, What: "LLVM rejects the printed metadata: " + firstLine(lastDiag(msgY)), Observed: y})
			return
		}
		if canonX != canonY {
			r.Violate(fw.Violation{Key: key("meaning-changed"), Input: text, What: "LLVM reads the printed metadata graph differently, " + llvmref.DiffLines(canonX, canonY), Expected: canonX, Observed: canonY})
			return
		}
	}
	if g.hasFwd {
		r.Nontrivial(text)
	}
	r.Tally("graphs", "text-side")
	// API side
	c17API(r, g, rng)
	if seed%40 == 0 {
		r.Sample(map[string]interface{}{"nodes": len(g.nodes), "named": len(g.named), "first_lines": strings.Split(text, "\n")[:min(4, len(g.nodes))]})
	}
}

var reMDDefLine = regexp.MustCompile(`(?m)^!([0-9]+) = (distinct )?!\{(.*)\}$`)

// c17PrintedIDs checks uniqueness of printed definition IDs and, given a
// payload oracle for explicit IDs, that explicit IDs kept their node.
func c17PrintedIDs(y string, payload func(id int) (string, bool)) string {
	seen := map[int]bool{}
	for _, mm := range reMDDefLine.FindAllStringSubmatch(y, -1) {
		id, _ := strconv.Atoi(mm[1])
		if seen[id] {
			return fmt.Sprintf("the printed module defines !%d twice", id)
		}
		seen[id] = true
		if payload != nil {
			if p, ok := payload(id); ok && p != "" && !strings.Contains(mm[3], "!\""+p+"\"") {
				return fmt.Sprintf("definition printed as !%d does not carry the payload %q of the node explicitly numbered %d", id, p, id)
			}
		}
	}
	return ""
}

// c17API builds the same graph through the Go API with a mix of explicit and
// unassigned IDs.
func c17API(r *fw.Rec, g *mdGraph, rng *rand.Rand) {
	m := ir.NewModule()
	nodes := make([]*metadata.Tuple, len(g.nodes))
	explicit := map[int]bool{}
	for i, nd := range g.nodes {
		t := &metadata.Tuple{MetadataID: -1, Distinct: nd.distinct}
		if rng.Intn(2) == 0 {
			t.MetadataID = metadata.MetadataID(nd.id)
			explicit[nd.id] = true
		}
		nodes[i] = t
	}
	for i, nd := range g.nodes {
		t := nodes[i]
		t.Fields = append(t.Fields, &metadata.String{Value: nd.payload})
		for _, rf := range nd.refs {
			if rf < 0 {
				t.Fields = append(t.Fields, metadata.Null)
			} else {
				t.Fields = append(t.Fields, nodes[rf])
			}
		}
		if nd.inline != nil {
			t.Fields = append(t.Fields, &metadata.Tuple{MetadataID: -1, Fields: []metadata.Field{&metadata.String{Value: "inline"}, nodes[nd.inline[0]]}})
		}
		m.MetadataDefs = append(m.MetadataDefs, t)
	}
	for _, nm := range g.named {
		name := nm[0].(string)
		nd := m.NamedMetadataDefs[name]
		if nd == nil {
			nd = &metadata.NamedDef{Name: name}
			m.NamedMetadataDefs[name] = nd
		}
		for _, i := range nm[1].([]int) {
			nd.Nodes = append(nd.Nodes, nodes[i])
		}
	}
	gl := m.NewGlobalDef("g", constant.NewInt(types.I32, 0))
	if len(g.nodes) > 0 {
		gl.Metadata = append(gl.Metadata, &metadata.Attachment{Name: "att", Node: nodes[0]})
	}
	// reference allocation: smallest unused IDs in list order
	want := make([]int, len(nodes))
	next := 0
	for i, t := range nodes {
		if t.MetadataID != -1 {
			want[i] = int(t.MetadataID)
			continue
		}
		for explicit[next] {
			next++
		}
		want[i] = next
		explicit[next] = true
	}
	y, pp := printGuard(m)
	r.Eval(1)
	if pp != "" {
		r.Violate(fw.Violation{Key: "api/print-panic", What: "printing an API-built metadata graph panics: " + firstLine(pp)})
		return
	}
	for i, t := range nodes {
		if int(t.MetadataID) != want[i] {
			r.Violate(fw.Violation{Key: "api/id-allocation", Input: y,
				What: fmt.Sprintf("node %d (payload %s): ID %d after printing, the reference allocator (explicit IDs kept, unassigned nodes get the smallest unused IDs in list order) gives %d", i, g.nodes[i].payload, t.MetadataID, want[i])})
			return
		}
	}
	byPayload := map[int]string{}
	for i, t := range nodes {
		byPayload[int(t.MetadataID)] = g.nodes[i].payload
	}
	if what := c17PrintedIDs(y, func(id int) (string, bool) { p, ok := byPayload[id]; return p, ok }); what != "" {
		r.Violate(fw.Violation{Key: "api/printed-ids", Input: y, What: what})
		return
	}
	m2, perr, pmsg := parseGuard("c17api", y)
	if pmsg != "" || perr != nil {
		what := pmsg
		if perr != nil {
			what = perr.Error()
		}
		r.Violate(fw.Violation{Key: "api/reparse", Input: y, What: "the printed API-built graph is rejected by the parser: " + firstLine(what)})
		return
	}
	// the parser lists definitions by ascending ID; bring the constructed list into the same order for the comparison
	sort.SliceStable(m.MetadataDefs, func(i, j int) bool { return m.MetadataDefs[i].ID() < m.MetadataDefs[j].ID() })
	m.String()
	m2.String()
	sa, sb := graph.Serialize(m, graph.Options{}), graph.Serialize(m2, graph.Options{})
	if sa != sb {
		r.Violate(fw.Violation{Key: "api/structure", Input: y, What: "the re-parsed module is not structurally identical to the constructed one: " + graph.FirstDiff(sa, sb)})
		return
	}
	r.Tally("graphs", "api-side")
}

// c17Corpus runs the identity census and the printed-ID check on realistic
// debug-info graphs.
func c17Corpus(r *fw.Rec, s corpus.Source) {
	text, err := s.Text()
	if err != nil {
		r.Inconclusive("source unavailable")
		return
	}
	m, perr, pmsg := parseGuard(s.ID, text)
	if pmsg != "" || perr != nil {
		r.Tally("corpus", "not-accepted")
		return
	}
	r.Eval(1)
	c := graph.CheckIdentity(m)
	for _, p := range c.Problems {
		if strings.Contains(p, "metadata") {
			r.Violate(fw.Violation{Key: "corpus-identity/" + s.ID, Input: text, What: p})
			return
		}
	}
	// reference conservation: every `!N` written in the text is exactly one edge
	// to the object defined as !N (none dropped, copied, or bound elsewhere)
	if key, what := c17RefConservation(text, m); key != "" {
		r.Violate(fw.Violation{Key: "corpus-" + key + "/" + s.ID, Input: text, What: what})
		return
	}
	// the lists of a parsed module are its nodes' own: no two of them share
	// storage behind their ends (appending a field to one tuple would overwrite
	// the first reference of another: identity with the definition lost by an edit
	// of something else)
	if what := overlappingSlices(m); what != "" {
		r.Violate(fw.Violation{Key: "corpus-lists-share-storage/" + s.ID, Input: text, What: what})
		return
	}
	r.Tally("references", "corpus:lists-with-storage-of-their-own")
	r.TallyN("references", "corpus:ref.metadata", c.Refs["ref.metadata"])
	r.TallyN("references", "corpus:cyclic.metadata", c.Refs["cyclic.metadata"])
	// distinctness: `!N = distinct ...` in the text, Distinct on the definition !N (and only there)
	{
		wantDistinct := map[int64]bool{}
		for _, mm := range reDistinctDef.FindAllStringSubmatch(text, -1) {
			id, _ := strconv.ParseInt(mm[1], 10, 64)
			wantDistinct[id] = mm[2] != ""
		}
		for _, def := range m.MetadataDefs {
			want, listed := wantDistinct[def.ID()]
			if !listed {
				continue
			}
			rv := reflect.ValueOf(def)
			if rv.Kind() != reflect.Ptr || rv.Elem().Kind() != reflect.Struct {
				continue
			}
			f := rv.Elem().FieldByName("Distinct")
			if !f.IsValid() || f.Kind() != reflect.Bool {
				continue
			}
			if f.Bool() != want {
				r.Violate(fw.Violation{Key: "corpus-distinct/" + s.ID, Input: text, What: fmt.Sprintf("!%d (%T) is written distinct=%v and parsed with Distinct=%v", def.ID(), def, want, f.Bool())})
				return
			}
			r.Tally("references", "corpus:distinct-flag-as-written")
		}
	}
	// the nodes of a parsed module are its own: a second parse of the same text
	// shares no metadata object with the first (a node shared between modules is
	// numbered, edited and printed by both)
	if mTwin, e2, p2 := parseGuard(s.ID, text); p2 == "" && e2 == nil && mTwin != nil {
		o1, o2 := graph.MetadataObjects(m), graph.MetadataObjects(mTwin)
		for p, typ := range o1 {
			if _, shared := o2[p]; shared {
				r.Violate(fw.Violation{Key: "corpus-node-shared-between-parses/" + s.ID, Input: text, What: "two parses of the same text share a metadata object of type " + typ + ": the nodes of a module are not its own"})
				return
			}
		}
		r.TallyN("references", "corpus:objects-not-shared-between-parses", len(o1))
	}
	y, pp := printGuard(m)
	if pp != "" {
		return
	}
	// the same conservation on the printing side: every edge to a numbered
	// definition is written as `!N` (not spelled out inline, not dropped)
	if key, what := c17RefConservation(y, m); key != "" {
		r.Violate(fw.Violation{Key: "corpus-printed-" + key + "/" + s.ID, Input: text, What: "in the printed module, " + what, Observed: y})
		return
	}
	// `distinct` is written as often in the printed module as in the input (a
	// node that is inline in the input is never distinct), and no reference is
	// printed with the ID of an unnumbered node
	if nx, ny := countDistinct(text), countDistinct(y); nx != ny {
		r.Violate(fw.Violation{Key: "corpus-distinct-count/" + s.ID, Input: text, What: fmt.Sprintf("the input writes `distinct` %d times, the printed module %d times", nx, ny), Observed: y})
		return
	}
	// inline versus numbered placement: per kind, as many specialised nodes are
	// spelled out inline (anywhere but at the head of a definition `!N = `) in the
	// printed module as in the input; a node put around a reference, or a
	// definition spelled out where it was referred to, changes the counts
	{
		ix, iy := inlineNodeKinds(text), inlineNodeKinds(y)
		var kinds []string
		for k := range ix {
			kinds = append(kinds, k)
		}
		for k := range iy {
			if _, ok := ix[k]; !ok {
				kinds = append(kinds, k)
			}
		}
		sort.Strings(kinds)
		for _, k := range kinds {
			if ix[k] != iy[k] {
				r.Violate(fw.Violation{Key: "corpus-inline-placement/" + s.ID, Input: text, What: fmt.Sprintf("the input spells out %d nodes !%s(...) inline, the printed module %d", ix[k], k, iy[k]), Observed: y})
				return
			}
		}
		r.TallyN("references", "corpus:inline-node-kinds-conserved", len(kinds))
	}
	if strings.Contains(y, "!-1") {
		r.Violate(fw.Violation{Key: "corpus-unnumbered-reference/" + s.ID, Input: text, What: "the printed module refers to `!-1`: a node without an ID is printed as a reference instead of being spelled out", Observed: y})
		return
	}
	// print and parse back: the metadata graph must be the same (distinct flags,
	// fields, sharing), judged on the structural serialisation of both modules
	if m2, e2, p2 := parseGuard(s.ID, y); p2 == "" && e2 == nil {
		m2.String()
		if sa, sb := graph.Serialize(m, graph.Options{}), graph.Serialize(m2, graph.Options{}); sa != sb {
			r.Violate(fw.Violation{Key: "corpus-reparse-structure/" + s.ID, Input: text, What: "the printed module parses back to another graph: " + graph.FirstDiff(sa, sb), Observed: y})
			return
		}
		r.Tally("corpus", "reparsed-structurally-identical")
	}
	seen := map[string]bool{}
	for _, line := range strings.Split(y, "\n") {
		if len(line) > 1 && line[0] == '!' && line[1] >= '0' && line[1] <= '9' {
			id := line[:strings.Index(line, " ")]
			if seen[id] {
				r.Violate(fw.Violation{Key: "corpus-duplicate-id/" + s.ID, Input: text, What: "the printed module defines " + id + " twice"})
				return
			}
			seen[id] = true
		}
	}
	kinds := map[string]bool{}
	for _, d := range m.MetadataDefs {
		kinds[fmt.Sprintf("%T", d)] = true
	}
	for k := range kinds {
		r.Tally("node_kinds", strings.TrimPrefix(k, "*metadata."))
	}
	if c.Refs["cyclic.metadata"] > 0 {
		r.Nontrivial(s.ID)
	}
	r.Sample(map[string]interface{}{"corpus": s.ID, "metadata_definitions": len(m.MetadataDefs), "references_checked": c.Refs["ref.metadata"]})
}

var (
	reC17Quoted     = regexp.MustCompile(`"[^"]*"`)
	reC17NodeHead   = regexp.MustCompile(`!([A-Z][A-Za-z]*)\(`)
	reC17DefHead    = regexp.MustCompile(`^![0-9]+ = (distinct )?!([A-Z][A-Za-z]*)\(`)
	reC17LineRemark = regexp.MustCompile(`;[^"]*$`)
)

// inlineNodeKinds counts, per kind, the specialised nodes written inline in the
// text: every `!Kind(` except the one a definition line `!N = [distinct] !Kind(`
// starts with. Strings and trailing comments are taken out first.
func inlineNodeKinds(text string) map[string]int {
	out := map[string]int{}
	for _, line := range strings.Split(text, "\n") {
		line = reC17Quoted.ReplaceAllString(line, `""`)
		line = reC17LineRemark.ReplaceAllString(line, "")
		for _, mm := range reC17NodeHead.FindAllStringSubmatch(line, -1) {
			out[mm[1]]++
		}
		if mm := reC17DefHead.FindStringSubmatch(strings.TrimLeft(line, " \t")); mm != nil {
			out[mm[2]]--
		}
	}
	for k, n := range out {
		if n == 0 {
			delete(out, k)
		}
	}
	return out
}

// c17RefConservation compares the `!N` references of the text with the edges of
// the parsed graph.
func c17RefConservation(text string, m *ir.Module) (key, what string) {
	trefs, tdefs := graph.TextMDRefs(text)
	grefs, unlisted := graph.GraphMDRefs(m)
	if len(unlisted) > 0 {
		return "ref-to-unlisted-definition", fmt.Sprintf("the parsed graph references a numbered definition !%d that is not the object listed under that ID in Module.MetadataDefs", unlisted[0])
	}
	ids := map[int64]bool{}
	for id := range trefs {
		ids[id] = true
	}
	for id := range grefs {
		ids[id] = true
	}
	var sorted []int64
	for id := range ids {
		sorted = append(sorted, id)
	}
	sort.Slice(sorted, func(i, j int) bool { return sorted[i] < sorted[j] })
	for _, id := range sorted {
		if tdefs[id] == 0 {
			continue // not a definition of this module (reported under C05 when referenced)
		}
		if trefs[id] != grefs[id] {
			return "ref-count", fmt.Sprintf("the text refers to !%d %d times, the parsed graph has %d edges to the object defined as !%d", id, trefs[id], grefs[id], id)
		}
	}
	return "", ""
}

// reDistinctDef matches a numbered metadata definition line: ID and whether
// the node is written distinct.
var reDistinctDef = regexp.MustCompile(`(?m)^!([0-9]+) = (distinct )?!`)

var reDistinctWord = regexp.MustCompile(`\bdistinct !`)

// countDistinct counts the `distinct` keywords of a module text (strings cannot
// contain the sequence unescaped next to `!{` or `!DI`, names are not followed by " !").
func countDistinct(text string) int {
	n := 0
	for _, line := range strings.Split(text, "\n") {
		if i := strings.Index(line, ";"); i >= 0 && !strings.Contains(line[:i], "\"") {
			line = line[:i]
		}
		n += len(reDistinctWord.FindAllString(line, -1))
	}
	return n
}

var reSpecializedDef = regexp.MustCompile(`(?m)^!([0-9]+) = (?:distinct )?(!(?:DI[A-Za-z]+|GenericDINode)\(.*\))$`)

// c17InlineVariant appends to a metadata atom one tuple that holds an inline
// copy of every specialised node the atom defines (compile units must be
// distinct and are left out) and runs the corpus checks on the result, if LLVM
// accepts it.
func c17InlineVariant(r *fw.Rec, s corpus.Source) {
	text, err := s.Text()
	if err != nil {
		return
	}
	var inl []string
	for _, m := range reSpecializedDef.FindAllStringSubmatch(text, -1) {
		if strings.HasPrefix(m[2], "!DICompileUnit(") {
			continue
		}
		inl = append(inl, m[2])
	}
	if len(inl) == 0 {
		return
	}
	try := func(nodes []string, tag string) bool {
		v := strings.TrimRight(text, "\n") + "\n!verif.inline = !{!987650}\n!987650 = !{" + strings.Join(nodes, ", ") + "}\n"
		ok, _, err := llvmref.Accepts(v)
		if err != nil || !ok {
			return false
		}
		c17Corpus(r, corpus.Source{ID: s.ID + "/inline-variant" + tag, Text: func() (string, error) { return v, nil }})
		r.TallyN("inline_variants", "nodes-tried-inline", len(nodes))
		return true
	}
	if try(inl, "") {
		return
	}
	// some node cannot stand inline (LLVM's verdict): one variant per node
	for i, n := range inl {
		if !try([]string{n}, fmt.Sprintf("/%d", i)) {
			r.Tally("inline_variants", "not-valid-inline-for-llvm")
		}
	}
}
