package props

import (
	"fmt"
	"go/ast"
	"go/constant"
	"go/importer"
	"go/parser"
	"go/token"
	gotypes "go/types"
	"path/filepath"
	"reflect"
	"regexp"
	"sort"
	"strings"

	asmenum "github.com/llir/llvm/asm/enum"
	"github.com/llir/llvm/ir"
	irconst "github.com/llir/llvm/ir/constant"
	"github.com/llir/llvm/ir/enum"
	"github.com/llir/llvm/ir/metadata"
	"github.com/llir/llvm/ir/types"
	"github.com/llir/llvm/ir/value"

	"verif/internal/fw"
	"verif/internal/llvmref"
)

func init() {
	fw.Register(&fw.Check{
		ID:    "C18",
		Level: "exploration",
		Rule: "the constants of every enumerated type are read from the current /repo/ir/enum/*.go and /repo/ir/types/types.go with go/types (domain only); each defined value v is printed with String(), read back with asmenum.XxxFromString, checked for the Type(N) fall-back and for keyword clashes, then placed in its host construct of a minimal module built through the API, printed, re-parsed with asm.ParseString (value must come back) and offered to llvm-as. " +
			"flag sets: all subsets of AllocKind and DISPFlag members, all DIFlag subsets of size<=2 (quick) / <=3 (thorough) plus PRNG subsets, crossed with the accessibility and inheritance sub-fields, printed inside their metadata node and re-parsed. " +
			"header combinations: linkage x preemption x visibility x DLL storage class x unnamed_addr (x TLS model) on globals, global declarations, function declarations, definitions and aliases; the combinations llvm-as accepts (on a text written by the monitor) are set through the API, printed, re-parsed and every field compared. " +
			"keyword lists edited in place share no storage between instructions. contexts: every function attribute with a payload in a function header, on a call site and in an attribute group; call-site calling conventions (keywords, 77, and 101/200/1023 which have no keyword) on call and invoke against every callee convention; the virtuality of a subprogram next to six spFlags sets and two flags sets. " +
			"non-trivial = a defined value other than the zero/none member, or a non-empty flag set; distinct by (type, value)",
		Gen:           genC18,
		MinNontrivial: 300,
		Assumptions: []string{"the domain (which constants exist) is taken from the source of the current tree; a value that exists only on the parser side is out of view",
			"a host module LLVM rejects (keyword combinations LLVM 14 forbids or does not know) is counted as not cross-checked by LLVM, never as a violation"},
		Exhaustive: func(string) bool { return false },
	})
}

type enumConst struct {
	Name string
	Val  int64
}

// enumDomain returns, for every named integer type declared in dir, its
// constants (in declaration order).
func enumDomain(dir string) (map[string][]enumConst, error) {
	fset := token.NewFileSet()
	files, err := filepath.Glob(filepath.Join(dir, "*.go"))
	if err != nil {
		return nil, err
	}
	var asts []*ast.File
	pkgName := ""
	for _, f := range files {
		if strings.HasSuffix(f, "_test.go") {
			continue
		}
		a, err := parser.ParseFile(fset, f, nil, 0)
		if err != nil {
			return nil, err
		}
		if strings.HasSuffix(a.Name.Name, "_test") {
			continue
		}
		// honour //go:build ignore style files (tools.go)
		skip := false
		for _, cg := range a.Comments {
			for _, c := range cg.List {
				if strings.HasPrefix(c.Text, "//go:build") && (strings.Contains(c.Text, "tools") || strings.Contains(c.Text, "ignore")) && c.Pos() < a.Package {
					skip = true
				}
			}
		}
		if skip {
			continue
		}
		if pkgName == "" {
			pkgName = a.Name.Name
		}
		if a.Name.Name != pkgName {
			continue
		}
		asts = append(asts, a)
	}
	conf := gotypes.Config{Importer: importer.ForCompiler(fset, "source", nil), Error: func(error) {}}
	pkg, _ := conf.Check(pkgName, fset, asts, nil)
	if pkg == nil {
		return nil, fmt.Errorf("cannot type-check %s", dir)
	}
	out := map[string][]enumConst{}
	type pc struct {
		pos token.Pos
		t   string
		c   enumConst
	}
	var all []pc
	for _, name := range pkg.Scope().Names() {
		obj, ok := pkg.Scope().Lookup(name).(*gotypes.Const)
		if !ok {
			continue
		}
		named, ok := obj.Type().(*gotypes.Named)
		if !ok || named.Obj().Pkg() != pkg {
			continue
		}
		v, exact := constant.Int64Val(constant.ToInt(obj.Val()))
		if !exact {
			if u, ok := constant.Uint64Val(constant.ToInt(obj.Val())); ok {
				v = int64(u)
			} else {
				continue
			}
		}
		all = append(all, pc{obj.Pos(), named.Obj().Name(), enumConst{Name: name, Val: v}})
	}
	sort.Slice(all, func(i, j int) bool { return all[i].pos < all[j].pos })
	for _, p := range all {
		out[p.t] = append(out[p.t], p.c)
	}
	return out, nil
}

// enumAdapter ties a type name to the real String and FromString functions.
type enumAdapter struct {
	str  func(v int64) string
	from func(s string) int64
	// host builds a minimal module holding v in its natural position and
	// returns a reader of that position for any (re-parsed) module. nil = no
	// host (checked by String/FromString only).
	host func(v int64) (*ir.Module, func(m *ir.Module) (int64, bool))
	// skipHost reports values that have no textual form in a host (zero/none).
	skipHost func(v int64) bool
}

func c18GlobalHost(set func(g *ir.Global, v int64), get func(g *ir.Global) int64) func(v int64) (*ir.Module, func(m *ir.Module) (int64, bool)) {
	return func(v int64) (*ir.Module, func(m *ir.Module) (int64, bool)) {
		m := ir.NewModule()
		g := m.NewGlobalDef("g", irconst.NewInt(types.I32, 0))
		set(g, v)
		return m, func(m *ir.Module) (int64, bool) {
			if len(m.Globals) != 1 {
				return 0, false
			}
			return get(m.Globals[0]), true
		}
	}
}

func c18FuncHost(set func(f *ir.Func, v int64), get func(f *ir.Func) (int64, bool)) func(v int64) (*ir.Module, func(m *ir.Module) (int64, bool)) {
	return func(v int64) (*ir.Module, func(m *ir.Module) (int64, bool)) {
		m := ir.NewModule()
		f := m.NewFunc("f", types.Void, ir.NewParam("p", types.I8Ptr))
		set(f, v)
		return m, func(m *ir.Module) (int64, bool) {
			if len(m.Funcs) != 1 {
				return 0, false
			}
			return get(m.Funcs[0])
		}
	}
}

// c18InstHost: function f(i32 %x, i32 %y, float %a, float %b, i32* %p) whose
// entry block starts with the instruction built by mk.
func c18InstHost(mk func(b *ir.Block, f *ir.Func, v int64), get func(inst ir.Instruction) (int64, bool)) func(v int64) (*ir.Module, func(m *ir.Module) (int64, bool)) {
	return func(v int64) (*ir.Module, func(m *ir.Module) (int64, bool)) {
		m := ir.NewModule()
		f := m.NewFunc("f", types.Void, ir.NewParam("x", types.I32), ir.NewParam("y", types.I32),
			ir.NewParam("a", types.Float), ir.NewParam("b", types.Float), ir.NewParam("p", types.NewPointer(types.I32)))
		b := f.NewBlock("entry")
		mk(b, f, v)
		if b.Term == nil {
			b.NewRet(nil)
		}
		return m, func(m *ir.Module) (int64, bool) {
			if len(m.Funcs) < 1 || len(m.Funcs[len(m.Funcs)-1].Blocks) < 1 || len(m.Funcs[len(m.Funcs)-1].Blocks[0].Insts) < 1 {
				return 0, false
			}
			return get(m.Funcs[len(m.Funcs)-1].Blocks[0].Insts[0])
		}
	}
}

func c18MDHost(mk func(v int64) metadata.Definition, get func(d metadata.Definition) (int64, bool)) func(v int64) (*ir.Module, func(m *ir.Module) (int64, bool)) {
	return func(v int64) (*ir.Module, func(m *ir.Module) (int64, bool)) {
		m := ir.NewModule()
		d := mk(v)
		d.SetID(0)
		m.MetadataDefs = append(m.MetadataDefs, d)
		flag := &metadata.Tuple{MetadataID: 1, Fields: []metadata.Field{
			irconst.NewInt(types.I32, 2), &metadata.String{Value: "Debug Info Version"}, irconst.NewInt(types.I32, 3)}}
		m.MetadataDefs = append(m.MetadataDefs, flag)
		m.NamedMetadataDefs["md"] = &metadata.NamedDef{Name: "md", Nodes: []metadata.Node{d}}
		m.NamedMetadataDefs["llvm.module.flags"] = &metadata.NamedDef{Name: "llvm.module.flags", Nodes: []metadata.Node{flag}}
		return m, func(m *ir.Module) (int64, bool) {
			if len(m.MetadataDefs) < 1 {
				return 0, false
			}
			return get(m.MetadataDefs[0])
		}
	}
}

func nonzero(v int64) bool { return v == 0 }

func c18Adapters() map[string]*enumAdapter {
	i32p := types.NewPointer(types.I32)
	_ = i32p
	file := func() *metadata.DIFile { return &metadata.DIFile{MetadataID: -1, Filename: "a.c", Directory: "/"} }
	ad := map[string]*enumAdapter{
		"AllocKind": {
			str:  func(v int64) string { return enum.AllocKind(v).String() },
			from: func(s string) int64 { return int64(asmenum.AllocKindFromString(s)) },
		},
		"AtomicOp": {
			str:  func(v int64) string { return enum.AtomicOp(v).String() },
			from: func(s string) int64 { return int64(asmenum.AtomicOpFromString(s)) },
			host: c18InstHost(func(b *ir.Block, f *ir.Func, v int64) {
				op := enum.AtomicOp(v)
				if op == enum.AtomicOpFAdd || op == enum.AtomicOpFSub {
					fp := ir.NewParam("q", types.NewPointer(types.Float))
					f.Params = append(f.Params, fp)
					f.Sig.Params = append(f.Sig.Params, fp.Typ)
					b.NewAtomicRMW(op, fp, f.Params[2], enum.AtomicOrderingMonotonic)
					return
				}
				b.NewAtomicRMW(op, f.Params[4], f.Params[0], enum.AtomicOrderingMonotonic)
			}, func(inst ir.Instruction) (int64, bool) {
				i, ok := inst.(*ir.InstAtomicRMW)
				if !ok {
					return 0, false
				}
				return int64(i.Op), true
			}),
		},
		"AtomicOrdering": {
			str:  func(v int64) string { return enum.AtomicOrdering(v).String() },
			from: func(s string) int64 { return int64(asmenum.AtomicOrderingFromString(s)) },
			host: c18InstHost(func(b *ir.Block, f *ir.Func, v int64) {
				b.NewFence(enum.AtomicOrdering(v))
			}, func(inst ir.Instruction) (int64, bool) {
				i, ok := inst.(*ir.InstFence)
				if !ok {
					return 0, false
				}
				return int64(i.Ordering), true
			}),
			skipHost: nonzero,
		},
		"CallingConv": {
			str:  func(v int64) string { return enum.CallingConv(v).String() },
			from: func(s string) int64 { return int64(asmenum.CallingConvFromString(s)) },
			host: c18FuncHost(func(f *ir.Func, v int64) { f.CallingConv = enum.CallingConv(v) },
				func(f *ir.Func) (int64, bool) { return int64(f.CallingConv), true }),
			skipHost: nonzero,
		},
		"ChecksumKind": {
			str:  func(v int64) string { return enum.ChecksumKind(v).String() },
			from: func(s string) int64 { return int64(asmenum.ChecksumKindFromString(s)) },
			host: c18MDHost(func(v int64) metadata.Definition {
				sum := map[enum.ChecksumKind]string{enum.ChecksumKindMD5: strings.Repeat("0a", 16), enum.ChecksumKindSHA1: strings.Repeat("0a", 20)}[enum.ChecksumKind(v)]
				if sum == "" {
					sum = strings.Repeat("0a", 32)
				}
				return &metadata.DIFile{Filename: "a.c", Directory: "/", Checksumkind: enum.ChecksumKind(v), Checksum: sum}
			}, func(d metadata.Definition) (int64, bool) {
				n, ok := d.(*metadata.DIFile)
				if !ok {
					return 0, false
				}
				return int64(n.Checksumkind), true
			}),
			skipHost: nonzero,
		},
		"ClauseType": {
			str:  func(v int64) string { return enum.ClauseType(v).String() },
			from: func(s string) int64 { return int64(asmenum.ClauseTypeFromString(s)) },
			host: c18InstHost(func(b *ir.Block, f *ir.Func, v int64) {
				var x value.Value = irconst.NewNull(types.I8Ptr)
				if enum.ClauseType(v) == enum.ClauseTypeFilter {
					x = irconst.NewZeroInitializer(types.NewArray(0, types.I8Ptr))
				}
				lp := b.NewLandingPad(types.NewStruct(types.I8Ptr, types.I32), ir.NewClause(enum.ClauseType(v), x))
				_ = lp
			}, func(inst ir.Instruction) (int64, bool) {
				i, ok := inst.(*ir.InstLandingPad)
				if !ok || len(i.Clauses) != 1 {
					return 0, false
				}
				return int64(i.Clauses[0].Type), true
			}),
			skipHost: nonzero,
		},
		"DIFlag": {
			str:  func(v int64) string { return enum.DIFlag(v).String() },
			from: func(s string) int64 { return int64(asmenum.DIFlagFromString(s)) },
			host: c18MDHost(func(v int64) metadata.Definition {
				return &metadata.DIBasicType{Name: "t", Flags: enum.DIFlag(v)}
			}, func(d metadata.Definition) (int64, bool) {
				n, ok := d.(*metadata.DIBasicType)
				if !ok {
					return 0, false
				}
				return int64(n.Flags), true
			}),
			skipHost: nonzero,
		},
		"DISPFlag": {
			str:  func(v int64) string { return enum.DISPFlag(v).String() },
			from: func(s string) int64 { return int64(asmenum.DISPFlagFromString(s)) },
			host: c18MDHost(func(v int64) metadata.Definition {
				return &metadata.DISubprogram{Name: "s", SPFlags: enum.DISPFlag(v)}
			}, func(d metadata.Definition) (int64, bool) {
				n, ok := d.(*metadata.DISubprogram)
				if !ok {
					return 0, false
				}
				return int64(n.SPFlags), true
			}),
			skipHost: nonzero,
		},
		"DLLStorageClass": {
			str:  func(v int64) string { return enum.DLLStorageClass(v).String() },
			from: func(s string) int64 { return int64(asmenum.DLLStorageClassFromString(s)) },
			host: c18GlobalHost(func(g *ir.Global, v int64) {
				g.DLLStorageClass = enum.DLLStorageClass(v)
				if enum.DLLStorageClass(v) == enum.DLLStorageClassDLLImport {
					g.Init = nil
					g.Linkage = enum.LinkageExternal
				}
			}, func(g *ir.Global) int64 { return int64(g.DLLStorageClass) }),
			skipHost: nonzero,
		},
		"DwarfAttEncoding": {
			str:  func(v int64) string { return enum.DwarfAttEncoding(v).String() },
			from: func(s string) int64 { return int64(asmenum.DwarfAttEncodingFromString(s)) },
			host: c18MDHost(func(v int64) metadata.Definition {
				return &metadata.DIBasicType{Name: "t", Size: 32, Encoding: enum.DwarfAttEncoding(v)}
			}, func(d metadata.Definition) (int64, bool) {
				n, ok := d.(*metadata.DIBasicType)
				if !ok {
					return 0, false
				}
				return int64(n.Encoding), true
			}),
			skipHost: nonzero,
		},
		"DwarfCC": {
			str:  func(v int64) string { return enum.DwarfCC(v).String() },
			from: func(s string) int64 { return int64(asmenum.DwarfCCFromString(s)) },
			host: c18MDHost(func(v int64) metadata.Definition {
				return &metadata.DISubroutineType{CC: enum.DwarfCC(v), Types: &metadata.Tuple{MetadataID: -1}}
			}, func(d metadata.Definition) (int64, bool) {
				n, ok := d.(*metadata.DISubroutineType)
				if !ok {
					return 0, false
				}
				return int64(n.CC), true
			}),
			skipHost: nonzero,
		},
		"DwarfLang": {
			str:  func(v int64) string { return enum.DwarfLang(v).String() },
			from: func(s string) int64 { return int64(asmenum.DwarfLangFromString(s)) },
			host: c18MDHost(func(v int64) metadata.Definition {
				return &metadata.DICompileUnit{Distinct: true, Language: enum.DwarfLang(v), File: file()}
			}, func(d metadata.Definition) (int64, bool) {
				n, ok := d.(*metadata.DICompileUnit)
				if !ok {
					return 0, false
				}
				return int64(n.Language), true
			}),
			skipHost: nonzero,
		},
		"DwarfMacinfo": {
			str:  func(v int64) string { return enum.DwarfMacinfo(v).String() },
			from: func(s string) int64 { return int64(asmenum.DwarfMacinfoFromString(s)) },
			host: c18MDHost(func(v int64) metadata.Definition {
				return &metadata.DIMacro{Type: enum.DwarfMacinfo(v), Name: "M"}
			}, func(d metadata.Definition) (int64, bool) {
				n, ok := d.(*metadata.DIMacro)
				if !ok {
					return 0, false
				}
				return int64(n.Type), true
			}),
			skipHost: nonzero,
		},
		"DwarfOp": {
			str:  func(v int64) string { return enum.DwarfOp(v).String() },
			from: func(s string) int64 { return int64(asmenum.DwarfOpFromString(s)) },
			host: c18MDHost(func(v int64) metadata.Definition {
				return &metadata.DIExpression{Fields: []metadata.DIExpressionField{enum.DwarfOp(v)}}
			}, func(d metadata.Definition) (int64, bool) {
				n, ok := d.(*metadata.DIExpression)
				if !ok || len(n.Fields) != 1 {
					return 0, false
				}
				op, ok := n.Fields[0].(enum.DwarfOp)
				return int64(op), ok
			}),
			skipHost: nonzero,
		},
		"DwarfTag": {
			str:  func(v int64) string { return enum.DwarfTag(v).String() },
			from: func(s string) int64 { return int64(asmenum.DwarfTagFromString(s)) },
			host: c18MDHost(func(v int64) metadata.Definition {
				return &metadata.GenericDINode{Tag: enum.DwarfTag(v)}
			}, func(d metadata.Definition) (int64, bool) {
				n, ok := d.(*metadata.GenericDINode)
				if !ok {
					return 0, false
				}
				return int64(n.Tag), true
			}),
			skipHost: nonzero,
		},
		"DwarfVirtuality": {
			str:  func(v int64) string { return enum.DwarfVirtuality(v).String() },
			from: func(s string) int64 { return int64(asmenum.DwarfVirtualityFromString(s)) },
			host: c18MDHost(func(v int64) metadata.Definition {
				return &metadata.DISubprogram{Name: "s", Virtuality: enum.DwarfVirtuality(v)}
			}, func(d metadata.Definition) (int64, bool) {
				n, ok := d.(*metadata.DISubprogram)
				if !ok {
					return 0, false
				}
				return int64(n.Virtuality), true
			}),
			skipHost: nonzero,
		},
		"EmissionKind": {
			str:  func(v int64) string { return enum.EmissionKind(v).String() },
			from: func(s string) int64 { return int64(asmenum.EmissionKindFromString(s)) },
			host: c18MDHost(func(v int64) metadata.Definition {
				return &metadata.DICompileUnit{Distinct: true, Language: enum.DwarfLangC, File: file(), EmissionKind: enum.EmissionKind(v)}
			}, func(d metadata.Definition) (int64, bool) {
				n, ok := d.(*metadata.DICompileUnit)
				if !ok {
					return 0, false
				}
				return int64(n.EmissionKind), true
			}),
			skipHost: nonzero,
		},
		"FastMathFlag": {
			str:  func(v int64) string { return enum.FastMathFlag(v).String() },
			from: func(s string) int64 { return int64(asmenum.FastMathFlagFromString(s)) },
			host: c18InstHost(func(b *ir.Block, f *ir.Func, v int64) {
				i := b.NewFAdd(f.Params[2], f.Params[3])
				i.FastMathFlags = []enum.FastMathFlag{enum.FastMathFlag(v)}
			}, func(inst ir.Instruction) (int64, bool) {
				i, ok := inst.(*ir.InstFAdd)
				if !ok || len(i.FastMathFlags) != 1 {
					return 0, false
				}
				return int64(i.FastMathFlags[0]), true
			}),
		},
		"FPred": {
			str:  func(v int64) string { return enum.FPred(v).String() },
			from: func(s string) int64 { return int64(asmenum.FPredFromString(s)) },
			host: c18InstHost(func(b *ir.Block, f *ir.Func, v int64) {
				b.NewFCmp(enum.FPred(v), f.Params[2], f.Params[3])
			}, func(inst ir.Instruction) (int64, bool) {
				i, ok := inst.(*ir.InstFCmp)
				if !ok {
					return 0, false
				}
				return int64(i.Pred), true
			}),
		},
		"FuncAttr": {
			str:  func(v int64) string { return enum.FuncAttr(v).String() },
			from: func(s string) int64 { return int64(asmenum.FuncAttrFromString(s)) },
			host: c18FuncHost(func(f *ir.Func, v int64) { f.FuncAttrs = []ir.FuncAttribute{enum.FuncAttr(v)} },
				func(f *ir.Func) (int64, bool) {
					if len(f.FuncAttrs) != 1 {
						return 0, false
					}
					if u, ok := f.FuncAttrs[0].(ir.UnwindTable); ok && u.Kind == enum.UnwindTableKindNone {
						// `uwtable` is read into the parameterised attribute form; same keyword, same meaning
						return int64(enum.FuncAttrUwtable), true
					}
					a, ok := f.FuncAttrs[0].(enum.FuncAttr)
					return int64(a), ok
				}),
		},
		"IPred": {
			str:  func(v int64) string { return enum.IPred(v).String() },
			from: func(s string) int64 { return int64(asmenum.IPredFromString(s)) },
			host: c18InstHost(func(b *ir.Block, f *ir.Func, v int64) {
				b.NewICmp(enum.IPred(v), f.Params[0], f.Params[1])
			}, func(inst ir.Instruction) (int64, bool) {
				i, ok := inst.(*ir.InstICmp)
				if !ok {
					return 0, false
				}
				return int64(i.Pred), true
			}),
		},
		"Linkage": {
			str:  func(v int64) string { return enum.Linkage(v).String() },
			from: func(s string) int64 { return int64(asmenum.LinkageFromString(s)) },
			host: c18GlobalHost(func(g *ir.Global, v int64) {
				g.Linkage = enum.Linkage(v)
				switch g.Linkage {
				case enum.LinkageExternal, enum.LinkageExternWeak:
					g.Init = nil
				case enum.LinkageAppending:
					g.ContentType = types.NewArray(1, types.I32)
					g.Typ = nil
					g.Init = irconst.NewZeroInitializer(g.ContentType)
					g.Type()
				}
			}, func(g *ir.Global) int64 { return int64(g.Linkage) }),
			skipHost: nonzero,
		},
		"NameTableKind": {
			str:  func(v int64) string { return enum.NameTableKind(v).String() },
			from: func(s string) int64 { return int64(asmenum.NameTableKindFromString(s)) },
			host: c18MDHost(func(v int64) metadata.Definition {
				return &metadata.DICompileUnit{Distinct: true, Language: enum.DwarfLangC, File: file(), NameTableKind: enum.NameTableKind(v)}
			}, func(d metadata.Definition) (int64, bool) {
				n, ok := d.(*metadata.DICompileUnit)
				if !ok {
					return 0, false
				}
				return int64(n.NameTableKind), true
			}),
			skipHost: nonzero,
		},
		"OverflowFlag": {
			str:  func(v int64) string { return enum.OverflowFlag(v).String() },
			from: func(s string) int64 { return int64(asmenum.OverflowFlagFromString(s)) },
			host: c18InstHost(func(b *ir.Block, f *ir.Func, v int64) {
				i := b.NewAdd(f.Params[0], f.Params[1])
				i.OverflowFlags = []enum.OverflowFlag{enum.OverflowFlag(v)}
			}, func(inst ir.Instruction) (int64, bool) {
				i, ok := inst.(*ir.InstAdd)
				if !ok || len(i.OverflowFlags) != 1 {
					return 0, false
				}
				return int64(i.OverflowFlags[0]), true
			}),
		},
		"ParamAttr": {
			str:  func(v int64) string { return enum.ParamAttr(v).String() },
			from: func(s string) int64 { return int64(asmenum.ParamAttrFromString(s)) },
			host: c18FuncHost(func(f *ir.Func, v int64) { f.Params[0].Attrs = []ir.ParamAttribute{enum.ParamAttr(v)} },
				func(f *ir.Func) (int64, bool) {
					if len(f.Params) != 1 || len(f.Params[0].Attrs) != 1 {
						return 0, false
					}
					a, ok := f.Params[0].Attrs[0].(enum.ParamAttr)
					return int64(a), ok
				}),
		},
		"Preemption": {
			str:  func(v int64) string { return enum.Preemption(v).String() },
			from: func(s string) int64 { return int64(asmenum.PreemptionFromString(s)) },
			host: c18GlobalHost(func(g *ir.Global, v int64) { g.Preemption = enum.Preemption(v) },
				func(g *ir.Global) int64 { return int64(g.Preemption) }),
			// dso_local_equivalent is a constant keyword in LLVM, not a preemption
			// specifier: it has no host position (checked at keyword level only)
			skipHost: func(v int64) bool { return v == 0 || enum.Preemption(v) == enum.PreemptionDSOLocalEquivalent },
		},
		"ReturnAttr": {
			str:  func(v int64) string { return enum.ReturnAttr(v).String() },
			from: func(s string) int64 { return int64(asmenum.ReturnAttrFromString(s)) },
			host: func(v int64) (*ir.Module, func(m *ir.Module) (int64, bool)) {
				m := ir.NewModule()
				f := m.NewFunc("f", types.I8Ptr)
				if a := enum.ReturnAttr(v); a == enum.ReturnAttrSignExt || a == enum.ReturnAttrZeroExt {
					f = nil
					m.Funcs = nil
					f = m.NewFunc("f", types.I8)
				}
				f.ReturnAttrs = []ir.ReturnAttribute{enum.ReturnAttr(v)}
				return m, func(m *ir.Module) (int64, bool) {
					if len(m.Funcs) != 1 || len(m.Funcs[0].ReturnAttrs) != 1 {
						return 0, false
					}
					a, ok := m.Funcs[0].ReturnAttrs[0].(enum.ReturnAttr)
					return int64(a), ok
				}
			},
		},
		"SanitizerKind": {
			str:  func(v int64) string { return enum.SanitizerKind(v).String() },
			from: func(s string) int64 { return int64(asmenum.SanitizerKindFromString(s)) },
			host: c18GlobalHost(func(g *ir.Global, v int64) { g.Sanitizer = enum.SanitizerKind(v) },
				func(g *ir.Global) int64 { return int64(g.Sanitizer) }),
			skipHost: nonzero,
		},
		"SelectionKind": {
			str:  func(v int64) string { return enum.SelectionKind(v).String() },
			from: func(s string) int64 { return int64(asmenum.SelectionKindFromString(s)) },
			host: func(v int64) (*ir.Module, func(m *ir.Module) (int64, bool)) {
				m := ir.NewModule()
				c := &ir.ComdatDef{Name: "c", Kind: enum.SelectionKind(v)}
				m.ComdatDefs = append(m.ComdatDefs, c)
				g := m.NewGlobalDef("g", irconst.NewInt(types.I32, 0))
				g.Comdat = c
				return m, func(m *ir.Module) (int64, bool) {
					if len(m.ComdatDefs) != 1 {
						return 0, false
					}
					return int64(m.ComdatDefs[0].Kind), true
				}
			},
		},
		"Tail": {
			str:  func(v int64) string { return enum.Tail(v).String() },
			from: func(s string) int64 { return int64(asmenum.TailFromString(s)) },
			host: func(v int64) (*ir.Module, func(m *ir.Module) (int64, bool)) {
				m := ir.NewModule()
				callee := m.NewFunc("callee", types.Void)
				f := m.NewFunc("f", types.Void)
				b := f.NewBlock("entry")
				c := b.NewCall(callee)
				c.Tail = enum.Tail(v)
				b.NewRet(nil)
				return m, func(m *ir.Module) (int64, bool) {
					for _, f := range m.Funcs {
						if len(f.Blocks) == 1 && len(f.Blocks[0].Insts) == 1 {
							if c, ok := f.Blocks[0].Insts[0].(*ir.InstCall); ok {
								return int64(c.Tail), true
							}
						}
					}
					return 0, false
				}
			},
			skipHost: nonzero,
		},
		"TLSModel": {
			str:  func(v int64) string { return enum.TLSModel(v).String() },
			from: func(s string) int64 { return int64(asmenum.TLSModelFromString(s)) },
			host: c18GlobalHost(func(g *ir.Global, v int64) { g.TLSModel = enum.TLSModel(v) },
				func(g *ir.Global) int64 { return int64(g.TLSModel) }),
			skipHost: nonzero,
		},
		"UnnamedAddr": {
			str:  func(v int64) string { return enum.UnnamedAddr(v).String() },
			from: func(s string) int64 { return int64(asmenum.UnnamedAddrFromString(s)) },
			host: c18GlobalHost(func(g *ir.Global, v int64) { g.UnnamedAddr = enum.UnnamedAddr(v) },
				func(g *ir.Global) int64 { return int64(g.UnnamedAddr) }),
			skipHost: nonzero,
		},
		"UnwindTableKind": {
			str:  func(v int64) string { return enum.UnwindTableKind(v).String() },
			from: func(s string) int64 { return int64(asmenum.UnwindTableKindFromString(s)) },
			host: c18FuncHost(func(f *ir.Func, v int64) {
				f.FuncAttrs = []ir.FuncAttribute{ir.UnwindTable{Kind: enum.UnwindTableKind(v)}}
			}, func(f *ir.Func) (int64, bool) {
				if len(f.FuncAttrs) != 1 {
					return 0, false
				}
				a, ok := f.FuncAttrs[0].(ir.UnwindTable)
				return int64(a.Kind), ok
			}),
		},
		"Visibility": {
			str:  func(v int64) string { return enum.Visibility(v).String() },
			from: func(s string) int64 { return int64(asmenum.VisibilityFromString(s)) },
			host: c18GlobalHost(func(g *ir.Global, v int64) { g.Visibility = enum.Visibility(v) },
				func(g *ir.Global) int64 { return int64(g.Visibility) }),
			skipHost: nonzero,
		},
		"FloatKind": {
			str:  func(v int64) string { return types.FloatKind(v).String() },
			from: func(s string) int64 { return int64(asmenum.FloatKindFromString(s)) },
			host: func(v int64) (*ir.Module, func(m *ir.Module) (int64, bool)) {
				m := ir.NewModule()
				ft := &types.FloatType{Kind: types.FloatKind(v)}
				m.NewGlobalDef("g", irconst.NewZeroInitializer(ft))
				return m, func(m *ir.Module) (int64, bool) {
					if len(m.Globals) != 1 {
						return 0, false
					}
					t, ok := m.Globals[0].ContentType.(*types.FloatType)
					if !ok {
						return 0, false
					}
					return int64(t.Kind), true
				}
			},
		},
	}
	return ad
}

func genC18(ctx *fw.Ctx) []fw.Case {
	var cases []fw.Case
	names := fw.SortedKeys(c18Adapters())
	for _, n := range names {
		n := n
		cases = append(cases, fw.Case{ID: "enum/" + n, Run: func(r *fw.Rec) { c18Enum(r, n) }})
	}
	cases = append(cases, fw.Case{ID: "domain-coverage", Run: c18Domain})
	for _, k := range []string{"AllocKind", "DISPFlag", "DIFlag"} {
		k := k
		for b := 0; b < 4; b++ {
			b := b
			cases = append(cases, fw.Case{ID: fmt.Sprintf("flagset/%s/%d", k, b), Run: func(r *fw.Rec) { c18FlagSets(r, k, b, 4) }})
		}
	}
	for b := 0; b < 16; b++ {
		b := b
		cases = append(cases, fw.Case{ID: fmt.Sprintf("numeric-forms/%d", b), Run: func(r *fw.Rec) { c18Numeric(r, b, 16) }})
	}
	cases = append(cases, fw.Case{ID: "ordering-pairs/cmpxchg", Run: c18CmpXchgPairs})
	cases = append(cases, fw.Case{ID: "flagset/FastMathFlag", Run: c18FastMathSubsets})
	cases = append(cases, fw.Case{ID: "flag-lists/edited-in-place", Run: c18FlagListsEdited})
	cases = append(cases, fw.Case{ID: "contexts/attributes-and-call-sites", Run: c18Contexts})
	for _, k := range []string{"global", "global-declaration", "declaration", "definition", "alias"} {
		k := k
		cases = append(cases, fw.Case{ID: "header-combinations/" + k, Run: func(r *fw.Rec) { c18HeaderCombos(r, k) }})
	}
	return cases
}

func c18AllDomains() (map[string][]enumConst, error) {
	d, err := enumDomain(fw.Repo + "/ir/enum")
	if err != nil {
		return nil, err
	}
	d2, err := enumDomain(fw.Repo + "/ir/types")
	if err != nil {
		return nil, err
	}
	for k, v := range d2 {
		d[k] = v
	}
	return d, nil
}

// c18Domain makes sure every enumerated type of the source has an adapter (so
// that a type added to the tree does not silently escape the monitor).
func c18Domain(r *fw.Rec) {
	d, err := c18AllDomains()
	if err != nil {
		r.Inconclusive("cannot enumerate the domain: " + err.Error())
		return
	}
	ad := c18Adapters()
	for name, cs := range d {
		r.Eval(1)
		if _, ok := ad[name]; !ok {
			if name == "AddrSpace" || name == "Align" {
				continue
			}
			r.Inconclusive("enumerated type without adapter: " + name)
			continue
		}
		r.TallyN("domain_constants", name, len(cs))
	}
	r.NontrivialN("domain", len(d))
}

func isAggregateConst(tname, cname string) bool {
	// helper constants that are masks or range markers, not members
	for _, suf := range []string{"First", "Last", "Accessibility", "PtrToMemberRep", "Virtuality", "IndirectVirtualBase", "Nonvirtual"} {
		if cname == tname+suf {
			return true
		}
	}
	return false
}

func c18Enum(r *fw.Rec, tname string) {
	d, err := c18AllDomains()
	if err != nil {
		r.Inconclusive("cannot enumerate the domain: " + err.Error())
		return
	}
	consts := d[tname]
	if len(consts) == 0 {
		r.Inconclusive("no constants found for type " + tname)
		return
	}
	ad := c18Adapters()[tname]
	byVal := map[int64][]string{}
	var vals []int64
	for _, c := range consts {
		if isAggregateConst(tname, c.Name) {
			continue
		}
		if _, ok := byVal[c.Val]; !ok {
			vals = append(vals, c.Val)
		}
		byVal[c.Val] = append(byVal[c.Val], c.Name)
	}
	kw := map[string]int64{}
	for _, v := range vals {
		name := byVal[v][0]
		r.Eval(1)
		var s string
		if p, msg, _ := fw.Guard(func() { s = ad.str(v) }); p {
			r.Violate(fw.Violation{Key: "string-panic/" + name, What: fmt.Sprintf("%s(%d).String() panics: %s", tname, v, msg)})
			continue
		}
		if strings.HasPrefix(s, tname+"(") && strings.HasSuffix(s, ")") {
			r.Violate(fw.Violation{Key: "no-keyword/" + name, What: fmt.Sprintf("defined value %s (%d) has no keyword: String() = %q", name, v, s)})
			continue
		}
		if prev, dup := kw[s]; dup && prev != v {
			r.Violate(fw.Violation{Key: "keyword-clash/" + tname + "/" + s, What: fmt.Sprintf("values %d (%s) and %d (%s) of %s share the keyword %q", prev, byVal[prev][0], v, name, tname, s)})
		}
		kw[s] = v
		var back int64
		if p, msg, _ := fw.Guard(func() { back = ad.from(s) }); p {
			r.Violate(fw.Violation{Key: "fromstring-panic/" + name, What: fmt.Sprintf("asmenum.%sFromString(%q) panics although %s prints that keyword: %s", tname, s, name, msg)})
			continue
		}
		if back != v {
			r.Violate(fw.Violation{Key: "fromstring-wrong/" + name, What: fmt.Sprintf("asmenum.%sFromString(%q) = %d, want %d (%s)", tname, s, back, v, name)})
			continue
		}
		if v != 0 {
			r.Nontrivial(tname + "/" + s)
		}
		r.Tally("keywords_roundtripped", tname)
		// in a module
		if ad.host == nil || (ad.skipHost != nil && ad.skipHost(v)) {
			continue
		}
		c18HostRoundTrip(r, tname, name, v, s, ad)
	}
	if len(vals) > 1 {
		v := vals[len(vals)/2]
		r.Sample(map[string]interface{}{"type": tname, "constant": byVal[v][0], "value": v, "keyword": ad.str(v)})
	}
}

func c18HostRoundTrip(r *fw.Rec, tname, cname string, v int64, kwd string, ad *enumAdapter) (ok bool) {
	var m *ir.Module
	var read func(*ir.Module) (int64, bool)
	if p, msg, _ := fw.Guard(func() { m, read = ad.host(v) }); p {
		r.Inconclusive("host construction failed for " + tname + ": " + firstLine(msg))
		return false
	}
	text, pp := printGuard(m)
	r.Eval(1)
	if pp != "" {
		r.Violate(fw.Violation{Key: "host-print-panic/" + tname + "/" + cname, What: fmt.Sprintf("printing a module holding %s (%s) panics: %s", cname, kwd, firstLine(pp))})
		return false
	}
	m2, perr, pmsg := parseGuard("c18", text)
	if pmsg != "" {
		r.Violate(fw.Violation{Key: "host-parse-panic/" + tname + "/" + cname, Input: text, What: fmt.Sprintf("parser panics on the printed keyword of %s: %s", cname, firstLine(pmsg))})
		return false
	}
	if perr != nil {
		r.Violate(fw.Violation{Key: "host-parse-error/" + tname + "/" + cname, Input: text, What: fmt.Sprintf("parser rejects the printed keyword of %s: %s", cname, firstLine(perr.Error()))})
		return false
	}
	got, found := read(m2)
	if !found || got != v {
		r.Violate(fw.Violation{Key: "host-roundtrip/" + tname + "/" + cname, Input: text,
			What:     fmt.Sprintf("%s (%d, keyword %q) placed in a module reads back as %d (found=%v)", cname, v, kwd, got, found),
			Expected: fmt.Sprint(v), Observed: fmt.Sprint(got)})
		return false
	}
	// second print must be identical (keyword stable)
	if t2, _ := printGuard(m2); t2 != text {
		r.Violate(fw.Violation{Key: "host-reprint/" + tname + "/" + cname, Input: text, What: "re-printed host module differs", Expected: text, Observed: t2})
		return false
	}
	r.Tally("host_roundtrips", tname)
	// LLVM cross-check (validity only; canonical comparison is C01's business)
	okl, _, err := llvmref.Accepts(text)
	switch {
	case err != nil:
		r.Tally("llvm", "tool-failure")
	case okl:
		r.Tally("llvm_accepts_host", tname)
	default:
		r.Tally("llvm_rejects_host(not judged)", tname)
	}
	return true
}

// c18FlagSets checks that flag sets print as exactly the set of their members.
func c18FlagSets(r *fw.Rec, kind string, blk, nblk int) {
	d, err := c18AllDomains()
	if err != nil {
		r.Inconclusive("cannot enumerate the domain: " + err.Error())
		return
	}
	ad := c18Adapters()[kind]
	rng := r.Ctx().Rand("flagsets/" + kind)
	var bits []int64 // single-bit members
	var sub1, sub2 []int64
	for _, c := range d[kind] {
		if isAggregateConst(kind, c.Name) || c.Val == 0 {
			continue
		}
		switch {
		case kind == "DIFlag" && c.Val <= 3:
			sub1 = append(sub1, c.Val) // accessibility 2-bit field
		case kind == "DIFlag" && c.Val&(3<<16) != 0 && c.Val&^(3<<16) == 0:
			sub2 = append(sub2, c.Val) // inheritance 2-bit field
		case kind == "DISPFlag" && c.Val <= 2:
			sub1 = append(sub1, c.Val) // virtuality 2-bit field
		default:
			if c.Val&(c.Val-1) == 0 {
				bits = append(bits, c.Val)
			}
		}
	}
	sub1 = append([]int64{0}, sub1...)
	sub2 = append([]int64{0}, sub2...)
	var sets []int64
	switch kind {
	case "AllocKind":
		for mask := 1; mask < 1<<len(bits); mask++ {
			var v int64
			for i, b := range bits {
				if mask&(1<<i) != 0 {
					v |= b
				}
			}
			sets = append(sets, v)
		}
	case "DISPFlag":
		for mask := 0; mask < 1<<len(bits); mask++ {
			var v int64
			for i, b := range bits {
				if mask&(1<<i) != 0 {
					v |= b
				}
			}
			for _, s1 := range sub1 {
				if v|s1 != 0 {
					sets = append(sets, v|s1)
				}
			}
		}
	case "DIFlag":
		maxSize := r.Ctx().Pick(2, 3)
		var rec func(start int, size int, v int64)
		rec = func(start, size int, v int64) {
			for _, s1 := range sub1 {
				for _, s2 := range sub2 {
					if v|s1|s2 != 0 {
						sets = append(sets, v|s1|s2)
					}
				}
			}
			if size == maxSize {
				return
			}
			for i := start; i < len(bits); i++ {
				rec(i+1, size+1, v|bits[i])
			}
		}
		rec(0, 0, 0)
		n := r.Ctx().Pick(2000, 40000)
		for i := 0; i < n; i++ {
			var v int64
			for _, b := range bits {
				if rng.Intn(2) == 0 {
					v |= b
				}
			}
			v |= sub1[rng.Intn(len(sub1))] | sub2[rng.Intn(len(sub2))]
			if v != 0 {
				sets = append(sets, v)
			}
		}
	}
	cnt := 0
	for i, v := range sets {
		if i%nblk != blk {
			continue
		}
		cnt++
		r.Eval(1)
		r.Nontrivial(fmt.Sprintf("%s/set/%d", kind, v))
		if kind == "AllocKind" {
			c18AllocKindSet(r, v)
			continue
		}
		var m *ir.Module
		var read func(*ir.Module) (int64, bool)
		m, read = ad.host(v)
		text, pp := printGuard(m)
		if pp != "" {
			r.Violate(fw.Violation{Key: fmt.Sprintf("flagset-print-panic/%s/%#x", kind, v), What: "printing a flag set panics: " + firstLine(pp)})
			continue
		}
		m2, perr, pmsg := parseGuard("c18", text)
		if pmsg != "" || perr != nil {
			what := pmsg
			if perr != nil {
				what = perr.Error()
			}
			r.Violate(fw.Violation{Key: fmt.Sprintf("flagset-reparse/%s/%#x", kind, v), Input: text, What: fmt.Sprintf("the printed flag set %#x is not accepted by the parser: %s", v, firstLine(what))})
			continue
		}
		got, found := read(m2)
		if !found || got != v {
			r.Violate(fw.Violation{Key: fmt.Sprintf("flagset-members/%s/lost=%#x,invented=%#x", kind, v&^got, got&^v), Input: text,
				What:     fmt.Sprintf("%s set %#x prints as a different member set: reads back as %#x", kind, v, got),
				Expected: fmt.Sprintf("%#x", v), Observed: fmt.Sprintf("%#x", got)})
			continue
		}
		if i < 3 {
			r.Sample(map[string]interface{}{"flag_type": kind, "set": fmt.Sprintf("%#x", v), "printed": firstLine(text)})
		}
	}
	r.TallyN("flag_sets_roundtripped", kind, cnt)
}

func c18AllocKindSet(r *fw.Rec, v int64) {
	m := ir.NewModule()
	f := m.NewFunc("f", types.I8Ptr, ir.NewParam("n", types.I64))
	f.FuncAttrs = []ir.FuncAttribute{ir.AllocKind{Kind: enum.AllocKind(v)}}
	text, pp := printGuard(m)
	if pp != "" {
		r.Violate(fw.Violation{Key: fmt.Sprintf("flagset-print-panic/AllocKind/%#x", v), What: "printing an allockind set panics: " + firstLine(pp)})
		return
	}
	m2, perr, pmsg := parseGuard("c18", text)
	if pmsg != "" || perr != nil {
		what := pmsg
		if perr != nil {
			what = perr.Error()
		}
		r.Violate(fw.Violation{Key: fmt.Sprintf("flagset-reparse/AllocKind/%#x", v), Input: text, What: "the printed allockind set is not accepted by the parser: " + firstLine(what)})
		return
	}
	var got int64 = -1
	if len(m2.Funcs) == 1 && len(m2.Funcs[0].FuncAttrs) == 1 {
		switch a := m2.Funcs[0].FuncAttrs[0].(type) {
		case ir.AllocKind:
			got = int64(a.Kind)
		case *ir.AllocKind:
			got = int64(a.Kind)
		}
	}
	if got != v {
		r.Violate(fw.Violation{Key: fmt.Sprintf("flagset-members/AllocKind/%#x", v), Input: text,
			What: fmt.Sprintf("AllocKind set %#x reads back as %#x", v, got), Expected: fmt.Sprintf("%#x", v), Observed: fmt.Sprintf("%#x", got)})
	}
}

// c18Numeric: numeric calling conventions and raw DWARF tag integers.
func c18Numeric(r *fw.Rec, blk, nblk int) {
	d, err := c18AllDomains()
	if err != nil {
		r.Inconclusive("cannot enumerate the domain: " + err.Error())
		return
	}
	named := map[int64]bool{}
	for _, c := range d["CallingConv"] {
		named[c.Val] = true
	}
	ad := c18Adapters()
	n := 0
	for cc := int64(1); cc < 1024; cc++ {
		if named[cc] || int(cc)%nblk != blk {
			continue
		}
		n++
		kw := fmt.Sprintf("cc %d", cc)
		c18HostRoundTrip(r, "CallingConv", fmt.Sprintf("cc%d", cc), cc, kw, ad["CallingConv"])
	}
	r.NontrivialN(fmt.Sprintf("numeric-cc/%d", blk), n)
	if blk != 0 {
		return
	}
	tagNamed := map[int64]bool{}
	for _, c := range d["DwarfTag"] {
		tagNamed[c.Val] = true
	}
	n = 0
	for _, tag := range []int64{0x4200, 0x7fff, 0xfffe, 3, 0x9999} {
		if tagNamed[tag] {
			continue
		}
		n++
		c18HostRoundTrip(r, "DwarfTag", fmt.Sprintf("tag%d", tag), tag, fmt.Sprint(tag), ad["DwarfTag"])
	}
	r.NontrivialN("numeric-tag", n)
	c18NumericCCText(r)
}

// c18NumericCCText goes the other way round: the text `cc N` for every N below
// 1024 (named conventions included) is parsed and printed, and LLVM must read
// the printed declaration as the same calling convention as the input.
// c18NumericDwarfText: DWARF languages, encodings, tags and conventions written as
// numbers (every value LLVM's own range check admits that matters: 1, a named
// one, the user ranges, the maximum) are parsed and printed; LLVM must accept
// both texts and read the same numbers.
func c18NumericDwarfText(r *fw.Rec) {
	var sb strings.Builder
	sb.WriteString("!llvm.module.flags = !{!0}\n!0 = !{i32 2, !\"Debug Info Version\", i32 3}\n!1 = !DIFile(filename: \"a.c\", directory: \"/\")\n")
	langs := []int{1, 12, 0x8000, 0x8001, 0x8e57, 0xb000, 0x9001, 0xffff}
	id := 2
	var cus []string
	for _, l := range langs {
		fmt.Fprintf(&sb, "!%d = distinct !DICompileUnit(language: %d, file: !1, emissionKind: FullDebug, retainedTypes: !%d)\n", id, l, id+1)
		fmt.Fprintf(&sb, "!%d = !{!%d}\n", id+1, id+2)
		fmt.Fprintf(&sb, "!%d = !DICompositeType(tag: DW_TAG_structure_type, name: \"S%d\", file: !1, size: 32, runtimeLang: %d)\n", id+2, l, l)
		cus = append(cus, fmt.Sprintf("!%d", id))
		id += 3
	}
	for _, e := range []int{1, 8, 0x80, 0xff} {
		fmt.Fprintf(&sb, "!%d = !DIBasicType(name: \"b%d\", size: 8, encoding: %d)\n", id, e, e)
		id++
	}
	fmt.Fprintf(&sb, "!llvm.dbg.cu = !{%s}\n", strings.Join(cus, ", "))
	x := sb.String()
	lx, _, okX, err := llvmref.Reading(x)
	if err != nil || !okX {
		r.Inconclusive("llvm-as does not accept the numeric DWARF module")
		return
	}
	r.Eval(1)
	m, perr, pmsg := parseGuard("c18-dwarf-numbers", x)
	if pmsg != "" || perr != nil {
		what := pmsg
		if perr != nil {
			what = perr.Error()
		}
		r.Violate(fw.Violation{Key: "numeric-dwarf-text/rejected", Input: x, What: "DWARF languages and encodings written as numbers, which LLVM accepts, are rejected: " + firstLine(what)})
		return
	}
	y, pp := printGuard(m)
	if pp != "" {
		r.Violate(fw.Violation{Key: "numeric-dwarf-text/print-panic", Input: x, What: firstLine(pp)})
		return
	}
	ly, msgY, okY, err := llvmref.Reading(y)
	if err != nil {
		return
	}
	if !okY {
		r.Violate(fw.Violation{Key: "numeric-dwarf-text/output-invalid", Input: x, What: "LLVM rejects the printed module: " + firstLine(lastDiag(msgY)), Observed: y})
		return
	}
	fields := func(t string) []string {
		return regexp.MustCompile(`(language|runtimeLang|encoding): [A-Za-z_0-9]+`).FindAllString(t, -1)
	}
	fx, fy := fields(lx), fields(ly)
	sort.Strings(fx)
	sort.Strings(fy)
	if strings.Join(fx, ";") != strings.Join(fy, ";") {
		r.Violate(fw.Violation{Key: "numeric-dwarf-text/meaning-changed", Input: x, What: "LLVM reads other languages / encodings from the printed module than from the input", Expected: strings.Join(fx, "; "), Observed: strings.Join(fy, "; ")})
		return
	}
	r.NontrivialN("numeric-dwarf-text", len(fx))
	r.Tally("numeric_forms", "dwarf languages, runtime languages and encodings as numbers: ok")
}

func c18NumericCCText(r *fw.Rec) {
	c18NumericDwarfText(r)
	var sb strings.Builder
	for cc := 0; cc < 1024; cc++ {
		fmt.Fprintf(&sb, "declare cc %d void @f%d()\n", cc, cc)
	}
	x := sb.String()
	lx, _, okX, err := llvmref.Reading(x)
	if err != nil || !okX {
		r.Inconclusive("llvm-as does not accept the numeric calling-convention module")
		return
	}
	m, perr, pmsg := parseGuard("c18-cc", x)
	if pmsg != "" || perr != nil {
		what := pmsg
		if perr != nil {
			what = perr.Error()
		}
		r.Violate(fw.Violation{Key: "numeric-cc-text/rejected", Input: x, What: "declarations with numeric calling conventions are rejected: " + firstLine(what)})
		return
	}
	y, pp := printGuard(m)
	if pp != "" {
		r.Violate(fw.Violation{Key: "numeric-cc-text/print-panic", Input: x, What: firstLine(pp)})
		return
	}
	ly, msgY, okY, err := llvmref.Reading(y)
	if err != nil {
		return
	}
	if !okY {
		r.Violate(fw.Violation{Key: "numeric-cc-text/output-invalid", Input: x, What: "LLVM rejects the printed declarations: " + firstLine(lastDiag(msgY)), Observed: y})
		return
	}
	conv := func(text string) map[string]string {
		out := map[string]string{}
		for _, l := range strings.Split(text, "\n") {
			if !strings.HasPrefix(l, "declare ") {
				continue
			}
			at := strings.Index(l, "@f")
			if at < 0 {
				continue
			}
			name := l[at+1 : strings.Index(l[at:], "(")+at]
			out[name] = strings.TrimSpace(strings.TrimSuffix(strings.TrimPrefix(l[:at], "declare "), "void "))
		}
		return out
	}
	cx, cy := conv(lx), conv(ly)
	n := 0
	for cc := 0; cc < 1024; cc++ {
		name := fmt.Sprintf("f%d", cc)
		r.Eval(1)
		if cx[name] != cy[name] {
			r.Violate(fw.Violation{Key: fmt.Sprintf("numeric-cc-text/cc%d", cc), Input: fmt.Sprintf("declare cc %d void @f()", cc),
				What: fmt.Sprintf("`cc %d` (LLVM: `%s`) is printed so that LLVM reads `%s`", cc, cx[name], cy[name])})
			continue
		}
		n++
	}
	r.NontrivialN("numeric-cc-text", n)
}

// c18HeaderCombos sets every LLVM-valid combination of the keyword families
// that share a symbol header (linkage x preemption x visibility x DLL storage
// class x unnamed_addr, and the TLS model where the entity has one) on one
// entity per combination, prints the module, parses it back and compares every
// field: a keyword of one family must survive whatever the other families say
// (a printer or parser that drops a keyword "implied" by another one loses
// it). Which combinations are valid is decided by llvm-as on a text written by
// the monitor itself, not by the library's printer.
type c18Combo struct {
	l enum.Linkage
	p enum.Preemption
	v enum.Visibility
	d enum.DLLStorageClass
	u enum.UnnamedAddr
	t enum.TLSModel
}

func c18ComboLine(kind, name string, c c18Combo) string {
	var w []string
	add := func(s string) {
		if s != "" && s != "none" {
			w = append(w, s)
		}
	}
	add(c.l.String())
	add(c.p.String())
	add(c.v.String())
	add(c.d.String())
	tls := ""
	switch c.t {
	case enum.TLSModelGeneric:
		tls = "thread_local"
	case enum.TLSModelInitialExec:
		tls = "thread_local(initialexec)"
	case enum.TLSModelLocalDynamic:
		tls = "thread_local(localdynamic)"
	case enum.TLSModelLocalExec:
		tls = "thread_local(localexec)"
	}
	ua := ""
	if c.u != enum.UnnamedAddrNone {
		ua = c.u.String()
	}
	hdr := strings.Join(w, " ")
	if hdr != "" {
		hdr += " "
	}
	switch kind {
	case "global":
		return fmt.Sprintf("@%s = %s%s global i32 0\n", name, hdr, strings.TrimSpace(tls+" "+ua))
	case "global-declaration":
		return fmt.Sprintf("@%s = %s%s global i32\n", name, hdr, strings.TrimSpace(tls+" "+ua))
	case "declaration":
		return fmt.Sprintf("declare %svoid @%s() %s\n", hdr, name, ua)
	case "definition":
		return fmt.Sprintf("define %svoid @%s() %s {\n  ret void\n}\n", hdr, name, ua)
	default: // alias
		return fmt.Sprintf("@%s = %s%s alias i32, i32* @target\n", name, hdr, strings.TrimSpace(tls+" "+ua))
	}
}

var reEntityName = regexp.MustCompile(`@(e[0-9]+)\b`)
var reStdinLine = regexp.MustCompile(`<stdin>:([0-9]+):`)

// c18ValidCombos asks llvm-as which of the combinations are valid for kind.
func c18ValidCombos(r *fw.Rec, kind string, combos []c18Combo) (valid []int, ok bool) {
	alive := map[int]bool{}
	for i := range combos {
		alive[i] = true
	}
	for iter := 0; iter < 300; iter++ {
		var sb strings.Builder
		sb.WriteString("@target = global i32 0\n")
		lineOf := map[int]int{} // text line (1-based) -> combo index
		line := 2
		for i, c := range combos {
			if !alive[i] {
				continue
			}
			t := c18ComboLine(kind, fmt.Sprintf("e%d", i), c)
			lineOf[line] = i
			line += strings.Count(t, "\n")
			sb.WriteString(t)
		}
		okL, msg, err := llvmref.Accepts(sb.String())
		if err != nil {
			return nil, false
		}
		if okL {
			for i := range combos {
				if alive[i] {
					valid = append(valid, i)
				}
			}
			return valid, true
		}
		removed := 0
		r.Tally("header_combinations_llvm_diagnostics", kind+":"+classify(firstLine(lastDiag(msg))))
		for _, mm := range reEntityName.FindAllStringSubmatch(msg, -1) {
			var idx int
			fmt.Sscanf(mm[1], "e%d", &idx)
			if alive[idx] {
				delete(alive, idx)
				removed++
			}
		}
		if removed == 0 {
			if mm := reStdinLine.FindStringSubmatch(msg); mm != nil {
				var ln int
				fmt.Sscanf(mm[1], "%d", &ln)
				for l := ln; l >= 2; l-- {
					if idx, okk := lineOf[l]; okk {
						delete(alive, idx)
						removed++
						break
					}
				}
			}
		}
		if removed == 0 {
			r.Note("header combinations: cannot attribute LLVM's diagnostic: " + firstLine(lastDiag(msg)))
			return nil, false
		}
	}
	return nil, false
}

func c18HeaderCombos(r *fw.Rec, kind string) {
	linkages := []enum.Linkage{enum.LinkageNone, enum.LinkageAppending, enum.LinkageAvailableExternally, enum.LinkageCommon, enum.LinkageInternal, enum.LinkageLinkOnce,
		enum.LinkageLinkOnceODR, enum.LinkagePrivate, enum.LinkageWeak, enum.LinkageWeakODR, enum.LinkageExternal, enum.LinkageExternWeak}
	switch kind {
	case "global", "definition", "alias":
		linkages = linkages[:10] // external / extern_weak mark declarations
	case "global-declaration", "declaration":
		linkages = []enum.Linkage{enum.LinkageNone, enum.LinkageExternal, enum.LinkageExternWeak}
	}
	if kind == "global-declaration" {
		linkages = linkages[1:] // a global without initializer needs the keyword
	}
	preempts := []enum.Preemption{enum.PreemptionNone, enum.PreemptionDSOLocal, enum.PreemptionDSOPreemptable}
	viss := []enum.Visibility{enum.VisibilityNone, enum.VisibilityDefault, enum.VisibilityHidden, enum.VisibilityProtected}
	dlls := []enum.DLLStorageClass{enum.DLLStorageClassNone, enum.DLLStorageClassDLLExport, enum.DLLStorageClassDLLImport}
	uas := []enum.UnnamedAddr{enum.UnnamedAddrNone, enum.UnnamedAddrLocalUnnamedAddr, enum.UnnamedAddrUnnamedAddr}
	tlss := []enum.TLSModel{enum.TLSModelNone}
	if kind == "global" || kind == "alias" || kind == "global-declaration" {
		tlss = []enum.TLSModel{enum.TLSModelNone, enum.TLSModelGeneric, enum.TLSModelInitialExec, enum.TLSModelLocalDynamic, enum.TLSModelLocalExec}
	}
	var combos []c18Combo
	for _, l := range linkages {
		for _, p := range preempts {
			for _, v := range viss {
				for _, d := range dlls {
					for _, u := range uas {
						for _, t := range tlss {
							combos = append(combos, c18Combo{l, p, v, d, u, t})
						}
					}
				}
			}
		}
	}
	// the bulk of LLVM's objections, known beforehand (LLVM still has the last
	// word on what remains): dllimport with dso_local, local linkage with
	// non-default visibility, appending/common on anything but variables
	{
		var kept []c18Combo
		for _, c := range combos {
			local := c.l == enum.LinkagePrivate || c.l == enum.LinkageInternal
			switch {
			case c.p == enum.PreemptionDSOLocal && c.d == enum.DLLStorageClassDLLImport:
			case local && (c.v == enum.VisibilityHidden || c.v == enum.VisibilityProtected):
			case (kind == "alias" || kind == "definition") && (c.l == enum.LinkageAppending || c.l == enum.LinkageCommon):
			case kind == "alias" && c.l == enum.LinkageAvailableExternally:
			default:
				kept = append(kept, c)
			}
		}
		r.TallyN("header_combinations_llvm_invalid(not judged)", kind+":by-rule", len(combos)-len(kept))
		combos = kept
	}
	valid, okV := c18ValidCombos(r, kind, combos)
	if !okV {
		r.Inconclusive("llvm-as could not be used to select the valid header combinations")
		return
	}
	r.TallyN("header_combinations_llvm_valid", kind, len(valid))
	r.TallyN("header_combinations_llvm_invalid(not judged)", kind, len(combos)-len(valid))
	m := ir.NewModule()
	target := m.NewGlobalDef("target", irconst.NewInt(types.I32, 0))
	name := func(i int) string { return fmt.Sprintf("e%d", i) }
	for _, i := range valid {
		c := combos[i]
		switch kind {
		case "global":
			g := m.NewGlobalDef(name(i), irconst.NewInt(types.I32, 0))
			g.Linkage, g.Preemption, g.Visibility, g.DLLStorageClass, g.UnnamedAddr, g.TLSModel = c.l, c.p, c.v, c.d, c.u, c.t
		case "global-declaration":
			g := m.NewGlobal(name(i), types.I32)
			g.Linkage, g.Preemption, g.Visibility, g.DLLStorageClass, g.UnnamedAddr, g.TLSModel = c.l, c.p, c.v, c.d, c.u, c.t
		case "declaration", "definition":
			f := m.NewFunc(name(i), types.Void)
			if kind == "definition" {
				f.NewBlock("").NewRet(nil)
			}
			f.Linkage, f.Preemption, f.Visibility, f.DLLStorageClass, f.UnnamedAddr = c.l, c.p, c.v, c.d, c.u
		case "alias":
			a := m.NewAlias(name(i), target)
			a.Linkage, a.Preemption, a.Visibility, a.DLLStorageClass, a.UnnamedAddr, a.TLSModel = c.l, c.p, c.v, c.d, c.u, c.t
		}
	}
	text, pp := printGuard(m)
	if pp != "" {
		r.Violate(fw.Violation{Key: "header-combinations-print-panic/" + kind, What: firstLine(pp)})
		return
	}
	m2, perr, pmsg := parseGuard("c18-header", text)
	if pmsg != "" || perr != nil {
		what := pmsg
		if perr != nil {
			what = perr.Error()
		}
		r.Violate(fw.Violation{Key: "header-combinations-rejected/" + kind, Input: fw.Trunc(text, 4000), What: "the printed module of LLVM-valid header keyword combinations is not accepted by the parser: " + firstLine(what)})
		return
	}
	got := map[string]c18Combo{}
	for _, g := range m2.Globals {
		got[g.GlobalName] = c18Combo{g.Linkage, g.Preemption, g.Visibility, g.DLLStorageClass, g.UnnamedAddr, g.TLSModel}
	}
	for _, f := range m2.Funcs {
		got[f.GlobalName] = c18Combo{f.Linkage, f.Preemption, f.Visibility, f.DLLStorageClass, f.UnnamedAddr, enum.TLSModelNone}
	}
	for _, a := range m2.Aliases {
		got[a.GlobalName] = c18Combo{a.Linkage, a.Preemption, a.Visibility, a.DLLStorageClass, a.UnnamedAddr, a.TLSModel}
	}
	bad := 0
	for _, i := range valid {
		c := combos[i]
		r.Eval(1)
		g, ok := got[name(i)]
		if ok && g == c {
			r.NontrivialN("header-combo/"+kind, 1)
			continue
		}
		bad++
		if bad > 3 {
			continue
		}
		line := ""
		for _, l := range strings.Split(text, "\n") {
			if strings.Contains(l, "@"+name(i)+" ") || strings.Contains(l, "@"+name(i)+"(") {
				line = l
				break
			}
		}
		r.Violate(fw.Violation{Key: "header-combination/" + kind, Input: line,
			What: fmt.Sprintf("%s with linkage=%v preemption=%v visibility=%v dll=%v unnamed_addr=%v tls=%v is printed as `%s` and read back as linkage=%v preemption=%v visibility=%v dll=%v unnamed_addr=%v tls=%v (found=%v)",
				kind, c.l, c.p, c.v, c.d, c.u, c.t, fw.Trunc(line, 200), g.l, g.p, g.v, g.d, g.u, g.t, ok)})
	}
}

// c18CmpXchgPairs: cmpxchg carries two atomic orderings; every pair LLVM
// accepts is built through the API, printed, parsed back, and both slots
// compared (a rule that derives one ordering from the other loses a keyword
// that a single-slot round trip never sees).
func c18CmpXchgPairs(r *fw.Rec) {
	ords := []enum.AtomicOrdering{enum.AtomicOrderingUnordered, enum.AtomicOrderingMonotonic, enum.AtomicOrderingAcquire, enum.AtomicOrderingRelease, enum.AtomicOrderingAcquireRelease, enum.AtomicOrderingSequentiallyConsistent}
	for _, so := range ords {
		for _, fo := range ords {
			for _, weak := range []bool{false, true} {
				w := ""
				if weak {
					w = "weak "
				}
				probe := fmt.Sprintf("define void @f(i32* %%p) {\n  %%r = cmpxchg %si32* %%p, i32 0, i32 1 %s %s\n  ret void\n}\n", w, so, fo)
				ok, _, err := llvmref.Accepts(probe)
				if err != nil {
					r.Inconclusive("llvm tool failure")
					return
				}
				if !ok {
					r.Tally("ordering_pairs", "llvm-invalid(not judged)")
					continue
				}
				m := ir.NewModule()
				f := m.NewFunc("f", types.Void, ir.NewParam("p", types.I32Ptr))
				b := f.NewBlock("")
				cx := b.NewCmpXchg(f.Params[0], irconst.NewInt(types.I32, 0), irconst.NewInt(types.I32, 1), so, fo)
				cx.Weak = weak
				b.NewRet(nil)
				text, pp := printGuard(m)
				if pp != "" {
					r.Violate(fw.Violation{Key: "ordering-pair-print-panic/cmpxchg", What: firstLine(pp)})
					continue
				}
				r.Eval(1)
				check := func(stage, t string) bool {
					m2, perr, pmsg := parseGuard("c18-cmpxchg", t)
					if pmsg != "" || perr != nil {
						r.Violate(fw.Violation{Key: "ordering-pair-rejected/cmpxchg/" + stage, Input: t, What: "not accepted by the parser"})
						return false
					}
					var got *ir.InstCmpXchg
					for _, inst := range m2.Funcs[0].Blocks[0].Insts {
						if c, ok := inst.(*ir.InstCmpXchg); ok {
							got = c
						}
					}
					if got == nil || got.SuccessOrdering != so || got.FailureOrdering != fo || got.Weak != weak {
						obs := "no cmpxchg"
						if got != nil {
							obs = fmt.Sprintf("success=%v failure=%v weak=%v", got.SuccessOrdering, got.FailureOrdering, got.Weak)
						}
						r.Violate(fw.Violation{Key: fmt.Sprintf("ordering-pair/cmpxchg/%s", stage), Input: t,
							What: fmt.Sprintf("cmpxchg %ssuccess=%v failure=%v (%s) reads back as %s", w, so, fo, stage, obs)})
						return false
					}
					return true
				}
				if check("llvm-spelling", probe) && check("printed", text) {
					r.Nontrivial(fmt.Sprintf("cmpxchg/%v/%v/%v", so, fo, weak))
					r.Tally("ordering_pairs", "cmpxchg-round-trip")
				}
			}
		}
	}
}

// c18FastMathSubsets: every subset of the eight fast-math flags on every
// instruction kind that carries them is built through the API, printed and
// parsed back: the flags read back must be the set that was built (`fast` is a
// member of its own in this library, not a shorthand the printer may introduce).
func c18FastMathSubsets(r *fw.Rec) {
	all := []enum.FastMathFlag{enum.FastMathFlagAFn, enum.FastMathFlagARcp, enum.FastMathFlagContract, enum.FastMathFlagFast, enum.FastMathFlagNInf, enum.FastMathFlagNNaN, enum.FastMathFlagNSZ, enum.FastMathFlagReassoc}
	kinds := []string{"fneg", "fadd", "fsub", "fmul", "fdiv", "frem", "fcmp", "phi", "select", "call",
		// results that are vectors of floating-point values, arrays of them and arrays of such vectors
		// (LLVM: a call, select or phi is a floating-point operation if its type is, after stripping arrays)
		"fadd-vector", "fcmp-vector", "call-vector", "call-array", "call-array-of-vectors", "call-array-of-arrays", "select-array", "phi-array-of-vectors"}
	for sub := 0; sub < 256; sub++ {
		var flags []enum.FastMathFlag
		for i, f := range all {
			if sub&(1<<uint(i)) != 0 {
				flags = append(flags, f)
			}
		}
		// all kinds for the full sets and a few others, one kind (by rotation) for the rest
		ks := []string{kinds[sub%len(kinds)]}
		if sub == 255 || sub == 255&^8 || sub == 8 || sub == 0 || sub == 1 {
			ks = kinds
		}
		for _, kind := range ks {
			m := ir.NewModule()
			ext := m.NewFunc("ext", types.Float, ir.NewParam("a", types.Float))
			f := m.NewFunc("f", types.Void, ir.NewParam("x", types.Float), ir.NewParam("y", types.Float), ir.NewParam("c", types.I1))
			b := f.NewBlock("entry")
			x, y, c := f.Params[0], f.Params[1], f.Params[2]
			switch kind {
			case "fneg":
				b.NewFNeg(x).FastMathFlags = flags
			case "fadd":
				b.NewFAdd(x, y).FastMathFlags = flags
			case "fsub":
				b.NewFSub(x, y).FastMathFlags = flags
			case "fmul":
				b.NewFMul(x, y).FastMathFlags = flags
			case "fdiv":
				b.NewFDiv(x, y).FastMathFlags = flags
			case "frem":
				b.NewFRem(x, y).FastMathFlags = flags
			case "fcmp":
				b.NewFCmp(enum.FPredOEQ, x, y).FastMathFlags = flags
			case "select":
				b.NewSelect(c, x, y).FastMathFlags = flags
			case "call":
				b.NewCall(ext, x).FastMathFlags = flags
			case "phi":
				nb := f.NewBlock("next")
				b.NewBr(nb)
				nb.NewPhi(ir.NewIncoming(x, b)).FastMathFlags = flags
				b = nb
			default:
				v4 := types.NewVector(4, types.Float)
				arr := types.NewArray(2, types.Float)
				arrv := types.NewArray(2, types.NewVector(2, types.Double))
				arra := types.NewArray(2, types.NewArray(3, types.Half))
				switch kind {
				case "fadd-vector":
					b.NewFAdd(irconst.NewZeroInitializer(v4), irconst.NewZeroInitializer(v4)).FastMathFlags = flags
				case "fcmp-vector":
					b.NewFCmp(enum.FPredUGT, irconst.NewZeroInitializer(v4), irconst.NewZeroInitializer(v4)).FastMathFlags = flags
				case "call-vector":
					b.NewCall(m.NewFunc("extv", v4)).FastMathFlags = flags
				case "call-array":
					b.NewCall(m.NewFunc("exta", arr)).FastMathFlags = flags
				case "call-array-of-vectors":
					b.NewCall(m.NewFunc("extav", arrv)).FastMathFlags = flags
				case "call-array-of-arrays":
					b.NewCall(m.NewFunc("extaa", arra)).FastMathFlags = flags
				case "select-array":
					b.NewSelect(c, irconst.NewZeroInitializer(arr), irconst.NewUndef(arr)).FastMathFlags = flags
				case "phi-array-of-vectors":
					nb := f.NewBlock("next")
					b.NewBr(nb)
					nb.NewPhi(ir.NewIncoming(irconst.NewZeroInitializer(arrv), b)).FastMathFlags = flags
					b = nb
				}
			}
			b.NewRet(nil)
			text, pp := printGuard(m)
			r.Eval(1)
			if pp != "" {
				r.Violate(fw.Violation{Key: "flagset-print-panic/FastMathFlag/" + kind, What: firstLine(pp)})
				continue
			}
			if sub == 255&^8 {
				// LLVM's word on the context: flags on this kind of result are valid LLVM 14
				if ok, msg, err := llvmref.Accepts(text); err == nil && !ok {
					r.Violate(fw.Violation{Key: "flagset-invalid-for-llvm/FastMathFlag/" + kind, Input: text, What: "LLVM rejects the printed instruction with fast-math flags: " + firstLine(lastDiag(msg))})
					continue
				}
			}
			m2, perr, pmsg := parseGuard("c18-fmf", text)
			if pmsg != "" || perr != nil {
				r.Violate(fw.Violation{Key: "flagset-rejected/FastMathFlag/" + kind, Input: text, What: "the printed instruction is not accepted by the parser"})
				continue
			}
			var got []enum.FastMathFlag
			found := false
			for _, fn := range m2.Funcs {
				for _, blk := range fn.Blocks {
					for _, inst := range blk.Insts {
						rv := reflect.ValueOf(inst)
						if rv.Kind() == reflect.Ptr {
							if fv := rv.Elem().FieldByName("FastMathFlags"); fv.IsValid() && !found {
								got = fv.Interface().([]enum.FastMathFlag)
								found = true
							}
						}
					}
				}
			}
			want := map[enum.FastMathFlag]bool{}
			for _, f := range flags {
				want[f] = true
			}
			have := map[enum.FastMathFlag]bool{}
			for _, f := range got {
				have[f] = true
			}
			same := found && len(want) == len(have)
			for f := range want {
				same = same && have[f]
			}
			if !same {
				r.Violate(fw.Violation{Key: "flagset-members/FastMathFlag/" + kind, Input: text,
					What: fmt.Sprintf("%s with fast-math flags %v reads back with %v", kind, flags, got)})
				continue
			}
			if len(flags) > 0 {
				r.Nontrivial(fmt.Sprintf("fmf/%s/%d", kind, sub))
			}
		}
	}
	r.Tally("flag_sets", "FastMathFlag: all 256 subsets")
}

// c18FlagListsEdited: the keyword lists of a parsed module (overflow flags,
// fast-math flags) belong to the instruction or expression that carries them.
// One element of one list is overwritten in place; every other keyword of the
// module must print as before, and a module parsed afterwards must map the
// keywords to the values it always maps them to.
func c18FlagListsEdited(r *fw.Rec) {
	const src = `@g = global i32 0
@c1 = global i64 add nsw (i64 ptrtoint (i32* @g to i64), i64 1)
@c2 = global i64 sub nuw (i64 ptrtoint (i32* @g to i64), i64 1)
@c3 = global i64 mul nsw (i64 ptrtoint (i32* @g to i64), i64 3)
define i32 @f(i32 %a, i32 %b, float %x, float %y) {
  %1 = add nsw i32 %a, %b
  %2 = sub nsw i32 %1, %b
  %3 = mul nuw i32 %2, %b
  %4 = shl nuw i32 %3, 1
  %5 = add nuw nsw i32 %4, 1
  %6 = fadd nnan float %x, %y
  %7 = fmul nnan float %6, %y
  %8 = fsub ninf float %7, %y
  %9 = fdiv fast float %8, %y
  %10 = fneg nsz float %9
  %11 = fcmp nnan olt float %10, %y
  ret i32 %5
}
define i32 @h(i32 %a) {
  %1 = add nsw i32 %a, 1
  %2 = mul nuw i32 %1, 3
  ret i32 %2
}
`
	type loc struct {
		what string
		get  func() reflect.Value // the slice
	}
	collect := func(m *ir.Module) []loc {
		var out []loc
		visit := func(what string, v interface{}) {
			rv := reflect.ValueOf(v)
			if rv.Kind() != reflect.Ptr || rv.Elem().Kind() != reflect.Struct {
				return
			}
			for _, fn := range []string{"OverflowFlags", "FastMathFlags"} {
				f := rv.Elem().FieldByName(fn)
				if f.IsValid() && f.Kind() == reflect.Slice && f.Len() > 0 {
					f := f
					out = append(out, loc{what + "." + fn, func() reflect.Value { return f }})
				}
			}
		}
		for _, g := range m.Globals {
			visit("global @"+g.Name()+" initializer", g.Init)
		}
		for _, f := range m.Funcs {
			for _, b := range f.Blocks {
				for i, inst := range b.Insts {
					visit(fmt.Sprintf("@%s instruction %d", f.Name(), i), inst)
				}
			}
		}
		return out
	}
	m, perr, pmsg := parseGuard("c18-flag-lists", src)
	if pmsg != "" || perr != nil {
		r.Inconclusive("cannot parse the flag-list module")
		return
	}
	before, _ := printGuard(m)
	locs := collect(m)
	if len(locs) < 10 {
		r.Inconclusive("flag lists not found")
		return
	}
	// no two lists share their storage
	seen := map[uintptr]string{}
	for _, l := range locs {
		r.Eval(1)
		p := l.get().Pointer()
		if other, ok := seen[p]; ok {
			r.Violate(fw.Violation{Key: "flag-lists/shared-storage", Input: src, What: fmt.Sprintf("the keyword list of %s and the one of %s are the same storage: editing one edits the other", l.what, other)})
			return
		}
		seen[p] = l.what
	}
	// overwrite one element of each list in turn (on a fresh parse each time)
	for k := range locs {
		r.Eval(1)
		mk, _, _ := parseGuard("c18-flag-lists", src)
		if mk == nil {
			return
		}
		ls := collect(mk)
		if len(ls) != len(locs) {
			r.Inconclusive("flag lists differ between two parses")
			return
		}
		sl := ls[k].get()
		old := sl.Index(0).Uint()
		alt := uint64(enum.OverflowFlagNUW)
		if strings.HasSuffix(ls[k].what, "FastMathFlags") {
			alt = uint64(enum.FastMathFlagContract)
		} else if old == alt {
			alt = uint64(enum.OverflowFlagNSW)
		}
		oldText := sl.Index(0).Interface().(fmt.Stringer).String()
		sl.Index(0).SetUint(alt)
		newText := sl.Index(0).Interface().(fmt.Stringer).String()
		after, _ := printGuard(mk)
		bl, al := strings.Split(before, "\n"), strings.Split(after, "\n")
		changed := 0
		for i := range bl {
			if i < len(al) && bl[i] != al[i] {
				changed++
				if strings.Replace(bl[i], " "+oldText+" ", " "+newText+" ", 1) != al[i] {
					r.Violate(fw.Violation{Key: "flag-lists/edit-leaks", Input: src, What: fmt.Sprintf("after overwriting the first keyword of %s (%s -> %s) another line changed: %q -> %q", ls[k].what, oldText, newText, bl[i], al[i])})
					return
				}
			}
		}
		if changed != 1 || len(al) != len(bl) {
			r.Violate(fw.Violation{Key: "flag-lists/edit-leaks", Input: src, What: fmt.Sprintf("after overwriting the first keyword of %s (%s -> %s) %d lines changed, expected exactly one", ls[k].what, oldText, newText, changed), Expected: before, Observed: after})
			return
		}
		// a module parsed afterwards is not affected
		m3, _, _ := parseGuard("c18-flag-lists", src)
		if t3, _ := printGuard(m3); t3 != before {
			r.Violate(fw.Violation{Key: "flag-lists/edit-leaks-into-later-parse", Input: src, What: fmt.Sprintf("after overwriting the first keyword of %s in one module, the same text parsed again prints differently: %s", ls[k].what, firstDiffLines(before, t3))})
			return
		}
		r.Nontrivial("flag-list-edit:" + ls[k].what)
	}
	r.TallyN("flag_lists", "edited-in-place-without-leak", len(locs))
}

// c18Contexts: the same keyword in each position the printer has a separate
// piece of code for. (a) Every function attribute with a payload (uwtable kinds,
// align, alignstack, allocsize, vscale_range, allockind) is placed in a function
// header, on a call site and in an attribute group definition; print and parse
// must give back the same attribute values in each. (b) The calling convention
// written on a call site is the one read back, whatever convention the callee
// was declared with (none stays none).
func c18Contexts(r *fw.Rec) {
	attrs := []ir.FuncAttribute{
		ir.UnwindTable{Kind: enum.UnwindTableKindNone}, ir.UnwindTable{Kind: enum.UnwindTableKindSync}, ir.UnwindTable{Kind: enum.UnwindTableKindASync},
		ir.AlignStack(16), ir.AllocSize{ElemSizeIndex: 0, NElemsIndex: -1}, ir.AllocSize{ElemSizeIndex: 1, NElemsIndex: 0},
		ir.VectorScaleRange{Min: -1, Max: 4}, ir.VectorScaleRange{Min: 2, Max: 8}, ir.VectorScaleRange{Min: 0, Max: 0},
		ir.AllocKind{Kind: enum.AllocKindAlloc | enum.AllocKindZeroed}, ir.AllocKind{Kind: enum.AllocKindFree},
		enum.FuncAttrNoUnwind, ir.AttrString("s"), ir.AttrPair{Key: "k", Value: "v"},
	}
	for ai, attr := range attrs {
		for _, ctx := range []string{"function-header", "call-site", "attribute-group"} {
			r.Eval(1)
			m := ir.NewModule()
			callee := m.NewFunc("callee", types.I8Ptr, ir.NewParam("a", types.I32), ir.NewParam("b", types.I32))
			f := m.NewFunc("f", types.Void)
			b := f.NewBlock("entry")
			call := b.NewCall(callee, irconst.NewInt(types.I32, 1), irconst.NewInt(types.I32, 2))
			b.NewRet(nil)
			switch ctx {
			case "function-header":
				callee.FuncAttrs = append(callee.FuncAttrs, attr)
			case "call-site":
				call.FuncAttrs = append(call.FuncAttrs, attr)
			default:
				g := &ir.AttrGroupDef{ID: 3, FuncAttrs: []ir.FuncAttribute{attr}}
				m.AttrGroupDefs = append(m.AttrGroupDefs, g)
				callee.FuncAttrs = append(callee.FuncAttrs, g)
			}
			key := fmt.Sprintf("contexts/%s/%T/%d", ctx, attr, ai)
			text, pp := printGuard(m)
			if pp != "" {
				r.Violate(fw.Violation{Key: key, What: "printing panics: " + firstLine(pp)})
				continue
			}
			m2, perr, pmsg := parseGuard("c18-contexts", text)
			if pmsg != "" || perr != nil {
				what := pmsg
				if perr != nil {
					what = perr.Error()
				}
				r.Violate(fw.Violation{Key: key, Input: text, What: fmt.Sprintf("the attribute %s printed in a %s is not read back: %s", attr, ctx, firstLine(what))})
				continue
			}
			var got []ir.FuncAttribute
			switch ctx {
			case "function-header":
				got = m2.Funcs[0].FuncAttrs
			case "call-site":
				got = m2.Funcs[1].Blocks[0].Insts[0].(*ir.InstCall).FuncAttrs
			default:
				if len(m2.AttrGroupDefs) == 1 {
					got = m2.AttrGroupDefs[0].FuncAttrs
				}
			}
			if len(got) == 1 {
				// (the parser returns *ir.AllocKind where the API takes the value)
				if rv := reflect.ValueOf(got[0]); rv.Kind() == reflect.Ptr && !rv.IsNil() && rv.Elem().Type() == reflect.TypeOf(attr) {
					got = []ir.FuncAttribute{rv.Elem().Interface().(ir.FuncAttribute)}
				}
			}
			if len(got) != 1 || !reflect.DeepEqual(got[0], attr) {
				r.Violate(fw.Violation{Key: key, Input: text, What: fmt.Sprintf("the attribute %#v printed in a %s is read back as %#v", attr, ctx, got)})
				continue
			}
			r.Nontrivial(key)
			r.Tally("contexts", ctx)
		}
	}
	// (b) call-site calling conventions against the callee's
	ccs := []enum.CallingConv{enum.CallingConvNone, enum.CallingConvFast, enum.CallingConvCold, enum.CallingConvX86FastCall, enum.CallingConv(77), enum.CallingConvM68kInterrupt, enum.CallingConv(200), enum.CallingConv(1023)}
	// (77 has a keyword of its own, 101 is a defined constant without one, 200 and 1023 are plain numbers)
	for _, calleeCC := range ccs {
		for _, callCC := range ccs {
			r.Eval(1)
			m := ir.NewModule()
			callee := m.NewFunc("callee", types.Void)
			callee.CallingConv = calleeCC
			callee.NewBlock("").NewRet(nil)
			pers := m.NewFunc("pers", types.I32)
			pers.Sig.Variadic = true
			f := m.NewFunc("f", types.Void)
			f.Personality = pers
			b, ok, lp := f.NewBlock("entry"), f.NewBlock("ok"), f.NewBlock("lp")
			call := b.NewCall(callee)
			call.CallingConv = callCC
			inv := b.NewInvoke(callee, nil, ok, lp)
			inv.CallingConv = callCC
			ok.NewRet(nil)
			lp.NewLandingPad(types.I32).Cleanup = true
			lp.NewRet(nil)
			key := fmt.Sprintf("contexts/call-site-cc/callee=%s/call=%s", calleeCC, callCC)
			text, pp := printGuard(m)
			m2, perr, pmsg := parseGuard("c18-callcc", text)
			if pp != "" || pmsg != "" || perr != nil {
				r.Violate(fw.Violation{Key: key, Input: text, What: "print or re-parse fails"})
				continue
			}
			c2 := m2.Funcs[2].Blocks[0].Insts[0].(*ir.InstCall)
			i2 := m2.Funcs[2].Blocks[0].Term.(*ir.TermInvoke)
			if c2.CallingConv != callCC || i2.CallingConv != callCC || m2.Funcs[0].CallingConv != calleeCC {
				r.Violate(fw.Violation{Key: key, Input: text, What: fmt.Sprintf("a call written with calling convention %q to a %q function reads back as call %q / invoke %q (function %q)", callCC, calleeCC, c2.CallingConv, i2.CallingConv, m2.Funcs[0].CallingConv)})
				continue
			}
			r.Nontrivial(key)
			r.Tally("contexts", "call-site-cc")
		}
	}
	// (c) a keyword next to the other fields of its node: the virtuality of a
	// DISubprogram next to each spFlags set (the IR keeps both; both are printed)
	spSets := []enum.DISPFlag{0, enum.DISPFlagOptimized, enum.DISPFlagLocalToUnit, enum.DISPFlagLocalToUnit | enum.DISPFlagOptimized, enum.DISPFlagPure | enum.DISPFlagElemental, enum.DISPFlagMainSubprogram}
	for _, virt := range []enum.DwarfVirtuality{enum.DwarfVirtualityNone, enum.DwarfVirtualityVirtual, enum.DwarfVirtualityPureVirtual} {
		for _, sp := range spSets {
			for _, dflags := range []enum.DIFlag{0, enum.DIFlagPrototyped} {
				r.Eval(1)
				key := fmt.Sprintf("contexts/subprogram-fields/%s/spFlags=%d/flags=%d", virt, sp, dflags)
				m := ir.NewModule()
				d := &metadata.DISubprogram{MetadataID: 0, Name: "s", Line: 3, Virtuality: virt, SPFlags: sp, Flags: dflags}
				m.MetadataDefs = append(m.MetadataDefs, d)
				m.NamedMetadataDefs["md"] = &metadata.NamedDef{Name: "md", Nodes: []metadata.Node{d}}
				text, pp := printGuard(m)
				m2, perr, pmsg := parseGuard("c18-spfields", text)
				if pp != "" || pmsg != "" || perr != nil || len(m2.MetadataDefs) != 1 {
					r.Violate(fw.Violation{Key: key, Input: text, What: "print or re-parse fails"})
					continue
				}
				d2, ok := m2.MetadataDefs[0].(*metadata.DISubprogram)
				if !ok || d2.Virtuality != virt || d2.SPFlags != sp || d2.Flags != dflags {
					r.Violate(fw.Violation{Key: key, Input: text, What: fmt.Sprintf("a subprogram built with virtuality %s, spFlags %d, flags %d and printed as `%s` reads back as %s", virt, sp, dflags, firstLine(d.LLString()), func() string {
						if !ok {
							return fmt.Sprintf("%T", m2.MetadataDefs[0])
						}
						return fmt.Sprintf("virtuality %s, spFlags %d, flags %d", d2.Virtuality, d2.SPFlags, d2.Flags)
					}())})
					continue
				}
				r.Nontrivial(key)
				r.Tally("contexts", "subprogram-fields")
			}
		}
	}
}
