package props

import (
	"fmt"
	"github.com/llir/llvm/ir/enum"
	"math/rand"
	"reflect"
	"strings"
	"verif/internal/corpus"

	"github.com/llir/llvm/asm"
	"github.com/llir/llvm/ir"
	"github.com/llir/llvm/ir/constant"
	"github.com/llir/llvm/ir/types"
	"github.com/llir/llvm/ir/value"

	"verif/internal/fw"
	"verif/internal/llvmref"
	"verif/internal/mgen"
)

func init() {
	fw.Register(&fw.Check{
		ID:    "C06",
		Level: "exploration",
		Rule: "(a) generated modules (mgen): every instruction result, parameter and phi is used once more at the type the generator's own typing model predicts, and llvm-as (verifier on) accepts the module, so LLVM agrees with the prediction; the parser's Type() of every such value must print exactly as predicted, the type recomputed by the IR library after clearing the cached type must be Equal and print alike, and the same must hold after parse(print(m)). " +
			"(b) constant-expression grid: every constant-expression kind the IR has (add..xor, casts, getelementptr, icmp, fcmp, select, fneg, extractelement, insertelement, shufflevector) over scalar, fixed-vector and scalable-vector operand shapes as initializer of a global of the predicted type. " +
			"(c) corpus modules: name honesty of result types (a result type carries a type name only if the written type or an operand carries it). (d) address spaces edited after the type was asked for (alloca, global, function; built and parsed): Type() must follow the edit. " +
			"non-trivial = a value whose type is not a plain scalar integer, or any constant expression; distinct by (kind, operand type, predicted type)",
		Gen:           genC06,
		MinNontrivial: 500,
		Assumptions:   []string{"the generator's typing model is trusted only on modules LLVM accepted with every result used at its predicted type"},
		Exhaustive:    func(string) bool { return false },
	})
}

func genC06(ctx *fw.Ctx) []fw.Case {
	var cases []fw.Case
	rng := ctx.Rand("c06")
	n := ctx.Pick(1500, 100000)
	for i := 0; i < n; i++ {
		seed := rng.Int63()
		cases = append(cases, fw.Case{ID: fmt.Sprintf("mgen/%d", seed), Run: func(r *fw.Rec) { c06Mgen(r, seed) }})
	}
	for b := 0; b < 8; b++ {
		b := b
		cases = append(cases, fw.Case{ID: fmt.Sprintf("constexpr/%d", b), Run: func(r *fw.Rec) { c06ConstExprs(r, b, 8) }})
	}
	for _, s := range append(baseSources(), corpus.ClangSources(ctx.Thorough())...) {
		s := s
		cases = append(cases, fw.Case{ID: "corpus/" + s.ID, Run: func(r *fw.Rec) { c06Corpus(r, s) }})
	}
	cases = append(cases, fw.Case{ID: "api/address-space-edited-after-query", Run: c06AddrSpaceEdits})
	cases = append(cases, fw.Case{ID: "text/aggregate-index-spellings", Run: c06IndexSpellings})
	cases = append(cases, fw.Case{ID: "text/types-spelled-through-names", Run: c06NamedTypeSpellings})
	cases = append(cases, fw.Case{ID: "api/results-reread-after-later-constructions", Run: c06BuildThenReread})
	return cases
}

// instKindOf names the kind of a value for tallies.
func instKindOf(v interface{}) string {
	return strings.TrimPrefix(strings.TrimPrefix(fmt.Sprintf("%T", v), "*ir."), "*constant.")
}

// typeShape classifies a type for the kind x shape matrix.
func typeShape(t types.Type) string {
	switch t := t.(type) {
	case *types.IntType:
		return "int"
	case *types.FloatType:
		return "fp"
	case *types.PointerType:
		if t.AddrSpace != 0 {
			return "ptr-as"
		}
		return "ptr"
	case *types.VectorType:
		s := "vec-" + typeShape(t.ElemType)
		if t.Scalable {
			s = "vscale-" + s
		}
		return s
	case *types.ArrayType:
		return "array"
	case *types.StructType:
		if t.TypeName != "" {
			return "named-struct"
		}
		return "struct"
	case *types.VoidType:
		return "void"
	}
	return fmt.Sprintf("%T", t)
}

// recomputeType clears the cached result type of v (field Typ), asks the IR
// library to compute it again from the operands, and restores the cache.
func recomputeType(v value.Value) (recomputed types.Type, had bool, panicMsg string) {
	rv := reflect.ValueOf(v)
	if rv.Kind() != reflect.Ptr || rv.Elem().Kind() != reflect.Struct {
		return nil, false, ""
	}
	f := rv.Elem().FieldByName("Typ")
	if !f.IsValid() || !f.CanSet() || f.IsNil() {
		return nil, false, ""
	}
	saved := reflect.ValueOf(f.Interface())
	f.Set(reflect.Zero(f.Type()))
	p, msg, _ := fw.Guard(func() { recomputed = v.Type() })
	f.Set(saved)
	if p {
		return nil, true, msg
	}
	if recomputed == nil || (reflect.ValueOf(recomputed).Kind() == reflect.Ptr && reflect.ValueOf(recomputed).IsNil()) {
		// this kind only carries the type given at construction: nothing is recomputed
		return nil, false, ""
	}
	return recomputed, true, ""
}

func c06Mgen(r *fw.Rec, seed int64) {
	feat := mgen.DefaultFeatures()
	feat.AllocaAS = true // C06 validates with llvm-as only
	gm := mgen.Generate(seed, feat)
	ok, msg, err := llvmref.Accepts(gm.Text)
	if err != nil {
		r.Inconclusive("llvm tool failure")
		return
	}
	if !ok {
		r.Inconclusive("generated module rejected by LLVM (generator at fault)")
		r.Note(fmt.Sprintf("mgen seed %d rejected: %s", seed, firstLine(lastDiag(msg))))
		return
	}
	m, perr, pmsg := parseGuard("mgen", gm.Text)
	if pmsg != "" || perr != nil {
		r.Tally("inputs", "not-accepted-by-parser(C01 business)")
		return
	}
	r.Tally("inputs", "accepted")
	c06Compare(r, fmt.Sprintf("mgen/%d", seed), gm, m, "parsed")
	// and once more through print/parse
	if y, pp := printGuard(m); pp == "" {
		if m2, e2, p2 := parseGuard("mgen", y); p2 == "" && e2 == nil {
			c06Compare(r, fmt.Sprintf("mgen/%d", seed), gm, m2, "reparsed")
		}
	}
}

func c06Compare(r *fw.Rec, id string, gm *mgen.Module, m *ir.Module, stage string) {
	funcs := map[string]*ir.Func{}
	for _, f := range m.Funcs {
		f.AssignIDs()
	}
	m.AssignGlobalIDs()
	for _, f := range m.Funcs {
		funcs[f.Ident()] = f
	}
	globals := map[string]*ir.Global{}
	for _, g := range m.Globals {
		globals[g.Ident()] = g
	}
	locals := map[string]map[string]value.Value{}
	for name, f := range funcs {
		lm := map[string]value.Value{}
		for _, p := range f.Params {
			lm[p.Ident()] = p
		}
		for _, b := range f.Blocks {
			for _, inst := range b.Insts {
				if v, ok := inst.(value.Value); ok && !types.Equal(v.Type(), types.Void) {
					lm[v.Ident()] = v
				}
			}
		}
		locals[name] = lm
	}
	for _, sv := range gm.Side {
		var v value.Value
		switch sv.Kind {
		case "global":
			if g := globals[sv.Ref]; g != nil {
				v = g
			}
		case "func":
			if f := funcs[sv.Ref]; f != nil {
				v = f
			}
		case "param", "inst":
			if lm := locals[sv.Func]; lm != nil {
				v = lm[sv.Ref]
			}
		default:
			continue
		}
		if v == nil {
			r.Tally("lookup", "value-not-found(numbering or naming: C08/C11 business)")
			continue
		}
		r.Eval(1)
		kind := instKindOf(v)
		var got types.Type
		if p, msg, _ := fw.Guard(func() { got = v.Type() }); p {
			r.Violate(fw.Violation{Key: "type-panic/" + kind, Input: gm.Text, What: fmt.Sprintf("Type() of %s %s panics: %s", kind, sv.Ref, firstLine(msg))})
			continue
		}
		if got.String() != sv.Type {
			r.Violate(fw.Violation{Key: fmt.Sprintf("wrong-type/%s/%s/%s", stage, kind, typeShape(got)), Input: gm.Text,
				What:     fmt.Sprintf("%s %s in %s: the parser reports type %s, LLVM's rules (validated by llvm-as on this module) give %s", kind, sv.Ref, sv.Func, got, sv.Type),
				Expected: sv.Type, Observed: got.String()})
			continue
		}
		if re, had, pm := recomputeType(v); had {
			if pm != "" {
				r.Violate(fw.Violation{Key: "recompute-panic/" + kind, Input: gm.Text, What: fmt.Sprintf("recomputing the type of %s %s from its operands panics: %s", kind, sv.Ref, firstLine(pm))})
				continue
			}
			if re.String() != got.String() || !types.Equal(re, got) || !types.Equal(got, re) {
				r.Violate(fw.Violation{Key: fmt.Sprintf("parser-ir-disagree/%s/%s", kind, typeShape(got)), Input: gm.Text,
					What:     fmt.Sprintf("%s %s: the parser attached type %s, the IR library computes %s from the same operands", kind, sv.Ref, got, re),
					Expected: got.String(), Observed: re.String()})
				continue
			}
			r.Tally("recomputed", kind)
		}
		shape := typeShape(got)
		r.Tally("kind_x_shape", kind+" -> "+shape)
		if shape != "int" {
			r.Nontrivial(kind + "|" + sv.Type)
		}
	}
	if stage == "parsed" {
		r.Sample(map[string]interface{}{"module": id, "values_checked": len(gm.Side), "bytes": len(gm.Text)})
	}
}

// c06Corpus compares, for every value-producing instruction and terminator of
// a corpus module LLVM accepts, the type the parser attached with the type the
// IR library computes from the same operands (equality in both directions; a type
// that carries a name must have the body of the module's definition of that name).
func c06Corpus(r *fw.Rec, s corpus.Source) {
	text, err := s.Text()
	if err != nil {
		r.Inconclusive("source unavailable")
		return
	}
	// translations given up while an instruction is being typed come first: the
	// types of the next module must not depend on what a failed one left behind
	// (pooled index lists, memo tables filled half-way)
	for _, bad := range c06FailWhileTyping {
		parseGuard("c06-fails-while-typing", bad)
	}
	r.TallyN("inputs", "translations-failing-while-typing-before-the-module", len(c06FailWhileTyping))
	m, perr, pmsg := parseGuard(s.ID, text)
	if pmsg != "" || perr != nil {
		r.Tally("inputs", "corpus-not-accepted-by-parser(C01 business)")
		return
	}
	if ok, _, err := llvmref.Accepts(text); err != nil || !ok {
		r.Tally("inputs", "corpus-not-accepted-by-llvm")
		return
	}
	check := func(where string, v value.Value) {
		var got types.Type
		if p, _, _ := fw.Guard(func() { got = v.Type() }); p || got == nil {
			return
		}
		re, had, pm := recomputeType(v)
		if !had {
			return
		}
		r.Eval(1)
		kind := instKindOf(v)
		if pm != "" {
			r.Violate(fw.Violation{Key: "recompute-panic/" + kind, Input: text, What: fmt.Sprintf("recomputing the type of %s %s (%s) from its operands panics: %s", kind, v.Ident(), where, firstLine(pm))})
			return
		}
		if !types.Equal(re, got) || !types.Equal(got, re) {
			r.Violate(fw.Violation{Key: fmt.Sprintf("parser-ir-disagree/%s/%s", kind, typeShape(got)), Input: text,
				What:     fmt.Sprintf("%s %s in %s of %s: the parser attached type %s, the IR library computes %s from the same operands", kind, v.Ident(), where, s.ID, got, re),
				Expected: got.String(), Observed: re.String()})
			return
		}
		// a type that carries a name must be the type of that name (a named
		// non-struct type is an alias in LLVM, so `%bool` and `i1` may both be
		// reported; a result type that keeps the name of an operand type of
		// another shape is another type for every user that prints it)
		for _, t := range []types.Type{got, re} {
			if bad := dishonestTypeName(m, t); bad != "" {
				r.Violate(fw.Violation{Key: fmt.Sprintf("type-name-not-its-definition/%s", kind), Input: text,
					What: fmt.Sprintf("%s %s in %s of %s has type %s: %s", kind, v.Ident(), where, s.ID, t, bad)})
				return
			}
		}
		r.Tally("recomputed", "corpus:"+kind)
		r.Nontrivial(s.ID + "|" + where + "|" + v.Ident())
	}
	for _, f := range m.Funcs {
		f.AssignIDs()
		for _, b := range f.Blocks {
			for _, inst := range b.Insts {
				if v, ok := inst.(value.Value); ok {
					check(f.Ident(), v)
				}
			}
			if v, ok := b.Term.(value.Value); ok {
				check(f.Ident(), v)
			}
		}
	}
}

// dishonestTypeName reports a named type inside t whose body is not the body
// of the module's type definition of that name.
// c06FailWhileTyping are modules whose translation fails in the middle of typing
// an instruction or expression (after part of its operands were processed).
var c06FailWhileTyping = []string{
	"define void @r1({ i32, [8 x [8 x i8]] }* %p, i32 %n) {\n  %q = getelementptr { i32, [8 x [8 x i8]] }, { i32, [8 x [8 x i8]] }* %p, i32 0, i32 %n\n  ret void\n}\n",
	"define void @r2(i32* %p) {\n  %q = getelementptr i32, i32* %p, i64 1, i64 2, i64 3\n  ret void\n}\n",
	"@g = global { i32, [4 x i64] } zeroinitializer\n@h = global i64* getelementptr ({ i32, [4 x i64] }, { i32, [4 x i64] }* @g, i32 0, i32 7, i64 1)\n",
	"define void @r3({ i32, { i8, i16 } } %a) {\n  %q = extractvalue { i32, { i8, i16 } } %a, 1, 5\n  ret void\n}\n",
	"define void @r4(<4 x i32> %a, <2 x i32> %b) {\n  %q = icmp eq <4 x i32> %a, %b\n  %s = shufflevector <4 x i32> %a, <4 x i32> %a, <3 x i32> %q\n  ret void\n}\n",
	"define void @r5(<4 x i32*> %p, <2 x i64> %i) {\n  %q = getelementptr i32, <4 x i32*> %p, <2 x i64> %i\n  %r = load i32, <4 x i32*> %q\n  ret void\n}\n",
}

func dishonestTypeName(m *ir.Module, t types.Type) string {
	defs := map[string]types.Type{}
	for _, d := range m.TypeDefs {
		defs[d.Name()] = d
	}
	seen := map[types.Type]bool{}
	var walk func(t types.Type) string
	walk = func(t types.Type) string {
		if t == nil || seen[t] {
			return ""
		}
		seen[t] = true
		if n := t.Name(); n != "" {
			d, ok := defs[n]
			if !ok {
				return fmt.Sprintf("the name %%%s is not defined by the module", n)
			}
			if d.LLString() != t.LLString() {
				return fmt.Sprintf("it is named %%%s, but %%%s is defined as %s and this type is %s", n, n, d.LLString(), t.LLString())
			}
			return ""
		}
		switch t := t.(type) {
		case *types.PointerType:
			return walk(t.ElemType)
		case *types.VectorType:
			return walk(t.ElemType)
		case *types.ArrayType:
			return walk(t.ElemType)
		case *types.StructType:
			for _, f := range t.Fields {
				if b := walk(f); b != "" {
					return b
				}
			}
		case *types.FuncType:
			if b := walk(t.RetType); b != "" {
				return b
			}
			for _, p := range t.Params {
				if b := walk(p); b != "" {
					return b
				}
			}
		}
		return ""
	}
	return walk(t)
}

// --- constant expression grid ---

type c06Expr struct {
	kind string
	typ  string // predicted type
	text string // expression text (without leading type)
}

func c06ExprGrid(rng *rand.Rand) []c06Expr {
	var out []c06Expr
	add := func(kind, typ, text string) { out = append(out, c06Expr{kind, typ, text}) }
	// operand providers: opaque (non-foldable) constants of the requested type
	intOf := func(t string) string {
		switch {
		case strings.HasPrefix(t, "<vscale"):
			return fmt.Sprintf("%s zeroinitializer", t)
		case strings.HasPrefix(t, "<"):
			n := 0
			fmt.Sscanf(t, "<%d", &n)
			et := t[strings.Index(t, "x ")+2 : len(t)-1]
			var es []string
			for i := 0; i < n; i++ {
				es = append(es, fmt.Sprintf("%s ptrtoint (i32* @g to %s)", et, et))
			}
			return fmt.Sprintf("%s <%s>", t, strings.Join(es, ", "))
		}
		return fmt.Sprintf("%s ptrtoint (i32* @g to %s)", t, t)
	}
	intTypes := []string{"i8", "i32", "i64", "i128", "<2 x i32>", "<4 x i64>", "<vscale x 2 x i32>"}
	for _, t := range intTypes {
		for _, op := range []string{"add", "sub", "mul", "shl", "lshr", "ashr", "and", "or", "xor"} {
			flags := ""
			if (op == "add" || op == "sub" || op == "mul" || op == "shl") && rng.Intn(2) == 0 {
				flags = []string{"nuw ", "nsw ", "nuw nsw "}[rng.Intn(3)]
			}
			if (op == "lshr" || op == "ashr") && rng.Intn(2) == 0 {
				flags = "exact "
			}
			add("Expr"+op, t, fmt.Sprintf("%s %s(%s, %s)", op, flags, intOf(t), intOf(t)))
		}
		i1 := "i1"
		if strings.HasPrefix(t, "<") {
			i1 = strings.Replace(t, t[strings.Index(t, "x i")+2:len(t)-1], "i1", 1)
		}
		add("ExprICmp", i1, fmt.Sprintf("icmp ult (%s, %s)", intOf(t), intOf(t)))
		add("ExprSelect", t, fmt.Sprintf("select (i1 icmp eq (i32* @g, i32* @h), %s, %s)", intOf(t), intOf(t)))
	}
	// casts
	add("ExprTrunc", "i8", "trunc ("+intOf("i64")+" to i8)")
	add("ExprTrunc", "<2 x i8>", "trunc ("+intOf("<2 x i32>")+" to <2 x i8>)")
	add("ExprZExt", "i128", "zext ("+intOf("i32")+" to i128)")
	add("ExprSExt", "<2 x i64>", "sext ("+intOf("<2 x i32>")+" to <2 x i64>)")
	add("ExprZExt", "<vscale x 2 x i64>", "zext ("+intOf("<vscale x 2 x i32>")+" to <vscale x 2 x i64>)")
	fp := func(t string) string {
		switch t {
		case "float":
			return "float bitcast (" + intOf("i32") + " to float)"
		case "double":
			return "double bitcast (" + intOf("i64") + " to double)"
		case "<2 x float>":
			return "<2 x float> bitcast (" + intOf("<2 x i32>") + " to <2 x float>)"
		case "half":
			return "half bitcast (i16 ptrtoint (i32* @g to i16) to half)"
		}
		return t + " zeroinitializer"
	}
	add("ExprFPTrunc", "float", "fptrunc ("+fp("double")+" to float)")
	add("ExprFPExt", "fp128", "fpext ("+fp("double")+" to fp128)")
	add("ExprFPExt", "<2 x double>", "fpext ("+fp("<2 x float>")+" to <2 x double>)")
	add("ExprFPToUI", "i32", "fptoui ("+fp("float")+" to i32)")
	add("ExprFPToSI", "<2 x i64>", "fptosi ("+fp("<2 x float>")+" to <2 x i64>)")
	add("ExprUIToFP", "double", "uitofp ("+intOf("i64")+" to double)")
	add("ExprSIToFP", "<2 x float>", "sitofp ("+intOf("<2 x i32>")+" to <2 x float>)")
	add("ExprSIToFP", "<vscale x 2 x float>", "sitofp ("+intOf("<vscale x 2 x i32>")+" to <vscale x 2 x float>)")
	add("ExprFCmp", "i1", "fcmp olt ("+fp("float")+", "+fp("float")+")")
	add("ExprFCmp", "<2 x i1>", "fcmp une ("+fp("<2 x float>")+", "+fp("<2 x float>")+")")
	add("ExprFCmp", "<vscale x 4 x i1>", "fcmp oeq (<vscale x 4 x float> zeroinitializer, <vscale x 4 x float> zeroinitializer)")
	add("ExprICmp", "<vscale x 4 x i1>", "icmp eq (<vscale x 4 x i32> zeroinitializer, <vscale x 4 x i32> zeroinitializer)")
	add("ExprFNeg", "float", "fneg ("+fp("float")+")")
	add("ExprFNeg", "<2 x float>", "fneg ("+fp("<2 x float>")+")")
	add("ExprPtrToInt", "i64", "ptrtoint (i32* @g to i64)")
	add("ExprPtrToInt", "<2 x i32>", "ptrtoint (<2 x i32*> <i32* @g, i32* @h> to <2 x i32>)")
	add("ExprIntToPtr", "i8*", "inttoptr ("+intOf("i64")+" to i8*)")
	add("ExprIntToPtr", "i8 addrspace(3)*", "inttoptr ("+intOf("i32")+" to i8 addrspace(3)*)")
	add("ExprIntToPtr", "<2 x i8*>", "inttoptr ("+intOf("<2 x i32>")+" to <2 x i8*>)")
	add("ExprBitCast", "i8*", "bitcast (i32* @g to i8*)")
	add("ExprBitCast", "<2 x i16>", "bitcast ("+intOf("i32")+" to <2 x i16>)")
	add("ExprBitCast", "void ()*", "bitcast (i32* @g to void ()*)")
	add("ExprAddrSpaceCast", "i32 addrspace(1)*", "addrspacecast (i32* @g to i32 addrspace(1)*)")
	add("ExprAddrSpaceCast", "<2 x i32 addrspace(2)*>", "addrspacecast (<2 x i32*> <i32* @g, i32* @h> to <2 x i32 addrspace(2)*>)")
	// vector expressions
	add("ExprExtractElement", "i32", "extractelement ("+intOf("<2 x i32>")+", i32 1)")
	add("ExprExtractElement", "i32", "extractelement ("+intOf("<vscale x 2 x i32>")+", i64 0)")
	add("ExprInsertElement", "<2 x i32>", "insertelement ("+intOf("<2 x i32>")+", "+intOf("i32")+", i32 0)")
	add("ExprInsertElement", "<vscale x 2 x i32>", "insertelement (<vscale x 2 x i32> undef, "+intOf("i32")+", i32 0)")
	add("ExprShuffleVector", "<4 x i32>", "shufflevector ("+intOf("<2 x i32>")+", "+intOf("<2 x i32>")+", <4 x i32> <i32 0, i32 1, i32 2, i32 3>)")
	add("ExprShuffleVector", "<1 x i32>", "shufflevector ("+intOf("<2 x i32>")+", <2 x i32> undef, <1 x i32> zeroinitializer)")
	add("ExprShuffleVector", "<vscale x 4 x i32>", "shufflevector (<vscale x 2 x i32> insertelement (<vscale x 2 x i32> undef, "+intOf("i32")+", i32 0), <vscale x 2 x i32> undef, <vscale x 4 x i32> zeroinitializer)")
	// the same over element types other than i32 (the mask of a shufflevector is always i32)
	ptrs2 := "<2 x i32*> <i32* @g, i32* @h>"
	add("ExprShuffleVector", "<4 x float>", "shufflevector ("+fp("<2 x float>")+", "+fp("<2 x float>")+", <4 x i32> <i32 0, i32 1, i32 2, i32 3>)")
	add("ExprShuffleVector", "<3 x i8>", "shufflevector ("+intOf("<2 x i8>")+", <2 x i8> undef, <3 x i32> <i32 1, i32 0, i32 undef>)")
	add("ExprShuffleVector", "<2 x i64>", "shufflevector ("+intOf("<4 x i64>")+", "+intOf("<4 x i64>")+", <2 x i32> <i32 7, i32 0>)")
	add("ExprShuffleVector", "<1 x i32*>", "shufflevector ("+ptrs2+", <2 x i32*> undef, <1 x i32> zeroinitializer)")
	add("ExprShuffleVector", "<4 x i32*>", "shufflevector ("+ptrs2+", "+ptrs2+", <4 x i32> <i32 3, i32 2, i32 1, i32 0>)")
	add("ExprShuffleVector", "<vscale x 4 x double>", "shufflevector (<vscale x 2 x double> zeroinitializer, <vscale x 2 x double> undef, <vscale x 4 x i32> zeroinitializer)")
	add("ExprShuffleVector", "<vscale x 1 x i8>", "shufflevector (<vscale x 2 x i8> insertelement (<vscale x 2 x i8> undef, "+intOf("i8")+", i32 0), <vscale x 2 x i8> undef, <vscale x 1 x i32> zeroinitializer)")
	add("ExprExtractElement", "float", "extractelement ("+fp("<2 x float>")+", i32 1)")
	add("ExprExtractElement", "i32*", "extractelement ("+ptrs2+", i8 0)")
	add("ExprExtractElement", "i64", "extractelement ("+intOf("<4 x i64>")+", i64 3)")
	add("ExprInsertElement", "<2 x float>", "insertelement ("+fp("<2 x float>")+", "+fp("float")+", i32 0)")
	add("ExprInsertElement", "<2 x i32*>", "insertelement ("+ptrs2+", i32* @g, i64 1)")
	add("ExprInsertElement", "<4 x i8>", "insertelement ("+intOf("<4 x i8>")+", "+intOf("i8")+", i16 2)")
	add("ExprInsertElement", "<vscale x 2 x double>", "insertelement (<vscale x 2 x double> undef, "+fp("double")+", i32 0)")
	// select with vector condition
	add("ExprSelect", "<2 x i32>", "select (<2 x i1> icmp ult ("+intOf("<2 x i32>")+", "+intOf("<2 x i32>")+"), "+intOf("<2 x i32>")+", "+intOf("<2 x i32>")+")")
	add("ExprSelect", "i32*", "select (i1 icmp eq (i32* @g, i32* @h), i32* @g, i32* @h)")
	// gep (kept small here; C07 has the grid)
	add("ExprGetElementPtr", "i32*", "getelementptr (i32, i32* @g, i64 1)")
	add("ExprGetElementPtr", "<2 x i32*>", "getelementptr (i32, <2 x i32*> <i32* @g, i32* @h>, i64 1)")
	add("ExprGetElementPtr", "<2 x i32*>", "getelementptr (i32, i32* @g, <2 x i64> zeroinitializer)")
	return out
}

func c06ConstExprs(r *fw.Rec, blk, nblk int) {
	rng := r.Ctx().Rand("c06grid")
	grid := c06ExprGrid(rng)
	var mine []c06Expr
	for i, e := range grid {
		if i%nblk == blk {
			mine = append(mine, e)
		}
	}
	host := func(i int, e c06Expr) string {
		if strings.Contains(e.typ, "vscale") {
			// globals cannot hold scalable vectors: the expression is returned by a function
			return fmt.Sprintf("define %s @e%d() {\n  ret %s %s\n}\n", e.typ, i, e.typ, e.text)
		}
		return fmt.Sprintf("@e%d = global %s %s\n", i, e.typ, e.text)
	}
	var sb strings.Builder
	sb.WriteString("@g = global i32 0\n@h = global i32 0\n")
	for i, e := range mine {
		sb.WriteString(host(i, e))
	}
	text := sb.String()
	ok, msg, err := llvmref.Accepts(text)
	if err != nil {
		r.Inconclusive("llvm tool failure")
		return
	}
	if !ok {
		// find the culprits one by one and judge the rest
		var keep []c06Expr
		for _, e := range mine {
			t := "@g = global i32 0\n@h = global i32 0\n" + host(0, e)
			if ok1, m1, _ := llvmref.Accepts(t); ok1 {
				keep = append(keep, e)
			} else {
				r.Inconclusive("grid entry rejected by LLVM (grid at fault): " + e.kind)
				r.Note("grid entry rejected: " + e.text + ": " + firstLine(lastDiag(m1)))
			}
		}
		_ = msg
		mine = keep
		sb.Reset()
		sb.WriteString("@g = global i32 0\n@h = global i32 0\n")
		for i, e := range mine {
			sb.WriteString(host(i, e))
		}
		text = sb.String()
	}
	for i, e := range mine {
		one := "@g = global i32 0\n@h = global i32 0\n" + host(i, e)
		m, perr, pmsg := parseGuard("c06", one)
		r.Eval(1)
		if pmsg != "" || perr != nil {
			what := pmsg
			if perr != nil {
				what = perr.Error()
			}
			r.Violate(fw.Violation{Key: "constexpr-rejected/" + e.kind + "/" + classify(e.typ), Input: one, What: "a constant expression LLVM accepts at the predicted type is rejected: " + firstLine(what)})
			continue
		}
		init := c06HostInit(m, i)
		if init == nil {
			r.Inconclusive("host of the grid entry not found after parsing")
			continue
		}
		got := init.Type()
		kind := instKindOf(init)
		if got.String() != e.typ {
			r.Violate(fw.Violation{Key: "wrong-type/constexpr/" + kind + "/" + typeShape(got), Input: one,
				What: fmt.Sprintf("constant expression `%s`: reported type %s, LLVM's rules give %s", e.text, got, e.typ), Expected: e.typ, Observed: got.String()})
			continue
		}
		if ex, ok := init.(constant.Expression); ok {
			if re, had, pm := recomputeType(ex); had {
				if pm != "" {
					r.Violate(fw.Violation{Key: "recompute-panic/" + kind, Input: one, What: "recomputing the type panics: " + firstLine(pm)})
					continue
				}
				if re.String() != got.String() || !types.Equal(re, got) {
					r.Violate(fw.Violation{Key: "parser-ir-disagree/constexpr/" + kind + "/" + typeShape(got), Input: one,
						What: fmt.Sprintf("constant expression `%s`: the parser attached %s, the IR library computes %s", e.text, got, re), Expected: got.String(), Observed: re.String()})
					continue
				}
			}
		}
		// and after print/parse
		if y, pp := printGuard(m); pp == "" {
			if m2, e2, p2 := parseGuard("c06", y); p2 == "" && e2 == nil {
				if x := c06HostInit(m2, i); x != nil && x.Type().String() != e.typ {
					r.Violate(fw.Violation{Key: "wrong-type/constexpr-reparsed/" + kind, Input: one, What: fmt.Sprintf("after print and parse `%s` has type %s, expected %s", e.text, x.Type(), e.typ)})
				}
			} else {
				what := p2
				if e2 != nil {
					what = e2.Error()
				}
				r.Violate(fw.Violation{Key: "constexpr-reprint-rejected/" + kind, Input: one, What: "the printed constant expression is rejected by the parser: " + firstLine(what), Observed: y})
			}
		}
		r.Nontrivial("constexpr|" + e.kind + "|" + e.typ + "|" + e.text)
		r.Tally("kind_x_shape", kind+" -> "+typeShape(got))
	}
	if len(mine) > 0 {
		r.Sample(map[string]interface{}{"constant_expression": mine[0].text, "predicted_type": mine[0].typ, "kind": mine[0].kind})
	}
}

// c06HostInit returns the constant hosted by @e<i> (global initializer or
// returned value).
func c06HostInit(m *ir.Module, i int) constant.Constant {
	name := fmt.Sprintf("e%d", i)
	for _, x := range m.Globals {
		if x.GlobalName == name {
			return x.Init
		}
	}
	for _, f := range m.Funcs {
		if f.GlobalName == name && len(f.Blocks) == 1 {
			if ret, ok := f.Blocks[0].Term.(*ir.TermRet); ok {
				if c, ok := ret.X.(constant.Constant); ok {
					return c
				}
			}
		}
	}
	return nil
}

// c06AddrSpaceEdits sets the address space of an alloca, a global and a
// function (a plain field; the API offers no other way) before and after the
// type was first asked for, on constructed and on parsed values: Type() and the
// types of instructions built on the value must follow the field, as the
// printed `addrspace(N)` does, and LLVM must accept the printed module.
func c06AddrSpaceEdits(r *fw.Rec) {
	type step struct {
		name          string
		queryFirst    bool
		parsed        bool
		useBeforeEdit bool
	}
	for _, st := range []step{{"constructed/set-before-first-query", false, false, false}, {"constructed/set-after-query", true, false, false},
		{"constructed/set-after-a-store-checked-it", true, false, true}, {"parsed/edited", true, true, false}} {
		r.Eval(1)
		var text string
		var bad []string
		p, msg, _ := fw.Guard(func() {
			var m *ir.Module
			var al *ir.InstAlloca
			var g *ir.Global
			var f *ir.Func
			var b *ir.Block
			if st.parsed {
				var err error
				m, err = asm.ParseString("c06-as", "@g = addrspace(3) global i32 0\ndeclare void @callee() addrspace(3)\ndefine void @f() {\n  %a = alloca i32, addrspace(3)\n  ret void\n}\n")
				if err != nil {
					panic(err)
				}
				g, f = m.Globals[0], m.Funcs[0]
				b = m.Funcs[1].Blocks[0]
				al = b.Insts[0].(*ir.InstAlloca)
				b.Term = nil
			} else {
				m = ir.NewModule()
				g = m.NewGlobalDef("g", constant.NewInt(types.I32, 0))
				f = m.NewFunc("callee", types.Void)
				b = m.NewFunc("f", types.Void).NewBlock("")
				al = b.NewAlloca(types.I32)
			}
			if st.queryFirst {
				_, _, _ = al.Type(), g.Type(), f.Type()
				_ = al.String()
			}
			if st.useBeforeEdit {
				b.NewStore(constant.NewInt(types.I32, 1), al)
				b.Insts = b.Insts[:len(b.Insts)-1]
			}
			al.AddrSpace, g.AddrSpace, f.AddrSpace = 5, 5, 5
			want := func(what string, t types.Type, elem string) {
				pt, ok := t.(*types.PointerType)
				if !ok || pt.AddrSpace != 5 || pt.ElemType.String() != elem {
					bad = append(bad, fmt.Sprintf("%s is %s", what, t))
				}
			}
			want("alloca.Type()", al.Type(), "i32")
			want("global.Type()", g.Type(), "i32")
			want("func.Type()", f.Type(), "void ()")
			gep := b.NewGetElementPtr(types.I32, al, constant.NewInt(types.I64, 0))
			want("gep(alloca).Type()", gep.Type(), "i32")
			sel := b.NewSelect(constant.True, al, al)
			want("select(alloca, alloca).Type()", sel.Type(), "i32")
			ld := b.NewLoad(types.I32, g)
			b.NewStore(ld, al)
			call := b.NewCall(f)
			call.AddrSpace = 5
			b.NewRet(nil)
			text = m.String()
		})
		key := "api-addrspace/" + st.name
		if p {
			r.Violate(fw.Violation{Key: key + "/panic", What: "setting an address space and building on the value panics: " + firstLine(msg)})
			continue
		}
		if len(bad) > 0 {
			r.Violate(fw.Violation{Key: key, Input: text, What: "after AddrSpace = 5 (" + st.name + "): " + strings.Join(bad, "; ")})
			continue
		}
		if ok, lmsg, err := llvmref.Accepts(text); err == nil && !ok {
			r.Violate(fw.Violation{Key: key + "/llvm", Input: text, What: "LLVM rejects the printed module: " + firstLine(lastDiag(lmsg))})
			continue
		}
		r.Nontrivial(key)
		r.Tally("api", "address-space-edit:"+st.name)
	}
}

// c06IndexSpellings: extractvalue / insertvalue indices and struct indices of
// getelementptr are decimal numbers however they are spelled (010 is ten). A
// struct of 13 fields of pairwise different types makes the field reached show
// in the result type; every result is used at the type of the field the decimal
// reading selects, so LLVM's acceptance validates the expectation.
func c06IndexSpellings(r *fw.Rec) {
	fields := []string{"i1", "i8", "i16", "i32", "i64", "half", "float", "double", "i24", "fp128", "x86_fp80", "i8*", "<2 x i8>"}
	T := "{ " + strings.Join(fields, ", ") + " }"
	spell := func(i int, k int) string {
		switch k % 4 {
		case 0:
			return fmt.Sprintf("%d", i)
		case 1:
			return fmt.Sprintf("0%d", i)
		case 2:
			return fmt.Sprintf("000%d", i)
		}
		return fmt.Sprintf("00000000000000000000%d", i)
	}
	var sb strings.Builder
	fmt.Fprintf(&sb, "%%T = type %s\n", T)
	type exp struct{ name, typ string }
	var exps []exp
	sb.WriteString("define void @f(%T %x, %T* %p, [12 x %T] %arr) {\n")
	for i, ft := range fields {
		for k := 0; k < 4; k++ {
			n := fmt.Sprintf("ev%d_%d", i, k)
			fmt.Fprintf(&sb, "  %%%s = extractvalue %%T %%x, %s\n", n, spell(i, k))
			fmt.Fprintf(&sb, "  %%iv%d_%d = insertvalue %%T %%x, %s %%%s, %s\n", i, k, ft, n, spell(i, k+1))
			fmt.Fprintf(&sb, "  %%av%d_%d = extractvalue [12 x %%T] %%arr, %s, %s\n", i, k, spell(11-i%12, k), spell(i, k+2))
			fmt.Fprintf(&sb, "  %%gp%d_%d = getelementptr %%T, %%T* %%p, i32 %s, i32 %s\n", i, k, spell(0, k), spell(i, k))
			fmt.Fprintf(&sb, "  store %s %%av%d_%d, %s* %%gp%d_%d\n", ft, i, k, ft, i, k)
			exps = append(exps, exp{n, ft}, exp{fmt.Sprintf("av%d_%d", i, k), ft}, exp{fmt.Sprintf("gp%d_%d", i, k), ft + "*"}, exp{fmt.Sprintf("iv%d_%d", i, k), "%T"})
		}
	}
	sb.WriteString("  ret void\n}\n")
	x := sb.String()
	if ok, msg, err := llvmref.Accepts(x); err != nil || !ok {
		r.Inconclusive("index-spelling module rejected by LLVM (monitor at fault): " + firstLine(lastDiag(msg)))
		return
	}
	m, perr, pmsg := parseGuard("c06-index-spellings", x)
	if pmsg != "" || perr != nil {
		what := pmsg
		if perr != nil {
			what = perr.Error()
		}
		r.Violate(fw.Violation{Key: "index-spelling/rejected", Input: x, What: "a module of aggregate indices with leading zeros, which LLVM accepts with every result used at the type of the field the decimal reading selects, is rejected: " + firstLine(what)})
		return
	}
	vals := map[string]value.Value{}
	for _, inst := range m.Funcs[0].Blocks[0].Insts {
		if n, ok := inst.(value.Named); ok {
			vals[n.Name()] = n
		}
	}
	for _, e := range exps {
		r.Eval(1)
		v := vals[e.name]
		if v == nil {
			continue
		}
		got := v.Type().String()
		recomputed := ""
		if rt, had, _ := recomputeType(v); had && rt != nil {
			recomputed = rt.String()
		}
		if got != e.typ || (recomputed != "" && recomputed != e.typ) {
			r.Violate(fw.Violation{Key: "index-spelling/wrong-type", Input: x, What: fmt.Sprintf("%%%s: the parser reports %s, recomputed from the operands %s, LLVM's rules (validated by llvm-as on this module) give %s", e.name, got, recomputed, e.typ)})
			return
		}
	}
	r.NontrivialN("index-spellings", len(exps))
	r.TallyN("index_spellings", "results-checked", len(exps))
}

// c06BuildThenReread builds, through the constructors, instructions whose
// result type is computed from the operands - several of each kind with
// different operand types - and reads every result type again after all have
// been built: a type computed once must not change because a later instruction
// of the same kind was built with other operands.
func c06BuildThenReread(r *fw.Rec) {
	m := ir.NewModule()
	scal := []types.Type{types.I8, types.I16, types.I32, types.I64, types.I128, types.Float, types.Double, types.NewPointer(types.I8), types.NewPointer(types.NewPointer(types.I32))}
	var params []*ir.Param
	for i, t := range scal {
		params = append(params, ir.NewParam(fmt.Sprintf("s%d", i), t), ir.NewParam(fmt.Sprintf("p%d", i), types.NewPointer(t)),
			ir.NewParam(fmt.Sprintf("v%d", i), types.NewVector(uint64(2+i), t)), ir.NewParam(fmt.Sprintf("a%d", i), types.NewStruct(t, types.NewArray(uint64(1+i), t))))
	}
	f := m.NewFunc("f", types.Void, params...)
	b := f.NewBlock("entry")
	type made struct {
		what string
		v    value.Value
		want string
	}
	var all []made
	add := func(what string, want string, mk func() value.Value) {
		var v value.Value
		if p, msg, _ := fw.Guard(func() { v = mk() }); p {
			r.Violate(fw.Violation{Key: "reread/constructor-panics/" + strings.SplitN(what, " ", 2)[0], What: what + ": " + firstLine(msg)})
			return
		}
		all = append(all, made{what, v, want})
	}
	isInt := func(t types.Type) bool { _, ok := t.(*types.IntType); return ok }
	isFP := func(t types.Type) bool { _, ok := t.(*types.FloatType); return ok }
	for i, t := range scal {
		s, p, v, a := params[4*i], params[4*i+1], params[4*i+2], params[4*i+3]
		ts := t.String()
		if isInt(t) || !isFP(t) {
			if isInt(t) {
				add("cmpxchg "+ts, "{ "+ts+", i1 }", func() value.Value {
					return b.NewCmpXchg(p, s, s, enum.AtomicOrderingSequentiallyConsistent, enum.AtomicOrderingSequentiallyConsistent)
				})
				add("atomicrmw "+ts, ts, func() value.Value { return b.NewAtomicRMW(enum.AtomicOpAdd, p, s, enum.AtomicOrderingMonotonic) })
				add("icmp "+ts, "i1", func() value.Value { return b.NewICmp(enum.IPredEQ, s, s) })
				add("icmp vector "+ts, fmt.Sprintf("<%d x i1>", 2+i), func() value.Value { return b.NewICmp(enum.IPredULT, v, v) })
			} else {
				add("cmpxchg "+ts, "{ "+ts+", i1 }", func() value.Value {
					return b.NewCmpXchg(p, s, s, enum.AtomicOrderingAcquire, enum.AtomicOrderingMonotonic)
				})
			}
		} else {
			add("fcmp "+ts, "i1", func() value.Value { return b.NewFCmp(enum.FPredOLT, s, s) })
			add("fcmp vector "+ts, fmt.Sprintf("<%d x i1>", 2+i), func() value.Value { return b.NewFCmp(enum.FPredUNE, v, v) })
		}
		// conversions, of scalars and of vectors (fixed and scalable): the result is
		// the target type as given, not a part of it
		n := uint64(2 + i)
		vecOf := func(e types.Type, scalable bool) *types.VectorType {
			vt := types.NewVector(n, e)
			vt.Scalable = scalable
			return vt
		}
		vs := func(e types.Type, scalable bool) string {
			if scalable {
				return fmt.Sprintf("<vscale x %d x %s>", n, e)
			}
			return fmt.Sprintf("<%d x %s>", n, e)
		}
		for _, scalable := range []bool{false, true} {
			scalable := scalable
			var src value.Value = v
			if scalable {
				src = constant.NewZeroInitializer(vecOf(t, true))
			}
			tag := ts
			if scalable {
				tag = "scalable " + ts
			}
			switch {
			case isInt(t):
				w := t.(*types.IntType).BitSize
				wide, narrow := types.NewInt(w+7), types.I1
				add("trunc vector "+tag, vs(narrow, scalable), func() value.Value { return b.NewTrunc(src, vecOf(narrow, scalable)) })
				add("zext vector "+tag, vs(wide, scalable), func() value.Value { return b.NewZExt(src, vecOf(wide, scalable)) })
				add("sext vector "+tag, vs(wide, scalable), func() value.Value { return b.NewSExt(src, vecOf(wide, scalable)) })
				add("uitofp vector "+tag, vs(types.Half, scalable), func() value.Value { return b.NewUIToFP(src, vecOf(types.Half, scalable)) })
				add("sitofp vector "+tag, vs(types.FP128, scalable), func() value.Value { return b.NewSIToFP(src, vecOf(types.FP128, scalable)) })
				add("inttoptr vector "+tag, vs(types.I8Ptr, scalable), func() value.Value { return b.NewIntToPtr(src, vecOf(types.I8Ptr, scalable)) })
				if !scalable {
					add("trunc "+ts, "i1", func() value.Value { return b.NewTrunc(s, narrow) })
					add("zext "+ts, wide.String(), func() value.Value { return b.NewZExt(s, wide) })
					add("sext "+ts, wide.String(), func() value.Value { return b.NewSExt(s, wide) })
					add("sitofp "+ts, "double", func() value.Value { return b.NewSIToFP(s, types.Double) })
				}
			case isFP(t):
				add("fptoui vector "+tag, vs(types.I1, scalable), func() value.Value { return b.NewFPToUI(src, vecOf(types.I1, scalable)) })
				add("fptosi vector "+tag, vs(types.I128, scalable), func() value.Value { return b.NewFPToSI(src, vecOf(types.I128, scalable)) })
				add("fpext vector "+tag, vs(types.FP128, scalable), func() value.Value { return b.NewFPExt(src, vecOf(types.FP128, scalable)) })
				add("fptrunc vector "+tag, vs(types.Half, scalable), func() value.Value { return b.NewFPTrunc(src, vecOf(types.Half, scalable)) })
				if !scalable {
					add("fptosi "+ts, "i8", func() value.Value { return b.NewFPToSI(s, types.I8) })
					add("fpext "+ts, "fp128", func() value.Value { return b.NewFPExt(s, types.FP128) })
					add("fptrunc "+ts, "half", func() value.Value { return b.NewFPTrunc(s, types.Half) })
				}
			default:
				as3 := types.NewPointer(t.(*types.PointerType).ElemType)
				as3.AddrSpace = 3
				add("ptrtoint vector "+tag, vs(types.I64, scalable), func() value.Value { return b.NewPtrToInt(src, vecOf(types.I64, scalable)) })
				add("addrspacecast vector "+tag, vs(as3, scalable), func() value.Value { return b.NewAddrSpaceCast(src, vecOf(as3, scalable)) })
				add("bitcast vector "+tag, vs(types.I8Ptr, scalable), func() value.Value { return b.NewBitCast(src, vecOf(types.I8Ptr, scalable)) })
				if !scalable {
					add("ptrtoint "+ts, "i16", func() value.Value { return b.NewPtrToInt(s, types.I16) })
					add("addrspacecast "+ts, as3.String(), func() value.Value { return b.NewAddrSpaceCast(s, as3) })
				}
			}
		}
		add("load "+ts, ts, func() value.Value { return b.NewLoad(t, p) })
		add("alloca "+ts, ts+"*", func() value.Value { return b.NewAlloca(t) })
		add("extractelement "+ts, ts, func() value.Value { return b.NewExtractElement(v, constant.NewInt(types.I32, 0)) })
		add("insertelement "+ts, v.Type().String(), func() value.Value { return b.NewInsertElement(v, s, constant.NewInt(types.I32, 1)) })
		add("shufflevector "+ts, fmt.Sprintf("<3 x %s>", ts), func() value.Value {
			return b.NewShuffleVector(v, v, constant.NewVector(types.NewVector(3, types.I32), constant.NewInt(types.I32, 0), constant.NewInt(types.I32, 1), constant.NewInt(types.I32, 0)))
		})
		add("extractvalue "+ts, ts, func() value.Value { return b.NewExtractValue(a, 0) })
		add("extractvalue nested "+ts, ts, func() value.Value { return b.NewExtractValue(a, 1, 0) })
		add("insertvalue "+ts, a.Type().String(), func() value.Value { return b.NewInsertValue(a, s, 0) })
		add("getelementptr "+ts, ts+"*", func() value.Value { return b.NewGetElementPtr(t, p, constant.NewInt(types.I64, 1)) })
		add("getelementptr struct "+ts, ts+"*", func() value.Value {
			ap := b.NewAlloca(a.Type())
			return b.NewGetElementPtr(a.Type(), ap, constant.NewInt(types.I32, 0), constant.NewInt(types.I32, 1), constant.NewInt(types.I64, 0))
		})
		add("select "+ts, ts, func() value.Value { return b.NewSelect(constant.True, s, s) })
		add("phi "+ts, ts, func() value.Value { return b.NewPhi(ir.NewIncoming(s, b)) })
		add("bitcast pointer "+ts, "i8*", func() value.Value { return b.NewBitCast(p, types.I8Ptr) })
		add("freeze "+ts, ts, func() value.Value {
			fr := &ir.InstFreeze{X: s}
			b.Insts = append(b.Insts, fr)
			return fr
		})
		add("va_arg "+ts, ts, func() value.Value { return b.NewVAArg(params[4*7], t) })
	}
	b.NewRet(nil)
	// read every type twice: right now (all have been built), and once more after a print
	for pass := 0; pass < 2; pass++ {
		for _, x := range all {
			r.Eval(1)
			var got string
			if p, msg, _ := fw.Guard(func() { got = x.v.Type().String() }); p {
				r.Violate(fw.Violation{Key: "reread/type-panics", What: x.what + ": " + firstLine(msg)})
				return
			}
			if got != x.want {
				r.Violate(fw.Violation{Key: "reread/" + strings.SplitN(x.what, " ", 2)[0], What: fmt.Sprintf("%s built through its constructor has type %s when read after the later constructions (pass %d); the operands give %s", x.what, got, pass, x.want)})
				return
			}
		}
		if pass == 0 {
			if _, pp := printGuard(m); pp != "" {
				r.Inconclusive("the reread module cannot be printed: " + firstLine(pp))
				return
			}
		}
	}
	r.NontrivialN("reread", len(all))
	r.TallyN("reread", "results-checked-after-later-constructions", len(all))
}

// c06NamedTypeSpellings: operand and call-site types spelled through type names
// (`%V = type <vscale x 2 x i64>`, `%W = type <4 x float>`, `%ft = type i32 (i8*, ...)`,
// `%vt = type void (i32)`): the result types are those of the types the names
// stand for. Every result is used at the type LLVM's rules give (stores into
// typed slots), so llvm-as validates the expectations.
func c06NamedTypeSpellings(r *fw.Rec) {
	x := `%V = type <vscale x 2 x i64>
%W = type <4 x float>
%P = type i8*
%ft = type i32 (i8*, ...)
%vt = type void (i32)
%gt = type %W (%W)
declare i32 @printf(i8*, ...)
declare void @sink(i32)
declare %W @vec(%W)
define void @f(%V %a, %V %b, %W %w, %P %p, %ft* %fp, <vscale x 2 x i1>* %s1, <vscale x 2 x i8*>* %s2, <vscale x 2 x i64>* %s3, <4 x i1>* %s4, <4 x float>* %s5, i32* %s6, float* %s7) {
  %c1 = icmp ult %V %a, %b
  store <vscale x 2 x i1> %c1, <vscale x 2 x i1>* %s1
  %g1 = getelementptr i8, %P %p, %V %a
  store <vscale x 2 x i8*> %g1, <vscale x 2 x i8*>* %s2
  %a1 = add %V %a, %b
  store <vscale x 2 x i64> %a1, <vscale x 2 x i64>* %s3
  %sel = select <vscale x 2 x i1> %c1, %V %a, %V %b
  store <vscale x 2 x i64> %sel, <vscale x 2 x i64>* %s3
  %c2 = fcmp olt %W %w, %w
  store <4 x i1> %c2, <4 x i1>* %s4
  %sh = shufflevector %W %w, %W %w, <4 x i32> <i32 0, i32 5, i32 2, i32 7>
  store <4 x float> %sh, <4 x float>* %s5
  %e = extractelement %W %w, i32 1
  store float %e, float* %s7
  %k1 = call %ft @printf(%P %p, i32 1)
  store i32 %k1, i32* %s6
  %k2 = call %ft %fp(%P %p)
  store i32 %k2, i32* %s6
  call %vt @sink(i32 %k2)
  %k3 = call %gt @vec(%W %w)
  store <4 x float> %k3, <4 x float>* %s5
  ret void
}
`
	if ok, msg, err := llvmref.Accepts(x); err != nil || !ok {
		r.Inconclusive("named-type module rejected by LLVM (monitor at fault): " + firstLine(lastDiag(msg)))
		return
	}
	want := map[string]string{"c1": "<vscale x 2 x i1>", "g1": "<vscale x 2 x i8*>", "a1": "<vscale x 2 x i64>", "sel": "<vscale x 2 x i64>", "c2": "<4 x i1>", "sh": "<4 x float>", "e": "float", "k1": "i32", "k2": "i32", "k3": "<4 x float>"}
	r.Eval(1)
	m, perr, pmsg := parseGuard("c06-named-types", x)
	if pmsg != "" || perr != nil {
		what := pmsg
		if perr != nil {
			what = perr.Error()
		}
		r.Violate(fw.Violation{Key: "named-type-spelling/rejected", Input: x, What: "a module whose operand and call-site types are spelled through type names, with every result used at the type LLVM's rules give, is rejected: " + firstLine(what)})
		return
	}
	resolved := func(t types.Type) string {
		// the structure of the type, whatever it is called
		return c06Structure(t)
	}
	voidCalls := 0
	for _, inst := range m.Funcs[len(m.Funcs)-1].Blocks[0].Insts {
		if call, ok := inst.(*ir.InstCall); ok && types.IsVoid(call.Type()) {
			voidCalls++
		}
		n, ok := inst.(value.Named)
		if !ok {
			continue
		}
		w, judged := want[n.Name()]
		if !judged {
			continue
		}
		r.Eval(1)
		got := resolved(n.Type())
		rec := ""
		if rt, had, _ := recomputeType(n); had && rt != nil {
			rec = resolved(rt)
		}
		if got != w || (rec != "" && rec != w) {
			r.Violate(fw.Violation{Key: "named-type-spelling/wrong-type/" + n.Name(), Input: x, What: fmt.Sprintf("%%%s: the parser reports %s (structure %s), recomputed from the operands %s; LLVM's rules (validated by llvm-as on this module) give %s", n.Name(), n.Type(), got, rec, w)})
			return
		}
	}
	if voidCalls != 1 {
		r.Violate(fw.Violation{Key: "named-type-spelling/void-call", Input: x, What: fmt.Sprintf("the call through the named type `%%vt = type void (i32)` must be the one void call of the function; %d calls are void", voidCalls)})
		return
	}
	r.NontrivialN("named-type-spellings", len(want))
	r.TallyN("named_type_spellings", "results-checked", len(want))
}

// c06Structure spells a type by structure, looking through the names of
// non-struct types.
func c06Structure(t types.Type) string {
	switch t := t.(type) {
	case *types.IntType:
		return fmt.Sprintf("i%d", t.BitSize)
	case *types.FloatType:
		return t.Kind.String()
	case *types.PointerType:
		if t.AddrSpace != 0 {
			return fmt.Sprintf("%s addrspace(%d)*", c06Structure(t.ElemType), uint64(t.AddrSpace))
		}
		return c06Structure(t.ElemType) + "*"
	case *types.VectorType:
		if t.Scalable {
			return fmt.Sprintf("<vscale x %d x %s>", t.Len, c06Structure(t.ElemType))
		}
		return fmt.Sprintf("<%d x %s>", t.Len, c06Structure(t.ElemType))
	case *types.VoidType:
		return "void"
	}
	return t.String()
}
