package props

import (
	"fmt"
	"math/rand"
	"strconv"
	"strings"

	"github.com/llir/llvm/ir"
	"github.com/llir/llvm/ir/constant"
	"github.com/llir/llvm/ir/enum"
	"github.com/llir/llvm/ir/metadata"
	"github.com/llir/llvm/ir/types"
	"github.com/llir/llvm/verifhook/export"

	"verif/internal/fw"
	"verif/internal/llvmref"
)

func init() {
	fw.Register(&fw.Check{
		ID:    "C11",
		Level: "exploration",
		Rule: "byte strings: every single byte 0x01-0xFF alone and embedded between letters (0x00 too for strings), all strings of length<=3 (quick) / 4 (thorough) over {0,9,a,\",\\,5,C,space,0x80} (all-digit names, leading digits, \\5C, \\\\, escape look-alikes), digit strings around 2^63/2^64 and PRNG byte strings up to 64 bytes. Each string is placed through the Go API in each of 24 positions (global, function, alias, parameter, instruction, block, type, comdat, named-metadata and attachment names; attribute key/value/string; section, partition, gc; inline-asm text; module asm; metadata string; source_filename; syncscope; operand-bundle tag; DIFile filename; character array), batched many per module. The printed module must be accepted by the library's parser and read back to exactly those bytes (and as a name, not an ID), distinct strings must print as distinct tokens, and LLVM must accept the module and, after llvm-as|llvm-dis, show the same bytes (decoded with LLVM's \\xx rule). LLVM's own printing of each accepted module (its spelling of the same bytes: `\\\\` for a backslash, raw printable characters) is fed back to the library's parser and must yield the same strings. enc.Quote/Unquote and Escape/Unescape are driven directly through the export hook. " +
			"The string set also holds names spelled like keywords of the grammar (the 29 specialized metadata node names and 29 other keywords such as type, global, define, label, void, i32, zeroinitializer, x, c, to). " +
			"Further cases: the identifier API (NewLocalIdent/NewGlobalIdent, Name) on number-like names; a comdat named like the number of its unnamed global; small digit strings in every slot. " +
			"non-trivial = a (position, string) pair whose string needs quoting or escaping, or is all digits; distinct by (position, string)",
		Gen:           genC11,
		MinNontrivial: 2000,
		Assumptions:   []string{"strings LLVM forbids in a position (e.g. a NUL byte in a name) are filtered by the validity gate: a batch LLVM rejects is bisected and the rejected strings are not judged"},
		Exhaustive:    func(string) bool { return false },
	})
}

// c11Slot is one identifier or string position of the grammar.
type c11Slot struct {
	name   string
	isName bool // an identifier position (NUL excluded; name-vs-ID distinction applies)
	// build places the strings in a fresh module; read returns them from a parsed module.
	build func(ss []string) *ir.Module
	read  func(m *ir.Module) []string
	// token extracts the printed tokens of the strings from LLVM's output (nil = not checked against LLVM's re-print)
	llvmRe func(out string) []string
}

func i32c(v int64) *constant.Int { return constant.NewInt(types.I32, v) }

func c11Slots() []c11Slot {
	return []c11Slot{
		{name: "global-name", isName: true,
			build: func(ss []string) *ir.Module {
				m := ir.NewModule()
				for i, s := range ss {
					m.NewGlobalDef(s, i32c(int64(i)))
				}
				return m
			},
			read: func(m *ir.Module) []string {
				var out []string
				for _, g := range m.Globals {
					out = append(out, identOrID(g.GlobalIdent.IsUnnamed(), g.GlobalName, g.GlobalID))
				}
				return out
			},
			llvmRe: func(out string) []string { return scanDefs(out, "@", " = ") }},
		{name: "func-name", isName: true,
			build: func(ss []string) *ir.Module {
				m := ir.NewModule()
				for _, s := range ss {
					m.NewFunc(s, types.Void)
				}
				return m
			},
			read: func(m *ir.Module) []string {
				var out []string
				for _, f := range m.Funcs {
					out = append(out, identOrID(f.IsUnnamed(), f.GlobalName, f.GlobalID))
				}
				return out
			},
			llvmRe: func(out string) []string { return scanAfter(out, "declare void @", "(") }},
		{name: "alias-name", isName: true,
			build: func(ss []string) *ir.Module {
				m := ir.NewModule()
				g := m.NewGlobalDef("target", i32c(0))
				for _, s := range ss {
					m.NewAlias(s, g)
				}
				return m
			},
			read: func(m *ir.Module) []string {
				var out []string
				for _, a := range m.Aliases {
					out = append(out, identOrID(a.IsUnnamed(), a.GlobalName, a.GlobalID))
				}
				return out
			},
			llvmRe: func(out string) []string {
				var r []string
				for _, t := range scanDefs(out, "@", " = ") {
					if t != "target" {
						r = append(r, t)
					}
				}
				return r
			}},
		{name: "param-name", isName: true,
			build: func(ss []string) *ir.Module {
				m := ir.NewModule()
				for i, s := range ss {
					f := m.NewFunc(fmt.Sprintf("f%d", i), types.I32, ir.NewParam(s, types.I32))
					f.NewBlock("verif.bb").NewRet(f.Params[0])
				}
				return m
			},
			read: func(m *ir.Module) []string {
				var out []string
				for _, f := range m.Funcs {
					out = append(out, identOrID(f.Params[0].IsUnnamed(), f.Params[0].LocalName, f.Params[0].LocalID))
				}
				return out
			},
			llvmRe: func(out string) []string { return scanAfter(out, "(i32 %", ")") }},
		{name: "inst-name", isName: true,
			build: func(ss []string) *ir.Module {
				m := ir.NewModule()
				for i, s := range ss {
					f := m.NewFunc(fmt.Sprintf("f%d", i), types.I32, ir.NewParam("verif.p", types.I32))
					b := f.NewBlock("verif.bb")
					a := b.NewAdd(f.Params[0], i32c(1))
					a.SetName(s)
					b.NewRet(a)
				}
				return m
			},
			read: func(m *ir.Module) []string {
				var out []string
				for _, f := range m.Funcs {
					a := f.Blocks[0].Insts[0].(*ir.InstAdd)
					out = append(out, identOrID(a.IsUnnamed(), a.LocalName, a.LocalID))
				}
				return out
			},
			llvmRe: func(out string) []string { return scanAfter(out, "  ret i32 %", "\n") }},
		{name: "block-name", isName: true,
			build: func(ss []string) *ir.Module {
				m := ir.NewModule()
				for i, s := range ss {
					f := m.NewFunc(fmt.Sprintf("f%d", i), types.Void)
					e := f.NewBlock("verif.first.block")
					b := f.NewBlock(s)
					e.NewBr(b)
					b.NewRet(nil)
				}
				return m
			},
			read: func(m *ir.Module) []string {
				var out []string
				for _, f := range m.Funcs {
					b := f.Blocks[1]
					out = append(out, identOrID(b.IsUnnamed(), b.LocalName, b.LocalID))
				}
				return out
			},
			llvmRe: func(out string) []string { return scanAfter(out, "  br label %", "\n") }},
		{name: "type-name", isName: true,
			build: func(ss []string) *ir.Module {
				m := ir.NewModule()
				for i, s := range ss {
					t := m.NewTypeDef(s, types.NewStruct(types.NewInt(uint64(8+i%50))))
					m.NewGlobal(fmt.Sprintf("g%d", i), types.NewPointer(t)).Linkage = enum.LinkageExternal
				}
				return m
			},
			read: func(m *ir.Module) []string {
				var out []string
				for _, g := range m.Globals {
					out = append(out, g.ContentType.(*types.PointerType).ElemType.Name())
				}
				return out
			},
			llvmRe: func(out string) []string { return scanAfter(out, " = external global %", "*\n") }},
		{name: "comdat-name", isName: true,
			build: func(ss []string) *ir.Module {
				m := ir.NewModule()
				for i, s := range ss {
					c := &ir.ComdatDef{Name: s, Kind: enum.SelectionKindAny}
					m.ComdatDefs = append(m.ComdatDefs, c)
					g := m.NewGlobalDef(fmt.Sprintf("g%d", i), i32c(0))
					g.Comdat = c
				}
				return m
			},
			read: func(m *ir.Module) []string {
				var out []string
				for _, g := range m.Globals {
					out = append(out, g.Comdat.Name)
				}
				return out
			},
			llvmRe: func(out string) []string { return scanAfter(out, " = global i32 0, comdat($", ")\n") }},
		{name: "comdat-name-on-unnamed-global", isName: true,
			// unnamed globals and functions @0, @1, ...: a comdat named like the number of
			// its global (a name made of digits) is still a name of its own, which the
			// short form `comdat` cannot stand for
			build: func(ss []string) *ir.Module {
				m := ir.NewModule()
				for i, s := range ss {
					c := &ir.ComdatDef{Name: s, Kind: enum.SelectionKindAny}
					m.ComdatDefs = append(m.ComdatDefs, c)
					if i%2 == 0 {
						g := m.NewGlobalDef("", i32c(0))
						g.Comdat = c
					} else {
						f := m.NewFunc("", types.Void)
						f.NewBlock("").NewRet(nil)
						f.Comdat = c
					}
				}
				return m
			},
			read: func(m *ir.Module) []string {
				// globals are printed before functions: even positions, then odd ones
				n := len(m.Globals) + len(m.Funcs)
				out := make([]string, n)
				for k, g := range m.Globals {
					out[2*k] = g.Comdat.Name
				}
				for k, f := range m.Funcs {
					out[2*k+1] = f.Comdat.Name
				}
				return out
			}},
		{name: "named-metadata-name", isName: true,
			build: func(ss []string) *ir.Module {
				m := ir.NewModule()
				for i, s := range ss {
					t := &metadata.Tuple{MetadataID: metadata.MetadataID(i), Fields: []metadata.Field{i32c(int64(i))}}
					m.MetadataDefs = append(m.MetadataDefs, t)
					m.NamedMetadataDefs[s] = &metadata.NamedDef{Name: s, Nodes: []metadata.Node{t}}
				}
				return m
			},
			read: func(m *ir.Module) []string {
				// order by the tuple's payload
				out := make([]string, len(m.NamedMetadataDefs))
				for name, nd := range m.NamedMetadataDefs {
					if len(nd.Nodes) == 1 {
						if t, ok := nd.Nodes[0].(*metadata.Tuple); ok && len(t.Fields) == 1 {
							if c, ok := t.Fields[0].(*constant.Int); ok && int(c.X.Int64()) < len(out) {
								out[c.X.Int64()] = name
							}
						}
					}
				}
				return out
			}},
		{name: "attachment-name", isName: true,
			build: func(ss []string) *ir.Module {
				m := ir.NewModule()
				t := &metadata.Tuple{MetadataID: 0}
				m.MetadataDefs = append(m.MetadataDefs, t)
				for i, s := range ss {
					g := m.NewGlobalDef(fmt.Sprintf("g%d", i), i32c(0))
					g.Metadata = append(g.Metadata, &metadata.Attachment{Name: s, Node: t})
				}
				return m
			},
			read: func(m *ir.Module) []string {
				var out []string
				for _, g := range m.Globals {
					out = append(out, g.Metadata[0].Name)
				}
				return out
			}},
		strSlot("attr-key", func(f *ir.Func, s string) { f.FuncAttrs = append(f.FuncAttrs, ir.AttrPair{Key: s, Value: "v"}) },
			func(f *ir.Func) string { return f.FuncAttrs[0].(ir.AttrPair).Key }, true),
		strSlot("attr-value", func(f *ir.Func, s string) { f.FuncAttrs = append(f.FuncAttrs, ir.AttrPair{Key: "k", Value: s}) },
			func(f *ir.Func) string { return f.FuncAttrs[0].(ir.AttrPair).Value }, false),
		strSlot("attr-string", func(f *ir.Func, s string) { f.FuncAttrs = append(f.FuncAttrs, ir.AttrString(s)) },
			func(f *ir.Func) string { return string(f.FuncAttrs[0].(ir.AttrString)) }, true),
		strSlot("section", func(f *ir.Func, s string) { f.Section = s }, func(f *ir.Func) string { return f.Section }, true),
		strSlot("partition", func(f *ir.Func, s string) { f.Partition = s }, func(f *ir.Func) string { return f.Partition }, true),
		strSlot("gc", func(f *ir.Func, s string) { f.GC = s }, func(f *ir.Func) string { return f.GC }, true),
		{name: "inline-asm-text",
			build: func(ss []string) *ir.Module {
				m := ir.NewModule()
				for i, s := range ss {
					f := m.NewFunc(fmt.Sprintf("f%d", i), types.Void)
					b := f.NewBlock("verif.bb")
					b.NewCall(ir.NewInlineAsm(types.NewPointer(types.NewFunc(types.Void)), s, ""))
					b.NewRet(nil)
				}
				return m
			},
			read: func(m *ir.Module) []string {
				var out []string
				for _, f := range m.Funcs {
					out = append(out, f.Blocks[0].Insts[0].(*ir.InstCall).Callee.(*ir.InlineAsm).Asm)
				}
				return out
			}},
		{name: "module-asm",
			build: func(ss []string) *ir.Module {
				m := ir.NewModule()
				m.ModuleAsms = append(m.ModuleAsms, ss...)
				return m
			},
			read: func(m *ir.Module) []string { return m.ModuleAsms }},
		{name: "metadata-string",
			build: func(ss []string) *ir.Module {
				m := ir.NewModule()
				for i, s := range ss {
					t := &metadata.Tuple{MetadataID: metadata.MetadataID(i), Fields: []metadata.Field{&metadata.String{Value: s}}}
					m.MetadataDefs = append(m.MetadataDefs, t)
				}
				nd := &metadata.NamedDef{Name: "all"}
				for _, d := range m.MetadataDefs {
					nd.Nodes = append(nd.Nodes, d.(metadata.Node))
				}
				m.NamedMetadataDefs["all"] = nd
				return m
			},
			read: func(m *ir.Module) []string {
				var out []string
				for _, d := range m.MetadataDefs {
					out = append(out, d.(*metadata.Tuple).Fields[0].(*metadata.String).Value)
				}
				return out
			}},
		{name: "source-filename",
			build: func(ss []string) *ir.Module {
				m := ir.NewModule()
				m.SourceFilename = ss[0]
				m.NewGlobalDef("g", i32c(0))
				return m
			},
			read: func(m *ir.Module) []string { return []string{m.SourceFilename} }},
		{name: "syncscope",
			build: func(ss []string) *ir.Module {
				m := ir.NewModule()
				for i, s := range ss {
					f := m.NewFunc(fmt.Sprintf("f%d", i), types.Void)
					b := f.NewBlock("verif.bb")
					fe := b.NewFence(enum.AtomicOrderingSequentiallyConsistent)
					fe.SyncScope = s
					b.NewRet(nil)
				}
				return m
			},
			read: func(m *ir.Module) []string {
				var out []string
				for _, f := range m.Funcs {
					out = append(out, f.Blocks[0].Insts[0].(*ir.InstFence).SyncScope)
				}
				return out
			}},
		{name: "bundle-tag",
			build: func(ss []string) *ir.Module {
				m := ir.NewModule()
				callee := m.NewFunc("callee", types.Void)
				for i, s := range ss {
					f := m.NewFunc(fmt.Sprintf("f%d", i), types.Void)
					b := f.NewBlock("verif.bb")
					c := b.NewCall(callee)
					c.OperandBundles = append(c.OperandBundles, ir.NewOperandBundle(s, i32c(1)))
					b.NewRet(nil)
				}
				return m
			},
			read: func(m *ir.Module) []string {
				var out []string
				for _, f := range m.Funcs {
					if len(f.Blocks) > 0 {
						out = append(out, f.Blocks[0].Insts[0].(*ir.InstCall).OperandBundles[0].Tag)
					}
				}
				return out
			}},
		{name: "difile-filename",
			build: func(ss []string) *ir.Module {
				m := ir.NewModule()
				nd := &metadata.NamedDef{Name: "all"}
				for i, s := range ss {
					d := &metadata.DIFile{MetadataID: metadata.MetadataID(i), Filename: s, Directory: "/d"}
					m.MetadataDefs = append(m.MetadataDefs, d)
					nd.Nodes = append(nd.Nodes, d)
				}
				ver := &metadata.Tuple{MetadataID: metadata.MetadataID(len(ss)), Fields: []metadata.Field{i32c(2), &metadata.String{Value: "Debug Info Version"}, i32c(3)}}
				m.MetadataDefs = append(m.MetadataDefs, ver)
				m.NamedMetadataDefs["all"] = nd
				m.NamedMetadataDefs["llvm.module.flags"] = &metadata.NamedDef{Name: "llvm.module.flags", Nodes: []metadata.Node{ver}}
				return m
			},
			read: func(m *ir.Module) []string {
				var out []string
				for _, d := range m.MetadataDefs {
					if f, ok := d.(*metadata.DIFile); ok {
						out = append(out, f.Filename)
					}
				}
				return out
			}},
		{name: "char-array",
			build: func(ss []string) *ir.Module {
				m := ir.NewModule()
				for i, s := range ss {
					m.NewGlobalDef(fmt.Sprintf("g%d", i), constant.NewCharArrayFromString(s))
				}
				return m
			},
			read: func(m *ir.Module) []string {
				var out []string
				for _, g := range m.Globals {
					switch c := g.Init.(type) {
					case *constant.CharArray:
						out = append(out, string(c.X))
					default:
						out = append(out, fmt.Sprintf("<%T>", g.Init))
					}
				}
				return out
			}},
	}
}

func identOrID(unnamed bool, name string, id int64) string {
	if unnamed {
		return fmt.Sprintf("<unnamed ID %d>", id)
	}
	return name
}

// strSlot builds a slot for a string attached to a function declaration.
func strSlot(name string, set func(*ir.Func, string), get func(*ir.Func) string, llvmOK bool) c11Slot {
	return c11Slot{name: name,
		build: func(ss []string) *ir.Module {
			m := ir.NewModule()
			for i, s := range ss {
				f := m.NewFunc(fmt.Sprintf("f%d", i), types.Void)
				if name == "partition" || name == "gc" {
					f.NewBlock("verif.bb").NewRet(nil)
				}
				set(f, s)
			}
			return m
		},
		read: func(m *ir.Module) []string {
			var out []string
			for _, f := range m.Funcs {
				out = append(out, get(f))
			}
			return out
		}}
}

// scanDefs returns the decoded names of top-level definitions "<sigil>name = ".
func scanDefs(out, sigil, sep string) []string {
	var r []string
	for _, line := range strings.Split(out, "\n") {
		if !strings.HasPrefix(line, sigil) {
			continue
		}
		name, rest, ok := scanName(line[len(sigil):])
		if ok && strings.HasPrefix(rest, sep) {
			r = append(r, name)
		}
	}
	return r
}

// scanAfter returns the decoded names that follow prefix and are followed by
// suffix, anywhere in out.
func scanAfter(out, prefix, suffix string) []string {
	var r []string
	for {
		i := strings.Index(out, prefix)
		if i < 0 {
			return r
		}
		out = out[i+len(prefix):]
		name, rest, ok := scanName(out)
		if ok && strings.HasPrefix(rest, suffix) {
			r = append(r, name)
		}
	}
}

// scanName decodes an LLVM identifier body (after the sigil): quoted with \xx
// escapes, or bare.
func scanName(s string) (name, rest string, ok bool) {
	if strings.HasPrefix(s, "\"") {
		var sb strings.Builder
		for i := 1; i < len(s); i++ {
			c := s[i]
			switch {
			case c == '"':
				return sb.String(), s[i+1:], true
			case c == '\\' && i+1 < len(s) && s[i+1] == '\\':
				sb.WriteByte('\\')
				i++
			case c == '\\' && i+2 < len(s) && ishex(s[i+1]) && ishex(s[i+2]):
				sb.WriteByte(unhexb(s[i+1])<<4 | unhexb(s[i+2]))
				i += 2
			default:
				sb.WriteByte(c)
			}
		}
		return "", "", false
	}
	i := 0
	for i < len(s) && (s[i] == '-' || s[i] == '$' || s[i] == '.' || s[i] == '_' || (s[i] >= '0' && s[i] <= '9') || (s[i] >= 'a' && s[i] <= 'z') || (s[i] >= 'A' && s[i] <= 'Z')) {
		i++
	}
	if i == 0 {
		return "", "", false
	}
	// all digits = an ID, not a name
	allDigits := true
	for j := 0; j < i; j++ {
		if s[j] < '0' || s[j] > '9' {
			allDigits = false
		}
	}
	if allDigits {
		return "<unnamed ID " + s[:i] + ">", s[i:], true
	}
	return s[:i], s[i:], true
}

func ishex(c byte) bool {
	return (c >= '0' && c <= '9') || (c >= 'a' && c <= 'f') || (c >= 'A' && c <= 'F')
}
func unhexb(c byte) byte {
	switch {
	case c >= '0' && c <= '9':
		return c - '0'
	case c >= 'a' && c <= 'f':
		return c - 'a' + 10
	}
	return c - 'A' + 10
}

// c11Strings returns the byte strings of the run.
func c11Strings(ctx *fw.Ctx, forName bool) []string {
	seen := map[string]bool{}
	var out []string
	add := func(s string) {
		if s == "" || seen[s] {
			return
		}
		if forName && strings.IndexByte(s, 0) >= 0 {
			return
		}
		seen[s] = true
		out = append(out, s)
	}
	for b := 0; b < 256; b++ {
		add(string([]byte{byte(b)}))
		add("a" + string([]byte{byte(b)}) + "z")
		add(string([]byte{byte(b)}) + "1")
	}
	alpha := []byte{'0', '9', 'a', '"', '\\', '5', 'C', ' ', 0x80}
	L := ctx.Pick(3, 4)
	cur := []string{""}
	for l := 1; l <= L; l++ {
		var next []string
		for _, p := range cur {
			for _, c := range alpha {
				next = append(next, p+string([]byte{c}))
			}
		}
		for _, s := range next {
			add(s)
		}
		cur = next
	}
	for i := 0; i < 12; i++ {
		add(strconv.Itoa(i))
	}
	for _, s := range []string{"+7", "-5", "+0", "-0", "+007", "0x7", "7e1", "42", "007", "0", "00", "9223372036854775807", "9223372036854775808", "18446744073709551615", "18446744073709551616", "99999999999999999999999999", "-1", "-0", "1e5", "0x10",
		"\\5C", "\\\\", "\\22", "a\\5Cb", "\\", "\"", "\"\"", "\\0", "\\0g", "\\G0", "%", "@", "!", "$", "#0", "a b", " a", "a ", "\t", "\n", "\r\n", "日本語", "\xff\xfe", "entry", "true", "null", "x86_fp80", "c\"x\"", ".", "-", "_", "$", "..", "a.b-c_d$e"} {
		add(s)
	}
	// names spelled like keywords of the grammar: a name token that starts with
	// the sigil of its slot must still be read as a name
	for _, s := range specializedNodeKeywords {
		add(s)
		add(s + "x")
	}
	for _, s := range []string{"distinct", "type", "global", "define", "declare", "label", "void", "i32", "ptr", "opaque", "zeroinitializer", "undef", "poison", "none", "blockaddress", "x", "c", "to", "any", "comdat", "dbg", "srcloc", "align", "section", "gc", "asm", "attributes", "datalayout", "triple"} {
		add(s)
	}
	rng := ctx.Rand("c11strings")
	n := ctx.Pick(300, 15000)
	for i := 0; i < n; i++ {
		l := 1 + rng.Intn(64)
		b := make([]byte, l)
		for j := range b {
			switch rng.Intn(4) {
			case 0:
				b[j] = byte(rng.Intn(256))
			case 1:
				b[j] = "\\\"0123456789ABCDEFabcdef"[rng.Intn(24)]
			default:
				b[j] = byte(0x20 + rng.Intn(0x5f))
			}
		}
		add(string(b))
	}
	return out
}

func genC11(ctx *fw.Ctx) []fw.Case {
	var cases []fw.Case
	for _, sl := range c11Slots() {
		sl := sl
		nblk := 4
		if sl.name == "source-filename" {
			nblk = 1
		}
		for b := 0; b < nblk; b++ {
			b := b
			cases = append(cases, fw.Case{ID: fmt.Sprintf("slot/%s/%d", sl.name, b), Run: func(r *fw.Rec) { c11Slot1(r, sl, b, nblk) }})
		}
	}
	for b := 0; b < 4; b++ {
		b := b
		cases = append(cases, fw.Case{ID: fmt.Sprintf("enc/%d", b), Run: func(r *fw.Rec) { c11Enc(r, b, 4) }})
	}
	cases = append(cases, fw.Case{ID: "comdat-named-like-the-number-of-its-global", Run: c11ComdatLikeID})
	return cases
}

func needsCare(s string) bool {
	allDigits := true
	for i := 0; i < len(s); i++ {
		c := s[i]
		if c < '0' || c > '9' {
			allDigits = false
		}
		if !(c == '.' || c == '_' || c == '$' || c == '-' || (c >= '0' && c <= '9') || (c >= 'a' && c <= 'z') || (c >= 'A' && c <= 'Z')) {
			return true
		}
	}
	return allDigits || (len(s) > 0 && s[0] >= '0' && s[0] <= '9')
}

func c11Slot1(r *fw.Rec, sl c11Slot, blk, nblk int) {
	all := c11Strings(r.Ctx(), sl.isName)
	var mine []string
	for i, s := range all {
		if sl.name == "type-name" && strings.Trim(s, "0123456789") == "" {
			// by the API's convention a TypeName of digits is the type *ID* (%42);
			// the name %"42" is stored with its quotes and is covered by the
			// type/numeric-names atom of C01
			continue
		}
		if i%nblk == blk {
			mine = append(mine, s)
		}
	}
	batch := 200
	if sl.name == "source-filename" {
		batch = 1
		if len(mine) > 400 {
			rng := rand.New(rand.NewSource(r.Ctx().Seed))
			rng.Shuffle(len(mine), func(i, j int) { mine[i], mine[j] = mine[j], mine[i] })
			mine = mine[:400]
		}
	}
	for i := 0; i < len(mine); i += batch {
		j := i + batch
		if j > len(mine) {
			j = len(mine)
		}
		c11Batch(r, sl, mine[i:j], true)
	}
}

// c11Batch checks a batch; on failure of the whole batch it bisects to single
// strings.
func c11Batch(r *fw.Rec, sl c11Slot, ss []string, withLLVM bool) {
	if len(ss) == 0 {
		return
	}
	fail := func(kind, s, what, text string) {
		r.Violate(fw.Violation{Key: fmt.Sprintf("%s/%s/%s", kind, sl.name, c11Class(s)), Input: fmt.Sprintf("position %s, string %q", sl.name, s), What: fmt.Sprintf("%s %q: %s", sl.name, s, what), Observed: fw.Trunc(text, 3000)})
	}
	var m *ir.Module
	if p, msg, _ := fw.Guard(func() { m = sl.build(ss) }); p {
		if len(ss) == 1 {
			r.Inconclusive("cannot build the host module: " + classify(firstLine(msg)))
			return
		}
		c11Batch(r, sl, ss[:len(ss)/2], withLLVM)
		c11Batch(r, sl, ss[len(ss)/2:], withLLVM)
		return
	}
	text, pp := printGuard(m)
	if pp != "" {
		if len(ss) == 1 {
			fail("print-panic", ss[0], "printing panics: "+firstLine(pp), "")
			return
		}
		c11Batch(r, sl, ss[:len(ss)/2], withLLVM)
		c11Batch(r, sl, ss[len(ss)/2:], withLLVM)
		return
	}
	m2, perr, pmsg := parseGuard("c11", text)
	if pmsg != "" || perr != nil {
		if len(ss) == 1 {
			what := pmsg
			if perr != nil {
				what = perr.Error()
			}
			fail("reparse-rejected", ss[0], "the printed token is not accepted by the library's parser: "+firstLine(what), text)
			return
		}
		c11Batch(r, sl, ss[:len(ss)/2], withLLVM)
		c11Batch(r, sl, ss[len(ss)/2:], withLLVM)
		return
	}
	var got []string
	if p, msg, _ := fw.Guard(func() { got = sl.read(m2) }); p || len(got) != len(ss) {
		if len(ss) == 1 {
			fail("readback-shape", ss[0], fmt.Sprintf("the re-parsed module does not have the expected shape (%d values, %s)", len(got), firstLine(msg)), text)
			return
		}
		c11Batch(r, sl, ss[:len(ss)/2], withLLVM)
		c11Batch(r, sl, ss[len(ss)/2:], withLLVM)
		return
	}
	for i, s := range ss {
		r.Eval(1)
		if got[i] != s {
			fail("bytes-changed", s, fmt.Sprintf("read back by the library's parser as %q", got[i]), "")
			continue
		}
		if needsCare(s) {
			r.Nontrivial(sl.name + "\x00" + s)
		}
		r.Tally("roundtrip_ok", sl.name)
	}
	if !withLLVM {
		return
	}
	// LLVM's view
	ok, msg, err := llvmref.Accepts(text)
	if err != nil {
		r.Inconclusive("llvm tool failure")
		return
	}
	if !ok {
		if len(ss) == 1 {
			// LLVM forbids this string in this position, or the printed token is wrong:
			// decide by asking LLVM about a hand-written reference spelling
			r.Tally("llvm_rejects_single(not judged)", sl.name+":"+classify(firstLine(lastDiag(msg))))
			return
		}
		c11LLVMBisect(r, sl, ss)
		return
	}
	out, _, ok2, err := llvmref.Reading(text)
	if err != nil || !ok2 {
		return
	}
	c11ReadLLVMSpelling(r, sl, ss, out, fail)
	if sl.llvmRe != nil {
		names := sl.llvmRe(out)
		if len(names) != len(ss) {
			r.Inconclusive("cannot locate the names in LLVM's output for " + sl.name)
			return
		}
		for i, s := range ss {
			if names[i] != s {
				fail("llvm-reads-other-bytes", s, fmt.Sprintf("LLVM reads the printed token as %q", names[i]), "")
			} else {
				r.Tally("llvm_agrees", sl.name)
			}
		}
	} else {
		r.TallyN("llvm_accepts", sl.name, len(ss))
	}
}

// c11ReadLLVMSpelling feeds LLVM's own printing of the module (its spelling
// of the same bytes: `\\\\` for a backslash, raw printable characters, its
// quoting rules) to the library's parser: the bytes read must be the same
// multiset of strings (LLVM may move definitions, e.g. attributes into groups;
// a different shape is not judged).
func c11ReadLLVMSpelling(r *fw.Rec, sl c11Slot, ss []string, llvmText string, fail func(kind, s, what, text string)) {
	if sl.name == "module-asm" {
		// LLVM splits module asm at newlines and re-joins it: its printing is not a respelling of the same bytes
		return
	}
	m3, perr, pmsg := parseGuard("c11-llvm", llvmText)
	if pmsg != "" || perr != nil {
		r.Tally("llvm_spelling(not judged)", sl.name+":not-accepted-by-the-parser(C01)")
		return
	}
	var got []string
	if p, _, _ := fw.Guard(func() { got = sl.read(m3) }); p || len(got) != len(ss) {
		r.Tally("llvm_spelling(not judged)", sl.name+":shape-differs")
		return
	}
	for _, g := range got {
		if strings.HasPrefix(g, "<*") {
			// LLVM replaced the constant by another form (an all-zero c"..." becomes zeroinitializer)
			r.Tally("llvm_spelling(not judged)", sl.name+":constant-normalised-by-llvm")
			return
		}
	}
	want := map[string]int{}
	for _, s := range ss {
		want[s]++
	}
	for _, g := range got {
		want[g]--
	}
	bad := 0
	for _, s := range ss {
		if want[s] > 0 {
			// this string was not read back from LLVM's spelling; name what was read instead
			other := ""
			for _, g := range got {
				if want[g] < 0 {
					other = g
					break
				}
			}
			fail("llvm-spelling-misread", s, fmt.Sprintf("LLVM's spelling of these bytes is read by the library's parser as other bytes (%q)", other), llvmText)
			want[s] = 0
			bad++
			if bad >= 3 {
				break
			}
		}
	}
	if bad == 0 {
		r.TallyN("llvm_spelling_read_back", sl.name, len(ss))
	}
}

func c11LLVMBisect(r *fw.Rec, sl c11Slot, ss []string) {
	if len(ss) == 1 {
		c11Batch(r, sl, ss, true)
		return
	}
	h := len(ss) / 2
	for _, part := range [][]string{ss[:h], ss[h:]} {
		m := sl.build(part)
		text, pp := printGuard(m)
		if pp != "" {
			continue
		}
		ok, _, err := llvmref.Accepts(text)
		if err != nil {
			continue
		}
		if ok {
			c11Batch(r, sl, part, true)
		} else {
			c11LLVMBisect(r, sl, part)
		}
	}
}

// specializedNodeKeywords are the names the grammar of llir/ll reserves after
// `!` for specialized metadata nodes; LLVM reads `!DIFile = !{}` and
// `, !DIFile !0` as a named metadata definition and an attachment.
var specializedNodeKeywords = []string{"DIArgList", "DIBasicType", "DICommonBlock", "DICompileUnit", "DICompositeType", "DIDerivedType", "DIEnumerator", "DIExpression", "DIFile", "DIGlobalVariable", "DIGlobalVariableExpression", "DIImportedEntity", "DILabel", "DILexicalBlock", "DILexicalBlockFile", "DILocalVariable", "DILocation", "DIMacro", "DIMacroFile", "DIModule", "DINamespace", "DIObjCProperty", "DIStringType", "DISubprogram", "DISubrange", "DISubroutineType", "DITemplateTypeParameter", "DITemplateValueParameter", "GenericDINode"}

// c11Class names the class of a string (for violation keys).
func c11Class(s string) string {
	for _, k := range specializedNodeKeywords {
		if s == k {
			return "specialized-node-keyword"
		}
	}
	allDigits := len(s) > 0
	hasQuote, hasBS, hasCtl, hasHigh, hasNul := false, false, false, false, false
	for i := 0; i < len(s); i++ {
		c := s[i]
		if c < '0' || c > '9' {
			allDigits = false
		}
		switch {
		case c == 0:
			hasNul = true
		case c == '"':
			hasQuote = true
		case c == '\\':
			hasBS = true
		case c < 0x20 || c == 0x7f:
			hasCtl = true
		case c >= 0x80:
			hasHigh = true
		}
	}
	var cls []string
	if len(s) > 2 && s[0] == '"' && s[len(s)-1] == '"' && strings.Trim(s[1:len(s)-1], "0123456789") == "" {
		return "quote-digits-quote"
	}
	if allDigits {
		cls = append(cls, "all-digits")
		if len(s) > 1 && s[0] == '0' {
			cls = append(cls, "leading-zero")
		}
		if len(s) >= 19 {
			cls = append(cls, "huge")
		}
	} else if s[0] >= '0' && s[0] <= '9' {
		cls = append(cls, "leading-digit")
	}
	if hasNul {
		cls = append(cls, "nul")
	}
	if hasQuote {
		cls = append(cls, "quote")
	}
	if hasBS {
		cls = append(cls, "backslash")
	}
	if hasCtl {
		cls = append(cls, "control")
	}
	if hasHigh {
		cls = append(cls, "high-bit")
	}
	if len(cls) == 0 {
		cls = append(cls, "plain")
	}
	return strings.Join(cls, "+")
}

func c11Enc(r *fw.Rec, blk, nblk int) {
	all := c11Strings(r.Ctx(), false)
	n := 0
	for i, s := range all {
		if i%nblk != blk {
			continue
		}
		n++
		r.Eval(1)
		b := []byte(s)
		var q string
		var back []byte
		if p, msg, _ := fw.Guard(func() { q = export.Quote(b); back = export.Unquote(q) }); p {
			r.Violate(fw.Violation{Key: "enc-panic/quote/" + c11Class(s), Input: fmt.Sprintf("%q", s), What: "Quote/Unquote panics: " + firstLine(msg)})
			continue
		}
		if string(back) != s {
			r.Violate(fw.Violation{Key: "enc-roundtrip/quote/" + c11Class(s), Input: fmt.Sprintf("%q", s), What: fmt.Sprintf("Unquote(Quote(%q)) = %q (quoted form %s)", s, back, q)})
		}
		e := export.EscapeString(b)
		if u := export.Unescape(e); string(u) != s {
			r.Violate(fw.Violation{Key: "enc-roundtrip/escape/" + c11Class(s), Input: fmt.Sprintf("%q", s), What: fmt.Sprintf("Unescape(EscapeString(%q)) = %q (escaped form %s)", s, u, e)})
		}
		id := export.EscapeIdent(s)
		dec := id
		if strings.HasPrefix(id, "\"") {
			dec = string(export.Unquote(id))
		}
		if dec != s {
			r.Violate(fw.Violation{Key: "enc-roundtrip/ident/" + c11Class(s), Input: fmt.Sprintf("%q", s), What: fmt.Sprintf("EscapeIdent(%q) = %s decodes to %q", s, id, dec)})
		}
		// the identifier API: a name given to NewLocalIdent / SetName is a name unless
		// it is a number written in digits only; Ident() never panics; Name() tells
		// distinct names apart (all-digit names in quotes, to keep them from IDs)
		if strings.IndexByte(s, 0) < 0 {
			allDigits := strings.Trim(s, "0123456789") == ""
			var li ir.LocalIdent
			var identText, nameText string
			if p, msg, _ := fw.Guard(func() { li = ir.NewLocalIdent(s); identText = li.Ident() }); p {
				r.Violate(fw.Violation{Key: "ident-api/new-local-ident-panics/" + c11Class(s), Input: fmt.Sprintf("%q", s), What: fmt.Sprintf("ir.NewLocalIdent(%q).Ident() panics: %s", s, firstLine(msg))})
			} else if !allDigits && (li.IsUnnamed() || li.LocalName != s) {
				r.Violate(fw.Violation{Key: "ident-api/name-taken-for-id/" + c11Class(s), Input: fmt.Sprintf("%q", s), What: fmt.Sprintf("ir.NewLocalIdent(%q) is %s (ID %d): a name that is not a plain number was taken for an ID", s, identText, li.LocalID)})
			}
			var l2 ir.LocalIdent
			var g2 ir.GlobalIdent
			l2.SetName(s)
			g2.SetName(s)
			for _, nm := range []struct {
				what string
				fn   func() string
			}{{"LocalIdent.Name", l2.Name}, {"GlobalIdent.Name", g2.Name}} {
				if p, msg, _ := fw.Guard(func() { nameText = nm.fn() }); p {
					r.Violate(fw.Violation{Key: "ident-api/name-panics/" + c11Class(s), Input: fmt.Sprintf("%q", s), What: nm.what + " panics: " + firstLine(msg)})
					continue
				}
				want := s
				if allDigits {
					want = `"` + s + `"`
				}
				if _, err := strconv.ParseInt(s, 10, 64); allDigits && err != nil && nameText == s {
					// beyond int64 no ID looks like it: verbatim is unambiguous too
					continue
				}
				if nameText != want {
					r.Violate(fw.Violation{Key: "ident-api/name-changed/" + c11Class(s), Input: fmt.Sprintf("%q", s), What: fmt.Sprintf("%s of the name %q is %q (want %q: all-digit names quoted, everything else verbatim)", nm.what, s, nameText, want)})
				}
			}
		}
		if needsCare(s) {
			r.Nontrivial("enc\x00" + s)
		}
	}
	r.TallyN("enc", "strings", n)
	if blk == 0 {
		r.Sample(map[string]interface{}{"direct_enc_roundtrips": n, "example": fmt.Sprintf("%q -> %s", all[40], export.Quote([]byte(all[40])))})
	}
}

// c11ComdatLikeID: unnamed globals and functions @0 ... @7, each in a comdat
// whose name is the decimal number of that very global (and one whose name is the
// number of another): the name of a comdat is a name even when it looks like the
// ID of its user; the printed module must be read back with the same comdat
// names by the library and by LLVM.
func c11ComdatLikeID(r *fw.Rec) {
	m := ir.NewModule()
	var want []string
	for i := 0; i < 8; i++ {
		name := strconv.Itoa(i)
		if i == 5 {
			name = "3x"
		}
		c := &ir.ComdatDef{Name: name, Kind: enum.SelectionKindAny}
		m.ComdatDefs = append(m.ComdatDefs, c)
		if i < 4 {
			g := m.NewGlobalDef("", i32c(int64(i)))
			g.Comdat = c
		} else {
			f := m.NewFunc("", types.Void)
			f.NewBlock("").NewRet(nil)
			f.Comdat = c
		}
		want = append(want, name)
	}
	r.Eval(1)
	text, pp := printGuard(m)
	if pp != "" {
		r.Violate(fw.Violation{Key: "comdat-like-id/print-panic", What: firstLine(pp)})
		return
	}
	m2, perr, pmsg := parseGuard("c11-comdat-like-id", text)
	if pmsg != "" || perr != nil {
		what := pmsg
		if perr != nil {
			what = perr.Error()
		}
		r.Violate(fw.Violation{Key: "comdat-like-id/reparse-rejected", Input: text, What: "a module whose comdats are named like the numbers of their unnamed globals is printed as text the library's parser rejects: " + firstLine(what)})
		return
	}
	var got []string
	for _, g := range m2.Globals {
		if g.Comdat != nil {
			got = append(got, g.Comdat.Name)
		}
	}
	for _, f := range m2.Funcs {
		if f.Comdat != nil {
			got = append(got, f.Comdat.Name)
		}
	}
	if strings.Join(got, ",") != strings.Join(want, ",") {
		r.Violate(fw.Violation{Key: "comdat-like-id/names-changed", Input: text, What: fmt.Sprintf("comdat names read back as %q, want %q", got, want)})
		return
	}
	if ok, msg, err := llvmref.Accepts(text); err == nil && !ok {
		r.Violate(fw.Violation{Key: "comdat-like-id/llvm-rejects", Input: text, What: "LLVM rejects the printed module: " + firstLine(lastDiag(msg))})
		return
	}
	r.Nontrivial(text)
	r.Tally("roundtrip_ok", "comdat-named-like-the-number-of-its-global")
}
