package props

import (
	"bytes"
	"crypto/sha256"
	"encoding/hex"
	"fmt"
	"io"
	"math/rand"
	"os"
	"path/filepath"
	"reflect"
	"sort"
	"strings"
	"runtime"
	"sync"
	"sync/atomic"
	"syscall"
	"time"

	"github.com/llir/llvm/asm"
	"github.com/llir/llvm/ir"
	"github.com/llir/llvm/ir/constant"
	"github.com/llir/llvm/ir/metadata"
	"github.com/llir/llvm/ir/types"
	"github.com/llir/llvm/verifhook"

	"verif/internal/corpus"
	"verif/internal/fw"
	"verif/internal/graph"
)

func init() {
	fw.Register(&fw.Check{
		ID:           "C12",
		Level:        "exploration",
		Race:         true,
		FreshProcess: true,
		Rule: "built with -race; every case runs in a fresh process (new map hash seeds). Inputs: synthetic modules with 20-200 entries in every translator index (types, comdats, globals, attribute groups, named and numbered metadata), the atom catalogue, llvm-stress programs and rejected inputs (undefined / duplicate names). Per (input, process): R sequential parses, each entry point (ParseFile, Parse through 1-byte and PRNG-chunk readers, through readers that deliver their last bytes together with io.EOF, ParseBytes, ParseString), parses after unrelated parse/print activity, and G goroutines parsing different inputs at once must all give the same accept/reject outcome, the same String() and the same structural digest; the digest is also compared across processes; exported singletons (types.*, constant.True/False/None, metadata.Null) are snapshotted before and after; The first parses of a process are concurrent ones in the cold-start cases (16 goroutines, outcomes compared with sequential parses made afterwards), and every concurrent phase is repeated crowded: 16 goroutines on GOMAXPROCS 2, three parses each, the translator yielding the processor inside its loops through the order hook. any race report is a violation. The Visit hooks record the key order of each translator map loop. Every accepted input is also printed three times (same text each time, and a module that is structurally what a parse printed once is), and two parses of it are compared as object graphs: apart from types and the exported constants they share no instruction, constant, metadata node, big number or slice storage. " +
			"non-trivial = an (input, process) pair whose map loops were observed in at least two different orders within the process (order diversity witnessed), or a rejected input; distinct by (input, process)",
		Gen:           genC12,
		Post:          postC12,
		MinNontrivial: 20,
		Workers:       8,
		Assumptions:   []string{"which error message a rejected input yields is not compared (it may legitimately depend on iteration order); only accept/reject is", "Go randomises map iteration per loop; the Visit hook proves which orders occurred but cannot force one"},
		Exhaustive:    func(string) bool { return false },
	})
}

// bigIndexModule generates a valid module with n entries in every translator
// index.
func bigIndexModule(rng *rand.Rand, n int) string {
	var sb strings.Builder
	names := make([]string, n)
	for i := range names {
		names[i] = []string{"t", "struct.S", "node", "T", "u"}[rng.Intn(5)] + fmt.Sprint(rng.Intn(3*n))
		if i%7 == 3 {
			// numbers beyond 64 bits, differing in their last digits only
			names[i] = fmt.Sprintf("struct.anon.1844674407370955161%d%d", 6+rng.Intn(4), rng.Intn(10))
		}
	}
	// unique
	seen := map[string]bool{}
	var tn []string
	for _, x := range names {
		if !seen[x] {
			seen[x] = true
			tn = append(tn, x)
		}
	}
	for i, t := range tn {
		other := tn[rng.Intn(len(tn))]
		switch rng.Intn(4) {
		case 0:
			fmt.Fprintf(&sb, "%%%s = type { i32, %%%s* }\n", t, other)
		case 1:
			fmt.Fprintf(&sb, "%%%s = type opaque\n", t)
		case 2:
			fmt.Fprintf(&sb, "%%%s = type <{ i8, [2 x %%%s*], %%%s* }>\n", t, other, t)
		default:
			fmt.Fprintf(&sb, "%%%s = type { %%%s* (%%%s*)*, i%d }\n", t, other, t, 1+i%64)
		}
	}
	for i := 0; i < n; i++ {
		fmt.Fprintf(&sb, "$c%d = comdat %s\n", i, []string{"any", "largest", "nodeduplicate", "samesize", "exactmatch"}[rng.Intn(5)])
	}
	for i := 0; i < 4; i++ {
		fmt.Fprintf(&sb, "$big.3402823669209384634633746074317682114%d = comdat any\n!named.9999999999999999999999%d = !{}\n", 50+i, i)
	}
	for i := 0; i < n; i++ {
		t := tn[rng.Intn(len(tn))]
		switch rng.Intn(3) {
		case 0:
			fmt.Fprintf(&sb, "@g%d = global %%%s* null, comdat($c%d), !m !%d\n", i, t, rng.Intn(n), rng.Intn(n))
		case 1:
			fmt.Fprintf(&sb, "@g%d = global i8* bitcast (i32* @g%d to i8*), align 8\n", i, n+rng.Intn(n))
		default:
			fmt.Fprintf(&sb, "@g%d = external global %%%s*\n", i, t)
		}
	}
	for i := n; i < 2*n; i++ {
		fmt.Fprintf(&sb, "@g%d = global i32 %d\n", i, i)
	}
	for i := 0; i < n; i++ {
		fmt.Fprintf(&sb, "define void @f%d() #%d comdat($c%d) {\n  %%v = load i32, i32* @g%d, !m !%d\n  call void @f%d() #%d\n  ret void\n}\n", i, rng.Intn(n), rng.Intn(n), n+rng.Intn(n), rng.Intn(n), rng.Intn(n), rng.Intn(n))
	}
	for i := 0; i < n; i++ {
		fmt.Fprintf(&sb, "attributes #%d = { %s \"k%d\"=\"v\" }\n", i, []string{"nounwind", "readnone", "noinline", "cold"}[rng.Intn(4)], i)
	}
	for i := 0; i < n; i++ {
		fmt.Fprintf(&sb, "!nm%d = !{!%d, !%d}\n", i, rng.Intn(n), rng.Intn(n))
	}
	for i := 0; i < n; i++ {
		switch rng.Intn(3) {
		case 0:
			fmt.Fprintf(&sb, "!%d = !{!%d, !\"s%d\", i32 %d}\n", i, rng.Intn(n), i, i)
		case 1:
			fmt.Fprintf(&sb, "!%d = distinct !{!%d, !%d}\n", i, i, rng.Intn(n))
		default:
			fmt.Fprintf(&sb, "!%d = !{}\n", i)
		}
	}
	return sb.String()
}

// rejectedInputs are inputs that must be rejected, deterministically.
func rejectedInputs() []corpus.Source {
	mk := func(id, text string) corpus.Source {
		return corpus.Source{ID: "reject/" + id, Text: func() (string, error) { return text, nil }}
	}
	return []corpus.Source{
		mk("undef-global", "@a = global i32* @missing\n@b = global i32 0\n"),
		mk("undef-local", "define i32 @f() {\n  ret i32 %x\n}\n"),
		mk("undef-type", "@a = global %T* null\n%U = type { i32 }\n"),
		mk("dup-global", "@a = global i32 0\n@b = global i32 1\n@a = global i32 2\n"),
		mk("dup-type", "%T = type { i32 }\n%U = type { i8 }\n%T = type { i64 }\n@g = global %T zeroinitializer\n"),
		mk("two-faults", "%T = type { %Missing* }\n@a = global i32* @missing\n!0 = !{!9}\n"),
		mk("undef-md", "!nm = !{!0}\n!0 = !{!7}\n"),
		mk("undef-comdat", "@a = global i32 0, comdat($nope)\n$c = comdat any\n"),
		mk("self-type", "%a = type %b\n%b = type %a\n%c = type { i32 }\n"),
		mk("syntax", "@a = global i32\n@b = = 3\n"),
	}
}

func genC12(ctx *fw.Ctx) []fw.Case {
	type in struct {
		id  string
		src corpus.Source
	}
	var inputs []corpus.Source
	rng := ctx.Rand("big")
	nbig := ctx.Pick(10, 80)
	for i := 0; i < nbig; i++ {
		n := 20 + rng.Intn(ctx.Pick(60, 180))
		seed := rng.Int63()
		id := fmt.Sprintf("big/%d", i)
		inputs = append(inputs, corpus.Source{ID: id, Text: func() (string, error) {
			return bigIndexModule(rand.New(rand.NewSource(seed)), n), nil
		}})
	}
	base := baseSources()
	rng.Shuffle(len(base), func(i, j int) { base[i], base[j] = base[j], base[i] })
	// the module-level atoms (use-list orders, comdats, aliases, ifuncs, attribute
	// groups, unnamed globals: every kind of top-level entity the translator keeps
	// an index or a work list for) and the atoms about named types (they are the
	// inputs that may touch shared type and constant objects) are always in; the
	// rest is a PRNG sample
	var always, rest []corpus.Source
	for _, b := range base {
		if strings.HasPrefix(b.ID, "atom/module/") || strings.HasPrefix(b.ID, "atom/global/") || strings.HasPrefix(b.ID, "atom/md/tuples") || strings.HasPrefix(b.ID, "atom/types/") || strings.HasPrefix(b.ID, "atom/md/di-compileunit") || strings.HasPrefix(b.ID, "atom/md/named-") || strings.HasPrefix(b.ID, "atom/func/attrgroup") ||
			strings.HasPrefix(b.ID, "atom/inst/gep") || strings.HasPrefix(b.ID, "atom/const/blockaddress") || strings.HasPrefix(b.ID, "atom/const/int-") {
			always = append(always, b)
		} else {
			rest = append(rest, b)
		}
	}
	sort.Slice(always, func(i, j int) bool { return always[i].ID < always[j].ID })
	if k := ctx.Pick(24, 120); len(rest) > k {
		rest = rest[:k]
	}
	inputs = append(inputs, always...)
	inputs = append(inputs, rest...)
	inputs = append(inputs, corpus.StressSources(ctx.Rand("stress"), ctx.Pick(6, 60), 20, 200)...)
	inputs = append(inputs, rejectedInputs()...)
	procs := ctx.Pick(3, 5)
	var cases []fw.Case
	for p := 0; p < procs; p++ {
		for i, s := range inputs {
			p, i, s := p, i, s
			// companions for the concurrent phase: the next inputs in the list
			var comp []corpus.Source
			for k := 1; k <= 3; k++ {
				comp = append(comp, inputs[(i+k*7)%len(inputs)])
			}
			cases = append(cases, fw.Case{ID: fmt.Sprintf("proc%d/%s", p, s.ID), Run: func(r *fw.Rec) { c12Case(r, p, s, comp) }})
		}
	}
	// the first parses of a process are concurrent ones
	for k := 0; k < ctx.Pick(8, 60); k++ {
		var srcs []corpus.Source
		for q := 0; q < 6; q++ {
			srcs = append(srcs, inputs[(k*6+q*11)%len(inputs)])
		}
		cases = append(cases, fw.Case{ID: fmt.Sprintf("cold-start/%d", k), Run: func(r *fw.Rec) { c12ColdStart(r, srcs) }})
	}
	// once per process number: a long run of rejected and panicking inputs between two
	// parses of the same probes (state that leaks on the error paths accumulates)
	for p := 0; p < procs; p++ {
		p := p
		cases = append(cases, fw.Case{ID: fmt.Sprintf("proc%d/after-many-rejections", p), Run: func(r *fw.Rec) { c12AfterRejections(r, p, always) }})
	}
	return cases
}

// hostileInputs are inputs the parser rejects at every stage and depth: syntax
// errors, naming faults, and constructs whose translation fails or panics deep
// inside nested constants, types, instructions and metadata.
func hostileInputs() []string {
	nest := func(inner string, depth int) string {
		typ, val := "i8*", inner
		for i := 0; i < depth; i++ {
			val = fmt.Sprintf("{ %s %s }", typ, val)
			typ = fmt.Sprintf("{ %s }", typ)
		}
		return fmt.Sprintf("@g = global %s %s\n", typ, val)
	}
	out := []string{
		nest("bitcast (bfloat* null to i8*)", 1),
		nest("bitcast (bfloat* null to i8*)", 7),
		nest("bitcast (i32* @missing to i8*)", 5),
		nest("getelementptr ({ i32 }, { i32 }* null, i32 0, i32 9)", 3),
		"@g = global [2 x <2 x bfloat>] zeroinitializer\n",
		"@g = global i32 udiv (i32 1, i32 2)\n",
		"define void @f() {\n  %a = alloca bfloat\n  ret void\n}\n",
		"define void @f() {\n  %a = add i32 %missing, 1\n  ret void\n}\n",
		"define void @f(ptr %p) {\n  ret void\n}\n",
		"define void @f() {\n  call void @f() [ \"b\"(bfloat 0.0) ]\n  ret void\n}\n",
		"!0 = !{!{!{!{!9}}}}\n",
		"!0 = !DIFile(filename: \"a\", directory: \"b\", checksumkind: CSK_SHA256, checksum: \"00\")\n",
		"!0 = !DIBasicType(name: \"x\", encoding: DW_ATE_nonesuch)\n",
		"%T = type { %T, bfloat }\n@g = global %T* null\n",
		"@g = global i32 0, comdat($nope)\n",
		"@a = alias i32, i32* getelementptr (i32, i32* @missing, i32 1)\n",
		"define void @f() {\n  br label %nowhere\n}\n",
		"@g = global { i32, [2 x i8*] } { i32 1, [2 x i8*] [i8* null, i8* blockaddress(@f, %b)] }\n",
		"@g = = 1\n",
		"define void @f() { ret void }}\n",
	}
	for _, s := range rejectedInputs() {
		t, _ := s.Text()
		out = append(out, t)
	}
	return out
}

// c12AfterRejections parses the probes, then thousands of hostile inputs, then
// the probes again: every probe must be accepted or rejected as before and
// translate into the same module. Nothing is compared across the hostile inputs
// themselves except that each gives the same accept/reject outcome every time.
func c12AfterRejections(r *fw.Rec, proc int, probes []corpus.Source) {
	type probe struct {
		id, text string
		ref      c12Outcome
	}
	var ps []probe
	for _, s := range probes {
		t, err := s.Text()
		if err != nil {
			continue
		}
		ps = append(ps, probe{id: s.ID, text: t})
	}
	hostile := hostileInputs()
	for _, h := range hostile {
		ps = append(ps, probe{id: "hostile/" + fw.ShortHash(h), text: h})
	}
	canaryBefore := c12Canary()
	for i := range ps {
		ps[i].ref = c12Parse(func() (*ir.Module, error) { return asm.ParseString(ps[i].id, ps[i].text) })
		r.Eval(1)
	}
	reps := r.Ctx().Pick(150, 1500)
	rejected, accepted, panicked := 0, 0, 0
	for rep := 0; rep < reps; rep++ {
		for _, h := range hostile {
			pan, _, _ := fw.Guard(func() {
				m, err := asm.ParseString("hostile", h)
				if err == nil && m != nil {
					accepted++
				} else {
					rejected++
				}
			})
			if pan {
				panicked++
			}
		}
	}
	r.Eval(reps * len(hostile))
	r.TallyN("after-many-rejections", "hostile-parses-rejected", rejected)
	r.TallyN("after-many-rejections", "hostile-parses-accepted", accepted)
	r.TallyN("after-many-rejections", "hostile-parses-panicked", panicked)
	for i := range ps {
		o := c12Parse(func() (*ir.Module, error) { return asm.ParseString(ps[i].id, ps[i].text) })
		r.Eval(1)
		if o.summary() != ps[i].ref.summary() {
			r.Violate(fw.Violation{Key: "after-many-rejections/" + ps[i].id, Input: ps[i].text,
				What: fmt.Sprintf("%s gives %s at the start of the process and %s after %d parses of rejected inputs in between", ps[i].id, ps[i].ref.summary(), o.summary(), reps*len(hostile)), Expected: ps[i].ref.text, Observed: o.text})
		} else {
			r.Tally("after-many-rejections", "probe-unchanged")
		}
		r.Fact("outcome/"+ps[i].id, o.summary())
	}
	if c := c12Canary(); c != canaryBefore {
		r.Violate(fw.Violation{Key: "after-many-rejections/canary", What: "an exported package-level singleton changed during the run of rejected inputs", Expected: canaryBefore, Observed: c})
	}
	r.NontrivialN(fmt.Sprintf("after-many-rejections/proc%d", proc), len(ps))
}

type c12Outcome struct {
	accepted bool
	text     string
	digest   string
	panicked string
}

func c12Digest(m *ir.Module) (string, string) {
	text := m.String()
	h := sha256.Sum256([]byte(graph.Serialize(m, graph.Options{})))
	return text, hex.EncodeToString(h[:8])
}

func c12Parse(parse func() (*ir.Module, error)) c12Outcome {
	var o c12Outcome
	p, msg, _ := fw.Guard(func() {
		m, err := parse()
		if err != nil || m == nil {
			return
		}
		o.accepted = true
		o.text, o.digest = c12Digest(m)
	})
	if p {
		o.panicked = firstLine(msg)
		o.accepted = false
	}
	return o
}

func (o c12Outcome) summary() string {
	if o.panicked != "" {
		return "panic"
	}
	if !o.accepted {
		return "reject"
	}
	h := sha256.Sum256([]byte(o.text))
	return "accept:" + hex.EncodeToString(h[:8]) + ":" + o.digest
}

type chunkReader struct {
	data []byte
	rng  *rand.Rand
	one  bool
	// eofWithData makes the last Read return its bytes together with io.EOF, as
	// the io.Reader contract allows (gzip readers, HTTP bodies, iotest.DataErrReader)
	eofWithData bool
	// whole delivers everything in one Read (with eofWithData: data and EOF at once)
	whole bool
}

func (c *chunkReader) Read(p []byte) (int, error) {
	if len(c.data) == 0 {
		return 0, io.EOF
	}
	n := 1
	if c.whole {
		n = len(c.data)
	} else if !c.one {
		n = 1 + c.rng.Intn(97)
	}
	if n > len(c.data) {
		n = len(c.data)
	}
	if n > len(p) {
		n = len(p)
	}
	copy(p, c.data[:n])
	c.data = c.data[n:]
	if c.eofWithData && len(c.data) == 0 {
		return n, io.EOF
	}
	return n, nil
}

// canary snapshots the exported package-level singletons.
func c12Canary() string {
	vals := []interface{}{types.Void, types.MMX, types.Label, types.Token, types.Metadata, types.I1, types.I2, types.I3, types.I4, types.I5, types.I6, types.I7, types.I8, types.I16, types.I32, types.I64, types.I128, types.I256, types.I512, types.I1024,
		types.Half, types.Float, types.Double, types.X86_FP80, types.FP128, types.PPC_FP128, types.I1Ptr, types.I8Ptr, types.I16Ptr, types.I32Ptr, types.I64Ptr, types.I128Ptr,
		constant.True, constant.False, constant.None, metadata.Null}
	var sb strings.Builder
	for _, v := range vals {
		rv := reflect.ValueOf(v)
		if rv.Kind() == reflect.Ptr {
			fmt.Fprintf(&sb, "%T=%+v|", v, rv.Elem().Interface())
			if ci, ok := v.(*constant.Int); ok {
				fmt.Fprintf(&sb, "X=%s,T=%+v|", ci.X, *ci.Typ)
			}
			if pt, ok := v.(*types.PointerType); ok {
				fmt.Fprintf(&sb, "elem=%s|", pt.ElemType)
			}
		} else {
			fmt.Fprintf(&sb, "%T=%+v|", v, v)
		}
	}
	return sb.String()
}

func c12Case(r *fw.Rec, proc int, s corpus.Source, companions []corpus.Source) {
	text, err := s.Text()
	if err != nil {
		r.Inconclusive("source unavailable")
		return
	}
	canaryBefore := c12Canary()
	// --- phase 1: sequential repetitions with the order-recording hook
	orders := map[string]map[string]bool{} // site -> set of key sequences
	entries := map[string]int{}
	var cur map[string][]string
	var hookMu sync.Mutex
	verifhook.SetVisit(func(site string, key interface{}) {
		hookMu.Lock()
		if cur != nil {
			cur[site] = append(cur[site], fmt.Sprint(key))
		}
		hookMu.Unlock()
	})
	R := r.Ctx().Pick(12, 40)
	var ref c12Outcome
	for i := 0; i < R; i++ {
		cur = map[string][]string{}
		o := c12Parse(func() (*ir.Module, error) { return asm.ParseString(s.ID, text) })
		hookMu.Lock()
		for site, ks := range cur {
			if orders[site] == nil {
				orders[site] = map[string]bool{}
			}
			orders[site][strings.Join(ks, ",")] = true
			if len(ks) > entries[site] {
				entries[site] = len(ks)
			}
		}
		cur = nil
		hookMu.Unlock()
		r.Eval(1)
		if i == 0 {
			ref = o
			continue
		}
		if o.summary() != ref.summary() {
			c12Report(r, s.ID, text, "repetition", ref, o)
			verifhook.SetVisit(nil)
			return
		}
	}
	verifhook.SetVisit(nil)
	// the module a parse returned is the same module after it was printed: a
	// second print gives the same text, and the module is still structurally
	// what a fresh parse (printed once) is
	if ref.accepted {
		var t1, t2, t3, d3 string
		if p, _, _ := fw.Guard(func() {
			m, err := asm.ParseString(s.ID, text)
			if err != nil || m == nil {
				return
			}
			t1 = m.String()
			t2 = m.String()
			t3, d3 = c12Digest(m)
		}); !p && t1 != "" {
			r.Eval(1)
			if t2 != t1 || t3 != t1 {
				r.Violate(fw.Violation{Key: "reprint-differs/" + s.ID, Input: text, What: "printing the module a parse returned a second or third time gives another text: " + firstDiffLines(t1, t2+t3[:0]) + firstDiffLines(t1, t3), Expected: t1, Observed: t2})
				return
			}
			if d3 != ref.digest {
				r.Violate(fw.Violation{Key: "module-changed-by-printing/" + s.ID, Input: text, What: "after three prints the module is structurally not what a parse of the same text printed once is (printing changed the module)"})
				return
			}
		}
		// two parses of the same text are two object graphs: apart from types
		// (shared by design) and the exported constants, no instruction, constant,
		// metadata node, big number or slice storage belongs to both (whatever one
		// module does to its own objects must not reach a module parsed earlier or later)
		var shared []string
		if p, _, _ := fw.Guard(func() {
			ma, ea := asm.ParseString(s.ID, text)
			mb, eb := asm.ParseString(s.ID, text)
			if ea != nil || eb != nil || ma == nil || mb == nil {
				return
			}
			skip := c12Singletons()
			oa, ob := graph.HeapObjects(ma, skip), graph.HeapObjects(mb, skip)
			for ptr, typ := range oa {
				if tb, ok := ob[ptr]; ok && tb == typ {
					shared = append(shared, typ)
				}
			}
			r.TallyN("isolation", "objects-compared", len(oa))
		}); !p && len(shared) > 0 {
			sort.Strings(shared)
			r.Violate(fw.Violation{Key: "objects-shared-between-parses/" + s.ID, Input: text, What: fmt.Sprintf("two parses of the same text share %d objects that are neither types nor exported constants (e.g. %s): an edit of one module reaches the other", len(shared), shared[0])})
			return
		}
	}
	diverse := 0
	for site, set := range orders {
		if entries[site] >= 2 {
			if len(set) >= 2 {
				diverse++
				r.Tally("order_diversity", site+":inputs-seen-in>=2-orders")
			} else {
				r.Tally("order_diversity", site+":inputs-seen-in-1-order-only")
			}
			r.TallyN("distinct_orders", site, len(set))
		}
	}
	r.Fact("outcome/"+s.ID, ref.summary())
	r.Tally("outcomes", strings.SplitN(ref.summary(), ":", 2)[0])
	if diverse > 0 || !ref.accepted {
		r.Nontrivial(fmt.Sprintf("%s/proc%d", s.ID, proc))
	}
	// --- phase 2: entry points
	rng := r.Ctx().Rand(fmt.Sprintf("c12/%s/%d", s.ID, proc))
	path := filepath.Join(r.Ctx().Scratch, fmt.Sprintf("c12-%d-%d.ll", os.Getpid(), rng.Int63()))
	if err := os.WriteFile(path, []byte(text), 0o644); err == nil {
		o := c12Parse(func() (*ir.Module, error) { return asm.ParseFile(path) })
		os.Remove(path)
		r.Eval(1)
		if o.summary() != ref.summary() {
			c12Report(r, s.ID, text, "ParseFile", ref, o)
			return
		}
		r.Tally("entry_points", "ParseFile")
	}
	// ParseFile on a path whose size is not known up front (a named pipe fed by a
	// writer): the file is whatever can be read from it
	fifo := filepath.Join(r.Ctx().Scratch, fmt.Sprintf("c12-%d-%d.fifo", os.Getpid(), rng.Int63()))
	if err := syscall.Mkfifo(fifo, 0o600); err == nil {
		done := make(chan struct{})
		go func() {
			defer close(done)
			w, err := os.OpenFile(fifo, os.O_WRONLY, 0)
			if err != nil {
				return
			}
			data := []byte(text)
			for len(data) > 0 {
				n := 1 + rng.Intn(4096)
				if n > len(data) {
					n = len(data)
				}
				if _, err := w.Write(data[:n]); err != nil {
					break
				}
				data = data[n:]
			}
			w.Close()
		}()
		o := c12Parse(func() (*ir.Module, error) { return asm.ParseFile(fifo) })
		// (a reader that never opened the pipe would leave the writer blocked: open and drain it)
		select {
		case <-done:
		case <-time.After(2 * time.Second):
			if rd, err := os.OpenFile(fifo, os.O_RDONLY|syscall.O_NONBLOCK, 0); err == nil {
				io.Copy(io.Discard, rd)
				rd.Close()
			}
			<-done
		}
		os.Remove(fifo)
		r.Eval(1)
		if o.summary() != ref.summary() {
			c12Report(r, s.ID, text, "ParseFile(named pipe)", ref, o)
			return
		}
		r.Tally("entry_points", "ParseFile(named pipe)")
	}
	for _, ep := range []string{"Parse/1-byte-reader", "Parse/chunk-reader", "Parse/bytes.Reader", "ParseBytes", "Parse/chunk-reader-eof-with-last-data", "Parse/one-read-data-and-eof"} {
		var o c12Outcome
		switch ep {
		case "Parse/1-byte-reader":
			o = c12Parse(func() (*ir.Module, error) { return asm.Parse(s.ID, &chunkReader{data: []byte(text), one: true}) })
		case "Parse/chunk-reader":
			o = c12Parse(func() (*ir.Module, error) { return asm.Parse(s.ID, &chunkReader{data: []byte(text), rng: rng}) })
		case "Parse/bytes.Reader":
			o = c12Parse(func() (*ir.Module, error) { return asm.Parse(s.ID, bytes.NewReader([]byte(text))) })
		case "ParseBytes":
			o = c12Parse(func() (*ir.Module, error) {
				// the caller's buffer is the caller's: it is overwritten as soon as
				// ParseBytes returns (a module must not keep views into it)
				buf := []byte(text)
				m, err := asm.ParseBytes(s.ID, buf)
				for i := range buf {
					buf[i] = 'X'
				}
				return m, err
			})
		case "Parse/chunk-reader-eof-with-last-data":
			o = c12Parse(func() (*ir.Module, error) {
				return asm.Parse(s.ID, &chunkReader{data: []byte(text), rng: rng, eofWithData: true})
			})
		case "Parse/one-read-data-and-eof":
			o = c12Parse(func() (*ir.Module, error) {
				return asm.Parse(s.ID, &chunkReader{data: []byte(text), whole: true, eofWithData: true})
			})
		}
		r.Eval(1)
		if o.summary() != ref.summary() {
			c12Report(r, s.ID, text, ep, ref, o)
			return
		}
		r.Tally("entry_points", ep)
	}
	// --- phase 3: after unrelated activity (parse B, print B, parse A again)
	for _, c := range companions {
		ct, err := c.Text()
		if err != nil {
			continue
		}
		fw.Guard(func() {
			if mb, err := asm.ParseString(c.ID, ct); err == nil {
				_ = mb.String()
			}
		})
		o := c12Parse(func() (*ir.Module, error) { return asm.ParseString(s.ID, text) })
		r.Eval(1)
		if o.summary() != ref.summary() {
			c12Report(r, s.ID, text, "after parsing and printing "+c.ID, ref, o)
			return
		}
		r.Tally("phases", "after-other-activity")
	}
	// --- phase 4: concurrent parses of different inputs
	jobs := []c12Job{{s.ID, text, ref.summary()}}
	for _, c := range companions {
		ct, err := c.Text()
		if err != nil {
			continue
		}
		seq := c12Parse(func() (*ir.Module, error) { return asm.ParseString(c.ID, ct) })
		jobs = append(jobs, c12Job{c.ID, ct, seq.summary()})
	}
	G := r.Ctx().Pick(8, 32)
	var wg sync.WaitGroup
	got := make([]string, G)
	start := make(chan struct{})
	for g := 0; g < G; g++ {
		wg.Add(1)
		go func(g int) {
			defer wg.Done()
			<-start
			j := jobs[g%len(jobs)]
			got[g] = c12Parse(func() (*ir.Module, error) { return asm.ParseString(j.id, j.text) }).summary()
		}(g)
	}
	close(start)
	wg.Wait()
	for g := 0; g < G; g++ {
		j := jobs[g%len(jobs)]
		r.Eval(1)
		if got[g] != j.want {
			r.Violate(fw.Violation{Key: "concurrent-parse/" + j.id, Input: j.text,
				What: fmt.Sprintf("parsing %s while %d other goroutines parse other inputs gives %s, alone it gives %s", j.id, G-1, got[g], j.want), Expected: j.want, Observed: got[g]})
			return
		}
	}
	r.Tally("phases", "concurrent-parses")
	// the same with more goroutines than processors (GOMAXPROCS 2) and the
	// translator giving up the processor inside its loops (the hook that records
	// map orders yields at PRNG points): goroutines now interleave on one
	// processor in the middle of a translation, which is what it takes for
	// per-processor storage (sync.Pool) handed back too early to reach another
	// parse while its first user still reads it
	if bad := c12Crowded(r, jobs, 16, 3); bad {
		return
	}
	r.Tally("phases", "concurrent-parses-crowded(GOMAXPROCS=2,yields)")
	// --- canary
	if after := c12Canary(); after != canaryBefore {
		r.Violate(fw.Violation{Key: "singleton-mutated/" + s.ID, Input: text, What: "an exported package-level singleton changed during parsing/printing", Expected: canaryBefore, Observed: after})
	}
	if proc == 0 && strings.HasPrefix(s.ID, "big/") {
		r.Sample(map[string]interface{}{"input": s.ID, "bytes": len(text), "process": proc, "outcome": ref.summary(), "map_loops_seen_in_2+_orders": diverse, "repetitions": R})
	}
}

type c12Job struct{ id, text, want string }

// c12Crowded lets G goroutines parse the jobs `reps` times each on two
// processors, the translator yielding inside its loops. A job without `want`
// is compared with the sequential outcome computed afterwards.
func c12Crowded(r *fw.Rec, jobs []c12Job, G, reps int) (bad bool) {
	old := runtime.GOMAXPROCS(2)
	var ctr uint64
	verifhook.SetVisit(func(site string, key interface{}) {
		if atomic.AddUint64(&ctr, 1)%3 == 0 {
			runtime.Gosched()
		}
	})
	var wg sync.WaitGroup
	got := make([][]string, G)
	start := make(chan struct{})
	for g := 0; g < G; g++ {
		wg.Add(1)
		go func(g int) {
			defer wg.Done()
			<-start
			for k := 0; k < reps; k++ {
				j := jobs[(g+k)%len(jobs)]
				got[g] = append(got[g], c12Parse(func() (*ir.Module, error) { return asm.ParseString(j.id, j.text) }).summary())
			}
		}(g)
	}
	close(start)
	wg.Wait()
	verifhook.SetVisit(nil)
	runtime.GOMAXPROCS(old)
	for i := range jobs {
		if jobs[i].want == "" {
			j := jobs[i]
			jobs[i].want = c12Parse(func() (*ir.Module, error) { return asm.ParseString(j.id, j.text) }).summary()
		}
	}
	for g := 0; g < G; g++ {
		for k := range got[g] {
			j := jobs[(g+k)%len(jobs)]
			r.Eval(1)
			if got[g][k] != j.want {
				r.Violate(fw.Violation{Key: "concurrent-parse/" + j.id, Input: j.text,
					What: fmt.Sprintf("parsing %s while %d other goroutines on 2 processors parse other inputs gives %s, alone it gives %s", j.id, G-1, got[g][k], j.want), Expected: j.want, Observed: got[g][k]})
				return true
			}
		}
	}
	return false
}

// c12ColdStart: the first parses of a fresh process are concurrent ones (tables
// that the library builds on first use are built while other parses run); the
// sequential outcomes they are compared with are computed afterwards.
func c12ColdStart(r *fw.Rec, srcs []corpus.Source) {
	var jobs []c12Job
	for _, s := range srcs {
		if t, err := s.Text(); err == nil {
			jobs = append(jobs, c12Job{id: s.ID, text: t})
		}
	}
	if len(jobs) == 0 {
		r.Inconclusive("no sources")
		return
	}
	canaryBefore := c12Canary()
	G := 16
	var wg sync.WaitGroup
	got := make([]string, G)
	start := make(chan struct{})
	for g := 0; g < G; g++ {
		wg.Add(1)
		go func(g int) {
			defer wg.Done()
			<-start
			j := jobs[g%len(jobs)]
			got[g] = c12Parse(func() (*ir.Module, error) { return asm.ParseString(j.id, j.text) }).summary()
		}(g)
	}
	close(start)
	wg.Wait()
	for i := range jobs {
		j := jobs[i]
		jobs[i].want = c12Parse(func() (*ir.Module, error) { return asm.ParseString(j.id, j.text) }).summary()
	}
	for g := 0; g < G; g++ {
		j := jobs[g%len(jobs)]
		r.Eval(1)
		if got[g] != j.want {
			r.Violate(fw.Violation{Key: "cold-start-concurrent-parse/" + j.id, Input: j.text,
				What: fmt.Sprintf("parsing %s as one of the first %d parses of the process, all concurrent, gives %s, alone (afterwards) it gives %s", j.id, G, got[g], j.want), Expected: j.want, Observed: got[g]})
			return
		}
	}
	r.Nontrivial("cold/" + jobs[0].id)
	r.Tally("phases", "cold-start-concurrent-parses")
	if c12Crowded(r, jobs, 16, 2) {
		return
	}
	if after := c12Canary(); after != canaryBefore {
		r.Violate(fw.Violation{Key: "singleton-mutated/cold-start", What: "an exported package-level singleton changed during parsing", Expected: canaryBefore, Observed: after})
	}
}

func c12Report(r *fw.Rec, id, text, how string, ref, o c12Outcome) {
	what := fmt.Sprintf("same input, different result (%s): first %s, then %s", how, ref.summary(), o.summary())
	v := fw.Violation{Key: "nondeterministic/" + id + "/" + classify(how), Input: text, What: what}
	if ref.accepted && o.accepted {
		v.What += "; " + firstDiffLines(ref.text, o.text)
		v.Expected, v.Observed = ref.text, o.text
	}
	if o.panicked != "" {
		v.What += "; panic: " + o.panicked
	}
	r.Violate(v)
}

// postC12: cross-process agreement is enforced by the Facts mechanism; here the
// number of processes that observed each input is tallied.
func postC12(ctx *fw.Ctx, merged *fw.Rec) {
	merged.TallyLocked("cross_process", fmt.Sprintf("inputs_compared_across_processes=%d", len(merged.Facts)))
}

// c12Singletons returns the addresses of the exported package-level values of
// package constant and metadata that modules share by design.
func c12Singletons() map[uintptr]bool {
	out := map[uintptr]bool{}
	for _, v := range []interface{}{constant.True, constant.False, constant.None, metadata.Null} {
		rv := reflect.ValueOf(v)
		if rv.Kind() == reflect.Ptr && !rv.IsNil() {
			out[rv.Pointer()] = true
			// and what they hold
			if ci, ok := v.(*constant.Int); ok && ci.X != nil {
				out[reflect.ValueOf(ci.X).Pointer()] = true
			}
		}
	}
	return out
}
