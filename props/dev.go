package props

import (
	"fmt"
	"os"
	"strings"

	"github.com/llir/llvm/asm"

	"verif/internal/corpus"
	"verif/internal/fw"
	"verif/internal/llvmref"
	"verif/internal/mgen"
)

var devExtra = map[string]func(args []string){}

// Dev holds development helpers (not part of any check).
func Dev(args []string) {
	if len(args) == 0 {
		return
	}
	if f, ok := devExtra[args[0]]; ok {
		f(args[1:])
		return
	}
	switch args[0] {
	case "atoms":
		// vcheck --dev atoms [substr]: per atom, LLVM verdict / llir parse / print / LLVM verdict on print
		for _, a := range corpus.Atoms() {
			if len(args) > 1 && !strings.Contains(a.Name, args[1]) {
				continue
			}
			ok, msg, _ := llvmref.Accepts(a.Text)
			st := "llvm=ok"
			if !ok {
				st = "llvm=REJECT(" + firstLine(msg) + ")"
			}
			var out string
			p, pmsg, _ := fw.Guard(func() {
				m, err := asm.ParseString(a.Name, a.Text)
				if err != nil {
					st += " parse=ERR(" + firstLine(err.Error()) + ")"
					return
				}
				st += " parse=ok"
				out = m.String()
			})
			if p {
				st += " PANIC(" + firstLine(pmsg) + ")"
			}
			if out != "" {
				ok2, msg2, _ := llvmref.Accepts(out)
				if ok2 {
					st += " reprint=ok"
				} else {
					st += " reprint=REJECT(" + firstLine(msg2) + ")"
				}
			}
			fmt.Printf("%-40s %s\n", a.Name, st)
		}
	case "print":
		b, _ := os.ReadFile(args[1])
		m, err := asm.ParseString(args[1], string(b))
		if err != nil {
			fmt.Println("ERR:", err)
			return
		}
		fmt.Print(m.String())
	}
}

func firstLine(s string) string {
	s = strings.TrimSpace(s)
	if i := strings.IndexByte(s, '\n'); i >= 0 {
		s = s[:i]
	}
	return fw.Trunc(s, 160)
}

func init() {
	devExtra["mgen"] = func(args []string) {
		// vcheck --dev mgen <n>: LLVM acceptance rate of generated modules, first rejects shown
		n := 200
		if len(args) > 0 {
			fmt.Sscan(args[0], &n)
		}
		ok := 0
		shown := 0
		for i := 0; i < n; i++ {
			m := mgen.Generate(int64(i+1), mgen.DefaultFeatures())
			acc, msg, _ := llvmref.Accepts(m.Text)
			if acc {
				ok++
				continue
			}
			if shown < 8 {
				shown++
				fmt.Printf("--- seed %d rejected: %s\n", i+1, firstLine(lastDiag(msg)))
				if len(args) > 1 {
					fmt.Println(m.Text)
				}
			}
		}
		fmt.Printf("accepted %d of %d\n", ok, n)
	}
	devExtra["mgen1"] = func(args []string) {
		var seed int64 = 1
		fmt.Sscan(args[0], &seed)
		fmt.Print(mgen.Generate(seed, mgen.DefaultFeatures()).Text)
	}
}

func init() {
	devExtra["torture"] = func(args []string) {
		var seed int64 = 1
		if len(args) > 0 {
			fmt.Sscan(args[0], &seed)
		}
		fmt.Print(tortureModule(seed))
	}
}

func init() {
	// vcheck --dev files <f.ll>...: run the single-input monitors of C01, C02, C04, C06, C17 on the given files and
	// print what they would report (triage helper for new corpus material).
	devExtra["files"] = func(args []string) {
		scratch, _ := os.MkdirTemp("", "vdev")
		defer os.RemoveAll(scratch)
		findings := fw.LoadFindings()
		for _, f := range args {
			b, err := os.ReadFile(f)
			if err != nil {
				fmt.Println(f, "unreadable")
				continue
			}
			src := corpus.Source{ID: "dev/" + f, Text: func() (string, error) { return string(b), nil }}
			for _, p := range []struct {
				prop string
				run  func(r *fw.Rec)
			}{
				{"C01", func(r *fw.Rec) { c01One(r, src.ID, "original", string(b), false) }},
				{"C02", func(r *fw.Rec) { c02Source(r, src) }},
				{"C04", func(r *fw.Rec) { c04Source(r, src) }},
				{"C06", func(r *fw.Rec) { c06Corpus(r, src) }},
				{"C17", func(r *fw.Rec) { c17Corpus(r, src) }},
			} {
				r := fw.NewRec(&fw.Ctx{Prop: p.prop, Tier: "quick", Seed: 1, Scratch: scratch}, src.ID)
				pan, msg, _ := fw.Guard(func() { p.run(r) })
				if pan {
					fmt.Printf("%s %s MONITOR-PANIC %s\n", f, p.prop, firstLine(msg))
				}
				for _, v := range r.Violations {
					v.Prop = p.prop
					st := "VIOLATION"
					if fw.MatchOpen(findings, v) != nil {
						st = "known"
					}
					fmt.Printf("%s %s %s %s :: %s\n", f, p.prop, st, v.Key, fw.Trunc(v.What, 300))
				}
				for k, n := range r.Inconcl {
					fmt.Printf("%s %s inconclusive %s x%d\n", f, p.prop, k, n)
				}
				if len(r.Violations) == 0 && len(r.Inconcl) == 0 {
					fmt.Printf("%s %s ok evals=%d\n", f, p.prop, r.Evals)
				}
			}
		}
	}
}

func init() {
	// vcheck --dev hostile: the error each hostile input of C12 is rejected with
	devExtra["hostile"] = func(args []string) {
		for _, h := range hostileInputs() {
			var msg string
			pan, pmsg, _ := fw.Guard(func() {
				_, err := asm.ParseString("h", h)
				if err != nil {
					msg = firstLine(err.Error())
				} else {
					msg = "ACCEPTED"
				}
			})
			if pan {
				msg = "PANIC " + firstLine(pmsg)
			}
			fmt.Printf("%-70s => %s\n", fw.Trunc(strings.ReplaceAll(h, "\n", "\\n"), 70), msg)
		}
	}
}
