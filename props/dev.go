package props

import (
	"fmt"
	"os"
	"strings"

	"github.com/llir/llvm/asm"

	"verif/internal/corpus"
	"verif/internal/fw"
	"verif/internal/llvmref"
	"verif/internal/mgen"
)

var devExtra = map[string]func(args []string){}

// Dev holds development helpers (not part of any check).
func Dev(args []string) {
	if len(args) == 0 {
		return
	}
	if f, ok := devExtra[args[0]]; ok {
		f(args[1:])
		return
	}
	switch args[0] {
	case "atoms":
		// vcheck --dev atoms [substr]: per atom, LLVM verdict / llir parse / print / LLVM verdict on print
		for _, a := range corpus.Atoms() {
			if len(args) > 1 && !strings.Contains(a.Name, args[1]) {
				continue
			}
			ok, msg, _ := llvmref.Accepts(a.Text)
			st := "llvm=ok"
			if !ok {
				st = "llvm=REJECT(" + firstLine(msg) + ")"
			}
			var out string
			p, pmsg, _ := fw.Guard(func() {
				m, err := asm.ParseString(a.Name, a.Text)
				if err != nil {
					st += " parse=ERR(" + firstLine(err.Error()) + ")"
					return
				}
				st += " parse=ok"
				out = m.String()
			})
			if p {
				st += " PANIC(" + firstLine(pmsg) + ")"
			}
			if out != "" {
				ok2, msg2, _ := llvmref.Accepts(out)
				if ok2 {
					st += " reprint=ok"
				} else {
					st += " reprint=REJECT(" + firstLine(msg2) + ")"
				}
			}
			fmt.Printf("%-40s %s\n", a.Name, st)
		}
	case "print":
		b, _ := os.ReadFile(args[1])
		m, err := asm.ParseString(args[1], string(b))
		if err != nil {
			fmt.Println("ERR:", err)
			return
		}
		fmt.Print(m.String())
	}
}

func firstLine(s string) string {
	s = strings.TrimSpace(s)
	if i := strings.IndexByte(s, '\n'); i >= 0 {
		s = s[:i]
	}
	return fw.Trunc(s, 160)
}

func init() {
	devExtra["mgen"] = func(args []string) {
		// vcheck --dev mgen <n>: LLVM acceptance rate of generated modules, first rejects shown
		n := 200
		if len(args) > 0 {
			fmt.Sscan(args[0], &n)
		}
		ok := 0
		shown := 0
		for i := 0; i < n; i++ {
			m := mgen.Generate(int64(i+1), mgen.DefaultFeatures())
			acc, msg, _ := llvmref.Accepts(m.Text)
			if acc {
				ok++
				continue
			}
			if shown < 8 {
				shown++
				fmt.Printf("--- seed %d rejected: %s\n", i+1, firstLine(lastDiag(msg)))
				if len(args) > 1 {
					fmt.Println(m.Text)
				}
			}
		}
		fmt.Printf("accepted %d of %d\n", ok, n)
	}
	devExtra["mgen1"] = func(args []string) {
		var seed int64 = 1
		fmt.Sscan(args[0], &seed)
		fmt.Print(mgen.Generate(seed, mgen.DefaultFeatures()).Text)
	}
}

func init() {
	devExtra["torture"] = func(args []string) {
		var seed int64 = 1
		if len(args) > 0 {
			fmt.Sscan(args[0], &seed)
		}
		fmt.Print(tortureModule(seed))
	}
}
