package props

import (
	"verif/internal/corpus"
	"verif/internal/fw"
)

// mgenSources returns n generated modules (filled in by internal/mgen).
func mgenSources(ctx *fw.Ctx, n int) []corpus.Source { return nil }
