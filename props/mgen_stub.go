package props

import (
	"fmt"

	"verif/internal/corpus"
	"verif/internal/fw"
	"verif/internal/mgen"
)

// mgenSources returns n generated modules (workload W2).
func mgenSources(ctx *fw.Ctx, n int) []corpus.Source {
	rng := ctx.Rand("mgen")
	var out []corpus.Source
	for i := 0; i < n; i++ {
		seed := rng.Int63()
		out = append(out, corpus.Source{ID: fmt.Sprintf("mgen/%d", seed), Text: func() (string, error) {
			return mgen.Generate(seed, mgen.DefaultFeatures()).Text, nil
		}})
	}
	return out
}
