package props

import (
	"fmt"
	"math/rand"
	"strings"

	"verif/internal/corpus"
	"verif/internal/fw"
)

// tortureModule generates a module in "reference torture" mode: mutually
// recursive types, globals initialised with each other's addresses, several
// named and unnamed functions that reuse the same local and block names, phi and
// branch cycles, uses before definitions, and blockaddress / uselistorder_bb
// references to blocks of other (also unnamed) functions from every position a
// constant can occupy: global initializers before and after the function,
// instruction operands of other functions, metadata tuples, named metadata,
// inline metadata attachments and module-level use-list orders. The text is
// meant for the library's parser (C04 quantifies over everything it accepts); it
// is not gated by LLVM, whose use-list index counts it does not try to satisfy.
func tortureModule(seed int64) string {
	rng := rand.New(rand.NewSource(seed))
	var sb strings.Builder
	sb.WriteString("%A = type { %B*, i32, %A* }\n%B = type { %A*, [2 x %A], %B* }\n%C = type { %C*, %C (%C*)* }\n$cd = comdat any\n")
	nf := 3 + rng.Intn(3)
	type fn struct {
		ref     string
		unnamed bool
		blocks  []string // block refs usable from outside ("%bb", "%1"...)
	}
	var fns []fn
	nextGlobalID := 0
	// unnamed globals come first in textual order so that numbering is easy
	nug := rng.Intn(3)
	for i := 0; i < nug; i++ {
		fmt.Fprintf(&sb, "@%d = global i32 %d\n", nextGlobalID, i)
		nextGlobalID++
	}
	for i := 0; i < nf; i++ {
		f := fn{}
		if rng.Intn(2) == 0 {
			f.unnamed = true
			f.ref = fmt.Sprintf("@%d", nextGlobalID)
			nextGlobalID++
		} else {
			f.ref = fmt.Sprintf("@f%d", i)
		}
		fns = append(fns, f)
	}
	// block layout per function: entry (named or unnamed), bb, loop, an unnamed block, exit
	bodies := make([]string, nf)
	for i := range fns {
		var b strings.Builder
		entryUnnamed := rng.Intn(2) == 0
		// numbering: param %x named; entry unnamed -> %0
		n := 0
		entry := "%entry"
		if entryUnnamed {
			entry = "%0"
			n = 1
		}
		// the unnamed middle block gets the next number after the values defined before it
		fns[i].blocks = []string{"%bb", "%loop"}
		other := fns[(i+1)%nf]
		other2 := fns[(i+2)%nf]
		if !entryUnnamed {
			b.WriteString("entry:\n")
		}
		fmt.Fprintf(&b, "  store i8* blockaddress(%s, %%bb), i8** @slot\n", other.ref)
		fmt.Fprintf(&b, "  %%fwd = add i32 %%x, 1\n")
		b.WriteString("  br label %bb\n")
		b.WriteString("bb:\n")
		fmt.Fprintf(&b, "  %%v = phi i32 [ %%fwd, %s ], [ %%w, %%loop ]\n", entry)
		fmt.Fprintf(&b, "  %%p = phi %%A* [ @ga, %s ], [ %%q2, %%loop ]\n", entry)
		fmt.Fprintf(&b, "  %%c = icmp slt i32 %%v, 10, !tag !{i8* blockaddress(%s, %%loop)}\n", other2.ref)
		b.WriteString("  br i1 %c, label %loop, label %" + fmt.Sprint(n) + "\n")
		b.WriteString("loop:\n")
		b.WriteString("  %w = add i32 %v, %fwd\n")
		b.WriteString("  %q = getelementptr %A, %A* %p, i32 0, i32 2\n  %q2 = load %A*, %A** %q\n")
		fmt.Fprintf(&b, "  %%r = call i32 %s(i32 %%w)\n", other.ref)
		b.WriteString("  br label %bb\n")
		fmt.Fprintf(&b, "%d:\n", n)
		fns[i].blocks = append(fns[i].blocks, fmt.Sprintf("%%%d", n))
		fmt.Fprintf(&b, "  indirectbr i8* blockaddress(%s, %%exit), [label %%exit, label %%bb]\n", fns[i].ref)
		b.WriteString("exit:\n  ret i32 %v\n")
		bodies[i] = b.String()
	}
	// blockaddress table before the functions (forward references)
	var refs []string
	for _, f := range fns {
		for _, bl := range f.blocks {
			refs = append(refs, fmt.Sprintf("i8* blockaddress(%s, %s)", f.ref, bl))
		}
	}
	rng.Shuffle(len(refs), func(i, j int) { refs[i], refs[j] = refs[j], refs[i] })
	sb.WriteString("@slot = global i8* null\n")
	sb.WriteString("@ga = global %A { %B* @gb, i32 1, %A* @ga }, comdat($cd)\n@gb = global %B { %A* @ga, [2 x %A] zeroinitializer, %B* @gb }\n@gc = global %C* null\n")
	fmt.Fprintf(&sb, "@tbl.before = global [%d x i8*] [%s]\n", len(refs), strings.Join(refs, ", "))
	for i, f := range fns {
		attrs := []string{"", " #0", " comdat($cd)", " #1"}[rng.Intn(4)]
		if f.unnamed && strings.Contains(attrs, "comdat") {
			attrs = ""
		}
		fmt.Fprintf(&sb, "define i32 %s(i32 %%x)%s {\n%s}\n", f.ref, attrs, bodies[i])
	}
	rng.Shuffle(len(refs), func(i, j int) { refs[i], refs[j] = refs[j], refs[i] })
	fmt.Fprintf(&sb, "@tbl.after = global [%d x i8*] [%s]\n", len(refs), strings.Join(refs, ", "))
	sb.WriteString("attributes #0 = { nounwind }\nattributes #1 = { nounwind readnone }\n")
	// metadata holding blockaddresses, with a cycle
	fmt.Fprintf(&sb, "!0 = !{%s, !1}\n", refs[0])
	fmt.Fprintf(&sb, "!1 = distinct !{!1, !0, %s}\n", refs[len(refs)-1])
	fmt.Fprintf(&sb, "!blocks = !{!0, !1}\n")
	// use-list orders
	k := rng.Intn(len(fns))
	fmt.Fprintf(&sb, "uselistorder i8* blockaddress(%s, %%bb), { 1, 0 }\n", fns[k].ref)
	for _, f := range fns {
		if rng.Intn(2) == 0 {
			fmt.Fprintf(&sb, "uselistorder_bb %s, %%bb, { 1, 0 }\n", f.ref)
		}
	}
	return sb.String()
}

// tortureSources returns n reference-torture modules.
func tortureSources(ctx *fw.Ctx, n int) []corpus.Source {
	rng := ctx.Rand("torture")
	var out []corpus.Source
	for i := 0; i < n; i++ {
		seed := rng.Int63()
		out = append(out, corpus.Source{ID: fmt.Sprintf("torture/%d", seed), Text: func() (string, error) { return tortureModule(seed), nil }})
	}
	return out
}
