// Package props holds one monitor per property C01..C20.
package props

import (
	"fmt"
	"reflect"
	"sort"
	"strings"
	"verif/internal/llvmref"

	"github.com/llir/llvm/asm"
	"github.com/llir/llvm/ir"

	"verif/internal/corpus"
	"verif/internal/fw"
)

// parseGuard parses text, converting panics into (nil, nil, panic message).
func parseGuard(id, text string) (m *ir.Module, err error, panicMsg string) {
	p, msg, stack := fw.Guard(func() {
		m, err = asm.ParseString(id, text)
	})
	if p {
		return nil, nil, msg + "\n" + trimStack(stack)
	}
	return m, err, ""
}

// printGuard prints m, converting panics into ("", panic message).
func printGuard(m *ir.Module) (out string, panicMsg string) {
	p, msg, stack := fw.Guard(func() {
		out = m.String()
	})
	if p {
		return "", msg + "\n" + trimStack(stack)
	}
	return out, ""
}

// trimStack keeps the frames of a stack trace that are inside llir/llvm (top
// 12 lines of them).
func trimStack(stack string) string {
	lines := strings.Split(stack, "\n")
	var out []string
	for i := 0; i+1 < len(lines); i++ {
		if strings.Contains(lines[i], "github.com/llir/") {
			out = append(out, lines[i], lines[i+1])
			i++
			if len(out) >= 16 {
				break
			}
		}
	}
	return strings.Join(out, "\n")
}

// panicSite returns a short stable identification of a panic: message class +
// the top llir/llvm frame (function name only).
func panicSite(panicMsg string) string {
	lines := strings.Split(panicMsg, "\n")
	msg := lines[0]
	fn := ""
	for _, l := range lines[1:] {
		if strings.Contains(l, "github.com/llir/llvm/") && !strings.HasPrefix(strings.TrimSpace(l), "/") {
			fn = strings.TrimSpace(l)
			if i := strings.Index(fn, "("); i > 0 {
				fn = fn[:i]
			}
			fn = strings.TrimPrefix(fn, "github.com/llir/llvm/")
			break
		}
	}
	return fn + ":" + classify(msg)
}

// classify strips the variable parts (quoted strings, numbers) from a message.
func classify(msg string) string {
	var sb strings.Builder
	inq := false
	for i := 0; i < len(msg); i++ {
		c := msg[i]
		switch {
		case c == '"' || c == '`':
			inq = !inq
			if !inq {
				sb.WriteString("Q")
			}
		case inq:
		case c >= '0' && c <= '9':
			if sb.Len() == 0 || sb.String()[sb.Len()-1] != 'N' {
				sb.WriteByte('N')
			}
		case c == ' ':
			sb.WriteByte('_')
		default:
			sb.WriteByte(c)
		}
	}
	s := sb.String()
	if len(s) > 90 {
		s = s[:90]
	}
	return s
}

// baseSources are the module texts every pure-Go monitor can use without the
// LLVM tools: the atom catalogue and the inputs shipped in /repo's testdata.
func baseSources() []corpus.Source {
	var out []corpus.Source
	for _, s := range corpus.AtomSources() {
		if strings.HasPrefix(s.ID, "atom/unrep/") {
			continue
		}
		out = append(out, s)
	}
	out = append(out, corpus.RepoTestdata()...)
	return out
}

func must(err error) {
	if err != nil {
		panic(fmt.Sprintf("harness error: %v", err))
	}
}

// lliExit runs a module text with lli and returns the exit code of @main.
// ok is false when lli could not execute the program (not a verdict).
func lliExit(text string) (exit int, ok bool, note string) {
	_, se, err := llvmref.Run([]byte(text), llvmref.LLI, "-")
	if err == llvmref.ErrTimeout {
		return 0, false, "watchdog"
	}
	if err != nil {
		type exitCoder interface{ ExitCode() int }
		ee, isExit := err.(exitCoder)
		if !isExit {
			return 0, false, "could not be run"
		}
		exit = ee.ExitCode()
	}
	if exit < 0 || exit > 255 || strings.Contains(string(se), "Stack dump") || strings.Contains(string(se), "LLVM ERROR") {
		return 0, false, classify(firstLine(string(se)))
	}
	return exit, true, ""
}

// overlappingSlices walks everything reachable from the module through exported
// and unexported fields and returns a description of two slices whose storage
// (start to capacity) overlaps although they start at different addresses: two
// lists carved from one chunk without a capacity limit, so that appending to
// one writes into the other. Lists that are the same slice value (same start)
// are shared by design and not reported. "" if there is none.
func overlappingSlices(m *ir.Module) string {
	type span struct {
		lo, hi uintptr
		what   string
	}
	var spans []span
	seen := map[uintptr]bool{}
	var walk func(v reflect.Value, where string, depth int)
	walk = func(v reflect.Value, where string, depth int) {
		if depth > 200 {
			return
		}
		switch v.Kind() {
		case reflect.Ptr:
			if v.IsNil() || seen[v.Pointer()] {
				return
			}
			seen[v.Pointer()] = true
			walk(v.Elem(), where, depth+1)
		case reflect.Interface:
			if !v.IsNil() {
				walk(v.Elem(), where, depth+1)
			}
		case reflect.Struct:
			t := v.Type()
			if t.PkgPath() == "sync" || t.PkgPath() == "math/big" {
				return
			}
			for i := 0; i < v.NumField(); i++ {
				walk(v.Field(i), t.Name()+"."+t.Field(i).Name, depth+1)
			}
		case reflect.Slice:
			if v.IsNil() || v.Cap() == 0 {
				return
			}
			sz := v.Type().Elem().Size()
			if sz > 0 {
				spans = append(spans, span{v.Pointer(), v.Pointer() + uintptr(v.Cap())*sz, where})
			}
			k := v.Type().Elem().Kind()
			if k == reflect.Ptr || k == reflect.Interface || k == reflect.Struct || k == reflect.Slice {
				for i := 0; i < v.Len(); i++ {
					walk(v.Index(i), where, depth+1)
				}
			}
		case reflect.Map:
			it := v.MapRange()
			for it.Next() {
				walk(it.Value(), where, depth+1)
			}
		}
	}
	walk(reflect.ValueOf(m), "Module", 0)
	sort.Slice(spans, func(i, j int) bool { return spans[i].lo < spans[j].lo })
	for i := 1; i < len(spans); i++ {
		a, b := spans[i-1], spans[i]
		if b.lo > a.lo && b.lo < a.hi {
			return fmt.Sprintf("the storage of a %s list (%d bytes up to its capacity) reaches into a %s list that starts %d bytes behind it", a.what, a.hi-a.lo, b.what, b.lo-a.lo)
		}
	}
	return ""
}
