// Package props holds one monitor per property C01..C20.
package props

import (
	"fmt"
	"strings"
	"verif/internal/llvmref"

	"github.com/llir/llvm/asm"
	"github.com/llir/llvm/ir"

	"verif/internal/corpus"
	"verif/internal/fw"
)

// parseGuard parses text, converting panics into (nil, nil, panic message).
func parseGuard(id, text string) (m *ir.Module, err error, panicMsg string) {
	p, msg, stack := fw.Guard(func() {
		m, err = asm.ParseString(id, text)
	})
	if p {
		return nil, nil, msg + "\n" + trimStack(stack)
	}
	return m, err, ""
}

// printGuard prints m, converting panics into ("", panic message).
func printGuard(m *ir.Module) (out string, panicMsg string) {
	p, msg, stack := fw.Guard(func() {
		out = m.String()
	})
	if p {
		return "", msg + "\n" + trimStack(stack)
	}
	return out, ""
}

// trimStack keeps the frames of a stack trace that are inside llir/llvm (top
// 12 lines of them).
func trimStack(stack string) string {
	lines := strings.Split(stack, "\n")
	var out []string
	for i := 0; i+1 < len(lines); i++ {
		if strings.Contains(lines[i], "github.com/llir/") {
			out = append(out, lines[i], lines[i+1])
			i++
			if len(out) >= 16 {
				break
			}
		}
	}
	return strings.Join(out, "\n")
}

// panicSite returns a short stable identification of a panic: message class +
// the top llir/llvm frame (function name only).
func panicSite(panicMsg string) string {
	lines := strings.Split(panicMsg, "\n")
	msg := lines[0]
	fn := ""
	for _, l := range lines[1:] {
		if strings.Contains(l, "github.com/llir/llvm/") && !strings.HasPrefix(strings.TrimSpace(l), "/") {
			fn = strings.TrimSpace(l)
			if i := strings.Index(fn, "("); i > 0 {
				fn = fn[:i]
			}
			fn = strings.TrimPrefix(fn, "github.com/llir/llvm/")
			break
		}
	}
	return fn + ":" + classify(msg)
}

// classify strips the variable parts (quoted strings, numbers) from a message.
func classify(msg string) string {
	var sb strings.Builder
	inq := false
	for i := 0; i < len(msg); i++ {
		c := msg[i]
		switch {
		case c == '"' || c == '`':
			inq = !inq
			if !inq {
				sb.WriteString("Q")
			}
		case inq:
		case c >= '0' && c <= '9':
			if sb.Len() == 0 || sb.String()[sb.Len()-1] != 'N' {
				sb.WriteByte('N')
			}
		case c == ' ':
			sb.WriteByte('_')
		default:
			sb.WriteByte(c)
		}
	}
	s := sb.String()
	if len(s) > 90 {
		s = s[:90]
	}
	return s
}

// baseSources are the module texts every pure-Go monitor can use without the
// LLVM tools: the atom catalogue and the inputs shipped in /repo's testdata.
func baseSources() []corpus.Source {
	var out []corpus.Source
	for _, s := range corpus.AtomSources() {
		if strings.HasPrefix(s.ID, "atom/unrep/") {
			continue
		}
		out = append(out, s)
	}
	out = append(out, corpus.RepoTestdata()...)
	return out
}

func must(err error) {
	if err != nil {
		panic(fmt.Sprintf("harness error: %v", err))
	}
}

// lliExit runs a module text with lli and returns the exit code of @main.
// ok is false when lli could not execute the program (not a verdict).
func lliExit(text string) (exit int, ok bool, note string) {
	_, se, err := llvmref.Run([]byte(text), llvmref.LLI, "-")
	if err == llvmref.ErrTimeout {
		return 0, false, "watchdog"
	}
	if err != nil {
		type exitCoder interface{ ExitCode() int }
		ee, isExit := err.(exitCoder)
		if !isExit {
			return 0, false, "could not be run"
		}
		exit = ee.ExitCode()
	}
	if exit < 0 || exit > 255 || strings.Contains(string(se), "Stack dump") || strings.Contains(string(se), "LLVM ERROR") {
		return 0, false, classify(firstLine(string(se)))
	}
	return exit, true, ""
}
