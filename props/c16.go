package props

import (
	"fmt"
	"math/rand"
	"regexp"
	"strconv"
	"strings"
	"verif/internal/corpus"
	"verif/internal/graph"
	"verif/internal/llvmref"

	"github.com/llir/llvm/ir"
	"github.com/llir/llvm/ir/enum"
	"github.com/llir/llvm/ir/types"

	"verif/internal/fw"
)

func init() {
	fw.Register(&fw.Check{
		ID:    "C16",
		Level: "exploration",
		Rule: "type universes in LLVM's data model (unique names, only structs named): 3-8 identified structs (opaque, packed, empty, mutually recursive through pointers/arrays/function types) plus PRNG literal types of depth<=3 over all kinds and every one-attribute neighbour of each; each universe is built twice through types.New* and a third time by parsing its printed form. " +
			"Checked over all ordered pairs: Equal agrees with the reference identity (canonical descriptor string), is reflexive and symmetric; over all triples (universes<=70 types, sampled beyond): transitive; every one-attribute neighbour is unequal; Equal(t, parse(print t)). " +
			"number spellings: array and vector lengths (up to 2^64-1), address spaces (up to 2^24-1) and integer widths in decimal, zero-padded decimal and u0x spellings must give the type LLVM reads (expected spelling written by the monitor from the number). edit-after-query: a struct named or given its body, a signature made variadic, an address space changed after Equal/String were called: equality and spelling of the types built on them follow the edit. " +
			"corpus universes: the type objects reachable from every accepted corpus module (atoms, repo testdata, clang corpus: hundreds of identified structs, function types, vectors, address spaces), from two independent parses of the same text; on every pair within a parse and across the parses Equal, both ways round, must agree with a reference identity written without Equal or String (identified structs by name, the rest by structure, names of non-struct types ignored). " +
			"non-trivial = an ordered pair of distinct descriptors, or a pair of separately constructed objects of the same descriptor; distinct by (universe seed, i, j)",
		Gen:           genC16,
		MinNontrivial: 10000,
		Assumptions:   []string{"reference identity = LLVM's rule: identified structs by name, everything else by structure", "termination is observed through the worker supervisor: a diverging Equal kills the worker (stack overflow) or trips the watchdog"},
		Exhaustive:    func(string) bool { return false },
	})
}

// tdesc is the monitor's own description of a type.
type tdesc struct {
	kind     string // int float void label token metadata mmx ptr vec arr struct func named
	n        uint64 // bit width / length / address space (ptr)
	fkind    types.FloatKind
	flag     bool // scalable / packed / variadic
	elems    []*tdesc
	named    int // index of identified struct
	universe *tuniverse
}

type tuniverse struct {
	names  []string
	bodies [][]*tdesc // nil = opaque
	packed []bool
	opaque []bool
}

func (d *tdesc) key() string {
	switch d.kind {
	case "int":
		return fmt.Sprintf("i%d", d.n)
	case "float":
		return "f" + d.fkind.String()
	case "void", "label", "token", "metadata", "mmx":
		return d.kind
	case "ptr":
		return fmt.Sprintf("ptr(%s,as%d)", d.elems[0].key(), d.n)
	case "vec":
		return fmt.Sprintf("vec(%v,%d,%s)", d.flag, d.n, d.elems[0].key())
	case "arr":
		return fmt.Sprintf("arr(%d,%s)", d.n, d.elems[0].key())
	case "struct":
		var ks []string
		for _, e := range d.elems {
			ks = append(ks, e.key())
		}
		return fmt.Sprintf("struct(%v;%s)", d.flag, strings.Join(ks, ","))
	case "func":
		var ks []string
		for _, e := range d.elems[1:] {
			ks = append(ks, e.key())
		}
		return fmt.Sprintf("func(%s;%s;%v)", d.elems[0].key(), strings.Join(ks, ","), d.flag)
	case "named":
		return "named(" + d.universe.names[d.named] + ")"
	}
	panic("bad tdesc")
}

// build constructs the llir type of d; named maps identified structs to the
// objects of this construction.
func (d *tdesc) build(named []*types.StructType) types.Type {
	switch d.kind {
	case "int":
		return types.NewInt(d.n)
	case "float":
		return &types.FloatType{Kind: d.fkind}
	case "void":
		return &types.VoidType{}
	case "label":
		return &types.LabelType{}
	case "token":
		return &types.TokenType{}
	case "metadata":
		return &types.MetadataType{}
	case "mmx":
		return &types.MMXType{}
	case "ptr":
		p := types.NewPointer(d.elems[0].build(named))
		p.AddrSpace = types.AddrSpace(d.n)
		return p
	case "vec":
		v := types.NewVector(d.n, d.elems[0].build(named))
		v.Scalable = d.flag
		return v
	case "arr":
		return types.NewArray(d.n, d.elems[0].build(named))
	case "struct":
		var fs []types.Type
		for _, e := range d.elems {
			fs = append(fs, e.build(named))
		}
		s := types.NewStruct(fs...)
		s.Packed = d.flag
		return s
	case "func":
		var ps []types.Type
		for _, e := range d.elems[1:] {
			ps = append(ps, e.build(named))
		}
		f := types.NewFunc(d.elems[0].build(named), ps...)
		f.Variadic = d.flag
		return f
	case "named":
		return named[d.named]
	}
	panic("bad tdesc")
}

// buildUniverse creates the identified structs (bodies filled in afterwards so
// that recursion works).
func (u *tuniverse) build() []*types.StructType {
	named := make([]*types.StructType, len(u.names))
	for i, n := range u.names {
		named[i] = &types.StructType{TypeName: n, Packed: u.packed[i], Opaque: u.opaque[i]}
	}
	for i := range u.names {
		for _, f := range u.bodies[i] {
			named[i].Fields = append(named[i].Fields, f.build(named))
		}
	}
	return named
}

var c16FloatKinds = []types.FloatKind{types.FloatKindHalf, types.FloatKindFloat, types.FloatKindDouble, types.FloatKindFP128, types.FloatKindX86_FP80, types.FloatKindPPC_FP128}

type c16gen struct {
	rng *rand.Rand
	u   *tuniverse
}

// scalar: valid vector element
func (g *c16gen) scalar(depth int) *tdesc {
	switch g.rng.Intn(3) {
	case 0:
		return &tdesc{kind: "int", n: []uint64{1, 8, 32, 64, 7, 128}[g.rng.Intn(6)]}
	case 1:
		return &tdesc{kind: "float", fkind: c16FloatKinds[g.rng.Intn(len(c16FloatKinds))]}
	default:
		return g.ptr(depth)
	}
}

func (g *c16gen) ptr(depth int) *tdesc {
	var e *tdesc
	if depth <= 0 {
		e = g.leafSized()
	} else {
		switch g.rng.Intn(5) {
		case 0:
			e = g.fn(depth - 1)
		case 1:
			e = &tdesc{kind: "named", named: g.rng.Intn(len(g.u.names)), universe: g.u}
		default:
			e = g.sized(depth - 1)
		}
	}
	return &tdesc{kind: "ptr", n: uint64([]int{0, 0, 0, 1, 5}[g.rng.Intn(5)]), elems: []*tdesc{e}}
}

func (g *c16gen) leafSized() *tdesc {
	switch g.rng.Intn(4) {
	case 0:
		return &tdesc{kind: "float", fkind: c16FloatKinds[g.rng.Intn(len(c16FloatKinds))]}
	case 1:
		return &tdesc{kind: "named", named: g.rng.Intn(len(g.u.names)), universe: g.u}
	default:
		return &tdesc{kind: "int", n: []uint64{1, 8, 32, 64, 33}[g.rng.Intn(5)]}
	}
}

// sized: a first-class sized type (valid field / element)
func (g *c16gen) sized(depth int) *tdesc {
	if depth <= 0 {
		return g.leafSized()
	}
	switch g.rng.Intn(7) {
	case 0:
		return g.leafSized()
	case 1:
		return g.ptr(depth)
	case 2:
		return &tdesc{kind: "vec", n: uint64(1 + g.rng.Intn(4)), flag: g.rng.Intn(4) == 0, elems: []*tdesc{g.scalar(depth - 1)}}
	case 3:
		return &tdesc{kind: "arr", n: uint64(g.rng.Intn(4)), elems: []*tdesc{g.sized(depth - 1)}}
	case 4, 5:
		n := g.rng.Intn(4)
		s := &tdesc{kind: "struct", flag: g.rng.Intn(3) == 0}
		for i := 0; i < n; i++ {
			s.elems = append(s.elems, g.sized(depth-1))
		}
		return s
	default:
		return &tdesc{kind: "mmx"}
	}
}

func (g *c16gen) fn(depth int) *tdesc {
	var ret *tdesc
	if g.rng.Intn(3) == 0 {
		ret = &tdesc{kind: "void"}
	} else {
		ret = g.sized(depth)
	}
	f := &tdesc{kind: "func", flag: g.rng.Intn(3) == 0, elems: []*tdesc{ret}}
	n := g.rng.Intn(4)
	for i := 0; i < n; i++ {
		switch g.rng.Intn(10) {
		case 0:
			f.elems = append(f.elems, &tdesc{kind: "metadata"})
		case 1:
			f.elems = append(f.elems, &tdesc{kind: "label"})
		case 2:
			f.elems = append(f.elems, &tdesc{kind: "token"})
		default:
			f.elems = append(f.elems, g.sized(depth))
		}
	}
	return f
}

// neighbours returns descriptors that differ from d in exactly one attribute
// at the top level or in one child.
func (g *c16gen) neighbours(d *tdesc) []*tdesc {
	cp := func() *tdesc { c := *d; c.elems = append([]*tdesc(nil), d.elems...); return &c }
	var out []*tdesc
	switch d.kind {
	case "int":
		c := cp()
		c.n++
		out = append(out, c)
		out = append(out, &tdesc{kind: "float", fkind: types.FloatKindFloat})
	case "float":
		c := cp()
		c.fkind = c16FloatKinds[(indexKind(d.fkind)+1)%len(c16FloatKinds)]
		out = append(out, c)
	case "ptr":
		c := cp()
		c.n++
		out = append(out, c)
	case "vec":
		c := cp()
		c.n++
		out = append(out, c)
		c = cp()
		c.flag = !c.flag
		out = append(out, c)
		a := &tdesc{kind: "arr", n: d.n, elems: d.elems}
		out = append(out, a)
	case "arr":
		c := cp()
		c.n++
		out = append(out, c)
	case "struct":
		c := cp()
		c.flag = !c.flag
		out = append(out, c)
		c = cp()
		c.elems = append(c.elems, &tdesc{kind: "int", n: 8})
		out = append(out, c)
		if len(d.elems) > 0 {
			c = cp()
			c.elems = c.elems[:len(c.elems)-1]
			out = append(out, c)
		}
		if len(d.elems) > 1 && d.elems[0].key() != d.elems[1].key() {
			c = cp()
			c.elems[0], c.elems[1] = c.elems[1], c.elems[0]
			out = append(out, c)
		}
	case "func":
		c := cp()
		c.flag = !c.flag
		out = append(out, c)
		c = cp()
		c.elems = append(c.elems, &tdesc{kind: "int", n: 8})
		out = append(out, c)
		c = cp()
		if d.elems[0].kind == "void" {
			c.elems[0] = &tdesc{kind: "int", n: 32}
		} else {
			c.elems[0] = &tdesc{kind: "void"}
		}
		out = append(out, c)
	case "named":
		if len(g.u.names) > 1 {
			c := cp()
			c.named = (c.named + 1) % len(g.u.names)
			out = append(out, c)
		}
	}
	// one child replaced by one of its neighbours
	for i, e := range d.elems {
		if d.kind == "func" && i == 0 {
			continue
		}
		for _, ne := range g.neighbours(e) {
			if d.kind == "vec" && !(ne.kind == "int" || ne.kind == "float" || ne.kind == "ptr") {
				continue
			}
			c := cp()
			c.elems[i] = ne
			out = append(out, c)
			break
		}
	}
	return out
}

func indexKind(k types.FloatKind) int {
	for i, x := range c16FloatKinds {
		if x == k {
			return i
		}
	}
	return 0
}

func genC16(ctx *fw.Ctx) []fw.Case {
	n := ctx.Pick(200, 20000)
	var cases []fw.Case
	for i := 0; i < n; i++ {
		i := i
		cases = append(cases, fw.Case{ID: fmt.Sprintf("universe/%d", i), Run: func(r *fw.Rec) { c16Universe(r, i) }})
	}
	cases = append(cases, fw.Case{ID: "number-spellings", Run: c16NumberSpellings})
	for _, s := range append(baseSources(), corpus.ClangSources(ctx.Thorough())...) {
		s := s
		cases = append(cases, fw.Case{ID: "corpus/" + s.ID, Run: func(r *fw.Rec) { c16Corpus(r, s) }})
	}
	cases = append(cases, fw.Case{ID: "edit-after-query", Run: c16EditAfterQuery})
	return cases
}

func c16MakeUniverse(rng *rand.Rand, big bool) (*tuniverse, []*tdesc) {
	u := &tuniverse{}
	nn := 3 + rng.Intn(6)
	namePool := []string{"A", "B", "list", "struct.S", "struct.S.0", "0", "1", "T", "node", "a b", "x\"q", "union.U", "class.C", "10", "2"}
	rng.Shuffle(len(namePool), func(i, j int) { namePool[i], namePool[j] = namePool[j], namePool[i] })
	u.names = namePool[:nn]
	u.bodies = make([][]*tdesc, nn)
	u.packed = make([]bool, nn)
	u.opaque = make([]bool, nn)
	g := &c16gen{rng: rng, u: u}
	for i := 0; i < nn; i++ {
		switch rng.Intn(6) {
		case 0:
			u.opaque[i] = true
		case 1:
			// empty body
		default:
			nf := 1 + rng.Intn(3)
			for k := 0; k < nf; k++ {
				// fields: recursion only behind pointers (ptr() may refer to any named struct)
				f := g.sized(2)
				u.bodies[i] = append(u.bodies[i], f)
			}
			u.packed[i] = rng.Intn(4) == 0
		}
	}
	// a struct directly containing a not-yet-complete named struct by value could be
	// infinitely sized; LLVM would reject it but Equal must still terminate (names cut
	// the recursion), so such universes are kept.
	var ds []*tdesc
	seen := map[string]bool{}
	add := func(d *tdesc) {
		k := d.key()
		if !seen[k] {
			seen[k] = true
			ds = append(ds, d)
		}
	}
	for i := range u.names {
		add(&tdesc{kind: "named", named: i, universe: u})
	}
	for _, k := range []string{"void", "label", "token", "metadata", "mmx"} {
		add(&tdesc{kind: k})
	}
	for _, w := range []uint64{1, 8, 32, 64} {
		add(&tdesc{kind: "int", n: w})
	}
	for _, fk := range c16FloatKinds {
		add(&tdesc{kind: "float", fkind: fk})
	}
	target := 40
	if big {
		target = 110
	}
	for len(ds) < target {
		var d *tdesc
		if rng.Intn(4) == 0 {
			d = g.fn(2)
		} else {
			d = g.sized(3)
		}
		add(d)
		for _, nb := range g.neighbours(d) {
			if len(ds) < target+30 {
				add(nb)
			}
		}
	}
	return u, ds
}

func c16Universe(r *fw.Rec, idx int) {
	rng := r.Ctx().Rand(fmt.Sprintf("universe/%d", idx))
	u, ds := c16MakeUniverse(rng, idx%5 == 4)
	g := &c16gen{rng: rng, u: u}
	namedA, namedB := u.build(), u.build()
	n := len(ds)
	A := make([]types.Type, n)
	B := make([]types.Type, n)
	keys := make([]string, n)
	for i, d := range ds {
		A[i] = d.build(namedA)
		B[i] = d.build(namedB)
		keys[i] = d.key()
	}
	describe := func(i int) string { return fmt.Sprintf("%s [%s]", A[i].String(), keys[i]) }
	E := make([][]bool, n)
	for i := 0; i < n; i++ {
		E[i] = make([]bool, n)
		if !types.Equal(A[i], A[i]) {
			r.Violate(fw.Violation{Key: "reflexive/" + keys[i], What: "Equal(t,t) is false for " + describe(i)})
		}
		for j := 0; j < n; j++ {
			e := types.Equal(A[i], B[j])
			E[i][j] = e
			want := keys[i] == keys[j]
			if e != want {
				r.Violate(fw.Violation{Key: fmt.Sprintf("identity/%s/%s", kindPair(ds[i], ds[j]), fw.ShortHash(keys[i]+"|"+keys[j])),
					What:     fmt.Sprintf("Equal(%s, %s) = %v, reference identity says %v", describe(i), describe(j), e, want),
					Expected: fmt.Sprint(want), Observed: fmt.Sprint(e), Input: universeText(u, ds)})
			}
			if rev := types.Equal(B[j], A[i]); rev != e {
				r.Violate(fw.Violation{Key: fmt.Sprintf("symmetry/%s/%s", kindPair(ds[i], ds[j]), fw.ShortHash(keys[i]+"|"+keys[j])),
					What: fmt.Sprintf("Equal(%s, %s) = %v but the reverse is %v", describe(i), describe(j), e, rev), Input: universeText(u, ds)})
			}
			r.Tally("pair_kinds", ds[i].kind+"~"+ds[j].kind)
		}
	}
	r.Eval(n * n)
	r.NontrivialN(fmt.Sprintf("pairs/u%d", idx), n*n)
	// transitivity on the Equal matrix itself
	triples := 0
	for i := 0; i < n; i++ {
		for j := 0; j < n; j++ {
			if !E[i][j] {
				continue
			}
			for k := 0; k < n; k++ {
				triples++
				if E[j][k] && !E[i][k] {
					r.Violate(fw.Violation{Key: "transitivity/" + fw.ShortHash(keys[i]+keys[j]+keys[k]),
						What: fmt.Sprintf("Equal(%s,%s) and Equal(%s,%s) but not Equal(%s,%s)", describe(i), describe(j), describe(j), describe(k), describe(i), describe(k))})
				}
			}
		}
	}
	r.TallyN("checks", "triples", triples)
	// explicit neighbours of every type
	nb := 0
	for i, d := range ds {
		for _, x := range g.neighbours(d) {
			if x.key() == keys[i] {
				continue
			}
			nb++
			t := x.build(namedB)
			if types.Equal(A[i], t) || types.Equal(t, A[i]) {
				r.Violate(fw.Violation{Key: fmt.Sprintf("neighbour/%s/%s", d.kind, fw.ShortHash(keys[i]+"|"+x.key())),
					What: fmt.Sprintf("types differing in one attribute compare equal: %s vs %s [%s]", describe(i), t.String(), x.key())})
			}
		}
	}
	r.Eval(nb)
	r.TallyN("checks", "one_attribute_neighbours", nb)
	// print -> parse -> Equal
	c16ParseBack(r, u, ds, A, keys)
	if idx < 3 {
		r.Sample(map[string]interface{}{"universe": idx, "types": n, "identified": u.names, "example": describe(n - 1)})
	}
}

func kindPair(a, b *tdesc) string { return a.kind + "~" + b.kind }

func universeText(u *tuniverse, ds []*tdesc) string {
	named := u.build()
	var sb strings.Builder
	for _, s := range named {
		fmt.Fprintf(&sb, "%s = type %s\n", s.String(), s.LLString())
	}
	return sb.String()
}

// c16ParseBack prints the universe inside a module, parses it and compares the
// parsed types with the constructed ones.
func c16ParseBack(r *fw.Rec, u *tuniverse, ds []*tdesc, A []types.Type, keys []string) {
	named := u.build()
	m := ir.NewModule()
	for _, s := range named {
		m.TypeDefs = append(m.TypeDefs, s)
	}
	type slot struct {
		how string
		idx int
	}
	var slots []slot
	for i, d := range ds {
		t := d.build(named)
		switch d.kind {
		case "void":
			m.NewFunc(fmt.Sprintf("f%d", i), t)
			slots = append(slots, slot{"ret", i})
		case "func":
			g := m.NewGlobal(fmt.Sprintf("g%d", i), types.NewPointer(t))
			g.Linkage = enum.LinkageExternal // a bare NewGlobal prints without "external" (C03's business)
			slots = append(slots, slot{"gptr", i})
		default:
			m.NewFunc(fmt.Sprintf("f%d", i), &types.VoidType{}, ir.NewParam("", t))
			slots = append(slots, slot{"param", i})
		}
	}
	text, pp := printGuard(m)
	if pp != "" {
		r.Inconclusive("printing the universe module panics (reported under C03): " + firstLine(pp))
		return
	}
	// the same types with their numbers (array and vector lengths, address
	// spaces) spelled as u0x hexadecimal literals, which LLVM reads alike
	// (LLVM's reading of such numbers is established on a probe declaration: the
	// universe itself holds types LLVM has no use for, e.g. label parameters)
	if out, _, ok, err := llvmref.Reading("declare void @f([u0x10 x i8], <u0x4 x i32>, i8 addrspace(u0x2)*, <vscale x u0x2 x i8>)\n"); err == nil && ok &&
		strings.Contains(out, "declare void @f([16 x i8], <4 x i32>, i8 addrspace(2)*, <vscale x 2 x i8>)") {
		if hexText := c16HexNumbers(text, r.Ctx().Rand("c16hex")); hexText != text {
			text = hexText
			r.Tally("parse-back", "type numbers respelled in hexadecimal")
		}
	}
	m2, perr, pmsg := parseGuard("c16", text)
	if pmsg != "" || perr != nil {
		what := pmsg
		if perr != nil {
			what = perr.Error()
		}
		r.Inconclusive("universe module not accepted by the parser (reported under C03/C11): " + firstLine(what))
		ln := 0
		fmt.Sscanf(what[strings.LastIndex(what, "line ")+5:], "%d", &ln)
		lines := strings.Split(text, "\n")
		if ln > 0 && ln <= len(lines) {
			r.Note("universe not re-parsed: " + firstLine(what) + ": " + lines[ln-1])
		}
		return
	}
	fn := map[string]*ir.Func{}
	for _, f := range m2.Funcs {
		fn[f.GlobalName] = f
	}
	gl := map[string]*ir.Global{}
	for _, g := range m2.Globals {
		gl[g.GlobalName] = g
	}
	P := make([]types.Type, len(ds))
	for _, s := range slots {
		i := s.idx
		switch s.how {
		case "ret":
			if f := fn[fmt.Sprintf("f%d", i)]; f != nil {
				P[i] = f.Sig.RetType
			}
		case "gptr":
			if g := gl[fmt.Sprintf("g%d", i)]; g != nil {
				if p, ok := g.ContentType.(*types.PointerType); ok {
					P[i] = p.ElemType
				}
			}
		case "param":
			if f := fn[fmt.Sprintf("f%d", i)]; f != nil && len(f.Params) == 1 {
				P[i] = f.Params[0].Typ
			}
		}
	}
	cnt := 0
	for i := range ds {
		if P[i] == nil {
			r.Inconclusive("type slot not found after re-parse")
			continue
		}
		cnt++
		if !types.Equal(A[i], P[i]) || !types.Equal(P[i], A[i]) {
			r.Violate(fw.Violation{Key: "parse-back/" + ds[i].kind + "/" + fw.ShortHash(keys[i]), Input: text,
				What: fmt.Sprintf("type %s [%s] is not Equal to its printed-and-parsed form %s", A[i], keys[i], P[i])})
		}
		// and against every other constructed type
		for j := range ds {
			if P[j] == nil {
				continue
			}
			if e, want := types.Equal(P[i], A[j]), keys[i] == keys[j]; e != want {
				r.Violate(fw.Violation{Key: "parse-back-identity/" + kindPair(ds[i], ds[j]) + "/" + fw.ShortHash(keys[i]+"|"+keys[j]), Input: text,
					What: fmt.Sprintf("Equal(parsed %s, constructed %s) = %v, reference identity says %v", P[i], A[j], e, want)})
			}
		}
	}
	r.Eval(cnt * len(ds))
	r.TallyN("checks", "parsed_vs_constructed_pairs", cnt*len(ds))
}

var reTypeNumber = regexp.MustCompile(`(\[|<|<vscale x |addrspace\()([0-9]+)( x |\))`)

// c16HexNumbers respells a PRNG half of the array lengths, vector lengths and
// address spaces of a module text as u0x literals.
func c16HexNumbers(text string, rng *rand.Rand) string {
	return reTypeNumber.ReplaceAllStringFunc(text, func(tok string) string {
		m := reTypeNumber.FindStringSubmatch(tok)
		n, err := strconv.ParseUint(m[2], 10, 64)
		if err != nil || rng.Intn(2) == 0 {
			return tok
		}
		return fmt.Sprintf("%su0x%X%s", m[1], n, m[3])
	})
}

// c16NumberSpellings: the numbers inside types (array length, vector length,
// address space) in every spelling LLVM reads (decimal, zero-padded decimal,
// u0x upper/lower case) must give the type LLVM reads: equal to the type built
// from the number, and unequal to the types of the neighbouring numbers.
func c16NumberSpellings(r *fw.Rec) {
	nums := []uint64{0, 1, 7, 8, 9, 10, 15, 16, 17, 31, 32, 64, 77, 99, 100, 255, 256, 4096, 65535, 65536, 65537, 1 << 20, 1<<24 - 1, 1 << 31, 1<<32 + 1, 1<<63 - 1, 1 << 63, 1<<64 - 1}
	spell := func(n uint64) []string {
		return []string{fmt.Sprint(n), fmt.Sprintf("0%d", n), fmt.Sprintf("u0x%X", n), fmt.Sprintf("u0x%x", n), fmt.Sprintf("u0x0%X", n)}
	}
	type probe struct {
		text string
		want types.Type
		n    uint64
		kind string
	}
	var probes []probe
	for _, n := range nums {
		for _, sp := range spell(n) {
			probes = append(probes, probe{fmt.Sprintf("[%s x i8]", sp), types.NewArray(n, types.I8), n, "arr"})
			if n > 0 && n <= 4096 {
				probes = append(probes, probe{fmt.Sprintf("<%s x i8>", sp), types.NewVector(n, types.I8), n, "vec"})
				sv := types.NewVector(n, types.I8)
				sv.Scalable = true
				probes = append(probes, probe{fmt.Sprintf("<vscale x %s x i8>", sp), sv, n, "svec"})
			}
			if n > 0 && n <= 1<<20 && !strings.HasPrefix(sp, "u0x") {
				// integer widths are read in decimal only (i010 is i10)
				probes = append(probes, probe{"i" + sp, types.NewInt(n), n, "int"})
				probes = append(probes, probe{fmt.Sprintf("[2 x i%s]", sp), types.NewArray(2, types.NewInt(n)), n, "intarr"})
			}
			if n < 1<<24 {
				// (LLVM's address spaces have 24 bits)
				pt := types.NewPointer(types.I8)
				pt.AddrSpace = types.AddrSpace(n)
				probes = append(probes, probe{fmt.Sprintf("i8 addrspace(%s)*", sp), pt, n, "ptr"})
			}
		}
	}
	var sb strings.Builder
	for i, p := range probes {
		fmt.Fprintf(&sb, "declare void @f%d(%s)\n", i, p.text)
	}
	text := sb.String()
	lout, _, ok, err := llvmref.Reading(text)
	if err != nil || !ok {
		r.Inconclusive("LLVM does not accept the number-spelling probes")
		return
	}
	llvmType := map[string]string{}
	for _, l := range strings.Split(lout, "\n") {
		if strings.HasPrefix(l, "declare void @f") {
			name := l[len("declare void @"):strings.Index(l, "(")]
			llvmType[name] = l[strings.Index(l, "(")+1 : strings.LastIndex(l, ")")]
		}
	}
	m, perr, pmsg := parseGuard("c16-numbers", text)
	if pmsg != "" || perr != nil {
		what := pmsg
		if perr != nil {
			what = perr.Error()
		}
		r.Violate(fw.Violation{Key: "number-spelling-rejected", Input: text, What: "types with numbers in a spelling LLVM reads are rejected: " + firstLine(what)})
		return
	}
	got := map[string]types.Type{}
	for _, f := range m.Funcs {
		if len(f.Params) == 1 {
			got[f.GlobalName] = f.Params[0].Typ
		}
	}
	for i, p := range probes {
		name := fmt.Sprintf("f%d", i)
		t := got[name]
		r.Eval(1)
		if t == nil {
			continue
		}
		// the expected spelling is written by the monitor from the number itself
		// (not through the library's types, which the change under test may affect)
		wantStr := ""
		switch p.kind {
		case "arr":
			wantStr = fmt.Sprintf("[%d x i8]", p.n)
		case "vec":
			wantStr = fmt.Sprintf("<%d x i8>", p.n)
		case "svec":
			wantStr = fmt.Sprintf("<vscale x %d x i8>", p.n)
		case "int":
			wantStr = fmt.Sprintf("i%d", p.n)
		case "intarr":
			wantStr = fmt.Sprintf("[2 x i%d]", p.n)
		case "ptr":
			wantStr = fmt.Sprintf("i8 addrspace(%d)*", p.n)
			if p.n == 0 {
				wantStr = "i8*"
			}
		}
		if llvmType[name] != wantStr {
			r.Inconclusive("LLVM reads a probe differently from the monitor's expectation (model at fault): " + p.text)
			continue
		}
		if !t.Equal(p.want) || !p.want.Equal(t) || t.String() != wantStr || p.want.String() != wantStr {
			r.Violate(fw.Violation{Key: "number-spelling/" + p.kind, Input: "declare void @f(" + p.text + ")",
				What: fmt.Sprintf("the type written `%s` (LLVM: %s) is parsed as %s, which is not equal to %s", p.text, llvmType[name], t, p.want)})
			continue
		}
		r.Nontrivial("number-spelling:" + p.text)
	}
}

// c16EditAfterQuery: types are mutable objects (a struct gets its name or its
// body after it was created, a signature becomes variadic); equality and
// spelling of the types built on them must follow the edit, also when they were
// queried before it (nothing derived from a type may be remembered across an
// edit of its components).
func c16EditAfterQuery(r *fw.Rec) {
	wrap := []struct {
		name string
		mk   func(t types.Type) types.Type
	}{
		{"ptr", func(t types.Type) types.Type { return types.NewPointer(t) }},
		{"ptr-ptr", func(t types.Type) types.Type { return types.NewPointer(types.NewPointer(t)) }},
		{"arr-of-ptr", func(t types.Type) types.Type { return types.NewArray(2, types.NewPointer(t)) }},
		{"func-returning-ptr", func(t types.Type) types.Type { return types.NewFunc(types.NewPointer(t), types.I32) }},
		{"struct-with-ptr", func(t types.Type) types.Type { return types.NewStruct(types.I8, types.NewPointer(t)) }},
		{"vec-of-ptr", func(t types.Type) types.Type { return types.NewVector(2, types.NewPointer(t)) }},
	}
	type edit struct {
		name  string
		fresh func() types.Type  // the component before the edit
		apply func(t types.Type) // the edit, in place
		after func() types.Type  // a component built directly in the edited shape (nil: identity only)
		named bool               // the edit gives the component a name (then it equals only itself)
	}
	edits := []edit{
		{"name-a-struct", func() types.Type { return types.NewStruct(types.I32) }, func(t types.Type) { t.(*types.StructType).SetName("S") }, nil, true},
		{"append-a-field", func() types.Type { return types.NewStruct(types.I32) }, func(t types.Type) { st := t.(*types.StructType); st.Fields = append(st.Fields, types.I8) },
			func() types.Type { return types.NewStruct(types.I32, types.I8) }, false},
		{"make-variadic", func() types.Type { return types.NewFunc(types.Void, types.I32) }, func(t types.Type) { t.(*types.FuncType).Variadic = true },
			func() types.Type { f := types.NewFunc(types.Void, types.I32); f.Variadic = true; return f }, false},
		{"pack-a-struct", func() types.Type { return types.NewStruct(types.I32, types.I8) }, func(t types.Type) { t.(*types.StructType).Packed = true },
			func() types.Type { s := types.NewStruct(types.I32, types.I8); s.Packed = true; return s }, false},
		{"change-array-length", func() types.Type { return types.NewArray(2, types.I8) }, func(t types.Type) { t.(*types.ArrayType).Len = 3 },
			func() types.Type { return types.NewArray(3, types.I8) }, false},
	}
	for _, e := range edits {
		for _, w := range wrap {
			for _, query := range []bool{false, true} {
				comp := e.fresh()
				outer := w.mk(comp)
				before := w.mk(e.fresh())
				if query {
					// the observations an earlier print or comparison would make
					_ = outer.String()
					_ = outer.LLString()
					_ = outer.Equal(before)
					_ = types.Equal(before, outer)
				}
				e.apply(comp)
				r.Eval(1)
				tag := fmt.Sprintf("%s/%s/query=%v", e.name, w.name, query)
				sameComp := w.mk(comp)
				fail := func(what string) {
					r.Violate(fw.Violation{Key: "edit-after-query/" + e.name + "/" + w.name, Input: tag, What: what})
				}
				if !outer.Equal(sameComp) || !sameComp.Equal(outer) {
					fail(fmt.Sprintf("after the edit, %s (built before the edit%s) is not equal to the same construction over the same, edited component (%s)", outer, map[bool]string{true: " and queried", false: ""}[query], sameComp))
					continue
				}
				if outer.String() != sameComp.String() {
					fail(fmt.Sprintf("after the edit, the type built before it%s is spelled %s, the same construction built now is spelled %s", map[bool]string{true: " and queried", false: ""}[query], outer, sameComp))
					continue
				}
				if outer.Equal(before) || before.Equal(outer) {
					fail(fmt.Sprintf("after the edit, %s still equals the construction over the unedited component (%s)", outer, before))
					continue
				}
				if e.after != nil {
					if direct := w.mk(e.after()); !outer.Equal(direct) || !direct.Equal(outer) {
						fail(fmt.Sprintf("after the edit, %s is not equal to %s built directly in the edited shape", outer, direct))
						continue
					}
				}
				r.Nontrivial("edit-after-query:" + tag)
			}
		}
	}
}

// c16RefKey is the reference identity of a type object, written without using
// Equal or String: identified structs by name, everything else by structure; the
// name of a non-struct type is an alias and takes no part.
func c16RefKey(t types.Type, depth int) string {
	if depth > 60 {
		return "<deep>"
	}
	switch t := t.(type) {
	case *types.VoidType:
		return "void"
	case *types.LabelType:
		return "label"
	case *types.TokenType:
		return "token"
	case *types.MetadataType:
		return "metadata"
	case *types.MMXType:
		return "mmx"
	case *types.IntType:
		return fmt.Sprintf("i%d", t.BitSize)
	case *types.FloatType:
		return fmt.Sprintf("f%d", int(t.Kind))
	case *types.PointerType:
		return fmt.Sprintf("p%d(%s)", uint64(t.AddrSpace), c16RefKey(t.ElemType, depth+1))
	case *types.VectorType:
		return fmt.Sprintf("v%v,%d(%s)", t.Scalable, t.Len, c16RefKey(t.ElemType, depth+1))
	case *types.ArrayType:
		return fmt.Sprintf("a%d(%s)", t.Len, c16RefKey(t.ElemType, depth+1))
	case *types.StructType:
		if t.TypeName != "" {
			return "named(" + t.TypeName + ")"
		}
		if t.Opaque {
			return "opaque-literal"
		}
		k := fmt.Sprintf("s%v(", t.Packed)
		for _, f := range t.Fields {
			k += c16RefKey(f, depth+1) + ";"
		}
		return k + ")"
	case *types.FuncType:
		k := fmt.Sprintf("fn%v(%s:", t.Variadic, c16RefKey(t.RetType, depth+1))
		for _, p := range t.Params {
			k += c16RefKey(p, depth+1) + ";"
		}
		return k + ")"
	}
	return fmt.Sprintf("?%T", t)
}

// c16Corpus takes the type objects of a parsed corpus module (and of a second,
// independent parse of the same text) as a universe: Equal on every pair must
// agree with the reference identity, in both directions, within a parse and
// across the two parses.
func c16Corpus(r *fw.Rec, s corpus.Source) {
	text, err := s.Text()
	if err != nil {
		r.Inconclusive("source unavailable")
		return
	}
	m1, perr, pmsg := parseGuard(s.ID, text)
	if pmsg != "" || perr != nil || m1 == nil {
		r.Tally("corpus", "not-accepted")
		return
	}
	m2, _, _ := parseGuard(s.ID, text)
	if m2 == nil {
		return
	}
	sample := func(ts []types.Type, n int) []types.Type {
		if len(ts) <= n {
			return ts
		}
		// all type definitions first, then an even sample of the rest
		out := append([]types.Type(nil), ts[:n/2]...)
		rest := ts[n/2:]
		for i := 0; i < n-n/2; i++ {
			out = append(out, rest[i*len(rest)/(n-n/2)])
		}
		return out
	}
	limit := r.Ctx().Pick(120, 400)
	A := sample(graph.CollectTypes(m1), limit)
	B := sample(graph.CollectTypes(m2), limit)
	if len(A) < 2 {
		return
	}
	ka := make([]string, len(A))
	for i, t := range A {
		ka[i] = c16RefKey(t, 0)
	}
	kb := make([]string, len(B))
	for i, t := range B {
		kb[i] = c16RefKey(t, 0)
	}
	pairs := 0
	check := func(x, y types.Type, kx, ky, how string) bool {
		var e1, e2 bool
		if p, msg, _ := fw.Guard(func() { e1, e2 = x.Equal(y), y.Equal(x) }); p {
			r.Violate(fw.Violation{Key: "corpus-equal-panics/" + s.ID, Input: text, What: "Equal panics on two types of " + s.ID + ": " + firstLine(msg)})
			return false
		}
		pairs++
		want := kx == ky
		if e1 != want || e2 != want {
			r.Violate(fw.Violation{Key: "corpus-identity/" + how + "/" + s.ID, Input: text,
				What: fmt.Sprintf("types of %s (%s): Equal(%s, %s) = %v and %v the other way round, reference identity says %v (%s vs %s)", s.ID, how, x, y, e1, e2, want, fw.Trunc(kx, 120), fw.Trunc(ky, 120))})
			return false
		}
		return true
	}
	for i := range A {
		for j := i; j < len(A); j++ {
			if !check(A[i], A[j], ka[i], ka[j], "one-parse") {
				return
			}
		}
	}
	for i := range A {
		for j := range B {
			if !check(A[i], B[j], ka[i], kb[j], "two-parses") {
				return
			}
		}
	}
	// Equal(t, parse(print t)) for the type definitions: the printed module parsed
	// again must define, for every definition of the first parse, a type equal to
	// it (both ways round) under the same reference identity
	if y, pp := printGuard(m1); pp == "" {
		if m3, e3, p3 := parseGuard(s.ID, y); e3 == nil && p3 == "" && m3 != nil {
			byKey := map[string]types.Type{}
			for _, t := range m3.TypeDefs {
				byKey[c16RefKey(t, 0)] = t
			}
			for _, t := range m1.TypeDefs {
				k := c16RefKey(t, 0)
				back, ok := byKey[k]
				if !ok {
					r.Violate(fw.Violation{Key: "corpus-parse-back/definition-lost/" + s.ID, Input: text, What: fmt.Sprintf("the type definition %s (%s) has no counterpart of the same identity after print and parse", t, fw.Trunc(k, 120)), Observed: y})
					return
				}
				if !check(t, back, k, c16RefKey(back, 0), "parse-back") {
					return
				}
			}
			r.TallyN("corpus", "type-definitions-parsed-back", len(m1.TypeDefs))
		}
	}
	r.Eval(pairs)
	distinct := map[string]bool{}
	for _, k := range ka {
		distinct[k] = true
	}
	if len(distinct) >= 3 {
		r.NontrivialN("corpus/"+s.ID, len(distinct))
	}
	r.TallyN("corpus", "type-objects", len(A)+len(B))
	r.TallyN("corpus", "pairs", pairs)
}
