package props

import (
	"fmt"
	"regexp"
	"sort"
	"strings"

	"github.com/llir/llvm/ir"
	"github.com/llir/llvm/ir/constant"
	"github.com/llir/llvm/ir/types"

	"verif/internal/corpus"
	"verif/internal/fw"
	"verif/internal/graph"
)

func init() {
	fw.Register(&fw.Check{
		ID:    "C04",
		Level: "exploration",
		Rule: "for every accepted input (atom catalogue, /repo testdata, llvm-stress, generated modules in reference-torture mode, and their shuffled variants) the object graph returned by asm.ParseString is walked by reflection: every reachable global/function/alias/ifunc must be an element of the module's lists, every param/block/instruction/terminator an object of the enclosing function, every blockaddress block a listed block of the named function, every named type the TypeDefs entry of that name, every comdat/attribute group/numbered metadata node the listed definition; Parent links must agree with containment; the blockaddress(@f, %b) tokens of the printed module must be the multiset of those of the input (a block address bound to another block of the right function is a binding fault). " +
			"non-trivial = a module in which at least one reference slot was checked; distinct by digest of the input",
		Gen:           genC04,
		MinNontrivial: 100,
		Assumptions:   []string{"the census sees what is reachable through exported fields", "binding to a *different* definition of the right kind is detected where the generator's side table names the intended definition (mgen inputs), otherwise through C01's canonical comparison"},
		Exhaustive:    func(string) bool { return false },
	})
}

func genC04(ctx *fw.Ctx) []fw.Case {
	var cases []fw.Case
	srcs := inputSources(ctx, 120, 2000)
	srcs = append(srcs, tortureSources(ctx, ctx.Pick(200, 40000))...)
	for _, s := range srcs {
		s := s
		cases = append(cases, fw.Case{ID: s.ID, Run: func(r *fw.Rec) { c04Source(r, s) }})
	}
	return cases
}

func c04Source(r *fw.Rec, s corpus.Source) {
	text, err := s.Text()
	if err != nil {
		r.Inconclusive("source unavailable: " + firstLine(err.Error()))
		return
	}
	c04One(r, s.ID, text)
	rng := r.Ctx().Rand("shuffle/" + s.ID)
	for i := 0; i < 2; i++ {
		if t, ok := respellShuffle(text, rng); ok {
			c04One(r, s.ID+"/shuffled", t)
		}
	}
}

func c04One(r *fw.Rec, id, x string) {
	r.Eval(1)
	m, perr, pmsg := parseGuard(id, x)
	if pmsg != "" || perr != nil || m == nil {
		r.Tally("inputs", "not-accepted")
		return
	}
	r.Tally("inputs", "accepted")
	var c *graph.Census
	if p, msg, _ := fw.Guard(func() { c = graph.CheckIdentity(m) }); p {
		r.Inconclusive("census walker failed (harness): " + firstLine(msg))
		return
	}
	total := 0
	for k, n := range c.Refs {
		r.TallyN("reference_slots", k, n)
		total += n
	}
	for _, p := range c.Problems {
		cls := p
		if i := strings.Index(p, ":"); i > 0 {
			cls = p[:i]
		}
		r.Violate(fw.Violation{Key: "identity/" + id + "/" + classify(cls), Input: x, What: p})
	}
	// the lists of the module (operands, incoming values, cases, fields) have
	// storage of their own: none reaches into another behind its end
	if what := overlappingSlices(m); what != "" {
		r.Violate(fw.Violation{Key: "identity/" + id + "/lists-share-storage", Input: x, What: what})
	}
	// binding: a blockaddress must name, when printed, the block the text named
	// (being *a* block of the function is not enough)
	if strings.Contains(x, "blockaddress(") && len(c.Problems) == 0 {
		if y, pp := printGuard(m); pp == "" {
			bx, by := blockAddressTokens(x), blockAddressTokens(y)
			if len(bx) > 0 {
				r.TallyN("reference_slots", "binding.blockaddress-tokens", len(bx))
			}
			if strings.Join(bx, " ") != strings.Join(by, " ") {
				first := ""
				seen := map[string]int{}
				for _, t := range bx {
					seen[t]++
				}
				for _, t := range by {
					seen[t]--
				}
				for _, t := range by {
					if seen[t] < 0 {
						first = t
						break
					}
				}
				r.Violate(fw.Violation{Key: "binding/" + id + "/blockaddress", Input: x,
					What: fmt.Sprintf("the parsed module prints %s, which the input does not contain: a blockaddress is bound to another block than the one named (input: %s)", first, fw.Trunc(strings.Join(uniq(bx), " "), 400)), Observed: y})
			}
		}
	}
	// binding of metadata references: every `!N` of the text is one edge to the
	// object listed as !N (a copy, or another node, is a binding fault)
	if len(c.Problems) == 0 {
		if key, what := c17RefConservation(x, m); key != "" {
			r.Violate(fw.Violation{Key: "binding/" + id + "/metadata-" + key, Input: x, What: what})
		}
	}
	// a type name written in front of a string or empty array constant of a global
	// initializer (`%S c"abc"`, `%A []`): the constant's type is the object the
	// module lists as the definition of that name, as for every other constant
	if len(c.Problems) == 0 {
		if name, want, got := c04TypedArrayConstants(x, m); name != "" {
			r.Violate(fw.Violation{Key: "binding/" + id + "/type-name-in-front-of-array-constant", Input: x,
				What: fmt.Sprintf("the input types %d string or empty array constants of global initializers with the name %%%s; %d such constants of the parsed module have the listed definition of %%%s as their type object (the others got a type object made for them)", want, name, got, name)})
		}
	}
	// binding of type names: in type definitions and global definitions (lines
	// starting with % or @, and declarations) every named type is spelled as
	// often in the printed module as in the input; a use resolved to the
	// definition of another name changes the counts. Modules with type aliases
	// (printed under the name of their target) are left out.
	if len(c.Problems) == 0 && !reTypeAlias.MatchString(x) {
		if y, pp := printGuard(m); pp == "" {
			tx, ty := typeNameTokens(x), typeNameTokens(y)
			for name, n := range tx {
				if ty[name] != n {
					r.Violate(fw.Violation{Key: "binding/" + id + "/type-name", Input: x,
						What: fmt.Sprintf("the type %%%s is named %d times in the type, global and declaration lines of the input and %d times in the printed module: a use is bound to another definition", name, n, ty[name]), Observed: y})
					break
				}
			}
			if len(tx) > 0 {
				r.TallyN("reference_slots", "binding.type-name-tokens", len(tx))
			}
		}
	}
	// binding of global names: every named global, function, alias and ifunc is
	// spelled as often in the printed module as in the input; a use resolved to
	// another definition (the function behind an alias, a global of a similar
	// name) changes the counts although every object is listed in the module
	if len(c.Problems) == 0 {
		if y, pp := printGuard(m); pp == "" {
			gx, gy := globalNameTokens(x), globalNameTokens(y)
			names := map[string]bool{}
			for n := range gx {
				names[n] = true
			}
			for n := range gy {
				names[n] = true
			}
			for _, n := range fw.SortedKeys(names) {
				if gx[n] != gy[n] {
					r.Violate(fw.Violation{Key: "binding/" + id + "/global-name", Input: x,
						What: fmt.Sprintf("@%s is written %d times in the input and %d times in the printed module: a use is bound to another definition", n, gx[n], gy[n]), Observed: y})
					break
				}
			}
			r.TallyN("reference_slots", "binding.global-name-tokens", len(gx))
		}
	}
	// binding of locals inside function bodies: LLVM-valid input numbers its
	// unnamed values the way the printer does, so every local (named or numbered)
	// is written as often in the body lines of the printed module as in those of
	// the input; a use bound to a neighbour of the same type changes the counts.
	// Only for inputs LLVM's own printer accepts unchanged in this respect: no
	// quoted or escaped local names, no type names used inside bodies.
	if len(c.Problems) == 0 {
		if y, pp := printGuard(m); pp == "" {
			lx, okx := localTokensInBodies(x)
			ly, oky := localTokensInBodies(y)
			if okx && oky && len(lx) > 0 {
				names := map[string]bool{}
				for n := range lx {
					names[n] = true
				}
				for n := range ly {
					names[n] = true
				}
				for _, n := range fw.SortedKeys(names) {
					if lx[n] != ly[n] {
						r.Violate(fw.Violation{Key: "binding/" + id + "/local-name", Input: x,
							What: fmt.Sprintf("%s is written %d times in the function bodies of the input and %d times in those of the printed module: a use is bound to another value of the function", n, lx[n], ly[n]), Observed: y})
						break
					}
				}
				r.TallyN("reference_slots", "binding.local-tokens-per-function", len(lx))
			}
		}
	}
	if total > 0 {
		r.Nontrivial(x)
	}
	if len(c.Problems) == 0 && total > 20 {
		r.Sample(map[string]interface{}{"input": id, "reference_slots_checked": total})
	}
}

var reBlockAddr = regexp.MustCompile(`blockaddress\((@[^,()]+), (%[^()]+)\)`)

// blockAddressTokens returns the sorted blockaddress(@f, %b) tokens of a
// module text outside comments, with redundant quotes of plain names removed.
func blockAddressTokens(text string) []string {
	var out []string
	unq := func(s string) string {
		if len(s) > 3 && s[1] == '"' && s[len(s)-1] == '"' {
			inner := s[2 : len(s)-1]
			plain := inner != ""
			for i := 0; i < len(inner); i++ {
				c := inner[i]
				if !(c >= 'a' && c <= 'z' || c >= 'A' && c <= 'Z' || c == '.' || c == '_' || c == '$' || c == '-' || (i > 0 && c >= '0' && c <= '9')) {
					plain = false
				}
			}
			if plain {
				return s[:1] + inner
			}
		}
		return s
	}
	for _, line := range strings.Split(text, "\n") {
		if i := strings.Index(line, ";"); i >= 0 && !strings.Contains(line[:i], "\"") {
			line = line[:i]
		}
		for _, m := range reBlockAddr.FindAllStringSubmatch(line, -1) {
			out = append(out, "blockaddress("+unq(m[1])+", "+unq(m[2])+")")
		}
	}
	sort.Strings(out)
	return out
}

var reTypeAlias = regexp.MustCompile(`(?m)^%[^ ]+ = type %`)
var reTypeDefLine = regexp.MustCompile(`(?m)^%("(?:[^"\\]|\\.)*"|[-a-zA-Z$._0-9]+) = type `)

// typeNameTokens counts, per defined type name (as spelled, quotes kept only
// where needed), the %name tokens on the type-definition, global and
// declaration lines of a module text.
var (
	reQuoted        = regexp.MustCompile(`"[^"]*"`)
	reNamedArrayLit = regexp.MustCompile(`%([A-Za-z._$][A-Za-z0-9._$-]*) (c""|\[\])`)
)

// c04TypedArrayConstants compares, per plain type name, the string and empty
// array constants typed with that name on the global-definition lines of the
// text with the constants of those kinds in the global initializers whose type
// is the TypeDefs object of that name. It returns the first name that differs.
func c04TypedArrayConstants(text string, m *ir.Module) (name string, want, got int) {
	wantBy := map[string]int{}
	for _, line := range strings.Split(text, "\n") {
		if !strings.HasPrefix(line, "@") {
			continue
		}
		if i := strings.Index(line, ";"); i >= 0 && !strings.Contains(line[:i], "\"") {
			line = line[:i]
		}
		line = reQuoted.ReplaceAllString(line, `""`)
		for _, mm := range reNamedArrayLit.FindAllStringSubmatch(line, -1) {
			wantBy[mm[1]]++
		}
	}
	if len(wantBy) == 0 {
		return "", 0, 0
	}
	defs := map[types.Type]string{}
	for _, t := range m.TypeDefs {
		defs[t] = t.Name()
	}
	gotBy := map[string]int{}
	var walk func(c constant.Constant)
	walk = func(c constant.Constant) {
		switch c := c.(type) {
		case *constant.CharArray:
			if n, ok := defs[c.Typ]; ok {
				gotBy[n]++
			}
		case *constant.Array:
			if len(c.Elems) == 0 {
				if n, ok := defs[c.Typ]; ok {
					gotBy[n]++
				}
			}
			for _, e := range c.Elems {
				walk(e)
			}
		case *constant.Struct:
			for _, e := range c.Fields {
				walk(e)
			}
		case *constant.Vector:
			for _, e := range c.Elems {
				walk(e)
			}
		}
	}
	for _, g := range m.Globals {
		if g.Init != nil {
			walk(g.Init)
		}
	}
	var names []string
	for n := range wantBy {
		names = append(names, n)
	}
	sort.Strings(names)
	for _, n := range names {
		if gotBy[n] != wantBy[n] {
			return n, wantBy[n], gotBy[n]
		}
	}
	return "", 0, 0
}

var (
	reLocalTok     = regexp.MustCompile(`%[-a-zA-Z$._0-9]+`)
	reLocalDefHead = regexp.MustCompile(`^\s*%[-a-zA-Z$._0-9]+ = `)
)

// localTokensInBodies counts the tokens `%x` on the lines of function
// definitions (from `define` to the closing brace), keyed by function and
// token. ok is false when the text has something the comparison cannot follow:
// a quoted local name, a `%` token that is a type name, explicit labels or
// numbers that are not in LLVM's sequence (the printer renumbers them).
func localTokensInBodies(text string) (out map[string]int, ok bool) {
	out = map[string]int{}
	typeNames := map[string]bool{}
	for _, loc := range reTypeDefLine.FindAllStringSubmatchIndex(text, -1) {
		typeNames["%"+text[loc[2]:loc[3]]] = true
	}
	fn := ""
	for _, line := range strings.Split(text, "\n") {
		if strings.HasPrefix(line, "define ") {
			if i := strings.Index(line, "@"); i >= 0 {
				fn = line[i:]
				if j := strings.IndexAny(fn, "( "); j >= 0 {
					fn = fn[:j]
				}
			}
		}
		if fn == "" {
			continue
		}
		if strings.Contains(line, `%"`) {
			return nil, false
		}
		if strings.HasPrefix(line, "define ") {
			// the header: parameters may be left unnumbered in the input and are
			// written with their numbers by the printer
			continue
		}
		l := reQuoted.ReplaceAllString(line, `""`)
		if i := strings.Index(l, ";"); i >= 0 {
			l = l[:i]
		}
		// uses only: the result `%x = ` at the head of an instruction may be left
		// out in the input (implicit numbering) and is always written by the printer
		if mm := reLocalDefHead.FindString(l); mm != "" {
			l = l[len(mm):]
		}
		for _, tok := range reLocalTok.FindAllString(l, -1) {
			if typeNames[tok] {
				return nil, false
			}
			out[fn+" "+tok]++
		}
		if strings.HasPrefix(line, "}") {
			fn = ""
		}
	}
	return out, true
}

func typeNameTokens(text string) map[string]int {
	norm := func(tok string) string {
		if len(tok) >= 2 && tok[0] == '"' {
			inner := tok[1 : len(tok)-1]
			plain := inner != ""
			for i := 0; i < len(inner); i++ {
				c := inner[i]
				if !(c >= 'a' && c <= 'z' || c >= 'A' && c <= 'Z' || c == '.' || c == '_' || c == '$' || c == '-' || (i > 0 && c >= '0' && c <= '9')) {
					plain = false
				}
			}
			if plain {
				return inner
			}
		}
		return tok
	}
	// identified (struct, opaque) types are their name; the name of any other
	// type is an alias of its body, and the operand of a constant written
	// `%T @g` takes the type of @g however it was spelled: such names are
	// counted on type-definition and declaration lines only
	defined, identified := map[string]bool{}, map[string]bool{}
	for _, loc := range reTypeDefLine.FindAllStringSubmatchIndex(text, -1) {
		name := norm(text[loc[2]:loc[3]])
		if name == `""` {
			// `%"" = type ...` defines an unnamed type, printed under its number
			continue
		}
		defined[name] = true
		rest := text[loc[1]:]
		if strings.HasPrefix(rest, "{") || strings.HasPrefix(rest, "<{") || strings.HasPrefix(rest, "opaque") {
			identified[name] = true
		}
	}
	out := map[string]int{}
	if len(defined) == 0 {
		return out
	}
	for _, line := range strings.Split(text, "\n") {
		if !(strings.HasPrefix(line, "%") || strings.HasPrefix(line, "@") || strings.HasPrefix(line, "declare ")) {
			continue
		}
		// in a declaration, `%x` after a parameter's type is the name (or number) of
		// the parameter, not a type: inside the parameter list a type follows `(` or `,`
		isDecl := strings.HasPrefix(line, "declare ")
		paramStart := len(line)
		if isDecl {
			if at := strings.IndexByte(line, '@'); at >= 0 {
				if k := declParamListStart(line, at); k >= 0 {
					paramStart = k
				}
			}
		}
		// left-to-right scan: %name / %"name" tokens are counted, other quoted
		// strings (section names, c"..." arrays) and comments are skipped
		for i := 0; i < len(line); {
			c := line[i]
			switch {
			case c == ';':
				i = len(line)
			case c == '%' || c == '@' || c == '$' || c == '!':
				j := i + 1
				if j < len(line) && line[j] == '"' {
					j++
					for j < len(line) && line[j] != '"' {
						j++
					}
					j++
				} else {
					for j < len(line) && (line[j] == '-' || line[j] == '$' || line[j] == '.' || line[j] == '_' || line[j] >= '0' && line[j] <= '9' || line[j] >= 'a' && line[j] <= 'z' || line[j] >= 'A' && line[j] <= 'Z') {
						j++
					}
				}
				if j > len(line) {
					j = len(line)
				}
				if c == '%' && j > i+1 && !(isDecl && i > paramStart && paramName(line, i)) {
					if n := norm(line[i+1 : j]); defined[n] && (identified[n] || line[0] != '@') {
						out[n]++
					}
				}
				i = j
			case c == '"':
				i++
				for i < len(line) && line[i] != '"' {
					i++
				}
				i++
			default:
				i++
			}
		}
	}
	return out
}

// declParamListStart returns the index of the `(` that opens the parameter list
// of the function named at line[at] (`@name` or `@"name"`), or -1.
func declParamListStart(line string, at int) int {
	j := at + 1
	if j < len(line) && line[j] == '"' {
		j++
		for j < len(line) && line[j] != '"' {
			j++
		}
		j++
	}
	for j < len(line) && line[j] != '(' {
		j++
	}
	if j >= len(line) {
		return -1
	}
	return j
}

// paramName reports whether the `%` token at line[i], inside a parameter list,
// is a parameter name: it is one unless it directly follows `(` or `,`.
func paramName(line string, i int) bool {
	k := i - 1
	for k >= 0 && (line[k] == ' ' || line[k] == '\t') {
		k--
	}
	return k >= 0 && line[k] != '(' && line[k] != ','
}

// globalNameTokens counts the `@name` / `@"name"` tokens of a module text outside
// strings and comments, by decoded name; numbered globals (`@7`) are left out
// (they are renumbered by the printer).
func globalNameTokens(text string) map[string]int {
	out := map[string]int{}
	for _, line := range strings.Split(text, "\n") {
		for i := 0; i < len(line); {
			c := line[i]
			switch {
			case c == ';':
				i = len(line)
			case c == '@':
				j := i + 1
				var name string
				if j < len(line) && line[j] == '"' {
					k := j + 1
					for k < len(line) && line[k] != '"' {
						k++
					}
					name = string(unescapeLL(line[j+1 : min(k, len(line))]))
					j = min(k+1, len(line))
					if name != "" {
						out[name]++
					}
				} else {
					for j < len(line) && (line[j] == '-' || line[j] == '$' || line[j] == '.' || line[j] == '_' || line[j] >= '0' && line[j] <= '9' || line[j] >= 'a' && line[j] <= 'z' || line[j] >= 'A' && line[j] <= 'Z') {
						j++
					}
					name = line[i+1 : j]
					allDigits := name != ""
					for k := 0; k < len(name); k++ {
						if name[k] < '0' || name[k] > '9' {
							allDigits = false
						}
					}
					if name != "" && !allDigits {
						out[name]++
					}
				}
				i = j
			case c == '"':
				i++
				for i < len(line) && line[i] != '"' {
					i++
				}
				i++
			default:
				i++
			}
		}
	}
	return out
}

// unescapeLL decodes the \XX escapes of an LLVM string or quoted name.
func unescapeLL(s string) []byte {
	var out []byte
	hexv := func(c byte) int {
		switch {
		case c >= '0' && c <= '9':
			return int(c - '0')
		case c >= 'a' && c <= 'f':
			return int(c-'a') + 10
		case c >= 'A' && c <= 'F':
			return int(c-'A') + 10
		}
		return -1
	}
	for i := 0; i < len(s); i++ {
		if s[i] == '\\' && i+2 < len(s)+0 && i+2 <= len(s)-1 && hexv(s[i+1]) >= 0 && hexv(s[i+2]) >= 0 {
			out = append(out, byte(hexv(s[i+1])*16+hexv(s[i+2])))
			i += 2
		} else if s[i] == '\\' && i+1 < len(s) && s[i+1] == '\\' {
			out = append(out, '\\')
			i++
		} else {
			out = append(out, s[i])
		}
	}
	return out
}
