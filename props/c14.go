package props

import (
	"fmt"
	"github.com/llir/llvm/asm"
	"io"
	"math/big"
	"math/rand"
	"reflect"
	"regexp"
	"sort"
	"strings"

	"github.com/llir/llvm/ir"
	"github.com/llir/llvm/ir/constant"
	"github.com/llir/llvm/ir/enum"
	"github.com/llir/llvm/ir/metadata"
	"github.com/llir/llvm/ir/types"
	"github.com/llir/llvm/ir/value"

	"verif/internal/fw"
)

func init() {
	fw.Register(&fw.Check{
		ID:    "C14",
		Level: "exploration",
		Rule: "edit histories over the public API (add global/function/block, append/insert/remove instruction, set/replace terminator, rename, add metadata, functions/globals/calls over a shared literal struct type and the step that names or renames that type, replacing the callee of a call, declaring a global and giving it an initializer later, putting a metadata definition in front of the others, integer constants shared by several operands and edited in place, float constants built from values beyond 24 bits, block addresses taken from another function; 6-40 steps, PRNG) are replayed on fresh modules: once alone (reference) and once per observer placement (every position x every observer kind for histories of <=10 steps, PRNG subsets of positions and observers for longer ones; observers: Module.String, WriteTo, Func.LLString, Block.LLString, inst.LLString, Type, Ident, String, Operands, Succs, AssignIDs). The final String() must equal the reference, no observer may make a later step or print panic, two consecutive prints must agree. " +
			"Witness literal-built: a module holding an alias, an ifunc and a phi built as struct literals is printed (entity, function, module) once after Type()/String() were called on them and once without: same texts, no panic. " +
			"Further steps: attribute groups (add, fill, reorder), comdats (set, list, drop), alloca/gep with address spaces set afterwards, globals in address spaces (parsed, built as struct literals, edited back to 0, exchanged after a print) with typed loads. Witness failed-print: a print of an unfinished function panics and is recovered, then the same and other modules are printed and compared with a process that never saw the failure. " +
			"non-trivial = a replay with at least one observer followed by at least one edit; distinct by (history, placement). " +
			"Histories that shift the numbering of already numbered unnamed values (insert/remove/rename before numbered values after an observer) are part of the PRNG composer and are also run as eight dedicated minimal witness histories",
		Gen:           genC14,
		MinNontrivial: 500,
		Assumptions:   []string{"the reference is the same history without observers (differential oracle); no model of the printer is involved"},
		Exhaustive:    func(string) bool { return false },
	})
}

type hstep struct {
	Op   string // global func block append insert remove setterm rename namedmd attach pairfunc pairglobal paircall typedef
	F    int
	B    int
	I    int
	Name string
	Kind int
	A    int
	C    int
	N    int
}

func (s hstep) String() string {
	return fmt.Sprintf("%s(f=%d,b=%d,i=%d,name=%q,kind=%d,a=%d,c=%d,n=%d)", s.Op, s.F, s.B, s.I, s.Name, s.Kind, s.A, s.C, s.N)
}

type hobs struct {
	Pos  int // run before step Pos (len(steps) = after the last step)
	Kind int
}

var obsNames = []string{"Module.String", "Module.WriteTo", "Func.LLString", "Block.LLString", "Inst.LLString", "Type", "Ident", "String", "Operands", "Succs", "AssignIDs"}

// hstate is the interpreter state.
type hstate struct {
	m *ir.Module
	// a literal struct type shared by signatures, calls and globals; the
	// "typedef" step gives it a name (or renames it) later on
	pair      *types.StructType
	pairFuncs []*ir.Func
	pairCalls []*ir.InstCall
	decls     []*ir.Global       // globals created as declarations (some are given an initializer later)
	bigInts   []*constant.Int    // integer constants >= 4096 shared by several operands, edited in place later
	floats    []*constant.Float  // float constants that need more than 24 significand bits, shared by several operands
	groups    []*ir.AttrGroupDef // attribute groups added by "attrgroup" (some empty, filled by "attrfill")
	comdats   []*ir.ComdatDef    // comdats set on globals by "comdatset" (listed in the module only by "comdatlist")
	allocas   []*ir.InstAlloca   // allocas created by "allocagep" (their address space is set later by "allocaas")
}

func (h *hstate) pairType() *types.StructType {
	if h.pair == nil {
		h.pair = types.NewStruct(types.I32, types.I32)
	}
	return h.pair
}

func (h *hstate) fn(i int) *ir.Func {
	if len(h.m.Funcs) == 0 {
		return nil
	}
	return h.m.Funcs[i%len(h.m.Funcs)]
}

func (h *hstate) blk(f *ir.Func, i int) *ir.Block {
	if f == nil || len(f.Blocks) == 0 {
		return nil
	}
	return f.Blocks[i%len(f.Blocks)]
}

func avail(f *ir.Func) []value.Value {
	var vs []value.Value
	for _, p := range f.Params {
		if types.Equal(p.Type(), types.I32) {
			vs = append(vs, p)
		}
	}
	for _, b := range f.Blocks {
		for _, inst := range b.Insts {
			if v, ok := inst.(value.Value); ok && types.Equal(v.Type(), types.I32) {
				vs = append(vs, v)
			}
		}
	}
	vs = append(vs, constant.NewInt(types.I32, 7))
	return vs
}

func mkInst(f *ir.Func, s hstep) ir.Instruction {
	vs := avail(f)
	a := vs[s.A%len(vs)]
	c := vs[s.C%len(vs)]
	var inst ir.Instruction
	switch s.Kind % 8 {
	case 0:
		inst = ir.NewAdd(a, c)
	case 1:
		inst = ir.NewMul(a, c)
	case 2:
		inst = ir.NewSub(a, constant.NewInt(types.I32, int64(s.N)))
	case 3:
		inst = ir.NewXor(a, c)
	case 4:
		inst = ir.NewSelect(constant.True, a, c)
	case 5:
		inst = ir.NewAlloca(types.I32)
	case 6:
		inst = ir.NewStore(a, constant.NewNull(types.NewPointer(types.I32)))
	case 7:
		inst = ir.NewFence(enum.AtomicOrderingSequentiallyConsistent)
	}
	if n, ok := inst.(value.Named); ok {
		n.SetName(s.Name)
	}
	return inst
}

func isUsed(f *ir.Func, v value.Value) bool {
	for _, b := range f.Blocks {
		for _, inst := range b.Insts {
			for _, p := range inst.Operands() {
				if *p == v {
					return true
				}
			}
		}
		if b.Term != nil {
			for _, p := range b.Term.Operands() {
				if *p == v {
					return true
				}
			}
		}
	}
	return false
}

// apply executes one step.
func (h *hstate) apply(s hstep) {
	m := h.m
	switch s.Op {
	case "global":
		m.NewGlobalDef(s.Name, constant.NewInt(types.I32, int64(s.N)))
	case "func":
		var ps []*ir.Param
		for i := 0; i < s.N%4; i++ {
			pn := ""
			if s.Kind&(1<<uint(i)) != 0 {
				pn = fmt.Sprintf("p%d", i)
			}
			ps = append(ps, ir.NewParam(pn, types.I32))
		}
		f := m.NewFunc(s.Name, types.I32, ps...)
		b := f.NewBlock("")
		if s.A%2 == 0 {
			b.SetName("entry")
		}
		b.NewRet(constant.NewInt(types.I32, 0))
	case "block":
		f := h.fn(s.F)
		if f == nil {
			return
		}
		b := f.NewBlock(s.Name)
		b.NewRet(constant.NewInt(types.I32, int64(s.N)))
	case "append":
		f := h.fn(s.F)
		b := h.blk(f, s.B)
		if b == nil {
			return
		}
		b.Insts = append(b.Insts, mkInst(f, s))
	case "insert":
		f := h.fn(s.F)
		b := h.blk(f, s.B)
		if b == nil {
			return
		}
		pos := 0
		if len(b.Insts) > 0 {
			pos = s.I % (len(b.Insts) + 1)
		}
		inst := mkInst(f, s)
		b.Insts = append(b.Insts, nil)
		copy(b.Insts[pos+1:], b.Insts[pos:])
		b.Insts[pos] = inst
	case "remove":
		f := h.fn(s.F)
		b := h.blk(f, s.B)
		if b == nil || len(b.Insts) == 0 {
			return
		}
		pos := s.I % len(b.Insts)
		if v, ok := b.Insts[pos].(value.Value); ok && isUsed(f, v) {
			return
		}
		b.Insts = append(b.Insts[:pos:pos], b.Insts[pos+1:]...)
	case "setterm":
		f := h.fn(s.F)
		b := h.blk(f, s.B)
		if b == nil {
			return
		}
		vs := avail(f)
		switch s.Kind % 4 {
		case 0:
			b.Term = ir.NewRet(vs[s.A%len(vs)])
		case 1:
			b.Term = ir.NewBr(h.blk(f, s.I))
		case 2:
			b.Term = ir.NewCondBr(constant.True, h.blk(f, s.I), h.blk(f, s.C))
		case 3:
			b.Term = ir.NewSwitch(vs[s.A%len(vs)], h.blk(f, s.I), ir.NewCase(constant.NewInt(types.I32, 1), h.blk(f, s.C)))
		}
	case "rename":
		// pick among named values only unless the step says otherwise (fence decides at generation)
		var cands []value.Named
		for _, g := range m.Globals {
			cands = append(cands, g)
		}
		for _, f := range m.Funcs {
			cands = append(cands, f)
			for _, p := range f.Params {
				cands = append(cands, p)
			}
			for _, b := range f.Blocks {
				cands = append(cands, b)
				for _, inst := range b.Insts {
					if n, ok := inst.(value.Named); ok && !types.Equal(n.Type(), types.Void) {
						cands = append(cands, n)
					}
				}
			}
		}
		if s.Kind == 0 {
			// fenced: only values that currently have a name
			var named []value.Named
			for _, c := range cands {
				if c.Name() != "" && !isNumericName(c) {
					named = append(named, c)
				}
			}
			cands = named
		}
		if len(cands) == 0 {
			return
		}
		cands[s.I%len(cands)].SetName(s.Name)
	case "parse":
		// the history starts from a parsed module instead of an empty one (what the
		// parser attaches to its objects - types, signatures - is then part of
		// the state the observers and edits work on)
		pm, err := asm.ParseString("c14", c14Template)
		if err != nil {
			panic(err)
		}
		h.m = pm
		for _, f := range pm.Funcs {
			if strings.HasPrefix(f.GlobalName, "pf") {
				h.pairFuncs = append(h.pairFuncs, f)
				h.pair = f.Params[0].Typ.(*types.StructType)
			}
			for _, b := range f.Blocks {
				for _, inst := range b.Insts {
					if c, ok := inst.(*ir.InstCall); ok {
						h.pairCalls = append(h.pairCalls, c)
					}
				}
			}
		}
	case "pairfunc":
		// a function whose signature mentions the shared struct type, variadic or not
		f := m.NewFunc(s.Name, types.I32, ir.NewParam("a", h.pairType()), ir.NewParam("q", types.NewPointer(h.pairType())))
		f.Sig.Variadic = s.Kind%2 == 0
		b := f.NewBlock("entry")
		b.NewRet(constant.NewInt(types.I32, 0))
		h.pairFuncs = append(h.pairFuncs, f)
	case "pairglobal":
		// a global holding a pointer to such a function (its type is printed in full)
		if len(h.pairFuncs) == 0 {
			return
		}
		m.NewGlobalDef(s.Name, h.pairFuncs[s.I%len(h.pairFuncs)])
	case "paircall":
		f := h.fn(s.F)
		b := h.blk(f, s.B)
		if b == nil || len(h.pairFuncs) == 0 {
			return
		}
		callee := h.pairFuncs[s.I%len(h.pairFuncs)]
		call := ir.NewCall(callee, constant.NewUndef(h.pairType()), constant.NewNull(types.NewPointer(h.pairType())))
		call.SetName(s.Name)
		b.Insts = append(b.Insts, call)
		h.pairCalls = append(h.pairCalls, call)
	case "swapcallee":
		// the callee of an existing call is replaced by another function of the
		// same parameter types (variadic or not)
		if len(h.pairCalls) == 0 || len(h.pairFuncs) == 0 {
			return
		}
		h.pairCalls[s.I%len(h.pairCalls)].Callee = h.pairFuncs[s.C%len(h.pairFuncs)]
	case "bigconst":
		// one integer constant object used by two instructions and a global
		f := h.fn(s.F)
		b := h.blk(f, s.B)
		if b == nil {
			return
		}
		c := constant.NewInt(types.I32, int64(4096+s.N*977))
		h.bigInts = append(h.bigInts, c)
		x := ir.NewAdd(c, c)
		x.SetName(s.Name)
		b.Insts = append(b.Insts, x)
	case "constedit":
		// the value of a shared constant is changed in place through its exported field
		if len(h.bigInts) == 0 {
			return
		}
		c := h.bigInts[s.I%len(h.bigInts)]
		c.X.Add(c.X, big.NewInt(int64(1+s.N)))
	case "fconst":
		// a float constant built from a float64 that does not fit in 24 bits
		f := h.fn(s.F)
		b := h.blk(f, s.B)
		if b == nil {
			return
		}
		c := constant.NewFloat(types.Float, []float64{16777217, 1.0000000001, -0.5000000001, 33554433}[s.N%4])
		h.floats = append(h.floats, c)
		x := ir.NewFAdd(c, c)
		x.SetName(s.Name)
		b.Insts = append(b.Insts, x)
	case "baddr":
		// the address of a non-entry block of one function is stored in another function
		f := h.fn(s.F)
		g := h.fn(s.C)
		b := h.blk(f, 0)
		if b == nil || g == nil || len(g.Blocks) < 2 {
			return
		}
		target := g.Blocks[1+s.I%(len(g.Blocks)-1)]
		b.Insts = append(b.Insts, ir.NewStore(constant.NewBlockAddress(g, target), constant.NewNull(types.NewPointer(types.I8Ptr))))
	case "gdecl":
		h.decls = append(h.decls, m.NewGlobal(s.Name, types.I32))
	case "ginit":
		// a declaration is completed into a definition
		if len(h.decls) == 0 {
			return
		}
		h.decls[s.I%len(h.decls)].Init = constant.NewInt(types.I32, int64(s.N))
	case "typedef":
		if h.pairType().Name() == "" {
			m.NewTypeDef(s.Name, h.pairType())
		} else {
			h.pairType().SetName(s.Name)
		}
	case "namedmd":
		nd, ok := m.NamedMetadataDefs[s.Name]
		if !ok {
			nd = &metadata.NamedDef{Name: s.Name}
			m.NamedMetadataDefs[s.Name] = nd
		}
		t := &metadata.Tuple{MetadataID: -1, Fields: []metadata.Field{&metadata.String{Value: fmt.Sprintf("s%d", s.N)}}}
		m.MetadataDefs = append(m.MetadataDefs, t)
		nd.Nodes = append(nd.Nodes, t)
	case "mdprepend":
		// a metadata definition put in front of the existing ones
		t := &metadata.Tuple{MetadataID: -1, Fields: []metadata.Field{&metadata.String{Value: fmt.Sprintf("front%d", s.N)}}}
		m.MetadataDefs = append([]metadata.Definition{t}, m.MetadataDefs...)
		nd, ok := m.NamedMetadataDefs["front"]
		if !ok {
			nd = &metadata.NamedDef{Name: "front"}
			m.NamedMetadataDefs["front"] = nd
		}
		nd.Nodes = append(nd.Nodes, t)
	case "gload":
		// a typed use of a global variable
		f := h.fn(s.F)
		b := h.blk(f, s.B)
		if b == nil || len(m.Globals) == 0 {
			return
		}
		g := m.Globals[s.I%len(m.Globals)]
		ld := ir.NewLoad(g.ContentType, g)
		ld.SetName(s.Name)
		b.Insts = append(b.Insts, ld)
	case "gliteral":
		// a global variable built as a struct literal in a non-default address space
		// (its pointer type is computed when first asked for)
		g := &ir.Global{ContentType: types.I32, Init: constant.NewInt(types.I32, int64(s.N)), AddrSpace: types.AddrSpace(1 + s.N%2)}
		g.SetName(s.Name)
		m.Globals = append(m.Globals, g)
	case "gas":
		// the address space of a global is set (also back to 0)
		if len(m.Globals) == 0 {
			return
		}
		m.Globals[s.I%len(m.Globals)].AddrSpace = types.AddrSpace(s.N % 3)
	case "gswap":
		// two global variables change places in the module's list
		if len(m.Globals) < 2 {
			return
		}
		i, j := s.I%len(m.Globals), s.C%len(m.Globals)
		m.Globals[i], m.Globals[j] = m.Globals[j], m.Globals[i]
	case "allocagep":
		// an alloca, a getelementptr on it and a load through the result: the types
		// of the last two derive from the first
		f := h.fn(s.F)
		b := h.blk(f, s.B)
		if b == nil {
			return
		}
		al := ir.NewAlloca(types.NewStruct(types.I32, types.I64))
		al.SetName(s.Name)
		gep := ir.NewGetElementPtr(types.NewStruct(types.I32, types.I64), al, constant.NewInt(types.I32, 0), constant.NewInt(types.I32, int64(s.N%2)))
		elem := types.Type(types.I32)
		if s.N%2 == 1 {
			elem = types.I64
		}
		ld := ir.NewLoad(elem, gep)
		b.Insts = append(b.Insts, al, gep, ld)
		h.allocas = append(h.allocas, al)
	case "allocaas":
		// the address space of an alloca is set after it was built on
		if len(h.allocas) == 0 {
			return
		}
		h.allocas[s.I%len(h.allocas)].AddrSpace = types.AddrSpace(1 + s.N%5)
	case "attrgroup":
		// a new attribute group (empty for even N), used by a function; IDs count down from 40 so that the list is not in ID order
		g := &ir.AttrGroupDef{ID: int64(40 - len(h.groups))}
		if s.N%2 == 1 {
			g.FuncAttrs = append(g.FuncAttrs, enum.FuncAttrNoUnwind)
		}
		h.groups = append(h.groups, g)
		m.AttrGroupDefs = append(m.AttrGroupDefs, g)
		if f := h.fn(s.F); f != nil {
			f.FuncAttrs = append(f.FuncAttrs, g)
		}
	case "attrfill":
		// an attribute added to (or, for a group that has some, removed from) an existing group
		if len(h.groups) == 0 {
			return
		}
		g := h.groups[s.I%len(h.groups)]
		if len(g.FuncAttrs) == 0 {
			g.FuncAttrs = append(g.FuncAttrs, enum.FuncAttrNoReturn)
		} else if s.N%3 == 0 {
			g.FuncAttrs = nil
		} else {
			g.FuncAttrs = append(g.FuncAttrs, ir.AttrString(fmt.Sprintf("a%d", s.N)))
		}
	case "comdatset":
		// a comdat set on a global without being listed in the module (yet)
		if len(m.Globals) == 0 {
			return
		}
		c := &ir.ComdatDef{Name: s.Name, Kind: enum.SelectionKindAny}
		h.comdats = append(h.comdats, c)
		m.Globals[s.I%len(m.Globals)].Comdat = c
	case "comdatlist":
		// the client lists the comdats it has set so far (those not yet listed)
		for _, c := range h.comdats {
			listed := false
			for _, d := range m.ComdatDefs {
				if d == c {
					listed = true
				}
			}
			if !listed {
				m.ComdatDefs = append(m.ComdatDefs, c)
			}
		}
	case "comdatdrop":
		// a global gives its comdat up; an unlisted comdat nobody uses is gone
		if len(m.Globals) == 0 {
			return
		}
		m.Globals[s.I%len(m.Globals)].Comdat = nil
	case "attach":
		f := h.fn(s.F)
		b := h.blk(f, s.B)
		if b == nil || len(b.Insts) == 0 {
			return
		}
		t := &metadata.Tuple{MetadataID: -1, Fields: []metadata.Field{constant.NewInt(types.I32, int64(s.N))}}
		m.MetadataDefs = append(m.MetadataDefs, t)
		att := &metadata.Attachment{Name: "verif", Node: t}
		switch inst := b.Insts[s.I%len(b.Insts)].(type) {
		case *ir.InstAdd:
			inst.Metadata = append(inst.Metadata, att)
		case *ir.InstMul:
			inst.Metadata = append(inst.Metadata, att)
		case *ir.InstStore:
			inst.Metadata = append(inst.Metadata, att)
		}
	}
}

func isNumericName(n value.Named) bool {
	type unn interface{ IsUnnamed() bool }
	if u, ok := n.(unn); ok {
		return u.IsUnnamed()
	}
	return false
}

// observe runs one observer.
func (h *hstate) observe(o hobs) {
	m := h.m
	f := h.fn(o.Pos)
	b := h.blk(f, o.Pos/2)
	switch o.Kind {
	case 0:
		_ = m.String()
	case 1:
		m.WriteTo(io.Discard)
	case 2:
		if f != nil {
			_ = f.LLString()
		}
	case 3:
		if b != nil {
			_ = b.LLString()
		}
	case 4:
		if b != nil {
			for _, inst := range b.Insts {
				_ = inst.LLString()
			}
			_ = b.Term.LLString()
		}
	case 5, 6, 7:
		for _, g := range m.Globals {
			obsValue(g, o.Kind)
		}
		for _, f := range m.Funcs {
			obsValue(f, o.Kind)
			for _, p := range f.Params {
				obsValue(p, o.Kind)
			}
			for _, b := range f.Blocks {
				obsValue(b, o.Kind)
				for _, inst := range b.Insts {
					if v, ok := inst.(value.Value); ok {
						obsValue(v, o.Kind)
					}
				}
			}
		}
	case 8:
		for _, f := range m.Funcs {
			for _, b := range f.Blocks {
				for _, inst := range b.Insts {
					_ = inst.Operands()
				}
				_ = b.Term.Operands()
			}
		}
	case 9:
		for _, f := range m.Funcs {
			for _, b := range f.Blocks {
				_ = b.Term.Succs()
			}
		}
	case 10:
		for _, f := range m.Funcs {
			f.AssignIDs()
		}
		m.AssignGlobalIDs()
		m.AssignMetadataIDs()
	}
}

func obsValue(v value.Value, kind int) {
	switch kind {
	case 5:
		_ = v.Type()
	case 6:
		_ = v.Ident()
	case 7:
		_ = v.String()
	}
}

const c14Template = `@as3 = addrspace(3) global i32 7
@as1 = addrspace(1) global i32 8
define i32 @pf1({ i32, i32 } %a, { i32, i32 }* %q) {
entry:
  ret i32 0
}
define i32 @pf2({ i32, i32 } %a, { i32, i32 }* %q, ...) {
entry:
  ret i32 1
}
define i32 @user(i32 %x) {
entry:
  %c1 = call i32 @pf1({ i32, i32 } undef, { i32, i32 }* null)
  %c2 = call i32 ({ i32, i32 }, { i32, i32 }*, ...) @pf2({ i32, i32 } undef, { i32, i32 }* null)
  %s = add i32 %c1, %c2
  %l3 = load i32, i32 addrspace(3)* @as3
  %l1 = load i32, i32 addrspace(1)* @as1
  ret i32 %s
}
`

// genHistory builds a history. fenced: numbering of already numbered unnamed
// values is never shifted.
func genHistory(rng *rand.Rand, n int, fenced bool) []hstep {
	var steps []hstep
	nameCtr := 0
	name := func(unnamedOK bool) string {
		if unnamedOK && rng.Intn(3) == 0 {
			return ""
		}
		nameCtr++
		return fmt.Sprintf("n%d", nameCtr)
	}
	// simulated shape (enough to know what exists and where the numbering tail is)
	type fshape struct{ blocks []int }
	var funcs []fshape
	unnamedFuncExists := false
	if !fenced && rng.Intn(3) == 0 {
		steps = append(steps, hstep{Op: "parse"})
		funcs = append(funcs, fshape{blocks: []int{0}}, fshape{blocks: []int{0}}, fshape{blocks: []int{5}})
	} else {
		steps = append(steps, hstep{Op: "func", Name: name(false), N: rng.Intn(4), Kind: rng.Intn(8), A: rng.Intn(2)})
		funcs = append(funcs, fshape{blocks: []int{0}})
	}
	for len(steps) < n {
		r := rng.Intn(139)
		fi := rng.Intn(len(funcs))
		switch {
		case r >= 137:
			steps = append(steps, hstep{Op: "gliteral", Name: name(false), N: rng.Intn(9)})
		case r >= 136 && !fenced:
			steps = append(steps, hstep{Op: "gswap", I: rng.Intn(9), C: rng.Intn(9)})
		case r >= 135:
			steps = append(steps, hstep{Op: "gas", I: rng.Intn(9), N: rng.Intn(9)})
		case r >= 133:
			bi := rng.Intn(len(funcs[fi].blocks))
			steps = append(steps, hstep{Op: "gload", F: fi, B: bi, I: rng.Intn(9), Name: name(false)})
			funcs[fi].blocks[bi]++
		case r >= 132 && !fenced:
			steps = append(steps, hstep{Op: "allocaas", I: rng.Intn(9), N: rng.Intn(9)})
		case r >= 130 && !fenced:
			bi := rng.Intn(len(funcs[fi].blocks))
			steps = append(steps, hstep{Op: "allocagep", F: fi, B: bi, Name: name(false), N: rng.Intn(9)})
			funcs[fi].blocks[bi] += 3
		case r >= 129:
			steps = append(steps, hstep{Op: "comdatdrop", I: rng.Intn(9)})
		case r >= 128:
			steps = append(steps, hstep{Op: "comdatlist"})
		case r >= 127:
			steps = append(steps, hstep{Op: "comdatset", Name: name(false), I: rng.Intn(9)})
		case r >= 126:
			steps = append(steps, hstep{Op: "attrfill", I: rng.Intn(9), N: rng.Intn(9)})
		case r >= 124:
			steps = append(steps, hstep{Op: "attrgroup", F: fi, N: rng.Intn(9)})
		case r >= 122:
			steps = append(steps, hstep{Op: "baddr", F: fi, C: rng.Intn(len(funcs)), I: rng.Intn(9)})
		case r >= 120:
			bi := rng.Intn(len(funcs[fi].blocks))
			steps = append(steps, hstep{Op: "fconst", F: fi, B: bi, Name: name(false), N: rng.Intn(4)})
			funcs[fi].blocks[bi]++
		case r >= 118:
			steps = append(steps, hstep{Op: "constedit", I: rng.Intn(9), N: rng.Intn(50)})
		case r >= 116:
			bi := rng.Intn(len(funcs[fi].blocks))
			steps = append(steps, hstep{Op: "bigconst", F: fi, B: bi, Name: name(false), N: rng.Intn(60)})
			funcs[fi].blocks[bi]++
		case r >= 114:
			steps = append(steps, hstep{Op: "ginit", I: rng.Intn(9), N: rng.Intn(100)})
		case r >= 112:
			steps = append(steps, hstep{Op: "gdecl", Name: name(false)})
		case r >= 110:
			steps = append(steps, hstep{Op: "swapcallee", I: rng.Intn(9), C: rng.Intn(9)})
		case r >= 109:
			steps = append(steps, hstep{Op: "mdprepend", N: rng.Intn(100)})
		case r >= 108:
			steps = append(steps, hstep{Op: "typedef", Name: name(false)})
		case r >= 105:
			bi := rng.Intn(len(funcs[fi].blocks))
			nm := name(true)
			if fenced && nm == "" {
				nm = name(false)
			}
			steps = append(steps, hstep{Op: "paircall", F: fi, B: bi, I: rng.Intn(9), Name: nm})
			funcs[fi].blocks[bi]++
		case r >= 103:
			steps = append(steps, hstep{Op: "pairglobal", Name: name(false), I: rng.Intn(9)})
		case r >= 100:
			steps = append(steps, hstep{Op: "pairfunc", Name: name(false), Kind: rng.Intn(2)})
			funcs = append(funcs, fshape{blocks: []int{0}})
		case r < 8:
			nm := name(true)
			if fenced && nm == "" && unnamedFuncExists {
				nm = name(false)
			}
			steps = append(steps, hstep{Op: "global", Name: nm, N: rng.Intn(100)})
		case r < 14:
			nm := name(true)
			if nm == "" {
				unnamedFuncExists = true
			}
			steps = append(steps, hstep{Op: "func", Name: nm, N: rng.Intn(4), Kind: rng.Intn(8), A: rng.Intn(2)})
			funcs = append(funcs, fshape{blocks: []int{0}})
		case r < 24:
			steps = append(steps, hstep{Op: "block", F: fi, Name: name(true), N: rng.Intn(9)})
			funcs[fi].blocks = append(funcs[fi].blocks, 0)
		case r < 50:
			bi := rng.Intn(len(funcs[fi].blocks))
			nm := name(true)
			kind := rng.Intn(8)
			if fenced && bi != len(funcs[fi].blocks)-1 {
				// not the numbering tail: only named results (or void instructions)
				if nm == "" && kind < 6 {
					nm = name(false)
				}
			}
			steps = append(steps, hstep{Op: "append", F: fi, B: bi, Name: nm, Kind: kind, A: rng.Intn(50), C: rng.Intn(50), N: rng.Intn(9)})
			funcs[fi].blocks[bi]++
		case r < 68:
			bi := rng.Intn(len(funcs[fi].blocks))
			nm := name(true)
			kind := rng.Intn(8)
			if fenced && nm == "" && kind < 6 {
				nm = name(false)
			}
			steps = append(steps, hstep{Op: "insert", F: fi, B: bi, I: rng.Intn(20), Name: nm, Kind: kind, A: rng.Intn(50), C: rng.Intn(50), N: rng.Intn(9)})
			funcs[fi].blocks[bi]++
		case r < 76:
			if fenced {
				continue // removing may shift numbering of later unnamed values
			}
			bi := rng.Intn(len(funcs[fi].blocks))
			steps = append(steps, hstep{Op: "remove", F: fi, B: bi, I: rng.Intn(20)})
		case r < 88:
			bi := rng.Intn(len(funcs[fi].blocks))
			steps = append(steps, hstep{Op: "setterm", F: fi, B: bi, Kind: rng.Intn(4), I: rng.Intn(9), C: rng.Intn(9), A: rng.Intn(50)})
		case r < 94:
			k := 0
			nm := name(false)
			if !fenced {
				k = 1
				nm = name(true)
			}
			steps = append(steps, hstep{Op: "rename", I: rng.Intn(100), Name: nm, Kind: k})
		case r < 97:
			steps = append(steps, hstep{Op: "namedmd", Name: []string{"a", "b", "llvm.ident", "A", "B", "ab", "Ab", "aB", "AB"}[rng.Intn(9)], N: rng.Intn(9)}) // (names that differ in letter case only: an order that folds case must still be total)
		default:
			bi := rng.Intn(len(funcs[fi].blocks))
			steps = append(steps, hstep{Op: "attach", F: fi, B: bi, I: rng.Intn(20), N: rng.Intn(9)})
		}
	}
	return steps
}

// runHistory replays steps with the given observers on a fresh module.
func runHistory(steps []hstep, obs []hobs) (final string, panicAt int, panicMsg string) {
	h := &hstate{m: ir.NewModule()}
	panicAt = -1
	byPos := map[int][]hobs{}
	for _, o := range obs {
		byPos[o.Pos] = append(byPos[o.Pos], o)
	}
	for i := 0; i <= len(steps); i++ {
		for _, o := range byPos[i] {
			if p, msg, _ := fw.Guard(func() { h.observe(o) }); p {
				return "", i, fmt.Sprintf("observer %s before step %d panics: %s", obsNames[o.Kind], i, msg)
			}
		}
		if i < len(steps) {
			if p, msg, _ := fw.Guard(func() { h.apply(steps[i]) }); p {
				return "", i, fmt.Sprintf("step %d %s panics: %s", i, steps[i], msg)
			}
		}
	}
	var s1, s2 string
	if p, msg, _ := fw.Guard(func() { s1 = h.m.String() }); p {
		return "", len(steps), "final String() panics: " + msg
	}
	if p, msg, _ := fw.Guard(func() { s2 = h.m.String() }); p {
		return "", len(steps), "second final String() panics: " + msg
	}
	if s1 != s2 {
		return s1, len(steps), "two consecutive prints differ: " + firstDiffLines(s1, s2)
	}
	return s1, -1, ""
}

func histText(steps []hstep, obs []hobs) string {
	var sb strings.Builder
	byPos := map[int][]hobs{}
	for _, o := range obs {
		byPos[o.Pos] = append(byPos[o.Pos], o)
	}
	for i := 0; i <= len(steps); i++ {
		for _, o := range byPos[i] {
			fmt.Fprintf(&sb, "  OBSERVE %s\n", obsNames[o.Kind])
		}
		if i < len(steps) {
			fmt.Fprintf(&sb, "%2d %s\n", i, steps[i])
		}
	}
	return sb.String()
}

func genC14(ctx *fw.Ctx) []fw.Case {
	var cases []fw.Case
	nShort := ctx.Pick(300, 30000)
	nLong := ctx.Pick(1500, 200000)
	for i := 0; i < nShort; i++ {
		i := i
		cases = append(cases, fw.Case{ID: fmt.Sprintf("short/%d", i), Run: func(r *fw.Rec) { c14Short(r, i) }})
	}
	for i := 0; i < nLong; i++ {
		i := i
		cases = append(cases, fw.Case{ID: fmt.Sprintf("long/%d", i), Run: func(r *fw.Rec) { c14Long(r, i) }})
	}
	cases = append(cases, fw.Case{ID: "witness/renumbering", Run: c14Witnesses})
	cases = append(cases, fw.Case{ID: "witness/literal-built", Run: c14LiteralBuilt})
	cases = append(cases, fw.Case{ID: "witness/literal-constants", Run: c14LiteralConstants})
	cases = append(cases, fw.Case{ID: "witness/failed-print", Run: c14FailedPrint})
	return cases
}

func c14Judge(r *fw.Rec, tag string, steps []hstep, obs []hobs, ref string) bool {
	got, pAt, pMsg := runHistory(steps, obs)
	r.Eval(1)
	// non-trivial: an observer with an edit after it
	nt := false
	for _, o := range obs {
		if o.Pos < len(steps) {
			nt = true
		}
	}
	if nt {
		r.Nontrivial(tag + fmt.Sprint(obs))
	}
	for _, o := range obs {
		r.Tally("observers", obsNames[o.Kind])
	}
	if pMsg != "" {
		r.Violate(fw.Violation{Key: "history-panic/" + tag + "/" + classify(firstLine(pMsg)), Input: histText(steps, obs),
			What: fmt.Sprintf("history with observers fails where the same history alone does not (at %d): %s", pAt, firstLine(pMsg))})
		return false
	}
	if got != ref && mdRenumbered(got) == mdRenumbered(ref) {
		// a predicate-defined family: the two texts differ in the numbers of the
		// metadata definitions only (same graph after renumbering by first
		// occurrence): IDs handed out by an earlier print are kept like explicit IDs
		r.Violate(fw.Violation{Key: "history-differs/class:metadata-ids-kept-from-an-earlier-print", Input: histText(steps, obs),
			What: "final printed module differs from the same history without observers in its metadata numbering only (" + tag + "): " + firstDiffLines(ref, got), Expected: ref, Observed: got})
		return false
	}
	if got != ref {
		var kinds []string
		for _, o := range obs {
			kinds = append(kinds, obsNames[o.Kind])
		}
		kk := strings.Join(kinds, "+")
		if len(kinds) > 3 {
			kk = fmt.Sprintf("%d-observers", len(kinds))
		}
		r.Violate(fw.Violation{Key: "history-differs/" + tag + "/" + kk, Input: histText(steps, obs),
			What: "final printed module differs from the same history without observers: " + firstDiffLines(ref, got), Expected: ref, Observed: got})
		return false
	}
	return true
}

func c14Short(r *fw.Rec, idx int) {
	canary := c12Canary()
	defer func() {
		if c := c12Canary(); c != canary {
			r.Violate(fw.Violation{Key: "shared-object-written/history", What: "an exported package-level object (predeclared type or shared constant) changed while the history and its observers ran", Expected: canary, Observed: c})
		}
	}()
	rng := r.Ctx().Rand(fmt.Sprintf("short/%d", idx))
	steps := genHistory(rng, 5+rng.Intn(6), false)
	ref, _, pMsg := runHistory(steps, nil)
	if c14ReferenceFails(r, fmt.Sprintf("short%d", idx), steps, pMsg) {
		return
	}
	for pos := 0; pos <= len(steps); pos++ {
		for k := range obsNames {
			if !c14Judge(r, fmt.Sprintf("short%d", idx), steps, []hobs{{Pos: pos, Kind: k}}, ref) {
				return
			}
		}
	}
	r.Tally("histories", "short:all-single-placements")
	if idx < 2 {
		r.Sample(map[string]interface{}{"history": strings.Split(strings.TrimSpace(histText(steps, []hobs{{Pos: 2, Kind: 0}})), "\n"), "placements": (len(steps) + 1) * len(obsNames)})
	}
}

func c14Long(r *fw.Rec, idx int) {
	canary := c12Canary()
	defer func() {
		if c := c12Canary(); c != canary {
			r.Violate(fw.Violation{Key: "shared-object-written/history", What: "an exported package-level object (predeclared type or shared constant) changed while the history and its observers ran", Expected: canary, Observed: c})
		}
	}()
	rng := r.Ctx().Rand(fmt.Sprintf("long/%d", idx))
	steps := genHistory(rng, 12+rng.Intn(29), idx%4 == 0)
	ref, _, pMsg := runHistory(steps, nil)
	if c14ReferenceFails(r, fmt.Sprintf("long%d", idx), steps, pMsg) {
		return
	}
	for rep := 0; rep < 6; rep++ {
		var obs []hobs
		n := 1 + rng.Intn(6)
		for i := 0; i < n; i++ {
			obs = append(obs, hobs{Pos: rng.Intn(len(steps) + 1), Kind: rng.Intn(len(obsNames))})
		}
		if rep == 0 {
			// an observer of every kind at every position
			obs = nil
			for pos := 0; pos <= len(steps); pos++ {
				obs = append(obs, hobs{Pos: pos, Kind: (pos + idx) % len(obsNames)})
			}
		}
		if !c14Judge(r, fmt.Sprintf("long%d", idx), steps, obs, ref) {
			return
		}
	}
	r.Tally("histories", "long")
}

// c14ReferenceFails handles a history that fails without any observer: two
// consecutive prints of the final module that differ are a violation by
// themselves (printing twice in a row yields identical text); a panic of a
// step is a construction problem of the history and decides nothing.
func c14ReferenceFails(r *fw.Rec, tag string, steps []hstep, pMsg string) bool {
	if pMsg == "" {
		return false
	}
	if strings.HasPrefix(pMsg, "two consecutive prints differ") {
		r.Eval(1)
		r.Violate(fw.Violation{Key: "consecutive-prints-differ/" + tag, Input: histText(steps, nil),
			What: "without any observer in between, the final module prints differently the second time: " + strings.TrimPrefix(pMsg, "two consecutive prints differ: ")})
		return true
	}
	r.Inconclusive("reference history itself fails (construction bug or C03 business): " + classify(firstLine(pMsg)))
	r.Note("reference failure: " + firstLine(pMsg) + "\n" + histText(steps, nil))
	return true
}

// c14Witnesses runs the minimal histories of the numbering-shift family (the
// feature fenced off from the composer).
func c14Witnesses(r *fw.Rec) {
	type wit struct {
		key   string
		steps []hstep
		obs   []hobs
	}
	f0 := hstep{Op: "func", Name: "f", N: 0, A: 0}
	ap := func(name string, kind int) hstep { return hstep{Op: "append", Name: name, Kind: kind} }
	ws := []wit{
		{"print-then-insert-unnamed-inst-before-unnamed-insts",
			[]hstep{f0, ap("", 0), ap("", 0), {Op: "insert", I: 0, Name: "", Kind: 1}}, []hobs{{Pos: 3, Kind: 0}}},
		{"print-then-remove-unnamed-inst-before-unnamed-inst",
			[]hstep{f0, ap("", 5), ap("", 5), {Op: "remove", I: 0}}, []hobs{{Pos: 3, Kind: 0}}},
		{"print-then-add-unnamed-global-before-unnamed-funcs",
			[]hstep{{Op: "func", Name: "", N: 0}, {Op: "func", Name: "", N: 0}, {Op: "global", Name: ""}}, []hobs{{Pos: 2, Kind: 0}}},
		{"print-then-unname-value-before-unnamed-insts",
			[]hstep{f0, ap("x", 0), ap("", 0), ap("", 0), {Op: "rename", I: 2, Name: "", Kind: 1}}, []hobs{{Pos: 4, Kind: 0}}},
		{"print-then-name-value-before-unnamed-insts",
			[]hstep{f0, ap("", 0), ap("", 0), ap("", 0), {Op: "rename", I: 2, Name: "now.named", Kind: 1}}, []hobs{{Pos: 4, Kind: 0}}},
		{"assignids-then-insert-unnamed-inst",
			[]hstep{f0, ap("", 0), ap("", 0), {Op: "insert", I: 0, Name: "", Kind: 1}}, []hobs{{Pos: 3, Kind: 10}}},
		{"func-llstring-then-insert-unnamed-inst",
			[]hstep{f0, ap("", 0), ap("", 0), {Op: "insert", I: 0, Name: "", Kind: 1}}, []hobs{{Pos: 3, Kind: 2}}},
		{"print-then-insert-unnamed-block-before-unnamed-insts",
			[]hstep{f0, {Op: "block", Name: "tail"}, {Op: "append", B: 1, Name: "", Kind: 0}, {Op: "append", B: 1, Name: "", Kind: 0}, {Op: "append", B: 0, Name: "", Kind: 0}}, []hobs{{Pos: 4, Kind: 0}}},
	}
	// the number of an unnamed block used from an earlier function, in a module
	// without globals: never printed / printed once / printed, then shifted by an insertion
	g1 := hstep{Op: "func", Name: "g", N: 1, Kind: 0, A: 1}
	ws = append(ws,
		wit{"blockaddress-of-later-function-first-print",
			[]hstep{f0, g1, {Op: "block", F: 1, Name: ""}, {Op: "baddr", F: 0, C: 1, I: 0}}, []hobs{{Pos: 4, Kind: 6}}},
		wit{"blockaddress-of-later-function-print-then-insert",
			[]hstep{f0, g1, {Op: "block", F: 1, Name: ""}, {Op: "baddr", F: 0, C: 1, I: 0}, {Op: "insert", F: 1, B: 0, I: 0, Name: "", Kind: 0}}, []hobs{{Pos: 4, Kind: 0}}},
	)
	for _, w := range ws {
		ref, _, pMsg := runHistory(w.steps, nil)
		if strings.HasPrefix(pMsg, "two consecutive prints differ") {
			r.Eval(1)
			r.Violate(fw.Violation{Key: "consecutive-prints-differ/witness/" + w.key, Input: histText(w.steps, nil), What: "without any observer, the final module prints differently the second time: " + pMsg})
			continue
		}
		if pMsg != "" {
			r.Inconclusive("witness reference fails: " + w.key)
			continue
		}
		got, _, oMsg := runHistory(w.steps, w.obs)
		r.Eval(1)
		r.Nontrivial("witness/" + w.key)
		if oMsg != "" {
			r.Violate(fw.Violation{Key: "renumbering/" + w.key, Input: histText(w.steps, w.obs),
				What: "a module that was observed once cannot be edited and printed again: " + firstLine(oMsg)})
			continue
		}
		if got != ref {
			r.Violate(fw.Violation{Key: "renumbering/" + w.key, Input: histText(w.steps, w.obs), What: "final text differs from the history without observers: " + firstDiffLines(ref, got), Expected: ref, Observed: got})
			continue
		}
		r.Tally("witness", "holds:"+w.key)
	}
}

var reMDNum = regexp.MustCompile(`!([0-9]+)`)

// mdRenumbered renumbers the metadata IDs of a printed module by first
// occurrence and sorts the definition lines, so that two texts that differ in
// metadata numbering (and therefore in the order of the definitions) only
// compare equal.
func mdRenumbered(text string) string {
	ids := map[string]int{}
	out := reMDNum.ReplaceAllStringFunc(text, func(tok string) string {
		if _, ok := ids[tok]; !ok {
			ids[tok] = len(ids)
		}
		return fmt.Sprintf("!<%d>", ids[tok])
	})
	lines := strings.Split(out, "\n")
	var defs, rest []string
	for _, l := range lines {
		if strings.HasPrefix(l, "!<") {
			defs = append(defs, l)
		} else {
			rest = append(rest, l)
		}
	}
	sort.Strings(defs)
	return strings.Join(rest, "\n") + "\n" + strings.Join(defs, "\n")
}

// c14LiteralBuilt builds an alias, an ifunc and a phi as struct literals (the
// documented alternative to the New* constructors: their Typ is a cache the
// first Type() call fills) and prints the module, the entity and the function
// once without and once after the observers Type() / String(): the texts must
// agree, and printing must not depend on an observer having run before.
func c14LiteralBuilt(r *fw.Rec) {
	build := func() (*ir.Module, *ir.Alias, *ir.IFunc, *ir.InstPhi, *ir.Func) {
		m := ir.NewModule()
		g := m.NewGlobalDef("x", constant.NewInt(types.I32, 1))
		a := &ir.Alias{Aliasee: g}
		a.SetName("a")
		m.Aliases = append(m.Aliases, a)
		target := m.NewFunc("impl", types.Void)
		target.NewBlock("").NewRet(nil)
		res := m.NewFunc("res", types.NewPointer(target.Sig))
		res.NewBlock("").NewRet(target)
		i := &ir.IFunc{Resolver: res}
		i.SetName("i")
		m.IFuncs = append(m.IFuncs, i)
		f := m.NewFunc("f", types.I32, ir.NewParam("c", types.I1))
		entry, left, join := f.NewBlock("entry"), f.NewBlock("left"), f.NewBlock("join")
		entry.NewCondBr(f.Params[0], left, join)
		left.NewBr(join)
		phi := &ir.InstPhi{Incs: []*ir.Incoming{ir.NewIncoming(constant.NewInt(types.I32, 1), entry), ir.NewIncoming(constant.NewInt(types.I32, 2), left)}}
		phi.SetName("p")
		join.Insts = append(join.Insts, phi)
		// calls of a void function built as struct literals (they take no number),
		// followed by unnamed values
		join.Insts = append(join.Insts, &ir.InstCall{Callee: target})
		u1 := join.NewAdd(phi, constant.NewInt(types.I32, 1))
		join.Insts = append(join.Insts, &ir.InstCall{Callee: target})
		u2 := join.NewAdd(u1, constant.NewInt(types.I32, 2))
		join.NewRet(u2)
		return m, a, i, phi, f
	}
	type view struct{ name, text string }
	observe := func(withObservers bool) ([]view, string) {
		var vs []view
		p, msg, _ := fw.Guard(func() {
			m, a, i, phi, f := build()
			if withObservers {
				_ = a.Type()
				_ = i.Type()
				_ = phi.Type()
				_ = a.String()
				_ = i.String()
				_ = phi.String()
				for _, b := range f.Blocks {
					for _, inst := range b.Insts {
						if v, ok := inst.(value.Value); ok {
							_ = v.Type()
						}
					}
				}
			}
			vs = append(vs, view{"alias.LLString", a.LLString()}, view{"ifunc.LLString", i.LLString()}, view{"phi.LLString", phi.LLString()}, view{"func.LLString", f.LLString()}, view{"func.LLString again", f.LLString()}, view{"module", m.String()}, view{"module printed again", m.String()})
		})
		if p {
			return vs, firstLine(msg)
		}
		return vs, ""
	}
	r.Eval(1)
	ref, refMsg := observe(true)
	got, gotMsg := observe(false)
	if refMsg != "" {
		r.Inconclusive("literal-built module cannot be printed even after the observers: " + classify(refMsg))
		return
	}
	if gotMsg != "" {
		r.Violate(fw.Violation{Key: "observer-needed/literal-built", What: "a module with an alias, an ifunc and a phi built as struct literals prints after Type()/String() were called on them, and panics when they were not: " + gotMsg})
		return
	}
	if n := len(got); n >= 4 && got[n-3].text != got[n-4].text {
		r.Violate(fw.Violation{Key: "consecutive-prints-differ/literal-built-function", What: "two consecutive Func.LLString calls on a function holding values built as struct literals differ: " + firstDiffLines(got[n-4].text, got[n-3].text), Expected: got[n-4].text, Observed: got[n-3].text})
		return
	}
	if n := len(got); n >= 2 && got[n-1].text != got[n-2].text {
		r.Violate(fw.Violation{Key: "consecutive-prints-differ/literal-built", What: "two consecutive prints of a module holding values built as struct literals differ: " + firstDiffLines(got[n-2].text, got[n-1].text), Expected: got[n-2].text, Observed: got[n-1].text})
		return
	}
	for k := range ref {
		if ref[k].text != got[k].text {
			r.Violate(fw.Violation{Key: "observer-changes-text/literal-built/" + ref[k].name, What: ref[k].name + " differs with and without prior observers: " + firstDiffLines(ref[k].text, got[k].text), Expected: ref[k].text, Observed: got[k].text})
			return
		}
	}
	r.Nontrivial("witness/literal-built")
	r.Tally("witness", "holds:literal-built")
}

// c14LiteralConstants: aggregate constants built as struct literals (their type
// is computed when first asked for) as initializers of literal-built globals
// and as operands. The module must print the same with and without Type() /
// String() / Ident() having been called on the constants before, without panic.
func c14LiteralConstants(r *fw.Rec) {
	one := func() constant.Constant { return constant.NewInt(types.I32, 1) }
	kinds := []struct {
		name string
		mk   func() constant.Constant
		typ  types.Type // the type of the constant, written independently (content type of the global)
	}{
		{"struct", func() constant.Constant {
			return &constant.Struct{Fields: []constant.Constant{one(), constant.NewInt(types.I8, 2)}}
		}, types.NewStruct(types.I32, types.I8)},
		{"empty-struct", func() constant.Constant { return &constant.Struct{} }, types.NewStruct()},
		{"nested-struct", func() constant.Constant {
			return &constant.Struct{Fields: []constant.Constant{&constant.Struct{Fields: []constant.Constant{one()}}, one()}}
		}, types.NewStruct(types.NewStruct(types.I32), types.I32)},
		{"array", func() constant.Constant { return &constant.Array{Elems: []constant.Constant{one(), one()}} }, types.NewArray(2, types.I32)},
		{"vector", func() constant.Constant { return &constant.Vector{Elems: []constant.Constant{one(), one()}} }, types.NewVector(2, types.I32)},
		{"array-of-struct", func() constant.Constant {
			return &constant.Array{Elems: []constant.Constant{&constant.Struct{Fields: []constant.Constant{one()}}, &constant.Struct{Fields: []constant.Constant{one()}}}}
		}, types.NewArray(2, types.NewStruct(types.I32))},
	}
	for _, k := range kinds {
		for _, observer := range []string{"Type", "String", "Ident"} {
			r.Eval(1)
			run := func(withObserver bool) (string, string) {
				var text string
				p, msg, _ := fw.Guard(func() {
					m := ir.NewModule()
					c := k.mk()
					if withObserver {
						_ = c.Type() // (every observer is preceded by Type(): it is the documented way to learn the type)
						switch observer {
						case "String":
							_ = c.String()
						case "Ident":
							_ = c.Ident()
						}
					}
					g := &ir.Global{ContentType: k.typ, Init: c}
					g.SetName("g")
					m.Globals = append(m.Globals, g)
					f := m.NewFunc("f", types.Void)
					b := f.NewBlock("")
					b.Insts = append(b.Insts, &ir.InstStore{Src: k.mk(), Dst: g})
					b.NewRet(nil)
					if withObserver {
						_ = g.Type()
					}
					text = g.LLString() + "\n" + m.String() + "\n" + m.String()
				})
				if p {
					return "", firstLine(msg)
				}
				return text, ""
			}
			ref, refMsg := run(true)
			got, gotMsg := run(false)
			key := "literal-constants/" + k.name + "/" + observer
			switch {
			case refMsg != "":
				r.Tally("witness", "literal-constants:unprintable-even-after-observers:"+k.name+":"+classify(refMsg))
				r.Nontrivial(key)
			case gotMsg != "":
				r.Violate(fw.Violation{Key: "observer-needed/" + key, What: "a global initialised with a " + k.name + " constant built as a struct literal prints after " + observer + "() was called on the constant, and panics when it was not: " + gotMsg, Expected: ref})
			case ref != got:
				r.Violate(fw.Violation{Key: "observer-changes-text/" + key, What: "the module prints differently with and without a prior " + observer + "() on the constant: " + firstDiffLines(ref, got), Expected: ref, Observed: got})
			default:
				r.Nontrivial(key)
				r.Tally("witness", "holds:literal-constants")
			}
		}
	}
}

// c14FailedPrint: an observation that fails is an observation too. A module
// under construction whose last block has no terminator yet cannot be printed
// (the printer panics; the client recovers and goes on building). After the
// function was completed its print, and the print of any other module, must be
// what it is without the failed attempt.
// heldLocks reports the mutexes of the module and its functions that are locked
// (read by reflection from the state word of sync.Mutex). At a quiescent point -
// no printer running - none may be held.
func heldLocks(m *ir.Module) []string {
	var out []string
	var state func(v reflect.Value) (int64, bool)
	state = func(v reflect.Value) (int64, bool) {
		if v.Kind() != reflect.Struct {
			return 0, false
		}
		for i := 0; i < v.NumField(); i++ {
			f := v.Field(i)
			if v.Type().Field(i).Name == "state" && (f.Kind() == reflect.Int32 || f.Kind() == reflect.Int64) {
				return f.Int(), true
			}
			if f.Kind() == reflect.Struct {
				if s, ok := state(f); ok {
					return s, true
				}
			}
		}
		return 0, false
	}
	check := func(owner string, obj interface{}) {
		v := reflect.ValueOf(obj).Elem()
		for i := 0; i < v.NumField(); i++ {
			f := v.Field(i)
			if f.Kind() == reflect.Ptr && !f.IsNil() && f.Type().Elem().String() == "sync.Mutex" {
				f = f.Elem()
			}
			if f.Kind() == reflect.Struct && (f.Type().String() == "sync.Mutex" || f.Type().String() == "sync.RWMutex") {
				if s, ok := state(f); ok && s != 0 {
					out = append(out, fmt.Sprintf("%s.%s", owner, v.Type().Field(i).Name))
				}
			}
		}
	}
	check("Module", m)
	for _, f := range m.Funcs {
		check("Func "+f.Ident(), f)
	}
	return out
}

// c14FailedPrintInNumbering: the print fails while the function is being
// numbered (a placeholder phi without incoming values yet, a call whose callee
// is not a function pointer yet); the caller recovers, completes the IR and
// prints again. No lock may be left held by the failed attempt, and the
// completed module prints like one that never saw it.
func c14FailedPrintInNumbering(r *fw.Rec) {
	type built struct {
		m        *ir.Module
		complete func()
	}
	variants := map[string]func() built{
		"placeholder-phi": func() built {
			m := ir.NewModule()
			f := m.NewFunc("f", types.I32, ir.NewParam("x", types.I32))
			entry := f.NewBlock("entry")
			loop := f.NewBlock("")
			entry.NewBr(loop)
			phi := &ir.InstPhi{}
			loop.Insts = append(loop.Insts, phi)
			next := &ir.InstAdd{X: phi, Y: constant.NewInt(types.I32, 1)}
			cmp := &ir.InstICmp{Pred: enum.IPredSLT, X: next, Y: f.Params[0]}
			loop.Insts = append(loop.Insts, next, cmp)
			done := f.NewBlock("done")
			loop.Term = &ir.TermCondBr{Cond: cmp, TargetTrue: loop, TargetFalse: done}
			done.NewRet(next)
			return built{m, func() {
				phi.Incs = []*ir.Incoming{ir.NewIncoming(constant.NewInt(types.I32, 0), entry), ir.NewIncoming(next, loop)}
			}}
		},
		"call-with-callee-to-be-filled-in": func() built {
			m := ir.NewModule()
			g := m.NewFunc("g", types.I32)
			g.NewBlock("").NewRet(constant.NewInt(types.I32, 3))
			f := m.NewFunc("f", types.I32)
			b := f.NewBlock("")
			call := &ir.InstCall{Callee: constant.NewInt(types.I32, 0)}
			b.Insts = append(b.Insts, call)
			sum := &ir.InstAdd{X: call, Y: call}
			b.Insts = append(b.Insts, sum)
			b.NewRet(sum)
			return built{m, func() { call.Callee = g }}
		},
	}
	for _, name := range fw.SortedKeys(variants) {
		mk := variants[name]
		refB := mk()
		refB.complete()
		ref, pp := printGuard(refB.m)
		if pp != "" {
			r.Inconclusive("reference module cannot be printed: " + name)
			continue
		}
		for _, observer := range []string{"Module.String", "Func.LLString", "Func.AssignIDs"} {
			r.Eval(1)
			b := mk()
			failed, _, _ := fw.Guard(func() {
				switch observer {
				case "Module.String":
					_ = b.m.String()
				case "Func.LLString":
					_ = b.m.Funcs[len(b.m.Funcs)-1].LLString()
				default:
					_ = b.m.Funcs[len(b.m.Funcs)-1].AssignIDs()
				}
			})
			key := "failed-print-in-numbering/" + name + "/" + observer
			if held := heldLocks(b.m); len(held) > 0 {
				r.Violate(fw.Violation{Key: key + "/lock-left-held", What: fmt.Sprintf("after %s failed (panicked=%v) on the incomplete module and the caller recovered, these locks are still held: %s; the next print would block for ever", observer, failed, strings.Join(held, ", "))})
				continue
			}
			b.complete()
			got, pp2 := printGuard(b.m)
			if pp2 != "" {
				r.Violate(fw.Violation{Key: key, What: "after a failed print (recovered) the completed module cannot be printed: " + firstLine(pp2)})
				continue
			}
			if got != ref {
				r.Violate(fw.Violation{Key: key, What: fmt.Sprintf("the module was printed once while incomplete (%s, panicked=%v) and completed afterwards: its print differs from the print of the same module built without that attempt: %s", observer, failed, firstDiffLines(ref, got)), Expected: ref, Observed: got})
				continue
			}
			r.Nontrivial(key)
			r.Tally("witness", fmt.Sprintf("holds:%s/panicked=%v", key, failed))
		}
	}
}

// c14QueryEditRewrite: Operands() is a query. The same edit history - replace
// one entry of an operand-holding list in place, then rewrite a value through
// the slots Operands() returns - must end in the same text whether or not
// Operands() (and Succs()) had been called before the edit.
func c14QueryEditRewrite(r *fw.Rec) {
	type built struct {
		f     *ir.Func
		user  interface{ Operands() []*value.Value }
		edit  func()
		from  value.Value
		to    value.Value
		succs func()
	}
	mk := map[string]func() built{
		"phi-last-incoming": func() built {
			m := ir.NewModule()
			f := m.NewFunc("f", types.I32, ir.NewParam("x", types.I32), ir.NewParam("y", types.I32))
			a, b2, j := f.NewBlock("a"), f.NewBlock("b"), f.NewBlock("j")
			a.NewCondBr(constant.True, b2, j)
			b2.NewBr(j)
			phi := j.NewPhi(ir.NewIncoming(f.Params[0], a), ir.NewIncoming(f.Params[0], b2))
			j.NewRet(phi)
			return built{f, phi, func() { phi.Incs[1] = ir.NewIncoming(f.Params[0], b2) }, f.Params[0], f.Params[1], nil}
		},
		"switch-last-case": func() built {
			m := ir.NewModule()
			f := m.NewFunc("f", types.Void, ir.NewParam("x", types.I32), ir.NewParam("y", types.I32))
			e, t1, t2 := f.NewBlock("e"), f.NewBlock("t1"), f.NewBlock("t2")
			t1.NewRet(nil)
			t2.NewRet(nil)
			sw := e.NewSwitch(f.Params[0], t1, ir.NewCase(constant.NewInt(types.I32, 1), t1), ir.NewCase(constant.NewInt(types.I32, 2), t2))
			return built{f, sw, func() { sw.Cases[1] = ir.NewCase(constant.NewInt(types.I32, 2), t2) }, f.Params[0], f.Params[1], func() { _ = sw.Succs() }}
		},
		"call-last-bundle": func() built {
			m := ir.NewModule()
			g := m.NewFunc("g", types.Void)
			f := m.NewFunc("f", types.Void, ir.NewParam("x", types.I32), ir.NewParam("y", types.I32))
			e := f.NewBlock("e")
			call := e.NewCall(g)
			call.OperandBundles = []*ir.OperandBundle{ir.NewOperandBundle("one", f.Params[0]), ir.NewOperandBundle("two", f.Params[0], f.Params[0])}
			e.NewRet(nil)
			return built{f, call, func() { call.OperandBundles[1] = ir.NewOperandBundle("two", f.Params[0], f.Params[0]) }, f.Params[0], f.Params[1], nil}
		},
		"landingpad-last-clause": func() built {
			m := ir.NewModule()
			g := m.NewGlobalDef("ti", constant.NewInt(types.I8, 0))
			h := m.NewGlobalDef("tj", constant.NewInt(types.I8, 1))
			f := m.NewFunc("f", types.Void)
			e := f.NewBlock("e")
			lp := e.NewLandingPad(types.NewStruct(types.I8Ptr, types.I32), ir.NewClause(enum.ClauseTypeCatch, g), ir.NewClause(enum.ClauseTypeCatch, g))
			_ = lp
			e.NewRet(nil)
			return built{f, lp, func() { lp.Clauses[1] = ir.NewClause(enum.ClauseTypeCatch, g) }, g, h, nil}
		},
	}
	run := func(b built, query bool) (string, string) {
		var out string
		pan, msg, _ := fw.Guard(func() {
			if query {
				_ = b.user.Operands()
				if b.succs != nil {
					b.succs()
				}
				_ = b.f.LLString()
			}
			b.edit()
			for _, slot := range b.user.Operands() {
				if *slot == b.from {
					*slot = b.to
				}
			}
			out = b.f.LLString()
		})
		if pan {
			return "", firstLine(msg)
		}
		return out, ""
	}
	for _, name := range fw.SortedKeys(mk) {
		r.Eval(1)
		ref, pm := run(mk[name](), false)
		if pm != "" {
			r.Inconclusive("query-edit-rewrite reference fails: " + name)
			continue
		}
		got, pm2 := run(mk[name](), true)
		key := "query-edit-rewrite/" + name
		if pm2 != "" {
			r.Violate(fw.Violation{Key: key, What: "the history fails only when Operands() was called before the edit: " + pm2})
			continue
		}
		if got != ref {
			r.Violate(fw.Violation{Key: key, What: "Operands() called before an in-place edit of the operand list changes what a later rewrite through Operands() does: " + firstDiffLines(ref, got), Expected: ref, Observed: got})
			continue
		}
		r.Nontrivial(key)
		r.Tally("witness", "holds:"+key)
	}
}

// c14RetargetAfterPrint: an alias / ifunc built as a struct literal is printed,
// then pointed at a value of another type, then printed again; the same steps
// without the first print are the reference.
func c14RetargetAfterPrint(r *fw.Rec) {
	run := func(kind string, observe bool) (string, string) {
		var out string
		pan, msg, _ := fw.Guard(func() {
			m := ir.NewModule()
			g1 := m.NewGlobalDef("g1", constant.NewInt(types.I32, 1))
			g2 := m.NewGlobalDef("g2", constant.NewInt(types.I64, 2))
			r1 := m.NewFunc("r1", types.NewPointer(types.NewFunc(types.Void)))
			r1.NewBlock("").NewRet(constant.NewNull(types.NewPointer(types.NewFunc(types.Void))))
			r2 := m.NewFunc("r2", types.NewPointer(types.NewFunc(types.I32)))
			r2.NewBlock("").NewRet(constant.NewNull(types.NewPointer(types.NewFunc(types.I32))))
			var retarget func()
			if kind == "alias" {
				al := &ir.Alias{Aliasee: g1}
				al.SetName("a")
				m.Aliases = append(m.Aliases, al)
				retarget = func() { al.Aliasee = g2 }
			} else {
				fn := &ir.IFunc{Resolver: r1}
				fn.SetName("i")
				m.IFuncs = append(m.IFuncs, fn)
				retarget = func() { fn.Resolver = r2 }
			}
			if observe {
				_ = m.String()
			}
			retarget()
			out = m.String()
		})
		if pan {
			return "", firstLine(msg)
		}
		return out, ""
	}
	for _, kind := range []string{"alias", "ifunc"} {
		r.Eval(1)
		ref, pm := run(kind, false)
		if pm != "" {
			r.Inconclusive("retarget reference fails: " + kind)
			continue
		}
		got, pm2 := run(kind, true)
		key := "history-differs/class:type-cached-by-a-print-then-" + kind + "-retargeted-to-another-type"
		if pm2 != "" || got != ref {
			r.Violate(fw.Violation{Key: key, What: fmt.Sprintf("a literal-built %s printed once and then pointed at a value of another type prints differently from the same steps without the first print: %s %s", kind, pm2, firstDiffLines(ref, got)), Expected: ref, Observed: got})
			continue
		}
		r.Nontrivial(key)
		r.Tally("witness", "holds:"+key)
	}
}

// c14SharedObjectsUntouched: queries on one value must not write to objects
// shared by the whole process (the predeclared types, the shared constants).
// A block address of a function in another address space is asked for its type
// and printed; the exported singletons are compared before and after, and a
// module that uses types.I8Ptr must print as it did before the queries.
func c14SharedObjectsUntouched(r *fw.Rec) {
	build := func() (*ir.Module, *constant.BlockAddress) {
		m := ir.NewModule()
		f := m.NewFunc("f", types.Void)
		f.AddrSpace = 1
		entry := f.NewBlock("entry")
		target := f.NewBlock("target")
		entry.NewBr(target)
		target.NewRet(nil)
		ba := constant.NewBlockAddress(f, target)
		m.NewGlobalDef("slot", constant.NewNull(types.I8Ptr))
		m.NewGlobalDef("taken", ba)
		g := m.NewFunc("g", types.I8Ptr, ir.NewParam("p", types.I8Ptr))
		g.NewBlock("").NewRet(g.Params[0])
		return m, ba
	}
	other := func() string {
		m := ir.NewModule()
		m.NewGlobalDef("p", constant.NewNull(types.I8Ptr))
		m.NewGlobalDef("q", constant.NewNull(types.NewPointer(types.I8)))
		h := m.NewFunc("h", types.I1, ir.NewParam("x", types.I8Ptr), ir.NewParam("y", types.I64))
		h.NewBlock("").NewRet(constant.True)
		s, _ := printGuard(m)
		return s
	}
	refOther := other()
	for _, observer := range []string{"BlockAddress.Type", "BlockAddress.String", "Module.String", "Global.LLString"} {
		r.Eval(1)
		before := c12Canary()
		m, ba := build()
		pan, msg, _ := fw.Guard(func() {
			switch observer {
			case "BlockAddress.Type":
				_ = ba.Type()
			case "BlockAddress.String":
				_ = ba.String()
			case "Module.String":
				_ = m.String()
			default:
				_ = m.Globals[1].LLString()
			}
		})
		key := "shared-object-written/" + observer
		if pan {
			r.Inconclusive("observer panics on the block-address module: " + firstLine(msg))
			continue
		}
		if after := c12Canary(); after != before {
			r.Violate(fw.Violation{Key: key, What: observer + " on a block address of a function in address space 1 changed an exported package-level object (predeclared type or shared constant)", Expected: before, Observed: after})
			continue
		}
		if got := other(); got != refOther {
			r.Violate(fw.Violation{Key: key + "/other-module", What: "after " + observer + " on a block address in address space 1, an unrelated module that uses types.I8Ptr prints differently: " + firstDiffLines(refOther, got), Expected: refOther, Observed: got})
			continue
		}
		r.Nontrivial(key)
		r.Tally("witness", "holds:"+key)
	}
}

// c14TransientStates: a print made while the IR is in a state a later edit
// resolves (two values of one name; a metadata definition that is removed again)
// must leave no trace: the same edits without the print are the reference.
func c14TransientStates(r *fw.Rec) {
	type hist struct {
		name string
		run  func(observe func(m *ir.Module)) string
	}
	hs := []hist{
		{"print-while-two-values-share-a-name", func(observe func(m *ir.Module)) string {
			m := ir.NewModule()
			f := m.NewFunc("f", types.I32, ir.NewParam("x", types.I32))
			b := f.NewBlock("entry")
			a := b.NewAdd(f.Params[0], constant.NewInt(types.I32, 1))
			a.SetName("tmp")
			c := b.NewMul(a, a)
			c.SetName("tmp")
			b.NewRet(c)
			observe(m)
			a.SetName("sum")
			return m.String()
		}},
		{"print-while-two-blocks-share-a-name", func(observe func(m *ir.Module)) string {
			m := ir.NewModule()
			f := m.NewFunc("f", types.Void)
			b1, b2 := f.NewBlock("bb"), f.NewBlock("bb")
			b1.NewBr(b2)
			b2.NewRet(nil)
			observe(m)
			b1.SetName("first")
			return m.String()
		}},
		{"print-remove-definition-add-definition", func(observe func(m *ir.Module)) string {
			m := ir.NewModule()
			mk := func(s string) *metadata.Tuple {
				return &metadata.Tuple{MetadataID: -1, Fields: []metadata.Field{&metadata.String{Value: s}}}
			}
			d0, d1 := mk("zero"), mk("one")
			m.MetadataDefs = append(m.MetadataDefs, d0, d1)
			nm := &metadata.NamedDef{Name: "flags", Nodes: []metadata.Node{d0}}
			m.NamedMetadataDefs["flags"] = nm
			observe(m)
			m.MetadataDefs = m.MetadataDefs[:1] // the definition the print numbered last goes away again
			d2 := mk("two")
			m.MetadataDefs = append(m.MetadataDefs, d2)
			nm.Nodes = append(nm.Nodes, d2)
			return m.String()
		}},
		{"print-replace-definition-keeping-the-count", func(observe func(m *ir.Module)) string {
			m := ir.NewModule()
			mk := func(s string) *metadata.Tuple {
				return &metadata.Tuple{MetadataID: -1, Fields: []metadata.Field{&metadata.String{Value: s}}}
			}
			d0, d1 := mk("zero"), mk("one")
			m.MetadataDefs = append(m.MetadataDefs, d0, d1)
			nm := &metadata.NamedDef{Name: "flags", Nodes: []metadata.Node{d0, d1}}
			m.NamedMetadataDefs["flags"] = nm
			observe(m)
			d2 := mk("two")
			m.MetadataDefs[1] = d2
			nm.Nodes[1] = d2
			return m.String()
		}},
	}
	observers := map[string]func(m *ir.Module){
		"Module.String": func(m *ir.Module) { _ = m.String() },
		"Func.LLString+AssignIDs": func(m *ir.Module) {
			for _, f := range m.Funcs {
				_ = f.AssignIDs()
				_ = f.LLString()
			}
			_ = m.AssignMetadataIDs()
		},
	}
	for _, h := range hs {
		var ref string
		if p, _, _ := fw.Guard(func() { ref = h.run(func(*ir.Module) {}) }); p {
			r.Inconclusive("transient-state reference fails: " + h.name)
			continue
		}
		for _, on := range fw.SortedKeys(observers) {
			r.Eval(1)
			obs := observers[on]
			var got string
			p, msg, _ := fw.Guard(func() {
				got = h.run(func(m *ir.Module) { fw.Guard(func() { obs(m) }) })
			})
			key := "transient-state/" + h.name + "/" + on
			if p {
				r.Violate(fw.Violation{Key: key, What: "the history fails only with the intermediate print: " + firstLine(msg)})
				continue
			}
			if got != ref {
				r.Violate(fw.Violation{Key: key, What: "an intermediate print (" + on + ") of a state that the next edit resolves changes the final text: " + firstDiffLines(ref, got), Expected: ref, Observed: got})
				continue
			}
			r.Nontrivial(key)
			r.Tally("witness", "holds:"+key)
		}
	}
}

func c14FailedPrint(r *fw.Rec) {
	c14TransientStates(r)
	c14FailedPrintInNumbering(r)
	c14QueryEditRewrite(r)
	c14RetargetAfterPrint(r)
	c14SharedObjectsUntouched(r)
	build := func(complete bool) (*ir.Module, *ir.Block, *ir.InstMul) {
		m := ir.NewModule()
		m.NewGlobalDef("g", constant.NewInt(types.I32, 1))
		f := m.NewFunc("f", types.I32, ir.NewParam("x", types.I32))
		entry := f.NewBlock("entry")
		v := entry.NewAdd(f.Params[0], constant.NewInt(types.I32, 1))
		next := f.NewBlock("")
		entry.NewBr(next)
		w := next.NewMul(v, v)
		if complete {
			next.NewRet(w)
		}
		return m, next, w
	}
	other := func() *ir.Module {
		m := ir.NewModule()
		f := m.NewFunc("other", types.Void)
		f.NewBlock("only").NewRet(nil)
		return m
	}
	refM, _, _ := build(true)
	ref, pp := printGuard(refM)
	refOther, _ := printGuard(other())
	if pp != "" {
		r.Inconclusive("reference module cannot be printed")
		return
	}
	for _, observer := range []string{"Module.String", "Func.LLString", "Block.LLString", "Module.WriteTo"} {
		r.Eval(1)
		m, last, w := build(false)
		failed, _, _ := fw.Guard(func() {
			switch observer {
			case "Module.String":
				_ = m.String()
			case "Func.LLString":
				_ = m.Funcs[0].LLString()
			case "Block.LLString":
				_ = last.LLString()
			default:
				var sb strings.Builder
				_, _ = m.WriteTo(&sb)
			}
		})
		if held := heldLocks(m); len(held) > 0 {
			r.Violate(fw.Violation{Key: "failed-print/" + observer + "/lock-left-held", What: "after the failed print was recovered these locks are still held: " + strings.Join(held, ", ")})
			continue
		}
		// another module is printed right after the failed attempt
		gotOther, _ := printGuard(other())
		last.NewRet(w)
		got, pp2 := printGuard(m)
		key := "failed-print/" + observer
		if pp2 != "" {
			r.Violate(fw.Violation{Key: key, What: "after a failed print (recovered) the completed module cannot be printed: " + firstLine(pp2)})
			continue
		}
		if got != ref {
			r.Violate(fw.Violation{Key: key, What: fmt.Sprintf("the module was printed once while incomplete (%s, panicked=%v) and completed afterwards: its print differs from the print of the same module built without that attempt: %s", observer, failed, firstDiffLines(ref, got)), Expected: ref, Observed: got})
			continue
		}
		if gotOther != refOther {
			r.Violate(fw.Violation{Key: key + "/other-module", What: "an unrelated module printed right after a failed print of another module is not printed as usual: " + firstDiffLines(refOther, gotOther), Expected: refOther, Observed: gotOther})
			continue
		}
		r.Nontrivial(key)
		r.Tally("witness", fmt.Sprintf("holds:failed-print/%s/panicked=%v", observer, failed))
	}
}
