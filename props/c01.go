package props

import (
	"math/big"
	"regexp"
	"strconv"
	"strings"

	"verif/internal/corpus"
	"verif/internal/fw"
	"verif/internal/llvmref"
)

func init() {
	fw.Register(&fw.Check{
		ID:    "C01",
		Level: "translation_validation",
		Rule: "programs = LLVM-accepted module texts from the atom catalogue (every instruction, terminator, constant, type, linkage/attribute and metadata form), /repo testdata, llvm-stress, the clang corpus, generated modules, opt-transformed variants and LLVM-validated respellings. Each is parsed and printed by llir/llvm; LLVM 14 reads both the input and the printed output (llvm-as, verifier on, llvm-dis) and the two readings are compared in canonical form (metadata renumbered by first visit, named metadata/types/comdats sorted). Inputs LLVM's assembler accepts but cannot bring through bitcode (no canonical form) are still held to the validity gate: the parser must accept them and llvm-as must accept the printed output. A program counts when LLVM accepted the input; unrepresentable-construct atoms must yield an error (no panic, no silent acceptance). " +
			"non-trivial = an LLVM-accepted input with at least one global or function; distinct by canonical form of the input",
		Gen:           genC01,
		MinNontrivial: 80,
		Assumptions: []string{"LLVM 14.0.6 llvm-as/llvm-dis are the reference reading of both sides; what LLVM normalises away on both sides (unreferenced numbered metadata, use-list order, attribute-group sharing) is invisible here and covered structurally by C02/C04/C17",
			"a module without a valid Debug Info Version flag has its debug info dropped by LLVM on both sides (counted)"},
		Exhaustive: func(string) bool { return false },
	})
}

func genC01(ctx *fw.Ctx) []fw.Case {
	var cases []fw.Case
	srcs := corpus.AtomSources()
	srcs = append(srcs, corpus.RepoTestdata()...)
	srcs = append(srcs, corpus.StressSources(ctx.Rand("stress"), ctx.Pick(120, 1500), 10, 400)...)
	srcs = append(srcs, corpus.ClangSources(ctx.Thorough())...)
	srcs = append(srcs, mgenSources(ctx, ctx.Pick(600, 12000))...)
	for _, s := range srcs {
		s := s
		cases = append(cases, fw.Case{ID: s.ID, Run: func(r *fw.Rec) { c01Source(r, s) }})
	}
	return cases
}

func c01Source(r *fw.Rec, s corpus.Source) {
	text, err := s.Text()
	if err != nil {
		r.Inconclusive("source unavailable: " + classify(firstLine(err.Error())))
		return
	}
	unrep := strings.HasPrefix(s.ID, "atom/unrep/")
	c01One(r, s.ID, "original", text, unrep)
	if unrep {
		return
	}
	rng := r.Ctx().Rand("respell/" + s.ID)
	for name, t := range respellings(text, rng) {
		c01One(r, s.ID, name, t, false)
	}
	// opt variants (W5) of sources that have function bodies
	if strings.Contains(text, "define ") && (r.Ctx().Thorough() || rng.Intn(4) == 0) {
		passes := [][]string{{"-O1"}, {"-passes=mem2reg,instnamer"}, {"-O2"}, {"-passes=strip-debug"}}
		// two more pipelines per source, drawn from transformations that write IR
		// of their own kind: synthesised debug info, inferred attributes, renamed
		// and named-anonymous values, demoted registers, lowered switches and
		// invokes, scalarised vectors, instrumentation (profiling, coverage,
		// sanitizers), split and merged functions
		extra := [][]string{
			{"-passes=debugify"}, {"-passes=attributor"}, {"-passes=metarenamer"}, {"-passes=name-anon-globals"},
			{"-passes=reg2mem"}, {"-passes=lowerswitch,lowerinvoke"}, {"-passes=scalarizer"}, {"-passes=pgo-instr-gen,instrprof"},
			{"-passes=sancov-module", "-sanitizer-coverage-level=3"}, {"-passes=tsan-module,tsan"}, {"-passes=msan-module"}, {"-passes=hotcoldsplit", "-hotcoldsplit-threshold=-1"},
			{"-passes=mergefunc"}, {"-passes=function-attrs,inferattrs,argpromotion,deadargelim"}, {"-passes=sroa,early-cse,instcombine"}, {"-passes=loop-simplify,lcssa,loop-rotate,licm"},
			{"-passes=break-crit-edges,mergereturn,unify-loop-exits"}, {"-passes=structurizecfg"}, {"-passes=slp-vectorizer,vector-combine"}, {"-passes=globalopt,globaldce,constmerge,strip-dead-prototypes"},
			{"-passes=debugify,sroa,instcombine,strip-nonlinetable-debuginfo"}, {"-passes=add-discriminators,debugify"}, {"-passes=strip-nondebug"}, {"-passes=loweratomic,lower-expect"},
			{"-passes=insert-gcov-profiling"}, {"-passes=dfsan"}, {"-passes=memprof"}, {"-passes=partial-inliner,always-inline,module-inline"},
		}
		for k := 0; k < 2; k++ {
			passes = append(passes, extra[rng.Intn(len(extra))])
		}
		for _, pass := range passes {
			if !r.Ctx().Thorough() && rng.Intn(2) == 0 {
				continue
			}
			o, err := llvmref.OptS(text, pass...)
			if err != nil {
				r.Tally("opt_variants", "opt-failed")
				continue
			}
			c01One(r, s.ID, "opt"+strings.Join(pass, ""), o, false)
		}
	}
}

var reUnknownEnum = regexp.MustCompile(`unable to locate \w+ enum corresponding to`)

var reS0x = regexp.MustCompile(`\bi([0-9]+) s0x([0-9A-Fa-f]+)`)

// ambiguousS0x reports whether x contains an s0x literal that LLVM (sign bit =
// top active bit of the digits) and the property's wording of C09 (two's
// complement at the type width) read differently, e.g. `i4 s0x1`, `i16 s0x80`.
func ambiguousS0x(x string) bool {
	for _, m := range reS0x.FindAllStringSubmatch(x, -1) {
		w, _ := strconv.Atoi(m[1])
		v, ok := new(big.Int).SetString(m[2], 16)
		if !ok || v.Sign() == 0 {
			continue
		}
		if v.BitLen() != w {
			return true
		}
	}
	return false
}

// c01GateOnly judges an input for which LLVM gives no canonical form: the
// parser must accept it and LLVM's assembler must accept the printed output.
func c01GateOnly(r *fw.Rec, id, x string) {
	m, perr, pmsg := parseGuard(id, x)
	if pmsg != "" {
		r.Violate(fw.Violation{Key: "parse-panic/" + id + "/" + panicSite(pmsg), Input: x, What: "asm.ParseString panics on a module LLVM accepts: " + firstLine(pmsg), Observed: pmsg})
		return
	}
	if perr != nil {
		if !reUnknownEnum.MatchString(perr.Error()) {
			r.Violate(fw.Violation{Key: "translate-reject/" + id, Input: x, What: "a module LLVM accepts is rejected by the parser: " + firstLine(perr.Error())})
		}
		return
	}
	y, pp := printGuard(m)
	if pp != "" {
		r.Violate(fw.Violation{Key: "print-panic/" + id + "/" + panicSite(pp), Input: x, What: "String() panics on a module the parser produced from valid input: " + firstLine(pp), Observed: pp})
		return
	}
	okY, msgY, err := llvmref.Accepts(y)
	if err != nil {
		return
	}
	r.Tally("inputs", "validity-gate-only(no canonical form)")
	if !okY {
		r.Violate(fw.Violation{Key: "output-invalid/" + id, Input: x, What: "LLVM rejects the printed output of a valid module: " + firstLine(lastDiag(msgY)), Observed: y})
	}
}

func c01One(r *fw.Rec, id, variant, x string, unrep bool) {
	r.Eval(1)
	if ambiguousS0x(x) {
		r.Inconclusive("input has s0x literals that LLVM and the type-width rule of C09 read differently (not judged, see DESIGN)")
		return
	}
	key := id
	_ = variant
	canonX, msg, ok, stripped, err := llvmref.Canon(x)
	if err != nil {
		// LLVM 14 cannot bring some valid inputs through bitcode (llvm-dis fails,
		// e.g. an alloca in a non-default address space used by an addrspacecast):
		// no canonical form, but the assembler alone still judges validity
		if okX, _, e := llvmref.Accepts(x); e == nil && okX && !unrep {
			c01GateOnly(r, id, x)
		}
		r.Inconclusive("llvm tool failure on the input: " + err.Error())
		return
	}
	if !ok {
		r.Inconclusive("input not valid for LLVM 14 (generator/catalogue issue)")
		if variant == "original" {
			r.Note("LLVM rejects " + id + ": " + firstLine(msg))
		}
		return
	}
	r.Tally("inputs", "llvm-accepted:"+variant)
	if stripped {
		r.Tally("inputs", "llvm-dropped-debug-info(no version flag)")
	}
	m, perr, pmsg := parseGuard(id, x)
	if unrep {
		switch {
		case pmsg != "":
			r.Violate(fw.Violation{Key: "unrepresentable-panic/" + id, Input: x, What: "a construct the IR cannot represent makes the parser panic instead of returning an error: " + firstLine(pmsg), Observed: pmsg})
		case perr == nil:
			y, _ := printGuard(m)
			canonY, _, okY, _, _ := llvmref.Canon(y)
			if !okY || canonY != canonX {
				r.Violate(fw.Violation{Key: "unrepresentable-accepted/" + id, Input: x, What: "a construct listed as unrepresentable is accepted and altered silently", Observed: y})
			} else {
				r.Note("atom listed as unrepresentable round-trips fine: " + id)
			}
		default:
			r.Tally("unrepresentable", "reported-as-error")
			r.Nontrivial(canonX)
		}
		return
	}
	if pmsg != "" {
		r.Violate(fw.Violation{Key: "parse-panic/" + key + "/" + panicSite(pmsg), Input: x, What: "asm.ParseString panics on a module LLVM accepts (" + variant + "): " + firstLine(pmsg), Observed: pmsg})
		return
	}
	if perr != nil {
		if reUnknownEnum.MatchString(perr.Error()) {
			// a keyword LLVM 14 knows but the IR's enum has no value for: a construct the
			// IR cannot represent, reported as an error -- the specified behaviour
			r.Tally("unrepresentable", "unknown-enum-keyword-reported-as-error")
			r.Note("unrepresentable keyword in " + id + ": " + firstLine(perr.Error()))
			return
		}
		cls := "translate-reject"
		if strings.Contains(perr.Error(), "into an AST") {
			cls = "grammar-reject"
			// constant expressions of opcodes LLVM 14 still has and neither the llir/ll
			// grammar nor package constant knows (there is no constant.ExprUDiv, ...,
			// constant.ExprExtractValue): constructs the IR cannot represent, reported
			// as an error -- the specified behaviour. The opcode is the one on the
			// line the syntax error points at.
			if op := removedConstExprOpcode(x, perr.Error()); op != "" {
				r.Tally("unrepresentable", "constant-expression-"+op+"-reported-as-error")
				return
			}
		}
		if gc := grammarClass(x, perr.Error()); cls == "grammar-reject" && gc != "" {
			// a listed shortcoming of the llir/ll grammar, recognised on the line the
			// syntax error points at (a predicate on the input, whatever module it is in)
			r.Violate(fw.Violation{Key: "grammar-reject/class:" + gc, Input: x, What: "a module LLVM accepts (" + id + "/" + variant + ") is rejected by the parser: " + firstLine(perr.Error()) + ": " + fw.Trunc(strings.TrimSpace(errorLine(x, perr.Error())), 160)})
			return
		}
		r.Violate(fw.Violation{Key: cls + "/" + key, Input: x, What: "a module LLVM accepts is rejected by the parser: " + firstLine(perr.Error())})
		return
	}
	y, pp := printGuard(m)
	if pp != "" {
		r.Violate(fw.Violation{Key: "print-panic/" + key + "/" + panicSite(pp), Input: x, What: "String() panics on a module the parser produced from valid input: " + firstLine(pp), Observed: pp})
		return
	}
	canonY, msgY, okY, _, err := llvmref.Canon(y)
	if err != nil {
		if err == llvmref.ErrCrash {
			r.Inconclusive("llvm-as crashes on the printed output (LLVM bug, not a verdict)")
			r.Note("llvm-as crashed on output of " + key + ": " + firstLine(msgY))
			return
		}
		r.Inconclusive("llvm tool failure on the output: " + err.Error())
		return
	}
	if !okY {
		r.Violate(fw.Violation{Key: "output-invalid/" + key, Input: x, What: "LLVM rejects the printed output of a valid module: " + firstLine(lastDiag(msgY)), Observed: y})
		return
	}
	if canonX != canonY {
		if cls := classifyDiff(canonX, canonY); cls != "" {
			// a predicate-defined family (input class + exact wrong behaviour)
			r.Violate(fw.Violation{Key: "meaning-changed/class:" + cls, Input: x,
				What:     "LLVM reads the printed output as a different module than the input (" + id + "/" + variant + "), " + llvmref.DiffLines(canonX, canonY),
				Expected: canonX, Observed: canonY})
			return
		}
		r.Violate(fw.Violation{Key: "meaning-changed/" + key, Input: x,
			What:     "LLVM reads the printed output as a different module than the input (" + variant + "), " + llvmref.DiffLines(canonX, canonY),
			Expected: canonX, Observed: canonY})
		return
	}
	if strings.Contains(canonX, "\n@") || strings.Contains(canonX, "\ndefine") || strings.Contains(canonX, "\ndeclare") {
		r.Nontrivial(canonX)
	}
	c01Features(r, canonX)
	if variant == "original" {
		r.Sample(map[string]interface{}{"program": id, "bytes": len(x), "canonical_bytes": len(canonX), "verdict": "same module"})
	}
}

// lastDiag picks the most informative line of an llvm-as diagnostic.
func lastDiag(msg string) string {
	lines := strings.Split(strings.TrimSpace(msg), "\n")
	for _, l := range lines {
		if strings.Contains(l, "error:") {
			return l
		}
	}
	if len(lines) > 1 && strings.Contains(lines[0], "does not verify") {
		return lines[0] + " " + lines[1]
	}
	return lines[0]
}

var c01Opcodes = []string{"ret", "br", "switch", "indirectbr", "invoke", "callbr", "resume", "catchswitch", "catchret", "cleanupret", "unreachable",
	"fneg", "add", "fadd", "sub", "fsub", "mul", "fmul", "udiv", "sdiv", "fdiv", "urem", "srem", "frem", "shl", "lshr", "ashr", "and", "or", "xor",
	"extractelement", "insertelement", "shufflevector", "extractvalue", "insertvalue", "alloca", "load", "store", "fence", "cmpxchg", "atomicrmw", "getelementptr",
	"trunc", "zext", "sext", "fptrunc", "fpext", "fptoui", "fptosi", "uitofp", "sitofp", "ptrtoint", "inttoptr", "bitcast", "addrspacecast",
	"icmp", "fcmp", "phi", "select", "freeze", "call", "va_arg", "landingpad", "catchpad", "cleanuppad"}

// c01Features tallies which constructs occur in an accepted, faithfully
// round-tripped module (per-construct coverage).
func c01Features(r *fw.Rec, canon string) {
	seen := map[string]bool{}
	for _, line := range strings.Split(canon, "\n") {
		if !strings.HasPrefix(line, "  ") {
			switch {
			case strings.HasPrefix(line, "@") && strings.Contains(line, " alias "):
				seen["top:alias"] = true
			case strings.HasPrefix(line, "@") && strings.Contains(line, " ifunc "):
				seen["top:ifunc"] = true
			case strings.HasPrefix(line, "@"):
				seen["top:global"] = true
			case strings.HasPrefix(line, "define"):
				seen["top:define"] = true
			case strings.HasPrefix(line, "declare"):
				seen["top:declare"] = true
			case strings.HasPrefix(line, "%"):
				seen["top:typedef"] = true
			case strings.HasPrefix(line, "$"):
				seen["top:comdat"] = true
			case strings.HasPrefix(line, "attributes"):
				seen["top:attrgroup"] = true
			case strings.HasPrefix(line, "!") && strings.Contains(line, "= !DI") || strings.Contains(line, "= distinct !DI"):
				i := strings.Index(line, "!DI")
				j := strings.IndexByte(line[i:], '(')
				if j > 0 {
					seen["md:"+line[i+1:i+j]] = true
				}
			case strings.HasPrefix(line, "!"):
				seen["md:tuple-or-named"] = true
			}
			continue
		}
		f := strings.Fields(line)
		for i, w := range f {
			if i > 3 {
				break
			}
			for _, op := range c01Opcodes {
				if w == op {
					seen["inst:"+op] = true
				}
			}
		}
	}
	for k := range seen {
		r.Tally("constructs_in_faithful_modules", k)
	}
}

var reFloatTok = regexp.MustCompile(`^0x[0-9A-F]{16}$|^0x[HKLMR][0-9A-F]+$`)

// classifyDiff recognises families of differences that are defined by a
// predicate on the input and an exact wrong behaviour. It returns "" when the
// difference is not one of them.
//
//	nan-payload-canonicalised: the two texts differ only in floating-point
//	literals, each input literal is a NaN with a payload or sign/quiet bit other
//	than the canonical quiet NaN and the output literal is the canonical quiet NaN
//	of the same kind and sign.
var reSyntaxLine = regexp.MustCompile(`syntax error at line ([0-9]+)`)
var reRemovedConstExpr = regexp.MustCompile(`\b(udiv|sdiv|urem|srem|fadd|fsub|fmul|fdiv|frem|extractvalue|insertvalue) (?:exact )?\(`)

// removedConstExprOpcode returns the opcode of a udiv/sdiv/urem/srem/fadd/
// fsub/fmul/fdiv/frem/extractvalue/insertvalue constant expression on the line
// a syntax error names.
func removedConstExprOpcode(x, errText string) string {
	m := reSyntaxLine.FindStringSubmatch(errText)
	if m == nil {
		return ""
	}
	n, _ := strconv.Atoi(m[1])
	lines := strings.Split(x, "\n")
	if n < 1 || n > len(lines) {
		return ""
	}
	if mm := reRemovedConstExpr.FindStringSubmatch(lines[n-1]); mm != nil {
		return mm[1]
	}
	return ""
}

func classifyDiff(a, b string) string {
	ta, tb := strings.Fields(strings.NewReplacer(",", " ", ">", " ", "<", " ", ")", " ", "(", " ", "]", " ", "[", " ").Replace(a)), strings.Fields(strings.NewReplacer(",", " ", ">", " ", "<", " ", ")", " ", "(", " ", "]", " ", "[", " ").Replace(b))
	if len(ta) != len(tb) {
		return ""
	}
	n := 0
	cls := ""
	for i := range ta {
		if ta[i] == tb[i] {
			continue
		}
		if !reFloatTok.MatchString(ta[i]) || !reFloatTok.MatchString(tb[i]) {
			return ""
		}
		c := ""
		switch {
		case isNaNLit(ta[i]) && isCanonicalNaN(tb[i]) && sameSignLit(ta[i], tb[i]):
			c = "nan-payload-canonicalised"
		case strings.HasPrefix(ta[i], "0xM") && strings.HasPrefix(tb[i], "0xM") && len(ta[i]) == 35 && len(tb[i]) == 35 && ta[i][:19] == tb[i][:19] && !ppcCanonicalPair(ta[i]):
			// a pair that is not canonical (or has a -0.0 low double): same high double,
			// another low double (the library holds the sum of a ppc_fp128 pair)
			c = "ppc_fp128-low-double-changed"
		default:
			return ""
		}
		if cls != "" && cls != c {
			return ""
		}
		cls = c
		n++
	}
	if n == 0 {
		return ""
	}
	return cls
}

func litBits(l string) (kind byte, v *big.Int) {
	kind = 'D'
	h := l[2:]
	if h[0] == 'H' || h[0] == 'K' || h[0] == 'L' || h[0] == 'M' || h[0] == 'R' {
		kind = h[0]
		h = h[1:]
	}
	v, _ = new(big.Int).SetString(h, 16)
	return
}

func isNaNLit(l string) bool {
	kind, v := litBits(l)
	if v == nil {
		return false
	}
	switch kind {
	case 'D': // double layout (also used for float and half literals)
		u := v.Uint64()
		return (u>>52)&0x7FF == 0x7FF && u&0xFFFFFFFFFFFFF != 0
	case 'H':
		u := v.Uint64()
		return (u>>10)&0x1F == 0x1F && u&0x3FF != 0
	case 'K':
		exp := new(big.Int).Rsh(v, 64).Uint64() & 0x7FFF
		mant := new(big.Int).And(v, new(big.Int).SetUint64(^uint64(0))).Uint64()
		return exp == 0x7FFF && mant<<1 != 0
	case 'L':
		// 0xL prints the low 64 bits first
		hi := new(big.Int).And(v, new(big.Int).SetUint64(^uint64(0))).Uint64()
		lo := new(big.Int).Rsh(v, 64).Uint64()
		return (hi>>48)&0x7FFF == 0x7FFF && (hi&0xFFFFFFFFFFFF != 0 || lo != 0)
	case 'M':
		hi := new(big.Int).Rsh(v, 64).Uint64()
		return (hi>>52)&0x7FF == 0x7FF && hi&0xFFFFFFFFFFFFF != 0
	}
	return false
}

func isCanonicalNaN(l string) bool {
	kind, v := litBits(l)
	if v == nil {
		return false
	}
	switch kind {
	case 'D':
		u := v.Uint64() &^ (1 << 63)
		return u == 0x7FF8000000000000
	case 'H':
		return v.Uint64()&^0x8000 == 0x7E00
	case 'K':
		exp := new(big.Int).Rsh(v, 64).Uint64() & 0x7FFF
		mant := new(big.Int).And(v, new(big.Int).SetUint64(^uint64(0))).Uint64()
		return exp == 0x7FFF && mant == 0xC000000000000000
	case 'L':
		hi := new(big.Int).And(v, new(big.Int).SetUint64(^uint64(0))).Uint64()
		lo := new(big.Int).Rsh(v, 64).Uint64()
		return hi&^(1<<63) == 0x7FFF800000000000 && lo == 0
	case 'M':
		hi := new(big.Int).Rsh(v, 64).Uint64()
		lo := new(big.Int).And(v, new(big.Int).SetUint64(^uint64(0))).Uint64()
		return hi&^(1<<63) == 0x7FF8000000000000 && lo == 0
	}
	return false
}

func sameSignLit(a, b string) bool {
	ka, va := litBits(a)
	kb, vb := litBits(b)
	if ka != kb || va == nil || vb == nil {
		return false
	}
	sign := func(k byte, v *big.Int) uint {
		switch k {
		case 'D':
			return v.Bit(63)
		case 'H':
			return v.Bit(15)
		case 'K':
			return v.Bit(79)
		case 'L':
			return v.Bit(63)
		case 'M':
			return v.Bit(127)
		}
		return 0
	}
	return sign(ka, va) == sign(kb, vb)
}

var reErrLine = regexp.MustCompile(`syntax error at line ([0-9]+)`)

// errorLine returns the line of x a syntax error message points at ("" if none).
func errorLine(x, msg string) string {
	m := reErrLine.FindStringSubmatch(msg)
	if m == nil {
		return ""
	}
	n, _ := strconv.Atoi(m[1])
	lines := strings.Split(x, "\n")
	if n < 1 || n > len(lines) {
		return ""
	}
	return lines[n-1]
}

var (
	reFreezeMD     = regexp.MustCompile(`^\s*(%("[^"]*"|\S+)\s*=\s*)?freeze\s[^!]*,\s*![A-Za-z_.]`)
	reRetAlign     = regexp.MustCompile(`\balign [0-9]+`)
	reCallLikeLine = regexp.MustCompile(`^\s*(define|declare)\b|\b(call|invoke|callbr)\b`)
)

// grammarClass recognises, on the line a syntax error points at, the constructs
// of LLVM 14 that the llir/ll grammar (a dependency) is known not to read:
// a metadata attachment on freeze, and the return attribute `align N` (in a
// function header or at a call site it stands before the result type, i.e.
// before the first parenthesis of the line).
func grammarClass(x, msg string) string {
	line := errorLine(x, msg)
	if line == "" {
		return ""
	}
	if reFreezeMD.MatchString(line) {
		return "freeze-with-metadata-attachment"
	}
	if reCallLikeLine.MatchString(line) {
		head := line
		if i := strings.IndexByte(head, '('); i >= 0 {
			head = head[:i]
		}
		if reRetAlign.MatchString(head) {
			return "return-attribute-align"
		}
	}
	return ""
}
