package props

import (
	"fmt"
	"github.com/llir/llvm/ir/types"
	"math/rand"
	"strings"

	"github.com/llir/llvm/ir"
	"github.com/llir/llvm/ir/constant"
	"github.com/llir/llvm/ir/value"

	"verif/internal/fw"
	"verif/internal/llvmref"
)

func init() {
	fw.Register(&fw.Check{
		ID:    "C08",
		Level: "exploration",
		Rule: "function shapes: all sequences of length<=3 (quick) / 4 (thorough) plus PRNG longer ones over {named/unnamed block start, named/unnamed add, store, fence, void call, non-void call, void/non-void invoke, void/non-void callbr, invoke unwinding to an unnamed catchswitch} with callees spelled in the short form or with their full function type (void (), void (...), i32 ()) and a table of the addresses of all numbered non-entry blocks in front of the functions, crossed with 0-2 named/unnamed parameters, each emitted with all unnamed values numbered explicitly, all implicitly, and mixed; the numbering is computed by the monitor's own model of LLVM's rule and validated by llvm-as on the explicit form. Module shapes: all sequences of length<=3 / 4 plus PRNG longer ones over named/unnamed {global, alias, ifunc, declaration, definition}. For each shape LLVM accepts: the library's parser must accept it, every %N/@N must be bound to the object at the position the model says (each unnamed value is stored to / listed in a sink in definition order), IDs must equal the model's, numbering again must change nothing, String() must not fail, LLVM must accept the printed text and read it as the same module. " +
			"Further cases: parameter lists with named parameters among explicitly numbered ones (bound values checked by lli); print / edit / print of a single function; the empty quoted name in every position next to an explicitly numbered twin; attribute-group and metadata definitions between unnamed globals; explicitly numbered results of invoke, callbr and catchswitch, right (accepted, bound by position) and wrong (rejected). " +
			"non-trivial = a shape with at least one unnamed value; distinct by (shape, emission mode)",
		Gen:           genC08,
		MinNontrivial: 1000,
		Assumptions:   []string{"LLVM 14 writes unnamed global variables, aliases, ifuncs and functions with explicit numbers only; implicit numbering is exercised for locals (parameters, blocks, instructions)"},
		Exhaustive:    func(string) bool { return false },
	})
}

var c08Items = []string{"B", "b", "A", "a", "s", "f", "v", "c", "I", "i", "K", "k", "w"}

// B named block start, b unnamed block start, A named add, a unnamed add, s
// store, f fence, v void call, c non-void call (unnamed), I void invoke, i
// non-void invoke (unnamed), K void callbr, k non-void callbr (unnamed), w an
// invoke unwinding to an unnamed catchswitch (token result, numbered) with a
// catchpad handler.

type c08Val struct {
	kind string // param block inst term
	id   int    // model number, -1 if named
	name string
}

// c08Func renders one function for the shape and returns the text plus the
// model (unnamed values in numbering order).
func c08Func(fname string, params string, shape string, mode int, rng *rand.Rand, sinkBase int) (string, []c08Val) {
	var sb strings.Builder
	var vals []c08Val
	next := 0
	explicit := func() bool {
		switch mode {
		case 0:
			return true
		case 1:
			return false
		}
		return rng.Intn(2) == 0
	}
	// params: LLVM 14 counts explicit parameter numbers only, so either all or none explicit
	paramsExplicit := explicit()
	var ps []string
	for i, p := range params {
		if p == 'P' {
			n := fmt.Sprintf("p%d", i)
			ps = append(ps, "i32 %"+n)
			vals = append(vals, c08Val{"param", -1, n})
		} else {
			if paramsExplicit {
				ps = append(ps, fmt.Sprintf("i32 %%%d", next))
			} else {
				ps = append(ps, "i32")
			}
			vals = append(vals, c08Val{"param", next, ""})
			next++
		}
	}
	fmt.Fprintf(&sb, "define void %s(%s) personality i32 (...)* @pers {\n", fname, strings.Join(ps, ", "))
	// split the shape into blocks
	type blk struct {
		named bool
		items []byte
		label c08Val
	}
	var blocks []*blk
	cur := &blk{named: false}
	started := false
	needNew := false
	for i := 0; i < len(shape); i++ {
		it := shape[i]
		if it == 'B' || it == 'b' {
			if started || len(blocks) > 0 || len(cur.items) > 0 {
				blocks = append(blocks, cur)
			}
			cur = &blk{named: it == 'B'}
			started = true
			needNew = false
			continue
		}
		if needNew {
			blocks = append(blocks, cur)
			cur = &blk{named: rng.Intn(2) == 0}
			needNew = false
		}
		started = true
		cur.items = append(cur.items, it)
		if it == 'I' || it == 'i' || it == 'K' || it == 'k' || it == 'w' {
			needNew = true
		}
	}
	blocks = append(blocks, cur)
	// numbering pass (model of LLVM's rule)
	nameCtr := 0
	type ev struct {
		v    c08Val
		text string
	}
	labels := make([]c08Val, len(blocks))
	// first pass to assign numbers in order
	type planned struct {
		isLabel bool
		bi      int
		ii      int
	}
	numOf := map[[2]int]int{}
	n2 := next
	for bi, b := range blocks {
		if b.named {
			nameCtr++
			labels[bi] = c08Val{"block", -1, fmt.Sprintf("bb%d", nameCtr)}
		} else {
			labels[bi] = c08Val{"block", n2, ""}
			n2++
		}
		for ii, it := range b.items {
			switch it {
			case 'a', 'c', 'i', 'k':
				numOf[[2]int{bi, ii}] = n2
				n2++
			case 'w':
				// named dispatch block, then the unnamed catchswitch result; the handler block and catchpad are named
				numOf[[2]int{bi, ii}] = n2
				n2++
			}
		}
	}
	ref := func(v c08Val) string {
		if v.id >= 0 {
			return fmt.Sprintf("%%%d", v.id)
		}
		return "%" + v.name
	}
	// callee spellings: short form, full (non-variadic) function type, variadic callee with its full type
	voidCallee := func() string {
		switch rng.Intn(6) {
		case 0:
			return "void () @vf()"
		case 1:
			return "void (...) @vv()"
		case 2:
			return "%vfn @vf()" // the function type through a type definition
		}
		return "void @vf()"
	}
	intCallee := func() string {
		switch rng.Intn(5) {
		case 0:
			return "i32 () @if()"
		case 1:
			return "%ifn @if()"
		}
		return "i32 @if()"
	}
	sink := sinkBase
	useLine := func(v c08Val) string {
		s := fmt.Sprintf("  store i32 %s, i32* @sink%d\n", ref(v), sink)
		sink++
		return s
	}
	for bi, b := range blocks {
		lab := labels[bi]
		vals = append(vals, lab)
		if lab.id >= 0 {
			if bi == 0 && !explicit() {
				// implicit entry label
			} else if bi > 0 && !explicit() {
				// implicit label of a non-entry block: the instruction after a terminator starts it
			} else {
				if rng.Intn(5) == 0 {
					fmt.Fprintf(&sb, "0%d:\n", lab.id) // a label ID may be spelled with leading zeros
				} else {
					fmt.Fprintf(&sb, "%d:\n", lab.id)
				}
			}
		} else {
			fmt.Fprintf(&sb, "%s:\n", lab.name)
		}
		nextLabel := func() string {
			if bi+1 < len(blocks) {
				return ref(labels[bi+1])
			}
			return "%exit"
		}
		terminated := false
		for ii, it := range b.items {
			def := func(rhs string) {
				id := numOf[[2]int{bi, ii}]
				v := c08Val{"inst", id, ""}
				if explicit() {
					fmt.Fprintf(&sb, "  %%%d = %s\n", id, rhs)
				} else {
					fmt.Fprintf(&sb, "  %s\n", rhs)
				}
				vals = append(vals, v)
			}
			switch it {
			case 'A':
				nameCtr++
				v := c08Val{"inst", -1, fmt.Sprintf("v%d", nameCtr)}
				if rng.Intn(4) == 0 {
					// a name that is a number (spelled quoted): it takes no part in the numbering
					v.name = fmt.Sprintf("\"%d\"", nameCtr)
				}
				fmt.Fprintf(&sb, "  %%%s = add i32 1, 2\n", v.name)
				vals = append(vals, v)
				sb.WriteString(useLine(v))
			case 'a':
				def("add i32 1, 2")
				sb.WriteString(useLine(vals[len(vals)-1]))
			case 's':
				sb.WriteString("  store i32 7, i32* @scratch\n")
			case 'f':
				sb.WriteString("  fence seq_cst\n")
			case 'v':
				fmt.Fprintf(&sb, "  call %s\n", voidCallee())
			case 'c':
				if rng.Intn(4) == 0 {
					// a result that is a pointer to a function, callee type in the short form
					def("call void ()* @getfp()")
					v := vals[len(vals)-1]
					nameCtr++
					fmt.Fprintf(&sb, "  %%pi%d = ptrtoint void ()* %s to i32\n", nameCtr, ref(v))
					sb.WriteString(useLine(c08Val{"inst", -1, fmt.Sprintf("pi%d", nameCtr)}))
					break
				}
				def("call " + intCallee())
				sb.WriteString(useLine(vals[len(vals)-1]))
			case 'I':
				fmt.Fprintf(&sb, "  invoke %s to label %s unwind label %%lpad\n", voidCallee(), nextLabel())
				terminated = true
			case 'i':
				id := numOf[[2]int{bi, ii}]
				callee := intCallee()
				if rng.Intn(4) == 0 {
					callee = "void ()* @getfp()"
				}
				rhs := fmt.Sprintf("invoke %s to label %s unwind label %%lpad", callee, nextLabel())
				if explicit() {
					fmt.Fprintf(&sb, "  %%%d = %s\n", id, rhs)
				} else {
					fmt.Fprintf(&sb, "  %s\n", rhs)
				}
				vals = append(vals, c08Val{"term", id, ""})
				terminated = true
			case 'w':
				id := numOf[[2]int{bi, ii}]
				nameCtr++
				cs, h := fmt.Sprintf("cs%d", nameCtr), fmt.Sprintf("h%d", nameCtr)
				fmt.Fprintf(&sb, "  invoke %s to label %s unwind label %%%s\n", voidCallee(), nextLabel(), cs)
				fmt.Fprintf(&sb, "%s:\n", cs)
				vals = append(vals, c08Val{"block", -1, cs})
				rhs := fmt.Sprintf("catchswitch within none [label %%%s] unwind to caller", h)
				if explicit() {
					fmt.Fprintf(&sb, "  %%%d = %s\n", id, rhs)
				} else {
					fmt.Fprintf(&sb, "  %s\n", rhs)
				}
				vals = append(vals, c08Val{"term", id, ""})
				fmt.Fprintf(&sb, "%s:\n  %%cp%d = catchpad within %%%d []\n  catchret from %%cp%d to label %s\n", h, nameCtr, id, nameCtr, nextLabel())
				vals = append(vals, c08Val{"block", -1, h})
				vals = append(vals, c08Val{"inst", -1, fmt.Sprintf("cp%d", nameCtr)})
				terminated = true
			case 'K':
				fmt.Fprintf(&sb, "  callbr %s asm \"\", \"\"() to label %s []\n", []string{"void", "void ()"}[rng.Intn(2)], nextLabel())
				terminated = true
			case 'k':
				id := numOf[[2]int{bi, ii}]
				rhs := fmt.Sprintf("callbr i32 asm \"\", \"=r\"() to label %s []", nextLabel())
				if explicit() {
					fmt.Fprintf(&sb, "  %%%d = %s\n", id, rhs)
				} else {
					fmt.Fprintf(&sb, "  %s\n", rhs)
				}
				vals = append(vals, c08Val{"term", id, ""})
				terminated = true
			}
		}
		if !terminated {
			fmt.Fprintf(&sb, "  br label %s\n", nextLabel())
		}
	}
	sb.WriteString("exit:\n  ret void\nlpad:\n  %lp = landingpad { i8*, i32 } cleanup\n  ret void\n}\n")
	return sb.String(), vals
}

func c08Shapes(maxLen int) []string {
	out := []string{""}
	cur := []string{""}
	for l := 1; l <= maxLen; l++ {
		var next []string
		for _, p := range cur {
			for _, it := range c08Items {
				next = append(next, p+it)
			}
		}
		out = append(out, next...)
		cur = next
	}
	return out
}

func genC08(ctx *fw.Ctx) []fw.Case {
	var cases []fw.Case
	shapes := c08Shapes(ctx.Pick(3, 4))
	rng := ctx.Rand("c08shapes")
	for i := 0; i < ctx.Pick(600, 12000); i++ {
		n := 5 + rng.Intn(12)
		var sb strings.Builder
		for k := 0; k < n; k++ {
			sb.WriteString(c08Items[rng.Intn(len(c08Items))])
		}
		shapes = append(shapes, sb.String())
	}
	const per = 60
	for i := 0; i < len(shapes); i += per {
		j := i + per
		if j > len(shapes) {
			j = len(shapes)
		}
		part := shapes[i:j]
		i := i
		cases = append(cases, fw.Case{ID: fmt.Sprintf("funcs/%d", i/per), Run: func(r *fw.Rec) { c08FuncBatch(r, part, i) }})
	}
	mshapes := c08ModuleShapes(ctx.Pick(3, 4))
	for i := 0; i < ctx.Pick(400, 6000); i++ {
		n := 4 + rng.Intn(7)
		var sb strings.Builder
		for k := 0; k < n; k++ {
			sb.WriteByte("GgAaIiDdFf"[rng.Intn(10)])
		}
		mshapes = append(mshapes, sb.String())
	}
	const mper = 40
	for i := 0; i < len(mshapes); i += mper {
		j := i + mper
		if j > len(mshapes) {
			j = len(mshapes)
		}
		part := mshapes[i:j]
		cases = append(cases, fw.Case{ID: fmt.Sprintf("modules/%d", i/mper), Run: func(r *fw.Rec) { c08ModuleBatch(r, part) }})
	}
	cases = append(cases, fw.Case{ID: "api/numbers-used-outside-their-function", Run: c08APIOutsideUses})
	cases = append(cases, fw.Case{ID: "params/named-among-numbered", Run: c08ParamSpellings})
	cases = append(cases, fw.Case{ID: "spellings/empty-names-and-interleaved-definitions", Run: c08OtherSpellings})
	cases = append(cases, fw.Case{ID: "numbers-on-terminator-results", Run: c08TerminatorNumbers})
	cases = append(cases, fw.Case{ID: "api/function-printed-edited-printed", Run: c08APIFuncPrintEditPrint})
	return cases
}

// c08ParamSpellings writes parameter lists in which named parameters stand
// among explicitly numbered ones (`i32 %x, i32 %0, i32 %y, i32 %1`): a named
// parameter consumes no number. Declarations and definitions; the parser must
// accept what LLVM accepts, give every parameter its number, and bind the %N of
// the body to the right parameter (the body returns a weighted sum that lli
// evaluates).
// c08FirstParamImplicit: LLVM 14 does not count an implicit (unnamed, unnumbered)
// first parameter when it checks the explicit numbers of the later ones, so it
// accepts `define i32 @f(i32, i32 %0)` (and reads %0 of the body as the first
// parameter). These numberings are part of what "LLVM accepts".
func c08FirstParamImplicit(r *fw.Rec) {
	inputs := map[string]string{
		"definition":  "define i32 @f(i32, i32 %0) {\n  ret i32 %0\n}\ndefine i32 @main() {\n  %r = call i32 @f(i32 7, i32 9)\n  ret i32 %r\n}\n",
		"declaration": "declare void @f(i32, i32 %0)\n",
		"three":       "define i32 @f(i32, i32 %0, i32 %1) {\n  %4 = add i32 %1, %2\n  ret i32 %4\n}\ndefine i32 @main() {\n  %r = call i32 @f(i32 100, i32 20, i32 3)\n  ret i32 %r\n}\n",
	}
	want := map[string]int{"definition": 7, "three": 23}
	for _, name := range fw.SortedKeys(inputs) {
		x := inputs[name]
		if okl, _, err := llvmref.Accepts(x); err != nil || !okl {
			r.Inconclusive("first-parameter-implicit input not accepted by LLVM 14")
			continue
		}
		r.Eval(1)
		key := "params/rejected/class:first-parameter-implicit-later-ones-explicit"
		m, perr, pmsg := parseGuard("c08-first-param", x)
		if pmsg != "" || perr != nil {
			what := pmsg
			if perr != nil {
				what = perr.Error()
			}
			r.Violate(fw.Violation{Key: key, Input: x, What: "a parameter numbering LLVM 14 accepts (" + name + ") is rejected by the parser: " + firstLine(what)})
			continue
		}
		if w, ok := want[name]; ok {
			y, pp := printGuard(m)
			if pp != "" {
				r.Violate(fw.Violation{Key: "params/first-implicit/print-panic", Input: x, What: firstLine(pp)})
				continue
			}
			if got, ok, _ := lliExit(y); ok && got != w {
				r.Violate(fw.Violation{Key: "params/first-implicit/wrong-binding", Input: x, What: fmt.Sprintf("the printed module computes %d, LLVM 14 reads the input as %d", got, w), Observed: y})
				continue
			}
		}
		r.Nontrivial(x)
		r.Tally("params", "first-implicit:ok")
	}
}

// c08LiteralVoidCalls: void calls take no number. The calls are built as struct
// literals (no cached type yet) among unnamed instructions, with direct,
// bitcast and function-pointer callees; the first print of the never-numbered
// function must carry LLVM's numbering (LLVM accepts it), and the second print
// must be the same text.
func c08LiteralVoidCalls(r *fw.Rec) {
	for variant := 0; variant < 4; variant++ {
		r.Eval(1)
		var first, second string
		pan, msg, _ := fw.Guard(func() {
			m := ir.NewModule()
			g := m.NewFunc("g", types.Void)
			h := m.NewFunc("h", types.I32)
			f := m.NewFunc("f", types.I32, ir.NewParam("", types.I32), ir.NewParam("", types.NewPointer(types.NewFunc(types.Void))))
			b := f.NewBlock("")
			a := b.NewAdd(f.Params[0], constant.NewInt(types.I32, 1))
			var callee value.Value = g
			switch variant {
			case 1:
				callee = f.Params[1]
			case 2:
				callee = constant.NewBitCast(h, types.NewPointer(types.NewFunc(types.Void)))
			}
			b.Insts = append(b.Insts, &ir.InstCall{Callee: callee})
			if variant == 3 {
				b.Insts = append(b.Insts, &ir.InstCall{Callee: h}, &ir.InstCall{Callee: g}) // a non-void literal call takes a number
			}
			c := b.NewMul(a, a)
			b.Insts = append(b.Insts, &ir.InstCall{Callee: callee})
			d := b.NewSub(c, a)
			b.NewRet(d)
			first = f.LLString()
			second = f.LLString()
		})
		key := fmt.Sprintf("literal-void-call/variant-%d", variant)
		if pan {
			r.Violate(fw.Violation{Key: key + "/panic", What: "printing a function with void calls built as struct literals panics: " + firstLine(msg)})
			continue
		}
		if first != second {
			r.Violate(fw.Violation{Key: key + "/prints-differ", What: "the first and the second print of a function with literal-built void calls differ: " + firstDiffLines(first, second), Expected: first, Observed: second})
			continue
		}
		if ok, lmsg, err := llvmref.Accepts("declare void @g()\ndeclare i32 @h()\n" + first); err == nil && !ok {
			r.Violate(fw.Violation{Key: key + "/numbering-invalid", What: "LLVM rejects the numbering of the first print: " + firstLine(lastDiag(lmsg)), Observed: first})
			continue
		}
		r.Nontrivial(key)
		r.Tally("api", "literal-void-calls:ok")
	}
}

func c08ParamSpellings(r *fw.Rec) {
	c08FirstParamImplicit(r)
	c08LiteralVoidCalls(r)
	rng := r.Ctx().Rand("c08params")
	for round := 0; round < r.Ctx().Pick(60, 600); round++ {
		n := 2 + rng.Intn(5)
		var ps []string
		var ids []int64 // expected ID per parameter, -1 for named
		next := int64(0)
		for i := 0; i < n; i++ {
			if rng.Intn(2) == 0 {
				ps = append(ps, fmt.Sprintf("i32 %%n%d", i))
				ids = append(ids, -1)
			} else {
				ps = append(ps, fmt.Sprintf("i32 %%%d", next))
				ids = append(ids, next)
				next++
			}
		}
		if next == 0 {
			continue
		}
		var body strings.Builder
		// sum of (i+1)*param_i
		acc := "0"
		cur := next + 1 // entry block takes number next
		for i := 0; i < n; i++ {
			name := fmt.Sprintf("%%n%d", i)
			if ids[i] >= 0 {
				name = fmt.Sprintf("%%%d", ids[i])
			}
			fmt.Fprintf(&body, "  %%%d = mul i32 %s, %d\n", cur, name, i+1)
			fmt.Fprintf(&body, "  %%%d = add i32 %%%d, %s\n", cur+1, cur, acc)
			acc = fmt.Sprintf("%%%d", cur+1)
			cur += 2
		}
		fmt.Fprintf(&body, "  ret i32 %s\n", acc)
		var args []string
		want := 0
		for i := 0; i < n; i++ {
			args = append(args, fmt.Sprintf("i32 %d", 10+i))
			want += (i + 1) * (10 + i)
		}
		x := "declare void @decl(" + strings.Join(ps, ", ") + ")\n" +
			"define i32 @def(" + strings.Join(ps, ", ") + ") {\n" + body.String() + "}\n" +
			"define i32 @main() {\n  %r = call i32 @def(" + strings.Join(args, ", ") + ")\n  %m = urem i32 %r, 251\n  ret i32 %m\n}\n"
		okl, _, err := llvmref.Accepts(x)
		if err != nil {
			r.Inconclusive("llvm tool failure")
			continue
		}
		if !okl {
			r.Inconclusive("generated parameter list not valid for LLVM 14 (generator issue)")
			continue
		}
		r.Eval(1)
		m, perr, pmsg := parseGuard("c08-params", x)
		if pmsg != "" || perr != nil {
			what := pmsg
			if perr != nil {
				what = perr.Error()
			}
			r.Violate(fw.Violation{Key: "params/rejected", Input: x, What: "a parameter numbering LLVM accepts is rejected by the parser: " + firstLine(what)})
			return
		}
		for _, f := range m.Funcs[:2] {
			for i, p := range f.Params {
				if ids[i] >= 0 && (!p.IsUnnamed() || p.ID() != ids[i]) {
					r.Violate(fw.Violation{Key: "params/wrong-id", Input: x, What: fmt.Sprintf("parameter %d of %s was written %%%d and is %s", i, f.Ident(), ids[i], p.Ident())})
					return
				}
			}
		}
		y, pp := printGuard(m)
		if pp != "" {
			r.Violate(fw.Violation{Key: "params/print-panic", Input: x, What: firstLine(pp)})
			return
		}
		got, ok, note := lliExit(y)
		if !ok {
			r.Inconclusive("lli: " + note)
			continue
		}
		if got != want%251 {
			r.Violate(fw.Violation{Key: "params/wrong-binding", Input: x, What: fmt.Sprintf("the printed module computes %d, the input denotes %d: a %%N of the body is bound to another parameter", got, want%251), Observed: y})
			return
		}
		r.Nontrivial(x)
		r.Tally("params", "named-among-numbered:ok")
	}
}

// c08APIFuncPrintEditPrint numbers a constructed function by printing it on
// its own (Func.LLString), edits it without adding a block (an instruction put
// in front of the others, a value replaced by a void call, an instruction
// removed), and prints it on its own again: the text must be the text of a
// twin that was built in its final shape and never printed before, and valid
// for LLVM.
func c08APIFuncPrintEditPrint(r *fw.Rec) {
	type edit struct {
		name string
		fn   func(m *ir.Module, f *ir.Func)
	}
	vf := func(m *ir.Module) *ir.Func {
		for _, f := range m.Funcs {
			if f.Name() == "vf" {
				return f
			}
		}
		return nil
	}
	edits := []edit{
		{"insert-value-in-front", func(m *ir.Module, f *ir.Func) {
			b := f.Blocks[0]
			inst := ir.NewMul(f.Params[0], f.Params[0])
			b.Insts = append([]ir.Instruction{inst}, b.Insts...)
		}},
		{"insert-void-call-in-front", func(m *ir.Module, f *ir.Func) {
			b := f.Blocks[0]
			b.Insts = append([]ir.Instruction{ir.NewCall(vf(m))}, b.Insts...)
		}},
		{"remove-first-instruction-of-second-block", func(m *ir.Module, f *ir.Func) {
			b := f.Blocks[1]
			b.Insts = b.Insts[1:]
		}},
		{"insert-value-in-second-block", func(m *ir.Module, f *ir.Func) {
			b := f.Blocks[1]
			inst := ir.NewSub(f.Params[0], f.Params[0])
			b.Insts = append([]ir.Instruction{inst}, b.Insts...)
		}},
	}
	build := func() (*ir.Module, *ir.Func) {
		m := ir.NewModule()
		v := m.NewFunc("vf", types.Void)
		_ = v
		f := m.NewFunc("f", types.I32, ir.NewParam("", types.I32))
		entry := f.NewBlock("")
		a := entry.NewAdd(f.Params[0], constant.NewInt(types.I32, 1))
		b2 := entry.NewAdd(a, constant.NewInt(types.I32, 2))
		next := f.NewBlock("")
		entry.NewBr(next)
		next.NewAdd(f.Params[0], constant.NewInt(types.I32, 5)) // unused, removable
		c := next.NewAdd(b2, constant.NewInt(types.I32, 3))
		next.NewRet(c)
		return m, f
	}
	for _, observer := range []string{"Func.LLString", "Module.String", "Func.AssignIDs"} {
		for _, e := range edits {
			r.Eval(1)
			var got, want string
			p, msg, _ := fw.Guard(func() {
				m, f := build()
				switch observer {
				case "Func.LLString":
					_ = f.LLString()
				case "Module.String":
					_ = m.String()
				case "Func.AssignIDs":
					_ = f.AssignIDs()
				}
				e.fn(m, f)
				got = f.LLString()
				m2, f2 := build()
				e.fn(m2, f2)
				want = f2.LLString()
			})
			key := "api-func-print-edit-print/" + observer + "/" + e.name
			if p {
				r.Violate(fw.Violation{Key: key, What: "printing a function again after an edit panics: " + firstLine(msg)})
				continue
			}
			if got != want {
				r.Violate(fw.Violation{Key: key, What: "a function numbered once (" + observer + "), edited (" + e.name + ") and printed on its own is not numbered afresh: " + firstDiffLines(want, got), Expected: want, Observed: got})
				continue
			}
			if ok, lmsg, err := llvmref.Accepts("declare void @vf()\n" + got); err == nil && !ok {
				r.Violate(fw.Violation{Key: key + "/llvm", Input: got, What: "LLVM rejects the function text: " + firstLine(lastDiag(lmsg))})
				continue
			}
			r.Nontrivial(key)
			r.Tally("api", "func-print-edit-print:ok")
		}
	}
}

const c08Prelude = "%vfn = type void ()\n%ifn = type i32 ()\ndeclare i32 @pers(...)\ndeclare void @vf()\ndeclare void @vv(...)\ndeclare i32 @if()\ndeclare void ()* @getfp()\n@scratch = global i32 0\n"

func c08FuncBatch(r *fw.Rec, shapes []string, base int) {
	rng := r.Ctx().Rand(fmt.Sprintf("c08/%d", base))
	paramOpts := []string{"", "P", "p", "pP", "Pp", "pp"}
	for mode := 0; mode < 3; mode++ {
		var sb strings.Builder
		sb.WriteString(c08Prelude)
		type fn struct {
			name  string
			shape string
			vals  []c08Val
		}
		var fns []fn
		sink := 0
		for i, sh := range shapes {
			params := paramOpts[(i+mode+base)%len(paramOpts)]
			name := fmt.Sprintf("@f%d", i)
			text, vals := c08Func(name, params, sh, mode, rng, sink)
			nsinks := strings.Count(text, "@sink")
			sink += nsinks
			sb.WriteString(text)
			fns = append(fns, fn{name, params + "|" + sh, vals})
		}
		for k := 0; k < sink; k++ {
			fmt.Fprintf(&sb, "@sink%d = global i32 0\n", k)
		}
		// the numbers are also used from outside: a table of the addresses of the
		// unnamed non-entry blocks before the functions (LLVM takes the address of
		// a numeric label only before the function is defined)
		var basNum, basNamed []string
		for _, fnn := range fns {
			first := true
			for _, v := range fnn.vals {
				if v.kind != "block" {
					continue
				}
				if first {
					first = false
					continue
				}
				if v.id >= 0 {
					basNum = append(basNum, fmt.Sprintf("i8* blockaddress(%s, %%%d)", fnn.name, v.id))
				}
				// (named blocks of the same functions are left alone: LLVM 14 mixes up a
				// forward numeric and a named blockaddress into one function)
			}
		}
		body := sb.String()
		sb.Reset()
		if len(basNum) > 0 {
			fmt.Fprintf(&sb, "@block.table.numbered = global [%d x i8*] [%s]\n", len(basNum), strings.Join(basNum, ", "))
		}
		sb.WriteString(body)
		if len(basNamed) > 0 {
			fmt.Fprintf(&sb, "@block.table.named = global [%d x i8*] [%s]\n", len(basNamed), strings.Join(basNamed, ", "))
		}
		text := sb.String()
		modeName := []string{"explicit", "implicit", "mixed"}[mode]
		canonX, msg, ok, _, err := llvmref.Canon(text)
		if err != nil {
			r.Inconclusive("llvm tool failure")
			continue
		}
		if !ok {
			r.Inconclusive("LLVM rejects a generated numbering batch (model or generator at fault): " + classify(firstLine(lastDiag(msg))))
			r.Note("LLVM rejected function batch " + fmt.Sprint(base) + "/" + modeName + ": " + firstLine(lastDiag(msg)))
			continue
		}
		// parses that fail inside a function body, at different stages of its
		// translation, come first: what a failed parse leaves behind in the process
		// (pooled tables of local names, counters) must not change how the numbering
		// of the next, valid module is read
		for _, bad := range c08FailingBodies {
			_, berr, bmsg := parseGuard("c08-failing-body", bad)
			if berr == nil && bmsg == "" {
				r.Note("a body meant to fail was accepted: " + firstLine(bad))
			}
			r.Tally("batches", "failing-body-parsed-before-the-batch")
		}
		m, perr, pmsg := parseGuard("c08", text)
		if pmsg != "" || perr != nil {
			what := pmsg
			if perr != nil {
				what = perr.Error()
			}
			r.Violate(fw.Violation{Key: "numbering-rejected/functions/" + modeName + "/" + classify(firstLine(what)), Input: text,
				What: "a numbering LLVM accepts (" + modeName + ") is rejected by the parser: " + firstLine(what)})
			continue
		}
		byName := map[string]*ir.Func{}
		for _, f := range m.Funcs {
			byName["@"+f.GlobalName] = f
		}
		for _, fnn := range fns {
			f := byName[fnn.name]
			r.Eval(1)
			if f == nil {
				continue
			}
			c08CheckFunc(r, f, fnn.shape, modeName, fnn.vals, text)
			hasUnnamed := false
			for _, v := range fnn.vals {
				if v.id >= 0 {
					hasUnnamed = true
				}
			}
			if hasUnnamed {
				r.Nontrivial(fnn.shape + "/" + modeName)
			}
		}
		y, pp := printGuard(m)
		if pp != "" {
			r.Violate(fw.Violation{Key: "print-fails/functions/" + modeName, Input: text, What: "String() fails on a module the parser produced: " + firstLine(pp)})
			continue
		}
		canonY, msgY, okY, _, err := llvmref.Canon(y)
		if err != nil {
			continue
		}
		if !okY {
			r.Violate(fw.Violation{Key: "printed-numbering-invalid/functions/" + modeName, Input: text, What: "LLVM rejects the printed numbering: " + firstLine(lastDiag(msgY)), Observed: y})
			continue
		}
		if canonX != canonY {
			r.Violate(fw.Violation{Key: "numbering-changes-meaning/functions/" + modeName, Input: text, What: "LLVM reads the printed module differently, " + llvmref.DiffLines(canonX, canonY), Expected: canonX, Observed: canonY})
		}
		r.Tally("batches", "functions:"+modeName)
	}
	r.Sample(map[string]interface{}{"function_shapes": shapes[:min(4, len(shapes))], "alphabet": "B/b named/unnamed block, A/a add, s store, f fence, v void call, c call, I/i invoke, K/k callbr, w invoke+unnamed catchswitch", "modes": []string{"explicit", "implicit", "mixed"}})
}

// c08FailingBodies are modules whose translation fails inside a function
// body: after the locals were indexed (an undefined local, an undefined label),
// while they are indexed (a number out of sequence late in the body, a name
// defined twice) and while instructions are typed (an operand of the wrong type).
var c08FailingBodies = []string{
	"define i32 @f(i32) {\n  %2 = add i32 %0, 1\n  %3 = add i32 %2, %9\n  ret i32 %3\n}\n",
	"define i32 @f(i32) {\n  %2 = add i32 %0, 1\n  br label %7\n  ret i32 %2\n}\n",
	"define i32 @f(i32) {\n  %2 = add i32 %0, 1\n  %3 = add i32 %2, 1\n  %5 = add i32 %3, 1\n  ret i32 %5\n}\n",
	"define i32 @f(i32 %a) {\n  %x = add i32 %a, 1\n  %1 = add i32 %x, 1\n  %x = add i32 %1, 1\n  ret i32 %x\n}\n",
	"define i32 @f(i32, i64) {\n  %3 = add i32 %0, 1\n  %4 = add i32 %3, %1\n  ret i32 %4\n}\n",
	"define void @f() {\n  call void @g()\n  %1 = call i32 @h()\n  ret void\n}\ndeclare void @g()\n",
}

// c08CheckFunc compares the parsed function with the model.
func c08CheckFunc(r *fw.Rec, f *ir.Func, shape, mode string, vals []c08Val, text string) {
	// objects in LLVM's numbering order
	var objs []interface{}
	for _, p := range f.Params {
		objs = append(objs, p)
	}
	for _, b := range f.Blocks {
		if b.LocalName == "exit" || b.LocalName == "lpad" {
			continue
		}
		objs = append(objs, b)
		for _, inst := range b.Insts {
			switch inst.(type) {
			case *ir.InstAdd:
				objs = append(objs, inst)
			case *ir.InstCall:
				if !inst.(*ir.InstCall).Type().Equal(f.Sig.RetType) { // non-void (f returns void)
					objs = append(objs, inst)
				}
			case *ir.InstCatchPad:
				objs = append(objs, inst)
			}
		}
		switch t := b.Term.(type) {
		case *ir.TermInvoke:
			if !t.Type().Equal(f.Sig.RetType) {
				objs = append(objs, t)
			}
		case *ir.TermCallBr:
			if !t.Type().Equal(f.Sig.RetType) {
				objs = append(objs, t)
			}
		case *ir.TermCatchSwitch:
			objs = append(objs, t)
		}
	}
	key := func(what string) string { return fmt.Sprintf("%s/%s/%s", what, mode, shape) }
	if len(objs) != len(vals) {
		r.Violate(fw.Violation{Key: key("shape-mismatch"), Input: text, What: fmt.Sprintf("function %s (shape %s): %d numbered/named objects after parsing, the model has %d", f.Ident(), shape, len(objs), len(vals))})
		return
	}
	type idn interface {
		IsUnnamed() bool
		ID() int64
		Name() string
	}
	for i, v := range vals {
		o, ok := objs[i].(idn)
		if !ok {
			continue
		}
		if v.id >= 0 {
			if !o.IsUnnamed() || o.ID() != int64(v.id) {
				r.Violate(fw.Violation{Key: key("wrong-id"), Input: text,
					What: fmt.Sprintf("function %s (shape %s, %s): the %d-th value (%s) should be %%%d, the parser has unnamed=%v id=%d", f.Ident(), shape, mode, i, v.kind, v.id, o.IsUnnamed(), o.ID())})
				return
			}
		} else if o.IsUnnamed() {
			r.Violate(fw.Violation{Key: key("name-lost"), Input: text, What: fmt.Sprintf("function %s: value %s parsed as unnamed", f.Ident(), v.name)})
			return
		}
	}
	// binding: the k-th sink store must hold the k-th add/call result
	var defs []value.Value
	var stored []value.Value
	for _, b := range f.Blocks {
		for _, inst := range b.Insts {
			switch x := inst.(type) {
			case *ir.InstAdd:
				defs = append(defs, x)
			case *ir.InstCall:
				if !x.Type().Equal(f.Sig.RetType) {
					defs = append(defs, x)
				}
			case *ir.InstStore:
				if g, ok := x.Dst.(*ir.Global); ok && strings.HasPrefix(g.GlobalName, "sink") {
					if pti, ok := x.Src.(*ir.InstPtrToInt); ok {
						stored = append(stored, pti.From) // function-pointer results are stored through a ptrtoint
					} else {
						stored = append(stored, x.Src)
					}
				}
			}
		}
	}
	if len(defs) == len(stored) {
		for i := range defs {
			if defs[i] != stored[i] {
				r.Violate(fw.Violation{Key: key("wrong-binding"), Input: text,
					What: fmt.Sprintf("function %s (shape %s, %s): the use of the %d-th value is bound to %s instead of %s", f.Ident(), shape, mode, i, stored[i].Ident(), defs[i].Ident())})
				return
			}
			r.Tally("bindings", "checked")
		}
	}
	// numbering again changes nothing
	before := f.LLString()
	if err := f.AssignIDs(); err != nil {
		r.Violate(fw.Violation{Key: key("renumber-error"), Input: text, What: "AssignIDs on an already numbered function fails: " + err.Error()})
		return
	}
	if after := f.LLString(); after != before {
		r.Violate(fw.Violation{Key: key("renumber-changes"), Input: text, What: "numbering an already numbered function changes it", Expected: before, Observed: after})
	}
}

// --- module shapes ---

// G/g named/unnamed global, A/a alias, I/i ifunc, D/d declaration, F/f definition
func c08ModuleShapes(maxLen int) []string {
	out := []string{}
	cur := []string{""}
	for l := 1; l <= maxLen; l++ {
		var next []string
		for _, p := range cur {
			for _, it := range "GgAaIiDdFf" {
				next = append(next, p+string(it))
			}
		}
		out = append(out, next...)
		cur = next
	}
	return out
}

func c08ModuleText(shape string) (string, []string) {
	var sb strings.Builder
	sb.WriteString("@tgt = global i32 0\ndefine void ()* @resolver() {\n  ret void ()* null\n}\n")
	next := 0
	var refs []string // reference (with type) of each entity in definition order
	for i, it := range shape {
		name := fmt.Sprintf("@n%d", i)
		unnamed := it >= 'a' && it <= 'z'
		if unnamed {
			name = fmt.Sprintf("@%d", next)
			next++
		}
		switch it {
		case 'G', 'g':
			fmt.Fprintf(&sb, "%s = global i32 %d\n", name, i)
			refs = append(refs, "i8* bitcast (i32* "+name+" to i8*)")
		case 'A', 'a':
			fmt.Fprintf(&sb, "%s = alias i32, i32* @tgt\n", name)
			refs = append(refs, "i8* bitcast (i32* "+name+" to i8*)")
		case 'I', 'i':
			fmt.Fprintf(&sb, "%s = ifunc void (), void ()* ()* @resolver\n", name)
			refs = append(refs, "i8* bitcast (void ()* "+name+" to i8*)")
		case 'D', 'd':
			fmt.Fprintf(&sb, "declare void %s()\n", name)
			refs = append(refs, "i8* bitcast (void ()* "+name+" to i8*)")
		case 'F', 'f':
			fmt.Fprintf(&sb, "define void %s() {\n  ret void\n}\n", name)
			refs = append(refs, "i8* bitcast (void ()* "+name+" to i8*)")
		}
	}
	fmt.Fprintf(&sb, "@use = global [%d x i8*] [%s]\n", len(refs), strings.Join(refs, ", "))
	return sb.String(), refs
}

func c08ModuleBatch(r *fw.Rec, shapes []string) {
	for _, sh := range shapes {
		text, _ := c08ModuleText(sh)
		r.Eval(1)
		canonX, msg, ok, _, err := llvmref.Canon(text)
		if err != nil {
			r.Inconclusive("llvm tool failure")
			continue
		}
		if !ok {
			r.Inconclusive("LLVM rejects a generated module shape: " + classify(firstLine(lastDiag(msg))))
			continue
		}
		hasUnnamed := strings.ToUpper(sh) != sh
		m, perr, pmsg := parseGuard("c08", text)
		if pmsg != "" || perr != nil {
			what := pmsg
			if perr != nil {
				what = perr.Error()
			}
			r.Violate(fw.Violation{Key: "numbering-rejected/module/" + sh, Input: text, What: "a module numbering LLVM accepts is rejected by the parser: " + firstLine(what)})
			continue
		}
		// binding: the i-th element of @use must be the i-th entity in textual order
		var use *ir.Global
		for _, g := range m.Globals {
			if g.GlobalName == "use" {
				use = g
			}
		}
		if arr, ok := use.Init.(*constant.Array); ok {
			for i, e := range arr.Elems {
				var tgt constant.Constant = e
				if bc, ok := e.(*constant.ExprBitCast); ok {
					tgt = bc.From
				}
				wantKind := map[byte]string{'G': "*ir.Global", 'A': "*ir.Alias", 'I': "*ir.IFunc", 'D': "*ir.Func", 'F': "*ir.Func"}[strings.ToUpper(sh)[i]]
				gotKind := fmt.Sprintf("%T", tgt)
				if gotKind != wantKind {
					r.Violate(fw.Violation{Key: "wrong-global-binding/" + sh, Input: text, What: fmt.Sprintf("module shape %s: the %d-th reference is bound to a %s, it should be the %s defined at that position", sh, i, gotKind, wantKind)})
					break
				}
				if f, ok := tgt.(*ir.Func); ok {
					isDef := len(f.Blocks) > 0
					if isDef != (strings.ToUpper(sh)[i] == 'F') {
						r.Violate(fw.Violation{Key: "wrong-global-binding/" + sh, Input: text, What: fmt.Sprintf("module shape %s: the %d-th reference is bound to the wrong function (definition=%v)", sh, i, isDef)})
						break
					}
				}
				r.Tally("bindings", "globals-checked")
			}
		}
		y, pp := printGuard(m)
		if pp != "" {
			r.Violate(fw.Violation{Key: "print-fails/module/" + sh, Input: text, What: "String() fails on a module the parser produced: " + firstLine(pp)})
			continue
		}
		if err := m.AssignGlobalIDs(); err != nil {
			r.Violate(fw.Violation{Key: "renumber-error/module/" + sh, Input: text, What: "AssignGlobalIDs on an already numbered module fails: " + err.Error()})
		}
		if y2, _ := printGuard(m); y2 != y {
			r.Violate(fw.Violation{Key: "renumber-changes/module/" + sh, Input: text, What: "numbering an already numbered module changes its text", Expected: y, Observed: y2})
		}
		canonY, msgY, okY, _, err := llvmref.Canon(y)
		if err != nil {
			continue
		}
		if !okY {
			r.Violate(fw.Violation{Key: "printed-numbering-invalid/module/" + sh, Input: text, What: "LLVM rejects the printed global numbering: " + firstLine(lastDiag(msgY)), Observed: y})
			continue
		}
		if canonX != canonY {
			r.Violate(fw.Violation{Key: "numbering-changes-meaning/module/" + sh, Input: text, What: "LLVM reads the printed module differently, " + llvmref.DiffLines(canonX, canonY), Expected: canonX, Observed: canonY})
			continue
		}
		if hasUnnamed {
			r.Nontrivial("module/" + sh)
		}
		r.Tally("module_shapes", fmt.Sprintf("len%d", len(sh)))
	}
	r.Sample(map[string]interface{}{"module_shapes": shapes[:min(5, len(shapes))], "alphabet": "G/g named/unnamed global, A/a alias, I/i ifunc, D/d declaration, F/f definition"})
}

// c08APIOutsideUses: modules built through the API in which the number of an
// unnamed block is used outside its function (global initializers, earlier
// functions), with and without global variables, with 1-3 unnamed values in
// front of the block. The first print of the never printed module must carry the
// numbers LLVM expects (llvm-as accepts it and reads it like the second print).
func c08APIOutsideUses(r *fw.Rec) {
	for withGlobals := 0; withGlobals < 2; withGlobals++ {
		for extra := 0; extra < 3; extra++ {
			m := ir.NewModule()
			mk := func(name string) (*ir.Func, *ir.Block) {
				f := m.NewFunc(name, types.I32, ir.NewParam("", types.I32))
				entry := f.NewBlock("")
				var v value.Value = f.Params[0]
				for k := 0; k <= extra; k++ {
					v = entry.NewAdd(v, constant.NewInt(types.I32, 1))
				}
				target := f.NewBlock("")
				entry.NewBr(target)
				target.NewRet(v)
				return f, target
			}
			user := m.NewFunc("user", types.I8Ptr)
			fb, tb := mk("later")
			user.NewBlock("").NewRet(constant.NewBlockAddress(fb, tb))
			if withGlobals == 1 {
				m.NewGlobalDef("slot", constant.NewBlockAddress(fb, tb))
			}
			want := fmt.Sprintf("blockaddress(@later, %%%d)", extra+3)
			first, pp := printGuard(m)
			r.Eval(1)
			if pp != "" {
				r.Violate(fw.Violation{Key: "api-print-panic/outside-use", What: firstLine(pp)})
				continue
			}
			if !strings.Contains(first, want) {
				r.Violate(fw.Violation{Key: fmt.Sprintf("api-wrong-number/outside-use/globals=%d", withGlobals), Input: first,
					What: fmt.Sprintf("the first print of a constructed module does not contain %s (the block is the %dth numbered value of @later)", want, extra+4), Observed: first})
				continue
			}
			if ok, msg, err := llvmref.Accepts(first); err == nil && !ok {
				r.Violate(fw.Violation{Key: fmt.Sprintf("api-printed-numbering-invalid/outside-use/globals=%d", withGlobals), Input: first, What: "LLVM rejects the first print: " + firstLine(lastDiag(msg))})
				continue
			}
			if second, _ := printGuard(m); second != first {
				r.Violate(fw.Violation{Key: "api-second-print-differs/outside-use", Input: first, What: "numbering an already numbered module again changes the text: " + firstDiffLines(first, second)})
				continue
			}
			r.Nontrivial(fmt.Sprintf("api-outside-use/%d/%d", withGlobals, extra))
		}
	}
}

// c08OtherSpellings writes numberings in two rarely used spellings LLVM accepts:
// (a) the empty quoted name (`%"" = ...`, `"":`, `@"" = ...`, a parameter `%""`),
// which stands for "unnamed, next number" in any position, next to its twin
// written with explicit numbers: both must parse and print the same text;
// (b) attribute-group and metadata definitions placed between unnamed globals
// and functions (their own numbers have nothing to do with the numbering of
// globals), with IDs chosen to differ from the number the next global gets.
func c08OtherSpellings(r *fw.Rec) {
	rng := r.Ctx().Rand("c08other")
	for round := 0; round < r.Ctx().Pick(40, 400); round++ {
		// (a)
		nparams := rng.Intn(3)
		nblocks := 1 + rng.Intn(3)
		var a, b strings.Builder // a: empty quoted names, b: explicit numbers
		var ps1, ps2 []string
		next := 0
		for i := 0; i < nparams; i++ {
			ps1 = append(ps1, "i32 %\"\"")
			ps2 = append(ps2, fmt.Sprintf("i32 %%%d", next))
			next++
		}
		fmt.Fprintf(&a, "define i32 @f(%s) {\n", strings.Join(ps1, ", "))
		fmt.Fprintf(&b, "define i32 @f(%s) {\n", strings.Join(ps2, ", "))
		last := "7"
		blockNums := make([]int, nblocks)
		var bodiesA, bodiesB []string
		// numbers are assigned in order: block, its instructions, next block, ...
		n := next
		type blk struct{ num, nInst int }
		var blks []blk
		for k := 0; k < nblocks; k++ {
			bl := blk{num: n, nInst: 1 + rng.Intn(3)}
			n += 1 + bl.nInst
			blks = append(blks, bl)
			blockNums[k] = bl.num
		}
		for k, bl := range blks {
			var ba, bb strings.Builder
			if k == 0 && rng.Intn(2) == 0 {
				// the entry block may also go without any label
			} else {
				ba.WriteString("\"\":\n")
				fmt.Fprintf(&bb, "%d:\n", bl.num)
			}
			for j := 0; j < bl.nInst; j++ {
				num := bl.num + 1 + j
				fmt.Fprintf(&ba, "  %%\"\" = add i32 %s, %d\n", last, j+1)
				fmt.Fprintf(&bb, "  %%%d = add i32 %s, %d\n", num, last, j+1)
				last = fmt.Sprintf("%%%d", num)
			}
			if k+1 < len(blks) {
				fmt.Fprintf(&ba, "  br label %%%d\n", blks[k+1].num)
				fmt.Fprintf(&bb, "  br label %%%d\n", blks[k+1].num)
			} else {
				fmt.Fprintf(&ba, "  ret i32 %s\n", last)
				fmt.Fprintf(&bb, "  ret i32 %s\n", last)
			}
			bodiesA = append(bodiesA, ba.String())
			bodiesB = append(bodiesB, bb.String())
		}
		a.WriteString(strings.Join(bodiesA, "") + "}\n")
		b.WriteString(strings.Join(bodiesB, "") + "}\n")
		// (b) unnamed globals and functions with attribute groups and metadata definitions between them
		var mod strings.Builder
		gnum := 0
		lastVar := -1
		ng := 2 + rng.Intn(4)
		for g := 0; g < ng; g++ {
			switch rng.Intn(3) {
			case 0:
				fmt.Fprintf(&mod, "@%d = global i32 %d\n", gnum, g)
				lastVar = gnum
			case 1:
				fmt.Fprintf(&mod, "@\"\" = global i32 %d\n", g)
				lastVar = gnum
			default:
				fmt.Fprintf(&mod, "define void @%d() #%d {\n  ret void, !t !%d\n}\n", gnum, 20+g, 30+g)
				fmt.Fprintf(&mod, "attributes #%d = { nounwind }\n!%d = !{i32 %d}\n", 20+g, 30+g, g)
			}
			gnum++
			if rng.Intn(2) == 0 {
				fmt.Fprintf(&mod, "attributes #%d = { noreturn }\n", 9-g)
			}
			if rng.Intn(2) == 0 {
				fmt.Fprintf(&mod, "!%d = !{!\"between\"}\n", 19-g)
			}
		}
		if lastVar >= 0 {
			fmt.Fprintf(&mod, "@last = global i32* @%d\n", lastVar)
		}
		xa, xb := a.String()+mod.String(), b.String()+mod.String()
		for _, x := range []string{xa, xb} {
			if ok, msg, err := llvmref.Accepts(x); err != nil || !ok {
				r.Inconclusive("generated spelling not valid for LLVM 14 (generator issue): " + classify(firstLine(lastDiag(msg))))
				r.Note("c08OtherSpellings rejected by LLVM: " + firstLine(lastDiag(msg)) + "\n" + x)
				xa = ""
			}
		}
		if xa == "" {
			continue
		}
		r.Eval(1)
		ma, ea, pa := parseGuard("c08-empty-names", xa)
		mb, eb, pb := parseGuard("c08-explicit-numbers", xb)
		if pa != "" || ea != nil || pb != "" || eb != nil {
			what := pa + pb
			if ea != nil {
				what = ea.Error()
			} else if eb != nil {
				what = eb.Error()
			}
			r.Violate(fw.Violation{Key: "spellings/rejected", Input: xa, What: "a numbering LLVM accepts (empty quoted names / definitions between unnamed globals) is rejected by the parser: " + firstLine(what), Observed: xb})
			return
		}
		ya, ppa := printGuard(ma)
		yb, ppb := printGuard(mb)
		if ppa != "" || ppb != "" {
			r.Violate(fw.Violation{Key: "spellings/print-panic", Input: xa, What: firstLine(ppa + ppb)})
			return
		}
		if ya != yb {
			r.Violate(fw.Violation{Key: "spellings/empty-names-numbered-differently", Input: xa, What: "the module written with empty quoted names prints differently from its twin written with explicit numbers: " + firstDiffLines(yb, ya), Expected: yb, Observed: ya})
			return
		}
		if ok, msg, err := llvmref.Accepts(ya); err == nil && !ok {
			r.Violate(fw.Violation{Key: "spellings/printed-numbering-invalid", Input: xa, What: "LLVM rejects the printed module: " + firstLine(lastDiag(msg)), Observed: ya})
			return
		}
		r.Nontrivial(xa)
		r.Tally("spellings", "empty-names-and-interleaved-definitions:ok")
	}
}

// c08TerminatorNumbers: the results of invoke, callbr and catchswitch take
// numbers like instruction results. Written with the right explicit number the
// module is accepted and every use is bound to that result; written with
// another number (what LLVM rejects) it must not be accepted with the number
// silently changed, which would bind later uses of the written number elsewhere.
func c08TerminatorNumbers(r *fw.Rec) {
	tmpl := map[string]string{
		"callbr":      "define i32 @f(i32 %x) {\nentry:\n  %0 = add i32 %x, 1\n  RES = callbr i32 asm \"\", \"=r,r,X\"(i32 %x, i8* blockaddress(@f, %ind)) to label %ok [label %ind]\nok:\n  %2 = add i32 %1, %0\n  ret i32 %2\nind:\n  ret i32 0\n}\n",
		"invoke":      "declare i32 @pers(...)\ndeclare i32 @g()\ndefine i32 @f() personality i32 (...)* @pers {\nentry:\n  %0 = add i32 1, 2\n  RES = invoke i32 @g() to label %ok unwind label %lp\nok:\n  %2 = add i32 %1, %0\n  ret i32 %2\nlp:\n  %l = landingpad i32 cleanup\n  ret i32 0\n}\n",
		"catchswitch": "declare i32 @pers(...)\ndefine void @f() personality i32 (...)* @pers {\nentry:\n  %0 = add i32 1, 2\n  invoke void @f() to label %ok unwind label %cs\nok:\n  ret void\ncs:\n  RES = catchswitch within none [label %h] unwind to caller\nh:\n  %2 = catchpad within %1 []\n  catchret from %2 to label %ok\n}\n",
	}
	for _, kind := range fw.SortedKeys(tmpl) {
		for _, written := range []string{"%1", "%0", "%2", "%7"} {
			x := strings.Replace(tmpl[kind], "RES", written, 1)
			okl, _, err := llvmref.Accepts(x)
			if err != nil {
				r.Inconclusive("llvm tool failure")
				continue
			}
			r.Eval(1)
			m, perr, pmsg := parseGuard("c08-term-numbers", x)
			key := fmt.Sprintf("terminator-numbers/%s/written=%s", kind, written)
			switch {
			case pmsg != "":
				r.Violate(fw.Violation{Key: key, Input: x, What: "the parser panics: " + firstLine(pmsg)})
			case okl && perr != nil:
				r.Violate(fw.Violation{Key: key, Input: x, What: "a numbering LLVM accepts is rejected: " + firstLine(perr.Error())})
			case !okl && perr == nil && m != nil:
				y, _ := printGuard(m)
				r.Violate(fw.Violation{Key: key, Input: x, What: fmt.Sprintf("the result of a %s written %s (LLVM: expected to be numbered %%1) is accepted and renumbered silently: uses of the written number are bound elsewhere", kind, written), Observed: y})
			default:
				r.Nontrivial(key)
				r.Tally("terminator_numbers", fmt.Sprintf("%s:llvm-accepts=%v", kind, okl))
			}
		}
	}
}
