package props

import (
	"fmt"
	"math"
	"math/big"
	"math/rand"
	"strconv"
	"strings"

	"github.com/llir/llvm/ir/constant"
	"github.com/llir/llvm/ir/types"

	"verif/internal/fw"
	"verif/internal/llvmref"
)

func init() {
	fw.Register(&fw.Check{
		ID:    "C10",
		Level: "exploration",
		Rule: "literals are generated from bit patterns: all 65536 half patterns (0xH form), structured sets for float/double/x86_fp80/fp128/ppc_fp128 (zeros, smallest/largest subnormal and normal, ones, infinities, exponent sweep (every exponent of float; of double every 52nd in quick and every one in thorough; a stride for the 15-bit exponents) x {zero, one, all-ones, alternating, single-bit} mantissa, quiet/signalling NaNs with payload bits at every position) plus PRNG patterns, each in the kind's hex form and, where exact, in decimal/scientific form. For each literal L that LLVM accepts: NewFloatFromString must succeed, L'=Ident() must be accepted by LLVM and LLVM's own printing of `K L'` must equal its printing of `K L` (same bits, LLVM's printer is canonical), and the library's re-parse of L' must be the same constant (value, sign, NaN flag); the same literal also goes through asm.ParseString. " +
			"Further literals: decimals beyond the range of each kind (to infinity / zero, including exponents beyond big.Float's range), the largest and smallest finite value of each kind in decimal, the ends of the ppc_fp128 range and pairs 1077+ bits apart (a changed canonical pair has its own key), short 0xK forms with a leading 8. " +
			"non-trivial = every LLVM-accepted literal; distinct by (kind, spelling)",
		Gen:           genC10,
		MinNontrivial: 10000,
		Assumptions: []string{"LLVM 14 is the reference for what a literal denotes: two literals of one kind denote the same bits iff llvm-as|llvm-dis prints them alike",
			"x86_fp80 pseudo-denormal/unnormal patterns and ppc_fp128 non-canonical pairs are included; whatever LLVM prints for them is the reference"},
		Exhaustive: func(string) bool { return false },
	})
}

type fpLit struct {
	kind  string
	spell string
	class string // zero sub normal inf nan-canonical nan-payload decimal ...
}

func genC10(ctx *fw.Ctx) []fw.Case {
	var cases []fw.Case
	for b := 0; b < 8; b++ {
		b := b
		cases = append(cases, fw.Case{ID: fmt.Sprintf("half/exhaustive/%d", b), Run: func(r *fw.Rec) { c10HalfBlock(r, b, 8) }})
	}
	for _, k := range []string{"half", "float", "double", "x86_fp80", "fp128", "ppc_fp128"} {
		k := k
		nb := ctx.Pick(2, 16)
		for b := 0; b < nb; b++ {
			b := b
			cases = append(cases, fw.Case{ID: fmt.Sprintf("%s/structured/%d", k, b), Run: func(r *fw.Rec) { c10Structured(r, k, b, nb) }})
		}
	}
	return cases
}

func c10HalfBlock(r *fw.Rec, blk, nblk int) {
	var lits []fpLit
	for bits := blk; bits < 65536; bits += nblk {
		lits = append(lits, fpLit{"half", fmt.Sprintf("0xH%04X", bits), halfClass(uint16(bits))})
	}
	c10Judge(r, fmt.Sprintf("half-exh-%d", blk), lits)
	r.Tally("exhaustive", "half-0xH-patterns")
}

func halfClass(b uint16) string {
	e, m := (b>>10)&0x1F, b&0x3FF
	switch {
	case e == 0 && m == 0:
		return "zero"
	case e == 0:
		return "subnormal"
	case e == 0x1F && m == 0:
		return "inf"
	case e == 0x1F && m == 0x200:
		return "nan-canonical"
	case e == 0x1F:
		return "nan-payload"
	}
	return "normal"
}

// f64Class classifies a double bit pattern.
func f64Class(b uint64) string {
	e, m := (b>>52)&0x7FF, b&0xFFFFFFFFFFFFF
	switch {
	case e == 0 && m == 0:
		return "zero"
	case e == 0:
		return "subnormal"
	case e == 0x7FF && m == 0:
		return "inf"
	case e == 0x7FF && m == 0x8000000000000:
		return "nan-canonical"
	case e == 0x7FF:
		return "nan-payload"
	}
	return "normal"
}

func mantissas(bits uint, rng *rand.Rand, n int) []uint64 {
	all := uint64(1)<<bits - 1
	alt := uint64(0xAAAAAAAAAAAAAAAA) & all
	ms := []uint64{0, 1, all, alt, all >> 1, uint64(1) << (bits - 1), uint64(1)<<(bits-1) | 1, 2, all - 1}
	for i := 0; i < n; i++ {
		ms = append(ms, rng.Uint64()&all)
	}
	for i := uint(0); i < bits; i += 1 + bits/16 {
		ms = append(ms, uint64(1)<<i)
	}
	return ms
}

func c10Structured(r *fw.Rec, kind string, blk, nblk int) {
	rng := r.Ctx().Rand(fmt.Sprintf("c10/%s/%d", kind, blk))
	nr := r.Ctx().Pick(120, 8000)
	var lits []fpLit
	add := func(spell, class string) { lits = append(lits, fpLit{kind, spell, class}) }
	switch kind {
	case "half":
		// every half pattern that has an exact double-hex spelling, and decimal spellings
		for bits := blk; bits < 65536; bits += nblk * 3 {
			e, m := (uint16(bits)>>10)&0x1F, uint16(bits)&0x3FF
			sign := uint64(bits>>15) << 63
			var d uint64
			switch {
			case e == 0x1F:
				d = sign | 0x7FF<<52 | uint64(m)<<42
			case e == 0 && m == 0:
				d = sign
			case e == 0:
				f := math.Ldexp(float64(m), -24)
				d = math.Float64bits(f) | sign
			default:
				d = sign | uint64(int(e)-15+1023)<<52 | uint64(m)<<42
			}
			add(fmt.Sprintf("0x%016X", d), "double-hex:"+halfClass(uint16(bits)))
			if e != 0x1F && bits%7 == 0 {
				f := math.Float64frombits(d)
				add(decimalSpelling(f, rng), "decimal:"+halfClass(uint16(bits)))
			}
		}
	case "float":
		for _, e := range expSweep(8, blk, nblk, r.Ctx().Thorough()) {
			for _, m := range mantissas(23, rng, 3) {
				for _, s := range []uint32{0, 1} {
					b := s<<31 | uint32(e)<<23 | uint32(m)
					f := float64(math.Float32frombits(b))
					d := math.Float64bits(f)
					cls := f64Class(d)
					if e == 0xFF && m != 0 {
						// NaN: keep the payload in the top 23 mantissa bits of the double form
						d = uint64(s)<<63 | 0x7FF<<52 | uint64(m)<<29
						cls = f64Class(d)
					}
					add(fmt.Sprintf("0x%016X", d), cls)
					if e != 0xFF && rng.Intn(3) == 0 {
						add(decimalSpelling(f, rng), "decimal:"+cls)
					}
				}
			}
		}
		for i := 0; i < nr*20; i++ {
			b := rng.Uint32()
			f := float64(math.Float32frombits(b))
			d := math.Float64bits(f)
			if f != f {
				d = uint64(b>>31)<<63 | 0x7FF<<52 | uint64(b&0x7FFFFF)<<29
			}
			add(fmt.Sprintf("0x%016X", d), "prng:"+f64Class(d))
		}
	case "double":
		for _, e := range expSweep(11, blk, nblk, r.Ctx().Thorough()) {
			for _, m := range mantissas(52, rng, 3) {
				for _, s := range []uint64{0, 1} {
					d := s<<63 | uint64(e)<<52 | m
					cls := f64Class(d)
					add(fmt.Sprintf("0x%016X", d), cls)
					if rng.Intn(4) == 0 {
						add(fmt.Sprintf("0x%X", d), "short-hex:"+cls)
					}
					if e != 0x7FF && rng.Intn(3) == 0 {
						add(decimalSpelling(math.Float64frombits(d), rng), "decimal:"+cls)
					}
				}
			}
		}
		for i := 0; i < nr*20; i++ {
			d := rng.Uint64()
			add(fmt.Sprintf("0x%016X", d), "prng:"+f64Class(d))
		}
		if blk == 0 {
			for _, s := range []string{"0.0", "-0.0", "1.0", "1.5e+300", "4.940656e-324", "2.2250738585072014e-308", "1.7976931348623157e+308", "0.1", "3.141592653589793", "1.0e-400", "123456789.0", "1e+10", "5.0e-1"} {
				add(s, "decimal-handwritten")
			}
		}
	case "x86_fp80":
		for _, e := range expSweep(15, blk, nblk, r.Ctx().Thorough()) {
			for _, m := range mantissas(64, rng, 2) {
				for _, s := range []uint64{0, 1} {
					se := s<<15 | uint64(e)
					cls := x87Class(e, m)
					add(fmt.Sprintf("0xK%04X%016X", se, m), cls)
				}
			}
		}
		for i := 0; i < nr*10; i++ {
			add(fmt.Sprintf("0xK%04X%016X", rng.Intn(1<<16), rng.Uint64()|1<<63), "prng")
		}
	case "fp128":
		for _, e := range expSweep(15, blk, nblk, r.Ctx().Thorough()) {
			for _, mh := range mantissas(48, rng, 1) {
				for _, ml := range []uint64{0, 1, ^uint64(0), rng.Uint64()} {
					for _, s := range []uint64{0, 1} {
						hi := s<<63 | uint64(e)<<48 | mh
						cls := "normal"
						switch {
						case e == 0 && mh == 0 && ml == 0:
							cls = "zero"
						case e == 0:
							cls = "subnormal"
						case e == 0x7FFF && mh == 0 && ml == 0:
							cls = "inf"
						case e == 0x7FFF && mh == 1<<47 && ml == 0:
							cls = "nan-canonical"
						case e == 0x7FFF:
							cls = "nan-payload"
						}
						// LLVM's 0xL form: low 64 bits first
						add(fmt.Sprintf("0xL%016X%016X", ml, hi), cls)
					}
				}
			}
		}
		for i := 0; i < nr*10; i++ {
			add(fmt.Sprintf("0xL%016X%016X", rng.Uint64(), rng.Uint64()), "prng")
		}
	case "ppc_fp128":
		for _, e := range expSweep(11, blk, nblk, r.Ctx().Thorough()) {
			for _, m := range mantissas(52, rng, 1) {
				for _, s := range []uint64{0, 1} {
					hi := s<<63 | uint64(e)<<52 | m
					for _, lo := range []uint64{0, 1 << 63, rng.Uint64(), math.Float64bits(math.Float64frombits(hi&^(0x7FF<<52) | uint64(max(int(e)-60, 0))<<52))} {
						add(fmt.Sprintf("0xM%016X%016X", hi, lo), "pair:"+f64Class(hi))
					}
				}
			}
		}
		for i := 0; i < nr*6; i++ {
			add(fmt.Sprintf("0xM%016X%016X", rng.Uint64(), rng.Uint64()), "prng")
		}
		if blk == 0 {
			// the ends of the range: largest and smallest finite pairs, pairs of infinities
			add("0xM7FEFFFFFFFFFFFFF7C8FFFFFFFFFFFFF", "extreme:largest-finite")
			add("0xMFFEFFFFFFFFFFFFFFC8FFFFFFFFFFFFF", "extreme:largest-finite")
			add("0xM7FEFFFFFFFFFFFFF0000000000000000", "extreme:largest-double")
			add("0xM7FF0000000000000FFF0000000000000", "extreme:infinities-of-opposite-sign")
			add("0xM7FF00000000000007FF0000000000000", "extreme:infinities-of-equal-sign")
			add("0xM00000000000000010000000000000000", "extreme:smallest-subnormal")
			// canonical pairs whose two doubles are as far apart as doubles can be
			add("0xM40100000000000000000000000000001", "extreme:wide-pair")
			add("0xM7FEFFFFFFFFFFFFF8000000000000001", "extreme:wide-pair")
			add("0xM7FE0000000000000396FFFFFFFFFFFFF", "extreme:wide-pair")
			add("0xM4340000000000000000FFFFFFFFFFFFF", "extreme:wide-pair")
			add("0xM7FD00000000000000000000000000001", "extreme:wide-pair")
			add("0xMFFD00000000000008000000000000001", "extreme:wide-pair")
		}
	}
	// LLVM's canonical quiet NaN of the kind and its negative (what constant folding
	// and clang produce), and the infinities, spelled out
	if blk == 0 {
		switch kind {
		case "half":
			add("0xH7E00", "nan-canonical")
			add("0xHFE00", "nan-canonical")
		case "float", "double":
			add("0x7FF8000000000000", "nan-canonical")
			add("0xFFF8000000000000", "nan-canonical")
		case "x86_fp80":
			add("0xK7FFFC000000000000000", "nan-canonical")
			add("0xKFFFFC000000000000000", "nan-canonical")
			add("0xK7FFF8000000000000000", "inf")
			add("0xKFFFF8000000000000000", "inf")
		case "fp128":
			// values that are exactly doubles, the subnormal doubles among them
			for _, d := range []float64{math.SmallestNonzeroFloat64, 3 * math.SmallestNonzeroFloat64, 0x1p-1073, 0x1.fffffffffffffp-1023 / 2, 0x0.fffffffffffffp-1022, 0x1p-1022, 0x1.8p-1022, 1, 1.5, 0x1.fffffffffffffp+1023, 0x1p-1050, 0x1.234p-1060} {
				for _, sgn := range []float64{1, -1} {
					add(fp128FromDouble(sgn*d), "exactly-a-double")
				}
			}
			add("0xL00000000000000007FFF800000000000", "nan-canonical")
			add("0xL0000000000000000FFFF800000000000", "nan-canonical")
			add("0xL00000000000000007FFF000000000000", "inf")
			add("0xL0000000000000000FFFF000000000000", "inf")
		case "ppc_fp128":
			add("0xM7FF80000000000000000000000000000", "nan-canonical")
			add("0xMFFF80000000000000000000000000000", "nan-canonical")
			add("0xM7FF00000000000000000000000000000", "inf")
			add("0xMFFF00000000000000000000000000000", "inf")
		}
	}
	// one-digit mantissas times powers of ten, both signs (the printer's
	// scientific notation with a single digit before the exponent); for half and
	// float only the values exactly representable there (LLVM rejects the others,
	// and finding that out one by one is slow)
	if (kind == "double" || kind == "float" || kind == "half") && blk == 0 {
		exact := func(v float64) bool {
			switch kind {
			case "float":
				return float64(float32(v)) == v
			case "half":
				a := math.Abs(v)
				if a > 65504 {
					return false
				}
				if a < math.Ldexp(1, -14) {
					return math.Mod(math.Ldexp(a, 24), 1) == 0
				}
				m, _ := math.Frexp(a)
				return math.Mod(m*2048, 1) == 0
			}
			return true
		}
		for k := -8; k <= 30; k++ {
			for d := 1; d <= 9; d += 2 {
				v, _ := strconv.ParseFloat(fmt.Sprintf("%de%d", d, k), 64)
				if !exact(v) {
					continue
				}
				for _, sg := range []string{"", "-"} {
					add(fmt.Sprintf("%s%d.0e%+03d", sg, d, k), "decimal-one-digit-mantissa")
					if k >= 0 && k <= 18 {
						add(fmt.Sprintf("%s%d%s.0", sg, d, strings.Repeat("0", k)), "decimal-one-digit-mantissa")
					}
				}
			}
		}
	}
	// decimals far below the smallest subnormal (they underflow to zero, also as doubles)
	if (kind == "double" || kind == "float" || kind == "half") && blk == 0 {
		for _, lit := range []string{"1.0e-999", "-1.0e-999", "1.0e-450", "1.0e-330", "-2.5e-400", "1.0e-60", "0.0e+00", "-0.0e+00", "1.0e-99999999999", "-1.0e-4294967296", "1.0e-2147483648"} {
			add(lit, "decimal-underflow")
		}
		// decimals beyond the range of doubles: LLVM reads them as infinity of the kind
		for _, lit := range []string{"1.0e400", "-1.0e400", "1.0e999", "-1.0e+999", "2.0e308", "-1.8e308", "123456789.0e301", "1.797693134862315807e+309", "1.0e+99999999999", "-1.0e+2147483647", "1.0e+1000000000"} {
			add(lit, "decimal-overflow-to-infinity")
		}
		// the largest and smallest finite values of the kind, written in decimal
		ends := map[string][]string{
			"half":   {"65504.0", "-65504.0", "6.5504e+04", "5.9604644775390625e-08", "6.103515625e-05"},
			"float":  {"3.4028234663852886e+38", "-3.4028234663852886E38", "340282346638528859811704183484516925440.0", "1.401298464324817e-45", "1.1754943508222875e-38", "3.4028232635611926e+38"},
			"double": {"1.7976931348623157e+308", "-1.7976931348623157e+308", "4.9406564584124654e-324", "2.2250738585072014e-308", "179769313486231570814527423731704356798070567525844996598917476803157260780028538760589558632766878171540458953514382464234321326889464182768467546703537516986049910576551282076245490090389328944075868508455133942304583236903222948165808559332123348274797826204144723168738177180919299881250404026184124858368.0"},
		}
		for _, lit := range ends[kind] {
			add(lit, "decimal-extreme-finite")
		}
	}
	// spellings with fewer digits than the full width of a kind-prefixed form
	// (LLVM accepts them: 0xK takes up to 4 digits of sign/exponent first, 0xL and
	// 0xM take the first 16 digits as their first word once there are 16)
	if pfx, full := map[string]string{"half": "0xH", "x86_fp80": "0xK", "fp128": "0xL", "ppc_fp128": "0xM"}[kind], map[string]int{"half": 4, "x86_fp80": 20, "fp128": 32, "ppc_fp128": 32}[kind]; pfx != "" && blk == 0 {
		for n := 1; n < full; n++ {
			for k := 0; k < 5; k++ {
				var sb strings.Builder
				for i := 0; i < n; i++ {
					switch k {
					case 0:
						sb.WriteByte("0123456789ABCDEF"[rng.Intn(16)])
					case 1:
						sb.WriteByte('F')
					case 2:
						sb.WriteByte("01"[btoi(i == n-1)])
					case 3:
						// a leading 8 (the sign bit of the first word), zeros after it
						sb.WriteByte("08"[btoi(i == 0)])
					default:
						// a leading 8, zeros, a final 1 (negative denormals of x86_fp80)
						sb.WriteByte("081"[btoi(i == 0)+2*btoi(i == n-1 && n > 1)])
					}
				}
				cls := fmt.Sprintf("short-hex:%d-digits", n)
				if kind == "x86_fp80" {
					// the class of the pattern the digits denote under LLVM's rule (first 4
					// digits sign/exponent, the rest the significand): mostly unnormals
					d := sb.String()
					seS, mS := d, ""
					if len(d) > 4 {
						seS, mS = d[:4], d[4:]
					}
					se, _ := strconv.ParseUint(seS, 16, 16)
					var m uint64
					if mS != "" {
						m, _ = strconv.ParseUint(mS, 16, 64)
					}
					cls = x87Class(uint(se&0x7FFF), m)
				}
				add(pfx+sb.String(), cls)
			}
		}
	}
	c10Judge(r, fmt.Sprintf("%s-struct-%d", kind, blk), lits)
}

// x87Class classifies an x86_fp80 pattern by exponent and significand.
func x87Class(e uint, m uint64) string {
	j := m >> 63
	switch {
	case e == 0 && m == 0:
		return "zero"
	case e == 0 && j == 0:
		return "subnormal"
	case e == 0:
		return "pseudo-denormal"
	case e == 0x7FFF && m == 1<<63:
		return "inf"
	case e == 0x7FFF && m == 3<<62:
		return "nan-canonical"
	case e == 0x7FFF:
		return "nan-payload"
	case j == 0:
		return "unnormal"
	}
	return "normal"
}

func btoi(b bool) int {
	if b {
		return 1
	}
	return 0
}

func expSweep(bits uint, blk, nblk int, thorough bool) []uint {
	maxE := uint(1)<<bits - 1
	var out []uint
	cands := []uint{0, 1, 2, maxE / 2, maxE/2 - 1, maxE/2 + 1, maxE - 2, maxE - 1, maxE}
	// every exponent of float (the decimal/hex choice of the printer depends on
	// the exponent: 2^25 and 2^26 were the only floats it printed inexactly);
	// every exponent of double in the thorough tier
	step := 1 + maxE/40
	if bits <= 8 {
		step = 1
	} else if thorough {
		step = 1 + maxE/2100
	}
	for e := uint(3); e < maxE-2; e += step {
		cands = append(cands, e)
	}
	for i, e := range cands {
		if i%nblk == blk {
			out = append(out, e)
		}
	}
	// the boundary exponents are in every block's interest only once: block 0 keeps them all
	return out
}

// decimalSpelling spells f as a decimal literal in one of the forms LLVM's lexer
// takes ([-+]?[0-9]+[.][0-9]*([eE][-+]?[0-9]+)?): the exponent marker in either
// case, its sign left out, zeros in front of the exponent digits or behind the
// mantissa, a plus sign in front.
func decimalSpelling(f float64, rng *rand.Rand) string {
	s := decimalSpelling0(f, rng)
	switch rng.Intn(8) {
	case 0:
		s = strings.Replace(s, "e", "E", 1)
	case 1:
		s = strings.Replace(s, "e+", "e", 1)
	case 2:
		if i := strings.IndexAny(s, "eE"); i >= 0 && i+2 <= len(s) {
			s = s[:i+2] + "00" + s[i+2:]
		}
	case 3:
		if i := strings.IndexAny(s, "eE"); i >= 0 {
			s = s[:i] + "000" + strings.Replace(s[i:], "e", "E", 1)
		} else {
			s += "000"
		}
	case 4:
		if !strings.HasPrefix(s, "-") {
			s = "+" + s
		}
	}
	return s
}

func decimalSpelling0(f float64, rng *rand.Rand) string {
	switch rng.Intn(3) {
	case 0:
		s := strconv.FormatFloat(f, 'e', -1, 64)
		if !strings.Contains(s, ".") {
			s = strings.Replace(s, "e", ".0e", 1)
		}
		return s
	case 1:
		s := strconv.FormatFloat(f, 'e', 20, 64)
		return s
	default:
		if math.Abs(f) < 1e15 && math.Abs(f) > 1e-5 || f == 0 {
			s := strconv.FormatFloat(f, 'f', -1, 64)
			if !strings.Contains(s, ".") {
				s += ".0"
			}
			return s
		}
		s := strconv.FormatFloat(f, 'e', -1, 64)
		if !strings.Contains(s, ".") {
			s = strings.Replace(s, "e", ".0e", 1)
		}
		return s
	}
}

func kindType(kind string) *types.FloatType {
	switch kind {
	case "half":
		return types.Half
	case "float":
		return types.Float
	case "double":
		return types.Double
	case "x86_fp80":
		return types.X86_FP80
	case "fp128":
		return types.FP128
	}
	return types.PPC_FP128
}

// llvmPrintings returns LLVM's printing of each `kind lit` (map index -> text),
// and the set of indices LLVM rejects (found by bisection when the batch is
// rejected).
func llvmPrintings(r *fw.Rec, kind string, lits []string) (map[int]string, bool) {
	out := map[int]string{}
	var run func(idx []int) bool
	run = func(idx []int) bool {
		if len(idx) == 0 {
			return true
		}
		var sb strings.Builder
		for _, i := range idx {
			fmt.Fprintf(&sb, "@g%d = global %s %s\n", i, kind, lits[i])
		}
		text, _, ok, err := llvmref.Reading(sb.String())
		if err != nil {
			return false
		}
		if !ok {
			if len(idx) == 1 {
				return true // rejected literal: absent from out
			}
			h := len(idx) / 2
			return run(idx[:h]) && run(idx[h:])
		}
		for _, line := range strings.Split(text, "\n") {
			if !strings.HasPrefix(line, "@g") {
				continue
			}
			f := strings.Fields(line)
			if len(f) >= 5 {
				n, err := strconv.Atoi(f[0][2:])
				if err == nil {
					out[n] = f[4]
				}
			}
		}
		return true
	}
	idx := make([]int, len(lits))
	for i := range idx {
		idx[i] = i
	}
	ok := run(idx)
	return out, ok
}

func c10Judge(r *fw.Rec, tag string, lits []fpLit) {
	if len(lits) == 0 {
		return
	}
	kind := lits[0].kind
	typ := kindType(kind)
	// the hexadecimal digits of a literal may be written in either case (the kind
	// letter after 0x may not): every third literal is spelled in lower case and
	// every third with the cases alternating; LLVM's reading of that very spelling
	// is the reference as for any other
	lits = append([]fpLit(nil), lits...)
	for i := range lits {
		sp := lits[i].spell
		if !strings.HasPrefix(sp, "0x") || i%3 == 0 {
			continue
		}
		at := 2
		if at < len(sp) && strings.ContainsRune("KLMHR", rune(sp[at])) {
			at++
		}
		b := []byte(sp)
		for j := at; j < len(b); j++ {
			if b[j] >= 'A' && b[j] <= 'F' && (i%3 == 1 || j%2 == 0) {
				b[j] += 'a' - 'A'
			}
		}
		if string(b) != sp {
			lits[i].spell = string(b)
			r.Tally("literals", "hex-digits-in-lower-or-mixed-case:"+kind)
		}
	}
	in := make([]string, len(lits))
	for i, l := range lits {
		in[i] = l.spell
	}
	llvmIn, ok := llvmPrintings(r, kind, in)
	if !ok {
		r.Inconclusive("llvm tool failure")
		return
	}
	type res struct {
		outLit string
		valid  bool
	}
	results := make([]res, len(lits))
	for i, l := range lits {
		want, accepted := llvmIn[i]
		if !accepted {
			r.Tally("literals", "rejected-by-LLVM(not judged):"+kind)
			continue
		}
		_ = want
		r.Eval(1)
		var c *constant.Float
		var err error
		if p, msg, _ := fw.Guard(func() { c, err = constant.NewFloatFromString(typ, l.spell) }); p {
			r.Violate(fw.Violation{Key: "parse-panic/" + kind + "/" + l.class, Input: kind + " " + l.spell, What: "NewFloatFromString panics on a literal LLVM accepts: " + firstLine(msg)})
			continue
		}
		if err != nil {
			r.Violate(fw.Violation{Key: "parse-error/" + kind + "/" + l.class, Input: kind + " " + l.spell, What: "NewFloatFromString rejects a literal LLVM accepts: " + firstLine(err.Error())})
			continue
		}
		var id string
		if p, msg, _ := fw.Guard(func() { id = c.Ident() }); p {
			r.Violate(fw.Violation{Key: "ident-panic/" + kind + "/" + l.class, Input: kind + " " + l.spell, What: "Ident panics: " + firstLine(msg)})
			continue
		}
		results[i] = res{outLit: id, valid: true}
		// the library's own re-parse of its printed literal
		var c2 *constant.Float
		if p, msg, _ := fw.Guard(func() { c2, err = constant.NewFloatFromString(typ, id) }); p || err != nil {
			what := msg
			if err != nil {
				what = err.Error()
			}
			r.Violate(fw.Violation{Key: "reparse-fails/" + kind + "/" + l.class, Input: kind + " " + l.spell, What: fmt.Sprintf("the printed literal %s is not accepted by NewFloatFromString: %s", id, firstLine(what))})
			continue
		}
		same := c.NaN == c2.NaN
		if same && c.X != nil && c2.X != nil {
			same = c.X.Signbit() == c2.X.Signbit() && (c.NaN || c.X.Cmp(c2.X) == 0) // a NaN has a sign, but no value
		}
		if !same {
			r.Violate(fw.Violation{Key: "reparse-differs/" + kind + "/" + l.class, Input: kind + " " + l.spell,
				What: fmt.Sprintf("literal %s prints as %s which the library reads back as a different constant (%v/NaN=%v vs %v/NaN=%v)", l.spell, id, c.X, c.NaN, c2.X, c2.NaN)})
		}
	}
	// LLVM's reading of the printed literals
	var outs []string
	var outIdx []int
	for i, rs := range results {
		if rs.valid {
			outs = append(outs, rs.outLit)
			outIdx = append(outIdx, i)
		}
	}
	llvmOut, ok := llvmPrintings(r, kind, outs)
	if !ok {
		r.Inconclusive("llvm tool failure")
		return
	}
	// through the assembler as well (one batched module)
	var sb strings.Builder
	// every third literal is typed through a name of the kind (`%fl = type double`)
	fmt.Fprintf(&sb, "%%fl = type %s\n", kind)
	for k, i := range outIdx {
		if k%3 == 2 {
			fmt.Fprintf(&sb, "@g%d = global %%fl %s\n", k, lits[i].spell)
		} else {
			fmt.Fprintf(&sb, "@g%d = global %s %s\n", k, kind, lits[i].spell)
		}
	}
	asmOut := map[int]string{}
	if m, perr, pmsg := parseGuard(tag, sb.String()); pmsg == "" && perr == nil {
		for _, g := range m.Globals {
			n, _ := strconv.Atoi(strings.TrimPrefix(g.GlobalName, "g"))
			if p, _, _ := fw.Guard(func() { asmOut[n] = g.Init.Ident() }); p {
				asmOut[n] = "<Ident panics>"
			}
		}
	} else {
		what := pmsg
		if perr != nil {
			what = perr.Error()
		}
		r.Violate(fw.Violation{Key: "asm-batch-rejected/" + kind, Input: fw.Trunc(sb.String(), 3000), What: "asm.ParseString fails on a batch of LLVM-accepted float literals: " + firstLine(what)})
	}
	cnt := 0
	for k, i := range outIdx {
		l := lits[i]
		cnt++
		r.Tally("classes", kind+":"+l.class)
		got, accepted := llvmOut[k]
		if !accepted {
			r.Violate(fw.Violation{Key: "printed-literal-invalid/" + kind + "/" + l.class, Input: kind + " " + l.spell,
				What: fmt.Sprintf("literal %s prints as %s, which LLVM rejects for %s", l.spell, results[i].outLit, kind)})
			continue
		}
		if got != llvmIn[i] {
			cls := c10DiffClass(kind, l.class, llvmIn[i], got)
			r.Violate(fw.Violation{Key: "bits-changed/" + kind + "/" + cls, Input: kind + " " + l.spell,
				What:     fmt.Sprintf("%s literal %s (LLVM: %s) prints as %s, which LLVM reads as %s: not the same bit pattern", kind, l.spell, llvmIn[i], results[i].outLit, got),
				Expected: llvmIn[i], Observed: got})
			continue
		}
		if a, ok := asmOut[k]; ok && a != results[i].outLit {
			r.Violate(fw.Violation{Key: "asm-path-differs/" + kind + "/" + l.class, Input: kind + " " + l.spell,
				What: fmt.Sprintf("asm.ParseString prints literal %s as %s but NewFloatFromString+Ident gives %s", l.spell, a, results[i].outLit)})
		}
		if strings.HasPrefix(results[i].outLit, "0x") {
			r.Tally("printer_choice", kind+":hex")
		} else {
			r.Tally("printer_choice", kind+":decimal")
		}
	}
	r.NontrivialN(tag, cnt)
	if len(outIdx) > 0 {
		i := outIdx[len(outIdx)/2]
		r.Sample(map[string]interface{}{"kind": kind, "literal": lits[i].spell, "class": lits[i].class, "llvm_reads_as": llvmIn[i], "library_prints": results[i].outLit})
	}
}

// c10DiffClass names the family of a bit-pattern change by a predicate on the
// input (as LLVM reads it) and the exact wrong behaviour.
func c10DiffClass(kind, class, in, got string) string {
	if strings.HasPrefix(in, "0x") && isNaNLit(in) {
		if isCanonicalNaN(in) {
			// LLVM's own canonical quiet NaN (what it folds to, what clang emits) has no
			// payload to lose: it must come back as it is (the listed findings are about
			// the other NaNs)
			return "canonical-nan-changed"
		}
		if strings.HasPrefix(got, "0x") && isCanonicalNaN(got) && sameSignLit(in, got) {
			return "nan-payload-canonicalised"
		}
		return "nan-changed"
	}
	if kind == "ppc_fp128" && len(in) == 35 && len(got) == 35 {
		// a canonical pair is exactly what the library holds and splits again: it
		// must come back unchanged (the listed findings are about the other pairs)
		if ppcCanonicalPair(in) {
			return "canonical-pair-changed"
		}
		if in[:19] == got[:19] {
			return "low-double-changed"
		}
		return "high-double-changed"
	}
	if i := strings.LastIndex(class, ":"); i >= 0 {
		class = class[i+1:]
	}
	return class
}

// ppcCanonicalPair reports whether a 0xM literal of 32 digits is a canonical
// ppc_fp128 pair: an infinity with low +0.0, or finite with high = the double nearest to the sum of the two, low
// the remainder and not -0.0 (zero high only with zero low).
func ppcCanonicalPair(lit string) bool {
	if len(lit) != 35 || !strings.HasPrefix(lit, "0xM") {
		return false
	}
	hb, e1 := strconv.ParseUint(lit[3:19], 16, 64)
	lb, e2 := strconv.ParseUint(lit[19:], 16, 64)
	if e1 != nil || e2 != nil {
		return false
	}
	hi, lo := math.Float64frombits(hb), math.Float64frombits(lb)
	if math.IsInf(hi, 0) {
		// an infinity with a +0.0 low double is the canonical pair of that infinity
		return lb == 0
	}
	if math.IsInf(hi, 0) || math.IsNaN(hi) || math.IsInf(lo, 0) || math.IsNaN(lo) || lb == 1<<63 || (hi == 0 && lb != 0) {
		return false
	}
	sum := new(big.Float).SetPrec(2300).SetFloat64(hi)
	sum.Add(sum, new(big.Float).SetPrec(2300).SetFloat64(lo))
	h2, _ := sum.Float64()
	return h2 == hi
}

// fp128FromDouble spells the fp128 literal (0xL, low 64 bits first) of a finite
// non-zero double: sign, exponent rebiased to 16383, the 52 fraction bits (or
// the normalised bits of a subnormal double) at the top of the 112-bit fraction.
func fp128FromDouble(d float64) string {
	sign := uint64(0)
	if math.Signbit(d) {
		sign = 1
	}
	fr, e := math.Frexp(math.Abs(d)) // |d| = fr * 2^e, fr in [0.5, 1)
	// fr*2 in [1, 2): fraction bits = (fr*2 - 1) * 2^112, exact (fr has at most 53 bits)
	m := new(big.Float).SetPrec(200).SetFloat64(fr*2 - 1)
	m.SetMantExp(m, 112)
	mi, _ := m.Int(nil)
	exp := uint64(e - 1 + 16383)
	hi := sign<<63 | exp<<48 | new(big.Int).Rsh(mi, 64).Uint64()
	lo := new(big.Int).And(mi, new(big.Int).SetUint64(^uint64(0))).Uint64()
	return fmt.Sprintf("0xL%016X%016X", lo, hi)
}
