package props

import (
	"fmt"
	"regexp"
	"strings"

	"verif/internal/corpus"
	"verif/internal/fw"
	"verif/internal/llvmref"
)

func init() {
	fw.Register(&fw.Check{
		ID:    "C05",
		Level: "fault_enumeration",
		Rule: "base modules = every atom and generated module that both LLVM and the parser accept. Single-point naming faults are enumerated from the token stream of each base: every use of a global, local, type, comdat, metadata ID or attribute-group identifier (operands, callees, branch targets, phi predecessors, type uses, comdat uses, metadata uses in attachments/tuples/DI fields/named metadata, blockaddress operands, uselistorder targets) is redirected, one at a time, to a fresh undefined identifier of the same sigil and to a look-alike of its own name (name.1, name0, name less a character, name., another case; judged when LLVM's diagnostic is about naming), and every definition (global, function, type, comdat, metadata ID, local value, label) is duplicated, one at a time, verbatim and under another spelling of its identifier (quoted, first character escaped, zero-padded metadata ID). About 100 hand-written faults add the shapes the enumeration cannot reach (a block address taken in a declaration, label/value name clashes, undefined names inside switch/indirectbr/invoke/callbr/bundles/casts/allocas/funclet terminators/use-list orders, duplicate comdats and metadata IDs, quoted-digit names next to IDs, references spelled with the empty quoted name, explicit %0 given twice, ...); every definition line is also removed, one at a time, after the intact base was parsed in the same process. A fault counts when LLVM rejects the faulted text; then asm.ParseString must return an error and no module, without panicking. " +
			"Further faults: the verdict 'neither error nor module' is a violation of its own; references spelled with the empty quoted name in every position; explicit %0 given twice or out of position; undefined types inside attributes; explicit and misnumbered results of invoke, callbr and catchswitch. " +
			"non-trivial = a faulted input LLVM rejects; distinct by (base, site)",
		Gen:           genC05,
		MinNontrivial: 1000,
		Assumptions:   []string{"LLVM's rejection of the faulted text is the gate that the fault is a naming error (LLVM accepts e.g. an undefined attribute group)", "quick tier: all sites of small bases, up to 60 PRNG sites per large base"},
		Exhaustive:    func(string) bool { return false },
	})
}

type idTok struct {
	start, end int
	sigil      byte
	text       string
	isDef      bool
	context    string
}

// scanIdents tokenises module text and returns the identifier tokens.
func scanIdents(text string) []idTok {
	var toks []idTok
	n := len(text)
	lineStart := 0
	inHeader := false // inside "define ... (" parameter list
	parenDepth := 0
	for i := 0; i < n; {
		c := text[i]
		switch {
		case c == '\n':
			i++
			lineStart = i
			if parenDepth <= 0 {
				inHeader = false
			}
		case c == ';':
			for i < n && text[i] != '\n' {
				i++
			}
		case c == '"' || (c == 'c' && i+1 < n && text[i+1] == '"' && (i == 0 || !isIdentChar(text[i-1]))):
			if c == 'c' {
				i++
			}
			i++
			for i < n && text[i] != '"' {
				i++
			}
			i++
		case c == '(':
			parenDepth++
			i++
		case c == ')':
			parenDepth--
			if parenDepth <= 0 {
				inHeader = false
				parenDepth = 0
			}
			i++
		case c == '@' || c == '%' || c == '$' || c == '#' || c == '!':
			j := i + 1
			if j < n && text[j] == '"' {
				j++
				for j < n && text[j] != '"' {
					j++
				}
				j++
			} else {
				for j < n && isIdentChar(text[j]) {
					j++
				}
			}
			if j == i+1 {
				i++
				continue
			}
			tok := idTok{start: i, end: j, sigil: c, text: text[i:j]}
			line := text[lineStart:i]
			rest := text[j:]
			atLineStart := strings.TrimSpace(line) == ""
			top := i == lineStart
			switch c {
			case '#':
				if !isAllDigits(text[i+1 : j]) {
					i = j
					continue
				}
				tok.isDef = strings.HasSuffix(strings.TrimSpace(line), "attributes")
				tok.context = "attribute-group"
			case '!':
				if !isAllDigits(text[i+1 : j]) {
					// metadata names: a definition at line start, otherwise an attachment kind (not a reference)
					if top && strings.HasPrefix(rest, " = ") {
						tok.isDef = true
						tok.context = "named-metadata"
					} else {
						i = j
						continue
					}
				} else {
					tok.isDef = top && strings.HasPrefix(rest, " = ")
					switch {
					case strings.HasPrefix(strings.TrimLeft(text[lineStart:], " "), "!") && !isAllDigits(firstWord(text[lineStart:])[1:]):
						tok.context = "metadata-in-named-metadata"
					case strings.HasSuffix(strings.TrimRight(line, " "), ":"):
						tok.context = "metadata-in-DI-field"
					case strings.Contains(line, "!{") && !strings.Contains(line, "}"):
						tok.context = "metadata-in-tuple"
					case strings.HasSuffix(strings.TrimRight(line, " "), "metadata"):
						tok.context = "metadata-as-value"
					default:
						tok.context = "metadata-attachment-or-tuple"
					}
				}
			case '$':
				tok.isDef = top && strings.HasPrefix(rest, " = ")
				tok.context = "comdat"
			case '@':
				lw := strings.TrimSpace(line)
				switch {
				case top && strings.HasPrefix(rest, " = "):
					tok.isDef = true
				case (strings.HasPrefix(text[lineStart:], "define") || strings.HasPrefix(text[lineStart:], "declare")) && !inHeaderSeen(text[lineStart:i]):
					tok.isDef = true
					inHeader = strings.HasPrefix(text[lineStart:], "define")
				}
				switch {
				case strings.HasSuffix(lw, "blockaddress("):
					tok.context = "blockaddress-function"
				case strings.HasPrefix(lw, "uselistorder"):
					tok.context = "uselistorder-target"
				case strings.Contains(lw, "call ") || strings.Contains(lw, "invoke ") || strings.Contains(lw, "callbr "):
					tok.context = "global-in-call"
				case strings.Contains(lw, "personality"):
					tok.context = "personality"
				case top || strings.HasPrefix(text[lineStart:], "@"):
					tok.context = "global-in-initializer"
				default:
					tok.context = "global-operand"
				}
			case '%':
				lw := strings.TrimSpace(line)
				isType := strings.HasPrefix(rest, " = type")
				switch {
				case top && isType:
					tok.isDef = true
					tok.context = "type"
				case atLineStart && !top && strings.HasPrefix(rest, " = "):
					tok.isDef = true
					tok.context = "local-def"
				case inHeader && parenDepth >= 1:
					tok.isDef = true
					tok.context = "param-def"
				case strings.HasSuffix(lw, "label"):
					tok.context = "branch-target"
				case strings.HasSuffix(lw, ",") && strings.Contains(lw, "[") && strings.Contains(lw, "phi"):
					tok.context = "phi-predecessor"
				case strings.Contains(lw, "blockaddress("):
					tok.context = "blockaddress-block"
				case strings.HasPrefix(lw, "uselistorder"):
					tok.context = "uselistorder-target"
				default:
					tok.context = "local-or-type-use"
				}
			}
			toks = append(toks, tok)
			i = j
		default:
			// label definition "name:" at line start inside a function
			i++
		}
	}
	return toks
}

func inHeaderSeen(s string) bool { return strings.Contains(s, "(") && strings.Contains(s, "@") }

func firstWord(s string) string {
	s = strings.TrimLeft(s, " ")
	if i := strings.IndexAny(s, " \n"); i >= 0 {
		return s[:i]
	}
	return s
}

func isIdentChar(c byte) bool {
	return c == '-' || c == '$' || c == '.' || c == '_' || (c >= '0' && c <= '9') || (c >= 'a' && c <= 'z') || (c >= 'A' && c <= 'Z')
}

func isAllDigits(s string) bool {
	if s == "" {
		return false
	}
	for i := 0; i < len(s); i++ {
		if s[i] < '0' || s[i] > '9' {
			return false
		}
	}
	return true
}

type c05Fault struct {
	kind string // undefined/<context> or duplicate/<context>
	text string
	site string
	// warmup, if set, is parsed right before the faulted text: the intact base
	// module, which defines every name the fault leaves undefined (whatever the
	// translator keeps between parses must not make up for the missing definition)
	warmup string
	// naming, if set, restricts the fault to texts LLVM rejects for a naming
	// reason (removing a definition can also break a use-list order or a type)
	naming bool
}

var reNamingDiag = regexp.MustCompile(`undefined|unknown|not defined|undeclared|does not name|redefinition|multiple definition|already`)

// c05Faults enumerates the single-point naming faults of text.
func c05Faults(text string) []c05Fault {
	var out []c05Fault
	toks := scanIdents(text)
	for _, t := range toks {
		if t.isDef {
			continue
		}
		var repl string
		switch t.sigil {
		case '@':
			repl = "@undefined.fault"
		case '%':
			repl = "%undefined.fault"
		case '$':
			repl = "$undefined.fault"
		case '!':
			repl = "!987654"
		case '#':
			repl = "#987654"
		}
		out = append(out, c05Fault{kind: "undefined/" + t.context, text: text[:t.start] + repl + text[t.end:], site: fmt.Sprintf("%s@%d", t.text, t.start)})
		// the same site redirected to an undefined name that looks like the defined one
		// (a suffix as LLVM adds when it renames, a digit more, a character less, another case)
		if alike := c05LookAlike(t.text, len(out)); alike != "" {
			out = append(out, c05Fault{kind: "undefined-lookalike/" + t.context, text: text[:t.start] + alike + text[t.end:], site: fmt.Sprintf("%s->%s@%d", t.text, alike, t.start), naming: true})
		}
	}
	// duplicate definitions: repeat the defining line (top-level single-line definitions and instruction lines)
	lines := strings.SplitAfter(text, "\n")
	off := 0
	inFunc := false
	for i, l := range lines {
		trim := strings.TrimSpace(l)
		switch {
		case strings.HasPrefix(l, "define"):
			inFunc = strings.HasSuffix(trim, "{")
		case trim == "}":
			inFunc = false
		}
		dup := ""
		switch {
		case !inFunc && (strings.HasPrefix(l, "@") || strings.HasPrefix(l, "$") || (strings.HasPrefix(l, "%") && strings.Contains(l, " = type")) || (strings.HasPrefix(l, "!") && len(l) > 1 && l[1] >= '0' && l[1] <= '9')) && strings.Contains(l, " = "):
			dup = "duplicate/" + map[byte]string{'@': "global", '$': "comdat", '%': "type", '!': "metadata-id"}[l[0]]
		case !inFunc && strings.HasPrefix(l, "declare"):
			dup = "duplicate/function-declaration"
		case inFunc && strings.HasPrefix(trim, "%") && strings.Contains(trim, " = ") && !strings.HasPrefix(l, "define") && !isAllDigits(strings.TrimPrefix(firstWord(trim), "%")):
			dup = "duplicate/local"
		case inFunc && strings.HasSuffix(trim, ":") && !strings.Contains(trim, " ") && !isAllDigits(strings.TrimSuffix(trim, ":")):
			// duplicate a label: add a new block with the same name at the end of the function is complex; instead repeat the label with a terminator
			dup = "duplicate/label"
		}
		// a definition spelled with the empty quoted name (`@"" = ...`, `%"" = ...`,
		// `"":`) is unnamed: repeating it defines another unnamed entity, not the
		// same one twice
		if strings.HasPrefix(trim, `@"" `) || strings.HasPrefix(trim, `%"" `) || trim == `"":` {
			dup = ""
		}
		// removed definitions: the uses stay, the definition goes
		if dup != "" && !inFunc && dup != "duplicate/function-declaration" || (!inFunc && strings.HasPrefix(l, "declare")) {
			out = append(out, c05Fault{kind: "undefined/removed-definition-of-" + strings.TrimPrefix(dup, "duplicate/"), text: text[:off] + text[off+len(l):], site: fmt.Sprintf("line %d", i+1), warmup: text, naming: true})
		}
		if dup != "" {
			ins := l
			if dup == "duplicate/label" {
				ins = "  unreachable\n" + l
			}
			var sb strings.Builder
			sb.WriteString(text[:off+len(l)])
			sb.WriteString(ins)
			sb.WriteString(text[off+len(l):])
			out = append(out, c05Fault{kind: dup, text: sb.String(), site: fmt.Sprintf("line %d", i+1)})
			// the same definition once more under another spelling of its identifier
			// (quoted, an escaped character, a zero-padded number): still the same name
			if alt := c05RespellDef(ins); alt != "" && alt != ins {
				var sb2 strings.Builder
				sb2.WriteString(text[:off+len(l)])
				sb2.WriteString(alt)
				sb2.WriteString(text[off+len(l):])
				out = append(out, c05Fault{kind: dup + "-respelled", text: sb2.String(), site: fmt.Sprintf("line %d", i+1), naming: true})
			}
		}
		off += len(l)
	}
	return out
}

func genC05(ctx *fw.Ctx) []fw.Case {
	var cases []fw.Case
	var srcs []corpus.Source
	for _, s := range corpus.AtomSources() {
		if !strings.HasPrefix(s.ID, "atom/unrep/") {
			srcs = append(srcs, s)
		}
	}
	srcs = append(srcs, mgenSources(ctx, ctx.Pick(120, 3000))...)
	for _, s := range srcs {
		s := s
		cases = append(cases, fw.Case{ID: s.ID, Run: func(r *fw.Rec) { c05Source(r, s) }})
	}
	cases = append(cases, fw.Case{ID: "handwritten", Run: c05Handwritten})
	return cases
}

func c05Source(r *fw.Rec, s corpus.Source) {
	text, err := s.Text()
	if err != nil {
		r.Inconclusive("source unavailable")
		return
	}
	if ok, _, err := llvmref.Accepts(text); err != nil || !ok {
		r.Tally("bases", "not-valid-for-LLVM")
		return
	}
	if m, perr, pmsg := parseGuard(s.ID, text); pmsg != "" || perr != nil || m == nil {
		r.Tally("bases", "not-accepted-by-parser(C01 business)")
		return
	}
	r.Tally("bases", "used")
	faults := c05Faults(text)
	limit := r.Ctx().Pick(60, 400)
	if len(faults) > limit && len(text) > 1500 {
		rng := r.Ctx().Rand("c05/" + s.ID)
		rng.Shuffle(len(faults), func(i, j int) { faults[i], faults[j] = faults[j], faults[i] })
		faults = faults[:limit]
	} else if len(faults) <= limit {
		r.Tally("bases", "all-sites-enumerated")
	}
	for _, f := range faults {
		c05Judge(r, s.ID, f)
	}
	if len(faults) > 0 {
		r.Sample(map[string]interface{}{"base": s.ID, "faults_tried": len(faults), "example_kind": faults[len(faults)/2].kind, "example_site": faults[len(faults)/2].site})
	}
}

func c05Judge(r *fw.Rec, base string, f c05Fault) {
	r.Eval(1)
	ok, lmsg, err := llvmref.Accepts(f.text)
	if err != nil {
		r.Inconclusive("llvm tool failure")
		return
	}
	if ok {
		r.Tally("faults_llvm_accepts(not judged)", f.kind)
		return
	}
	if f.naming && !reNamingDiag.MatchString(lastDiag(lmsg)) {
		r.Tally("faults_llvm_rejects_for_another_reason(not judged)", f.kind)
		return
	}
	if f.warmup != "" {
		parseGuard(base, f.warmup)
	}
	m, perr, pmsg := parseGuard(base, f.text)
	switch {
	case pmsg != "":
		r.Violate(fw.Violation{Key: "fault-panics/" + f.kind + "/" + panicSite(pmsg), Input: f.text,
			What: fmt.Sprintf("naming fault %s at %s of %s: the parser panics instead of returning an error: %s", f.kind, f.site, base, firstLine(pmsg)), Observed: pmsg})
	case perr == nil && m != nil:
		out, _ := printGuard(m)
		r.Violate(fw.Violation{Key: "fault-accepted/" + f.kind, Input: f.text,
			What: fmt.Sprintf("naming fault %s at %s of %s, which LLVM rejects, is accepted by the parser and a module is returned", f.kind, f.site, base), Observed: out})
	case perr != nil && m != nil:
		r.Violate(fw.Violation{Key: "fault-error-with-module/" + f.kind, Input: f.text, What: "the parser returns both an error and a module"})
	case perr == nil && m == nil:
		r.Violate(fw.Violation{Key: "fault-neither-error-nor-module/" + f.kind, Input: f.text,
			What: fmt.Sprintf("naming fault %s at %s of %s: the parser returns no module and no error", f.kind, f.site, base)})
	default:
		r.Tally("faults_reported_as_error", f.kind)
		r.Nontrivial(base + "|" + f.kind + "|" + f.site)
	}
}

// c05Handwritten covers the fault forms that the token-level enumerator does
// not produce.
func c05Handwritten(r *fw.Rec) {
	cases := map[string]string{
		"undefined/type-alias-target":      "%a = type %undefined\n@g = global i32 0\n",
		"undefined/type-behind-pointer":    "@g = global %undefined* null\n",
		"undefined/type-in-function-type":  "declare void @f(%undefined*)\n",
		"undefined/type-in-struct-typedef": "%T = type { i32, %undefined }\n@g = global %T* null\n",
		"undefined/label-in-phi":           "define i32 @f() {\nentry:\n  br label %next\nnext:\n  %p = phi i32 [ 0, %missing ]\n  ret i32 %p\n}\n",
		"undefined/blockaddress-block":     "@a = global i8* blockaddress(@f, %missing)\ndefine void @f() {\nentry:\n  ret void\n}\n",
		"undefined/blockaddress-function":  "@a = global i8* blockaddress(@missing, %entry)\n",
		// a label that exists in another (unnamed / named) function only
		"undefined/blockaddress-block-of-another-unnamed-function":    "@t = global [2 x i8*] [i8* blockaddress(@0, %a), i8* blockaddress(@1, %a)]\ndefine void @0() {\n  br label %a\na:\n  ret void\n}\ndefine void @1() {\n  br label %b\nb:\n  ret void\n}\n",
		"undefined/blockaddress-block-of-another-function":            "@t = global [2 x i8*] [i8* blockaddress(@f, %a), i8* blockaddress(@g, %a)]\ndefine void @f() {\n  br label %a\na:\n  ret void\n}\ndefine void @g() {\n  br label %b\nb:\n  ret void\n}\n",
		"undefined/uselistorder_bb-block-of-another-unnamed-function": "define void @0() {\n  br label %a\na:\n  ret void\n}\ndefine void @1() {\n  br label %b\nb:\n  ret void\n}\n@t = global i8* blockaddress(@0, %a)\nuselistorder_bb @1, %a, { 1, 0 }\n",
		"undefined/uselistorder-global":                               "@g = global i32 0\nuselistorder i32* @missing, { 1, 0 }\n",
		"undefined/uselistorder_bb-block":                             "define void @f() {\nentry:\n  br label %b\nb:\n  ret void\n}\nuselistorder_bb @f, %missing, { 1, 0 }\n",
		"undefined/uselistorder_bb-func":                              "uselistorder_bb @missing, %b, { 1, 0 }\n",
		"undefined/metadata-in-named":                                 "!nm = !{!7}\n",
		"undefined/metadata-in-DI-field":                              "!llvm.module.flags = !{!1}\n!1 = !{i32 2, !\"Debug Info Version\", i32 3}\n!0 = !DIBasicType(name: \"int\")\n!2 = !DIDerivedType(tag: DW_TAG_pointer_type, baseType: !77)\n!nm = !{!0, !2}\n",
		"undefined/comdat-on-function":                                "define void @f() comdat($missing) {\n  ret void\n}\n",
		"undefined/alias-target":                                      "@a = alias i32, i32* @missing\n",
		"undefined/ifunc-resolver":                                    "@i = ifunc void (), void ()* ()* @missing\n",
		"undefined/personality":                                       "define void @f() personality i32 (...)* @missing {\n  ret void\n}\n",
		"undefined/local-in-other-function":                           "define i32 @f(i32 %x) {\n  ret i32 %x\n}\ndefine i32 @g() {\n  ret i32 %x\n}\n",
		"undefined/numbered-local":                                    "define i32 @f(i32) {\n  ret i32 %7\n}\n",
		"undefined/numbered-global":                                   "@0 = global i32 0\n@g = global i32* @5\n",
		// an unquoted all-digit token is an ID however long; it is never the name spelled with those digits
		"undefined/id-beyond-int64-is-not-a-name/local":  "define i32 @f(i32 %\"99999999999999999999\") {\n  ret i32 %99999999999999999999\n}\n",
		"undefined/id-beyond-int64-is-not-a-name/global": "@\"99999999999999999999\" = global i32 0\n@p = global i32* @99999999999999999999\n",
		"undefined/id-beyond-int64-is-not-a-name/type":   "%\"99999999999999999999\" = type { i32 }\n@g = global %99999999999999999999 zeroinitializer\n",
		"undefined/id-beyond-int64-is-not-a-name/label":  "define void @f() {\n\"99999999999999999999\":\n  br label %99999999999999999999\n}\n",
		"undefined/id-beyond-int64-is-not-a-name/callee": "declare void @\"18446744073709551616\"()\ndefine void @f() {\n  call void @18446744073709551616()\n  ret void\n}\n",
		"duplicate/param":                  "define void @f(i32 %x, i32 %x) {\n  ret void\n}\n",
		"duplicate/param-and-inst":         "define i32 @f(i32 %x) {\n  %x = add i32 1, 2\n  ret i32 %x\n}\n",
		"duplicate/label-and-inst":         "define i32 @f() {\nx:\n  %x = add i32 1, 2\n  ret i32 %x\n}\n",
		"duplicate/global-and-function":    "@f = global i32 0\ndefine void @f() {\n  ret void\n}\n",
		"duplicate/alias-and-global":       "@g = global i32 0\n@a = alias i32, i32* @g\n@a = global i32 1\n",
		"duplicate/numbered-global":        "@0 = global i32 0\n@0 = global i32 1\n",
		"duplicate/type-opaque-then-twice": "%T = type opaque\n%T = type { i32 }\n%T = type { i64 }\n@g = global %T* null\n",
		"selfref/type-alias-cycle":         "%a = type %b\n%b = type %a\n@g = global i32 0\n",
		// a block of a function that has no body cannot be named
		"undefined/blockaddress-in-declaration":          "@a = global i8* blockaddress(@f, %bb)\ndeclare void @f()\n",
		"undefined/blockaddress-in-declaration-numbered": "declare void @f()\ndefine i8* @g() {\n  ret i8* blockaddress(@f, %1)\n}\n",
		"undefined/blockaddress-in-declaration-table":    "declare void @f()\n@t = constant [2 x i8*] [i8* blockaddress(@f, %a), i8* blockaddress(@f, %b)]\n",
		"undefined/blockaddress-of-variable":             "@v = global i32 0\n@a = global i8* blockaddress(@v, %bb)\n",
		"undefined/comdat-bare-on-function":              "define void @f() comdat {\n  ret void\n}\n",
		"undefined/comdat-on-global":                     "@g = global i32 0, comdat($missing)\n",
		// the implicit comdat of an unnamed value has no name: it is not the comdat with the empty name
		"undefined/implicit-comdat-of-unnamed-global":         "$\"\" = comdat any\n@0 = global i32 0, comdat\n",
		"undefined/implicit-comdat-of-unnamed-function":       "$\"\" = comdat any\ndefine void @0() comdat {\n  ret void\n}\n",
		"undefined/implicit-comdat-of-empty-named-global":     "$\"\" = comdat any\n@\"\" = global i32 0, comdat\n",
		"undefined/metadata-attachment-on-global":             "@g = global i32 0, !dbg !9\n",
		"undefined/metadata-attachment-on-inst":               "define void @f() {\n  ret void, !dbg !9\n}\n",
		"undefined/metadata-attachment-on-function":           "define void @f() !dbg !9 {\n  ret void\n}\n",
		"undefined/metadata-in-call-argument":                 "declare void @llvm.dbg.value(metadata, metadata, metadata)\ndefine void @f() {\n  call void @llvm.dbg.value(metadata i32 0, metadata !9, metadata !DIExpression())\n  ret void\n}\n",
		"undefined/metadata-in-tuple":                         "!0 = !{!1}\n!nm = !{!0}\n",
		"undefined/global-in-constant-expression":             "@g = global i64 ptrtoint (i32* @missing to i64)\n",
		"undefined/global-in-gep-expression":                  "@g = global i32* getelementptr (i32, i32* @missing, i64 1)\n",
		"undefined/label-in-switch":                           "define void @f(i32 %x) {\nentry:\n  switch i32 %x, label %d [ i32 1, label %missing ]\nd:\n  ret void\n}\n",
		"undefined/label-in-indirectbr":                       "define void @f(i8* %p) {\nentry:\n  indirectbr i8* %p, [label %missing]\n}\n",
		"undefined/label-in-invoke-unwind":                    "declare void @g()\ndefine void @f() personality i8* null {\nentry:\n  invoke void @g() to label %ok unwind label %missing\nok:\n  ret void\n}\n",
		"undefined/label-in-condbr":                           "define void @f(i1 %c) {\nentry:\n  br i1 %c, label %a, label %missing\na:\n  ret void\n}\n",
		"undefined/label-in-callbr":                           "define void @f() {\nentry:\n  callbr void asm \"\", \"X\"(i8* blockaddress(@f, %a)) to label %a [label %missing]\na:\n  ret void\n}\n",
		"undefined/type-in-alloca":                            "define void @f() {\n  %a = alloca %missing\n  ret void\n}\n",
		"undefined/type-in-cast":                              "define void @f(i8* %p) {\n  %a = bitcast i8* %p to %missing*\n  ret void\n}\n",
		"undefined/local-in-phi-value":                        "define i32 @f() {\nentry:\n  br label %next\nnext:\n  %p = phi i32 [ %missing, %entry ]\n  ret i32 %p\n}\n",
		"undefined/local-in-call-argument":                    "declare void @g(i32)\ndefine void @f() {\n  call void @g(i32 %missing)\n  ret void\n}\n",
		"undefined/local-in-bundle":                           "declare void @g()\ndefine void @f() {\n  call void @g() [ \"deopt\"(i32 %missing) ]\n  ret void\n}\n",
		"undefined/quoted-digit-global-is-not-the-id":         "@0 = global i32 7\n@p = global i32* @\"0\"\n",
		"undefined/global-id-is-not-the-quoted-digit":         "@\"0\" = global i32 7\n@p = global i32* @0\n",
		"undefined/quoted-digit-callee-is-not-the-id":         "define void @0() {\n  ret void\n}\ndefine void @f() {\n  call void @\"0\"()\n  ret void\n}\n",
		"undefined/quoted-digit-local-is-not-the-id":          "define i32 @f(i32) {\n  ret i32 %\"0\"\n}\n",
		"undefined/quoted-digit-type-is-not-the-id":           "%0 = type { i32 }\n@g = global %\"0\" zeroinitializer\n",
		"undefined/type-id-is-not-the-quoted-digit":           "%\"0\" = type { i32 }\n@g = global %0 zeroinitializer\n",
		"undefined/quoted-digit-blockaddress-function":        "define void @0() {\n  br label %b\nb:\n  ret void\n}\n@a = global i8* blockaddress(@\"0\", %b)\n",
		"undefined/zero-padded-metadata-id":                   "!nm = !{!007}\n!8 = !{}\n",
		"undefined/uselistorder-blockaddress-block":           "define void @f() {\nentry:\n  br label %b\nb:\n  ret void\n}\n@a = global i8* blockaddress(@f, %b)\n@c = global i8* blockaddress(@f, %b)\nuselistorder i8* blockaddress(@f, %nope), { 1, 0 }\n",
		"undefined/cleanupret-unwind-label":                   "declare i32 @pers(...)\ndefine void @f() personality i32 (...)* @pers {\nentry:\n  invoke void @f() to label %ok unwind label %cl\nok:\n  ret void\ncl:\n  %cp = cleanuppad within none []\n  cleanupret from %cp unwind label %nope\n}\n",
		"undefined/catchswitch-handler-label":                 "declare i32 @pers(...)\ndefine void @f() personality i32 (...)* @pers {\nentry:\n  invoke void @f() to label %ok unwind label %cs\nok:\n  ret void\ncs:\n  %s = catchswitch within none [label %nope] unwind to caller\n}\n",
		"undefined/catchret-target-label":                     "declare i32 @pers(...)\ndefine void @f() personality i32 (...)* @pers {\nentry:\n  invoke void @f() to label %ok unwind label %cs\nok:\n  ret void\ncs:\n  %s = catchswitch within none [label %h] unwind to caller\nh:\n  %cp = catchpad within %s []\n  catchret from %cp to label %nope\n}\n",
		"duplicate/explicit-zero-inst-and-entry-block":        "define i32 @f(i32 %x) {\n  %0 = add i32 %x, 1\n  ret i32 %0\n}\n",
		"duplicate/explicit-zero-twice":                       "define i32 @f() {\n0:\n  %0 = add i32 1, 2\n  ret i32 %0\n}\n",
		"duplicate/explicit-zero-block-after-param":           "define i32 @f(i32) {\n0:\n  ret i32 %0\n}\n",
		"duplicate/explicit-number-twice":                     "define i32 @f() {\n  %1 = add i32 1, 2\n  %1 = add i32 1, 3\n  ret i32 %1\n}\n",
		"duplicate/param-in-declaration":                      "declare void @f(i32 %x, i32 %x)\n",
		"duplicate/misnumbered-param-in-declaration":          "declare void @f(i32 %x, i32 %1)\n",
		"duplicate/label-and-param":                           "define i32 @f(i32 %x) {\nx:\n  ret i32 %x\n}\n",
		"duplicate/inst-then-label":                           "define i32 @f() {\nentry:\n  %next = add i32 1, 2\n  br label %next\nnext:\n  ret i32 0\n}\n",
		"duplicate/invoke-result-and-label":                   "declare i32 @g()\ndefine i32 @f() personality i8* null {\nentry:\n  %ok = invoke i32 @g() to label %ok unwind label %lp\nok:\n  ret i32 0\nlp:\n  %l = landingpad i32 cleanup\n  ret i32 1\n}\n",
		"duplicate/label-twice":                               "define void @f() {\na:\n  br label %a\na:\n  ret void\n}\n",
		"duplicate/function-declared-and-defined-differently": "declare i32 @f()\ndefine void @f() {\n  ret void\n}\n",
		"duplicate/comdat":                                    "$c = comdat any\n$c = comdat largest\n@g = global i32 0, comdat($c)\n",
		"duplicate/metadata-id":                               "!0 = !{}\n!0 = !{!\"x\"}\n!nm = !{!0}\n",
		"duplicate/ifunc-and-function":                        "@r = global i32 0\ndefine void ()* @res() {\n  ret void ()* null\n}\n@f = ifunc void (), void ()* ()* @res\ndefine void @f() {\n  ret void\n}\n",
		// explicit numbers on the results of terminators
		"duplicate/explicit-number-on-catchswitch": "declare i32 @pers(...)\ndefine void @f() personality i32 (...)* @pers {\nentry:\n  %0 = add i32 1, 2\n  %1 = add i32 %0, 2\n  invoke void @f() to label %ok unwind label %cs\nok:\n  ret void\ncs:\n  %1 = catchswitch within none [label %h] unwind to caller\nh:\n  %3 = catchpad within %2 []\n  catchret from %3 to label %ok\n}\n",
		"duplicate/explicit-number-on-callbr":      "define i32 @f(i32 %x) {\nentry:\n  %0 = add i32 %x, 2\n  %1 = add i32 %0, 2\n  %1 = callbr i32 asm \"\", \"=r,r,X\"(i32 %x, i8* blockaddress(@f, %ind)) to label %ok [label %ind]\nok:\n  ret i32 %1\nind:\n  ret i32 0\n}\n",
		"duplicate/explicit-number-on-invoke":      "declare i32 @pers(...)\ndeclare i32 @g()\ndefine i32 @f() personality i32 (...)* @pers {\nentry:\n  %0 = add i32 1, 2\n  %1 = add i32 %0, 2\n  %1 = invoke i32 @g() to label %ok unwind label %lp\nok:\n  ret i32 %1\nlp:\n  %l = landingpad i32 cleanup\n  ret i32 0\n}\n",
		"duplicate/misnumbered-callbr-result":      "define i32 @f(i32 %x) {\nentry:\n  %9 = callbr i32 asm \"\", \"=r,r,X\"(i32 %x, i8* blockaddress(@f, %ind)) to label %ok [label %ind]\nok:\n  %1 = add i32 %9, 1\n  ret i32 %1\nind:\n  ret i32 0\n}\n",
		"duplicate/misnumbered-catchswitch-result": "declare i32 @pers(...)\ndefine void @f() personality i32 (...)* @pers {\nentry:\n  invoke void @f() to label %ok unwind label %cs\nok:\n  ret void\ncs:\n  %7 = catchswitch within none [label %h] unwind to caller\nh:\n  %1 = catchpad within %0 []\n  catchret from %1 to label %ok\n}\n",
		"duplicate/misnumbered-invoke-result":      "declare i32 @pers(...)\ndeclare i32 @g()\ndefine i32 @f() personality i32 (...)* @pers {\nentry:\n  %5 = invoke i32 @g() to label %ok unwind label %lp\nok:\n  ret i32 %5\nlp:\n  %l = landingpad i32 cleanup\n  ret i32 0\n}\n",
		// named types inside attributes
		"undefined/type-in-preallocated-function-attribute": "declare void @f() preallocated(%missing)\n",
		"undefined/type-in-preallocated-attribute-group":    "declare void @f() #0\nattributes #0 = { preallocated(%missing) }\n",
		"undefined/type-in-byval-parameter-attribute":       "declare void @f(i8* byval(%missing))\n",
		"undefined/type-in-sret-parameter-attribute":        "declare void @f(i8* sret(%missing))\n",
		"undefined/type-in-byref-parameter-attribute":       "declare void @f(i8* byref(%missing))\n",
		"undefined/type-in-inalloca-parameter-attribute":    "declare void @f(i8* inalloca(%missing))\n",
		"undefined/type-in-elementtype-call-attribute":      "declare void @llvm.x(i8*)\ndefine void @f(i8* %p) {\n  call void @llvm.x(i8* elementtype(%missing) %p)\n  ret void\n}\n",
		"undefined/type-in-byval-call-argument":             "declare void @g(i8*)\ndefine void @f(i8* %p) {\n  call void @g(i8* byval(%missing) %p)\n  ret void\n}\n",
		"undefined/type-in-preallocated-call-attribute":     "declare void @g()\ndefine void @f() {\n  call void @g() preallocated(%missing)\n  ret void\n}\n",
		// the empty quoted name: a definition spelled `%""` is unnamed, so nothing is
		// ever called "" and a reference to it has no definition (LLVM: use of
		// undefined value '%')
		"undefined/empty-name-local-is-not-id-0":          "define i32 @f(i32) {\n  ret i32 %\"\"\n}\n",
		"undefined/empty-name-local-is-not-entry-block":   "define void @f() {\n  %x = add i32 1, 2\n  br label %\"\"\n}\n",
		"undefined/empty-name-global-is-not-id-0":         "@0 = global i32 5\n@p = global i32* @\"\"\n",
		"undefined/empty-name-callee-is-not-id-0":         "define void @0() {\n  ret void\n}\ndefine void @f() {\n  call void @\"\"()\n  ret void\n}\n",
		"undefined/empty-name-type-is-not-id-0":           "%0 = type { i32 }\n@g = global %\"\" zeroinitializer\n",
		"undefined/empty-name-phi-pred-is-not-id-0":       "define i32 @f() {\n  br label %next\nnext:\n  %p = phi i32 [ 0, %\"\" ]\n  ret i32 %p\n}\n",
		"undefined/empty-name-blockaddress-function":      "define void @0() {\n  br label %b\nb:\n  ret void\n}\n@a = global i8* blockaddress(@\"\", %b)\n",
		"undefined/empty-name-blockaddress-block":         "define void @f() {\n  br label %b\nb:\n  ret void\n}\n@a = global i8* blockaddress(@f, %\"\")\n",
		"undefined/empty-name-alias-target":               "@0 = global i32 5\n@a = alias i32, i32* @\"\"\n",
		"duplicate/explicit-zero-param-twice-declaration": "declare void @f(i32 %0, i32 %0)\n",
		"duplicate/explicit-zero-param-twice-definition":  "define i32 @f(i32 %0, i32 %0) {\n  ret i32 %0\n}\n",
		"duplicate/explicit-zero-param-after-unnamed":     "declare void @f(i32, i32 %0)\n",
	}
	for _, kind := range fw.SortedKeys(cases) {
		c05Judge(r, "handwritten", c05Fault{kind: kind, text: cases[kind], site: "handwritten"})
	}
}

// c05LookAlike derives from a named identifier token (`@name`, `%"name"`, `$name`)
// the spelling of another name that resembles it; "" for numeric IDs and
// metadata / attribute-group references. Whether the result is undefined in the
// module at hand is decided by LLVM (the gate), not here.
func c05LookAlike(tok string, variant int) string {
	if len(tok) < 2 || !(tok[0] == '@' || tok[0] == '%' || tok[0] == '$') {
		return ""
	}
	name, quoted := tok[1:], false
	if len(name) >= 2 && name[0] == '"' && name[len(name)-1] == '"' {
		name, quoted = name[1:len(name)-1], true
	}
	if name == "" {
		return ""
	}
	allDigits := true
	for i := 0; i < len(name); i++ {
		if name[i] < '0' || name[i] > '9' {
			allDigits = false
		}
	}
	if allDigits && !quoted {
		return ""
	}
	var alike string
	switch variant % 5 {
	case 0:
		alike = name + ".1"
	case 1:
		alike = name + "0"
	case 2:
		if len(name) > 1 && name[len(name)-1] != '\\' && !(len(name) > 2 && name[len(name)-3] == '\\') {
			alike = name[:len(name)-1]
		} else {
			alike = name + ".2"
		}
	case 3:
		alike = name + "."
	default:
		b := []byte(name)
		changed := false
		for i := range b {
			if b[i] >= 'a' && b[i] <= 'z' {
				b[i] -= 32
				changed = true
				break
			} else if b[i] >= 'A' && b[i] <= 'Z' {
				b[i] += 32
				changed = true
				break
			}
		}
		alike = string(b)
		if !changed {
			alike = name + "_"
		}
	}
	if quoted {
		return tok[:1] + `"` + alike + `"`
	}
	return tok[:1] + alike
}

// c05RespellDef rewrites the identifier a definition line (or label line)
// defines into another spelling of the same name: name -> "name", "name" ->
// "\XXame" (first byte escaped), !7 -> !07, @7 / %7 unchanged (returns "").
func c05RespellDef(l string) string {
	indent := l[:len(l)-len(strings.TrimLeft(l, " \t"))]
	body := l[len(indent):]
	// a label line, possibly preceded by the terminator the enumeration inserts
	if i := strings.LastIndex(l, "\n"); i >= 0 && i < len(l)-1 {
		head, last := l[:i+1], l[i+1:]
		if alt := c05RespellDef(last); alt != "" {
			return head + alt
		}
		return ""
	}
	respell := func(id string) string {
		if id == "" {
			return ""
		}
		if id[0] == '"' && len(id) >= 3 && id[len(id)-1] == '"' && id[1] != '\\' {
			return fmt.Sprintf(`"\%02X%s`, id[1], id[2:])
		}
		if id[0] == '"' {
			return ""
		}
		for i := 0; i < len(id); i++ {
			if id[i] < '0' || id[i] > '9' {
				return `"` + id + `"`
			}
		}
		return "" // a number
	}
	trim := strings.TrimRight(body, "\n")
	if strings.HasSuffix(trim, ":") && !strings.Contains(trim, " ") {
		if alt := respell(strings.TrimSuffix(trim, ":")); alt != "" {
			return indent + alt + ":\n"
		}
		return ""
	}
	if len(body) < 2 {
		return ""
	}
	sig := body[0]
	eq := strings.Index(body, " = ")
	if eq < 0 || !(sig == '@' || sig == '$' || sig == '%' || sig == '!') {
		return ""
	}
	id := body[1:eq]
	if sig == '!' {
		for i := 0; i < len(id); i++ {
			if id[i] < '0' || id[i] > '9' {
				return ""
			}
		}
		return indent + "!0" + id + body[eq:]
	}
	if alt := respell(id); alt != "" {
		return indent + string(sig) + alt + body[eq:]
	}
	return ""
}
