package props

import (
	"fmt"
	"math"
	"math/big"
	"math/rand"
	"strings"

	"github.com/llir/llvm/ir"
	"github.com/llir/llvm/ir/constant"
	"github.com/llir/llvm/ir/enum"
	"github.com/llir/llvm/ir/types"
	"github.com/llir/llvm/ir/value"

	"verif/internal/fw"
	"verif/internal/llvmref"
)

// xval is a value of the reference evaluator: an integer of width w (bits
// held unsigned), a float or a double.
type xval struct {
	kind string // int f32 f64
	w    uint
	u    uint64 // int: value mod 2^w ; f32/f64: bit pattern
	v    value.Value
}

func (x xval) f64() float64 { return math.Float64frombits(x.u) }
func (x xval) f32() float32 { return math.Float32frombits(uint32(x.u)) }

func maskw(u uint64, w uint) uint64 {
	if w >= 64 {
		return u
	}
	return u & (1<<w - 1)
}

func sext(u uint64, w uint) int64 {
	if w >= 64 {
		return int64(u)
	}
	if u&(1<<(w-1)) != 0 {
		return int64(u | ^(1<<w - 1))
	}
	return int64(u)
}

type xprog struct {
	rng    *rand.Rand
	m      *ir.Module
	f      *ir.Func
	b      *ir.Block
	vals   []xval
	out    []xval // values printed at the end, in order
	printf *ir.Func
	fmtI   *ir.Global
	n      int
	ops    map[string]int
}

func (p *xprog) name() string {
	if p.rng.Intn(3) == 0 {
		return ""
	}
	p.n++
	return fmt.Sprintf("x%d", p.n)
}

func (p *xprog) named(v value.Value) value.Value {
	if n, ok := v.(value.Named); ok {
		n.SetName(p.name())
	}
	return v
}

func (p *xprog) intConst(w uint) xval {
	var u uint64
	switch p.rng.Intn(5) {
	case 0:
		u = 0
	case 1:
		u = ^uint64(0)
	case 2:
		u = uint64(p.rng.Intn(100))
	default:
		u = p.rng.Uint64()
	}
	u = maskw(u, w)
	t := types.NewInt(uint64(w))
	var c *constant.Int
	if p.rng.Intn(2) == 0 {
		c = &constant.Int{Typ: t, X: new(big.Int).SetUint64(u)} // unsigned representation
	} else {
		c = constant.NewInt(t, sext(u, w)) // signed representation
	}
	return xval{kind: "int", w: w, u: u, v: c}
}

func (p *xprog) pickInt(w uint) xval {
	var c []xval
	for _, v := range p.vals {
		if v.kind == "int" && v.w == w {
			c = append(c, v)
		}
	}
	if len(c) == 0 || p.rng.Intn(4) == 0 {
		return p.intConst(w)
	}
	return c[p.rng.Intn(len(c))]
}

func (p *xprog) pickF(kind string) xval {
	var c []xval
	for _, v := range p.vals {
		if v.kind == kind {
			c = append(c, v)
		}
	}
	if len(c) == 0 || p.rng.Intn(4) == 0 {
		f := []float64{0, 1, -1, 0.5, 2.25, -3.75, 100, 1e10, 1.0 / 3.0, 12345.678}[p.rng.Intn(10)]
		if kind == "f32" {
			f32 := float32(f)
			return xval{kind: "f32", u: uint64(math.Float32bits(f32)), v: constant.NewFloat(types.Float, float64(f32))}
		}
		return xval{kind: "f64", u: math.Float64bits(f), v: constant.NewFloat(types.Double, f)}
	}
	return c[p.rng.Intn(len(c))]
}

func (p *xprog) add(x xval) xval {
	p.vals = append(p.vals, x)
	if p.rng.Intn(2) == 0 {
		p.out = append(p.out, x)
	}
	return x
}

var xwidths = []uint{1, 8, 16, 32, 64, 13, 7, 24}

// step appends one random operation (instruction + expected value).
func (p *xprog) step() {
	rng := p.rng
	b := p.b
	w := xwidths[rng.Intn(len(xwidths))]
	switch rng.Intn(17) {
	case 16: // wide integers: a constant wider than 64 bits, shifted and truncated back
		p.wideStep()
	case 0, 1, 2: // wrapping arithmetic and logic
		x, y := p.pickInt(w), p.pickInt(w)
		var r uint64
		var v value.Value
		switch op := rng.Intn(6); op {
		case 0:
			r, v = x.u+y.u, b.NewAdd(x.v, y.v)
			p.ops["add"]++
		case 1:
			r, v = x.u-y.u, b.NewSub(x.v, y.v)
			p.ops["sub"]++
		case 2:
			r, v = x.u*y.u, b.NewMul(x.v, y.v)
			p.ops["mul"]++
		case 3:
			r, v = x.u&y.u, b.NewAnd(x.v, y.v)
			p.ops["and"]++
		case 4:
			r, v = x.u|y.u, b.NewOr(x.v, y.v)
			p.ops["or"]++
		default:
			r, v = x.u^y.u, b.NewXor(x.v, y.v)
			p.ops["xor"]++
		}
		p.add(xval{kind: "int", w: w, u: maskw(r, w), v: p.named(v)})
	case 3: // division (non-zero divisor, no signed overflow)
		x, y := p.pickInt(w), p.pickInt(w)
		if y.u == 0 || w == 1 {
			return
		}
		sx, sy := sext(x.u, w), sext(y.u, w)
		if sy == -1 {
			return
		}
		var r uint64
		var v value.Value
		switch rng.Intn(4) {
		case 0:
			r, v = x.u/y.u, b.NewUDiv(x.v, y.v)
			p.ops["udiv"]++
		case 1:
			r, v = uint64(sx/sy), b.NewSDiv(x.v, y.v)
			p.ops["sdiv"]++
		case 2:
			r, v = x.u%y.u, b.NewURem(x.v, y.v)
			p.ops["urem"]++
		default:
			r, v = uint64(sx%sy), b.NewSRem(x.v, y.v)
			p.ops["srem"]++
		}
		p.add(xval{kind: "int", w: w, u: maskw(r, w), v: p.named(v)})
	case 4: // shifts by an in-range constant amount
		x := p.pickInt(w)
		sh := uint64(rng.Intn(int(w)))
		c := constant.NewInt(types.NewInt(uint64(w)), int64(sh))
		var r uint64
		var v value.Value
		switch rng.Intn(3) {
		case 0:
			r, v = x.u<<sh, b.NewShl(x.v, c)
			p.ops["shl"]++
		case 1:
			r, v = x.u>>sh, b.NewLShr(x.v, c)
			p.ops["lshr"]++
		default:
			r, v = uint64(sext(x.u, w)>>sh), b.NewAShr(x.v, c)
			p.ops["ashr"]++
		}
		if w == 1 && sh == 0 {
			// i1 constant 0 shift
		}
		p.add(xval{kind: "int", w: w, u: maskw(r, w), v: p.named(v)})
	case 5: // icmp + select
		x, y := p.pickInt(w), p.pickInt(w)
		preds := []enum.IPred{enum.IPredEQ, enum.IPredNE, enum.IPredUGT, enum.IPredUGE, enum.IPredULT, enum.IPredULE, enum.IPredSGT, enum.IPredSGE, enum.IPredSLT, enum.IPredSLE}
		pr := preds[rng.Intn(len(preds))]
		sx, sy := sext(x.u, w), sext(y.u, w)
		var c bool
		switch pr {
		case enum.IPredEQ:
			c = x.u == y.u
		case enum.IPredNE:
			c = x.u != y.u
		case enum.IPredUGT:
			c = x.u > y.u
		case enum.IPredUGE:
			c = x.u >= y.u
		case enum.IPredULT:
			c = x.u < y.u
		case enum.IPredULE:
			c = x.u <= y.u
		case enum.IPredSGT:
			c = sx > sy
		case enum.IPredSGE:
			c = sx >= sy
		case enum.IPredSLT:
			c = sx < sy
		case enum.IPredSLE:
			c = sx <= sy
		}
		cv := p.named(b.NewICmp(pr, x.v, y.v))
		cu := uint64(0)
		if c {
			cu = 1
		}
		p.add(xval{kind: "int", w: 1, u: cu, v: cv})
		sel := p.named(b.NewSelect(cv, x.v, y.v))
		r := y.u
		if c {
			r = x.u
		}
		p.ops["icmp"]++
		p.ops["select"]++
		p.add(xval{kind: "int", w: w, u: r, v: sel})
	case 6: // integer casts
		x := p.pickInt(w)
		w2 := xwidths[rng.Intn(len(xwidths))]
		if w2 == w {
			return
		}
		t2 := types.NewInt(uint64(w2))
		if w2 < w {
			p.ops["trunc"]++
			p.add(xval{kind: "int", w: w2, u: maskw(x.u, w2), v: p.named(b.NewTrunc(x.v, t2))})
		} else if rng.Intn(2) == 0 {
			p.ops["zext"]++
			p.add(xval{kind: "int", w: w2, u: x.u, v: p.named(b.NewZExt(x.v, t2))})
		} else {
			p.ops["sext"]++
			p.add(xval{kind: "int", w: w2, u: maskw(uint64(sext(x.u, w)), w2), v: p.named(b.NewSExt(x.v, t2))})
		}
	case 7: // double arithmetic
		x, y := p.pickF("f64"), p.pickF("f64")
		var r float64
		var v value.Value
		switch rng.Intn(4) {
		case 0:
			r, v = x.f64()+y.f64(), b.NewFAdd(x.v, y.v)
			p.ops["fadd"]++
		case 1:
			r, v = x.f64()-y.f64(), b.NewFSub(x.v, y.v)
			p.ops["fsub"]++
		case 2:
			r, v = x.f64()*y.f64(), b.NewFMul(x.v, y.v)
			p.ops["fmul"]++
		default:
			if y.f64() == 0 {
				return
			}
			r, v = x.f64()/y.f64(), b.NewFDiv(x.v, y.v)
			p.ops["fdiv"]++
		}
		if math.IsNaN(r) || math.IsInf(r, 0) {
			return
		}
		p.add(xval{kind: "f64", u: math.Float64bits(r), v: p.named(v)})
	case 8: // float arithmetic
		x, y := p.pickF("f32"), p.pickF("f32")
		var r float32
		var v value.Value
		switch rng.Intn(3) {
		case 0:
			r, v = x.f32()+y.f32(), b.NewFAdd(x.v, y.v)
		case 1:
			r, v = x.f32()*y.f32(), b.NewFMul(x.v, y.v)
		default:
			r, v = -x.f32(), b.NewFNeg(x.v)
			p.ops["fneg"]++
		}
		if r != r || math.IsInf(float64(r), 0) {
			return
		}
		p.ops["f32-arith"]++
		p.add(xval{kind: "f32", u: uint64(math.Float32bits(r)), v: p.named(v)})
	case 9: // fp <-> int conversions (in range)
		switch rng.Intn(4) {
		case 0:
			x := p.pickInt(32)
			p.ops["sitofp"]++
			p.add(xval{kind: "f64", u: math.Float64bits(float64(int32(x.u))), v: p.named(b.NewSIToFP(x.v, types.Double))})
		case 1:
			x := p.pickInt(16)
			p.ops["uitofp"]++
			p.add(xval{kind: "f32", u: uint64(math.Float32bits(float32(x.u))), v: p.named(b.NewUIToFP(x.v, types.Float))})
		case 2:
			x := p.pickF("f64")
			f := x.f64()
			if math.Abs(f) >= 1e9 {
				return
			}
			p.ops["fptosi"]++
			p.add(xval{kind: "int", w: 32, u: maskw(uint64(int64(f)), 32), v: p.named(b.NewFPToSI(x.v, types.I32))})
		default:
			x := p.pickF("f32")
			p.ops["fpext"]++
			p.add(xval{kind: "f64", u: math.Float64bits(float64(x.f32())), v: p.named(b.NewFPExt(x.v, types.Double))})
		}
	case 10: // bitcasts
		if rng.Intn(2) == 0 {
			x := p.pickF("f64")
			p.ops["bitcast"]++
			p.add(xval{kind: "int", w: 64, u: x.u, v: p.named(b.NewBitCast(x.v, types.I64))})
		} else {
			x := p.pickInt(32)
			f := math.Float32frombits(uint32(x.u))
			if f != f {
				return
			}
			p.ops["bitcast"]++
			p.add(xval{kind: "f32", u: x.u, v: p.named(b.NewBitCast(x.v, types.Float))})
		}
	case 11: // memory: alloca array, store through gep, load back
		n := 2 + rng.Intn(3)
		et := types.NewInt(uint64(w))
		at := types.NewArray(uint64(n), et)
		a := p.named(b.NewAlloca(at))
		stored := make([]xval, n)
		for i := 0; i < n; i++ {
			stored[i] = p.pickInt(w)
			gp := b.NewGetElementPtr(at, a, constant.NewInt(types.I64, 0), constant.NewInt(types.I32, int64(i)))
			gp.InBounds = rng.Intn(2) == 0
			b.NewStore(stored[i].v, p.named(gp))
		}
		k := rng.Intn(n)
		idx := p.pickInt(32)
		_ = idx
		gp := p.named(b.NewGetElementPtr(at, a, constant.NewInt(types.I32, 0), constant.NewInt(types.I64, int64(k))))
		p.ops["alloca/store/gep/load"]++
		p.add(xval{kind: "int", w: w, u: stored[k].u, v: p.named(b.NewLoad(et, gp))})
	case 12: // struct aggregate: insertvalue / extractvalue
		if rng.Intn(2) == 0 {
			// nested structs: every level is stepped into with an index of its own
			inner := types.NewStruct(types.I8, types.I64)
			elem := types.NewStruct(types.I16, types.I32)
			st := types.NewStruct(types.I32, inner, types.NewArray(2, elem))
			x, y, z, u, v := p.pickInt(32), p.pickInt(8), p.pickInt(64), p.pickInt(16), p.pickInt(32)
			var agg value.Value = constant.NewUndef(st)
			agg = p.named(b.NewInsertValue(agg, x.v, 0))
			agg = p.named(b.NewInsertValue(agg, y.v, 1, 0))
			agg = p.named(b.NewInsertValue(agg, z.v, 1, 1))
			agg = p.named(b.NewInsertValue(agg, u.v, 2, 1, 0))
			agg = p.named(b.NewInsertValue(agg, v.v, 2, 0, 1))
			p.ops["insertvalue/extractvalue(nested)"]++
			switch rng.Intn(5) {
			case 0:
				p.add(xval{kind: "int", w: 8, u: y.u, v: p.named(b.NewExtractValue(agg, 1, 0))})
			case 1:
				p.add(xval{kind: "int", w: 64, u: z.u, v: p.named(b.NewExtractValue(agg, 1, 1))})
			case 2:
				p.add(xval{kind: "int", w: 16, u: u.u, v: p.named(b.NewExtractValue(agg, 2, 1, 0))})
			case 3:
				p.add(xval{kind: "int", w: 32, u: v.u, v: p.named(b.NewExtractValue(agg, 2, 0, 1))})
			default:
				in := p.named(b.NewExtractValue(agg, 1))
				p.add(xval{kind: "int", w: 64, u: z.u, v: p.named(b.NewExtractValue(in, 1))})
			}
			return
		}
		st := types.NewStruct(types.I32, types.NewArray(2, types.I8), types.I64)
		x, y, z := p.pickInt(32), p.pickInt(8), p.pickInt(64)
		var agg value.Value = constant.NewUndef(st)
		agg = p.named(b.NewInsertValue(agg, x.v, 0))
		agg = p.named(b.NewInsertValue(agg, y.v, 1, 1))
		agg = p.named(b.NewInsertValue(agg, z.v, 2))
		p.ops["insertvalue/extractvalue"]++
		switch rng.Intn(3) {
		case 0:
			p.add(xval{kind: "int", w: 32, u: x.u, v: p.named(b.NewExtractValue(agg, 0))})
		case 1:
			p.add(xval{kind: "int", w: 8, u: y.u, v: p.named(b.NewExtractValue(agg, 1, 1))})
		default:
			p.add(xval{kind: "int", w: 64, u: z.u, v: p.named(b.NewExtractValue(agg, 2))})
		}
	case 13: // vectors
		vt := types.NewVector(4, types.I32)
		es := []xval{p.pickInt(32), p.pickInt(32), p.pickInt(32), p.pickInt(32)}
		var vec value.Value = constant.NewUndef(vt)
		for i, e := range es {
			vec = p.named(b.NewInsertElement(vec, e.v, constant.NewInt(types.I32, int64(i))))
		}
		sum := p.named(b.NewAdd(vec, vec))
		mask := constant.NewVector(types.NewVector(4, types.I32), constant.NewInt(types.I32, 3), constant.NewInt(types.I32, 2), constant.NewInt(types.I32, 5), constant.NewInt(types.I32, 0))
		sh := p.named(b.NewShuffleVector(sum, vec, mask))
		// sh = [2*e3, 2*e2, e1, 2*e0]
		exp := []uint64{2 * es[3].u, 2 * es[2].u, es[1].u, 2 * es[0].u}
		k := rng.Intn(4)
		p.ops["insertelement/shufflevector/extractelement"]++
		p.add(xval{kind: "int", w: 32, u: maskw(exp[k], 32), v: p.named(b.NewExtractElement(sh, constant.NewInt(types.I64, int64(k))))})
	case 14: // control flow: diamond with phi
		x, y := p.pickInt(w), p.pickInt(w)
		c := p.pickInt(1)
		t := p.f.NewBlock(p.name())
		e := p.f.NewBlock(p.name())
		j := p.f.NewBlock(p.name())
		b.NewCondBr(c.v, t, e)
		tv := p.named(t.NewAdd(x.v, y.v))
		t.NewBr(j)
		ev := p.named(e.NewXor(x.v, y.v))
		e.NewBr(j)
		ph := p.named(j.NewPhi(ir.NewIncoming(tv, t), ir.NewIncoming(ev, e)))
		p.b = j
		r := x.u ^ y.u
		if c.u == 1 {
			r = x.u + y.u
		}
		p.ops["condbr/phi"]++
		p.add(xval{kind: "int", w: w, u: maskw(r, w), v: ph})
	case 15: // switch, or a counted loop
		if rng.Intn(2) == 0 {
			x := p.pickInt(8)
			d := p.f.NewBlock(p.name())
			c1 := p.f.NewBlock(p.name())
			c2 := p.f.NewBlock(p.name())
			j := p.f.NewBlock(p.name())
			k1, k2 := uint64(rng.Intn(4)), uint64(4+rng.Intn(4))
			b.NewSwitch(x.v, d, ir.NewCase(constant.NewInt(types.I8, int64(k1)), c1), ir.NewCase(constant.NewInt(types.I8, int64(k2)), c2))
			d.NewBr(j)
			c1.NewBr(j)
			c2.NewBr(j)
			ph := p.named(j.NewPhi(ir.NewIncoming(constant.NewInt(types.I32, 100), d), ir.NewIncoming(constant.NewInt(types.I32, 200), c1), ir.NewIncoming(constant.NewInt(types.I32, 300), c2)))
			p.b = j
			r := uint64(100)
			if x.u == k1 {
				r = 200
			} else if x.u == k2 {
				r = 300
			}
			p.ops["switch/phi"]++
			p.add(xval{kind: "int", w: 32, u: r, v: ph})
		} else {
			n := uint64(1 + rng.Intn(9))
			step := p.pickInt(32)
			loop := p.f.NewBlock(p.name())
			exit := p.f.NewBlock(p.name())
			pre := b
			pre.NewBr(loop)
			iv := loop.NewPhi(ir.NewIncoming(constant.NewInt(types.I32, 0), pre))
			acc := loop.NewPhi(ir.NewIncoming(constant.NewInt(types.I32, 5), pre))
			p.named(iv)
			p.named(acc)
			acc2 := p.named(loop.NewAdd(acc, step.v))
			iv2 := p.named(loop.NewAdd(iv, constant.NewInt(types.I32, 1)))
			iv.Incs = append(iv.Incs, ir.NewIncoming(iv2, loop))
			acc.Incs = append(acc.Incs, ir.NewIncoming(acc2, loop))
			cond := p.named(loop.NewICmp(enum.IPredULT, iv2, constant.NewInt(types.I32, int64(n))))
			loop.NewCondBr(cond, loop, exit)
			p.b = exit
			p.ops["loop/phi"]++
			p.add(xval{kind: "int", w: 32, u: maskw(5+n*step.u, 32), v: acc2})
		}
	}
}

// wideStep builds a constant of a width above 64 bits from its decimal (or
// hexadecimal) spelling, combines it with a second one and brings 64 bits of
// the result back into the evaluated domain.
func (p *xprog) wideStep() {
	rng := p.rng
	w := []uint{65, 100, 128, 256}[rng.Intn(4)]
	t := types.NewInt(uint64(w))
	mod := new(big.Int).Lsh(big.NewInt(1), w)
	wide := func() *big.Int {
		v := new(big.Int)
		switch rng.Intn(5) {
		case 0: // a power of two
			v.Lsh(big.NewInt(1), uint(rng.Intn(int(w))))
		case 1: // a run of ones
			v.Lsh(big.NewInt(1), uint(1+rng.Intn(int(w))))
			v.Sub(v, big.NewInt(1))
			v.Lsh(v, uint(rng.Intn(8)))
		case 2: // repeated byte
			by := big.NewInt(int64(1 + rng.Intn(255)))
			for i := uint(0); i < w; i += 8 {
				v.Lsh(v, 8)
				v.Or(v, by)
			}
		default:
			for i := uint(0); i < w; i += 64 {
				v.Lsh(v, 64)
				v.Or(v, new(big.Int).SetUint64(rng.Uint64()))
			}
		}
		return v.Mod(v, mod)
	}
	mk := func(v *big.Int) (value.Value, bool) {
		spell := v.String()
		switch rng.Intn(3) {
		case 0:
			spell = "u0x" + strings.ToUpper(v.Text(16))
		case 1:
			if v.Bit(int(w)-1) == 1 { // signed spelling of the same bits
				spell = new(big.Int).Sub(v, mod).String()
			}
		}
		c, err := constant.NewIntFromString(t, spell)
		if err != nil {
			return nil, false
		}
		return c, true
	}
	a, bb := wide(), wide()
	ca, ok1 := mk(a)
	cb, ok2 := mk(bb)
	if !ok1 || !ok2 {
		p.ops["wide/constructor-error"]++
		return
	}
	var r *big.Int
	var v value.Value
	switch rng.Intn(3) {
	case 0:
		r, v = new(big.Int).Add(a, bb), p.b.NewAdd(ca, cb)
	case 1:
		r, v = new(big.Int).Xor(a, bb), p.b.NewXor(ca, cb)
	default:
		r, v = new(big.Int).And(a, bb), p.b.NewAnd(ca, cb)
	}
	r.Mod(r, mod)
	p.named(v)
	sh := uint(rng.Intn(int(w) - 63))
	shc, err := constant.NewIntFromString(t, fmt.Sprint(sh))
	if err != nil {
		return
	}
	sv := p.named(p.b.NewLShr(v, shc))
	tv := p.named(p.b.NewTrunc(sv, types.I64))
	r.Rsh(r, sh)
	r.And(r, new(big.Int).SetUint64(^uint64(0)))
	p.ops["wide-int"]++
	p.add(xval{kind: "int", w: 64, u: r.Uint64(), v: tv})
}

// finish prints every selected value and returns a checksum.
func (p *xprog) finish() (expectedOut string, expectedExit int) {
	b := p.b
	var sb strings.Builder
	var sum uint64
	zero := constant.NewInt(types.I64, 0)
	fmtPtr := constant.NewGetElementPtr(p.fmtI.ContentType, p.fmtI, zero, zero)
	if len(p.out) == 0 && len(p.vals) > 0 {
		p.out = append(p.out, p.vals[len(p.vals)-1])
	}
	for _, x := range p.out {
		var as64 value.Value
		var u uint64
		switch x.kind {
		case "int":
			u = x.u
			if x.w == 64 {
				as64 = x.v
			} else {
				as64 = b.NewZExt(x.v, types.I64)
			}
		case "f32":
			u = x.u
			as64 = b.NewZExt(b.NewBitCast(x.v, types.I32), types.I64)
		case "f64":
			u = x.u
			as64 = b.NewBitCast(x.v, types.I64)
		}
		b.NewCall(p.printf, fmtPtr, as64)
		fmt.Fprintf(&sb, "%x\n", u)
		sum = sum*31 + u
	}
	b.NewRet(constant.NewInt(types.I32, int64(sum%251)))
	return sb.String(), int(sum % 251)
}

func c03Exec(r *fw.Rec, seed int64) {
	rng := rand.New(rand.NewSource(seed))
	m := ir.NewModule()
	printf := m.NewFunc("printf", types.I32, ir.NewParam("", types.I8Ptr))
	printf.Sig.Variadic = true
	fmtI := m.NewGlobalDef("fmt", constant.NewCharArrayFromString("%llx\n\x00"))
	fmtI.Immutable = true
	f := m.NewFunc("main", types.I32)
	p := &xprog{rng: rng, m: m, f: f, b: f.NewBlock("entry"), printf: printf, fmtI: fmtI, ops: map[string]int{}}
	nsteps := 4 + rng.Intn(24)
	if pn, msg, stack := fw.Guard(func() {
		for i := 0; i < nsteps; i++ {
			p.step()
		}
	}); pn {
		r.Violate(fw.Violation{Key: "constructor-panics/exec/" + classify(firstLine(msg)), What: "a well-typed construction program is rejected by a constructor: " + firstLine(msg), Observed: trimStack(stack)})
		return
	}
	var wantOut string
	var wantExit int
	if pn, msg, _ := fw.Guard(func() { wantOut, wantExit = p.finish() }); pn {
		r.Violate(fw.Violation{Key: "constructor-panics/exec-finish", What: "constructor panic: " + firstLine(msg)})
		return
	}
	text, ok := c03CheckModule(r, fmt.Sprintf("exec/%d", seed), m)
	if !ok {
		return
	}
	so, se, err := llvmref.Run([]byte(text), llvmref.LLI, "-")
	if err == llvmref.ErrTimeout {
		r.Inconclusive("lli watchdog")
		return
	}
	exit := 0
	if err != nil {
		type exitCoder interface{ ExitCode() int }
		if ee, ok := err.(exitCoder); ok {
			exit = ee.ExitCode()
		} else {
			r.Inconclusive("lli could not be run")
			return
		}
	}
	if exit < 0 || exit > 255 || strings.Contains(string(se), "Stack dump") || strings.Contains(string(se), "LLVM ERROR") {
		r.Inconclusive("lli failed to execute the program (not a verdict): " + classify(firstLine(string(se))))
		return
	}
	for k, n := range p.ops {
		r.TallyN("executed_ops", k, n)
	}
	if string(so) != wantOut || exit != wantExit {
		r.Violate(fw.Violation{Key: "execution-differs/" + c03DiffClass(p, string(so), wantOut), Input: text,
			What:     fmt.Sprintf("the constructed program computes something else than the construction calls imply: exit %d (want %d); first differing printed value: %s", exit, wantExit, firstDiffLines(wantOut, string(so))),
			Expected: wantOut, Observed: string(so)})
		return
	}
	r.Tally("programs", "executed-and-agreed")
	if seed%16 == 0 {
		r.Sample(map[string]interface{}{"program_seed": seed, "steps": nsteps, "printed_values": len(p.out), "exit": exit, "first_lines": strings.Split(text, "\n")[3:min(9, len(strings.Split(text, "\n")))]})
	}
}

// c03DiffClass names the operation that produced the first differing value.
func c03DiffClass(p *xprog, got, want string) string {
	gl, wl := strings.Split(got, "\n"), strings.Split(want, "\n")
	for i := range wl {
		if i >= len(gl) || gl[i] != wl[i] {
			if i < len(p.out) {
				return instKindOf(p.out[i].v)
			}
			break
		}
	}
	return "exit-code"
}
