package props

import (
	"fmt"
	"math/big"
	"math/rand"
	"sort"
	"strconv"
	"strings"

	"github.com/llir/llvm/ir"
	"github.com/llir/llvm/ir/enum"
	"github.com/llir/llvm/ir/metadata"
	"github.com/llir/llvm/verifhook/export"

	"verif/internal/corpus"
	"verif/internal/fw"
	"verif/internal/llvmref"
)

func init() {
	fw.Register(&fw.Check{
		ID:    "C20",
		Level: "exploration",
		Rule: "order axioms: every ordered pair of the string universe U (all strings of length<=L over {0,1,9,a,b,-}, L=4 quick / 5 thorough, plus PRNG strings with long digit runs and leading zeros) is tested for irreflexivity, asymmetry, totality and, when the two strings differ in exactly one digit run, agreement with math/big; transitivity on all triples of a PRNG subset; natsort.Strings on PRNG slices must return a sorted permutation. " +
			"permutation invariance: every corpus module with >=2 top-level entities is re-parsed under permutations of its top-level definitions (all permutations when <=5 entities, capped PRNG sample otherwise; unnamed globals @N keep their relative order, since LLVM numbers them by appearance, while everything else moves around them) and must print as the original with only the textual-order lists (globals, aliases, ifuncs, functions) rearranged. " +
			"entity order: modules of type, comdat and named-metadata definitions with hostile names (number-like, signed, zero-padded, escaped, UTF-8, beyond 64 bits) and sparse attribute-group / metadata / type IDs are written in 4 PRNG textual orders: each kind must be printed in natural order of the decoded names (numbers ascending), nothing may be lost or renamed, and the 4 printed modules must agree. " +
			"api-edit order: parsed modules with sparse metadata and attribute-group IDs get definitions appended through the API (metadata definitions without ID, an attribute group with a smaller ID); the printed module must be valid for LLVM and list every section in the stated order. " +
			"non-trivial = a pair of distinct strings / a triple of distinct strings / a non-identity permutation; distinct by construction (enumerated blocks) or by digest",
		Gen:           genC20,
		MinNontrivial: 10000,
		Assumptions: []string{"the expected text of a permuted input is String() of the original module with its four textual-order lists permuted accordingly (the printer is a function of the module's lists)",
			"modules with unnamed globals, repeated named-metadata names, repeated attribute-group ids or uselistorder directives are excluded from permutation (their meaning depends on textual order by LLVM's rules)"},
		Exhaustive: func(string) bool { return false },
	})
}

func c20Universe(ctx *fw.Ctx) []string {
	alpha := []byte("019ab-")
	L := ctx.Pick(4, 5)
	u := []string{""}
	prev := []string{""}
	for l := 1; l <= L; l++ {
		var cur []string
		for _, p := range prev {
			for _, c := range alpha {
				cur = append(cur, p+string(c))
			}
		}
		u = append(u, cur...)
		prev = cur
	}
	// letters in both cases (names that differ in case only are different names),
	// signs and other punctuation next to digits
	for _, a := range []string{"a", "A", "b", "B", "z", "Z", "+", ".", "_", "$"} {
		for _, b := range []string{"", "a", "A", "1", "01", "b", "B"} {
			for _, c := range []string{"", "a", "A", "9", "-1", "+1"} {
				u = append(u, a+b+c, b+a+c, "1"+a+b+c)
			}
		}
	}
	rng := ctx.Rand("universe")
	n := ctx.Pick(600, 3000)
	for i := 0; i < n; i++ {
		u = append(u, randNatString(rng))
	}
	// de-duplicate, deterministic order
	seen := map[string]bool{}
	var out []string
	for _, s := range u {
		if !seen[s] {
			seen[s] = true
			out = append(out, s)
		}
	}
	return out
}

func randNatString(rng *rand.Rand) string {
	var sb strings.Builder
	parts := 1 + rng.Intn(4)
	for p := 0; p < parts; p++ {
		switch rng.Intn(5) {
		case 0: // long digit run, maybe beyond 64 bits
			z := rng.Intn(4)
			for i := 0; i < z; i++ {
				sb.WriteByte('0')
			}
			n := 1 + rng.Intn(30)
			for i := 0; i < n; i++ {
				sb.WriteByte(byte('0' + rng.Intn(10)))
			}
		case 1: // short number
			fmt.Fprintf(&sb, "%d", rng.Intn(1000))
		case 2: // zeros only
			n := 1 + rng.Intn(4)
			for i := 0; i < n; i++ {
				sb.WriteByte('0')
			}
		case 3: // arbitrary bytes
			n := 1 + rng.Intn(3)
			for i := 0; i < n; i++ {
				sb.WriteByte(byte(rng.Intn(256)))
			}
		default:
			sb.WriteString([]string{"a", "b", ".", "_", "x", "struct.", "-", " "}[rng.Intn(8)])
		}
	}
	return sb.String()
}

// tokens splits s into maximal digit runs and single non-digit bytes.
func natTokens(s string) []string {
	var out []string
	for i := 0; i < len(s); {
		if s[i] >= '0' && s[i] <= '9' {
			j := i
			for j < len(s) && s[j] >= '0' && s[j] <= '9' {
				j++
			}
			out = append(out, s[i:j])
			i = j
		} else {
			out = append(out, s[i:i+1])
			i++
		}
	}
	return out
}

func isDigits(s string) bool { return len(s) > 0 && s[0] >= '0' && s[0] <= '9' }

// oneRunDiff reports whether a and b tokenise alike except for exactly one
// digit run, and returns the numeric values of that run.
func oneRunDiff(a, b string) (va, vb *big.Int, ok bool) {
	ta, tb := natTokens(a), natTokens(b)
	if len(ta) != len(tb) {
		return nil, nil, false
	}
	diff := -1
	for i := range ta {
		if ta[i] != tb[i] {
			if diff >= 0 {
				return nil, nil, false
			}
			diff = i
		}
	}
	if diff < 0 || !isDigits(ta[diff]) || !isDigits(tb[diff]) {
		return nil, nil, false
	}
	va, _ = new(big.Int).SetString(ta[diff], 10)
	vb, _ = new(big.Int).SetString(tb[diff], 10)
	return va, vb, true
}

func genC20(ctx *fw.Ctx) []fw.Case {
	var cases []fw.Case
	const blocks = 32
	for b := 0; b < blocks; b++ {
		b := b
		cases = append(cases, fw.Case{ID: fmt.Sprintf("pairs/%d", b), Run: func(r *fw.Rec) { c20Pairs(r, b, blocks) }})
	}
	for b := 0; b < blocks; b++ {
		b := b
		cases = append(cases, fw.Case{ID: fmt.Sprintf("triples/%d", b), Run: func(r *fw.Rec) { c20Triples(r, b, blocks) }})
	}
	for b := 0; b < 8; b++ {
		b := b
		cases = append(cases, fw.Case{ID: fmt.Sprintf("sort/%d", b), Run: func(r *fw.Rec) { c20Sort(r, b) }})
	}
	for _, s := range append(baseSources(), corpus.ClangSources(ctx.Thorough())...) {
		s := s
		cases = append(cases, fw.Case{ID: "perm/" + s.ID, Run: func(r *fw.Rec) { c20Perm(r, s) }})
	}
	for b := 0; b < ctx.Pick(24, 2000); b++ {
		b := b
		cases = append(cases, fw.Case{ID: fmt.Sprintf("entity-order/%d", b), Run: func(r *fw.Rec) { c20EntityOrder(r, b) }})
	}
	cases = append(cases, fw.Case{ID: "api-edit-order", Run: c20APIEditOrder})
	return cases
}

// c20APIEditOrder edits parsed modules through the API the way a client adds
// definitions (append at the end: a metadata definition without ID, which
// receives the smallest unused number, an attribute group with a small ID, a
// type definition, a comdat) and prints: the printed module must still list
// every section in the stated order.
func c20APIEditOrder(r *fw.Rec) {
	rng := r.Ctx().Rand("c20apiedit")
	for round := 0; round < r.Ctx().Pick(40, 3000); round++ {
		ids := rng.Perm(12)[:2+rng.Intn(4)]
		sort.Ints(ids)
		var sb strings.Builder
		sb.WriteString("declare void @f() #" + strconv.Itoa(ids[len(ids)-1]+3) + "\n")
		sb.WriteString("attributes #" + strconv.Itoa(ids[len(ids)-1]+3) + " = { nounwind }\n")
		sb.WriteString("!named = !{")
		for i, id := range ids {
			if i > 0 {
				sb.WriteString(", ")
			}
			fmt.Fprintf(&sb, "!%d", id+1)
		}
		sb.WriteString("}\n")
		for _, id := range ids {
			fmt.Fprintf(&sb, "!%d = !{i32 %d}\n", id+1, id)
		}
		x := sb.String()
		m, perr, pmsg := parseGuard("c20-api-edit", x)
		if perr != nil || pmsg != "" {
			r.Inconclusive("cannot parse the base module of the api-edit case")
			continue
		}
		nNew := 1 + rng.Intn(3)
		for k := 0; k < nNew; k++ {
			def := &metadata.Tuple{MetadataID: -1, Fields: []metadata.Field{&metadata.String{Value: fmt.Sprintf("new%d", k)}}}
			m.MetadataDefs = append(m.MetadataDefs, def)
			m.NamedMetadataDefs["named"].Nodes = append(m.NamedMetadataDefs["named"].Nodes, def)
		}
		// one to four more attribute groups with distinct IDs in PRNG order, one of
		// them possibly without attributes (not printed) and put in front
		base := int64(ids[len(ids)-1] + 3)
		agIDs := rng.Perm(int(base) + 6)
		nag := 1 + rng.Intn(4)
		var ag *ir.AttrGroupDef
		for k := 0; k < nag; k++ {
			id := int64(agIDs[k])
			if id == base {
				id = base + 7
			}
			g := &ir.AttrGroupDef{ID: id, FuncAttrs: []ir.FuncAttribute{enum.FuncAttrNoReturn}}
			if k == 1 && rng.Intn(2) == 0 {
				g.FuncAttrs = nil
				m.AttrGroupDefs = append([]*ir.AttrGroupDef{g}, m.AttrGroupDefs...)
			} else {
				m.AttrGroupDefs = append(m.AttrGroupDefs, g)
			}
			m.Funcs[0].FuncAttrs = append(m.Funcs[0].FuncAttrs, g)
			ag = g
		}
		r.Eval(1)
		y, pp := printGuard(m)
		if pp != "" {
			r.Violate(fw.Violation{Key: "api-edit/print-panic", Input: x, What: "printing an edited module panics: " + firstLine(pp)})
			return
		}
		if ok, msg, err := llvmref.Accepts(y); err == nil && !ok {
			r.Violate(fw.Violation{Key: "api-edit/llvm-rejects", Input: x, What: "LLVM rejects the printed module after definitions were appended through the API: " + firstLine(lastDiag(msg)), Observed: y})
			return
		}
		if key, what := c20PrintedOrder(y); key != "" {
			r.Violate(fw.Violation{Key: "api-edit/" + key, Input: x, What: "after appending definitions through the API (" + strconv.Itoa(nNew) + " metadata definitions without ID, " + strconv.Itoa(nag) + " attribute groups, the last one #" + strconv.FormatInt(ag.ID, 10) + "): " + what, Observed: y})
			return
		}
		// the same module printed again (every ID is assigned now), and once more with
		// the definition lists in another slice order: the same text, in order
		y2, pp2 := printGuard(m)
		rng.Shuffle(len(m.MetadataDefs), func(i, j int) { m.MetadataDefs[i], m.MetadataDefs[j] = m.MetadataDefs[j], m.MetadataDefs[i] })
		rng.Shuffle(len(m.AttrGroupDefs), func(i, j int) { m.AttrGroupDefs[i], m.AttrGroupDefs[j] = m.AttrGroupDefs[j], m.AttrGroupDefs[i] })
		y3, pp3 := printGuard(m)
		if pp2 != "" || pp3 != "" {
			r.Violate(fw.Violation{Key: "api-edit/reprint-panic", Input: x, What: "printing the edited module again panics: " + firstLine(pp2+pp3)})
			return
		}
		if y2 != y {
			r.Violate(fw.Violation{Key: "api-edit/second-print-differs", Input: x, What: "the second print of the edited module differs from the first: " + firstDiffLines(y, y2), Expected: y, Observed: y2})
			return
		}
		if y3 != y {
			r.Violate(fw.Violation{Key: "api-edit/print-depends-on-slice-order", Input: x, What: "with the metadata and attribute-group lists of the module in another slice order the print differs: " + firstDiffLines(y, y3), Expected: y, Observed: y3})
			return
		}
		r.Nontrivial(y)
		r.Tally("api_edit", "sections-in-order")
	}
}

func c20Pairs(r *fw.Rec, blk, blocks int) {
	u := c20Universe(r.Ctx())
	less := export.NatLess
	var pairs, numeric int
	for i := blk; i < len(u); i += blocks {
		a := u[i]
		if less(a, a) {
			r.Violatef("irreflexive/"+fmt.Sprintf("%q", a), a, "Less(a,a) is true for a=%q", a)
		}
		for j := 0; j < len(u); j++ {
			if i == j {
				continue
			}
			b := u[j]
			ab, ba := less(a, b), less(b, a)
			pairs++
			if ab && ba {
				r.Violate(fw.Violation{Key: fmt.Sprintf("asymmetry/%q/%q", a, b), What: fmt.Sprintf("Less(%q,%q) and Less(%q,%q) both true", a, b, b, a)})
			}
			if !ab && !ba {
				r.Violate(fw.Violation{Key: fmt.Sprintf("totality/%q/%q", a, b), What: fmt.Sprintf("distinct strings %q and %q are not ordered either way", a, b)})
			}
			if va, vb, ok := oneRunDiff(a, b); ok {
				if c := va.Cmp(vb); c != 0 {
					numeric++
					if (c < 0) != ab {
						r.Violate(fw.Violation{Key: fmt.Sprintf("numeric/%q/%q", a, b),
							What: fmt.Sprintf("%q and %q differ in one digit run (%s vs %s) but Less(a,b)=%v", a, b, va, vb, ab)})
					}
				}
			}
		}
	}
	r.Eval(pairs)
	r.NontrivialN(fmt.Sprintf("pairs/%d", blk), pairs)
	r.TallyN("axiom_checks", "ordered_pairs", pairs)
	r.TallyN("axiom_checks", "pairs_differing_in_one_digit_run", numeric)
	if blk == 0 {
		r.Sample(map[string]interface{}{"kind": "pair-universe", "size": len(u), "examples": []string{u[7], u[len(u)/2], u[len(u)-1]}})
	}
}

func c20Triples(r *fw.Rec, blk, blocks int) {
	u := c20Universe(r.Ctx())
	rng := r.Ctx().Rand("triples")
	n := r.Ctx().Pick(320, 1200)
	if n > len(u) {
		n = len(u)
	}
	perm := rng.Perm(len(u))[:n]
	sub := make([]string, n)
	for i, p := range perm {
		sub[i] = u[p]
	}
	less := export.NatLess
	// precompute matrix
	lt := make([][]bool, n)
	for i := range lt {
		lt[i] = make([]bool, n)
		for j := range lt[i] {
			lt[i][j] = less(sub[i], sub[j])
		}
	}
	triples := 0
	for i := blk; i < n; i += blocks {
		for j := 0; j < n; j++ {
			if !lt[i][j] {
				continue
			}
			for k := 0; k < n; k++ {
				if lt[j][k] {
					triples++
					if !lt[i][k] {
						r.Violate(fw.Violation{Key: fmt.Sprintf("transitivity/%q/%q/%q", sub[i], sub[j], sub[k]),
							What: fmt.Sprintf("%q < %q and %q < %q but not %q < %q", sub[i], sub[j], sub[j], sub[k], sub[i], sub[k])})
					}
				}
			}
		}
	}
	r.Eval(triples)
	r.NontrivialN(fmt.Sprintf("triples/%d", blk), triples)
	r.TallyN("axiom_checks", "ordered_triples_a<b<c", triples)
}

func c20Sort(r *fw.Rec, blk int) {
	u := c20Universe(r.Ctx())
	rng := r.Ctx().Rand(fmt.Sprintf("sort/%d", blk))
	rounds := r.Ctx().Pick(200, 2000)
	for i := 0; i < rounds; i++ {
		n := 2 + rng.Intn(40)
		in := make([]string, n)
		for j := range in {
			in[j] = u[rng.Intn(len(u))]
		}
		out := append([]string(nil), in...)
		export.NatStrings(out)
		r.Eval(1)
		r.Nontrivial("sort:" + strings.Join(in, "\x00"))
		for j := 0; j+1 < len(out); j++ {
			if export.NatLess(out[j+1], out[j]) {
				r.Violate(fw.Violation{Key: "sort-unsorted/" + fw.ShortHash(strings.Join(in, "\x00")), What: fmt.Sprintf("natsort.Strings(%q) = %q is not sorted at %d", in, out, j)})
			}
		}
		a := append([]string(nil), in...)
		b := append([]string(nil), out...)
		sort.Strings(a)
		sort.Strings(b)
		if strings.Join(a, "\x00") != strings.Join(b, "\x00") {
			r.Violate(fw.Violation{Key: "sort-not-permutation/" + fw.ShortHash(strings.Join(in, "\x00")), What: fmt.Sprintf("natsort.Strings(%q) = %q is not a permutation", in, out)})
		}
		if i == 0 {
			r.Sample(map[string]interface{}{"kind": "natsort.Strings", "in": in, "out": out})
		}
	}
	r.Tally("axiom_checks", "sort_rounds")
}

// --- permutation invariance ---

// splitTopLevel splits module text into its top-level entities (text chunks).
func splitTopLevel(text string) []string {
	var out []string
	var cur []string
	inBody := false
	flush := func() {
		if len(cur) > 0 {
			out = append(out, strings.Join(cur, "\n")+"\n")
			cur = nil
		}
	}
	for _, line := range strings.Split(text, "\n") {
		t := strings.TrimSpace(line)
		if inBody {
			cur = append(cur, line)
			if line == "}" {
				inBody = false
				flush()
			}
			continue
		}
		if t == "" || strings.HasPrefix(t, ";") {
			continue
		}
		if strings.HasPrefix(line, "define ") {
			flush()
			cur = append(cur, line)
			if strings.HasSuffix(t, "{") {
				inBody = true
			}
			continue
		}
		if line[0] == ' ' || line[0] == '\t' || line[0] == ']' || line[0] == ')' {
			// continuation of the previous entity
			cur = append(cur, line)
			continue
		}
		flush()
		cur = append(cur, line)
	}
	flush()
	return out
}

// globalNameOf returns the (decoded) name of the global entity defined by
// chunk, or "" if the chunk does not define a global/alias/ifunc/function.
func globalNameOf(chunk string) (name string, isGlobal bool) {
	if !(strings.HasPrefix(chunk, "@") || strings.HasPrefix(chunk, "define ") || strings.HasPrefix(chunk, "declare ")) {
		return "", false
	}
	inq := false
	for i := 0; i < len(chunk); i++ {
		c := chunk[i]
		if inq {
			if c == '"' {
				inq = false
			}
			continue
		}
		if c == '"' {
			inq = true
			continue
		}
		if c == '@' {
			rest := chunk[i+1:]
			if strings.HasPrefix(rest, "\"") {
				end := strings.Index(rest[1:], "\"")
				if end < 0 {
					return "", false
				}
				return string(export.Unescape(rest[1 : 1+end])), true
			}
			j := 0
			for j < len(rest) && (rest[j] == '-' || rest[j] == '$' || rest[j] == '.' || rest[j] == '_' || rest[j] >= '0' && rest[j] <= '9' || rest[j] >= 'a' && rest[j] <= 'z' || rest[j] >= 'A' && rest[j] <= 'Z') {
				j++
			}
			return rest[:j], true
		}
	}
	return "", false
}

// unnamedGlobalChunk reports whether chunk defines an unnamed global (@N): LLVM
// numbers those by order of appearance, so their relative order is part of
// the module and permutations keep it.
func unnamedGlobalChunk(chunk string) bool {
	name, isG := globalNameOf(chunk)
	if !isG || name == "" {
		return false
	}
	at := strings.Index(chunk, "@")
	if at >= 0 && strings.HasPrefix(chunk[at:], "@\"") {
		return false
	}
	for i := 0; i < len(name); i++ {
		if name[i] < '0' || name[i] > '9' {
			return false
		}
	}
	return true
}

func globalKey(name string, unnamed bool) string {
	if unnamed {
		return "#" + name
	}
	return "n:" + name
}

func orderSensitive(text string, chunks []string) string {
	if strings.Contains(text, "uselistorder") {
		return "uselistorder"
	}
	seen := map[string]bool{}
	for _, c := range chunks {
		if name, isG := globalNameOf(c); isG && name == "" {
			return "unnamed global (no @N)"
		}
		head := c
		if i := strings.Index(c, "="); i > 0 {
			head = strings.TrimSpace(c[:i])
		} else {
			continue
		}
		if strings.HasPrefix(c, "!") || strings.HasPrefix(c, "attributes ") || strings.HasPrefix(c, "%") {
			if seen[head] {
				return "repeated definition " + head
			}
			seen[head] = true
		}
	}
	return ""
}

func c20Perm(r *fw.Rec, s corpus.Source) {
	text, err := s.Text()
	if err != nil {
		r.Inconclusive("source unavailable")
		return
	}
	all := splitTopLevel(text)
	// source_filename, target and module asm lines are not independent
	// definitions (LLVM requires the first two up front and concatenates module
	// asm in order): they stay in place as a fixed prefix.
	var prefix string
	var chunks []string
	for _, c := range all {
		if strings.HasPrefix(c, "source_filename") || strings.HasPrefix(c, "target ") || strings.HasPrefix(c, "module asm") {
			prefix += c
		} else {
			chunks = append(chunks, c)
		}
	}
	if len(chunks) < 2 {
		r.Inconclusive("fewer than 2 top-level entities")
		return
	}
	if why := orderSensitive(text, chunks); why != "" {
		r.Inconclusive("excluded from permutation: " + strings.SplitN(why, " ", 2)[0])
		return
	}
	joined := prefix + strings.Join(chunks, "")
	m0, perr, pmsg := parseGuard(s.ID, joined)
	if pmsg != "" || perr != nil {
		r.Inconclusive("input not accepted by the parser")
		return
	}
	base, pp := printGuard(m0)
	if pp != "" {
		r.Inconclusive("String() panics (reported under C01/C08)")
		return
	}
	// the printed module lists its type definitions, comdats and named metadata
	// in natural order of their names, attribute groups and metadata definitions
	// by ascending number
	if key, what := c20PrintedOrder(base); key != "" {
		r.Violate(fw.Violation{Key: key + "/" + s.ID, Input: joined, What: what, Observed: base})
		return
	}
	// sanity of the splitter: the re-joined text must print like the original text
	if mo, e2, p2 := parseGuard(s.ID, text); p2 == "" && e2 == nil {
		if o, p3 := printGuard(mo); p3 == "" && o != base {
			r.Inconclusive("top-level splitter changed the module (harness limitation)")
			return
		}
	}
	n := len(chunks)
	rng := r.Ctx().Rand("perm/" + s.ID)
	// the same definitions in the same order, laid out differently: top-level
	// definitions indented by PRNG amounts of spaces and tabs (LLVM does not care
	// where on the line a definition starts): the print must not change
	{
		var sb strings.Builder
		sb.WriteString(prefix)
		for _, c := range chunks {
			sb.WriteString(strings.Repeat(" ", rng.Intn(9)))
			if rng.Intn(4) == 0 {
				sb.WriteString("\t")
			}
			sb.WriteString(c)
		}
		if mi, ei, pi := parseGuard(s.ID, sb.String()); pi == "" && ei == nil {
			if yi, ppi := printGuard(mi); ppi == "" && yi != base {
				r.Violate(fw.Violation{Key: "layout-dependent/" + s.ID, Input: sb.String(), What: "the same definitions in the same order, with the first line of each top-level definition indented, print differently: " + firstDiffLines(base, yi), Expected: base, Observed: yi})
				return
			}
			r.Tally("permutations", "indented-layout-prints-alike")
		} else {
			r.Tally("permutations", "indented-layout-not-accepted(not judged)")
		}
	}
	var perms [][]int
	if n <= 5 {
		perms = allPerms(n)
	}
	cap := r.Ctx().Pick(24, 200)
	if len(perms) == 0 || len(perms) > cap {
		perms = nil
		seen := map[string]bool{}
		// always include reversal and a rotation
		rev := make([]int, n)
		rot := make([]int, n)
		for i := range rev {
			rev[i] = n - 1 - i
			rot[i] = (i + 1) % n
		}
		for _, p := range [][]int{rev, rot} {
			k := fmt.Sprint(p)
			if !seen[k] {
				seen[k] = true
				perms = append(perms, p)
			}
		}
		for tries := 0; len(perms) < cap && tries < 10*cap; tries++ {
			p := rng.Perm(n)
			k := fmt.Sprint(p)
			if !seen[k] {
				seen[k] = true
				perms = append(perms, p)
			}
		}
	}
	done := 0
	isUnnamed := map[int]bool{}
	var unnamedIdx []int
	for i, c := range chunks {
		if unnamedGlobalChunk(c) {
			isUnnamed[i] = true
			unnamedIdx = append(unnamedIdx, i)
		}
	}
	if len(unnamedIdx) > 0 {
		r.Tally("permutations", "modules_with_unnamed_globals")
	}
	seenPerm := map[string]bool{}
	for _, p := range perms {
		ident := true
		for i, v := range p {
			if v != i {
				ident = false
			}
		}
		if ident {
			continue
		}
		// unnamed globals keep their relative order: the slots the permutation
		// gives to unnamed-global chunks are filled in the original order
		if len(unnamedIdx) > 1 {
			p = append([]int(nil), p...)
			k := 0
			for i, idx := range p {
				if isUnnamed[idx] {
					p[i] = unnamedIdx[k]
					k++
				}
			}
			if seenPerm[fmt.Sprint(p)] {
				continue
			}
		}
		seenPerm[fmt.Sprint(p)] = true
		var sb strings.Builder
		var order []string
		sb.WriteString(prefix)
		for _, idx := range p {
			sb.WriteString(chunks[idx])
			if name, isG := globalNameOf(chunks[idx]); isG {
				order = append(order, globalKey(name, isUnnamed[idx]))
			}
		}
		ptext := sb.String()
		m1, e1, p1 := parseGuard(s.ID, ptext)
		r.Eval(1)
		if p1 != "" || e1 != nil {
			what := p1
			if e1 != nil {
				what = e1.Error()
			}
			r.Violate(fw.Violation{Key: "perm-rejected/" + s.ID, Input: ptext, What: "a permutation of the top-level definitions of an accepted module is not accepted: " + firstLine(what)})
			return
		}
		got, pg := printGuard(m1)
		if pg != "" {
			r.Violate(fw.Violation{Key: "perm-print-panic/" + s.ID, Input: ptext, What: "printing the permuted module panics: " + firstLine(pg)})
			return
		}
		// expected: the original module with its textual-order lists rearranged
		mref, _, _ := parseGuard(s.ID, joined)
		pos := map[string]int{}
		for i, nme := range order {
			pos[nme] = i
		}
		reorderModule(mref, pos)
		want, _ := printGuard(mref)
		if got != want {
			r.Violate(fw.Violation{Key: "perm-output/" + s.ID, Input: ptext,
				What:     fmt.Sprintf("permutation %v of the top-level definitions changes the printed module beyond the textual-order lists", p),
				Expected: want, Observed: got})
			return
		}
		done++
		r.Nontrivial("perm:" + s.ID + fmt.Sprint(p))
	}
	r.TallyN("permutations", "checked", done)
	r.Tally("permutations", "modules")
	if n <= 5 && len(allPerms(n)) <= cap {
		r.Tally("permutations", "modules_with_all_permutations")
	}
	r.Sample(map[string]interface{}{"kind": "permutation", "module": s.ID, "entities": n, "permutations": done})
}

func reorderModule(m *ir.Module, pos map[string]int) {
	key := func(name string, id int64) string {
		if name == "" {
			return globalKey(fmt.Sprint(id), true)
		}
		return globalKey(name, false)
	}
	sort.SliceStable(m.Globals, func(i, j int) bool {
		return pos[key(m.Globals[i].GlobalName, m.Globals[i].GlobalID)] < pos[key(m.Globals[j].GlobalName, m.Globals[j].GlobalID)]
	})
	sort.SliceStable(m.Aliases, func(i, j int) bool {
		return pos[key(m.Aliases[i].GlobalName, m.Aliases[i].GlobalID)] < pos[key(m.Aliases[j].GlobalName, m.Aliases[j].GlobalID)]
	})
	sort.SliceStable(m.IFuncs, func(i, j int) bool {
		return pos[key(m.IFuncs[i].GlobalName, m.IFuncs[i].GlobalID)] < pos[key(m.IFuncs[j].GlobalName, m.IFuncs[j].GlobalID)]
	})
	sort.SliceStable(m.Funcs, func(i, j int) bool {
		return pos[key(m.Funcs[i].GlobalName, m.Funcs[i].GlobalID)] < pos[key(m.Funcs[j].GlobalName, m.Funcs[j].GlobalID)]
	})
}

func allPerms(n int) [][]int {
	var out [][]int
	p := make([]int, n)
	for i := range p {
		p[i] = i
	}
	var rec func(k int)
	rec = func(k int) {
		if k == n {
			out = append(out, append([]int(nil), p...))
			return
		}
		for i := k; i < n; i++ {
			p[k], p[i] = p[i], p[k]
			rec(k + 1)
			p[k], p[i] = p[i], p[k]
		}
	}
	rec(0)
	return out
}

// hostileNames are names whose natural order differs from the order of their
// escaped spellings, of their integer readings, or of their byte strings.
var hostileNames = []string{"-5", "-1", "-3x", "+1", "+10", "007", "7a", "a b", "a.b", "a~b", "a\\b", "a\"b", "llvm.\xc3\xa9", "llvm.z", "llvm.Z",
	"9223372036854775808", "18446744073709551616", "1e5", "0x10", "x10", "x9", "x09", "x 9", "x-9", "a10b2", "a10b10", "a9b10", "\x7f", "\x01", " ", "_", "$", "."}

var numberLikeNames = []string{"-5", "-1", "-10", "-3x", "-0", "+0", "+1", "+10", "+5", "1e1", "0x5", "05", "005", "5_", " 5", "5 ", "-05"}

func quoteBytes(name string) string {
	var sb strings.Builder
	for i := 0; i < len(name); i++ {
		c := name[i]
		if c < 0x20 || c >= 0x7f || c == '"' || c == '\\' {
			fmt.Fprintf(&sb, "\\%02X", c)
		} else {
			sb.WriteByte(c)
		}
	}
	return sb.String()
}

func mdNameSpelling(name string) string {
	var sb strings.Builder
	for i := 0; i < len(name); i++ {
		c := name[i]
		plain := c >= 'a' && c <= 'z' || c >= 'A' && c <= 'Z' || c == '.' || c == '_' || c == '$' || c == '-' || (i > 0 && c >= '0' && c <= '9')
		if plain {
			sb.WriteByte(c)
		} else {
			fmt.Fprintf(&sb, "\\%02X", c)
		}
	}
	return sb.String()
}

// printedEntityNames extracts, in printed order, the decoded names of the type
// definitions, comdats, named metadata and the numbers of the attribute groups
// and metadata definitions of a printed module.
func printedEntityNames(y string) map[string][]string {
	out := map[string][]string{}
	decode := func(tok string) string {
		if len(tok) >= 2 && tok[0] == '"' && tok[len(tok)-1] == '"' {
			tok = tok[1 : len(tok)-1]
		}
		return string(export.Unescape(tok))
	}
	for _, line := range strings.Split(y, "\n") {
		switch {
		case strings.HasPrefix(line, "%") && strings.Contains(line, " = type "):
			tok := line[1:strings.Index(line, " = type ")]
			nm := decode(tok)
			if isAllDigitsC20(nm) && strings.HasPrefix(tok, "\"") {
				// the library's name of a type whose quoted name is all digits keeps the
				// quotes (that is how %"42" differs from the type ID %42), and that
				// name is what is sorted
				nm = `"` + nm + `"`
			}
			out["type"] = append(out["type"], nm)
		case strings.HasPrefix(line, "$") && strings.Contains(line, " = comdat "):
			out["comdat"] = append(out["comdat"], decode(line[1:strings.Index(line, " = comdat ")]))
		case strings.HasPrefix(line, "attributes #"):
			out["attrgroup"] = append(out["attrgroup"], line[len("attributes #"):strings.Index(line, " = ")])
		case strings.HasPrefix(line, "!") && strings.Contains(line, " = "):
			head := line[1:strings.Index(line, " = ")]
			if isAllDigitsC20(head) {
				out["metadata"] = append(out["metadata"], head)
			} else {
				out["named-metadata"] = append(out["named-metadata"], decode(head))
			}
		}
	}
	return out
}

func isAllDigitsC20(s string) bool {
	if s == "" {
		return false
	}
	for i := 0; i < len(s); i++ {
		if s[i] < '0' || s[i] > '9' {
			return false
		}
	}
	return true
}

// c20EntityOrder builds a module whose type, comdat and named-metadata names
// come from the hostile pool (plus PRNG names) and whose attribute groups,
// metadata definitions and type IDs are sparse numbers, writes the definitions
// in PRNG order, and requires (a) the printed order of every kind to be the
// natural order of the decoded names (numeric order for numbers) and (b) the
// same printed module for every textual order tried.
func c20EntityOrder(r *fw.Rec, blk int) {
	rng := r.Ctx().Rand(fmt.Sprintf("entity-order/%d", blk))
	pick := func(n int) []string {
		seen := map[string]bool{}
		var out []string
		for len(out) < n {
			var nm string
			switch rng.Intn(3) {
			case 0:
				nm = hostileNames[rng.Intn(len(hostileNames))]
			case 1:
				nm = randNatString(rng)
			default:
				nm = hostileNames[rng.Intn(len(hostileNames))] + randNatString(rng)
			}
			if nm == "" || seen[nm] {
				continue
			}
			seen[nm] = true
			out = append(out, nm)
		}
		return out
	}
	var defs []string
	want := map[string][]string{}
	typeNames := pick(3 + rng.Intn(6))
	if rng.Intn(3) == 0 {
		// names that read as signed or padded integers, next to type IDs
		typeNames = nil
		for _, i := range rng.Perm(len(numberLikeNames))[:3+rng.Intn(5)] {
			typeNames = append(typeNames, numberLikeNames[i])
		}
		for _, id := range rng.Perm(12)[:2+rng.Intn(3)] {
			defs = append(defs, fmt.Sprintf("%%%d = type { i%d }\n", id, 1+rng.Intn(64)))
			want["type"] = append(want["type"], fmt.Sprint(id))
		}
	}
	for _, nm := range typeNames {
		defs = append(defs, fmt.Sprintf("%%\"%s\" = type { i%d }\n", quoteBytes(nm), 1+rng.Intn(64)))
		if isAllDigitsC20(nm) {
			nm = `"` + nm + `"`
		}
		want["type"] = append(want["type"], nm)
	}
	for _, nm := range pick(2 + rng.Intn(5)) {
		defs = append(defs, fmt.Sprintf("$\"%s\" = comdat any\n", quoteBytes(nm)))
		want["comdat"] = append(want["comdat"], nm)
	}
	nums := rng.Perm(40)
	var mdIDs []int
	for i := 0; i < 2+rng.Intn(4); i++ {
		// (one in three far up: around 2^31 and just below 2^32, where a number
		// packed into a narrower or signed key would change its place)
		id := nums[i]*(1+rng.Intn(3)) + []int{0, 0, 0, 0, 1<<31 - 60, 1<<32 - 200}[rng.Intn(6)]
		dup := false
		for _, o := range mdIDs {
			dup = dup || o == id
		}
		if dup {
			continue
		}
		mdIDs = append(mdIDs, id)
		defs = append(defs, fmt.Sprintf("!%d = !{!\"n%d\"}\n", id, id))
		want["metadata"] = append(want["metadata"], fmt.Sprint(id))
	}
	for _, nm := range pick(2 + rng.Intn(5)) {
		defs = append(defs, fmt.Sprintf("!%s = !{!%d}\n", mdNameSpelling(nm), mdIDs[rng.Intn(len(mdIDs))]))
		want["named-metadata"] = append(want["named-metadata"], nm)
	}
	var agIDs []int
	for i := 0; i < 2+rng.Intn(4); i++ {
		id := nums[10+i]*(1+rng.Intn(3)) + []int{0, 0, 0, 0, 1<<31 - 60, 1<<32 - 200}[rng.Intn(6)]
		dup := false
		for _, o := range agIDs {
			dup = dup || o == id
		}
		if dup {
			continue
		}
		agIDs = append(agIDs, id)
		defs = append(defs, fmt.Sprintf("attributes #%d = { \"k%d\" }\n", id, id))
		defs = append(defs, fmt.Sprintf("declare void @f%d() #%d\n", id, id))
		want["attrgroup"] = append(want["attrgroup"], fmt.Sprint(id))
	}
	var first string
	for trial := 0; trial < 4; trial++ {
		perm := rng.Perm(len(defs))
		var sb strings.Builder
		for _, i := range perm {
			sb.WriteString(defs[i])
		}
		x := sb.String()
		m, perr, pmsg := parseGuard("entity-order", x)
		r.Eval(1)
		if pmsg != "" || perr != nil {
			what := pmsg
			if perr != nil {
				what = perr.Error()
			}
			r.Violate(fw.Violation{Key: "entity-order-rejected/" + classify(firstLine(what)), Input: x, What: "a module of independent definitions with unusual names is not accepted: " + firstLine(what)})
			return
		}
		y, pp := printGuard(m)
		if pp != "" {
			r.Violate(fw.Violation{Key: "entity-order-print-panic", Input: x, What: firstLine(pp)})
			return
		}
		got := printedEntityNames(y)
		for kind, names := range want {
			g := got[kind]
			if len(g) != len(names) {
				r.Violate(fw.Violation{Key: "entity-order-lost/" + kind, Input: x, What: fmt.Sprintf("%d %s definitions written, %d printed (%q)", len(names), kind, len(g), g), Observed: y})
				return
			}
			for i := 0; i+1 < len(g); i++ {
				bad := false
				if kind == "metadata" || kind == "attrgroup" {
					a, _ := strconv.Atoi(g[i])
					b, _ := strconv.Atoi(g[i+1])
					bad = a >= b
				} else {
					bad = !export.NatLess(g[i], g[i+1])
				}
				if bad {
					r.Violate(fw.Violation{Key: "entity-order/" + kind, Input: x, What: fmt.Sprintf("%s definitions are printed in the order %q: %q is not before %q in natural order", kind, g, g[i], g[i+1]), Observed: y})
					return
				}
			}
			in := map[string]bool{}
			for _, nm := range names {
				in[nm] = true
			}
			for _, nm := range g {
				if !in[nm] {
					r.Violate(fw.Violation{Key: "entity-order-name-changed/" + kind, Input: x, What: fmt.Sprintf("%s %q is printed but was not written (written: %q)", kind, nm, names), Observed: y})
					return
				}
			}
		}
		// declarations keep their textual order by design
		var kept []string
		for _, l := range strings.Split(y, "\n") {
			if !strings.HasPrefix(l, "declare ") {
				kept = append(kept, l)
			}
		}
		y = strings.Join(kept, "\n")
		if trial == 0 {
			first = y
		} else if y != first {
			r.Violate(fw.Violation{Key: "entity-order-depends-on-text-order", Input: x, What: "the same definitions in another textual order print differently: " + firstDiffLines(first, y), Expected: first, Observed: y})
			return
		}
		r.Nontrivial("entity-order:" + x)
	}
	r.Tally("entity-order", "modules")
}

// c20PrintedOrder checks the order of the definitions of one printed module.
func c20PrintedOrder(y string) (key, what string) {
	got := printedEntityNames(y)
	for _, kind := range []string{"type", "comdat", "named-metadata", "metadata", "attrgroup"} {
		g := got[kind]
		for i := 0; i+1 < len(g); i++ {
			bad := false
			if kind == "metadata" || kind == "attrgroup" {
				a, _ := strconv.Atoi(g[i])
				b, _ := strconv.Atoi(g[i+1])
				bad = a >= b
			} else if kind == "type" && (isAllDigitsC20(g[i]) || isAllDigitsC20(g[i+1])) {
				// type IDs sort as their decimal spelling next to names
				bad = !export.NatLess(g[i], g[i+1])
			} else {
				bad = !export.NatLess(g[i], g[i+1])
			}
			if bad {
				return "printed-order/" + kind, fmt.Sprintf("%s definitions are printed in the order %q: %q is not before %q", kind, g, g[i], g[i+1])
			}
		}
	}
	return "", ""
}
