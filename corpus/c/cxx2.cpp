// VERIF-CLANG[quick]: cxx-x86_64-O0-g :: -O0 -g -std=c++17
// VERIF-CLANG: cxx-x86_64-O2-g :: -O2 -g -std=c++17
// VERIF-CLANG: cxx-x86_64-O1-g5-macro :: -O1 -g -gdwarf-5 -fdebug-macro -std=c++20
// VERIF-CLANG: cxx-msvc-O1-codeview :: -O1 -g -gcodeview -std=c++17 -target x86_64-pc-windows-msvc
// VERIF-CLANG: cxx-i686-msvc-O0 :: -O0 -std=c++17 -target i686-pc-windows-msvc
// VERIF-CLANG: cxx-aarch64-O2-g :: -O2 -g -std=c++17 -target aarch64-linux-gnu
// VERIF-CLANG: cxx-macos-O1-g :: -O1 -g -std=c++17 -target x86_64-apple-macosx10.15
// VERIF-CLANG: cxx-ppc64le-O1 :: -O1 -std=c++17 -target powerpc64le-linux-gnu
// VERIF-CLANG: cxx-wasm32-O1-g :: -O1 -g -std=c++17 -fwasm-exceptions -target wasm32-unknown-unknown
// VERIF-CLANG: cxx-x86_64-O1-g-standalone :: -O1 -g -fstandalone-debug -fno-elide-constructors -std=c++14
#define SQUARE(x) ((x) * (x))
#define VERSION 42
typedef decltype(sizeof 0) size_t;
void *operator new(size_t, void *p) noexcept { return p; }
extern "C" void *malloc(size_t); extern "C" void free(void *);
namespace outer { namespace inner { struct Tag {}; int depth = 2; } using namespace inner; inline namespace v1 { int ver() { return VERSION; } } }
namespace alias = outer::inner;
using outer::inner::Tag;
struct A { virtual int f() { return 1; } virtual ~A() = default; int a = 1; static int count; static constexpr int K = 5; };
int A::count = 0;
struct B : virtual A { int f() override { return 2; } int b = 2; };
struct C : virtual A { int f() override { return 3; } int c = 3; };
struct D final : B, C { int f() override { return B::f() + C::f() + SQUARE(a); } mutable int d : 5; int e : 11; };
struct Abstract { virtual void pure() = 0; protected: int prot; private: int priv; public: int pub; };
template <typename T, int N = 4, bool Flag = true> struct Vec { T v[N]; template <typename U> U conv() const { return static_cast<U>(v[0]); } static T zero; };
template <typename T, int N, bool F> T Vec<T, N, F>::zero = T();
template <template <typename, int, bool> class TT, typename... Ts> struct Pack { static constexpr size_t n = sizeof...(Ts); TT<int, 2, false> inner; };
#if __cplusplus >= 201703L
template <typename... Ts> int count_args(Ts... xs) { return (0 + ... + (int)xs); }
template <auto V> struct Val { static constexpr decltype(V) value = V; };
#else
inline int count_args(int a, long b, float c) { return a + (int)b + (int)c; }
template <int V> struct Val { static constexpr int value = V; };
#endif
enum E1 { E1a, E1b = 10 }; enum class E2 : short { X = -1, Y = 300 };
union U { int i; float f; struct { short lo, hi; }; U() : i(0) {} };
int A_member = 0; int A::*pm = &A::a; int (A::*pmf)() = &A::f;
thread_local int tl_dyn = outer::ver();
inline int inline_var_user() { static thread_local int per_thread = 3; return ++per_thread; }
struct NonTrivial { int *p; NonTrivial() : p((int *)malloc(4)) {} NonTrivial(const NonTrivial &o) : p((int *)malloc(4)) { *p = *o.p; } NonTrivial(NonTrivial &&o) noexcept : p(o.p) { o.p = nullptr; } ~NonTrivial() { free(p); } };
NonTrivial make() { NonTrivial n; *n.p = 9; return n; }
NonTrivial global_nt;
static NonTrivial static_nt;
int lambdas(int x) {
  int y = 2; auto by_ref = [&] { return x + y; }; auto by_val = [=]() mutable { return ++y; }; auto gen = [](auto a, auto b) { return a + b; };
  auto init_cap = [z = x * 2, nt = make()] { return z + *nt.p; };
  int (*plain)(int) = [](int k) { return k * 2; };
  return by_ref() + by_val() + gen(1, 2.5) + init_cap() + plain(3);
}
int refs(int &l, int &&r, const int &c) { return l + r + c; }
#if __cplusplus >= 201703L
int structured() { struct P { int a; double b; } p{1, 2.0}; auto [a, b] = p; int arr[2] = {3, 4}; auto &[m, n] = arr; return a + (int)b + m + n; }
#else
int structured() { return 10; }
#endif
[[noreturn]] void fatal(); [[nodiscard]] int must_use() { return 1; }
int noexcept_fn(int x) noexcept { if (x < 0) fatal(); return must_use(); }
int eh_nested(int x) {
  try { try { if (x == 1) throw 1; if (x == 2) throw 2.0; if (x == 3) throw A(); NonTrivial n; return noexcept_fn(x); } catch (int i) { throw; } catch (double) { return -2; } }
  catch (const A &a) { return -3; } catch (...) { return -4; }
}
#if __cplusplus < 201703L
void dyn_spec(int x) throw(int, double) { if (x) throw x; }
#endif
struct FnTry { NonTrivial m; FnTry(int x) try : m() { if (x) throw x; } catch (...) { } };
int casts(A *pa, void *v) { D *d = dynamic_cast<D *>(pa); const char *s = reinterpret_cast<const char *>(v); return (d ? d->e : 0) + *s + (int)sizeof(Pack<Vec, int, char>) + Val<7>::value + Val<'c'>::value; }
int use_all() { D d; d.d = 3; d.e = 100; Vec<double> vd{}; U u; u.f = 1.5f; Tag t; (void)t; NonTrivial *p = new (malloc(sizeof(NonTrivial))) NonTrivial; p->~NonTrivial(); free(p);
  return d.f() + vd.conv<int>() + Vec<double>::zero + count_args(1, 2L, 3.0f) + u.lo + d.*pm + (d.*pmf)() + alias::depth + tl_dyn + inline_var_user() + (int)E2::Y + E1b + A::K + structured(); }
