#include <arm_sve.h>
svint32_t add(svint32_t a, svint32_t b) { return svadd_s32_x(svptrue_b32(), a, b); }
svfloat64_t mul(svfloat64_t a, svfloat64_t b, svbool_t p) { return svmul_f64_m(p, a, b); }
svbool_t cmp(svint32_t a, svint32_t b) { return svcmplt_s32(svptrue_b32(), a, b); }
int32_t red(svint32_t a) { return svaddv_s32(svptrue_b32(), a); }
void st(int32_t *p, svint32_t v) { svst1_s32(svptrue_b32(), p, v); }
svint32_t ld(const int32_t *p) { return svld1_s32(svptrue_b32(), p); }
svint32_t dup(int x) { return svdup_n_s32(x); }
