int asm1(int x) { int r; __asm__("mov %1, %0" : "=r"(r) : "r"(x)); return r; }
void asm2(void) { __asm__ volatile("" ::: "memory"); }
int asm3(int x) { __asm__ volatile("# %0" : "+r"(x) : : "cc"); return x; }
__asm__(".globl module_level_sym");
__attribute__((constructor)) static void ctor(void) {}
__attribute__((destructor)) static void dtor(void) {}
__attribute__((used)) static int kept = 1;
__attribute__((alias("asm1"))) int asm1_alias(int);
extern int ext_weak __attribute__((weak));
int use_weak(void) { return &ext_weak ? ext_weak : 0; }
__attribute__((nonnull, returns_nonnull)) char *nn(char *p) { return p; }
__attribute__((malloc, alloc_size(1))) void *my_alloc(unsigned long n);
void *call_alloc(void) { return my_alloc(32); }
__attribute__((pure)) int pure_fn(int x);
__attribute__((const)) int const_fn(int x);
int call_pure(int x) { return pure_fn(x) + const_fn(x); }
struct big { char b[64]; };
struct big byval_ret(struct big x) { x.b[0]++; return x; }
static int resolver_impl(void) { return 1; }
static void *resolver(void) { return resolver_impl; }
int ifunc_fn(void) __attribute__((ifunc("resolver")));
__attribute__((ms_abi)) int msabi(int a, int b) { return a + b; }
__attribute__((regparm(2))) int regp(int a, int b) { return a - b; }
