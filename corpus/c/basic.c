int printf(const char *, ...);
struct point { int x, y; double w; };
union u { int i; float f; char c[8]; };
struct bits { unsigned a : 3; signed b : 5; unsigned long c : 40; };
static int counter;
int global_arr[4] = {1, 2, 3, 4};
const char *msg = "hello\n\t\"quoted\"\\";
_Thread_local int tls_var = 7;
__attribute__((weak)) int weak_sym = 3;
__attribute__((visibility("hidden"))) int hidden_sym;
__attribute__((section("mysec"), aligned(64))) int placed = 9;
struct point mk(int a, int b) { struct point p = {a, b, a * 0.5}; return p; }
int sum(int n, ...) {
  __builtin_va_list ap; __builtin_va_start(ap, n);
  int s = 0; for (int i = 0; i < n; i++) s += __builtin_va_arg(ap, int);
  __builtin_va_end(ap); return s;
}
int sw(int x) {
  switch (x) { case 0: return 10; case 1: case 2: return 20; case 100: return -1; default: return x * 3; }
}
int fib(int n) { return n < 2 ? n : fib(n - 1) + fib(n - 2); }
int (*fp)(int) = fib;
unsigned bitsf(struct bits *b) { b->a = 5; b->b = -3; b->c += 1; return b->a + b->b; }
float un(union u *p) { p->i = 0x3f800000; return p->f; }
int main(void) {
  struct point p = mk(3, 4);
  counter += sum(3, 1, 2, 3) + sw(p.x) + fp(10);
  printf("%d %s", counter, msg);
  return counter & 0xff;
}
