// VERIF-CLANG[quick]: x86_64-avx512-O1-g :: -O1 -g -mavx512f -mavx512bw -mavx512vl -mfma -mbmi2 -maes -msha
// VERIF-CLANG: x86_64-avx512-O0 :: -O0 -mavx512f -mavx512bw -mavx512vl -mfma -mbmi2 -maes -msha
// VERIF-CLANG: x86_64-avx2-O2 :: -O2 -mavx2 -mfma -mbmi2 -maes -msha -DNO512
// VERIF-CLANG: i686-sse2-O1 :: -O1 -target i686-pc-linux-gnu -msse4.2 -maes -DNO512 -DNO256
#include <immintrin.h>
__m128 f_sse(__m128 a, __m128 b) { return _mm_add_ps(_mm_mul_ps(a, b), _mm_sqrt_ps(_mm_max_ps(a, _mm_set1_ps(0.5f)))); }
__m128i f_sse2(__m128i a, __m128i b) { return _mm_shuffle_epi32(_mm_xor_si128(_mm_adds_epu8(a, b), _mm_slli_epi16(a, 3)), 0x1B); }
int f_cmp(__m128i a, __m128i b) { return _mm_movemask_epi8(_mm_cmpeq_epi8(a, b)) + _mm_extract_epi16(a, 3) + _mm_cvtsi128_si32(b); }
__m128i f_aes(__m128i s, __m128i k) { return _mm_aesenc_si128(_mm_aesdec_si128(s, k), _mm_aeskeygenassist_si128(k, 1)); }
unsigned f_crc(unsigned c, unsigned char d) { return _mm_crc32_u8(c, d) + _mm_popcnt_u32(c); }
void f_stream(float *p, __m128 v) { _mm_stream_ps(p, v); _mm_sfence(); _mm_prefetch((const char *)p, _MM_HINT_T0); _mm_pause(); }
#ifndef NO256
__m256 f_avx(__m256 a, __m256 b, __m256 c) { return _mm256_fmadd_ps(a, b, _mm256_blendv_ps(a, c, _mm256_cmp_ps(a, b, _CMP_LT_OQ))); }
__m256i f_avx2(__m256i a, __m256i b, const int *base) { return _mm256_add_epi32(_mm256_permutevar8x32_epi32(a, b), _mm256_i32gather_epi32(base, b, 4)); }
__m256d f_mask(const double *p, __m256i m) { __m256d v = _mm256_maskload_pd(p, m); return _mm256_hadd_pd(v, _mm256_broadcast_sd(p)); }
unsigned long long f_bmi(unsigned long long x, unsigned long long m) { return _pdep_u64(x, m) ^ _pext_u64(x, m) ^ _bzhi_u64(x, 7); }
#endif
#ifndef NO512
__m512 f_512(__m512 a, __m512 b, __mmask16 k) { return _mm512_mask_add_ps(a, k, a, _mm512_maskz_mul_ps(k, a, b)); }
__mmask16 f_k(__m512i a, __m512i b) { return _mm512_cmpgt_epi32_mask(a, b) | _kand_mask16(_mm512_test_epi32_mask(a, b), 0x5555); }
__m512i f_perm(__m512i a, __m512i idx, __m512i b) { return _mm512_permutex2var_epi32(a, idx, b); }
int f_red(__m512i a) { return _mm512_reduce_add_epi32(a) + _mm512_reduce_max_epi32(a); }
void f_scatter(int *base, __m512i idx, __m512i v, __mmask16 k) { _mm512_mask_i32scatter_epi32(base, k, idx, v, 4); }
__m256i f_vl(__m256i a, __m256i b, __mmask8 k) { return _mm256_mask_blend_epi32(k, a, _mm256_rol_epi32(b, 5)); }
__m512i f_bw(__m512i a, __m512i b) { return _mm512_shuffle_epi8(_mm512_adds_epi16(a, b), b); }
#endif
