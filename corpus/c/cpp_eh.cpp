extern "C" int printf(const char *, ...);
struct Base { virtual ~Base() {} virtual int f(int x) { return x; } int b = 1; };
struct Derived : Base { int f(int x) override { return x * 2 + b; } };
struct Res { int id; Res(int i) : id(i) {} ~Res() { printf("~%d", id); } };
int thrower(int x) { if (x > 3) throw x; return x; }
int catcher(int x) {
  Res r(1);
  try { Res r2(2); return thrower(x); }
  catch (int e) { return -e; }
  catch (...) { return -1; }
}
template <typename T> T tmax(T a, T b) { return a < b ? b : a; }
template <typename T, int N> struct Arr { T d[N]; T sum() const { T s{}; for (int i = 0; i < N; i++) s += d[i]; return s; } };
inline int inl_fn(int x) { static int calls; return x + ++calls; }
int use(Base *p) {
  Arr<int, 3> a{{1, 2, 3}};
  auto lam = [&](int k) { return k + a.sum(); };
  return p->f(tmax(1, 2)) + tmax(1.5, 2.5) + lam(3) + inl_fn(1);
}
int global_init = use(new Derived);
namespace ns { int v = 4; int get() { return v; } }
enum class Color : unsigned char { R, G, B };
int color(Color c) { switch (c) { case Color::R: return 1; case Color::G: return 2; default: return 3; } }
