double dmix(double a, float b, long double c) { return a * b + (double)c - a / 3.0 + 1e300 + 5e-324 + 0x1.8p1; }
float fconst(void) { return 1.0f / 3.0f + 16777216.0f + 1e-45f + 3.4028234663852886e38f; }
long double ld(long double x) { return x * 1.1L + 0.5L; }
_Complex double cplx(_Complex double a, _Complex double b) { return a * b + 2.0; }
int conv(double d, float f) { return (int)d + (unsigned)f + (long)(d * f) + (unsigned char)d; }
double fromint(int i, unsigned u, long l, unsigned long ul) { return (double)i + u + (float)l + ul; }
_Bool cmp(double a, double b) { return a < b || a == b || a != a || !(a >= b); }
double inf_nan(void) { return __builtin_inf() + __builtin_nan("") + __builtin_huge_valf(); }
float half_id(__fp16 *p) { return *p; }
double neg(double x) { return -x; }
double fmaish(double a, double b, double c) { return __builtin_fma(a, b, c) + __builtin_fabs(a) + __builtin_sqrt(b); }
