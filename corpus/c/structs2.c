// VERIF-CLANG[quick]: x86_64-O0-g :: -O0 -g
// VERIF-CLANG: x86_64-O2-g5 :: -O2 -g -gdwarf-5
// VERIF-CLANG: ppc64le-O1-g :: -O1 -g -target powerpc64le-linux-gnu
// VERIF-CLANG: systemz-O1 :: -O1 -target s390x-linux-gnu
// VERIF-CLANG: riscv64-O2-g :: -O2 -g -target riscv64-linux-gnu
// VERIF-CLANG: armv7-O1-g :: -O1 -g -target armv7-linux-gnueabihf
// VERIF-CLANG: mips-O0 :: -O0 -target mips-linux-gnu
// VERIF-CLANG: wasm32-O1-g :: -O1 -g -target wasm32-unknown-unknown
// VERIF-CLANG: x86_64-macos-O1-g :: -O1 -g -target x86_64-apple-macosx10.15
// VERIF-CLANG: x86_64-win-codeview :: -O1 -g -gcodeview -target x86_64-pc-windows-msvc
typedef __SIZE_TYPE__ size_t;
typedef struct node { struct node *next, *prev; int key; char tag[3]; } node_t;
typedef const volatile int cvint;
typedef int (*binop_t)(int, int);
typedef binop_t (*chooser_t)(char);
enum small { A = -1, B = 0, C = 7 };
enum big : unsigned long long { HUGE = 0xFFFFFFFFFFFFFFFFull, TINY = 1 };
struct flex { int n; double tail[]; };
struct packed_s { char c; int i; short s; } __attribute__((packed));
struct aligned_s { char c; } __attribute__((aligned(32)));
struct nested { struct { int a; union { float f; unsigned u; }; } in; enum small e; node_t *list; cvint *q; };
struct with_fp { binop_t ops[4]; chooser_t ch; void (*cb)(struct with_fp *, ...); };
static int add(int a, int b) { return a + b; }
static int sub(int a, int b) { return a - b; }
static binop_t choose(char c) { return c == '+' ? add : sub; }
struct with_fp table = { .ops = { add, sub, [3] = add }, .ch = choose };
const struct nested cn = { .in = { 1, { .u = 0xdeadbeefu } }, .e = C };
#ifdef __SIZEOF_INT128__
__int128 wide_mul(__int128 a, unsigned __int128 b) { return a * (__int128)b + (a >> 65); }
#endif
_Complex double cmul(_Complex double x, _Complex float y) { return x * y + __builtin_conj(x); }
long double ld_ops(long double a, long double b) { return a * b - a / (b + 1.0L) + 0x1.8p+1000L; }
#ifdef __FLT16_MAX__
_Float16 h_ops(_Float16 a, _Float16 b) { return a * b + (_Float16)0.333; }
#else
float h_store(__fp16 *p, float a) { *p = a; return *p * 2; }
#endif
double flex_sum(struct flex *f) { double s = 0; for (int i = 0; i < f->n; i++) s += f->tail[i]; return s; }
int list_len(node_t *n) { int k = 0; while (n) { k++; n = n->next; } return k; }
int vla2(int n, int m) { int a[n][m]; a[n-1][m-1] = 3; return sizeof(a) + a[n-1][m-1]; }
int static_local(void) { static int cnt = 41; static const char name[] = "cnt\0\377"; return ++cnt + name[4]; }
int use_packed(struct packed_s *p, struct aligned_s *q) { return p->i + p->s + q->c; }
int compound(void) { int *p = (int[]){1, 2, 3}; struct packed_s s = (struct packed_s){'a', 2, 3}; return p[1] + s.i; }
void restrict_copy(int *restrict d, const int *restrict s, size_t n) { for (size_t i = 0; i < n; i++) d[i] = s[i]; }
int dispatch(int x) {
  static const void *const tbl[] = { &&a, &&b, &&c, &&a };
  int r = 0;
  goto *tbl[x & 3];
a: r += 1;
b: r += 2; if (r < 10) goto *tbl[(x >> 2) & 3];
c: return r;
}
int reg_var(int x) { register int r = x; volatile int v = r; return v + table.ops[0](r, 1) + table.ch('-')(r, 2); }
