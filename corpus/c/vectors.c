typedef int v4si __attribute__((vector_size(16)));
typedef float v4sf __attribute__((vector_size(16)));
typedef double v2df __attribute__((vector_size(16)));
typedef char v16qi __attribute__((vector_size(16)));
v4si vadd(v4si a, v4si b) { return a + b * (v4si){1, 2, 3, 4}; }
v4sf vmix(v4sf a, v4sf b) { v4sf c = a * b + (v4sf){0.5f, 1.5f, -0.0f, 2.0f}; c[2] = a[1]; return c; }
v4si vcmp(v4sf a, v4sf b) { return a < b; }
v4si vshuf(v4si a, v4si b) { return __builtin_shufflevector(a, b, 0, 5, 2, 7); }
v2df vconv(v4si a) { return (v2df){a[0], a[3]}; }
int vext(v16qi a, int i) { return a[i] + a[3]; }
v4si vsel(v4si m, v4si a, v4si b) { return (m & a) | (~m & b); }
v4sf vcvt(v4si a) { return __builtin_convertvector(a, v4sf); }
