// VERIF-CLANG[quick]: aarch64-neon-O1-g :: -O1 -g -target aarch64-linux-gnu -march=armv8.2-a+fp16+dotprod+crypto
// VERIF-CLANG: aarch64-neon-O0 :: -O0 -target aarch64-linux-gnu -march=armv8.2-a+fp16+dotprod+crypto
// VERIF-CLANG: armv7-neon-O2 :: -O2 -target armv7-linux-gnueabihf -mfpu=neon-vfpv4 -DV7
#include <arm_neon.h>
float32x4_t n_fma(float32x4_t a, float32x4_t b, float32x4_t c) { return vfmaq_f32(a, b, vmulq_n_f32(c, 2.0f)); }
int32x4_t n_int(int32x4_t a, int16x4_t b, int16x4_t c) { return vqaddq_s32(vmlal_s16(a, b, c), vshlq_n_s32(a, 3)); }
uint8x16_t n_tbl(uint8x16_t t, uint8x16_t i) {
#ifdef V7
  return vcombine_u8(vtbl2_u8((uint8x8x2_t){{vget_low_u8(t), vget_high_u8(t)}}, vget_low_u8(i)), vget_high_u8(i));
#else
  return vqtbl1q_u8(t, i);
#endif
}
int32_t n_red(int32x4_t a) { int32x2_t s = vpadd_s32(vget_low_s32(a), vget_high_s32(a)); return vget_lane_s32(vpadd_s32(s, s), 0); }
void n_st(int16_t *p, int16x8x3_t v) { vst3q_s16(p, v); }
int16x8x2_t n_ld(const int16_t *p) { return vld2q_s16(p); }
uint32x4_t n_cmp(float32x4_t a, float32x4_t b) { return vbslq_u32(vcgtq_f32(a, b), vreinterpretq_u32_f32(a), vcvtq_u32_f32(b)); }
uint64x2_t n_long(uint32x2_t a, uint32x2_t b) { return vmull_u32(a, b); }
poly16x8_t n_poly(poly8x8_t a, poly8x8_t b) { return vmull_p8(a, b); }
#ifndef V7
float16x8_t n_h(float16x8_t a, float16x8_t b) { return vaddq_f16(a, vmulq_f16(a, b)); }
int32x4_t n_dot(int32x4_t acc, int8x16_t a, int8x16_t b) { return vdotq_s32(acc, a, b); }
uint8x16_t n_aes(uint8x16_t d, uint8x16_t k) { return vaesmcq_u8(vaeseq_u8(d, k)); }
float64x2_t n_d(float64x2_t a, float64x2_t b) { return vdivq_f64(vsqrtq_f64(a), vrndnq_f64(b)); }
int64_t n_addv(int64x2_t a) { return vaddvq_s64(a) + vmaxvq_s32(vreinterpretq_s32_s64(a)); }
#endif
