// VERIF-CLANG[quick]: x86_64-O1-g :: -O1 -g -mavx512f -fenable-matrix
// VERIF-CLANG: x86_64-O0 :: -O0 -mavx2 -fenable-matrix
// VERIF-CLANG: aarch64-O2 :: -O2 -target aarch64-linux-gnu -fenable-matrix
// VERIF-CLANG: riscv64-O2 :: -O2 -target riscv64-linux-gnu -fenable-matrix
// VERIF-CLANG: wasm32-simd-O2 :: -O2 -target wasm32-unknown-unknown -msimd128 -fenable-matrix
// VERIF-CLANG: ppc64le-altivec-O2 :: -O2 -target powerpc64le-linux-gnu -maltivec -fenable-matrix
typedef float f4 __attribute__((ext_vector_type(4)));
typedef int i8v __attribute__((ext_vector_type(8)));
typedef double d2 __attribute__((vector_size(16)));
typedef unsigned char uc16 __attribute__((vector_size(16)));
typedef float m4x4 __attribute__((matrix_type(4, 4)));
typedef double m2x3 __attribute__((matrix_type(2, 3)));
typedef long l3 __attribute__((ext_vector_type(3)));
f4 swz(f4 a, f4 b) { f4 r = a.wzyx + b.xxyy; r.x = a.s3; r.lo = b.hi; return r * 2.0f - (f4)(1.0f); }
i8v shuf(i8v a, i8v b) { return __builtin_shufflevector(a, b, 0, 8, 1, 9, -1, 15, 7, 7) + (a > b) + (a == 3); }
d2 conv(i8v a, f4 f) { d2 d = __builtin_convertvector(f.xy, d2); l3 l = {1, 2, 3}; d[0] += a[3] + l.z; return d; }
uc16 bytes(uc16 a, uc16 b) { return (a & b) | (a ^ ~b) | (a << 3) | (b >> 1) | (a % (b | 1)); }
int reduce(i8v a, f4 f) { return __builtin_reduce_max(a) + __builtin_reduce_xor(a) + (int)__builtin_reduce_min(f); }
f4 elem(f4 a, f4 b) { return __builtin_elementwise_max(a, b) + __builtin_elementwise_abs(a) + __builtin_elementwise_ceil(b); }
i8v sel(i8v a, i8v b, i8v c) { return a ? b : c; }
m4x4 matmul(m4x4 a, m4x4 b) { m4x4 c = a * b; c[1][2] += 1.0f; return c + a - b * 2.0f; }
m2x3 mload(double *p) { m2x3 m = __builtin_matrix_column_major_load(p, 2, 3, 4); __builtin_matrix_column_major_store(m, p + 100, 2); return m; }
double mtrans(m2x3 m) { __typeof__(__builtin_matrix_transpose(m)) t = __builtin_matrix_transpose(m); return t[2][1]; }
f4 gv = {1.0f, -0.0f, 0x1p-126f, 3.4028235e38f}; const i8v giv = {1, -1, 0x7fffffff, -2147483647 - 1}; uc16 gz;
f4 *vp(f4 *arr, int i) { return &arr[i]; } float lane(f4 *p, int i) { return (*p)[i & 3]; }
