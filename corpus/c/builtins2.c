// VERIF-CLANG[quick]: x86_64-O1-g :: -O1 -g -mavx2
// VERIF-CLANG: x86_64-O0 :: -O0 -mavx2
// VERIF-CLANG: x86_64-O3-g :: -O3 -g -mavx2 -ffast-math
// VERIF-CLANG: i686-O2 :: -O2 -target i686-pc-linux-gnu -msse2
// VERIF-CLANG: x86_64-asan :: -O1 -g -fsanitize=address
// VERIF-CLANG: x86_64-ubsan :: -O1 -fsanitize=undefined
// VERIF-CLANG: x86_64-profile :: -O1 -fprofile-instr-generate -fcoverage-mapping
// VERIF-CLANG: x86_64-stackprot-cfi :: -O2 -fstack-protector-all -fcf-protection=full -fstack-clash-protection
// VERIF-CLANG: x86_64-tsan :: -O1 -fsanitize=thread
// VERIF-CLANG: x86_64-O2-pic-tlsmodels :: -O2 -fPIC -ftls-model=initial-exec
typedef __SIZE_TYPE__ size_t;
int printf(const char *, ...);
int bits(unsigned x, unsigned long long y) { return __builtin_ctz(x | 1) + __builtin_clzll(y | 1) + __builtin_popcount(x) + __builtin_ffs(x) + __builtin_parity(x); }
unsigned swaps(unsigned x, unsigned short s) { return __builtin_bswap32(x) ^ __builtin_bswap16(s) ^ __builtin_bitreverse32(x) ^ __builtin_rotateleft32(x, 7) ^ __builtin_rotateright32(x, s); }
int ovf(int a, int b, long *out) { int r; if (__builtin_add_overflow(a, b, &r)) return -1; if (__builtin_mul_overflow((long)a, (long)b, out)) return -2; unsigned u; return __builtin_usub_overflow(a, b, &u) ? (int)u : r; }
int sat(int a, int b) { return __builtin_elementwise_max(a, b) - __builtin_elementwise_min(a, b) + __builtin_abs(a); }
void *mem(void *d, const void *s, size_t n) { __builtin_memmove(d, s, n); __builtin_memset(d, 0xAB, n / 2); return __builtin_memcpy((char *)d + 1, s, 16); }
int expect(int x) { if (__builtin_expect(x > 100, 0)) return 1; __builtin_assume(x < 1000); if (x == 999) __builtin_unreachable(); return __builtin_constant_p(x) ? 2 : 3; }
void *frames(void) { __builtin_prefetch(&frames, 0, 3); return (char *)__builtin_frame_address(0) + (size_t)__builtin_return_address(0); }
void trap(int x) { if (x) __builtin_trap(); else __builtin_debugtrap(); }
void *dyn_alloca(size_t n) { char *p = __builtin_alloca(n); p[0] = 1; char *q = __builtin_alloca_with_align(n, 512); q[0] = 2; return p[0] + q; }
size_t objsize(char *p) { char buf[40]; return __builtin_object_size(buf + 4, 0) + __builtin_object_size(p, 1) + __builtin_dynamic_object_size(p, 0); }
double fmath(double x, float y) { return __builtin_sqrt(x) + __builtin_fabsf(y) + __builtin_fma(x, x, y) + __builtin_copysign(x, y) + __builtin_floor(x) + __builtin_powi(x, 3) + __builtin_inf() + __builtin_nan("") + __builtin_huge_valf(); }
int fclass(double x) { return __builtin_isnan(x) + __builtin_isinf(x) * 2 + __builtin_isfinite(x) * 4 + __builtin_signbit(x) * 8 + __builtin_isless(x, 1.0); }
int strs(const char *s) { return __builtin_strlen(s) + __builtin_strcmp(s, "lit") + (__builtin_strchr(s, 'x') != 0); }
#ifdef __SIZEOF_INT128__
long long atom128(__int128 *p, __int128 v) { return (long long)__atomic_fetch_add((long long *)p, (long long)v, __ATOMIC_ACQ_REL); }
#endif
void fences(void) { __atomic_thread_fence(__ATOMIC_SEQ_CST); __atomic_signal_fence(__ATOMIC_ACQUIRE); __sync_synchronize(); }
int cas(int *p, int e, int d) { return __atomic_compare_exchange_n(p, &e, d, 1, __ATOMIC_RELEASE, __ATOMIC_RELAXED) + __sync_bool_compare_and_swap(p, e, d) + __sync_lock_test_and_set(p, 5) + __atomic_exchange_n(p, 3, __ATOMIC_CONSUME); }
int rmw(unsigned char *c, short *s, long *l) { return __atomic_fetch_nand(c, 3, __ATOMIC_RELAXED) + __atomic_fetch_xor(s, 1, __ATOMIC_ACQUIRE) + __atomic_fetch_min(l, 7, __ATOMIC_SEQ_CST) + __atomic_fetch_max((unsigned long *)l, 9, __ATOMIC_RELEASE) + __atomic_sub_fetch(l, 2, __ATOMIC_ACQ_REL); }
volatile int vol; int volat(void) { vol = vol + 1; return *(volatile char *)&vol; }
_Thread_local int t_default; static __thread int t_local __attribute__((tls_model("local-exec"))); extern __thread int t_ext __attribute__((tls_model("local-dynamic")));
int tls(void) { return t_default++ + t_local-- + t_ext; }
int asm_goto(int x) { __asm__ goto("jmp %l1" : : "r"(x) : "cc", "memory" : out, other); return 1; out: return 2; other: return 3; }
int asm_multi(int a, int b) { int lo, hi; __asm__("mull %3" : "=a"(lo), "=d"(hi) : "0"(a), "rm"(b) : "cc"); __asm__ __volatile__(".byte 0x90\n\tnop" : : : "memory", "dirflag", "fpsr", "flags"); return lo ^ hi; }
#ifdef __x86_64__
register long sp_reg __asm__("rsp"); long get_sp(void) { return sp_reg; }
#endif
int renamed(int) __asm__("the$real\x01name"); int call_renamed(void) { return renamed(1); }
__attribute__((annotate("my_annotation"))) int annotated(int x) { int y __attribute__((annotate("local_ann"))) = x; return y; }
__attribute__((target("avx2,fma"))) float tgt(float a) { return a * a + a; }
__attribute__((noinline, optnone)) int optnone_fn(int x) { return x; } __attribute__((minsize)) int minsize_fn(int x) { return x / 3; }
__attribute__((flatten, hot)) int hot_fn(int x) { return minsize_fn(x) + optnone_fn(x); }
__attribute__((no_sanitize("address", "undefined"), no_stack_protector, nocf_check)) int nosan(int *p, int i) { return p[i] << i; }
__attribute__((patchable_function_entry(2, 1), no_instrument_function, nothrow, leaf)) void patchable(void) {}
__attribute__((preserve_most)) void pmost(int); __attribute__((preserve_all)) void pall(int); __attribute__((vectorcall)) float vcall(float a); int rcall(int a);
void call_ccs(void) { pmost(1); pall(2); vcall(1.0f); rcall(3); }
__attribute__((weak, visibility("protected"))) int weak_prot(void) { return 1; } extern int hidden_ext __attribute__((visibility("hidden")));
__attribute__((section(".text.custom,\"ax\"#"), aligned(128), used, retain)) static int sect_fn(void) { return hidden_ext; }
int common_sym; int bss_arr[1000]; static const int ro[3] = {1, 2, 3}; __attribute__((used)) static const char *const names[] = {"a", "b\x7f", 0};
int loop_hints(int *a, int n) { int s = 0;
#pragma clang loop vectorize(enable) interleave_count(4) unroll(disable)
  for (int i = 0; i < n; i++) s += a[i];
#pragma unroll 8
  for (int i = 0; i < n; i++) s ^= a[i];
#pragma clang loop distribute(enable)
  for (int i = 1; i < n; i++) a[i] = a[i - 1] + 1;
  return s; }
int main(int argc, char **argv) { printf("%d\n", bits(argc, 1) + expect(argc) + strs(argv[0])); return 0; }
