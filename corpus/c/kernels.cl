// VERIF-CLANG[quick]: amdgcn-cl20-O1-g :: -O1 -g -cl-std=CL2.0 -target amdgcn-amd-amdhsa -mcpu=gfx900 -nogpulib
// VERIF-CLANG: amdgcn-cl20-O0 :: -O0 -cl-std=CL2.0 -target amdgcn-amd-amdhsa -mcpu=gfx900 -nogpulib
// VERIF-CLANG: nvptx64-cl12-O2 :: -O2 -cl-std=CL1.2 -target nvptx64-nvidia-cuda -DNO_GENERIC
// VERIF-CLANG: spir64-cl20-O1-g :: -O1 -g -cl-std=CL2.0 -target spir64-unknown-unknown
// VERIF-CLANG: spir-cl12-O0 :: -O0 -cl-std=CL1.2 -target spir-unknown-unknown -DNO_GENERIC
// VERIF-CLANG: r600-cl12-O1 :: -O1 -cl-std=CL1.2 -target r600-unknown-unknown -mcpu=cayman -DNO_GENERIC
typedef float float4 __attribute__((ext_vector_type(4)));
typedef unsigned int uint;
uint my_global_id(uint); uint my_local_id(uint); void my_barrier(uint);
__constant float coeffs[4] = {0.25f, 0.5f, 0.75f, 1.0f};
__constant int *__constant cptr = 0;
struct particle { float4 pos; float mass; __global struct particle *next; };
float helper(__global const float *p, __local float *scratch, __private int *idx, __constant float *c) { scratch[*idx] = p[*idx] * c[*idx & 3]; return scratch[0]; }
#ifndef NO_GENERIC
float generic_load(float *g) { return *g; }
__global int *to_g(int *p) { return (__global int *)p; }
#endif
__kernel __attribute__((reqd_work_group_size(64, 1, 1))) __attribute__((vec_type_hint(float4)))
void scale(__global float *out, __global const float *in, __local float *tmp, const float k, uint n) {
  uint gid = my_global_id(0); uint lid = my_local_id(0); int idx = (int)lid;
  if (gid >= n) return;
  tmp[lid] = in[gid];
  my_barrier(1);
  out[gid] = helper(in, tmp, &idx, coeffs) * k
#ifndef NO_GENERIC
    + generic_load(tmp + lid)
#endif
    ;
}
__kernel void walk(__global struct particle *p, __global float4 *acc, volatile __global int *counter) {
  float4 s = (float4)(0.0f);
  while (p) { s += p->pos * p->mass; p = p->next; __sync_fetch_and_add(counter, 1); }
  *acc = s.wzyx;
}
__kernel void images(__read_only image2d_t img, sampler_t smp, __write_only image1d_t o, __global int *r) { r[0] = (int)sizeof(struct particle); }
