// VERIF-CLANG[quick]: objc-macos-O1-g :: -O1 -g -fobjc-arc -target x86_64-apple-macosx10.15
// VERIF-CLANG: objc-macos-O0 :: -O0 -fobjc-arc -fblocks -target x86_64-apple-macosx10.15
// VERIF-CLANG: objc-gnustep-O1-g :: -O1 -g -fobjc-runtime=gnustep-2.0 -target x86_64-pc-linux-gnu
// VERIF-CLANG: objc-arm64-ios-O2-g :: -O2 -g -fobjc-arc -target arm64-apple-ios13.0
__attribute__((objc_root_class)) @interface Root { int _iv; id _obj; } + (id)alloc; - (id)init; - (int)value; @property (nonatomic, assign) int count; @property (copy) id name; @end
@protocol Shape - (double)area; @optional - (int)sides; @end
@interface Circle : Root <Shape> { @private double r; @protected int tag; } - (id)initWithRadius:(double)rad; @end
@interface Root (Extras) - (int)doubled; @end
@implementation Root
@synthesize count = _count; @synthesize name = _name;
+ (id)alloc { return (id)0; }
- (id)init { _iv = 7; return self; }
- (int)value { return _iv + self.count; }
@end
@implementation Root (Extras) - (int)doubled { return [self value] * 2; } @end
@implementation Circle
- (id)initWithRadius:(double)rad { if ((self = [super init])) { r = rad; tag = 1; } return self; }
- (double)area { return 3.14159 * r * r; }
- (int)sides { return 0; }
@end
int use(void) { Circle *c = [[Circle alloc] initWithRadius:2.0]; id<Shape> s = c; @try { if ([c doubled] > 100) @throw c; } @catch (Root *e) { return -1; } @finally { c.count = 3; } @autoreleasepool { c.name = @"lit"; } @synchronized(c) { c.count++; } return (int)[s area] + (@selector(sides) != 0) + [c sides]; }
