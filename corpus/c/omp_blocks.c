// VERIF-CLANG[quick]: x86_64-omp-O1-g :: -O1 -g -fopenmp -fblocks
// VERIF-CLANG: x86_64-omp-O0 :: -O0 -fopenmp -fblocks
// VERIF-CLANG: aarch64-omp-O2-g :: -O2 -g -fopenmp -fblocks -target aarch64-linux-gnu
// VERIF-CLANG: x86_64-ompsimd-O2 :: -O2 -fopenmp-simd -fblocks
// VERIF-CLANG: macos-blocks-O1-g :: -O1 -g -fblocks -target x86_64-apple-macosx10.15
int printf(const char *, ...);
double dot(const double *a, const double *b, int n) { double s = 0;
#pragma omp parallel for reduction(+ : s) schedule(dynamic, 4)
  for (int i = 0; i < n; i++) s += a[i] * b[i];
  return s; }
void saxpy(float *y, const float *x, float a, int n) {
#pragma omp simd aligned(x, y : 32) safelen(8)
  for (int i = 0; i < n; i++) y[i] += a * x[i]; }
int tasks(int n) { int r = 0;
#pragma omp parallel num_threads(4) shared(r)
  {
#pragma omp single
    {
#pragma omp task firstprivate(n) depend(out : r)
      r += n;
#pragma omp taskwait
    }
#pragma omp critical(named_section)
    r++;
#pragma omp barrier
#pragma omp atomic update
    r += 2;
#pragma omp master
    printf("%d\n", r);
  }
  return r; }
int sections(void) { int a = 0, b = 0;
#pragma omp parallel sections
  {
#pragma omp section
    a = 1;
#pragma omp section
    b = 2;
  }
  return a + b; }
static int tp; 
#pragma omp threadprivate(tp)
int use_tp(void) { return tp++; }
typedef int (^blk_t)(int);
blk_t make_block(int k) { __block int acc = 0; blk_t b = ^(int x) { acc += x * k; return acc; }; return b; }
int call_block(void) { int (^sq)(int) = ^(int x) { return x * x; }; void (^noarg)(void) = ^{ printf("blk\n"); }; noarg(); return sq(4) + make_block(2)(3); }
blk_t global_block = ^(int x) { return x + 1; };
