int printf(const char *, ...);
void *memcpy(void *, const void *, unsigned long);
int loops(int n, int *a) {
  int s = 0;
  for (int i = 0; i < n; i++) { if (a[i] < 0) continue; if (a[i] > 1000) break; s += a[i]; }
  int j = 0; while (j < n) { s ^= j; j += 2; }
  do { s--; } while (s > 100);
  return s;
}
int computed(int x) {
  static void *tbl[] = {&&l0, &&l1, &&l2};
  goto *tbl[x % 3];
l0: return 1;
l1: return 2;
l2: return 3;
}
long vla(int n) { long a[n]; for (int i = 0; i < n; i++) a[i] = i * i; long s = 0; for (int i = 0; i < n; i++) s += a[i]; return s; }
int ternary(int a, int b, int c) { return a ? (b ? 1 : 2) : (c ? 3 : 4); }
_Bool logic(int a, int b) { return (a && b) || (!a && !b); }
void copy(char *d, const char *s, unsigned long n) { memcpy(d, s, n); }
long long wide(long long a, unsigned char b, short c) { return (a << b) | (c >> 2) | (a % 7) | (unsigned long long)a / 3; }
__attribute__((noinline, cold)) void cold_fn(void) { printf("cold\n"); }
__attribute__((always_inline)) static inline int inl(int x) { return x + 1; }
int use_inl(int x) { return inl(inl(x)); }
__attribute__((noreturn)) void die(void) { for (;;) {} }
