_Atomic int ai;
_Atomic long long al;
int a_ops(int *p, int v) {
  int r = __atomic_fetch_add(p, v, __ATOMIC_SEQ_CST);
  r += __atomic_fetch_sub(p, v, __ATOMIC_ACQUIRE);
  r += __atomic_fetch_and(p, v, __ATOMIC_RELEASE);
  r += __atomic_fetch_or(p, v, __ATOMIC_ACQ_REL);
  r += __atomic_fetch_xor(p, v, __ATOMIC_RELAXED);
  r += __atomic_exchange_n(p, v, __ATOMIC_SEQ_CST);
  r += __atomic_load_n(p, __ATOMIC_ACQUIRE);
  __atomic_store_n(p, r, __ATOMIC_RELEASE);
  int exp = v;
  r += __atomic_compare_exchange_n(p, &exp, r, 0, __ATOMIC_SEQ_CST, __ATOMIC_RELAXED);
  r += __atomic_compare_exchange_n(p, &exp, r, 1, __ATOMIC_ACQ_REL, __ATOMIC_ACQUIRE);
  __atomic_thread_fence(__ATOMIC_SEQ_CST);
  __atomic_signal_fence(__ATOMIC_ACQ_REL);
  al += 2; return r + ai++ + (int)al;
}
volatile int vol;
int vol_ops(void) { vol = vol + 1; return vol; }
