;;; ATOM const/int-forms
@a = global i32 42
@b = global i32 -42
@c = global i1 true
@d = global i1 false
@e = global i8 u0xFF
@f = global i8 s0xFF
@g = global i64 9223372036854775807
@h = global i64 -9223372036854775808
@i = global i128 170141183460469231731687303715884105727
@j = global i65 u0x1FFFFFFFFFFFFFFFF
@k = global i17 s0x1FFFF
@l = global i32 u0x80000000
@m = global i32 4294967295
@n = global i1 1
@o = global i1 0
@p = global i64 9223372036854775808
@q = global i64 18446744073709551615
@r = global i128 18446744069414584320
@s = global i128 1267650600228229401496703205376
@t = global i64 u0x8000000000000000
@u = global i8 255
@v = global i8 128
@w = global i128 18446744073709551616
@x = global i65 18446744073709551616
@y = global i64 -1
@z = global i16 65280
;;; ATOM const/float-forms
@a = global float 1.000000e+00
@b = global float -2.500000e-01
@c = global double 3.141592653589793
@d = global double 0x7FF0000000000000
@e = global double 0xFFF0000000000000
@f = global double 0x7FF8000000000000
@g = global float 0x36A0000000000000
@h = global float 0x47EFFFFFE0000000
@i = global half 0xH3C00
@j = global half 0xHFC00
@k = global half 1.000000e+00
@l = global x86_fp80 0xK3FFF8000000000000000
@m = global fp128 0xL00000000000000003FFF000000000000
@n = global ppc_fp128 0xM3FF00000000000000000000000000000
@o = global double -0.000000e+00
@p = global float 0x3810000000000000
@q = global double 4.940656e-324
@r = global double 1.0
@s = global double 1.0e10
@t = global double 1.5e+300
;;; ATOM const/null-none-undef-poison-zero
@a = global i8* null
@b = global i32 addrspace(3)* null
@c = global { i32, [2 x i8] } zeroinitializer
@d = global <4 x float> zeroinitializer
@e = global i32 undef
@f = global { i8, i8* } undef
@g = global i32 poison
@h = global [2 x <2 x i8>] poison
@i = global [0 x i32] zeroinitializer
declare i32 @__CxxFrameHandler3(...)
declare void @mt()
define void @fn() personality i32 (...)* @__CxxFrameHandler3 {
  invoke void @mt() to label %ok unwind label %pad
ok:
  ret void
pad:
  %p = cleanuppad within none []
  cleanupret from %p unwind to caller
}
;;; ATOM const/aggregates
%T = type { i8, <2 x i16>, [2 x i32] }
@a = global [3 x i32] [i32 1, i32 2, i32 3]
@b = global [2 x [2 x i8]] [[2 x i8] [i8 1, i8 2], [2 x i8] c"ab"]
@c = global [6 x i8] c"hello\00"
@d = global [4 x i8] c"\01\FF\22\5C"
@e = global <3 x float> <float 1.0, float 2.0, float undef>
@f = global { i32, float } { i32 1, float 2.0 }
@g = global <{ i8, i32 }> <{ i8 1, i32 2 }>
@h = global %T { i8 1, <2 x i16> <i16 2, i16 3>, [2 x i32] [i32 4, i32 5] }
@i = global {} {}
@j = global <{}> <{}>
@k = global { {}, [0 x i8] } { {} {}, [0 x i8] [] }
@l = global [0 x i8] c""
@m = global { i8* } { i8* getelementptr ([6 x i8], [6 x i8]* @c, i32 0, i32 0) }
@n = global <2 x i8*> <i8* null, i8* getelementptr ([6 x i8], [6 x i8]* @c, i64 0, i64 1)>
;;; ATOM const/expr-binary-bitwise
@g = global i32 0
@a = global i64 add (i64 ptrtoint (i32* @g to i64), i64 1)
@b = global i64 add nuw nsw (i64 ptrtoint (i32* @g to i64), i64 2)
@c = global i64 sub nsw (i64 ptrtoint (i32* @g to i64), i64 3)
@d = global i64 mul nuw (i64 ptrtoint (i32* @g to i64), i64 4)
@i = global i64 shl nuw nsw (i64 ptrtoint (i32* @g to i64), i64 1)
@j = global i64 lshr exact (i64 ptrtoint (i32* @g to i64), i64 1)
@k = global i64 ashr (i64 ptrtoint (i32* @g to i64), i64 1)
@l = global i64 and (i64 ptrtoint (i32* @g to i64), i64 255)
@m = global i64 or (i64 ptrtoint (i32* @g to i64), i64 1)
@n = global i64 xor (i64 ptrtoint (i32* @g to i64), i64 -1)
;;; ATOM const/expr-fneg
@g = global i32 0
@ff = global float fneg (float bitcast (i32 ptrtoint (i32* @g to i32) to float))
;;; ATOM const/expr-conversion
@g = global i32 0
@a = global i8 trunc (i64 ptrtoint (i32* @g to i64) to i8)
@b = global i128 zext (i64 ptrtoint (i32* @g to i64) to i128)
@c = global i128 sext (i64 ptrtoint (i32* @g to i64) to i128)
@d = global float fptrunc (double bitcast (i64 ptrtoint (i32* @g to i64) to double) to float)
@e = global fp128 fpext (double bitcast (i64 ptrtoint (i32* @g to i64) to double) to fp128)
@f = global i32 fptoui (double bitcast (i64 ptrtoint (i32* @g to i64) to double) to i32)
@h = global i32 fptosi (double bitcast (i64 ptrtoint (i32* @g to i64) to double) to i32)
@i = global double uitofp (i64 ptrtoint (i32* @g to i64) to double)
@j = global double sitofp (i64 ptrtoint (i32* @g to i64) to double)
@k = global i8* inttoptr (i64 add (i64 ptrtoint (i32* @g to i64), i64 4) to i8*)
@l = global i8* bitcast (i32* @g to i8*)
@m = global i32 addrspace(1)* addrspacecast (i32* @g to i32 addrspace(1)*)
@n = global <2 x i32> bitcast (i64 ptrtoint (i32* @g to i64) to <2 x i32>)
;;; ATOM const/expr-gep
%T = type { i32, [4 x { i8, i16 }], <4 x i8> }
@g = global %T zeroinitializer
@h = addrspace(2) global [8 x i32] zeroinitializer
@a = global i32* getelementptr (%T, %T* @g, i32 0, i32 0)
@b = global i16* getelementptr inbounds (%T, %T* @g, i64 0, i32 1, i64 2, i32 1)
@c = global i32 addrspace(2)* getelementptr ([8 x i32], [8 x i32] addrspace(2)* @h, i32 0, i32 3)
@d = global i32 addrspace(2)* getelementptr inbounds ([8 x i32], [8 x i32] addrspace(2)* @h, i32 0, inrange i32 1)
@e = global %T* getelementptr (%T, %T* @g, i32 1)
@f = global i8* getelementptr (i8, i8* bitcast (%T* @g to i8*), i64 ptrtoint (i32 addrspace(2)* getelementptr ([8 x i32], [8 x i32] addrspace(2)* @h, i32 0, i32 1) to i64))
@i = global <2 x i32*> getelementptr (%T, <2 x %T*> <%T* @g, %T* @g>, <2 x i32> zeroinitializer, i32 0)
@j = global <2 x i8*> getelementptr (i8, i8* null, <2 x i64> <i64 1, i64 2>)
@k = global i8* getelementptr (%T, %T* @g, i32 0, i32 2, i32 1)
;;; ATOM const/expr-other
@g = global i32 0
@h = global i32 0
@a = global i1 icmp eq (i32* @g, i32* @h)
@b = global i1 icmp ult (i64 ptrtoint (i32* @g to i64), i64 ptrtoint (i32* @h to i64))
@c = global i1 fcmp oeq (float bitcast (i32 ptrtoint (i32* @g to i32) to float), float 1.0)
@d = global i32* select (i1 icmp eq (i32* @g, i32* @h), i32* @g, i32* @h)
@e = global <2 x i1> icmp ne (<2 x i32*> <i32* @g, i32* @h>, <2 x i32*> <i32* @h, i32* @g>)
;;; ATOM const/expr-vector-aggregate
@g = global i32 0
@a = global i32 extractelement (<2 x i32> bitcast (i64 ptrtoint (i32* @g to i64) to <2 x i32>), i32 0)
@b = global <2 x i32> insertelement (<2 x i32> bitcast (i64 ptrtoint (i32* @g to i64) to <2 x i32>), i32 1, i32 0)
@c = global <4 x i32> shufflevector (<2 x i32> bitcast (i64 ptrtoint (i32* @g to i64) to <2 x i32>), <2 x i32> undef, <4 x i32> <i32 0, i32 1, i32 0, i32 1>)
;;; ATOM const/blockaddress
@x = global i8* blockaddress(@f, %b)
@y = global [2 x i8*] [i8* blockaddress(@g, %2), i8* blockaddress(@g, %1)]
define void @f() {
entry:
  br label %b
b:
  ret void
}
define void @g() {
  br label %1
1:
  br label %2
2:
  ret void
}
;;; ATOM const/blockaddress-function-in-address-space
@x = global i8 addrspace(1)* blockaddress(@f, %b)
@y = global [2 x i8 addrspace(1)*] [i8 addrspace(1)* blockaddress(@f, %b), i8 addrspace(1)* blockaddress(@f, %c)]
define void @f() addrspace(1) {
entry:
  indirectbr i8 addrspace(1)* blockaddress(@f, %b), [label %b, label %c]
b:
  br label %c
c:
  ret void
}
define i8 addrspace(1)* @user() {
  ret i8 addrspace(1)* blockaddress(@f, %c)
}
;;; ATOM const/dso_local_equivalent
declare void @ext()
@x = global i8* null
@z = global i32 trunc (i64 sub (i64 ptrtoint (void ()* dso_local_equivalent @ext to i64), i64 ptrtoint (i8** @x to i64)) to i32)
;;; ATOM const/expr-binary-llvm14-only-udiv
@g = global i32 0
@x = global i64 udiv (i64 ptrtoint (i32* @g to i64), i64 3)
;;; ATOM const/expr-binary-llvm14-only-sdiv
@g = global i32 0
@x = global i64 sdiv exact (i64 ptrtoint (i32* @g to i64), i64 3)
;;; ATOM const/expr-binary-llvm14-only-urem
@g = global i32 0
@x = global i64 urem (i64 ptrtoint (i32* @g to i64), i64 3)
;;; ATOM const/expr-binary-llvm14-only-srem
@g = global i32 0
@x = global i64 srem (i64 ptrtoint (i32* @g to i64), i64 3)
;;; ATOM const/expr-binary-llvm14-only-fadd
@g = global i32 0
@x = global double fadd (double bitcast (i64 ptrtoint (i32* @g to i64) to double), double 1.0)
;;; ATOM const/expr-binary-llvm14-only-fsub
@g = global i32 0
@x = global double fsub (double bitcast (i64 ptrtoint (i32* @g to i64) to double), double 1.0)
;;; ATOM const/expr-binary-llvm14-only-fmul
@g = global i32 0
@x = global double fmul (double bitcast (i64 ptrtoint (i32* @g to i64) to double), double 1.0)
;;; ATOM const/expr-binary-llvm14-only-fdiv
@g = global i32 0
@x = global double fdiv (double bitcast (i64 ptrtoint (i32* @g to i64) to double), double 1.0)
;;; ATOM const/expr-binary-llvm14-only-frem
@g = global i32 0
@x = global double frem (double bitcast (i64 ptrtoint (i32* @g to i64) to double), double 1.0)
;;; ATOM const/ppc-fp128-negative-zero-low-double
@a = global ppc_fp128 0xM3FF00000000000008000000000000000
;;; ATOM const/expr-aggregate-llvm14-only
@a = global i32 extractvalue ({ i32, i8 } { i32 1, i8 2 }, 0)
@b = global { i32, i8 } insertvalue ({ i32, i8 } { i32 1, i8 2 }, i32 7, 0)
@g = global i32 0
@c = global i64 extractvalue ({ i64, i8 } { i64 ptrtoint (i32* @g to i64), i8 2 }, 0)
;;; ATOM const/blockaddress-function-and-block-names-that-concatenate-alike
@table = global [4 x i8*] [i8* blockaddress(@f, %cold.1.bb), i8* blockaddress(@f.cold.1, %bb), i8* blockaddress(@"f.cold", %"1.bb"), i8* blockaddress(@f, %bb)]

define void @f(i1 %c) {
entry:
  br i1 %c, label %cold.1.bb, label %bb
cold.1.bb:
  ret void
bb:
  ret void
}

define void @f.cold.1(i1 %c) {
entry:
  br i1 %c, label %bb, label %other
bb:
  ret void
other:
  ret void
}

define void @f.cold(i1 %c) {
entry:
  br i1 %c, label %"1.bb", label %bb
"1.bb":
  ret void
bb:
  ret void
}
;;; ATOM const/blockaddress-same-block-name-in-two-functions
@a = global i8* blockaddress(@f, %bb)
@b = global i8* blockaddress(@g, %bb)
@c = global [2 x i8*] [i8* blockaddress(@g, %bb), i8* blockaddress(@f, %bb)]
@d = global i8* blockaddress(@g, %only.in.g)

define void @f(i1 %c) {
entry:
  br i1 %c, label %bb, label %exit
bb:
  ret void
exit:
  ret void
}

define void @g(i1 %c) {
entry:
  br i1 %c, label %bb, label %only.in.g
bb:
  unreachable
only.in.g:
  ret void
}
;;; ATOM const/float-literals-of-named-float-types
%real = type x86_fp80
%quad = type fp128
%pair = type ppc_fp128
%h = type half
%d = type double
@g1 = global %real 0xK3FFF8000000000000000
@g2 = global %quad 0xL00000000000000003FFF000000000000
@g3 = global %pair 0xM3FF00000000000000000000000000000
@g4 = global %h 0xH3C00
@g5 = global %d 1.5
@g6 = global [2 x %real] [%real 0xK4000C000000000000000, %real 0xKBFFF8000000000000000]

define %real @f(%real %x) {
  %y = fadd %real %x, 0xK3FFF8000000000000000
  ret %real %y
}
;;; ATOM const/blockaddress-in-globals-function-bodies-and-metadata
@t1 = global i8* blockaddress(@f, %bb1)
@t2 = global [2 x i8*] [i8* blockaddress(@f, %bb2), i8* blockaddress(@g, %x)]
@t3 = global i8* blockaddress(@g, %y)

define i8* @f(i1 %c) {
entry:
  br i1 %c, label %bb1, label %bb2
bb1:
  ret i8* blockaddress(@g, %x), !where !{i8* blockaddress(@f, %bb1)}
bb2:
  ret i8* blockaddress(@f, %bb1)
}

define void @g(i1 %c) {
entry:
  br i1 %c, label %x, label %y
x:
  ret void
y:
  ret void
}

!named = !{!0, !1, !2, !3}
!0 = !{i8* blockaddress(@f, %bb1)}
!1 = !{i8* blockaddress(@g, %y), !0}
!2 = !{i8* blockaddress(@f, %bb2), i8* blockaddress(@g, %x)}
!3 = !{!{i8* blockaddress(@g, %x)}}
;;; ATOM const/int-s0x-negative-at-many-widths
@s0 = global i4 s0xF
@s1 = global i4 s0xC
@s2 = global i8 s0xD4
@s3 = global i8 s0xE0
@s4 = global i12 s0xDF8
@s5 = global i12 s0xF70
@s6 = global i16 s0xAEB5
@s7 = global i16 s0xD616
@s8 = global i20 s0x9AC20
@s9 = global i20 s0x872DE
@s10 = global i24 s0x9D4A51
@s11 = global i24 s0xA2CDFF
@s12 = global i28 s0xE0268BB
@s13 = global i28 s0xE9387AB
@s14 = global i32 s0xD50CD107
@s15 = global i32 s0xE1C63752
@s16 = global i36 s0xC1D8FB1EB
@s17 = global i36 s0xBA9EFF75E
@s18 = global i40 s0xD56708A570
@s19 = global i40 s0x873B40A837
@s20 = global i44 s0xFFB8E5E918A
@s21 = global i44 s0xF69800048D4
@s22 = global i48 s0xB6DF181DD2C6
@s23 = global i48 s0xDBC504012D6C
@s24 = global i52 s0x9B698F36C72DB
@s25 = global i52 s0xD2A42995DB506
@s26 = global i56 s0xFEF51AE7A370BB
@s27 = global i56 s0xC6D974A5EC7EE1
@s28 = global i60 s0xBDCE139B0AFB954
@s29 = global i60 s0xF748F1DB9D9CA44
@s30 = global i64 s0xC1CDD8ADCFCC5568
@s31 = global i64 s0x981B949609105656
@s32 = global i68 s0xC65903BF6E304CF9E
@s33 = global i68 s0xDCD0804FB3DCB24B1
@s34 = global i72 s0xB3D21070307F6EADA7
@s35 = global i72 s0xE2A1B493F480673FDA
@s36 = global i76 s0xEAACFA6B27AC84E88AD
@s37 = global i76 s0x93F5B48CA9BBAE25C6A
@s38 = global i80 s0xDB49AAC1A2385F295E79
@s39 = global i80 s0x97668365F9E4FCEECB86
@s40 = global i84 s0xBFABC94029C9F4DA58DD1
@s41 = global i84 s0xA1E397563CF92647C8B64
@s42 = global i88 s0xB3781E3F51D90FCBC22EC0
@s43 = global i88 s0xDD40A28979D8C219B9B231
@s44 = global i92 s0x9424455B7C049EEA5809DD6
@s45 = global i92 s0xA0BB93FBDBA1909A41A7632
@s46 = global i96 s0x95DA81D7BAA1AF6723FF56EC
@s47 = global i96 s0xD645FE436D6582AFE2DC6554
@s48 = global i100 s0x95A517FF452E74F487882C580
@s49 = global i100 s0xE1E46D510034C962E25925C0A
@s50 = global i104 s0x843208B89B35E3DDB8B33A87A8
@s51 = global i104 s0xFFA032C057EFCC225E5E997106
@s52 = global i108 s0xDFCA542D42AC0AE8B29AA03AD78
@s53 = global i108 s0xB1D460793140B2B65D322BF545F
@s54 = global i112 s0xDD3549E310F117A095DD2A31F31F
@s55 = global i112 s0xE9FFD7FC460EA57F8264505FD7DD
@s56 = global i116 s0xA5BFA5E50378D9EAED2033146103D
@s57 = global i116 s0xEE0EC15B16C388C6C6A7356FE6531
@s58 = global i120 s0x94DCB3CFD1748FE3A9067D421C0897
@s59 = global i120 s0xA10EF1B3058F54FB13EBAC7DA379F4
@s60 = global i124 s0xE9427264D39338DF47AD6D557899E8F
@s61 = global i124 s0xA84676A003EE5BF394DCDFBABE9B0E5
@s62 = global i128 s0xCE0B4DB54A2D7498D027DF836CF8EB73
@s63 = global i128 s0xD25E3DF14FFDC777E9D83CCA16208257
@s64 = global i160 s0x91F78080DB60AA10BDEF0ED8C40EBCD4BA40B618
@s65 = global i160 s0xC73850A1248C02DB8378E2DB5AC1F1D930B3B981
@s66 = global i192 s0xC7A9D2C8B382F320AE12E0A6A24F5EAFCA5D05372BC129EE
@s67 = global i192 s0xB38EB8C159368946B77B1D3134FF8AF87873265ABAD0C41F
@s68 = global i256 s0xD6E8C44FE55A93339F3B305AB99665D934D55CEC4F40A041B69CE58929309539
@s69 = global i256 s0x9FC9482985E50A376F4B41F837C53157F412E6E5C354BA6025BBD854077E482B
@s70 = global i512 s0x80AF2C4288BE395399E408352DED510668C9C815019F2442AB8A8CC396D9A7BF4C152442010DB2B469942A3958651ECF6CF90B49417A216BAF5787D89688D8A8
@s71 = global i512 s0xA1EA68C681DBD86D7CAF17D32F256098A20671F3AAB8E4A47C22EBB757C07B6DEC34B746C55B734F8F31B36916668115BB12FE8F830D5DAD2DDEC19783350334
@s72 = global i1024 s0xBCB378C231B7FC0524D64FD54D260608429C64FFCF5D57337A298D23E813A45CA9FA239B0AE3A7E71496AF29C35CD3268A9FFAD577A80BD563536887049E2EC619173C5F0E99DDB0004195C7311FF83F3346F8BBCB7FF4D84C825120F265FF096A20904826038229A30A651426705AB168976D18FC46EBF2263325851882D85C
@s73 = global i1024 s0xB48298652AE713DC4FC20AAD1A8D3C8738079C47CC5A79DA2AC9943732B60488E0EB4269A86DB6532CC29EA1FADA5B23B9641BBB08C999B39E295319AFD749A57A588769FE7371828AD9245B08565B6CC03D26BBBA951987E00D965B933A8D93E1F3E38867306A24E14DC4BF18398E12C8418577669EC9E62F64413CA40A063F
