;;; ATOM inst/fneg
define float @f(float %x, <2 x double> %v) {
  %a = fneg float %x
  %b = fneg nnan ninf <2 x double> %v
  %c = fneg fast float %a
  ret float %c
}
;;; ATOM inst/add-flags
define i32 @f(i32 %x, i32 %y) {
  %a = add i32 %x, %y
  %b = add nuw i32 %a, %y
  %c = add nsw i32 %b, %y
  %d = add nuw nsw i32 %c, 7
  ret i32 %d
}
;;; ATOM inst/sub-mul-flags
define i64 @f(i64 %x, i64 %y) {
  %a = sub i64 %x, %y
  %b = sub nuw i64 %a, %y
  %c = sub nsw i64 %b, %y
  %d = sub nuw nsw i64 %c, -7
  %e = mul i64 %d, %y
  %f = mul nuw i64 %e, %y
  %g = mul nsw i64 %f, %y
  %h = mul nuw nsw i64 %g, 3
  ret i64 %h
}
;;; ATOM inst/div-rem
define i16 @f(i16 %x, i16 %y) {
  %a = udiv i16 %x, %y
  %b = udiv exact i16 %a, %y
  %c = sdiv i16 %b, %y
  %d = sdiv exact i16 %c, %y
  %e = urem i16 %d, %y
  %f = srem i16 %e, %y
  ret i16 %f
}
;;; ATOM inst/fbinary-fastmath
define double @f(double %x, double %y) {
  %a = fadd double %x, %y
  %b = fsub nnan double %a, %y
  %c = fmul ninf nsz double %b, %y
  %d = fdiv arcp contract double %c, %y
  %e = frem afn reassoc double %d, %y
  %f = fadd fast double %e, 1.000000e+00
  %g = fadd nnan ninf nsz arcp contract afn reassoc double %f, %y
  ret double %g
}
;;; ATOM inst/fastmath-all-but-one
define double @f(double %x, double %y) {
  %s0 = fadd ninf nsz arcp contract afn reassoc double %x, %y
  %s1 = fadd nnan nsz arcp contract afn reassoc double %s0, %y
  %s2 = fadd nnan ninf arcp contract afn reassoc double %s1, %y
  %s3 = fadd nnan ninf nsz contract afn reassoc double %s2, %y
  %s4 = fadd nnan ninf nsz arcp afn reassoc double %s3, %y
  %s5 = fadd nnan ninf nsz arcp contract reassoc double %s4, %y
  %s6 = fadd nnan ninf nsz arcp contract afn double %s5, %y
  %n = fneg nnan ninf nsz arcp contract afn double %s6
  %c = fcmp nnan ninf nsz arcp contract afn olt double %n, %y
  %sel = select nnan ninf nsz arcp contract afn i1 %c, double %n, double %y
  %call = call nnan ninf nsz arcp contract afn double @f(double %sel, double %y)
  %five = fmul ninf nsz arcp contract afn double %call, %y
  ret double %five
}
;;; ATOM inst/bitwise
define i32 @f(i32 %x, i32 %y) {
  %a = shl i32 %x, %y
  %b = shl nuw i32 %a, 1
  %c = shl nsw i32 %b, 1
  %d = shl nuw nsw i32 %c, 1
  %e = lshr i32 %d, %y
  %f = lshr exact i32 %e, 2
  %g = ashr i32 %f, %y
  %h = ashr exact i32 %g, 2
  %i = and i32 %h, %y
  %j = or i32 %i, %y
  %k = xor i32 %j, -1
  ret i32 %k
}
;;; ATOM inst/vector-ops
define <4 x i32> @f(<4 x i32> %v, <4 x i32> %w, i32 %s, i32 %i) {
  %a = extractelement <4 x i32> %v, i32 %i
  %b = extractelement <4 x i32> %v, i64 2
  %c = insertelement <4 x i32> %w, i32 %a, i32 %i
  %d = insertelement <4 x i32> %c, i32 %b, i8 1
  %e = shufflevector <4 x i32> %d, <4 x i32> %w, <4 x i32> <i32 0, i32 5, i32 2, i32 7>
  %f = shufflevector <4 x i32> %e, <4 x i32> undef, <4 x i32> zeroinitializer
  %g = shufflevector <4 x i32> %f, <4 x i32> poison, <2 x i32> <i32 undef, i32 1>
  %h = shufflevector <2 x i32> %g, <2 x i32> %g, <4 x i32> <i32 0, i32 1, i32 2, i32 3>
  ret <4 x i32> %h
}
;;; ATOM inst/aggregate-ops
%T = type { i32, [2 x { i8, float }], <2 x i16> }
define float @f(%T %s, { i32, { i64, [3 x i8] } } %t) {
  %a = extractvalue %T %s, 0
  %b = extractvalue %T %s, 1, 1, 1
  %c = extractvalue { i32, { i64, [3 x i8] } } %t, 1, 1, 2
  %d = insertvalue %T %s, i32 %a, 0
  %e = insertvalue %T %d, float %b, 1, 0, 1
  %f = insertvalue { i32, { i64, [3 x i8] } } undef, i8 %c, 1, 1, 0
  %g = extractvalue %T %e, 1, 0, 1
  %h = extractvalue [2 x { i8, float }] [{ i8, float } { i8 1, float 2.0 }, { i8, float } zeroinitializer], 0, 1
  %i = fadd float %g, %h
  ret float %i
}
;;; ATOM inst/alloca
%T = type { i32, i8 }
define void @f(i32 %n) {
  %a = alloca i32
  %b = alloca i32, align 8
  %c = alloca i32, i32 %n
  %d = alloca i32, i64 4, align 16
  %e = alloca inalloca %T
  %f = alloca %T, addrspace(5)
  %g = alloca [4 x i8], i32 2, align 1, addrspace(5)
  %h = alloca swifterror i8*
  %i = alloca inalloca i8, i32 1, align 4
  ret void
}
;;; ATOM inst/load-store
define void @f(i32* %p, i32 addrspace(1)* %q, float* %r) {
  %a = load i32, i32* %p
  %b = load volatile i32, i32* %p, align 4
  %c = load atomic i32, i32* %p unordered, align 4
  %d = load atomic volatile i32, i32* %p monotonic, align 4
  %e = load atomic i32, i32* %p syncscope("singlethread") acquire, align 4
  %f = load atomic i32, i32* %p seq_cst, align 8
  %g = load i32, i32 addrspace(1)* %q, align 2
  %h = load atomic float, float* %r acquire, align 4
  store i32 %a, i32* %p
  store volatile i32 %b, i32* %p, align 4
  store atomic i32 %c, i32* %p unordered, align 4
  store atomic volatile i32 %d, i32* %p monotonic, align 4
  store atomic i32 %e, i32* %p syncscope("agent") release, align 4
  store atomic i32 %f, i32* %p seq_cst, align 4
  store i32 %g, i32 addrspace(1)* %q, align 1
  store atomic float %h, float* %r release, align 4
  ret void
}
;;; ATOM inst/fence
define void @f() {
  fence acquire
  fence release
  fence acq_rel
  fence seq_cst
  fence syncscope("singlethread") seq_cst
  fence syncscope("workgroup") acquire
  ret void
}
;;; ATOM inst/cmpxchg
define i1 @f(i32* %p, i32 %c, i32 %n, i8** %pp, i8* %x) {
  %a = cmpxchg i32* %p, i32 %c, i32 %n monotonic monotonic
  %b = cmpxchg weak i32* %p, i32 %c, i32 %n acquire monotonic, align 4
  %d = cmpxchg volatile i32* %p, i32 %c, i32 %n acq_rel acquire
  %e = cmpxchg weak volatile i32* %p, i32 %c, i32 %n syncscope("singlethread") seq_cst seq_cst, align 8
  %f = cmpxchg i8** %pp, i8* %x, i8* null release monotonic
  %g = extractvalue { i32, i1 } %e, 1
  %h = extractvalue { i8*, i1 } %f, 0
  ret i1 %g
}
;;; ATOM inst/atomicrmw
define void @f(i32* %p, i32 %v, float* %q, float %w, i8** %pp, i8* %x) {
  %a = atomicrmw xchg i32* %p, i32 %v monotonic
  %b = atomicrmw add i32* %p, i32 %v acquire
  %c = atomicrmw sub i32* %p, i32 %v release
  %d = atomicrmw and i32* %p, i32 %v acq_rel
  %e = atomicrmw nand i32* %p, i32 %v seq_cst
  %f = atomicrmw or i32* %p, i32 %v monotonic, align 4
  %g = atomicrmw xor i32* %p, i32 %v monotonic
  %h = atomicrmw max i32* %p, i32 %v monotonic
  %i = atomicrmw min i32* %p, i32 %v monotonic
  %j = atomicrmw umax i32* %p, i32 %v monotonic
  %k = atomicrmw umin i32* %p, i32 %v monotonic
  %l = atomicrmw volatile add i32* %p, i32 %v syncscope("singlethread") seq_cst, align 8
  %m = atomicrmw fadd float* %q, float %w monotonic
  %n = atomicrmw fsub float* %q, float %w seq_cst
  %o = atomicrmw xchg float* %q, float %w acquire
  ret void
}
;;; ATOM inst/gep
%T = type { i32, [4 x %U], <4 x i8> }
%U = type <{ i8, i64 }>
@g = global %T zeroinitializer
define void @f(%T* %p, i64 %i, <4 x %T*> %vp, <4 x i64> %vi, %T addrspace(3)* %q) {
  %a = getelementptr %T, %T* %p
  %b = getelementptr %T, %T* %p, i64 1
  %c = getelementptr inbounds %T, %T* %p, i64 %i, i32 0
  %d = getelementptr inbounds %T, %T* %p, i32 0, i32 1, i64 %i, i32 1
  %e = getelementptr %T, %T* %p, i8 0, i32 2, i16 3
  %f = getelementptr %T, <4 x %T*> %vp, i64 1
  %g = getelementptr %T, <4 x %T*> %vp, <4 x i64> %vi, i32 0
  %h = getelementptr %T, %T* %p, <4 x i64> %vi
  %j = getelementptr inbounds %T, %T addrspace(3)* %q, i64 0, i32 1, i32 2, i32 0
  %k = getelementptr %T, %T* @g, i32 0, i32 1
  %l = getelementptr i8, i8* null, i64 %i
  %m = getelementptr %T, %T* %p, <4 x i32> <i32 1, i32 1, i32 1, i32 1>, i32 1
  ret void
}
;;; ATOM inst/conversions-int
define void @f(i64 %x, i8 %y, <2 x i32> %v, i32* %p, <2 x i8*> %vp) {
  %a = trunc i64 %x to i32
  %b = trunc i64 %x to i1
  %c = zext i8 %y to i64
  %d = sext i8 %y to i17
  %e = trunc <2 x i32> %v to <2 x i8>
  %f = zext <2 x i32> %v to <2 x i64>
  %g = sext <2 x i32> %v to <2 x i128>
  %h = ptrtoint i32* %p to i64
  %i = ptrtoint <2 x i8*> %vp to <2 x i32>
  %j = inttoptr i64 %x to i8*
  %k = inttoptr <2 x i32> %v to <2 x float*>
  %l = bitcast i32* %p to i8*
  %m = bitcast <2 x i32> %v to i64
  %n = bitcast i64 %x to double
  %o = bitcast <2 x i32> %v to <4 x i16>
  %q = addrspacecast i32* %p to i32 addrspace(1)*
  %r = addrspacecast <2 x i8*> %vp to <2 x i8 addrspace(2)*>
  ret void
}
;;; ATOM inst/conversions-fp
define void @f(double %x, float %y, half %h, i32 %i, <2 x float> %v, <2 x i16> %w, fp128 %q, x86_fp80 %e, ppc_fp128 %pp) {
  %a = fptrunc double %x to float
  %b = fptrunc double %x to half
  %c = fpext float %y to double
  %d = fpext half %h to fp128
  %f = fptoui double %x to i32
  %g = fptosi float %y to i8
  %j = uitofp i32 %i to float
  %k = sitofp i32 %i to double
  %l = fptrunc <2 x float> %v to <2 x half>
  %m = fpext <2 x float> %v to <2 x double>
  %n = fptoui <2 x float> %v to <2 x i64>
  %o = fptosi <2 x float> %v to <2 x i1>
  %p = uitofp <2 x i16> %w to <2 x float>
  %r = sitofp <2 x i16> %w to <2 x double>
  %s = fptrunc fp128 %q to x86_fp80
  %t = fpext x86_fp80 %e to fp128
  %u = fptrunc ppc_fp128 %pp to double
  ret void
}
;;; ATOM inst/icmp
define void @f(i32 %x, i32 %y, <3 x i8> %v, <3 x i8> %w, i8* %p, i8* %q, <2 x i8*> %vp) {
  %a = icmp eq i32 %x, %y
  %b = icmp ne i32 %x, %y
  %c = icmp ugt i32 %x, %y
  %d = icmp uge i32 %x, %y
  %e = icmp ult i32 %x, %y
  %f = icmp ule i32 %x, %y
  %g = icmp sgt i32 %x, %y
  %h = icmp sge i32 %x, %y
  %i = icmp slt i32 %x, 0
  %j = icmp sle i32 %x, -1
  %k = icmp eq <3 x i8> %v, %w
  %l = icmp ult i8* %p, %q
  %m = icmp eq <2 x i8*> %vp, zeroinitializer
  %n = icmp eq i8* %p, null
  ret void
}
;;; ATOM inst/fcmp
define void @f(float %x, float %y, <2 x double> %v, <2 x double> %w) {
  %a = fcmp false float %x, %y
  %b = fcmp oeq float %x, %y
  %c = fcmp ogt float %x, %y
  %d = fcmp oge float %x, %y
  %e = fcmp olt float %x, %y
  %f = fcmp ole float %x, %y
  %g = fcmp one float %x, %y
  %h = fcmp ord float %x, %y
  %i = fcmp ueq float %x, %y
  %j = fcmp ugt float %x, %y
  %k = fcmp uge float %x, %y
  %l = fcmp ult float %x, %y
  %m = fcmp ule float %x, %y
  %n = fcmp une float %x, %y
  %o = fcmp uno float %x, %y
  %p = fcmp true float %x, %y
  %q = fcmp fast olt <2 x double> %v, %w
  %r = fcmp nnan ninf oeq float %x, 0.000000e+00
  ret void
}
;;; ATOM inst/phi-select
define i32 @f(i1 %c, i32 %x, i32 %y, <2 x i1> %vc, <2 x i32> %v, <2 x i32> %w, float %a, float %b) {
entry:
  %s = select i1 %c, i32 %x, i32 %y
  %t = select <2 x i1> %vc, <2 x i32> %v, <2 x i32> %w
  %u = select i1 %c, <2 x i32> %v, <2 x i32> %w
  %fs = select fast i1 %c, float %a, float %b
  %fn = select nnan nsz i1 %c, float %a, float %b
  br i1 %c, label %l1, label %l2
l1:
  br label %l3
l2:
  br label %l3
l3:
  %p = phi i32 [ %s, %l1 ], [ 7, %l2 ], [ %p, %l3 ]
  %pf = phi fast float [ %fs, %l1 ], [ %fn, %l2 ], [ %pf, %l3 ]
  %loop = phi i32 [ %p2, %l3 ], [ 0, %l1 ], [ 1, %l2 ]
  %p2 = add i32 %loop, 1
  %cc = icmp eq i32 %p2, %p
  br i1 %cc, label %l3, label %l4
l4:
  ret i32 %p
}
;;; ATOM inst/freeze
define i32 @f(i32 %x, <2 x i8*> %v, { i32, float } %s) {
  %a = freeze i32 %x
  %b = freeze <2 x i8*> %v
  %c = freeze { i32, float } %s
  %d = freeze i32 undef
  %e = freeze i32 poison
  ret i32 %a
}
;;; ATOM inst/call-basic
declare i32 @g(i32, ...)
declare void @v()
declare fastcc i8* @fc(i8* returned, i32 signext)
declare float @fl(float)
define i32 @f(i32 %x, i32 (i32)* %fp, i8* %p) {
  %a = call i32 (i32, ...) @g(i32 %x)
  %b = call i32 (i32, ...) @g(i32 %x, i32 1, double 2.0, i8* null)
  call void @v()
  %c = tail call i32 %fp(i32 %a)
  ret i32 %c
}
define i32 @mt(i32 %x, i32 (i32, i32 (i32)*)* %fp2, i32 (i32)* %fp) {
  ret i32 0
}
define i32 @mt2(i32 %x) {
  %d = musttail call i32 @mt3(i32 %x)
  ret i32 %d
}
declare i32 @mt3(i32)
define i8* @h(i8* %p) {
  %a = notail call fastcc i8* @fc(i8* %p, i32 signext 3)
  %b = call fastcc nonnull i8* @fc(i8* nonnull align 8 %a, i32 signext 0) nounwind readnone
  %c = call fast float @fl(float 1.0)
  %d = call nnan ninf float @fl(float %c) #0
  ret i8* %b
}
attributes #0 = { nounwind }
;;; ATOM inst/call-cc-addrspace
declare coldcc void @c1()
declare cc 10 void @c2()
declare x86_stdcallcc void @c3()
declare void @c4() addrspace(2)
define void @f() {
  call coldcc void @c1()
  call cc 10 void @c2()
  call x86_stdcallcc void @c3()
  call addrspace(2) void @c4()
  ret void
}
;;; ATOM inst/call-bundles
declare void @g(i32)
declare void @llvm.assume(i1)
define void @f(i32 %x, i8* %p) {
  call void @g(i32 %x) [ "foo"(i32 %x, i8* %p), "bar"() ]
  call void @g(i32 1) [ "deopt"(i32 %x) ]
  call void @llvm.assume(i1 true) [ "align"(i8* %p, i64 8), "nonnull"(i8* %p) ]
  ret void
}
;;; ATOM inst/call-inline-asm
define i32 @f(i32 %x) {
  %a = call i32 asm "bswap $0", "=r,0"(i32 %x)
  %b = call i32 asm sideeffect "nop", "=r,r,~{memory}"(i32 %a)
  call void asm sideeffect alignstack "", ""()
  call void asm inteldialect "nop", ""()
  call void asm sideeffect alignstack inteldialect "mov eax, eax", "~{eax}"()
  call void asm sideeffect unwind "call foo", ""()
  ret i32 %b
}
;;; ATOM inst/va_arg
declare void @llvm.va_start(i8*)
declare void @llvm.va_end(i8*)
define i32 @f(i32 %n, ...) {
  %ap = alloca i8*
  %ap2 = bitcast i8** %ap to i8*
  call void @llvm.va_start(i8* %ap2)
  %v = va_arg i8** %ap, i32
  %w = va_arg i8** %ap, double
  call void @llvm.va_end(i8* %ap2)
  ret i32 %v
}
;;; ATOM inst/landingpad
declare i32 @__gxx_personality_v0(...)
declare void @may_throw()
@_ZTIi = external constant i8*
define void @f() personality i8* bitcast (i32 (...)* @__gxx_personality_v0 to i8*) {
entry:
  invoke void @may_throw() to label %cont unwind label %lpad
cont:
  invoke void @may_throw() to label %cont2 unwind label %lpad2
cont2:
  invoke void @may_throw() to label %cont3 unwind label %lpad3
cont3:
  ret void
lpad:
  %a = landingpad { i8*, i32 } cleanup
  resume { i8*, i32 } %a
lpad2:
  %b = landingpad { i8*, i32 } catch i8* bitcast (i8** @_ZTIi to i8*) catch i8* null
  ret void
lpad3:
  %c = landingpad { i8*, i32 } cleanup catch i8* null filter [1 x i8*] [i8* bitcast (i8** @_ZTIi to i8*)] filter [0 x i8*] zeroinitializer
  ret void
}
;;; ATOM inst/funclets
declare i32 @__CxxFrameHandler3(...)
declare void @may_throw()
define void @f() personality i8* bitcast (i32 (...)* @__CxxFrameHandler3 to i8*) {
entry:
  invoke void @may_throw() to label %exit unwind label %dispatch
dispatch:
  %cs = catchswitch within none [label %handler, label %handler2] unwind label %cleanup
handler:
  %cp = catchpad within %cs [i8* null, i32 64, i8* null]
  call void @may_throw() [ "funclet"(token %cp) ]
  catchret from %cp to label %exit
handler2:
  %cp2 = catchpad within %cs []
  invoke void @may_throw() [ "funclet"(token %cp2) ] to label %h2cont unwind label %cleanup
h2cont:
  catchret from %cp2 to label %exit
cleanup:
  %cl = cleanuppad within none []
  call void @may_throw() [ "funclet"(token %cl) ]
  cleanupret from %cl unwind to caller
exit:
  ret void
}
define void @g() personality i8* bitcast (i32 (...)* @__CxxFrameHandler3 to i8*) {
entry:
  invoke void @may_throw() to label %exit unwind label %outer
outer:
  %cl = cleanuppad within none [i32 1, i8* null]
  invoke void @may_throw() [ "funclet"(token %cl) ] to label %cont unwind label %inner
cont:
  cleanupret from %cl unwind label %dispatch
inner:
  %cl2 = cleanuppad within %cl []
  cleanupret from %cl2 unwind label %dispatch
dispatch:
  %cs = catchswitch within none [label %handler] unwind to caller
handler:
  %cp = catchpad within %cs []
  catchret from %cp to label %exit
exit:
  ret void
}
;;; ATOM term/ret-br-switch
define i32 @f(i32 %x, i1 %c) {
entry:
  br i1 %c, label %a, label %b
a:
  switch i32 %x, label %d [
    i32 0, label %b
    i32 1, label %c1
    i32 -1, label %c1
  ]
b:
  br label %d
c1:
  switch i32 %x, label %d [ ]
d:
  ret i32 %x
}
define void @v() {
  ret void
}
define { i32, i8 } @s() {
  ret { i32, i8 } { i32 1, i8 2 }
}
;;; ATOM term/indirectbr
@tbl = constant [2 x i8*] [i8* blockaddress(@f, %a), i8* blockaddress(@f, %b)]
define i32 @f(i8* %p, i32 %i) {
entry:
  %g = getelementptr [2 x i8*], [2 x i8*]* @tbl, i32 0, i32 %i
  %t = load i8*, i8** %g
  indirectbr i8* %t, [label %a, label %b]
a:
  indirectbr i8* blockaddress(@f, %b), [label %b]
b:
  indirectbr i8* %p, []
}
;;; ATOM term/invoke
declare i32 @__gxx_personality_v0(...)
declare i32 @g(i32)
declare void @v()
declare fastcc zeroext i8 @fc(i8 signext)
define i32 @f(i32 %x, i32 (i32)* %fp) personality i32 (...)* @__gxx_personality_v0 {
entry:
  %a = invoke i32 @g(i32 %x) to label %c1 unwind label %lp
c1:
  invoke void @v() to label %c2 unwind label %lp
c2:
  %b = invoke i32 %fp(i32 %a) to label %c3 unwind label %lp
c3:
  %c = invoke fastcc zeroext i8 @fc(i8 signext 1) nounwind to label %c4 unwind label %lp
c4:
  %d = invoke i32 @g(i32 %b) [ "deopt"(i32 %x) ] to label %c5 unwind label %lp
c5:
  ret i32 %d
lp:
  %l = landingpad { i8*, i32 } cleanup
  resume { i8*, i32 } %l
}
;;; ATOM term/callbr
define i32 @f(i32 %x) {
entry:
  callbr void asm sideeffect "jmp ${0:l}", "X"(i8* blockaddress(@f, %two)) to label %one [label %two]
one:
  %a = callbr i32 asm "mov $0, $1; jmp ${2:l}", "=r,r,X"(i32 %x, i8* blockaddress(@f, %three)) to label %two [label %three]
two:
  ret i32 0
three:
  ret i32 1
}
;;; ATOM term/unreachable
declare void @abort() noreturn
define void @f() {
  call void @abort()
  unreachable
}
;;; ATOM inst/freeze-metadata
define i32 @f(i32 %x) {
  %a = freeze i32 %x, !tag !0
  ret i32 %a
}
!0 = !{}
;;; ATOM inst/gep-constexpr-index
@g = global [8 x i32] zeroinitializer
@h = global i32* getelementptr ([8 x i32], [8 x i32]* @g, i64 0, i64 add (i64 ptrtoint (i32* @x to i64), i64 1))
@x = global i32 0
define i32* @f(i32* %p) {
  %a = getelementptr i32, i32* %p, i64 add (i64 ptrtoint (i32* @x to i64), i64 5)
  %b = getelementptr [8 x i32], [8 x i32]* @g, i64 0, i64 sub (i64 0, i64 ptrtoint (i32* @x to i64))
  %c = getelementptr i32, i32* %a, i64 zext (i32 ptrtoint (i32* @x to i32) to i64)
  ret i32* %c
}
;;; ATOM inst/funclets-unnamed
declare i32 @__CxxFrameHandler3(...)
declare void @may_throw()
define void @f() personality i8* bitcast (i32 (...)* @__CxxFrameHandler3 to i8*) {
  invoke void @may_throw() to label %1 unwind label %2
1:
  ret void
2:
  %3 = catchswitch within none [label %4] unwind label %6
4:
  %5 = catchpad within %3 []
  catchret from %5 to label %1
6:
  %7 = cleanuppad within none []
  cleanupret from %7 unwind to caller
}
;;; ATOM inst/alloca-addrspace
define i32 @f(i32 %n) {
  %a = alloca i32, addrspace(5)
  %b = alloca [4 x i8], i32 %n, align 16, addrspace(5)
  %c = alloca inalloca { i32, i8 }, align 8, addrspace(1)
  store i32 1, i32 addrspace(5)* %a
  %p = getelementptr [4 x i8], [4 x i8] addrspace(5)* %b, i32 0, i32 1
  store i8 2, i8 addrspace(5)* %p
  %q = addrspacecast { i32, i8 } addrspace(1)* %c to { i32, i8 }*
  %v = load i32, i32 addrspace(5)* %a
  ret i32 %v
}
;;; ATOM term/repeated-targets
define i32 @f(i8* %p, i32 %x, i1 %c) {
entry:
  br i1 %c, label %a, label %a
a:
  switch i32 %x, label %b [
    i32 1, label %b
    i32 2, label %c1
    i32 3, label %b
    i32 4, label %c1
  ]
b:
  indirectbr i8* %p, [label %c1, label %d, label %c1, label %d, label %c1]
c1:
  callbr void asm sideeffect "", "X,X"(i8* blockaddress(@f, %d), i8* blockaddress(@f, %e)) to label %a [label %d, label %e]
d:
  ret i32 0
e:
  ret i32 1
}
;;; ATOM inst/call-addrspace-constexpr-callee
@g = addrspace(1) global i8 0
declare void @h() addrspace(1)
define void @f() personality i8* null {
  call addrspace(1) void bitcast (i8 addrspace(1)* @g to void () addrspace(1)*)()
  call addrspace(1) void @h()
  invoke addrspace(1) void bitcast (i8 addrspace(1)* @g to void () addrspace(1)*)() to label %ok unwind label %lp
ok:
  ret void
lp:
  %l = landingpad i32 cleanup
  ret void
}
;;; ATOM term/invoke-variadic
declare i32 @printf(i8*, ...)
declare void @vv(...)
define i32 @f(i8* %s, i32 (i8*, ...)* %fp) personality i8* null {
  %r = invoke i32 (i8*, ...) @printf(i8* %s, i32 1) to label %ok unwind label %lp
ok:
  invoke void (...) @vv(i32 %r) to label %ok2 unwind label %lp
ok2:
  %c = call i32 (i8*, ...) @printf(i8* %s)
  %e = invoke i32 (i8*, ...) %fp(i8* %s) to label %ok3 unwind label %lp
ok3:
  %d = add i32 %r, %c
  %d2 = add i32 %d, %e
  ret i32 %d2
lp:
  %l = landingpad i32 cleanup
  ret i32 0
}
;;; ATOM inst/blockaddress-number-like-block-names
@t = global [6 x i8*] [i8* blockaddress(@f, %"7"), i8* blockaddress(@f, %"007"), i8* blockaddress(@f, %"+7"), i8* blockaddress(@f, %"-0"), i8* blockaddress(@f, %"042"), i8* blockaddress(@f, %"42")]
define void @f(i8* %p) {
entry:
  indirectbr i8* %p, [label %"007", label %"7", label %"+7", label %"-0", label %"042", label %"42"]
"007":
  br label %"7"
"7":
  br label %"+7"
"+7":
  br label %"-0"
"-0":
  br label %"042"
"042":
  br label %"42"
"42":
  ret void
}
uselistorder_bb @f, %"7", { 2, 0, 1 }
;;; ATOM term/indirectbr-identical-lists
define void @f(i8* %p, i8* %q) {
entry:
  indirectbr i8* %p, [label %a, label %b]
a:
  indirectbr i8* %q, [label %a, label %b]
b:
  ret void
}
define void @g(i8* %p) {
entry:
  indirectbr i8* %p, [label %a, label %b]
a:
  br label %b
b:
  ret void
}
;;; ATOM inst/gep-struct-index-foldable-expression
%S = type { i32, { i8, i64 } }
@s = global { i32, i64 } zeroinitializer
@x = global i64* getelementptr ({ i32, i64 }, { i32, i64 }* @s, i32 0, i32 add (i32 0, i32 1))
define void @f(%S* %p) {
  %g1 = getelementptr %S, %S* %p, i32 0, i32 add (i32 0, i32 1)
  ret void
}
;;; ATOM inst/phi-repeated-incoming
define i32 @f(i32 %x, i32 %a, i32 %b) {
entry:
  switch i32 %x, label %other [
    i32 1, label %join
    i32 2, label %join
    i32 3, label %join
  ]
other:
  br label %join
join:
  %r = phi i32 [ %a, %entry ], [ %a, %entry ], [ %b, %other ], [ %a, %entry ]
  %s = phi i32 [ 7, %entry ], [ 7, %entry ], [ %x, %other ], [ 7, %entry ]
  %t = add i32 %r, %s
  ret i32 %t
}
;;; ATOM inst/alloca-addrspace-used-before-definition
target datalayout = "A5"
define i32 @f() {
entry:
  br label %body
exit:
  %v = load i32, i32 addrspace(5)* %a
  ret i32 %v
body:
  %a = alloca i32, align 4, addrspace(5)
  store i32 1, i32 addrspace(5)* %a
  br label %exit
}
define void @g(i1 %c) {
entry:
  %first = alloca i8, addrspace(5)
  br label %head
head:
  %p = phi i8 addrspace(5)* [ %first, %entry ], [ %next, %body ]
  store i8 0, i8 addrspace(5)* %p
  br i1 %c, label %body, label %done
body:
  %next = alloca i8, i32 4, addrspace(5)
  br label %head
done:
  ret void
}
;;; ATOM inst/call-bitcast-callee-other-return-type
declare i32 @f(i32)
declare i32 @v(...)
define void @g() {
  call void bitcast (i32 (i32)* @f to void (i32)*)(i32 1)
  %1 = call i64 bitcast (i32 (i32)* @f to i64 (i32)*)(i32 2)
  %2 = call i32 bitcast (i32 (...)* @v to i32 ()*)()
  %3 = call float bitcast (i8* bitcast (i32 (i32)* @f to i8*) to float (i32)*)(i32 3)
  %4 = add i64 %1, 1
  %5 = fadd float %3, 1.0
  ret void
}
;;; ATOM inst/alloca-count-one-of-other-types
define void @f() {
  %a = alloca i32, i64 1
  %b = alloca i8, i16 1, align 2
  %c = alloca i32, i32 1
  %d = alloca i32, i8 1, addrspace(0)
  %e = alloca i64, i64 2
  ret void
}
;;; ATOM inst/call-through-named-variadic-function-type
%log_t = type void (i8*, ...)
%printf_t = type i32 (i8*, ...)
@fp = global %printf_t* null
@fmt = constant [4 x i8] c"%d\0A\00"
define i32 @main(i32 %argc) {
  %1 = load %printf_t*, %printf_t** @fp
  %2 = getelementptr [4 x i8], [4 x i8]* @fmt, i64 0, i64 0
  %3 = call i32 (i8*, ...) %1(i8* %2, i32 %argc)
  ret i32 %3
}
define i32 @g(%log_t* %log, i8* %msg) {
  call void (i8*, ...) %log(i8* %msg, i32 1)
  %1 = add i32 1, 2
  call void (i8*, ...) %log(i8* %msg)
  ret i32 %1
}
;;; ATOM inst/gep-struct-index-literal-beyond-32-bits
@g = global { i32, i64 } zeroinitializer
@p = global i64* getelementptr ({ i32, i64 }, { i32, i64 }* @g, i32 0, i32 4294967297)
define i64* @f({ i32, i64 }* %p) {
  %q = getelementptr { i32, i64 }, { i32, i64 }* %p, i32 0, i32 4294967297
  ret i64* %q
}
;;; ATOM inst/gep-struct-index-vector-literals-beyond-32-bits
define <2 x i64*> @v(<2 x { i32, i64 }*> %p) {
  %q = getelementptr { i32, i64 }, <2 x { i32, i64 }*> %p, <2 x i32> zeroinitializer, <2 x i32> <i32 8589934593, i32 1>
  ret <2 x i64*> %q
}
;;; ATOM inst/musttail-varargs-forwarding
%struct.A = type { i32 (...)** }

declare void @target(%struct.A*, ...)

define void @thunk(%struct.A* %this, ...) {
entry:
  %0 = bitcast %struct.A* %this to void (%struct.A*, ...)***
  %vtable = load void (%struct.A*, ...)**, void (%struct.A*, ...)*** %0
  %1 = load void (%struct.A*, ...)*, void (%struct.A*, ...)** %vtable
  musttail call void (%struct.A*, ...) %1(%struct.A* %this, ...)
  ret void
}

define void @direct(%struct.A* %this, ...) {
  musttail call void (%struct.A*, ...) @target(%struct.A* %this, ...)
  ret void
}

define void @plain_musttail(i32 %x) {
  musttail call void @plain_musttail(i32 %x)
  ret void
}
;;; ATOM inst/call-returning-function-pointer-short-form
declare void ()* @getfp()
declare i32 (i8*, ...)* @getvar(i32)
declare void ()* ()* @getgetfp()

define void @caller() personality i8* null {
entry:
  %0 = call void ()* @getfp()
  call void %0()
  %1 = call i32 (i8*, ...)* @getvar(i32 1)
  %2 = call i32 (i8*, ...) %1(i8* null, i32 3)
  %3 = call void ()* ()* @getgetfp()
  %4 = call void ()* %3()
  %5 = call void ()* @getfp()
  %6 = invoke void ()* @getfp() to label %ok unwind label %lp
ok:
  call void %6()
  ret void
lp:
  %7 = landingpad { i8*, i32 } cleanup
  ret void
}
;;; ATOM inst/aggregate-index-leading-zeros
%T = type { i1, i8, i16, i32, i64, half, float, double, i16, fp128, float, i8*, <2 x i8> }

define float @f(%T %x, [12 x %T]* %p) {
  %a = extractvalue %T %x, 010
  %b = extractvalue %T %x, 08
  %c = insertvalue %T %x, float %a, 010
  %d = insertvalue %T %c, i16 %b, 0008
  %e = extractvalue [12 x %T] undef, 011, 010
  %g = getelementptr [12 x %T], [12 x %T]* %p, i32 00, i32 011, i32 010
  %h = load float, float* %g
  %s = fadd float %a, %e
  %t = fadd float %s, %h
  ret float %t
}
;;; ATOM inst/gep-into-vector
@v = global <4 x i32> zeroinitializer
@w = global { i8, <8 x float> } zeroinitializer
@p0 = global i32* getelementptr (<4 x i32>, <4 x i32>* @v, i64 0, i64 1)
@p1 = global float* getelementptr ({ i8, <8 x float> }, { i8, <8 x float> }* @w, i64 0, i32 1, i64 7)

define i32 @f(<4 x i32>* %q, { i8, <8 x float> }* %r) {
  %a = getelementptr <4 x i32>, <4 x i32>* %q, i64 0, i64 2
  %b = getelementptr { i8, <8 x float> }, { i8, <8 x float> }* %r, i64 0, i32 1, i64 3
  %c = getelementptr <4 x i32>, <4 x i32>* %q, i64 1, i64 3
  %x = load i32, i32* %a
  %y = load float, float* %b
  %z = load i32, i32* %c
  %s = add i32 %x, %z
  ret i32 %s
}
;;; ATOM term/invoke-and-callbr-with-label-arguments
declare void @g(label)
declare i32 @h(label, i32, label)

define i32 @f(i32 %x) personality i8* null {
entry:
  invoke void @g(label %other) to label %cont unwind label %lpad
cont:
  %r = invoke i32 @h(label %other, i32 %x, label %cont) to label %other unwind label %lpad
other:
  ret i32 0
lpad:
  %l = landingpad { i8*, i32 } cleanup
  ret i32 1
}
