;;; ATOM func/linkage-visibility
define private void @a() {
  ret void
}
define internal void @b() {
  ret void
}
define available_externally void @c() {
  ret void
}
define linkonce void @d() {
  ret void
}
define weak void @e() {
  ret void
}
define linkonce_odr hidden void @f() {
  ret void
}
define weak_odr protected void @g() {
  ret void
}
declare extern_weak void @h()
declare external void @i()
define dso_local void @j() {
  ret void
}
define dso_preemptable default void @k() {
  ret void
}
declare dllimport void @l()
define dllexport void @m() {
  ret void
}
define void @n() unnamed_addr {
  ret void
}
define void @o() local_unnamed_addr {
  ret void
}
;;; ATOM func/callingconv
declare ccc void @a()
declare fastcc void @b()
declare coldcc void @c()
declare cc 10 void @d()
declare webkit_jscc void @e()
declare anyregcc void @f()
declare preserve_mostcc void @g()
declare preserve_allcc void @h()
declare cxx_fast_tlscc void @i()
declare swiftcc void @j()
declare tailcc void @k()
declare cfguard_checkcc void @l()
declare x86_stdcallcc void @m()
declare x86_fastcallcc void @n()
declare arm_apcscc void @o()
declare arm_aapcscc void @p()
declare arm_aapcs_vfpcc void @q()
declare msp430_intrcc void @r()
declare x86_thiscallcc void @s()
declare ptx_kernel void @t()
declare ptx_device void @u()
declare spir_func void @v()
declare spir_kernel void @w()
declare intel_ocl_bicc void @x()
declare x86_64_sysvcc void @y()
declare win64cc void @z()
declare x86_vectorcallcc void @aa()
declare hhvmcc void @ab()
declare hhvm_ccc void @ac()
declare x86_intrcc void @ad()
declare avr_intrcc void @ae()
declare avr_signalcc void @af()
declare amdgpu_vs void @ag()
declare amdgpu_gs void @ah()
declare amdgpu_ps void @ai()
declare amdgpu_cs void @aj()
declare amdgpu_kernel void @ak()
declare x86_regcallcc void @al()
declare amdgpu_hs void @am()
declare amdgpu_ls void @an()
declare amdgpu_es void @ao()
declare aarch64_vector_pcs void @ap()
declare aarch64_sve_vector_pcs void @aq()
declare amdgpu_gfx void @ar()
declare swifttailcc void @as()
declare cc 1023 void @at()
declare cc 200 void @au()
;;; ATOM func/attrs-enum
declare void @a() alwaysinline
declare void @b() argmemonly cold convergent
declare void @c() unnamed_addr inaccessiblememonly inaccessiblemem_or_argmemonly inlinehint jumptable
declare void @d() minsize naked nobuiltin noduplicate nofree noimplicitfloat noinline nonlazybind
declare void @e() nomerge norecurse noredzone noreturn nosync nounwind null_pointer_is_valid
declare void @f() optforfuzzing optnone readnone noinline
declare void @f2() optsize
declare void @g() readonly returns_twice safestack sanitize_address sanitize_hwaddress sanitize_memory sanitize_thread sanitize_memtag
declare void @h() speculatable speculative_load_hardening ssp sspreq sspstrong strictfp uwtable willreturn writeonly
declare void @i() nocallback nocf_check shadowcallstack mustprogress hot nosanitize_coverage noprofile disable_sanitizer_instrumentation
declare void @j() "string-attr" "key"="value" "k\22q"="v\5Cb"
declare void @k(i32) alignstack(16) allocsize(0) "x"
declare i8* @l(i32, i32) allocsize(0, 1)
declare void @m() vscale_range(1,16)
declare void @n() vscale_range(4,4)
declare void @o() #0 #1
define void @p() #1 align 32 {
  ret void
}
attributes #0 = { nounwind readnone "a"="b" }
attributes #1 = { alignstack=8 "c" uwtable }
;;; ATOM func/param-attrs
%S = type { i32, i64 }
declare void @a(i8 zeroext, i8 signext, i32 inreg, i8* noalias nocapture, i8* nonnull readonly)
declare void @b(%S* byval(%S) align 8, %S* sret(%S), i8* nest)
declare i8* @c(i8* returned, i8* swiftself, i8** swifterror)
declare void @d(i8* dereferenceable(8), i8* dereferenceable_or_null(16), i8* align 4)
declare void @e(i8* writeonly, i8* readnone, i8* nofree, i8* noundef)
declare void @llvm.memcpy.p0i8.p0i8.i64(i8* noalias nocapture writeonly, i8* noalias nocapture readonly, i64, i1 immarg)
declare void @f(%S* inalloca(%S))
declare void @g(%S* preallocated(%S))
declare void @h(%S* byref(%S))
declare void @i(i8* "strattr", i8* "k"="v" noalias)
declare void @k(i8* swiftasync)
define void @l(i32 %x, i8* noalias %p, i32 zeroext %y, ...) {
  ret void
}
define void @m(i32, i8* noalias, i32 signext %named) {
  ret void
}
;;; ATOM func/return-attrs
declare zeroext i8 @a()
declare signext i8 @b()
declare inreg i32 @c()
declare noalias i8* @d()
declare nonnull i8* @e()
declare dereferenceable(4) i8* @f()
declare dereferenceable_or_null(4) i8* @g()
declare noundef i32 @i()
define internal fastcc noundef zeroext i8 @l() unnamed_addr {
  ret i8 0
}
;;; ATOM func/extras
declare i32 @pers(...)
$cd = comdat any
define void @a() section "text.a" {
  ret void
}
define void @b() partition "p1" {
  ret void
}
define void @c() align 16 {
  ret void
}
define void @d() gc "shadow-stack" {
  ret void
}
define void @e() prefix i32 123 {
  ret void
}
define void @f() prologue i8 -112 {
  ret void
}
define void @g() personality i32 (...)* @pers {
  ret void
}
define void @h() addrspace(1) {
  ret void
}
declare void @i() addrspace(2)
define weak_odr dso_local hidden fastcc noalias i8* @j(i8* nocapture %p) local_unnamed_addr addrspace(0) nounwind "k"="v" section "s" partition "q" comdat($cd) align 64 gc "statepoint-example" prefix i64 1 prologue i64 2 personality i32 (...)* @pers !foo !0 {
  ret i8* null
}
declare !foo !0 !bar !1 void @k()
!0 = !{}
!1 = !{!"x"}
;;; ATOM func/unnamed-locals
define i32 @f(i32, i32 %named, i32) {
  %3 = add i32 %0, %named
  %x = add i32 %3, %1
  br label %4
4:
  %5 = add i32 %x, 1
  call void @v()
  %6 = call i32 @g()
  store i32 %6, i32* null
  fence seq_cst
  br label %named.block
named.block:
  %7 = add i32 %6, %5
  ret i32 %7
}
define i32 @h(i32, i32) {
  %3 = add i32 %0, %1
  ret i32 %3
}
declare void @v()
declare i32 @g()
;;; ATOM func/unnamed-implicit
define i32 @f(i32, i32) {
  add i32 %0, %1
  add i32 %3, 1
  br label %5
  add i32 %4, 2
  ret i32 %6
}
;;; ATOM func/unnamed-invoke-callbr
declare i32 @pers(...)
declare void @v()
declare i32 @g()
define i32 @f() personality i32 (...)* @pers {
  invoke void @v() to label %1 unwind label %4
1:
  %2 = invoke i32 @g() to label %3 unwind label %4
3:
  ret i32 %2
4:
  %5 = landingpad { i8*, i32 } cleanup
  callbr void asm "", "X"(i8* blockaddress(@f, %7)) to label %6 [label %7]
6:
  br label %7
7:
  %8 = callbr i32 asm "", "=r,X"(i8* blockaddress(@f, %10)) to label %9 [label %10]
9:
  ret i32 %8
10:
  ret i32 0
}
;;; ATOM func/local-names
define void @f(i32 %"quoted name", i32 %"a\22b", i32 %a.b, i32 %"43", i32 %-x) {
"quoted label":
  %"x y" = add i32 %"quoted name", %"a\22b"
  %"7" = add i32 %"43", %a.b
  br label %"42"
"42":
  br label %"l\5C"
"l\5C":
  ret void
}
;;; ATOM func/return-align
declare align 8 i8* @h()
;;; ATOM func/return-attr-string
declare "retattr" i32 @j()
;;; ATOM func/return-attr-pair
declare "k"="v" noalias nonnull i8* @k()
;;; ATOM func/strings-with-escapes
$"c\09d" = comdat any
@g = global i32 0, section "s\09e\0Ac\7F\FFt", partition "p\01q", comdat($"c\09d")
@h = global [5 x i8] c"a\09\22\5C\00"
define void @f() section "a\09b\0A\7F\FF" partition "p\09q" gc "g\09c" {
  ret void
}
declare void @d() "k\09ey"="v\0Aal" "k2\FF" section "x\22y\5Cz"
define void @"n\09m"(i32 "p\09k"="p\22v" %a) {
  call void asm sideeffect "nop\09\0A", "~{dirflag}\09"()
  ret void
}
!named.x = !{!0}
!0 = !{!"m\09d\22\5C\00\FF"}
;;; ATOM func/attrgroup-defined-twice
@g = global i32 0 #0
declare void @d() #0
define void @f() #0 {
  call void @d() #0
  ret void
}
attributes #0 = { nounwind }
attributes #0 = { readnone "k"="v" }
attributes #0 = { nounwind }
;;; ATOM func/attrgroup-respelled-duplicates
declare void @f() #0
declare void @g() #1
attributes #0 = { "a" "\61" "k"="v" "\6b"="\76" nounwind }
attributes #1 = { alignstack=8 alignstack = 8 "x" }
;;; ATOM func/declaration-params-named-then-unnamed
declare void @f(i32 %x, i32, i32)
declare void @g(i32 %a, i32)
declare void @h(i32, i32 %b, i32, i32 %c, i32)
define void @k(i32 %x, i32, i32) {
  ret void
}
;;; ATOM func/attrgroup-colliding-spellings
declare void @f() #0
declare void @g() #1
declare void @h() #2
attributes #0 = { noreturn "noreturn" nounwind "nounwind" }
attributes #1 = { "a=b" "a"="b" }
attributes #2 = { "k=x"="y" "k"="x=y" }
;;; ATOM func/empty-quoted-names
%"" = type { i32 }
@"" = global %"" zeroinitializer
define void @f(i32 %"") {
"":
  ret void
}
define i32 @h(i32 %"") {
"":
  %"" = add i32 %0, 1
  br label %3
3:
  ret i32 %2
}
;;; ATOM func/attrgroup-undefined-use
declare void @d() #3
define void @f() #0 {
  call void @d() #7
  ret void
}
attributes #3 = { nounwind }
;;; ATOM func/allocsize-second-index-zero
declare i8* @a(i32, i32) allocsize(1, 0)
declare i8* @b(i32, i32) allocsize(0)
declare i8* @c(i32, i32) allocsize(0, 1) #0
define i8* @f(i32 %n) {
  %p = call i8* @a(i32 %n, i32 %n) allocsize(1, 0)
  ret i8* %p
}
attributes #0 = { allocsize(1, 0) }
;;; ATOM func/attrgroup-undefined-used-twice
@g = global i32 0 #7
declare void @d() #7
define void @f() #7 {
  call void @d() #7
  call void @d() #7
  ret void
}
;;; ATOM func/declaration-params-named-then-numbered
declare void @f(i32 %x, i32 %0, i32 %1)
declare void @g(i32 %0, i32 %y, i32 %1, i32 %z, i32 %2)
define i32 @h(i32 %a, i32 %0, i32 %b, i32 %1) {
  %3 = add i32 %0, %1
  ret i32 %3
}
;;; ATOM func/uselistorder-of-blockaddress-in-function
define i8* @f(i1 %c) {
entry:
  br i1 %c, label %bb, label %bb2
bb:
  ret i8* blockaddress(@f, %bb)
bb2:
  %p = select i1 %c, i8* blockaddress(@f, %bb), i8* null
  ret i8* %p
  uselistorder i8* blockaddress(@f, %bb), { 1, 0 }
}
;;; ATOM func/attrgroup-one-key-several-values
define void @f() #0 {
  ret void
}
define void @g() "frame-pointer"="all" "frame-pointer"="none" "k" "k"="v" {
  ret void
}
attributes #0 = { "frame-pointer"="all" nounwind "frame-pointer"="none" "k" "k"="v" "z"="1" "z" }
;;; ATOM func/attrgroup-alignments
define void @f() #0 {
  ret void
}
define void @g() #1 {
  ret void
}
declare void @h() #2
attributes #0 = { nounwind align=16 alignstack=8 }
attributes #1 = { alignstack=4 }
attributes #2 = { align=1 "a" }
;;; ATOM func/named-parameters-among-numbered-ones-used-by-number
define i32 @f(i32 %a, i32, i32) {
  %r = sub i32 %0, %1
  %s = sub i32 %r, %a
  ret i32 %s
}
define i32 @g(i32, i32 %b, i32, i32 %d, i32) {
  %4 = sub i32 %1, %2
  %5 = sub i32 %4, %0
  %6 = sub i32 %5, %b
  ret i32 %6
}
