;;; ATOM type/recursive
%list = type { i32, %list* }
%a = type { %b*, i8 }
%b = type { %a*, [2 x %a] }
%self = type { %self*, %self (%self*)* }
@x = global %list zeroinitializer
@y = global %a zeroinitializer
@z = global %self* null
;;; ATOM type/opaque
%op = type opaque
%later = type opaque
%later2 = type { i32 }
@x = external global %op
@p = global %op* null
@q = global %later* null
declare void @f(%op*, %later2)
;;; ATOM type/packed-literal
%p = type <{ i8, i32, <{ i16, i64 }> }>
%e = type {}
%pe = type <{}>
@a = global %p zeroinitializer
@b = global <{ i8, { i8, i32 } }> zeroinitializer
@c = global { <{ i8, i32 }>, %e, %pe } zeroinitializer
;;; ATOM type/vectors
@a = global <1 x i1> zeroinitializer
@b = global <16 x i8> zeroinitializer
@c = global <3 x float*> zeroinitializer
@d = global <2 x i64 addrspace(4)*> zeroinitializer
@e = global <8 x half> zeroinitializer
define <vscale x 4 x i32> @f(<vscale x 4 x i32> %v, <vscale x 2 x double> %w, <vscale x 16 x i1> %m, <vscale x 2 x i8*> %p) {
  %a = add <vscale x 4 x i32> %v, %v
  %b = fmul <vscale x 2 x double> %w, zeroinitializer
  ret <vscale x 4 x i32> %a
}
;;; ATOM type/scalable-ops
define void @f(<vscale x 4 x i32> %v, <vscale x 4 x i32> %w, <vscale x 4 x float> %x, <vscale x 2 x i8*> %p, i32 %s) {
  %ext = extractelement <vscale x 4 x i32> %v, i32 0
  %ins = insertelement <vscale x 4 x i32> undef, i32 %s, i32 0
  %splat = shufflevector <vscale x 4 x i32> %ins, <vscale x 4 x i32> undef, <vscale x 4 x i32> zeroinitializer
  %sel = select <vscale x 4 x i1> zeroinitializer, <vscale x 4 x i32> %v, <vscale x 4 x i32> %w
  %tr = trunc <vscale x 4 x i32> %v to <vscale x 4 x i8>
  %fp = sitofp <vscale x 4 x i32> %v to <vscale x 4 x float>
  %bc = bitcast <vscale x 4 x float> %x to <vscale x 4 x i32>
  %pi = ptrtoint <vscale x 2 x i8*> %p to <vscale x 2 x i64>
  %fr = freeze <vscale x 4 x i32> %v
  ret void
}
;;; ATOM type/scalable-cmp
define <vscale x 4 x i1> @f(<vscale x 4 x i32> %v, <vscale x 4 x i32> %w) {
  %c = icmp eq <vscale x 4 x i32> %v, %w
  ret <vscale x 4 x i1> %c
}
;;; ATOM type/scalable-fcmp
define <vscale x 2 x i1> @f(<vscale x 2 x double> %v, <vscale x 2 x double> %w) {
  %c = fcmp olt <vscale x 2 x double> %v, %w
  ret <vscale x 2 x i1> %c
}
;;; ATOM type/scalable-gep
define <vscale x 2 x i32*> @f(<vscale x 2 x i32*> %p, <vscale x 2 x i64> %i, i32* %q) {
  %a = getelementptr i32, <vscale x 2 x i32*> %p, i64 1
  %b = getelementptr i32, i32* %q, <vscale x 2 x i64> %i
  ret <vscale x 2 x i32*> %a
}
;;; ATOM type/scalable-shuffle
define <vscale x 8 x i16> @f(<vscale x 4 x i16> %v) {
  %s = shufflevector <vscale x 4 x i16> %v, <vscale x 4 x i16> undef, <vscale x 8 x i32> zeroinitializer
  ret <vscale x 8 x i16> %s
}
;;; ATOM type/arrays
@a = global [0 x i8] zeroinitializer
@b = global [3 x [4 x [5 x i16]]] zeroinitializer
@c = global [2 x { i8, [2 x <2 x i8>] }] zeroinitializer
@d = global [1 x i8 (i8)*] zeroinitializer
;;; ATOM type/pointers-addrspace
@a = global i8* null
@b = global i8** null
@c = global i8 addrspace(1)* null
@d = global i8 addrspace(1)* addrspace(2)* null
@e = addrspace(3) global i8 addrspace(4)* null
@f = global void ()* null
@g = global i32 (i8*, ...)* null
@h = global void () addrspace(5)* null
@i = global [2 x i8]* null
@j = global <2 x i8>* null
@k = global { i8 }* null
;;; ATOM type/func-types
%cb = type void (i8*)
%vcb = type i32 (i8*, ...)
@a = global %cb* null
@b = global %vcb* null
@c = global void (void ()*, i32 (i32 (i32)*)*)* null
@d = global { i8, i32 } (<2 x i8>, [2 x i8], { i8 })* null
@e = global void (...)* null
declare void @f(%cb*, %vcb*)
;;; ATOM type/float-kinds
@a = global half 0xH0000
@b = global float 0.0
@c = global double 0.0
@d = global x86_fp80 0xK00000000000000000000
@e = global fp128 0xL00000000000000000000000000000000
@f = global ppc_fp128 0xM00000000000000000000000000000000
;;; ATOM type/special
declare void @llvm.dbg.value(metadata, metadata, metadata)
declare x86_mmx @mmx(x86_mmx)
declare token @llvm.call.preallocated.setup(i32)
define void @f(x86_mmx %x) {
  %r = call x86_mmx @mmx(x86_mmx %x)
  %t = call token @llvm.call.preallocated.setup(i32 0)
  ret void
}
;;; ATOM type/int-widths
@a = global i1 0
@b = global i2 1
@c = global i7 -1
@d = global i24 8388607
@e = global i48 0
@f = global i96 0
@g = global i256 1
@h = global i1024 -1
@i = global i8388607 0
;;; ATOM type/named-nonstruct
%i = type i32
%fp = type float
%arr = type [4 x i8]
%vec = type <2 x i16>
%ptr = type i8*
%fn = type i32 (i32)
@a = global %i 1
@b = global %fp 1.0
@c = global %arr zeroinitializer
@d = global %vec zeroinitializer
@e = global %ptr null
@f = global %fn* null
;;; ATOM type/numeric-names
%0 = type { i32 }
%1 = type { %0*, %1* }
%"2" = type { i8 }
%"quoted name" = type { i64 }
%"007" = type { float }
@a = global %0 zeroinitializer
@b = global %1 zeroinitializer
@c = global %"2" zeroinitializer
@e = global %"quoted name" zeroinitializer
@f = global %"007" zeroinitializer
;;; ATOM types/alias-of-scalar-chain
%b = type i32
%a = type %b
%v = type <2 x %a>
@g = global %a 0
@h = global %b 1
@i = global %v <i32 1, i32 2>
;;; ATOM types/alias-of-struct-unused
%a = type %b
%b = type { i32, %b* }
@h = global %b zeroinitializer
;;; ATOM types/named-vector-types
%FV = type <2 x i64>
%SV = type <vscale x 2 x i64>
%P = type <2 x i8*>
@g = global %FV <i64 1, i64 2>
@p = global %P zeroinitializer
define %SV @f(%SV %x, i32* %b, %FV %i) {
  %a = add %SV %x, zeroinitializer
  %q = getelementptr i32, i32* %b, %FV %i
  %r = getelementptr i32, i32* %b, %SV %x
  %s = getelementptr i32, i32* %b, %FV zeroinitializer
  %t = shufflevector %FV %i, %FV %i, <4 x i32> <i32 0, i32 1, i32 2, i32 3>
  %u = extractelement <4 x i64> %t, i32 0
  %v = shufflevector %SV %x, %SV %x, <vscale x 4 x i32> zeroinitializer
  %w = insertelement <vscale x 4 x i64> %v, i64 %u, i32 0
  ret %SV %a
}
;;; ATOM types/quoted-digit-names-with-zeros-and-signs
%"007" = type { i32 }
%"7" = type { i64 }
%"+7" = type { i8 }
%"-7" = type { i16 }
%7 = type { float }
%pair = type { %"007", %"7", %"+7"*, %"-7", %7 }
@a = global %"007" zeroinitializer
@b = global %"7" zeroinitializer
@c = global %"+7" zeroinitializer
@d = global %pair zeroinitializer
declare void @f(%"007"*, %"7"*, %"-7"*, %7*)
;;; ATOM types/quoted-digit-names-leading-zeros
%"007" = type { i32 }
%"7" = type { i64 }
%"0" = type { i8 }
%"00" = type { i16 }
%pair = type { %"007", %"7", %"0"*, %"00" }
@a = global %"007" zeroinitializer
@b = global %"7" zeroinitializer
@c = global %"00" zeroinitializer
declare void @f(%"007"*, %"7"*, %"0"*)
;;; ATOM types/named-i1-bool-literals
%bool = type i1
@a = global %bool true
@b = global %bool false
@c = global [2 x %bool] [%bool true, %bool false]
define %bool @f(%bool %x) {
  %y = xor %bool %x, true
  %z = select %bool %y, %bool true, %bool false
  ret %bool %z
}
;;; ATOM types/after-named-bool-plain-i1
@a = global i1 true
@b = global i1 false
define i1 @f(i1 %x) {
  %y = xor i1 %x, true
  ret i1 %y
}
;;; ATOM types/alias-before-other-type
%z = type i32
%m = type { i8 }
%a = type %z
%k = type { %a, %m }
@g = global %a 0
@h = global %m zeroinitializer
@i = global %k zeroinitializer
;;; ATOM types/named-pointer-types
%arrptr = type [4 x i32] addrspace(3)*
%ip = type i32*
%fnp = type void (i32)*
@g = global i32 0
@p = global %ip @g
define i32 @f(%arrptr %p, %ip %q, %fnp %h) {
  %e = getelementptr [4 x i32], %arrptr %p, i64 0, i64 1
  %v = load i32, i32 addrspace(3)* %e
  %w = load i32, %ip %q
  %s = getelementptr i32, %ip %q, i64 1
  store i32 %v, i32* %s
  call void %h(i32 %w)
  ret i32 %v
}
;;; ATOM types/named-pointer-constants
%T = type i32*
@g = global i32 0
@a = global [2 x i32*] [%T @g, i32* @g]
@b = global { %T, i32* } { i32* @g, %T @g }
@c = global i1 icmp eq (%T @g, i32* null)
@d = global %T getelementptr (i32, %T @g, i64 1)
@e = global i32* select (i1 true, %T @g, i32* null)
define %T @f(i1 %c, %T %p, i32* %q) {
  br i1 %c, label %x, label %y
x:
  br label %y
y:
  %r = phi i32* [ %p, %x ], [ %q, %0 ]
  %s = select i1 %c, %T %p, i32* %q
  ret i32* %s
}
;;; ATOM types/named-pointer-store-value
%T = type i32*
define void @f(%T %p, i32** %pp) {
  store %T %p, i32** %pp
  ret void
}
;;; ATOM types/names-with-numbers-beyond-64-bits
%struct.anon.18446744073709551616 = type { i8 }
%struct.anon.18446744073709551617 = type { i16 }
%struct.anon.18446744073709551618 = type { i32 }
%struct.anon.18446744073709551619 = type { i64 }
%struct.anon.36893488147419103232 = type { i8, i8 }
%struct.anon.36893488147419103231 = type { i8, i16 }
%struct.anon.99999999999999999999999 = type { i8, i32 }
%struct.anon.100000000000000000000000 = type { i8, i64 }
$c.18446744073709551620 = comdat any
$c.18446744073709551619 = comdat any
$c.18446744073709551618 = comdat any
$c.18446744073709551617 = comdat any
@a = global %struct.anon.18446744073709551616 zeroinitializer, comdat($c.18446744073709551617)
@b = global %struct.anon.18446744073709551617 zeroinitializer, comdat($c.18446744073709551618)
@c = global %struct.anon.18446744073709551618 zeroinitializer, comdat($c.18446744073709551619)
@d = global %struct.anon.18446744073709551619 zeroinitializer, comdat($c.18446744073709551620)
@e = global { %struct.anon.36893488147419103232, %struct.anon.36893488147419103231, %struct.anon.99999999999999999999999, %struct.anon.100000000000000000000000 } zeroinitializer
!n.18446744073709551619 = !{!0}
!n.18446744073709551618 = !{!0}
!n.18446744073709551617 = !{!0}
!n.18446744073709551616 = !{!0}
!0 = !{}
;;; ATOM types/named-i1-branch-condition
%bool = type i1
define void @f(%bool %c, %bool* %p) {
entry:
  br i1 %c, label %a, label %b
a:
  %l = load %bool, %bool* %p
  br i1 %l, label %b, label %a
b:
  %s = select %bool %c, i32 1, i32 2
  ret void
}
;;; ATOM types/alias-chain-of-vector-types-compared
%V = type <4 x i32>
%A = type %V
%SV = type <vscale x 2 x float>
%SA = type %SV
%PV = type <2 x i8*>
%PA = type %PV
define <4 x i1> @f(%A %a, %A %b, %SA %x, %SA %y, %PA %p, %PA %q) {
  %c = icmp slt %A %a, %b
  %d = fcmp olt %SA %x, %y
  %e = icmp eq %PA %p, %q
  %s = select <vscale x 2 x i1> %d, %SA %x, %SA %y
  %t = select <2 x i1> %e, %PA %p, %PA %q
  ret <4 x i1> %c
}
;;; ATOM types/alias-chain-of-vector-types-compared-unused
%V = type <4 x i32>
%A = type %V
%B = type %A
%SV = type <vscale x 2 x float>
%SA = type %SV
define void @f(%A %a, %B %b, %SA %x, %SA %y) {
  %c = icmp slt %A %a, %a
  %d = icmp ugt %B %b, %b
  %e = fcmp olt %SA %x, %y
  ret void
}
;;; ATOM types/named-array-types-in-front-of-string-and-empty-array-constants
%S = type [3 x i8]
%A = type [0 x i32]
%Z = type { %S, %A }
@s = global %S c"abc"
@e = global %A []
@n = global { %S } { %S c"abc" }
@p = global %Z { %S c"xyz", %A [] }
@arr = global [2 x %S] [%S c"abc", %S c"def"]
