;;; ATOM unrep/expr-udiv
@g = global i32 0
@e = global i64 udiv (i64 ptrtoint (i32* @g to i64), i64 5)
;;; ATOM unrep/expr-sdiv
@g = global i32 0
@f = global i64 sdiv exact (i64 ptrtoint (i32* @g to i64), i64 6)
;;; ATOM unrep/expr-urem
@g = global i32 0
@h = global i64 urem (i64 ptrtoint (i32* @g to i64), i64 7)
;;; ATOM unrep/expr-srem
@g = global i32 0
@i = global i64 srem (i64 ptrtoint (i32* @g to i64), i64 8)
;;; ATOM unrep/expr-fadd
@g = global i32 0
@fa = global float fadd (float bitcast (i32 ptrtoint (i32* @g to i32) to float), float 1.0)
;;; ATOM unrep/expr-fsub
@g = global i32 0
@fb = global float fsub (float bitcast (i32 ptrtoint (i32* @g to i32) to float), float 1.0)
;;; ATOM unrep/expr-fmul
@g = global i32 0
@fc = global float fmul (float bitcast (i32 ptrtoint (i32* @g to i32) to float), float 2.0)
;;; ATOM unrep/expr-fdiv
@g = global i32 0
@fd = global float fdiv (float bitcast (i32 ptrtoint (i32* @g to i32) to float), float 2.0)
;;; ATOM unrep/expr-frem
@g = global i32 0
@fe = global float frem (float bitcast (i32 ptrtoint (i32* @g to i32) to float), float 2.0)
;;; ATOM unrep/expr-extractvalue
@g = global i32 0
@d = global i32 extractvalue ({ i32, i8 } { i32 ptrtoint (i32* @g to i32), i8 0 }, 0)
;;; ATOM unrep/expr-insertvalue
@g = global i32 0
@e = global { i32, i8 } insertvalue ({ i32, i8 } { i32 ptrtoint (i32* @g to i32), i8 0 }, i8 1, 1)
;;; ATOM unrep/opaque-ptr
@g = global i32 0
@p = global ptr @g
;;; ATOM unrep/opaque-ptr-addrspace
@g = addrspace(1) global i32 0
@p = global ptr addrspace(1) @g
;;; ATOM unrep/opaque-ptr-inst
define i32 @f(ptr %p) {
  %v = load i32, ptr %p
  ret i32 %v
}
;;; ATOM unrep/bfloat
@b = global bfloat 0xR3F80
;;; ATOM unrep/bfloat-inst
define bfloat @f(bfloat %x) {
  %y = fadd bfloat %x, %x
  ret bfloat %y
}
;;; ATOM unrep/x86_amx
declare x86_amx @llvm.x86.tilezero.internal(i16, i16)
define void @f() {
  %t = call x86_amx @llvm.x86.tilezero.internal(i16 8, i16 8)
  ret void
}
;;; ATOM unrep/di-generic-subrange
!llvm.module.flags = !{!8}
!8 = !{i32 2, !"Debug Info Version", i32 3}
!37 = !DIGenericSubrange(count: 3, lowerBound: !DIExpression(DW_OP_constu, 1))
!md = !{!37}
