;;; ATOM global/linkage
@a = private global i32 0
@b = internal global i32 0
@c = available_externally global i32 0
@d = linkonce global i32 0
@e = weak global i32 0
@f = common global i32 0
@g = appending global [1 x i8*] [i8* null]
@h = extern_weak global i32
@i = linkonce_odr global i32 0
@j = weak_odr global i32 0
@k = external global i32
@l = global i32 0
@m = constant i32 1
@n = private unnamed_addr constant [2 x i8] c"a\00"
@o = external constant i32
;;; ATOM global/visibility-dll-tls-preemption
@a = hidden global i32 0
@b = protected global i32 0
@c = default global i32 0
@d = external dllimport global i32
@e = dllexport global i32 0
@f = thread_local global i32 0
@g = thread_local(localdynamic) global i32 0
@h = thread_local(initialexec) global i32 0
@i = thread_local(localexec) global i32 0
@j = dso_local global i32 0
@k = dso_preemptable global i32 0
@l = internal dso_local unnamed_addr constant i32 0
@m = external dso_local thread_local(initialexec) global i32
@n = weak_odr dso_local hidden local_unnamed_addr global i32 0
@o = external hidden global i32
;;; ATOM global/attrs
@a = global i32 0, align 8
@b = global i32 0, section "mysec"
@c = global i32 0, section "sec", align 4
@d = global i32 0, partition "part"
@e = addrspace(1) global i32 0
@f = external addrspace(2) constant i32, align 16
@g = externally_initialized global i32 0
@h = addrspace(3) externally_initialized constant i32 0, section "s", align 2
@i = global i32 0 #0
@j = global i32 0, !dbg !0, !foo !1
@k = global i32 0, section "x", partition "y", align 32, !foo !1
@l = unnamed_addr global i32 0
@m = local_unnamed_addr global i32 0
attributes #0 = { "key"="value" "k2" }
!0 = !DIGlobalVariableExpression(var: !2, expr: !DIExpression())
!1 = !{}
!2 = distinct !DIGlobalVariable(name: "j", scope: !3, file: !4, line: 1, type: !5, isLocal: false, isDefinition: true)
!3 = distinct !DICompileUnit(language: DW_LANG_C99, file: !4, producer: "x", isOptimized: false, runtimeVersion: 0, emissionKind: FullDebug, globals: !6)
!4 = !DIFile(filename: "a.c", directory: "/")
!5 = !DIBasicType(name: "int", size: 32, encoding: DW_ATE_signed)
!6 = !{!0}
!llvm.dbg.cu = !{!3}
!llvm.module.flags = !{!7}
!7 = !{i32 2, !"Debug Info Version", i32 3}
;;; ATOM global/comdat
$c1 = comdat any
$c2 = comdat exactmatch
$c3 = comdat largest
$c4 = comdat nodeduplicate
$c5 = comdat samesize
$f = comdat any
$"quoted comdat" = comdat any
@a = global i32 0, comdat($c1)
@c2 = global i32 0, comdat
@b = global i32 0, comdat($c3)
@d = global i32 0, section "s", comdat($c4), align 4
@e = global i32 0, comdat($c5)
@q = global i32 0, comdat($"quoted comdat")
define void @f() comdat {
  ret void
}
define void @g() comdat($c1) {
  ret void
}
;;; ATOM global/alias-ifunc
@g = global i32 0
@arr = global [4 x i32] zeroinitializer
@a1 = alias i32, i32* @g
@a2 = internal alias i32, i32* @g
@a3 = weak hidden unnamed_addr alias i8, bitcast (i32* @g to i8*)
@a4 = alias i32, getelementptr ([4 x i32], [4 x i32]* @arr, i32 0, i32 2)
@a5 = dso_local thread_local alias i32, i32* @g
@a6 = alias void (), void ()* @impl
@a7 = linkonce_odr dllexport local_unnamed_addr alias i32, i32* @a1
@a8 = alias i32, i32* @g, partition "p"
@i1 = ifunc void (), void ()* ()* @resolver
@i2 = internal ifunc void (), void ()* ()* @resolver
@i3 = weak hidden ifunc void (), void ()* ()* @resolver
define void @impl() {
  ret void
}
define void ()* @resolver() {
  ret void ()* @impl
}
;;; ATOM global/alias-addrspace
@g = addrspace(2) global i32 0
@arr = addrspace(3) global [4 x i32] zeroinitializer
@a1 = alias i32, i32 addrspace(2)* @g
@a2 = alias i32, getelementptr ([4 x i32], [4 x i32] addrspace(3)* @arr, i32 0, i32 1)
@a3 = alias i8, addrspacecast (i32 addrspace(2)* @g to i8*)
@a4 = alias i8, bitcast (i32 addrspace(2)* @g to i8 addrspace(2)*)
@u = global i8 addrspace(2)* bitcast (i32 addrspace(2)* @a1 to i8 addrspace(2)*)
;;; ATOM global/unnamed
@0 = global i32 0
@1 = global i32 1
@2 = alias i32, i32* @0
define void @3() {
  ret void
}
declare void @4()
@named = global i32* @1
;;; ATOM global/unnamed-interleaved
@0 = global i32 0
define void @1() {
  ret void
}
@2 = global i32 2
declare void @3()
@4 = alias i32, i32* @2
@use = global [3 x i8*] [i8* bitcast (void ()* @1 to i8*), i8* bitcast (i32* @2 to i8*), i8* bitcast (i32* @4 to i8*)]
;;; ATOM global/names
@"quoted name" = global i32 0
@"a\22b" = global i32 0
@"\01_foo" = global i32 0
@a.b_c-d$e = global i32 0
@"42" = global i32 0
@-x = global i32 0
@"with\5Cbackslash" = global i32 0
@"" = global i32 0
@"utf8\C3\A9" = global i32 0
@._ = global i32 0
;;; ATOM module/target-asm-source
source_filename = "dir/file name.c"
target datalayout = "e-m:e-p270:32:32-p271:32:32-p272:64:64-i64:64-f80:128-n8:16:32:64-S128"
target triple = "x86_64-pc-linux-gnu"
module asm "line one"
module asm "\09.globl foo"
module asm "with \22quotes\22"
@x = global i32 0
;;; ATOM module/uselistorder
@g = global i32 0
@a = global i32* @g
@b = global i32* @g
@c = global i32* @g
define i32 @f(i32 %x) {
entry:
  %a = add i32 %x, 1
  %b = add i32 %x, 2
  %c = add i32 %x, 3
  br label %next
next:
  br i1 undef, label %next, label %end
end:
  ret i32 %a
  uselistorder i32 %x, { 2, 0, 1 }
  uselistorder label %next, { 1, 0 }
}
uselistorder i32* @g, { 2, 0, 1 }
uselistorder_bb @f, %next, { 1, 0 }
;;; ATOM global/ifunc-resolver-expr
@i1 = ifunc i32 (), bitcast (i8* ()* @resolver to i32 ()* ()*)
@i2 = internal ifunc void (i8), bitcast (i8* ()* @resolver to void (i8)* ()*)
define internal i8* @resolver() {
  ret i8* null
}
;;; ATOM module/unnamed-globals-among-numbered-defs
%0 = type { i32, %1* }
%1 = type { %0 }
@0 = global i32 1, !k !7
@1 = private constant %0 { i32 5, %1* null }
@named = global i32* @0
define i32 @2() #5 {
  %1 = load i32, i32* @0
  ret i32 %1
}
@3 = alias i32, i32* @a1
@a1 = global i32 3
declare void @4() #9
attributes #5 = { nounwind }
attributes #9 = { readnone "k"="v" }
!named = !{!7, !12}
!7 = !{i32 42, !12}
!12 = distinct !{!"x"}
;;; ATOM global/comdat-numeric-names
$"0" = comdat any
$"42" = comdat any
$"1" = comdat any
@0 = global i32 0, comdat($"0")
@"42" = global i32 0, comdat
define void @1() comdat($"1") {
  ret void
}
define void @f() comdat($"42") {
  ret void
}
;;; ATOM global/unnamed-aliases-and-ifuncs
@g = global i32 0
@0 = alias i32, i32* @g
@1 = ifunc void (), void ()* ()* @res
@2 = alias i32, i32* @g
@3 = ifunc void (), void ()* ()* @res
define void ()* @res() {
  ret void ()* null
}
define void @4() {
  ret void
}
;;; ATOM module/datalayout-program-addrspace
target datalayout = "P1"
define void @f() addrspace(1) {
  ret void
}
declare void @d()
@p = global void () addrspace(1)* @f
@q = global void () addrspace(1)* @d
define void @g() {
  call void @f()
  call addrspace(1) void @d()
  ret void
}
;;; ATOM global/empty-quoted-names-repeated
@"" = global i32 5
@"" = global i32 6
@p = global i32* @1
define void @""() {
  ret void
}
@q = global void ()* @2
;;; ATOM module/datalayout-program-addrspace-implicit
target datalayout = "P1"
declare i32 @h(i8)
@t = global i64 ptrtoint (i32 (i8) addrspace(1)* @h to i64)
;;; ATOM global/alias-folded-expression-aliasee
@g = global i32 0
@h = global i32 1
@a = alias i32, i32* select (i1 true, i32* @g, i32* @h)
@b = alias i32, i32* select (i1 false, i32* @g, i32* @h)
;;; ATOM global/attributes-and-metadata
@counter = global i32 0, align 4, !annotation !0 #0
@named = global i32 0, section "s", align 4, !annotation !0, !other !1 "k"="v" "flag"
@plain = global i32 0 #0
attributes #0 = { "var-attr" }
!0 = !{!"a"}
!1 = !{!"b"}
;;; ATOM global/comdat-empty-quoted-name
$"" = comdat any
$a = comdat largest
@g = global i32 0, comdat($"")
@a = global i32 0, comdat
define void @f() comdat($"") {
  ret void
}
;;; ATOM global/alias-of-addrspacecast-across-address-spaces
@g = addrspace(1) global i32 0
@h = global i32 1
@e = alias i32, i32* addrspacecast (i32 addrspace(1)* @g to i32*)
@e2 = alias i32, i32 addrspace(2)* addrspacecast (i32* @h to i32 addrspace(2)*)
@e4 = weak alias i8, i8 addrspace(1)* bitcast (i32 addrspace(1)* @g to i8 addrspace(1)*)
@uses = global [2 x i32*] [i32* @e, i32* @e]

define i32 @f() {
  %a = load i32, i32* @e
  %b = load i32, i32 addrspace(2)* @e2
  %d = load i8, i8 addrspace(1)* @e4
  store i32 %a, i32 addrspace(2)* @e2
  ret i32 %b
}
;;; ATOM global/alias-of-addrspacecast-across-address-spaces-untyped
@g = addrspace(1) global i32 0
@e3 = alias i32, addrspacecast (i32 addrspace(1)* @g to i32 addrspace(3)*)
@uses3 = global i32 addrspace(3)* @e3

define i32 @f() {
  %c = load i32, i32 addrspace(3)* @e3
  ret i32 %c
}
;;; ATOM global/alias-and-ifunc-called-and-used
define void @f() {
  ret void
}
define void ()* @r() {
  ret void ()* @f
}
@a = weak alias void (), void ()* @f
@b = alias void (), void ()* @f
@a2 = alias void (), void ()* @b
@i = ifunc void (), void ()* ()* @r
@table = global [3 x void ()*] [void ()* @a, void ()* @f, void ()* @i]

define void @caller() personality i8* null {
  call void @a()
  call void @f()
  call void @a2()
  call void @b()
  call void @i()
  invoke void @a() to label %ok unwind label %lp
ok:
  %p = select i1 true, void ()* @a, void ()* @f
  call void %p()
  ret void
lp:
  %l = landingpad { i8*, i32 } cleanup
  ret void
}
;;; ATOM global/adjacent-backslashes
source_filename = "\\\\server\\share\\a.c"
$"c\\\\d" = comdat any
@"n\\\\m" = global i32 0, section "s\5C\5Ct", comdat($"c\\\\d"), !tag !0
define void @"f\\\\"() {
  call void asm sideeffect "nop \\\\ x", "~{dirflag}\\\\"()
  ret void
}
!0 = !{!"m\\\\d", !"\5C\5C\5C\5C"}
!k\5C\5C = !{!0}
;;; ATOM global/adjacent-backslashes-in-arrays
@lead = global [4 x i8] c"\\\\a\5C"
@tail = global [3 x i8] c"a\\\\"
@three = global [3 x i8] c"\5C\\\5C"
